/-
  Invariant of the registry / world model (`Inv`) and its preservation by the building blocks
  of every operation.  The per-operation theorems are in `OpProofs.lean`.
-/
import OVM.Registry.World
namespace OVM.Registry

/-- Everything that holds in every reachable state, except `noGarbage`; the position clause is
    suspended for the mesh `ex` that is under construction (between the clone of the persistent
    properties and `make_prop()` in a copy constructor). -/
structure InvX (w : World) (ex : Option Nat) : Prop where
  idsNodup    : (w.heap.map (·.id)).Nodup
  idsLt       : ∀ s ∈ w.heap, s.id < w.next
  meshNodup   : (w.meshes.map (·.id)).Nodup
  persShared  : ∀ s ∈ w.heap, s.pers = true → s.shared = true
  sharedNamed : ∀ s ∈ w.heap, s.shared = true → s.name ≠ ""
  unique      : ∀ s ∈ w.heap, ∀ t ∈ w.heap, s.shared = true → t.shared = true →
                  s.tracker.isSome = true → s.tracker = t.tracker → s.kind = t.kind → s.ty = t.ty →
                  s.name = t.name → s.id = t.id
  trackerLive : ∀ s ∈ w.heap, ∀ m, s.tracker = some m → ∃ me ∈ w.meshes, me.id = m
  persEntry   : ∀ me ∈ w.meshes, ∀ i ∈ me.pers, ∃ s ∈ w.heap, s.id = i ∧ s.pers = true ∧ s.tracker = some me.id
  persNodup   : ∀ me ∈ w.meshes, me.pers.Nodup
  persListed  : ∀ s ∈ w.heap, ∀ me ∈ w.meshes, s.pers = true → s.tracker = some me.id → s.id ∈ me.pers
  posOk       : ∀ me ∈ w.meshes, some me.id ≠ ex →
                  ∃ s ∈ w.heap, s.id = me.pos ∧ s.tracker = some me.id ∧ s.kind = .V ∧ s.ty = .vec3d
  handlesOk   : ∀ h ∈ w.handles, ∃ s ∈ w.heap, s.id = h.2
  sizes       : ∀ s ∈ w.heap, ∀ me ∈ w.meshes, s.tracker = some me.id → s.vals.length = me.cnt.n s.kind
  noFault     : w.fault = false
  handleKeys  : (w.handles.map (·.1)).Nodup

/-- The invariant of every reachable state. -/
structure Inv (w : World) : Prop where
  x : InvX w none
  noGarbage : ∀ s ∈ w.heap, owned w s.id = true

/-! ### lookups -/

theorem getS_some {w : World} {sid : Nat} {s : Storage} (h : getS w sid = some s) :
    s ∈ w.heap ∧ s.id = sid := by
  unfold getS at h
  exact ⟨List.mem_of_find?_eq_some h, by simpa using List.find?_some h⟩

theorem getM_some {w : World} {m : Nat} {me : Mesh} (h : getM w m = some me) :
    me ∈ w.meshes ∧ me.id = m := by
  unfold getM at h
  exact ⟨List.mem_of_find?_eq_some h, by simpa using List.find?_some h⟩

theorem getM_none {w : World} {m : Nat} (h : getM w m = none) : ∀ me ∈ w.meshes, me.id ≠ m := by
  unfold getM at h
  intro me hme e
  have := List.find?_eq_none.mp h me hme
  simp [e] at this

theorem hget_some {w : World} {h sid : Nat} (e : hget w h = some sid) : (h, sid) ∈ w.handles := by
  unfold hget at e
  cases hf : w.handles.find? (·.1 == h) with
  | none => simp [hf] at e
  | some p =>
    simp [hf] at e
    have := List.mem_of_find?_eq_some hf
    have h1 : p.1 = h := by simpa using List.find?_some hf
    cases p; simp_all

theorem idInj_of_nodup {l : List Storage} (h : (l.map (·.id)).Nodup) :
    ∀ s ∈ l, ∀ t ∈ l, s.id = t.id → s = t := by
  induction l with
  | nil => simp
  | cons a l ih =>
    simp only [List.map_cons, List.nodup_cons, List.mem_map, not_exists, not_and] at h
    intro s hs t ht e
    simp only [List.mem_cons] at hs ht
    rcases hs with rfl | hs <;> rcases ht with rfl | ht
    · rfl
    · exact absurd e.symm (h.1 t ht)
    · exact absurd e (h.1 s hs)
    · exact ih h.2 s hs t ht e

theorem meshInj_of_nodup {l : List Mesh} (h : (l.map (·.id)).Nodup) :
    ∀ s ∈ l, ∀ t ∈ l, s.id = t.id → s = t := by
  induction l with
  | nil => simp
  | cons a l ih =>
    simp only [List.map_cons, List.nodup_cons, List.mem_map, not_exists, not_and] at h
    intro s hs t ht e
    simp only [List.mem_cons] at hs ht
    rcases hs with rfl | hs <;> rcases ht with rfl | ht
    · rfl
    · exact absurd e.symm (h.1 t ht)
    · exact absurd e (h.1 s hs)
    · exact ih h.2 s hs t ht e

theorem InvX.idInj {w : World} {ex} (hi : InvX w ex) :
    ∀ s ∈ w.heap, ∀ t ∈ w.heap, s.id = t.id → s = t := idInj_of_nodup hi.idsNodup

theorem InvX.meshInj {w : World} {ex} (hi : InvX w ex) :
    ∀ s ∈ w.meshes, ∀ t ∈ w.meshes, s.id = t.id → s = t := meshInj_of_nodup hi.meshNodup

theorem getS_of_mem {w : World} {ex} (hi : InvX w ex) {s : Storage} (hs : s ∈ w.heap) :
    getS w s.id = some s := by
  unfold getS
  cases h : w.heap.find? (·.id == s.id) with
  | none =>
    have := List.find?_eq_none.mp h s hs
    simp at this
  | some t =>
    have ht := List.mem_of_find?_eq_some h
    have e : t.id = s.id := by simpa using List.find?_some h
    rw [hi.idInj t ht s hs e]

theorem getM_of_mem {w : World} {ex} (hi : InvX w ex) {me : Mesh} (hs : me ∈ w.meshes) :
    getM w me.id = some me := by
  unfold getM
  cases h : w.meshes.find? (·.id == me.id) with
  | none =>
    have := List.find?_eq_none.mp h me hs
    simp at this
  | some t =>
    have ht := List.mem_of_find?_eq_some h
    have e : t.id = me.id := by simpa using List.find?_some h
    rw [hi.meshInj t ht me hs e]

theorem owned_iff (w : World) (i : Nat) :
    owned w i = true ↔ (∃ h ∈ w.handles, h.2 = i) ∨ (∃ me ∈ w.meshes, me.pos = i ∨ i ∈ me.pers) := by
  simp [owned, List.any_eq_true]

/-- `internal_find_property` found something: it is a shared storage of that mesh with that key -/
theorem find_some {w : World} {m : Nat} {k : Kind} {ty : Ty} {name : String} {sid : Nat}
    (h : find w m k ty name = some sid) :
    name ≠ "" ∧ ∃ s ∈ w.heap, s.id = sid ∧ s.tracker = some m ∧ s.kind = k ∧ s.shared = true ∧
      s.name = name ∧ s.ty = ty := by
  unfold find at h
  split at h; · cases h
  rename_i hn
  cases hf : w.heap.find? (matchKey m k ty name) with
  | none => simp [hf] at h
  | some s =>
    simp [hf] at h
    have hm := List.mem_of_find?_eq_some hf
    have hp := List.find?_some hf
    simp [matchKey] at hp
    exact ⟨hn, s, hm, h, by simp [hp.1.1.1.1], hp.1.1.1.2, hp.1.1.2, hp.1.2, hp.2⟩

/-- it found nothing: no shared storage of that mesh has the key (for a non-empty name) -/
theorem find_none {w : World} {m : Nat} {k : Kind} {ty : Ty} {name : String}
    (h : find w m k ty name = none) (hn : name ≠ "") :
    ∀ s ∈ w.heap, s.tracker = some m → s.kind = k → s.shared = true → s.name = name → s.ty = ty → False := by
  unfold find at h
  simp [hn] at h
  intro s hs h1 h2 h3 h4 h5
  have := h s hs
  simp [matchKey, h1, h2, h3, h4, h5] at this


/-! ### garbage collection -/

@[simp] theorem gc_meshes (w : World) : (gc w).meshes = w.meshes := rfl
@[simp] theorem gc_handles (w : World) : (gc w).handles = w.handles := rfl
@[simp] theorem gc_next (w : World) : (gc w).next = w.next := rfl
@[simp] theorem gc_fault (w : World) : (gc w).fault = w.fault := rfl
@[simp] theorem owned_gc (w : World) (i : Nat) : owned (gc w) i = owned w i := rfl
theorem mem_gc {w : World} {s : Storage} : s ∈ (gc w).heap ↔ s ∈ w.heap ∧ owned w s.id = true := by
  simp [gc, List.mem_filter]

/-- destroying what nobody owns keeps the invariant and establishes `noGarbage` -/
theorem gc_inv {w : World} (hi : InvX w none) : Inv (gc w) := by
  refine ⟨⟨?_, ?_, ?_, ?_, ?_, ?_, ?_, ?_, ?_, ?_, ?_, ?_, ?_, ?_, ?_⟩, ?_⟩
  · exact hi.idsNodup.sublist ((List.filter_sublist (l := w.heap)).map _)
  · exact fun s hs => hi.idsLt s (mem_gc.mp hs).1
  · exact hi.meshNodup
  · exact fun s hs => hi.persShared s (mem_gc.mp hs).1
  · exact fun s hs => hi.sharedNamed s (mem_gc.mp hs).1
  · exact fun s hs t ht => hi.unique s (mem_gc.mp hs).1 t (mem_gc.mp ht).1
  · exact fun s hs => hi.trackerLive s (mem_gc.mp hs).1
  · intro me hme i hi'
    obtain ⟨s, hs, e1, e2, e3⟩ := hi.persEntry me hme i hi'
    refine ⟨s, mem_gc.mpr ⟨hs, ?_⟩, e1, e2, e3⟩
    exact (owned_iff w s.id).mpr (Or.inr ⟨me, hme, Or.inr (e1 ▸ hi')⟩)
  · exact hi.persNodup
  · exact fun s hs => hi.persListed s (mem_gc.mp hs).1
  · intro me hme hne
    obtain ⟨s, hs, e1, e2⟩ := hi.posOk me hme hne
    refine ⟨s, mem_gc.mpr ⟨hs, ?_⟩, e1, e2⟩
    exact (owned_iff w s.id).mpr (Or.inr ⟨me, hme, Or.inl e1.symm⟩)
  · intro h hh
    obtain ⟨s, hs, e1⟩ := hi.handlesOk h hh
    refine ⟨s, mem_gc.mpr ⟨hs, ?_⟩, e1⟩
    exact (owned_iff w s.id).mpr (Or.inl ⟨h, hh, e1.symm⟩)
  · exact fun s hs => hi.sizes s (mem_gc.mp hs).1
  · exact hi.noFault
  · exact hi.handleKeys
  · exact fun s hs => (mem_gc.mp hs).2

/-- in a state without garbage `gc` is the identity -/
theorem gc_id {w : World} (hi : Inv w) : gc w = w := by
  have : w.heap.filter (fun s => owned w s.id) = w.heap :=
    List.filter_eq_self.mpr (fun s hs => hi.noGarbage s hs)
  simp [gc, this]


/-! ### the generic transformation: map over the heap and over the mesh records -/

/-- `f` keeps what identifies a storage and where it is attached -/
def KeepsStorage (f : Storage → Storage) : Prop :=
  ∀ s, (f s).id = s.id ∧ (f s).kind = s.kind ∧ (f s).ty = s.ty ∧ (f s).tracker = s.tracker

/-- `g` keeps the identity and the position handle of a mesh -/
def KeepsMesh (g : Mesh → Mesh) : Prop := ∀ me, (g me).id = me.id ∧ (g me).pos = me.pos

theorem invX_map {w : World} {ex : Option Nat} (hi : InvX w ex) (g : Mesh → Mesh) (f : Storage → Storage)
    (hg : KeepsMesh g) (hf : KeepsStorage f)
    (c4 : ∀ s ∈ w.heap, (f s).pers = true → (f s).shared = true)
    (c5 : ∀ s ∈ w.heap, (f s).shared = true → (f s).name ≠ "")
    (c6 : ∀ s ∈ w.heap, ∀ t ∈ w.heap, (f s).shared = true → (f t).shared = true →
            s.tracker.isSome = true → s.tracker = t.tracker → s.kind = t.kind → s.ty = t.ty →
            (f s).name = (f t).name → s.id = t.id)
    (c8 : ∀ me ∈ w.meshes, ∀ i ∈ (g me).pers, ∃ s ∈ w.heap, s.id = i ∧ (f s).pers = true ∧ s.tracker = some me.id)
    (c9 : ∀ me ∈ w.meshes, (g me).pers.Nodup)
    (c10 : ∀ s ∈ w.heap, ∀ me ∈ w.meshes, (f s).pers = true → s.tracker = some me.id → s.id ∈ (g me).pers)
    (c13 : ∀ s ∈ w.heap, ∀ me ∈ w.meshes, s.tracker = some me.id → (f s).vals.length = (g me).cnt.n s.kind) :
    InvX { w with meshes := w.meshes.map g, heap := w.heap.map f } ex := by
  have idmap : (w.heap.map f).map (·.id) = w.heap.map (·.id) := by
    simp [List.map_map, Function.comp_def, (hf _).1]
  have midmap : (w.meshes.map g).map (·.id) = w.meshes.map (·.id) := by
    simp [List.map_map, Function.comp_def, (hg _).1]
  refine ⟨?_, ?_, ?_, ?_, ?_, ?_, ?_, ?_, ?_, ?_, ?_, ?_, ?_, ?_, ?_⟩
  · simpa [idmap] using hi.idsNodup
  · intro s' hs'
    obtain ⟨s, hs, rfl⟩ := List.mem_map.mp hs'
    rw [(hf s).1]; exact hi.idsLt s hs
  · simpa [midmap] using hi.meshNodup
  · intro s' hs'
    obtain ⟨s, hs, rfl⟩ := List.mem_map.mp hs'
    exact c4 s hs
  · intro s' hs'
    obtain ⟨s, hs, rfl⟩ := List.mem_map.mp hs'
    exact c5 s hs
  · intro s' hs' t' ht'
    obtain ⟨s, hs, rfl⟩ := List.mem_map.mp hs'
    obtain ⟨t, ht, rfl⟩ := List.mem_map.mp ht'
    rw [(hf s).1, (hf t).1, (hf s).2.2.2, (hf t).2.2.2, (hf s).2.1, (hf t).2.1, (hf s).2.2.1, (hf t).2.2.1]
    exact c6 s hs t ht
  · intro s' hs' m hm
    obtain ⟨s, hs, rfl⟩ := List.mem_map.mp hs'
    rw [(hf s).2.2.2] at hm
    obtain ⟨me, hme, e⟩ := hi.trackerLive s hs m hm
    exact ⟨g me, List.mem_map.mpr ⟨me, hme, rfl⟩, by rw [(hg me).1]; exact e⟩
  · intro me' hme' i hi'
    obtain ⟨me, hme, rfl⟩ := List.mem_map.mp hme'
    obtain ⟨s, hs, e1, e2, e3⟩ := c8 me hme i hi'
    exact ⟨f s, List.mem_map.mpr ⟨s, hs, rfl⟩, by rw [(hf s).1]; exact e1, e2,
      by rw [(hf s).2.2.2, (hg me).1]; exact e3⟩
  · intro me' hme'
    obtain ⟨me, hme, rfl⟩ := List.mem_map.mp hme'
    exact c9 me hme
  · intro s' hs' me' hme' hp ht
    obtain ⟨s, hs, rfl⟩ := List.mem_map.mp hs'
    obtain ⟨me, hme, rfl⟩ := List.mem_map.mp hme'
    rw [(hf s).1]
    rw [(hf s).2.2.2, (hg me).1] at ht
    exact c10 s hs me hme hp ht
  · intro me' hme' hne
    obtain ⟨me, hme, rfl⟩ := List.mem_map.mp hme'
    rw [(hg me).1] at hne
    obtain ⟨s, hs, e1, e2, e3, e4⟩ := hi.posOk me hme hne
    exact ⟨f s, List.mem_map.mpr ⟨s, hs, rfl⟩, by rw [(hf s).1, (hg me).2]; exact e1,
      by rw [(hf s).2.2.2, (hg me).1]; exact e2, by rw [(hf s).2.1]; exact e3, by rw [(hf s).2.2.1]; exact e4⟩
  · intro h hh
    obtain ⟨s, hs, e⟩ := hi.handlesOk h hh
    exact ⟨f s, List.mem_map.mpr ⟨s, hs, rfl⟩, by rw [(hf s).1]; exact e⟩
  · intro s' hs' me' hme' ht
    obtain ⟨s, hs, rfl⟩ := List.mem_map.mp hs'
    obtain ⟨me, hme, rfl⟩ := List.mem_map.mp hme'
    rw [(hf s).2.2.2, (hg me).1] at ht
    rw [(hf s).2.1]
    exact c13 s hs me hme ht
  · exact hi.noFault
  · exact hi.handleKeys

/-- the handle table may change as long as every handle resolves and the slots stay distinct -/
theorem invX_handles {w : World} {ex : Option Nat} (hi : InvX w ex) (hs : List (Nat × Nat))
    (h : ∀ p ∈ hs, ∃ s ∈ w.heap, s.id = p.2) (hn : (hs.map (·.1)).Nodup) : InvX { w with handles := hs } ex :=
  { hi with handlesOk := h, handleKeys := hn }

theorem hget_none {w : World} {h : Nat} (e : hget w h = none) : ∀ p ∈ w.handles, p.1 ≠ h := by
  unfold hget at e
  intro p hp hne
  cases hf : w.handles.find? (·.1 == h) with
  | none =>
    have := List.find?_eq_none.mp hf p hp
    simp [hne] at this
  | some q => simp [hf] at e

theorem invX_addHandle {w : World} {ex : Option Nat} (hi : InvX w ex) (h sid : Nat)
    (hs : ∃ s ∈ w.heap, s.id = sid) (hfree : hget w h = none) : InvX (addHandle w h sid) ex := by
  refine invX_handles hi _ ?_ ?_
  · intro p hp
    simp only [List.mem_cons] at hp
    rcases hp with rfl | hp
    · exact hs
    · exact hi.handlesOk p hp
  · simp only [List.map_cons, List.nodup_cons]
    refine ⟨?_, hi.handleKeys⟩
    intro hm
    obtain ⟨p, hp, e⟩ := List.mem_map.mp hm
    exact hget_none hfree p hp e

theorem invX_delHandle {w : World} {ex : Option Nat} (hi : InvX w ex) (h : Nat) :
    InvX (delHandle w h) ex :=
  invX_handles hi _ (fun p hp => hi.handlesOk p (List.mem_filter.mp hp).1)
    (hi.handleKeys.sublist ((List.filter_sublist (l := w.handles)).map _))

/-- weakening: suspending the position clause for one mesh -/
theorem InvX.weaken {w : World} (hi : InvX w none) (ex : Option Nat) : InvX w ex :=
  { hi with posOk := fun me hme _ => hi.posOk me hme (by simp) }

end OVM.Registry

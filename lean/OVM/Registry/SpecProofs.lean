/-
  Functional specification lemmas about the registry model used by the property theorems of
  C14 (and some of C13): counting, existence ⇔ ownership, what request/create/get return,
  which calls throw, what a handle sees after its mesh died.
-/
import OVM.Registry.WorldProofs
namespace OVM.Registry

/-! ### counting -/

theorem nodup_filter {α} {l : List α} (p : α → Bool) (h : l.Nodup) : (l.filter p).Nodup :=
  h.sublist List.filter_sublist

/-- `n_persistent_props<k>()` (size of the owning set) = number of storages of kind `k` that are
    flagged persistent and attached to the mesh -/
theorem nPers_eq_count {w : World} (hi : Inv w) {me : Mesh} (hme : me ∈ w.meshes) (k : Kind) :
    nPers w me.id k =
      (w.heap.filter (fun s => s.pers && s.tracker == some me.id && s.kind == k)).length := by
  have hx := hi.x
  unfold nPers
  rw [getM_of_mem hx hme]
  simp only
  have n1 : (me.pers.filter (fun i => (getS w i).any (·.kind == k))).Nodup := nodup_filter _ (hx.persNodup me hme)
  have n2 : ((w.heap.filter (fun s => s.pers && s.tracker == some me.id && s.kind == k)).map (·.id)).Nodup :=
    hx.idsNodup.sublist ((List.filter_sublist (l := w.heap)).map _)
  have hp : (me.pers.filter (fun i => (getS w i).any (·.kind == k))).Perm
      ((w.heap.filter (fun s => s.pers && s.tracker == some me.id && s.kind == k)).map (·.id)) := by
    refine (List.perm_ext_iff_of_nodup n1 n2).mpr ?_
    intro i
    simp only [List.mem_filter, List.mem_map, Bool.and_eq_true, beq_iff_eq]
    constructor
    · rintro ⟨hip, hk⟩
      obtain ⟨s, hs, e1, e2, e3⟩ := hx.persEntry me hme i hip
      have : getS w i = some s := by rw [← e1]; exact getS_of_mem hx hs
      rw [this] at hk
      exact ⟨s, ⟨hs, ⟨e2, e3⟩, by simpa using hk⟩, e1⟩
    · rintro ⟨s, ⟨hs, ⟨e2, e3⟩, hk⟩, rfl⟩
      refine ⟨hx.persListed s hs me hme e2 e3, ?_⟩
      rw [getS_of_mem hx hs]; simpa using hk
  rw [hp.length_eq, List.length_map]

/-- `n_props<k>()` is the number of *distinct* storages of kind `k` attached to the mesh -/
theorem nProps_distinct {w : World} (hi : Inv w) (m : Nat) (k : Kind) :
    nProps w m k = ((tracked w m k).map (·.id)).length ∧ ((tracked w m k).map (·.id)).Nodup ∧
      ∀ s, s ∈ tracked w m k ↔ s ∈ w.heap ∧ s.tracker = some m ∧ s.kind = k := by
  refine ⟨by simp [nProps], hi.x.idsNodup.sublist ((List.filter_sublist (l := w.heap)).map _), ?_⟩
  intro s; simp [tracked, List.mem_filter]

/-! ### existence ⇔ ownership -/

/-- a storage exists exactly as long as some handle refers to it (a user handle or the mesh's
    position handle) or it is persistent on a live mesh -/
theorem exists_iff_referenced {w : World} (hi : Inv w) (i : Nat) :
    (∃ s ∈ w.heap, s.id = i) ↔
      (∃ h ∈ w.handles, h.2 = i) ∨ (∃ me ∈ w.meshes, me.pos = i) ∨
      (∃ s ∈ w.heap, s.id = i ∧ s.pers = true ∧ ∃ me ∈ w.meshes, s.tracker = some me.id) := by
  have hx := hi.x
  constructor
  · rintro ⟨s, hs, rfl⟩
    rcases (owned_iff w s.id).mp (hi.noGarbage s hs) with ⟨h, hh, e⟩ | ⟨me, hme, e | e⟩
    · exact Or.inl ⟨h, hh, e⟩
    · exact Or.inr (Or.inl ⟨me, hme, e⟩)
    · obtain ⟨s', hs', e1, e2, e3⟩ := hx.persEntry me hme _ e
      have : s' = s := hx.idInj s' hs' s hs e1
      subst this
      exact Or.inr (Or.inr ⟨s', hs, rfl, e2, me, hme, e3⟩)
  · rintro (⟨h, hh, rfl⟩ | ⟨me, hme, rfl⟩ | ⟨s, hs, e, _⟩)
    · exact hx.handlesOk h hh
    · obtain ⟨s, hs, e, _⟩ := hx.posOk me hme (by simp); exact ⟨s, hs, e⟩
    · exact ⟨s, hs, e⟩

/-! ### `gc` does nothing when the call released no owner -/

theorem gc_eq_self {w : World} (h : ∀ s ∈ w.heap, owned w s.id = true) : gc w = w := by
  have : w.heap.filter (fun s => owned w s.id) = w.heap := List.filter_eq_self.mpr h
  simp [gc, this]

theorem step_of_core_noGarbage {w w1 : World} {op : Op} {r : Res} (e : core w op = .ok (w1, r))
    (h : ∀ s ∈ w1.heap, owned w1 s.id = true) : step w op = .ok (w1, r) := by
  simp [step, e, gc_eq_self h]

/-! ### lookups by name -/

/-- a storage that is not shared (private, or anonymised by `clear_props` / assignment) is never
    returned by `internal_find_property` -/
theorem private_not_found {w : World} (hi : Inv w) {s : Storage} (hs : s ∈ w.heap) (hp : s.shared = false)
    (m : Nat) (k : Kind) (ty : Ty) (name : String) : find w m k ty name ≠ some s.id := by
  intro h
  obtain ⟨_, t, ht, hid, _, _, hsh, _⟩ := find_some h
  have : t = s := hi.x.idInj t ht s hs hid
  subst this
  simp [hp] at hsh

/-- what it returns is the shared storage with that key on that mesh; there is only one -/
theorem find_unique {w : World} (hi : Inv w) {m : Nat} {k : Kind} {ty : Ty} {name : String} {s : Storage}
    (hs : s ∈ w.heap) (ht : s.tracker = some m) (hk : s.kind = k) (hsh : s.shared = true) (hn : s.name = name)
    (hty : s.ty = ty) : find w m k ty name = some s.id := by
  have hne : name ≠ "" := hn ▸ hi.x.sharedNamed s hs hsh
  cases hf : find w m k ty name with
  | none => exact (find_none hf hne s hs ht hk hsh hn hty).elim
  | some sid =>
    obtain ⟨_, t, ht', hid, e1, e2, e3, e4, e5⟩ := find_some hf
    have := hi.x.unique s hs t ht' hsh e3 (by simp [ht]) (by rw [ht, e1]) (by rw [hk, e2]) (by rw [hty, e5]) (by rw [hn, e4])
    rw [← hid, this]

/-! ### request / create / get -/

theorem request_existing {w : World} {m h : Nat} {k : Kind} {ty : Ty} {name : String} {d : Int} {sid : Nat}
    (hm : (getM w m).isSome = true) (hf : freeSlot w h = true) (hfind : find w m k ty name = some sid) :
    core w (.request m h k ty name d) = .ok (addHandle w h sid, .ok) := by
  obtain ⟨me, hme⟩ := Option.isSome_iff_exists.mp hm
  simp [core, request, hme, hf, hfind]

theorem request_creates {w : World} {m h : Nat} {k : Kind} {ty : Ty} {name : String} {d : Int} {me : Mesh}
    (hm : getM w m = some me) (hf : freeSlot w h = true) (hfind : find w m k ty name = none) :
    core w (.request m h k ty name d) = .ok (createRaw w me h k ty name d (name != ""), .ok) := by
  simp [core, request, hm, hf, hfind]

theorem createShared_refuses {w : World} {m h : Nat} {k : Kind} {ty : Ty} {name : String} {d : Int} {sid : Nat}
    (hfind : find w m k ty name = some sid) (r : World × Res)
    (e : core w (.createShared m h k ty name d) = .ok r) : r = (w, .none) := by
  simp only [core, createShared] at e
  split at e; · cases e
  split at e; · cases e
  split at e; · cases e
  simp [hfind] at e; exact e.symm

theorem createPersistent_refuses {w : World} {m h : Nat} {k : Kind} {ty : Ty} {name : String} {d : Int} {sid : Nat}
    (hfind : find w m k ty name = some sid) (r : World × Res)
    (e : core w (.createPersistent m h k ty name d) = .ok r) : r = (w, .none) := by
  simp only [core, createPersistent] at e
  split at e; · cases e
  split at e; · cases e
  split at e; · cases e
  simp [hfind] at e; exact e.symm

theorem create_empty_name_throws (w : World) (m h : Nat) (k : Kind) (ty : Ty) (d : Int)
    (hm : (getM w m).isSome = true) (hf : freeSlot w h = true) :
    core w (.createShared m h k ty "" d) = .error .runtime ∧
    core w (.createPersistent m h k ty "" d) = .error .runtime := by
  obtain ⟨me, hme⟩ := Option.isSome_iff_exists.mp hm
  simp [core, createShared, createPersistent, hme, hf]

/-! ### which flag transitions throw -/

theorem setPersistent_private_throws {w : World} {m h : Nat} {s : Storage} (ho : ownStorage w m h = some s)
    (hp : s.pers = false) (hsh : s.shared = false) : core w (.setPersistent m h true) = .error .runtime := by
  simp [core, setPersistent, ho, hp, hsh]

theorem setShared_anonymous_throws {w : World} {m h : Nat} {s : Storage} (ho : ownStorage w m h = some s)
    (hsh : s.shared = false) (hn : s.name = "") : core w (.setShared m h true) = .error .runtime := by
  simp [core, setShared, ho, hsh, hn]

theorem setShared_duplicate_throws {w : World} {m h : Nat} {s : Storage} {sid : Nat} (ho : ownStorage w m h = some s)
    (hsh : s.shared = false) (hn : s.name ≠ "") (hf : find w m s.kind s.ty s.name = some sid) :
    core w (.setShared m h true) = .error .runtime := by
  simp [core, setShared, ho, hsh, hn, hf]

theorem setName_shared_empty_throws {w : World} {h sid : Nat} {s : Storage} (hh : hget w h = some sid)
    (hs : getS w sid = some s) (hsh : s.shared = true) : core w (.setName h "") = .error .runtime := by
  simp [core, setName, hh, hs, hsh]

theorem setName_shared_clash_throws {w : World} {h sid : Nat} {s : Storage} {name : String} (hh : hget w h = some sid)
    (hs : getS w sid = some s) (hsh : s.shared = true) (hc : nameClash w s name = true) :
    core w (.setName h name) = .error .runtime := by
  simp [core, setName, hh, hs, hsh, hc]

/-- a throwing (or un-issuable) call changes nothing -/
theorem error_unchanged {w : World} {op : Op} {e : Err} (h : step w op = .error e) : next w op = w := by
  simp [next, h]

/-! ### a handle that outlives its mesh -/

theorem find_map_id (l : List Storage) (f : Storage → Storage) (hf : ∀ s, (f s).id = s.id) (sid : Nat) :
    (l.map f).find? (·.id == sid) = (l.find? (·.id == sid)).map f := by
  induction l with
  | nil => rfl
  | cons a l ih =>
    rw [List.map_cons, List.find?_cons, List.find?_cons, hf]
    cases (a.id == sid)
    · exact ih
    · rfl

theorem getS_mapHeap {w : World} (f : Storage → Storage) (hf : ∀ s, (f s).id = s.id) (sid : Nat) :
    getS (mapHeap w f) sid = (getS w sid).map f := find_map_id w.heap f hf sid

theorem getS_gc_of_owned {w : World} {sid : Nat} {s : Storage} (h : getS w sid = some s)
    (ho : owned w sid = true) : getS (gc w) sid = some s := by
  unfold getS gc at *
  simp only
  rw [List.find?_filter]
  have : (fun a : Storage => decide (owned w a.id = true ∧ (a.id == sid) = true)) = (fun a => a.id == sid) := by
    funext a
    by_cases e : a.id = sid
    · simp [e, ho]
    · simp [e]
  rw [this]; exact h

/-- after `~Mesh`, a handle obtained from that mesh still resolves, reports being detached and
    sees the same name, flags, default and values -/
theorem handle_outlives_mesh {w w' : World} {m h sid : Nat} {s : Storage} {r : Res}
    (hh : hget w h = some sid) (hs : getS w sid = some s) (ht : s.tracker = some m)
    (e : step w (.destroy m) = .ok (w', r)) :
    hview w' h = some { s with tracker := none } := by
  obtain ⟨w1, hc, rfl⟩ := step_ok e
  simp only [core, destroyMesh] at hc
  split at hc; · cases hc
  cases hc
  have h1 : hget (gc (detachAll w m)) h = some sid := hh
  have h2 : getS (detachAll w m) sid = some { s with tracker := none } := by
    have : getS (detachAll w m) sid = (getS w sid).map (fun s => if s.tracker = some m then { s with tracker := none } else s) :=
      getS_mapHeap (w := w) _ (by intro s; split <;> rfl) sid
    rw [this, hs]; simp [ht]
  have h3 : owned (detachAll w m) sid = true :=
    (owned_iff _ sid).mpr (Or.inl ⟨(h, sid), hget_some hh, rfl⟩)
  unfold hview
  rw [h1]
  exact getS_gc_of_owned h2 h3


/-! ### step-level forms (no garbage is produced by these calls) -/

theorem owned_mono_handles {w w1 : World} (hm : w1.meshes = w.meshes) (hh : ∀ p ∈ w.handles, p ∈ w1.handles) {i : Nat}
    (h : owned w i = true) : owned w1 i = true := by
  rcases (owned_iff w i).mp h with ⟨p, hp, e⟩ | ⟨me, hme, e⟩
  · exact (owned_iff w1 i).mpr (Or.inl ⟨p, hh p hp, e⟩)
  · exact (owned_iff w1 i).mpr (Or.inr ⟨me, hm ▸ hme, e⟩)

theorem request_step_existing {w : World} (hi : Inv w) {m h : Nat} {k : Kind} {ty : Ty} {name : String} {d : Int} {sid : Nat}
    (hm : (getM w m).isSome = true) (hf : freeSlot w h = true) (hfind : find w m k ty name = some sid) :
    step w (.request m h k ty name d) = .ok (addHandle w h sid, .ok) := by
  refine step_of_core_noGarbage (request_existing hm hf hfind) ?_
  intro s hs
  exact owned_mono_handles (w := w) (w1 := addHandle w h sid) rfl (fun p hp => List.mem_cons_of_mem _ hp) (hi.noGarbage s hs)

theorem request_step_creates {w : World} (hi : Inv w) {m h : Nat} {k : Kind} {ty : Ty} {name : String} {d : Int} {me : Mesh}
    (hm : getM w m = some me) (hf : freeSlot w h = true) (hfind : find w m k ty name = none) :
    step w (.request m h k ty name d) = .ok (createRaw w me h k ty name d (name != ""), .ok) := by
  refine step_of_core_noGarbage (request_creates hm hf hfind) ?_
  intro s hs
  simp only [createRaw, addHandle, alloc, List.mem_append, List.mem_singleton] at hs
  rcases hs with hs | rfl
  · exact owned_mono_handles (w := w) (w1 := createRaw w me h k ty name d (name != "")) rfl
      (fun p hp => List.mem_cons_of_mem _ hp) (hi.noGarbage s hs)
  · exact (owned_iff _ _).mpr (Or.inl ⟨(h, w.next), by simp [createRaw, addHandle, alloc], rfl⟩)

theorem create_step_refuses {w : World} (hi : Inv w) {m h : Nat} {k : Kind} {ty : Ty} {name : String} {d : Int} {sid : Nat}
    (hm : (getM w m).isSome = true) (hf : freeSlot w h = true) (hn : name ≠ "") (hfind : find w m k ty name = some sid) :
    step w (.createShared m h k ty name d) = .ok (w, .none) ∧
    step w (.createPersistent m h k ty name d) = .ok (w, .none) := by
  obtain ⟨me, hme⟩ := Option.isSome_iff_exists.mp hm
  constructor
  · simp [step, core, createShared, hme, hf, hn, hfind, gc_id hi]
  · simp [step, core, createPersistent, hme, hf, hn, hfind, gc_id hi]

end OVM.Registry

/-
  M — mechanism model of the property registry of `ResourceManager`
  (src/OpenVolumeMesh/Core/ResourceManager.{hh,cc}, ResourceManagerT_impl.hh,
   Core/Properties/PropertyStorageBase.hh, PropertyStorageT.hh, PropertyStoragePtr.hh).

  State: a heap of property storages, the meshes that track them, and the user's handles.

  * A `Storage` is a `PropertyStorageT<T>`: the fields of `PropertyStorageBase`
    (PropertyStorageBase.hh:180-190: name_, internal_type_name_, entity_type_, persistent_,
    shared_), the back pointer `Tracked::tracker_` (Tracking.hh:159) and `data_`/`def_`
    (PropertyStorageT.hh:218-219).  Values are integer *tokens* (what the registry does never
    depends on the value type; `bool` stores the parity).
  * `tracker = some m` is the raw pointer to the `storage_trackers_[kind]` of mesh `m`; the
    tracker's `std::set` is the *derived* set `tracked w m k`.  That the two-sided C++
    representation (pointer in the storage + set in the tracker) is always consistent and
    never dangles is the theorem about `OVM/Registry/Tracker.lean`.
  * Ownership is `std::shared_ptr`: a storage is owned by every user handle (`PropertyPtr`),
    by the `position_` handle of its `GeometryKernel` and by `persistent_props_` of its mesh.
    `gc` destroys what no one owns any more; `step` (World.lean) runs it after every
    transition (it is the identity unless the transition released the last owner) —
    `std::shared_ptr` itself is trusted, not modelled.
  * Unchecked C++ accesses set the ghost flag `fault` instead of being totalised away.

  The model mirrors the code *after* the `fix:` commits a0b1b3d (checked `set_name`),
  5796dc6 (create_shared/persistent refuse ""), 02a7a45 (`clear` always resizes),
  445be8b (`make_prop` = `request_property`).

  core-only imports (imported by the compiled judge).
-/
namespace OVM.Registry

/-- `EntityType` (Entities.hh:10) in `for_each_entity` order. -/
inductive Kind where
  | V | E | HE | F | HF | C | M
deriving DecidableEq, Repr, Inhabited

def Kind.all : List Kind := [.V, .E, .HE, .F, .HF, .C, .M]

/-- the value types the driver instantiates; the model only ever compares them
    (`internal_type_name() == type_name`, ResourceManagerT_impl.hh:141) -/
inductive Ty where
  | int | bool | double | string | vec3d
deriving DecidableEq, Repr, Inhabited

/-- what is read back after storing token `t` in a slot of type `ty` -/
def enc (ty : Ty) (t : Int) : Int := if ty = .bool then t % 2 else t

/-- `n_vertices() … n_cells()`; `ResourceManager::n<EntityTag>()` (ResourceManager.cc:154-160) -/
structure Counts where
  nV : Nat := 0
  nE : Nat := 0
  nF : Nat := 0
  nC : Nat := 0
deriving DecidableEq, Repr, Inhabited

def Counts.n (c : Counts) : Kind → Nat
  | .V => c.nV | .E => c.nE | .HE => 2 * c.nE | .F => c.nF | .HF => 2 * c.nF | .C => c.nC | .M => 1

structure Storage where
  id      : Nat
  kind    : Kind
  ty      : Ty
  name    : String
  shared  : Bool
  pers    : Bool                -- the flag `persistent_`
  tracker : Option Nat          -- `tracker_`: mesh id, `none` = detached (`operator bool` false)
  dflt    : Int
  vals    : List Int            -- `data_`; `size()` = `vals.length`
deriving DecidableEq, Repr, Inhabited

structure Mesh where
  id   : Nat
  mtype : Nat := 0              -- 0 polyhedral, 1 tetrahedral, 2 hexahedral kernel (static type)
  cnt  : Counts := {}
  pers : List Nat := []         -- `persistent_props_` (all seven sets; the kind is in the storage)
  pos  : Nat                    -- storage held by `GeometryKernel::position_`
  topo : Nat := 0               -- opaque digest of every `TopologyKernel` field (entities,
                                -- definitions, deleted flags, modes, incidence settings)
deriving DecidableEq, Repr, Inhabited

structure World where
  meshes  : List Mesh := []
  heap    : List Storage := []
  handles : List (Nat × Nat) := []     -- (user handle slot, storage id)
  next    : Nat := 0                   -- next fresh storage id
  fault   : Bool := false              -- ghost: an unchecked out-of-range access happened
deriving DecidableEq, Repr, Inhabited

/-- C++ exception classes (and `invalid`: the driver-level precondition of the operation does
    not hold — dead mesh / handle slot, foreign mesh — such a call is never issued). -/
inductive Err where
  | runtime | outOfRange | invalid
deriving DecidableEq, Repr, Inhabited

inductive Res where
  | unit            -- void
  | ok              -- a PropertyPtr / engaged optional was returned (now in the handle slot)
  | none            -- empty optional
  | bool (b : Bool)
deriving DecidableEq, Repr, Inhabited

/-! ### observers -/

def getS (w : World) (sid : Nat) : Option Storage := w.heap.find? (·.id == sid)
def getM (w : World) (m : Nat) : Option Mesh := w.meshes.find? (·.id == m)
def hget (w : World) (h : Nat) : Option Nat := (w.handles.find? (·.1 == h)).map (·.2)

/-- the contents of `storage_trackers_[k]` of mesh `m` -/
def tracked (w : World) (m : Nat) (k : Kind) : List Storage :=
  w.heap.filter (fun s => s.tracker == some m && s.kind == k)

/-- `n_props<k>()` = `storage_tracker<k>().size()` (ResourceManagerT_impl.hh:283-286) -/
def nProps (w : World) (m : Nat) (k : Kind) : Nat := (tracked w m k).length

/-- `n_persistent_props<k>()` = `persistent_props_.get<k>().size()` (:288-291) -/
def nPers (w : World) (m : Nat) (k : Kind) : Nat :=
  match getM w m with
  | some me => (me.pers.filter (fun i => (getS w i).any (·.kind == k))).length
  | none => 0

/-- the predicate of `internal_find_property` (ResourceManagerT_impl.hh:139-141) -/
def matchKey (m : Nat) (k : Kind) (ty : Ty) (name : String) (s : Storage) : Bool :=
  s.tracker == some m && s.kind == k && s.shared && s.name == name && s.ty == ty

/-- `internal_find_property<T,EntityTag>(name)` (ResourceManagerT_impl.hh:127-148) -/
def find (w : World) (m : Nat) (k : Kind) (ty : Ty) (name : String) : Option Nat :=
  if name = "" then none else (w.heap.find? (matchKey m k ty name)).map (·.id)

/-- is someone holding a `shared_ptr` to storage `sid`? -/
def owned (w : World) (sid : Nat) : Bool :=
  w.handles.any (·.2 == sid) || w.meshes.any (fun m => m.pos == sid || m.pers.contains sid)

/-! ### primitive state transformers -/

def mapHeap (w : World) (f : Storage → Storage) : World := { w with heap := w.heap.map f }

def modS (w : World) (sid : Nat) (f : Storage → Storage) : World :=
  mapHeap w (fun s => if s.id = sid then f s else s)

def modM (w : World) (m : Nat) (f : Mesh → Mesh) : World :=
  { w with meshes := w.meshes.map (fun x => if x.id = m then f x else x) }

/-- `std::make_shared<PropertyStorageT<T>>(…)`: a new storage at a fresh id -/
def alloc (w : World) (s : Storage) : World :=
  { w with heap := w.heap ++ [{ s with id := w.next }], next := w.next + 1 }

def addHandle (w : World) (h sid : Nat) : World := { w with handles := (h, sid) :: w.handles }
def delHandle (w : World) (h : Nat) : World := { w with handles := w.handles.filter (·.1 != h) }

/-- destroy every storage without an owner (`~PropertyStorageT`, `~Tracked` un-registers) -/
def gc (w : World) : World := { w with heap := w.heap.filter (fun s => owned w s.id) }

/-- `std::vector::resize(n, def_)` (PropertyStorageT.hh:92-94) -/
def resizeL (l : List Int) (n : Nat) (d : Int) : List Int :=
  l.take n ++ List.replicate (n - l.length) d

/-- `delete_element(idx)` once per deleted entity, from the back (`del` strictly descending):
    PropertyStorageT.hh:110-113 via `entity_deleted` (ResourceManagerT_impl.hh:279-286) -/
def eraseSlots (l : List Int) (del : List Nat) : List Int := del.foldl List.eraseIdx l

/-- `del` is strictly descending and below `n` -/
def descBelow : Nat → List Nat → Bool
  | _, [] => true
  | n, i :: r => decide (i < n) && descBelow i r

/-! ### registry operations of one mesh (`m` = the mesh the member function is called on) -/

/-- the storage `internal_create_property` makes: attached to the mesh's tracker of kind `k`,
    not persistent, `resize(n<k>())` with the default -/
def mkStorage (id : Nat) (me : Mesh) (k : Kind) (ty : Ty) (name : String) (d : Int) (shared : Bool) : Storage :=
  { id := id, kind := k, ty := ty, name := name, shared := shared, pers := false,
    tracker := some me.id, dflt := enc ty d,
    vals := List.replicate (me.cnt.n k) (enc ty d) }

/-- `internal_create_property` (ResourceManagerT_impl.hh:149-161) + storing the result in the
    user's handle slot `h` -/
def createRaw (w : World) (me : Mesh) (h : Nat) (k : Kind) (ty : Ty) (name : String) (d : Int)
    (shared : Bool) : World :=
  addHandle (alloc w (mkStorage w.next me k ty name d shared)) h w.next

/-- driver-level precondition shared by all creating / getting calls: live mesh, free slot -/
def freeSlot (w : World) (h : Nat) : Bool := (hget w h).isNone

/-- `request_property` (ResourceManagerT_impl.hh:163-171) -/
def request (w : World) (m h : Nat) (k : Kind) (ty : Ty) (name : String) (d : Int) :
    Except Err (World × Res) :=
  match getM w m with
  | none => .error .invalid
  | some me =>
    if !freeSlot w h then .error .invalid else
    match find w m k ty name with
    | some sid => .ok (addHandle w h sid, .ok)
    | none => .ok (createRaw w me h k ty name d (name != ""), .ok)

/-- `create_shared_property` (:188-199) -/
def createShared (w : World) (m h : Nat) (k : Kind) (ty : Ty) (name : String) (d : Int) :
    Except Err (World × Res) :=
  match getM w m with
  | none => .error .invalid
  | some me =>
    if !freeSlot w h then .error .invalid else
    if name = "" then .error .runtime else
    match find w m k ty name with
    | some _ => .ok (w, .none)
    | none => .ok (createRaw w me h k ty name d true, .ok)

/-- the mesh-side half of `set_persistent(prop, true)` (:246,250) for storage `sid` of mesh `m` -/
def markPersistent (w : World) (m sid : Nat) : World :=
  modS (modM w m (fun me => { me with pers := if me.pers.contains sid then me.pers else me.pers ++ [sid] }))
    sid (fun s => { s with pers := true })

/-- the mesh-side half of `set_persistent(prop, false)` (:248,250) -/
def unmarkPersistent (w : World) (m sid : Nat) : World :=
  modS (modM w m (fun me => { me with pers := me.pers.filter (· != sid) }))
    sid (fun s => { s with pers := false })

/-- `create_persistent_property` (:173-186) -/
def createPersistent (w : World) (m h : Nat) (k : Kind) (ty : Ty) (name : String) (d : Int) :
    Except Err (World × Res) :=
  match getM w m with
  | none => .error .invalid
  | some me =>
    if !freeSlot w h then .error .invalid else
    if name = "" then .error .runtime else
    match find w m k ty name with
    | some _ => .ok (w, .none)
    | none => .ok (markPersistent (createRaw w me h k ty name d true) m w.next, .ok)

/-- `create_private_property` (:200-205) -/
def createPrivate (w : World) (m h : Nat) (k : Kind) (ty : Ty) (name : String) (d : Int) :
    Except Err (World × Res) :=
  match getM w m with
  | none => .error .invalid
  | some me =>
    if !freeSlot w h then .error .invalid else
    .ok (createRaw w me h k ty name d false, .ok)

/-- `get_property` (:207-212) -/
def getProp (w : World) (m h : Nat) (k : Kind) (ty : Ty) (name : String) :
    Except Err (World × Res) :=
  match getM w m with
  | none => .error .invalid
  | some _ =>
    if !freeSlot w h then .error .invalid else
    match find w m k ty name with
    | some sid => .ok (addHandle w h sid, .ok)
    | none => .ok (w, .none)

/-- `property_exists` (ResourceManager.hh:204-208) -/
def propExists (w : World) (m : Nat) (k : Kind) (ty : Ty) (name : String) :
    Except Err (World × Res) :=
  match getM w m with
  | none => .error .invalid
  | some _ => .ok (w, .bool (find w m k ty name).isSome)

/-- the storage behind handle `h`, required to be tracked by mesh `m` (the calls
    `m.set_shared(h)` / `m.set_persistent(h)` are only in contract on the owning mesh) -/
def ownStorage (w : World) (m h : Nat) : Option Storage :=
  match hget w h with
  | none => none
  | some sid =>
    match getS w sid with
    | none => none
    | some s => if s.tracker = some m && (getM w m).isSome then some s else none

/-- `set_persistent` (ResourceManagerT_impl.hh:242-257) -/
def setPersistent (w : World) (m h : Nat) (b : Bool) : Except Err (World × Res) :=
  match ownStorage w m h with
  | none => .error .invalid
  | some s =>
    if b = s.pers then .ok (w, .unit) else
    if b then
      if !s.shared then .error .runtime else .ok (markPersistent w m s.id, .unit)
    else .ok (unmarkPersistent w m s.id, .unit)

/-- `set_shared` (:222-240) -/
def setShared (w : World) (m h : Nat) (b : Bool) : Except Err (World × Res) :=
  match ownStorage w m h with
  | none => .error .invalid
  | some s =>
    if b = s.shared then .ok (w, .unit) else
    if b then
      if s.name = "" then .error .runtime else
      if (find w m s.kind s.ty s.name).isSome then .error .runtime else
      .ok (modS w s.id (fun s => { s with shared := true }), .unit)
    else
      -- `set_persistent(_prop, false)` first (:237), a no-op when not persistent
      let w := if s.pers then unmarkPersistent w m s.id else w
      .ok (modS w s.id (fun s => { s with shared := false }), .unit)

/-- the sibling scan of the checked `PropertyStorageBase::set_name`
    (PropertyStorageBase.hh:123-140): another shared storage in the same tracker with the new
    name and the same value type -/
def nameClash (w : World) (s : Storage) (name : String) : Bool :=
  match s.tracker with
  | none => false
  | some m => w.heap.any (fun o => o.id != s.id && matchKey m s.kind s.ty name o)

/-- `PropertyStoragePtr::set_name` (PropertyStoragePtr.hh:101-103) on handle `h`; works on
    detached storages too -/
def setName (w : World) (h : Nat) (name : String) : Except Err (World × Res) :=
  match hget w h with
  | none => .error .invalid
  | some sid =>
    match getS w sid with
    | none => .error .invalid
    | some s =>
      if s.shared && (name = "" || nameClash w s name) then .error .runtime
      else .ok (modS w sid (fun s => { s with name := name }), .unit)

/-- `prop.at(i) = token` (`std::vector::at`, PropertyStorageT.hh:177-178): the checked access -/
def writeAt (w : World) (h i : Nat) (tok : Int) : Except Err (World × Res) :=
  match hget w h with
  | none => .error .invalid
  | some sid =>
    match getS w sid with
    | none => .error .invalid
    | some s =>
      if i < s.vals.length then
        .ok (modS w sid (fun s => { s with vals := s.vals.set i (enc s.ty tok) }), .unit)
      else .error .outOfRange

/-- copy construction of a `PropertyPtr` into the free slot `h'` -/
def hcopy (w : World) (h h' : Nat) : Except Err (World × Res) :=
  match hget w h with
  | none => .error .invalid
  | some sid => if h = h' || !freeSlot w h' then .error .invalid else .ok (addHandle w h' sid, .unit)

/-- move construction into the free slot `h'`; the moved-from handle is empty afterwards (the
    driver treats it as gone) -/
def hmove (w : World) (h h' : Nat) : Except Err (World × Res) :=
  match hget w h with
  | none => .error .invalid
  | some sid =>
    if h = h' || !freeSlot w h' then .error .invalid
    else .ok (addHandle (delHandle w h) h' sid, .unit)

/-- destruction of the `PropertyPtr` in slot `h` -/
def hdrop (w : World) (h : Nat) : Except Err (World × Res) :=
  match hget w h with
  | none => .error .invalid
  | some _ => .ok (delHandle w h, .unit)

/-- `clear_props<k>()` (ResourceManagerT_impl.hh:55-66) for every kind accepted by `sel`
    (`clear_all_props` = all seven, ResourceManager.cc:148-151): persistent flags off and the
    owning set emptied, then every tracked storage un-shared.  Names are kept.
    (The C++ clears `persistent_` through the owning set and `shared_` through the tracker; the
    model clears both flags through the tracker — the same storages whenever set and flags agree,
    which is invariant `persEntry`/`persListed`.) -/
def clearPropsCore (w : World) (m : Nat) (sel : Kind → Bool) : World :=
  let w := modM w m (fun me => { me with pers := me.pers.filter (fun i => !(getS w i).any (fun s => sel s.kind)) })
  mapHeap w (fun s => if s.tracker = some m && sel s.kind then { s with pers := false, shared := false } else s)

def clearProps (w : World) (m : Nat) (k : Kind) : Except Err (World × Res) :=
  match getM w m with
  | none => .error .invalid
  | some _ => .ok (clearPropsCore w m (· == k), .unit)

def clearAllProps (w : World) (m : Nat) : Except Err (World × Res) :=
  match getM w m with
  | none => .error .invalid
  | some _ => .ok (clearPropsCore w m (fun _ => true), .unit)

/-- `resize_props<k>(c.n k)` for all kinds accepted by `sel` on mesh `m`
    (ResourceManagerT_impl.hh:260-267, ResourceManager.cc:93-109) -/
def resizeTracked (w : World) (m : Nat) (c : Counts) (sel : Kind → Bool) : World :=
  mapHeap w (fun s => if s.tracker = some m && sel s.kind then
                        { s with vals := resizeL s.vals (c.n s.kind) s.dflt } else s)

def notMeshKind : Kind → Bool
  | .M => false
  | _ => true

/-- `TopologyKernel::clear(_clearProps)` (TopologyKernel.hh:864-891): the four `resize_*props(0)`
    calls run unconditionally; mesh-kind properties keep their single slot. -/
def clearMesh (w : World) (m : Nat) (cp : Bool) (topo' : Nat) : Except Err (World × Res) :=
  match getM w m with
  | none => .error .invalid
  | some _ =>
    let w := if cp then clearPropsCore w m (fun _ => true) else w
    let w := modM w m (fun me => { me with cnt := {}, topo := topo' })
    .ok (resizeTracked w m {} notMeshKind, .unit)

/-- entities were appended (`add_vertex/add_edge/add_face/add_cell`, TopologyKernel.cc:104,149,
    204,442: `resize_*props(n)` after the kernel's own vectors grew): new counts `c`. -/
def setCounts (w : World) (m : Nat) (c : Counts) (topo' : Nat) : Except Err (World × Res) :=
  match getM w m with
  | none => .error .invalid
  | some _ =>
    let w := modM w m (fun me => { me with cnt := c, topo := topo' })
    .ok (resizeTracked w m c notMeshKind, .unit)

/-- `GeometryKernel::add_vertex(p)` (GeometryKernel.hh:109-113) with `p = (tok,0,0)` -/
def addVertex (w : World) (m : Nat) (tok : Int) (topo' : Nat) : Except Err (World × Res) :=
  match getM w m with
  | none => .error .invalid
  | some me =>
    let c := { me.cnt with nV := me.cnt.nV + 1 }
    let w := modM w m (fun me => { me with cnt := c, topo := topo' })
    let w := resizeTracked w m c (· == .V)
    -- `position_[vh] = _p`: unchecked `operator[]`
    match getS w me.pos with
    | none => .ok ({ w with fault := true }, .unit)
    | some p =>
      if me.cnt.nV < p.vals.length then
        .ok (modS w me.pos (fun s => { s with vals := s.vals.set me.cnt.nV tok }), .unit)
      else .ok ({ w with fault := true }, .unit)

/-- `set_vertex(v, (tok,0,0))` (GeometryKernel.hh:117-122), `v` a valid vertex handle -/
def setVertex (w : World) (m v : Nat) (tok : Int) : Except Err (World × Res) :=
  match getM w m with
  | none => .error .invalid
  | some me =>
    if me.cnt.nV ≤ v then .error .invalid else
    match getS w me.pos with
    | none => .ok ({ w with fault := true }, .unit)
    | some p =>
      if v < p.vals.length then
        .ok (modS w me.pos (fun s => { s with vals := s.vals.set v tok }), .unit)
      else .ok ({ w with fault := true }, .unit)

/-- both halves of every listed edge / face, descending (`edge_deleted`: halfedge 1 then 0,
    ResourceManager.cc:131-135) -/
def halves (l : List Nat) : List Nat := l.flatMap (fun e => [2 * e + 1, 2 * e])

/-- the slots erased from the storages of kind `k` -/
def delOf (dv de df dc : List Nat) : Kind → List Nat
  | .V => dv | .E => de | .HE => halves de | .F => df | .HF => halves df | .C => dc | .M => []

/-- entities were physically removed (immediate `delete_*`, `collect_garbage`,
    `enable_deferred_deletion(false)`; order preserving since the driver disables fast
    deletion): `vertex_deleted/edge_deleted/face_deleted/cell_deleted` (ResourceManager.cc:127-146)
    erase the slot of each removed entity (and of both its halves) from every tracked storage of
    the kind, highest index first.  `dv de df dc`: the removed indices, strictly descending. -/
def eraseEntities (w : World) (m : Nat) (dv de df dc : List Nat) (topo' : Nat) :
    Except Err (World × Res) :=
  match getM w m with
  | none => .error .invalid
  | some me =>
    if !(descBelow me.cnt.nV dv && descBelow me.cnt.nE de && descBelow me.cnt.nF df && descBelow me.cnt.nC dc) then .error .invalid else
    let c : Counts := { nV := me.cnt.nV - dv.length, nE := me.cnt.nE - de.length,
                        nF := me.cnt.nF - df.length, nC := me.cnt.nC - dc.length }
    let w := modM w m (fun me => { me with cnt := c, topo := topo' })
    .ok (mapHeap w (fun s => if s.tracker = some m then { s with vals := eraseSlots s.vals (delOf dv de df dc s.kind) } else s),
         .unit)

/-- a `TopologyKernel` change that touches no property storage (deferred `delete_*`, mode
    switches): only the digest moves -/
def topoOnly (w : World) (m : Nat) (topo' : Nat) : Except Err (World × Res) :=
  match getM w m with
  | none => .error .invalid
  | some _ => .ok (modM w m (fun me => { me with topo := topo' }), .unit)

/-- `~GeometryKernel`: `position_` released, `~ResourceManager` destroys `storage_trackers_`
    first (declared last, ResourceManager.hh:96,105: every tracked storage gets
    `tracker_removed()`), then `persistent_props_` releases its `shared_ptr`s. -/
def detachAll (w : World) (m : Nat) : World :=
  { (mapHeap w (fun s => if s.tracker = some m then { s with tracker := none } else s)) with
    meshes := w.meshes.filter (·.id != m) }

def destroyMesh (w : World) (m : Nat) : Except Err (World × Res) :=
  match getM w m with
  | none => .error .invalid
  | some _ => .ok (detachAll w m, .unit)

end OVM.Registry

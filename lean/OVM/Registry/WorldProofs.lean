/-
  Invariant preservation for the building blocks of mesh copy construction / assignment
  (`clonePersistent`, `makePos`) and for every operation (`core_inv`, `step_inv`, `run_inv`).
-/
import OVM.Registry.OpProofs
namespace OVM.Registry

theorem nodup_map_inj {α β} {l : List α} (f : α → β) (hf : ∀ a b, f a = f b → a = b) (h : l.Nodup) :
    (l.map f).Nodup :=
  List.Pairwise.map f (fun a b hne e => hne (hf a b e)) h

/-- the ids of the storages found for a list of ids form a sublist of that list -/
theorem ids_filterMap_sublist (w : World) (l : List Nat) :
    ((l.filterMap (getS w)).map (·.id)).Sublist l := by
  induction l with
  | nil => simp
  | cons i l ih =>
    cases h : getS w i with
    | none => simp only [List.filterMap_cons, h]; exact List.Sublist.cons _ ih
    | some s =>
      simp only [List.filterMap_cons, h, List.map_cons]
      rw [(getS_some h).2]
      exact List.Sublist.cons_cons _ ih

/-- the clones made by `clonePersistent` -/
def clonesOf (w : World) (sm : Mesh) (dst : Nat) : List Storage :=
  (sm.pers.filterMap (getS w)).map (fun s => { s with id := w.next + s.id, tracker := some dst })

theorem clonePersistent_eq {w : World} {src dst : Nat} {sm : Mesh} (h : getM w src = some sm) :
    clonePersistent w src dst =
      modM { w with heap := w.heap ++ clonesOf w sm dst, next := w.next + w.next } dst
        (fun me => { me with pers := me.pers ++ (clonesOf w sm dst).map (·.id) }) := by
  simp [clonePersistent, h, clonesOf]

theorem mem_clonesOf {w : World} {ex} (hi : InvX w ex) {sm : Mesh} (hsm : sm ∈ w.meshes) {dst : Nat} {c : Storage} :
    c ∈ clonesOf w sm dst ↔
      ∃ s ∈ w.heap, s.id ∈ sm.pers ∧ s.pers = true ∧ s.tracker = some sm.id ∧
        c = { s with id := w.next + s.id, tracker := some dst } := by
  unfold clonesOf
  simp only [List.mem_map, List.mem_filterMap]
  constructor
  · rintro ⟨s, ⟨i, hi', hg⟩, rfl⟩
    obtain ⟨hs, hid⟩ := getS_some hg
    obtain ⟨s', hs', e1, e2, e3⟩ := hi.persEntry sm hsm i hi'
    have : s' = s := hi.idInj s' hs' s hs (e1.trans hid.symm)
    subst this
    exact ⟨s', hs, by rw [hid]; exact hi', e2, e3, rfl⟩
  · rintro ⟨s, hs, hp, _, _, rfl⟩
    exact ⟨s, ⟨s.id, hp, getS_of_mem hi hs⟩, rfl⟩

theorem clonesOf_ids_nodup {w : World} {ex} (hi : InvX w ex) {sm : Mesh} (hsm : sm ∈ w.meshes) (dst : Nat) :
    ((clonesOf w sm dst).map (·.id)).Nodup := by
  have e : (clonesOf w sm dst).map (·.id) = ((sm.pers.filterMap (getS w)).map (·.id)).map (w.next + ·) := by
    simp [clonesOf, List.map_map, Function.comp_def]
  rw [e]
  exact nodup_map_inj _ (by intro a b h; omega) ((hi.persNodup sm hsm).sublist (ids_filterMap_sublist w sm.pers))

/-- `clone_persistent_properties_from(other)` into a mesh that has no shared property (a mesh
    under construction, or one whose properties were just anonymised) and the same counts -/
theorem invX_clones {w : World} {ex : Option Nat} (hi : InvX w ex) (src dst : Nat) (sm dm : Mesh)
    (hsm : getM w src = some sm) (hdm : dm ∈ w.meshes) (hdid : dm.id = dst)
    (hcnt : dm.cnt = sm.cnt)
    (hun : ∀ t ∈ w.heap, t.tracker = some dst → t.shared = false) :
    InvX (clonePersistent w src dst) ex := by
  rw [clonePersistent_eq hsm]
  obtain ⟨hsmm, hsid⟩ := getM_some hsm
  have memC := @mem_clonesOf w ex hi sm hsmm dst
  have inj := hi.idInj
  have dstPersNil : dm.pers = [] := by
    cases hp : dm.pers with
    | nil => rfl
    | cons i l =>
      obtain ⟨s, hs, _, e2, e3⟩ := hi.persEntry dm hdm i (by simp [hp])
      have := hun s hs (by rw [e3, hdid])
      have := hi.persShared s hs e2
      simp_all
  unfold modM
  -- abbreviations
  generalize hC : clonesOf w sm dst = C at memC
  have cNodup : (C.map (·.id)).Nodup := hC ▸ clonesOf_ids_nodup hi hsmm dst
  have memH : ∀ s, s ∈ w.heap ++ C ↔ s ∈ w.heap ∨ s ∈ C := by intro s; simp
  let g : Mesh → Mesh := fun x => if x.id = dst then { x with pers := x.pers ++ C.map (·.id) } else x
  have gid : ∀ me, (g me).id = me.id := by intro me; simp only [g]; split <;> rfl
  have gcnt : ∀ me, (g me).cnt = me.cnt := by intro me; simp only [g]; split <;> rfl
  have gpos : ∀ me, (g me).pos = me.pos := by intro me; simp only [g]; split <;> rfl
  show InvX { w with heap := w.heap ++ C, next := w.next + w.next, meshes := w.meshes.map g } ex
  refine ⟨?_, ?_, ?_, ?_, ?_, ?_, ?_, ?_, ?_, ?_, ?_, ?_, ?_, ?_, ?_⟩
  · simp only [List.map_append]
    refine List.nodup_append.mpr ⟨hi.idsNodup, cNodup, ?_⟩
    intro a ha b hb e
    obtain ⟨s, hs, rfl⟩ := List.mem_map.mp ha
    obtain ⟨c, hc, rfl⟩ := List.mem_map.mp hb
    obtain ⟨s', _, _, _, _, rfl⟩ := memC.mp hc
    have := hi.idsLt s hs
    simp at e; omega
  · intro s hs
    rcases (memH s).mp hs with h | h
    · have := hi.idsLt s h; simp; omega
    · obtain ⟨s', hs', _, _, _, rfl⟩ := memC.mp h
      have := hi.idsLt s' hs'; simp; omega
  · have : (w.meshes.map g).map (·.id) = w.meshes.map (·.id) := by simp [List.map_map, Function.comp_def, gid]
    simpa [this] using hi.meshNodup
  · intro s hs hp
    rcases (memH s).mp hs with h | h
    · exact hi.persShared s h hp
    · obtain ⟨s', hs', _, hp', _, rfl⟩ := memC.mp h
      exact hi.persShared s' hs' hp'
  · intro s hs hsh
    rcases (memH s).mp hs with h | h
    · exact hi.sharedNamed s h hsh
    · obtain ⟨s', hs', _, _, _, rfl⟩ := memC.mp h
      exact hi.sharedNamed s' hs' hsh
  · intro s hs t ht hss hts hsome htr hk hty hname
    rcases (memH s).mp hs with h1 | h1 <;> rcases (memH t).mp ht with h2 | h2
    · exact hi.unique s h1 t h2 hss hts hsome htr hk hty hname
    · obtain ⟨t', _, _, _, _, rfl⟩ := memC.mp h2
      have := hun s h1 (by rw [htr])
      simp_all
    · obtain ⟨s', _, _, _, _, rfl⟩ := memC.mp h1
      have := hun t h2 (by rw [← htr])
      simp_all
    · obtain ⟨s', hs', _, _, e3, rfl⟩ := memC.mp h1
      obtain ⟨t', ht', _, _, f3, rfl⟩ := memC.mp h2
      have := hi.unique s' hs' t' ht' hss hts (by simp [e3]) (by rw [e3, f3]) hk hty hname
      simp [this]
  · intro s hs m hm
    rcases (memH s).mp hs with h | h
    · obtain ⟨me, hme, e⟩ := hi.trackerLive s h m hm
      exact ⟨g me, List.mem_map.mpr ⟨me, hme, rfl⟩, by rw [gid]; exact e⟩
    · obtain ⟨s', _, _, _, _, rfl⟩ := memC.mp h
      simp at hm
      exact ⟨g dm, List.mem_map.mpr ⟨dm, hdm, rfl⟩, by rw [gid, hdid]; exact hm⟩
  · intro me' hme' i hi'
    obtain ⟨me, hme, rfl⟩ := List.mem_map.mp hme'
    rw [gid]
    by_cases hm : me.id = dst
    · have : me = dm := hi.meshInj me hme dm hdm (hm.trans hdid.symm)
      subst this
      simp only [g, hm, ↓reduceIte, dstPersNil, List.nil_append] at hi'
      obtain ⟨c, hc, rfl⟩ := List.mem_map.mp hi'
      refine ⟨c, (memH c).mpr (Or.inr hc), rfl, ?_⟩
      obtain ⟨s', _, _, hp', _, rfl⟩ := memC.mp hc
      exact ⟨hp', by simp [hm]⟩
    · simp only [g, hm, ↓reduceIte] at hi'
      obtain ⟨s, hs, e⟩ := hi.persEntry me hme i hi'
      exact ⟨s, (memH s).mpr (Or.inl hs), e⟩
  · intro me' hme'
    obtain ⟨me, hme, rfl⟩ := List.mem_map.mp hme'
    by_cases hm : me.id = dst
    · have : me = dm := hi.meshInj me hme dm hdm (hm.trans hdid.symm)
      subst this
      simpa [g, hm, dstPersNil] using cNodup
    · simpa [g, hm] using hi.persNodup me hme
  · intro s hs me' hme' hp htr
    obtain ⟨me, hme, rfl⟩ := List.mem_map.mp hme'
    rw [gid] at htr
    rcases (memH s).mp hs with h | h
    · have := hi.persListed s h me hme hp htr
      simp only [g]; split
      · exact List.mem_append_left _ this
      · exact this
    · obtain ⟨s', _, _, _, _, rfl⟩ := memC.mp h
      have hm : me.id = dst := by simpa using htr.symm
      simp only [g, hm, ↓reduceIte]
      exact List.mem_append_right _ (List.mem_map.mpr ⟨_, h, rfl⟩)
  · intro me' hme' hne'
    obtain ⟨me, hme, rfl⟩ := List.mem_map.mp hme'
    rw [gid] at hne'
    obtain ⟨s, hs, e⟩ := hi.posOk me hme hne'
    exact ⟨s, (memH s).mpr (Or.inl hs), by rw [gpos, gid]; exact e⟩
  · intro h hh
    obtain ⟨s, hs, e⟩ := hi.handlesOk h hh
    exact ⟨s, (memH s).mpr (Or.inl hs), e⟩
  · intro s hs me' hme' htr
    obtain ⟨me, hme, rfl⟩ := List.mem_map.mp hme'
    rw [gid] at htr; rw [gcnt]
    rcases (memH s).mp hs with h | h
    · exact hi.sizes s h me hme htr
    · obtain ⟨s', hs', _, _, e3, rfl⟩ := memC.mp h
      have hm : me.id = dst := by simpa using htr.symm
      have : me = dm := hi.meshInj me hme dm hdm (hm.trans hdid.symm)
      subst this
      rw [hcnt]
      exact hi.sizes s' hs' sm hsmm e3
  · exact hi.noFault
  · exact hi.handleKeys


/-- the mesh records change in their position handle only; the position clause is re-established
    by the caller -/
theorem invX_mapMeshPos {w : World} {ex ex' : Option Nat} (hi : InvX w ex) (g : Mesh → Mesh)
    (hg : ∀ me, (g me).id = me.id ∧ (g me).cnt = me.cnt ∧ (g me).pers = me.pers)
    (hpos : ∀ me ∈ w.meshes, some me.id ≠ ex' →
      ∃ s ∈ w.heap, s.id = (g me).pos ∧ s.tracker = some me.id ∧ s.kind = .V ∧ s.ty = .vec3d) :
    InvX { w with meshes := w.meshes.map g } ex' := by
  refine ⟨hi.idsNodup, hi.idsLt, ?_, hi.persShared, hi.sharedNamed, hi.unique, ?_, ?_, ?_, ?_, ?_, hi.handlesOk, ?_, hi.noFault, hi.handleKeys⟩
  · have : (w.meshes.map g).map (·.id) = w.meshes.map (·.id) := by simp [List.map_map, Function.comp_def, (hg _).1]
    simpa [this] using hi.meshNodup
  · intro s hs m hm
    obtain ⟨me, hme, e⟩ := hi.trackerLive s hs m hm
    exact ⟨g me, List.mem_map.mpr ⟨me, hme, rfl⟩, by rw [(hg me).1]; exact e⟩
  · intro me' hme' i hi'
    obtain ⟨me, hme, rfl⟩ := List.mem_map.mp hme'
    rw [(hg me).2.2] at hi'; rw [(hg me).1]
    exact hi.persEntry me hme i hi'
  · intro me' hme'
    obtain ⟨me, hme, rfl⟩ := List.mem_map.mp hme'
    rw [(hg me).2.2]; exact hi.persNodup me hme
  · intro s hs me' hme' hp htr
    obtain ⟨me, hme, rfl⟩ := List.mem_map.mp hme'
    rw [(hg me).1] at htr; rw [(hg me).2.2]
    exact hi.persListed s hs me hme hp htr
  · intro me' hme' hne
    obtain ⟨me, hme, rfl⟩ := List.mem_map.mp hme'
    rw [(hg me).1] at hne ⊢
    exact hpos me hme hne
  · intro s hs me' hme' htr
    obtain ⟨me, hme, rfl⟩ := List.mem_map.mp hme'
    rw [(hg me).1] at htr; rw [(hg me).2.1]
    exact hi.sizes s hs me hme htr

/-- `position_ = <handle to storage sid>` -/
theorem invX_setPos {w : World} {ex : Option Nat} {m : Nat} (hi : InvX w ex) (hex : ex = none ∨ ex = some m)
    (p : Storage) (hp : p ∈ w.heap) (ht : p.tracker = some m) (hk : p.kind = .V) (hty : p.ty = .vec3d) :
    InvX (modM w m (fun me => { me with pos := p.id })) none := by
  unfold modM
  refine invX_mapMeshPos hi _ (by intro me; dsimp only; split <;> simp) ?_
  intro me hme _
  by_cases hm : me.id = m
  · simp only [hm, ↓reduceIte]
    exact ⟨p, hp, rfl, by rw [ht], hk, hty⟩
  · simp only [hm, ↓reduceIte]
    refine hi.posOk me hme ?_
    rcases hex with rfl | rfl
    · simp
    · simpa using hm

/-- `position_ = make_prop()` followed by the copy of the source positions -/
theorem invX_makePos {w : World} {ex : Option Nat} {m : Nat} (hi : InvX w ex) (hex : ex = none ∨ ex = some m)
    (me : Mesh) (hm : getM w m = some me) (srcVals : List Int) (hlen : srcVals.length = me.cnt.nV) :
    InvX (makePos w m srcVals) none := by
  obtain ⟨hme, hmid⟩ := getM_some hm
  unfold makePos
  simp only [hm]
  -- the storage that becomes the position property
  have key : ∀ (w1 : World) (p : Storage), InvX w1 ex → w1.meshes = w.meshes → p ∈ w1.heap → p.tracker = some m →
      p.kind = .V → p.ty = .vec3d → p.vals.length = me.cnt.nV →
      InvX (match getS (modM w1 m (fun me => { me with pos := p.id })) p.id with
            | none => { (modM w1 m (fun me => { me with pos := p.id })) with fault := true }
            | some q =>
              modS (if q.vals.length < srcVals.length then { (modM w1 m (fun me => { me with pos := p.id })) with fault := true }
                    else modM w1 m (fun me => { me with pos := p.id })) p.id
                (fun s => { s with vals := srcVals.take s.vals.length ++ s.vals.drop srcVals.length })) none := by
    intro w1 p hi1 _ hp ht hk hty hl
    have h2 := invX_setPos hi1 hex p hp ht hk hty
    have hg : getS (modM w1 m (fun me => { me with pos := p.id })) p.id = some p := by
      have : (modM w1 m (fun me => { me with pos := p.id })).heap = w1.heap := rfl
      exact getS_of_mem h2 (this ▸ hp)
    simp only [hg]
    have : ¬ p.vals.length < srcVals.length := by omega
    simp only [this, ↓reduceIte]
    refine invX_setVals h2 p.id _ ?_
    intro s hs hid
    have : s = p := h2.idInj s hs p hp hid
    subst this
    simp; omega
  cases hf : find w m .V .vec3d posName with
  | some sid =>
    obtain ⟨_, s, hs, hid, ht, hk, _, _, hty⟩ := find_some hf
    subst hid
    have hl : s.vals.length = me.cnt.nV := by
      have := hi.sizes s hs me hme (by rw [ht, hmid]); simpa [hk, Counts.n] using this
    exact key w s hi rfl hs ht hk hty hl
  | none =>
    have hn : posName ≠ "" := by decide
    have nf := find_none hf hn
    have h1 := invX_alloc hi (freshPos w.next m me.cnt.nV) me hme (by simp [freshPos, hmid]) rfl (fun _ => hn)
        (fun _ t ht hts htr hk hty hname => nf t ht (by rw [htr, hmid]) hk hts hname hty) (by simp [freshPos, Counts.n])
    have := key _ (freshPos w.next m me.cnt.nV) h1 rfl (by simp [alloc, freshPos]) rfl rfl rfl (by simp [freshPos])
    exact this


/-! ### the operations -/

theorem invX_createRaw {w : World} {ex : Option Nat} (hi : InvX w ex) (me : Mesh) (hme : me ∈ w.meshes)
    (h : Nat) (k : Kind) (ty : Ty) (name : String) (d : Int) (sh : Bool)
    (hn : sh = true → name ≠ "") (hu : sh = true → find w me.id k ty name = none) (hfree : hget w h = none) :
    InvX (createRaw w me h k ty name d sh) ex ∧
      ∃ s0 ∈ (createRaw w me h k ty name d sh).heap, s0.id = w.next ∧ s0.shared = sh ∧ s0.tracker = some me.id := by
  unfold createRaw
  have h1 := invX_alloc hi (mkStorage w.next me k ty name d sh) me hme rfl rfl
      (fun e => hn e) (fun e t ht hts htr hk hty hname => find_none (hu e) (hn e) t ht htr hk hts hname hty)
      (by simp [mkStorage])
  refine ⟨invX_addHandle h1 h w.next ⟨mkStorage w.next me k ty name d sh, by simp [alloc, mkStorage], rfl⟩ hfree, ?_⟩
  exact ⟨mkStorage w.next me k ty name d sh, by simp [alloc, addHandle, mkStorage], rfl, rfl, rfl⟩

theorem mem_modM {w : World} {m : Nat} {me : Mesh} (F : Mesh → Mesh) (hme : me ∈ w.meshes) (hid : me.id = m) :
    F me ∈ (modM w m F).meshes := by
  unfold modM
  exact List.mem_map.mpr ⟨me, hme, by simp [hid]⟩

theorem free_of {w : World} {h : Nat} (hf : ¬ (!freeSlot w h) = true) : hget w h = none := by
  unfold freeSlot at hf
  cases e : hget w h with
  | none => rfl
  | some x => simp [e] at hf

theorem request_inv {w w' : World} {m h k ty name d r} (hi : InvX w none)
    (e : request w m h k ty name d = .ok (w', r)) : InvX w' none := by
  unfold request at e
  split at e; · cases e
  rename_i me hm
  obtain ⟨hme, hmid⟩ := getM_some hm
  split at e; · cases e
  rename_i hfs
  have hfree := free_of hfs
  split at e
  · rename_i sid hf
    cases e
    obtain ⟨_, s, hs, hid, _⟩ := find_some hf
    exact invX_addHandle hi h sid ⟨s, hs, hid⟩ hfree
  · rename_i hf
    cases e
    refine (invX_createRaw hi me hme h k ty name d _ (by simp) ?_ hfree).1
    intro _; rw [hmid]; exact hf

theorem createShared_inv {w w' : World} {m h k ty name d r} (hi : InvX w none)
    (e : createShared w m h k ty name d = .ok (w', r)) : InvX w' none := by
  unfold createShared at e
  split at e; · cases e
  rename_i me hm
  obtain ⟨hme, hmid⟩ := getM_some hm
  split at e; · cases e
  rename_i hfs
  have hfree := free_of hfs
  split at e; · cases e
  rename_i hname
  split at e
  · cases e; exact hi
  · rename_i hf
    cases e
    exact (invX_createRaw hi me hme h k ty name d true (fun _ => hname) (fun _ => by rw [hmid]; exact hf) hfree).1

theorem createPersistent_inv {w w' : World} {m h k ty name d r} (hi : InvX w none)
    (e : createPersistent w m h k ty name d = .ok (w', r)) : InvX w' none := by
  unfold createPersistent at e
  split at e; · cases e
  rename_i me hm
  obtain ⟨hme, hmid⟩ := getM_some hm
  split at e; · cases e
  rename_i hfs
  have hfree := free_of hfs
  split at e; · cases e
  rename_i hname
  split at e
  · cases e; exact hi
  · rename_i hf
    cases e
    obtain ⟨h1, s0, hs0, hid, hsh, htr⟩ :=
      invX_createRaw hi me hme h k ty name d true (fun _ => hname) (fun _ => by rw [hmid]; exact hf) hfree
    rw [← hid]
    exact invX_mark h1 s0 m hs0 hsh (by rw [htr, hmid])

theorem createPrivate_inv {w w' : World} {m h k ty name d r} (hi : InvX w none)
    (e : createPrivate w m h k ty name d = .ok (w', r)) : InvX w' none := by
  unfold createPrivate at e
  split at e; · cases e
  rename_i me hm
  obtain ⟨hme, _⟩ := getM_some hm
  split at e; · cases e
  rename_i hfs
  cases e
  exact (invX_createRaw hi me hme h k ty name d false (by simp) (by simp) (free_of hfs)).1

theorem getProp_inv {w w' : World} {m h k ty name r} (hi : InvX w none)
    (e : getProp w m h k ty name = .ok (w', r)) : InvX w' none := by
  unfold getProp at e
  split at e; · cases e
  split at e; · cases e
  rename_i hfs
  split at e
  · rename_i sid hf
    cases e
    obtain ⟨_, s, hs, hid, _⟩ := find_some hf
    exact invX_addHandle hi h sid ⟨s, hs, hid⟩ (free_of hfs)
  · cases e; exact hi

theorem propExists_inv {w w' : World} {m k ty name r} (hi : InvX w none)
    (e : propExists w m k ty name = .ok (w', r)) : InvX w' none := by
  unfold propExists at e
  split at e
  · cases e
  · cases e; exact hi

theorem ownStorage_some {w : World} {m h : Nat} {s : Storage} (e : ownStorage w m h = some s) :
    s ∈ w.heap ∧ s.tracker = some m ∧ hget w h = some s.id := by
  unfold ownStorage at e
  split at e; · cases e
  rename_i sid hh
  split at e; · cases e
  rename_i s0 hs0
  split at e
  · rename_i hc
    cases e
    simp only [Bool.and_eq_true, decide_eq_true_eq] at hc
    obtain ⟨hm, hid⟩ := getS_some hs0
    exact ⟨hm, hc.1, by rw [hid]; exact hh⟩
  · cases e

theorem setPersistent_inv {w w' : World} {m h b r} (hi : InvX w none)
    (e : setPersistent w m h b = .ok (w', r)) : InvX w' none := by
  unfold setPersistent at e
  split at e; · cases e
  rename_i s hs
  obtain ⟨hmem, htr, _⟩ := ownStorage_some hs
  split at e; · cases e; exact hi
  split at e
  · split at e; · cases e
    rename_i hsh
    cases e
    exact invX_mark hi s m hmem (by simpa using hsh) htr
  · cases e
    exact invX_unmark hi s m hmem htr

theorem setShared_inv {w w' : World} {m h b r} (hi : InvX w none)
    (e : setShared w m h b = .ok (w', r)) : InvX w' none := by
  unfold setShared at e
  split at e; · cases e
  rename_i s hs
  obtain ⟨hmem, htr, _⟩ := ownStorage_some hs
  split at e; · cases e; exact hi
  split at e
  · split at e; · cases e
    rename_i hname
    split at e; · cases e
    rename_i hf
    cases e
    refine invX_shareOn hi s m hmem hname htr ?_
    cases hfind : find w m s.kind s.ty s.name with
    | none => rfl
    | some x => simp [hfind] at hf
  · cases e
    by_cases hp : s.pers = true
    · simp only [hp, ↓reduceIte]
      have h1 := invX_unmark hi s m hmem htr
      have hs' : ({ s with pers := false } : Storage) ∈ (unmarkPersistent w m s.id).heap := by
        simp only [unmarkPersistent, modS, modM, mapHeap, List.mem_map]
        exact ⟨s, hmem, by simp⟩
      exact invX_shareOff h1 { s with pers := false } hs' rfl
    · have hp' : s.pers = false := by simpa using hp
      simp only [hp', Bool.false_eq_true, ↓reduceIte]
      exact invX_shareOff hi s hmem hp'

theorem setName_inv {w w' : World} {h name r} (hi : InvX w none)
    (e : setName w h name = .ok (w', r)) : InvX w' none := by
  unfold setName at e
  split at e; · cases e
  rename_i sid hh
  split at e; · cases e
  rename_i s hs
  obtain ⟨hmem, hid⟩ := getS_some hs
  split at e; · cases e
  rename_i hc
  cases e
  rw [← hid]
  exact invX_setName hi s name hmem (by simpa using hc)

theorem writeAt_inv {w w' : World} {h i tok r} (hi : InvX w none)
    (e : writeAt w h i tok = .ok (w', r)) : InvX w' none := by
  unfold writeAt at e
  split at e; · cases e
  split at e; · cases e
  split at e
  · cases e
    exact invX_setVals hi _ _ (by intro s _ _; simp)
  · cases e

theorem hcopy_inv {w w' : World} {h h' r} (hi : InvX w none)
    (e : hcopy w h h' = .ok (w', r)) : InvX w' none := by
  unfold hcopy at e
  split at e; · cases e
  rename_i sid hh
  split at e; · cases e
  rename_i hc
  cases e
  have hfs : ¬ (!freeSlot w h') = true := by intro hx; exact hc (by simp [hx])
  exact invX_addHandle hi h' sid (hi.handlesOk _ (hget_some hh)) (free_of hfs)

theorem hmove_inv {w w' : World} {h h' r} (hi : InvX w none)
    (e : hmove w h h' = .ok (w', r)) : InvX w' none := by
  unfold hmove at e
  split at e; · cases e
  rename_i sid hh
  split at e; · cases e
  rename_i hc
  cases e
  have hfs : ¬ (!freeSlot w h') = true := by intro hx; exact hc (by simp [hx])
  have hfree := free_of hfs
  refine invX_addHandle (invX_delHandle hi h) h' sid (hi.handlesOk _ (hget_some hh)) ?_
  unfold hget delHandle
  cases hf : (w.handles.filter (·.1 != h)).find? (·.1 == h') with
  | none => rfl
  | some q =>
    have hq := List.mem_of_find?_eq_some hf
    have hq1 : q.1 = h' := by simpa using List.find?_some hf
    exact (hget_none hfree q (List.mem_filter.mp hq).1 hq1).elim

theorem hdrop_inv {w w' : World} {h r} (hi : InvX w none)
    (e : hdrop w h = .ok (w', r)) : InvX w' none := by
  unfold hdrop at e
  split at e
  · cases e
  · cases e; exact invX_delHandle hi h

theorem clearProps_inv {w w' : World} {m k r} (hi : InvX w none)
    (e : clearProps w m k = .ok (w', r)) : InvX w' none := by
  unfold clearProps at e
  split at e
  · cases e
  · cases e; exact invX_clearProps hi m _

theorem clearAllProps_inv {w w' : World} {m r} (hi : InvX w none)
    (e : clearAllProps w m = .ok (w', r)) : InvX w' none := by
  unfold clearAllProps at e
  split at e
  · cases e
  · cases e; exact invX_clearProps hi m _

theorem clearMesh_inv {w w' : World} {m cp t r} (hi : InvX w none)
    (e : clearMesh w m cp t = .ok (w', r)) : InvX w' none := by
  unfold clearMesh at e
  split at e
  · cases e
  · cases e
    have h1 : InvX (if cp = true then clearPropsCore w m (fun _ => true) else w) none := by
      split
      · exact invX_clearProps hi m _
      · exact hi
    refine invX_resize h1 m {} t notMeshKind ?_
    intro me _ _ k hk
    cases k <;> simp_all [notMeshKind, Counts.n]

theorem setCounts_inv {w w' : World} {m c t r} (hi : InvX w none)
    (e : setCounts w m c t = .ok (w', r)) : InvX w' none := by
  unfold setCounts at e
  split at e
  · cases e
  · cases e
    refine invX_resize hi m c t notMeshKind ?_
    intro me _ _ k hk
    cases k <;> simp_all [notMeshKind, Counts.n]

theorem eraseEntities_inv {w w' : World} {m dv de df dc t r} (hi : InvX w none)
    (e : eraseEntities w m dv de df dc t = .ok (w', r)) : InvX w' none := by
  unfold eraseEntities at e
  split at e; · cases e
  rename_i me hm
  obtain ⟨hme, hmid⟩ := getM_some hm
  split at e; · cases e
  rename_i hd
  cases e
  exact invX_erase hi m me hme hmid dv de df dc t (by simpa using hd)

theorem topoOnly_inv {w w' : World} {m t r} (hi : InvX w none)
    (e : topoOnly w m t = .ok (w', r)) : InvX w' none := by
  unfold topoOnly at e
  split at e
  · cases e
  · cases e; exact invX_topo hi m t

theorem destroyMesh_inv {w w' : World} {m r} (hi : InvX w none)
    (e : destroyMesh w m = .ok (w', r)) : InvX w' none := by
  unfold destroyMesh at e
  split at e
  · cases e
  · cases e; exact invX_destroy hi m


/-- in a state satisfying the invariant the position storage of a mesh is found and has one slot
    per vertex -/
theorem pos_lookup {w : World} (hi : InvX w none) {me : Mesh} (hme : me ∈ w.meshes) :
    ∃ p, getS w me.pos = some p ∧ p ∈ w.heap ∧ p.id = me.pos ∧ p.tracker = some me.id ∧ p.kind = .V ∧
      p.ty = .vec3d ∧ p.vals.length = me.cnt.nV := by
  obtain ⟨s, hs, e1, e2, e3, e4⟩ := hi.posOk me hme (by simp)
  have hl := hi.sizes s hs me hme e2
  refine ⟨s, ?_, hs, e1, e2, e3, e4, by simpa [e3, Counts.n] using hl⟩
  rw [← e1]; exact getS_of_mem hi hs

theorem addVertex_inv {w w' : World} {m tok t r} (hi : InvX w none)
    (e : addVertex w m tok t = .ok (w', r)) : InvX w' none := by
  unfold addVertex at e
  split at e; · cases e
  rename_i me hm
  obtain ⟨hme, hmid⟩ := getM_some hm
  have h2 : InvX (resizeTracked (modM w m (fun x => { x with cnt := { me.cnt with nV := me.cnt.nV + 1 }, topo := t })) m
      { me.cnt with nV := me.cnt.nV + 1 } (· == .V)) none := by
    refine invX_resize hi m _ t _ ?_
    intro me' hme' hid' k hk
    have : me' = me := hi.meshInj me' hme' me hme (hid'.trans hmid.symm)
    subst this
    exact counts_n_addV me'.cnt k hk
  have hme2 : ({ me with cnt := { me.cnt with nV := me.cnt.nV + 1 }, topo := t } : Mesh) ∈
      (resizeTracked (modM w m (fun x => { x with cnt := { me.cnt with nV := me.cnt.nV + 1 }, topo := t })) m
        { me.cnt with nV := me.cnt.nV + 1 } (· == .V)).meshes :=
    mem_modM (fun x => { x with cnt := { me.cnt with nV := me.cnt.nV + 1 }, topo := t }) hme hmid
  obtain ⟨p, hg, _, _, _, _, _, hl⟩ := pos_lookup h2 hme2
  simp only at hg hl
  simp only [hg] at e
  have hlt : me.cnt.nV < p.vals.length := by omega
  simp only [hlt, ↓reduceIte] at e
  cases e
  exact invX_setVals h2 _ _ (by intro s _ _; simp)

theorem setVertex_inv {w w' : World} {m v tok r} (hi : InvX w none)
    (e : setVertex w m v tok = .ok (w', r)) : InvX w' none := by
  unfold setVertex at e
  split at e; · cases e
  rename_i me hm
  obtain ⟨hme, _⟩ := getM_some hm
  split at e; · cases e
  rename_i hv
  obtain ⟨p, hg, _, _, _, _, _, hl⟩ := pos_lookup hi hme
  simp only [hg] at e
  have hlt : v < p.vals.length := by omega
  simp only [hlt, ↓reduceIte] at e
  cases e
  exact invX_setVals hi _ _ (by intro s _ _; simp)

theorem getM_append_new {w : World} {rec : Mesh} (hfree : ∀ me ∈ w.meshes, me.id ≠ rec.id) :
    getM { w with meshes := w.meshes ++ [rec] } rec.id = some rec := by
  unfold getM
  simp only
  rw [List.find?_append]
  have : w.meshes.find? (fun x => x.id == rec.id) = none := by
    apply List.find?_eq_none.mpr
    intro me hme; simpa using hfree me hme
  simp [this]

theorem getM_append_old {w : World} {rec me : Mesh} {m : Nat} (h : getM w m = some me) :
    getM { w with meshes := w.meshes ++ [rec] } m = some me := by
  unfold getM at *
  simp only
  rw [List.find?_append, h]; rfl

theorem newMesh_inv {w w' : World} {m mk t r} (hi : InvX w none)
    (e : newMesh w m mk t = .ok (w', r)) : InvX w' none := by
  unfold newMesh at e
  split at e; · cases e
  rename_i hm
  cases e
  have hfree := getM_none hm
  have h1 := invX_newMeshRec hi { id := m, mtype := mk, cnt := {}, pers := [], pos := w.next, topo := t } hfree rfl
  exact invX_makePos h1 (Or.inr rfl) _ (getM_append_new (rec := { id := m, mtype := mk, cnt := {}, pers := [], pos := w.next, topo := t }) hfree) [] rfl


theorem find_map_mod_self (l : List Mesh) (m : Nat) (F : Mesh → Mesh) (hF : ∀ x, (F x).id = x.id) (me : Mesh)
    (h : l.find? (·.id == m) = some me) :
    (l.map (fun x => if x.id = m then F x else x)).find? (·.id == m) = some (F me) := by
  induction l with
  | nil => simp at h
  | cons a l ih =>
    rw [List.map_cons]
    by_cases ha : a.id = m
    · rw [List.find?_cons_of_pos (by simp [ha])] at h
      cases h
      rw [List.find?_cons_of_pos (by simp [ha, hF])]
      simp [ha]
    · rw [List.find?_cons_of_neg (by simpa using ha)] at h
      rw [List.find?_cons_of_neg (by simp [ha])]
      exact ih h

theorem find_map_mod_ne (l : List Mesh) (m m' : Nat) (F : Mesh → Mesh) (hF : ∀ x, (F x).id = x.id) (hne : m' ≠ m) :
    (l.map (fun x => if x.id = m then F x else x)).find? (·.id == m') = l.find? (·.id == m') := by
  induction l with
  | nil => rfl
  | cons a l ih =>
    have hid : (if a.id = m then F a else a).id = a.id := by split <;> simp [hF]
    rw [List.map_cons, List.find?_cons, List.find?_cons, hid]
    cases hb : (a.id == m')
    · exact ih
    · have : a.id ≠ m := by intro e; rw [e] at hb; simp at hb; exact hne hb.symm
      simp [this]

theorem getM_modM_self {w : World} {m : Nat} {me : Mesh} (F : Mesh → Mesh) (hF : ∀ x, (F x).id = x.id)
    (h : getM w m = some me) : getM (modM w m F) m = some (F me) :=
  find_map_mod_self w.meshes m F hF me h

theorem getM_modM_ne {w : World} {m m' : Nat} (F : Mesh → Mesh) (hF : ∀ x, (F x).id = x.id) (hne : m' ≠ m) :
    getM (modM w m F) m' = getM w m' :=
  find_map_mod_ne w.meshes m m' F hF hne

theorem getM_congr {w1 w2 : World} (h : w1.meshes = w2.meshes) (m : Nat) : getM w1 m = getM w2 m := by
  unfold getM; rw [h]

theorem getM_clearPropsCore_ne {w : World} {m m' : Nat} (sel : Kind → Bool) (hne : m' ≠ m) :
    getM (clearPropsCore w m sel) m' = getM w m' := by
  have e : getM (clearPropsCore w m sel) m' =
      getM (modM w m (fun me => { me with pers := me.pers.filter (fun i => !(getS w i).any (fun s => sel s.kind)) })) m' :=
    getM_congr rfl m'
  rw [e]; exact getM_modM_ne _ (fun _ => rfl) hne

theorem getM_clearPropsCore_self {w : World} {m : Nat} {me : Mesh} (sel : Kind → Bool) (h : getM w m = some me) :
    getM (clearPropsCore w m sel) m =
      some { me with pers := me.pers.filter (fun i => !(getS w i).any (fun s => sel s.kind)) } := by
  have e : getM (clearPropsCore w m sel) m =
      getM (modM w m (fun me => { me with pers := me.pers.filter (fun i => !(getS w i).any (fun s => sel s.kind)) })) m :=
    getM_congr rfl m
  rw [e]; exact getM_modM_self _ (fun _ => rfl) h

theorem getM_resizeTracked {w : World} (m : Nat) (c : Counts) (sel : Kind → Bool) (m' : Nat) :
    getM (resizeTracked w m c sel) m' = getM w m' := getM_congr rfl m'

theorem copyMesh_inv {w w' : World} {src dst r} (hi : InvX w none)
    (e : copyMesh w src dst = .ok (w', r)) : InvX w' none := by
  unfold copyMesh at e
  split at e
  · rename_i sm hs hd
    cases e
    obtain ⟨hsm, _⟩ := getM_some hs
    have hfree := getM_none hd
    obtain ⟨p, hg, _, _, _, _, _, hl⟩ := pos_lookup hi hsm
    simp only [hg, Option.map_some, Option.getD_some]
    -- the record of the mesh under construction
    generalize hrec : ({ id := dst, mtype := sm.mtype, cnt := sm.cnt, pers := [], pos := w.next + w.next, topo := sm.topo } : Mesh) = rec
    have hrid : rec.id = dst := by rw [← hrec]
    have hrp : rec.pers = [] := by rw [← hrec]
    have hrc : rec.cnt = sm.cnt := by rw [← hrec]
    have hfree' : ∀ me ∈ w.meshes, me.id ≠ rec.id := by rw [hrid]; exact hfree
    have h1 := invX_newMeshRec hi rec hfree' hrp
    rw [hrid] at h1
    have hs1 : getM { w with meshes := w.meshes ++ [rec] } src = some sm := getM_append_old hs
    have hd1 : getM { w with meshes := w.meshes ++ [rec] } dst = some rec := by
      rw [← hrid]; exact getM_append_new hfree'
    have hun : ∀ t ∈ ({ w with meshes := w.meshes ++ [rec] } : World).heap, t.tracker = some dst → t.shared = false := by
      intro t ht htr
      obtain ⟨me, hme, e⟩ := hi.trackerLive t ht dst htr
      exact (hfree me hme e).elim
    have h2 := invX_clones h1 src dst sm rec hs1 (getM_some hd1).1 hrid hrc hun
    have hd2 : getM (clonePersistent { w with meshes := w.meshes ++ [rec] } src dst) dst =
        some { rec with pers := rec.pers ++ (clonesOf { w with meshes := w.meshes ++ [rec] } sm dst).map (·.id) } := by
      rw [clonePersistent_eq hs1]
      exact getM_modM_self _ (fun _ => rfl) ((getM_congr rfl dst).trans hd1)
    exact invX_makePos h2 (Or.inr rfl) _ hd2 p.vals (by simpa [hrc] using hl)
  · cases e

theorem assignMesh_inv {w w' : World} {dst src r} (hi : InvX w none)
    (e : assignMesh w dst src = .ok (w', r)) : InvX w' none := by
  unfold assignMesh at e
  split at e
  · rename_i dm0 sm hd hs
    split at e
    · cases e; exact hi
    rename_i hne
    cases e
    obtain ⟨hsm, _⟩ := getM_some hs
    obtain ⟨hdm0, hdid0⟩ := getM_some hd
    obtain ⟨p, hg, _, _, _, _, _, hl⟩ := pos_lookup hi hsm
    simp only [hg, Option.map_some, Option.getD_some]
    have h1 := invX_clearProps hi dst (fun _ => true)
    have h3 := invX_resize h1 dst sm.cnt sm.topo (fun _ => true) (by intro _ _ _ k hk; simp at hk)
    -- lookups in the intermediate state
    have hne' : src ≠ dst := fun e => hne e.symm
    have hs3 : getM (resizeTracked (modM (clearPropsCore w dst (fun _ => true)) dst
        (fun me => { me with cnt := sm.cnt, topo := sm.topo })) dst sm.cnt (fun _ => true)) src = some sm := by
      rw [getM_resizeTracked, getM_modM_ne (fun me : Mesh => { me with cnt := sm.cnt, topo := sm.topo }) (fun _ => rfl) hne',
        getM_clearPropsCore_ne _ hne']; exact hs
    obtain ⟨dm3, hd3⟩ : ∃ dm3, getM (resizeTracked (modM (clearPropsCore w dst (fun _ => true)) dst
        (fun me => { me with cnt := sm.cnt, topo := sm.topo })) dst sm.cnt (fun _ => true)) dst = some dm3 ∧ dm3.cnt = sm.cnt := by
      have a := getM_clearPropsCore_self (fun _ => true) hd
      have b := getM_modM_self (fun me : Mesh => { me with cnt := sm.cnt, topo := sm.topo }) (fun _ => rfl) a
      exact ⟨_, (getM_resizeTracked dst sm.cnt (fun _ => true) dst).trans b, rfl⟩
    have hun : ∀ t ∈ (resizeTracked (modM (clearPropsCore w dst (fun _ => true)) dst
        (fun me => { me with cnt := sm.cnt, topo := sm.topo })) dst sm.cnt (fun _ => true)).heap,
        t.tracker = some dst → t.shared = false := by
      intro t ht htr
      simp only [resizeTracked, modM, clearPropsCore, mapHeap, List.mem_map] at ht
      obtain ⟨t1, ⟨t0, _, rfl⟩, rfl⟩ := ht
      by_cases h0 : t0.tracker = some dst
      · simp [h0]
      · simp [h0] at htr
    have h4 := invX_clones h3 src dst sm dm3 hs3 (getM_some hd3.1).1 (getM_some hd3.1).2 hd3.2 hun
    have hd4 : getM (clonePersistent (resizeTracked (modM (clearPropsCore w dst (fun _ => true)) dst
        (fun me => { me with cnt := sm.cnt, topo := sm.topo })) dst sm.cnt (fun _ => true)) src dst) dst =
        some { dm3 with pers := dm3.pers ++ (clonesOf (resizeTracked (modM (clearPropsCore w dst (fun _ => true)) dst
          (fun me => { me with cnt := sm.cnt, topo := sm.topo })) dst sm.cnt (fun _ => true)) sm dst).map (·.id) } := by
      rw [clonePersistent_eq hs3]
      exact getM_modM_self _ (fun _ => rfl) ((getM_congr rfl dst).trans hd3.1)
    exact invX_makePos h4 (Or.inl rfl) _ hd4 p.vals (by simpa [hd3.2] using hl)
  · cases e

/-- every C++ call keeps the invariant (garbage aside) -/
theorem core_inv {w w' : World} {op : Op} {r : Res} (hi : InvX w none) (e : core w op = .ok (w', r)) :
    InvX w' none := by
  cases op <;> simp only [core] at e
  · exact request_inv hi e
  · exact createShared_inv hi e
  · exact createPersistent_inv hi e
  · exact createPrivate_inv hi e
  · exact getProp_inv hi e
  · exact propExists_inv hi e
  · exact setShared_inv hi e
  · exact setPersistent_inv hi e
  · exact setName_inv hi e
  · exact writeAt_inv hi e
  · exact hcopy_inv hi e
  · exact hmove_inv hi e
  · exact hdrop_inv hi e
  · exact clearProps_inv hi e
  · exact clearAllProps_inv hi e
  · exact clearMesh_inv hi e
  · exact setCounts_inv hi e
  · exact addVertex_inv hi e
  · exact setVertex_inv hi e
  · exact eraseEntities_inv hi e
  · exact topoOnly_inv hi e
  · exact newMesh_inv hi e
  · exact copyMesh_inv hi e
  · exact assignMesh_inv hi e
  · exact destroyMesh_inv hi e

theorem step_ok {w w' : World} {op : Op} {r : Res} (e : step w op = .ok (w', r)) :
    ∃ w1, core w op = .ok (w1, r) ∧ w' = gc w1 := by
  unfold step at e
  split at e
  · rename_i w1 r1 h; cases e; exact ⟨w1, h, rfl⟩
  · cases e

/-- every transition keeps the invariant -/
theorem step_inv {w w' : World} {op : Op} {r : Res} (hi : Inv w) (e : step w op = .ok (w', r)) : Inv w' := by
  obtain ⟨w1, h, rfl⟩ := step_ok e
  exact gc_inv (core_inv hi.x h)

theorem next_inv {w : World} (op : Op) (hi : Inv w) : Inv (next w op) := by
  unfold next
  split
  · rename_i w' r h; exact step_inv hi h
  · exact hi

theorem run_inv (ops : List Op) {w : World} (hi : Inv w) : Inv (run w ops) := by
  induction ops generalizing w with
  | nil => exact hi
  | cons op ops ih => exact ih (next_inv op hi)

theorem inv_empty : Inv {} := by
  refine ⟨⟨?_, ?_, ?_, ?_, ?_, ?_, ?_, ?_, ?_, ?_, ?_, ?_, ?_, ?_, ?_⟩, ?_⟩ <;> simp

end OVM.Registry

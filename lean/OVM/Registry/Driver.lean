/-
  Judge for `prop_drv` traces (properties C13, C14).

  For every step k of every trace it
    * parses the implementation's dump I_k into a model `World` (re-synchronising at every
      step, so one divergence does not cascade),
    * replays the operation on the model (`step`) and compares model and implementation under
      the projection the properties specify: results / exception classes, and the *canonical
      form* of the state — storage identities are renumbered by a deterministic traversal of
      the owners (mesh position, persistent properties sorted by (kind,type,name,values),
      handles by slot), never addresses; `n_props` / `n_persistent_props` per kind,
    * evaluates the property oracles directly on the implementation's dumps I_k → I_{k+1}
      (C14 registry invariants; C13 mutate-one-inspect-other frame, copy/assign postconditions).

  Output: `OK trace=<t> steps=<n>` or `XFAIL …` / `ORACLE …` / `ABORT …` lines, then `SUMMARY …`.
  Run: `lake env lean --run OVM/Registry/Driver.lean < trace`  (or compiled as an executable).
  core-only imports.
-/
import OVM.Registry.World
open OVM.Registry

namespace OVM.Registry.Judge

/-- the implementation's state as dumped: the model world plus what only the dump knows -/
structure Impl where
  w   : World := {}
  np  : List (Nat × List Nat) := []     -- mesh id ↦ n_props per kind
  pp  : List (Nat × List Nat) := []     -- mesh id ↦ n_persistent_props per kind
  own : List (Nat × Int) := []          -- storage id ↦ mesh it was created on (driver bookkeeping)
  bad : Option String := none           -- parse problem
deriving Inhabited

structure Step where
  op    : List String := []
  ghost : Option (List String) := none
  res   : Option (List String) := none
  post  : Option Impl := none
deriving Inhabited

structure Trace where
  hdr   : String := ""
  init  : Impl := {}
  steps : Array Step := #[]
  x     : Option String := none
deriving Inhabited

/-! ### parsing -/

def kindOf? : String → Option Kind
  | "V" => some .V | "E" => some .E | "HE" => some .HE | "F" => some .F
  | "HF" => some .HF | "C" => some .C | "M" => some .M | _ => none

def tyOf? : String → Option Ty
  | "int" => some .int | "bool" => some .bool | "double" => some .double
  | "string" => some .string | "vec3d" => some .vec3d | _ => none

def kindIdx : Kind → Nat
  | .V => 0 | .E => 1 | .HE => 2 | .F => 3 | .HF => 4 | .C => 5 | .M => 6

def tyIdx : Ty → Nat
  | .int => 0 | .bool => 1 | .double => 2 | .string => 3 | .vec3d => 4

def kindName : Kind → String
  | .V => "V" | .E => "E" | .HE => "HE" | .F => "F" | .HF => "HF" | .C => "C" | .M => "M"

def tyName : Ty → String
  | .int => "int" | .bool => "bool" | .double => "double" | .string => "string" | .vec3d => "vec3d"

def unq (s : String) : String :=
  if s.length ≥ 2 && s.front == '"' && s.back == '"' then ((s.drop 1).dropEnd 1).copy else s

def nat! (s : String) : Nat := s.toNat?.getD 0
def int! (s : String) : Int := s.toInt?.getD 0

def natsFrom (l : List String) : List Nat := l.map nat!

/-- `n x1 … xn rest` ↦ ([x1…xn], rest) -/
def takeList (l : List String) : List Nat × List String :=
  match l with
  | [] => ([], [])
  | n :: r => let k := nat! n; (natsFrom (r.take k), r.drop k)

def parseMesh (t : List String) (im : Impl) : Impl :=
  match t with
  | id :: mt :: nV :: nE :: nF :: nC :: topo :: "np" :: r =>
    let np := natsFrom (r.take 7)
    let r := r.drop 7
    match r with
    | "pp" :: r =>
      let pp := natsFrom (r.take 7)
      match r.drop 7 with
      | "pos" :: pos :: "pers" :: r =>
        let (pers, _) := takeList r
        let me : Mesh := { id := nat! id, mtype := nat! mt,
                           cnt := { nV := nat! nV, nE := nat! nE, nF := nat! nF, nC := nat! nC },
                           pers := pers, pos := nat! pos, topo := nat! topo }
        { im with w := { im.w with meshes := im.w.meshes ++ [me] },
                  np := im.np ++ [(me.id, np)], pp := im.pp ++ [(me.id, pp)] }
      | _ => { im with bad := some "mesh line (pos/pers)" }
    | _ => { im with bad := some "mesh line (pp)" }
  | _ => { im with bad := some "mesh line" }

def parseStorage (t : List String) (im : Impl) : Impl :=
  match t with
  | sid :: own :: k :: ty :: sh :: pe :: att :: d :: name :: n :: r =>
    match kindOf? k, tyOf? ty with
    | some k, some ty =>
      let vals := (r.take (nat! n)).map int!
      let ownI := int! own
      let s : Storage := { id := nat! sid, kind := k, ty := ty, name := unq name, shared := sh == "1",
                           pers := pe == "1", tracker := if att == "1" then some ownI.toNat else none,
                           dflt := int! d, vals := vals }
      { im with w := { im.w with heap := im.w.heap ++ [s], next := max im.w.next (s.id + 1) },
                own := im.own ++ [(s.id, ownI)] }
    | _, _ => { im with bad := some "storage line (kind/type)" }
  | _ => { im with bad := some "storage line" }

def parseHandle (t : List String) (im : Impl) : Impl :=
  match t with
  | [h, sid] => { im with w := { im.w with handles := im.w.handles ++ [(nat! h, nat! sid)] } }
  | _ => { im with bad := some "handle line" }

def words (l : String) : List String := (l.splitOn " ").filter (· ≠ "")

/-- parse all traces of the input -/
partial def parseTraces (lines : Array String) : Array Trace := Id.run do
  let mut out : Array Trace := #[]
  let mut cur : Trace := {}
  let mut have_ := false
  let mut inDump := false
  let mut dump : Impl := {}
  let mut sawInit := false
  let mut st : Step := {}
  let mut haveStep := false
  for l in lines do
    if l.isEmpty then continue
    let tag := l.front
    if inDump then
      if tag == 'E' && l.length == 1 then
        inDump := false
        if !sawInit then
          cur := { cur with init := dump }
          sawInit := true
        else if haveStep then
          cur := { cur with steps := cur.steps.push { st with post := some dump } }
          st := {}
          haveStep := false
      else
        let t := words l
        match t with
        | "m" :: r => dump := parseMesh r dump
        | "s" :: r => dump := parseStorage r dump
        | "h" :: r => dump := parseHandle r dump
        | _ => dump := { dump with bad := some s!"unknown dump line {l}" }
      continue
    if tag == 'T' then
      if have_ then
        if haveStep then cur := { cur with steps := cur.steps.push st }
        out := out.push cur
      cur := { hdr := l }
      have_ := true; sawInit := false; st := {}; haveStep := false
    else if tag == 'S' && l.length == 1 then
      inDump := true; dump := {}
    else if tag == 'O' then
      if haveStep then cur := { cur with steps := cur.steps.push st }
      st := { op := (words l).drop 1 }
      haveStep := true
    else if tag == 'G' then
      st := { st with ghost := some ((words l).drop 1) }
    else if tag == 'R' then
      st := { st with res := some ((words l).drop 1) }
    else if tag == 'X' then
      cur := { cur with x := some (l.drop 2).copy }
    else if tag == 'Z' then
      if have_ then
        if haveStep then cur := { cur with steps := cur.steps.push st }
        out := out.push cur
      cur := {}; have_ := false; st := {}; haveStep := false; sawInit := false
    else continue
  if have_ then
    if haveStep then cur := { cur with steps := cur.steps.push st }
    out := out.push cur
  return out

/-! ### building the model operation of a step -/

def meshOf (im : Impl) (m : Nat) : Option Mesh := getM im.w m

/-- the operation as the model sees it; topology operations take the new counts / digest from
    the implementation's next dump (C13/C14 do not specify topology, only that nobody else's
    changes) and the erased slots from the `G` line -/
def mkOp (st : Step) (pre post : Impl) : Option Op :=
  let postMesh (m : Nat) : Mesh := (meshOf post m).getD { id := m, pos := 0 }
  let ghostErase (m : Nat) : Op :=
    match st.ghost with
    | some g =>
      let (dv, r) := takeList g
      let (de, r) := takeList r
      let (df, r) := takeList r
      let (dc, _) := takeList r
      .erase m dv.reverse de.reverse df.reverse dc.reverse (postMesh m).topo
    | none => .topoOnly m (postMesh m).topo
  match st.op with
  | ["request", m, h, k, ty, name, d] => do
      some (.request (nat! m) (nat! h) (← kindOf? k) (← tyOf? ty) (unq name) (int! d))
  | ["create_shared", m, h, k, ty, name, d] => do
      some (.createShared (nat! m) (nat! h) (← kindOf? k) (← tyOf? ty) (unq name) (int! d))
  | ["create_persistent", m, h, k, ty, name, d] => do
      some (.createPersistent (nat! m) (nat! h) (← kindOf? k) (← tyOf? ty) (unq name) (int! d))
  | ["create_private", m, h, k, ty, name, d] => do
      some (.createPrivate (nat! m) (nat! h) (← kindOf? k) (← tyOf? ty) (unq name) (int! d))
  | ["get", m, h, k, ty, name] => do
      some (.get (nat! m) (nat! h) (← kindOf? k) (← tyOf? ty) (unq name))
  | ["exists", m, k, ty, name] => do
      some (.exists_ (nat! m) (← kindOf? k) (← tyOf? ty) (unq name))
  | ["set_shared", m, h, b] => some (.setShared (nat! m) (nat! h) (b == "1"))
  | ["set_persistent", m, h, b] => some (.setPersistent (nat! m) (nat! h) (b == "1"))
  | ["set_name", h, name] => some (.setName (nat! h) (unq name))
  | ["write", h, i, tok] => some (.write (nat! h) (nat! i) (int! tok))
  | ["hcopy", h, h'] => some (.hcopy (nat! h) (nat! h'))
  | ["hmove", h, h'] => some (.hmove (nat! h) (nat! h'))
  | ["hdrop", h] => some (.hdrop (nat! h))
  | ["clear_props", m, k] => do some (.clearProps (nat! m) (← kindOf? k))
  | ["clear_all_props", m] => some (.clearAllProps (nat! m))
  | ["clear", m, cp] => some (.clear (nat! m) (cp == "1") (postMesh (nat! m)).topo)
  | ["add_vertex", m, tok] => some (.addVertex (nat! m) (int! tok) (postMesh (nat! m)).topo)
  | ["set_vertex", m, v, tok] => some (.setVertex (nat! m) (nat! v) (int! tok))
  | "add_edge" :: m :: _ => some (.setCounts (nat! m) (postMesh (nat! m)).cnt (postMesh (nat! m)).topo)
  | "add_face" :: m :: _ => some (.setCounts (nat! m) (postMesh (nat! m)).cnt (postMesh (nat! m)).topo)
  | "add_cell" :: m :: _ => some (.setCounts (nat! m) (postMesh (nat! m)).cnt (postMesh (nat! m)).topo)
  | "delete_vertex" :: m :: _ => some (ghostErase (nat! m))
  | "delete_edge" :: m :: _ => some (ghostErase (nat! m))
  | "delete_face" :: m :: _ => some (ghostErase (nat! m))
  | "delete_cell" :: m :: _ => some (ghostErase (nat! m))
  | ["collect_garbage", m] => some (ghostErase (nat! m))
  | ["deferred", m, _] => some (ghostErase (nat! m))
  | ["new_mesh", m, mt] => some (.newMesh (nat! m) (nat! mt) (postMesh (nat! m)).topo)
  | ["copy", s, d] => some (.copy (nat! s) (nat! d))
  | ["assign", d, s] => some (.assign (nat! d) (nat! s))
  | ["destroy", m] => some (.destroy (nat! m))
  | _ => let _ := pre; none

/-! ### canonical form -/

def insertBy {α} (lt : α → α → Bool) (x : α) : List α → List α
  | [] => [x]
  | y :: ys => if lt x y then x :: y :: ys else y :: insertBy lt x ys

def sortBy {α} (lt : α → α → Bool) (l : List α) : List α := l.foldr (insertBy lt) []

def listLt : List Int → List Int → Bool
  | [], [] => false
  | [], _ => true
  | _, [] => false
  | a :: as, b :: bs => if a < b then true else if b < a then false else listLt as bs

def storageKeyLt (a b : Storage) : Bool :=
  let ka := kindIdx a.kind; let kb := kindIdx b.kind
  if ka != kb then ka < kb else
  let ta := tyIdx a.ty; let tb := tyIdx b.ty
  if ta != tb then ta < tb else
  if a.name != b.name then a.name < b.name else
  listLt a.vals b.vals

/-- storage ids in canonical owner order (duplicates removed, first occurrence wins) -/
def canonOrder (w : World) : List Nat :=
  let meshes := sortBy (fun (a b : Mesh) => a.id < b.id) w.meshes
  let perMesh := meshes.flatMap (fun me =>
    let ps := sortBy storageKeyLt (me.pers.filterMap (getS w))
    me.pos :: ps.map (·.id))
  let hs := (sortBy (fun (a b : Nat × Nat) => a.1 < b.1) w.handles).map (·.2)
  let rest := w.heap.map (·.id)      -- anything unreachable (never in a sane state) goes last
  (perMesh ++ hs ++ rest).eraseDups

def indexOf (l : List Nat) (x : Nat) : Nat := (l.findIdx? (· == x)).getD l.length

def showStorage (ren : Nat → Nat) (s : Storage) : String :=
  s!"#{ren s.id} {kindName s.kind} {tyName s.ty} \"{s.name}\" sh={s.shared} pe={s.pers} tr={s.tracker} def={s.dflt} vals={s.vals}"

/-- canonical rendering of a world as labelled fields (compared field by field) -/
def canonFields (w : World) : List (String × String) :=
  let order := canonOrder w
  let ren := indexOf order
  let meshes := sortBy (fun (a b : Mesh) => a.id < b.id) w.meshes
  let mfields := meshes.flatMap (fun me =>
    [(s!"mesh{me.id}.type", toString me.mtype),
     (s!"mesh{me.id}.counts", s!"{me.cnt.nV} {me.cnt.nE} {me.cnt.nF} {me.cnt.nC}"),
     (s!"mesh{me.id}.topo", toString me.topo),
     (s!"mesh{me.id}.pos", toString (ren me.pos)),
     (s!"mesh{me.id}.pers", toString (sortBy (· < ·) (me.pers.map ren))),
     (s!"mesh{me.id}.n_props", toString (Kind.all.map (nProps w me.id))),
     (s!"mesh{me.id}.n_persistent_props", toString (Kind.all.map (nPers w me.id)))])
  let sfields := (sortBy (fun (a b : Storage) => ren a.id < ren b.id) w.heap).map
                   (fun s => (s!"storage{ren s.id}", showStorage ren s))
  let hfields := (sortBy (fun (a b : Nat × Nat) => a.1 < b.1) w.handles).map
                   (fun h => (s!"handle{h.1}", toString (ren h.2)))
  mfields ++ [("n_storages", toString w.heap.length)] ++ sfields ++ hfields

def firstDiff : List (String × String) → List (String × String) → Option (String × String × String)
  | [], [] => none
  | (k, v) :: _, [] => some (k, v, "<absent>")
  | [], (k, v) :: _ => some (k, "<absent>", v)
  | (k1, v1) :: r1, (k2, v2) :: r2 =>
    if k1 != k2 then some (k1 ++ "|" ++ k2, v1, v2)
    else if v1 != v2 then some (k1, v1, v2)
    else firstDiff r1 r2

def showRes : Except Err (World × Res) → String
  | .ok (_, .unit) => "unit"
  | .ok (_, .ok) => "ok"
  | .ok (_, .none) => "none"
  | .ok (_, .bool true) => "true"
  | .ok (_, .bool false) => "false"
  | .error .runtime => "exc runtime_error"
  | .error .outOfRange => "exc out_of_range"
  | .error .invalid => "invalid"

/-! ### oracles evaluated on the implementation's own dumps -/

def ownOf (im : Impl) (sid : Nat) : Int := ((im.own.find? (·.1 == sid)).map (·.2)).getD (-1)

def lookupArr (l : List (Nat × List Nat)) (m : Nat) (k : Kind) : Nat :=
  (((l.find? (·.1 == m)).map (·.2)).getD []).getD (kindIdx k) 0

/-- the storage as an owner-independent value (no ids) -/
def content (s : Storage) : String :=
  s!"{kindName s.kind} {tyName s.ty} \"{s.name}\" sh={s.shared} pe={s.pers} att={s.tracker.isSome} def={s.dflt} vals={s.vals}"

/-- everything observable about mesh `m` without storage identities -/
def meshContent (im : Impl) (me : Mesh) : String :=
  let w := im.w
  let ps := (sortBy storageKeyLt (me.pers.filterMap (getS w))).map content
  s!"type={me.mtype} counts={me.cnt.nV},{me.cnt.nE},{me.cnt.nF},{me.cnt.nC} topo={me.topo} " ++
  s!"np={Kind.all.map (lookupArr im.np me.id)} pp={Kind.all.map (lookupArr im.pp me.id)} " ++
  s!"pos=[{((getS w me.pos).map content).getD "?"}] pers={ps}"

/-- C14: registry invariants of one dumped state -/
def c14State (im : Impl) : List (String × String) := Id.run do
  let w := im.w
  let mut out : List (String × String) := []
  for s in w.heap do
    if s.pers && !s.shared then out := out ++ [("persistent_implies_shared", content s)]
    if s.shared && s.name == "" then out := out ++ [("shared_implies_named", content s)]
    match s.tracker with
    | some m =>
      match getM w m with
      | none => out := out ++ [("attached_to_dead_mesh", content s)]
      | some me =>
        if s.vals.length != me.cnt.n s.kind then
          out := out ++ [("attached_size_eq_count", s!"mesh {m}: {content s}")]
        if s.pers && !me.pers.contains s.id then
          out := out ++ [("persistent_flag_without_owner", s!"mesh {m}: {content s}")]
    | none => pure ()
    if !(owned w s.id) then out := out ++ [("exists_iff_referenced", content s)]
  -- uniqueness among attached shared storages of one mesh
  for s in w.heap do
    for t in w.heap do
      if s.id < t.id && s.shared && t.shared && s.tracker.isSome && s.tracker == t.tracker
          && s.kind == t.kind && s.ty == t.ty && s.name == t.name then
        out := out ++ [("shared_unique", s!"{content s} / {content t}")]
  for me in w.meshes do
    for k in Kind.all do
      let tracked := (w.heap.filter (fun s => s.tracker == some me.id && s.kind == k)).length
      if lookupArr im.np me.id k != tracked then
        out := out ++ [("n_props_eq_attached", s!"mesh {me.id} kind {kindName k}: n_props={lookupArr im.np me.id k} attached={tracked}")]
      let pers := (me.pers.filter (fun i => (getS w i).any (·.kind == k))).length
      if lookupArr im.pp me.id k != pers then
        out := out ++ [("n_persistent_eq_count", s!"mesh {me.id} kind {kindName k}: n_persistent_props={lookupArr im.pp me.id k} listed={pers}")]
    for i in me.pers do
      match getS w i with
      | none => out := out ++ [("persistent_entry_exists", s!"mesh {me.id} entry {i}")]
      | some s =>
        if !(s.pers && s.tracker == some me.id) then
          out := out ++ [("persistent_entry_owned", s!"mesh {me.id}: {content s}")]
    match getS w me.pos with
    | none => out := out ++ [("position_exists", s!"mesh {me.id}")]
    | some p =>
      if !(p.tracker == some me.id && p.kind == .V && p.ty == .vec3d) then
        out := out ++ [("position_owned", s!"mesh {me.id}: {content p}")]
    -- Disjoint: an owner entry of this mesh is not an owner entry of another one
    for other in w.meshes do
      if me.id < other.id then
        for i in me.pos :: me.pers do
          if (other.pos :: other.pers).contains i then
            out := out ++ [("disjoint", s!"storage shared by meshes {me.id} and {other.id}: {((getS w i).map content).getD "?"}")]
  return out

/-- the meshes / storages an op line may legitimately modify, read off the pre-state -/
def touched (st : Step) (pre : Impl) : List Nat × List Nat :=
  let hs (h : String) : List Nat × List Nat :=
    match hget pre.w (nat! h) with
    | some sid => (((getS pre.w sid).bind (·.tracker)).toList, [sid])
    | none => ([], [])
  match st.op with
  | "set_name" :: h :: _ => hs h
  | "write" :: h :: _ => hs h
  | "hcopy" :: h :: _ => hs h
  | "hmove" :: h :: _ => hs h
  | "hdrop" :: h :: _ => hs h
  | ["copy", _, d] => ([nat! d], [])
  | ["assign", d, _] => ([nat! d], [])
  | "exists" :: m :: _ => ([nat! m], [])
  | _ :: m :: _ => ([nat! m], [])
  | _ => ([], [])

/-- C13 frame: whatever is not owned by the operated mesh (or is not the operated storage) looks
    exactly as before -/
def c13Frame (st : Step) (pre post : Impl) : List (String × String) := Id.run do
  let (tm, ts) := touched st pre
  let mut out : List (String × String) := []
  for me in pre.w.meshes do
    if !tm.contains me.id then
      match getM post.w me.id with
      | none => out := out ++ [("frame_mesh_vanished", s!"mesh {me.id}")]
      | some me' =>
        let a := meshContent pre me; let b := meshContent post me'
        if a != b then out := out ++ [("frame_mesh", s!"mesh {me.id} changed by `{" ".intercalate st.op}`: before {a} after {b}")]
  for h in pre.w.handles do
    match getS pre.w h.2 with
    | none => pure ()
    | some s =>
      let ownerTouched := match s.tracker with
        | some m => tm.contains m
        | none => false
      if !ownerTouched && !ts.contains s.id then
        match hget post.w h.1 with
        | none => out := out ++ [("frame_handle_vanished", s!"handle {h.1}")]
        | some sid' =>
          let b := ((getS post.w sid').map content).getD "?"
          if content s != b then
            out := out ++ [("frame_handle", s!"handle {h.1} changed by `{" ".intercalate st.op}`: before {content s} after {b}")]
  return out

def isPosKey (s : Storage) : Bool := s.kind == .V && s.ty == .vec3d && s.name == posName

/-- C13 postconditions of copy construction / assignment on the implementation's dumps -/
def c13Copy (st : Step) (pre post : Impl) : List (String × String) := Id.run do
  let mut out : List (String × String) := []
  let chk (dst src : Nat) (isAssign : Bool) : List (String × String) := Id.run do
    let mut out : List (String × String) := []
    match getM post.w dst, getM pre.w src with
    | some d, some s =>
      if d.cnt != s.cnt then out := out ++ [("copy_counts", s!"dst {d.cnt.nV},{d.cnt.nE},{d.cnt.nF},{d.cnt.nC}")]
      if d.topo != s.topo then out := out ++ [("copy_topology", s!"dst digest {d.topo} src digest {s.topo}")]
      let sp := (getS pre.w s.pos).map (·.vals); let dp := (getS post.w d.pos).map (·.vals)
      if sp != dp then out := out ++ [("copy_positions", s!"src {sp} dst {dp}")]
      -- equal-valued persistent properties (the position key is overwritten by the positions)
      let norm (w : World) (me : Mesh) : List String :=
        (sortBy storageKeyLt ((me.pers.filterMap (getS w)).filter (fun x => !isPosKey x))).map content
      if norm pre.w s != norm post.w d then
        out := out ++ [("copy_persistent_equal", s!"src {norm pre.w s} dst {norm post.w d}")]
      -- non-persistent properties are not carried over: besides the clones the target tracks
      -- only its position (if that is not itself a clone) and, for assignment, its old
      -- anonymised handles
      let clones := d.pers.length
      let posExtra := if d.pers.contains d.pos then 0 else 1
      let oldHandles := if isAssign then
          ((post.w.handles.map (·.2)).eraseDups.filter (fun sid =>
            match getS post.w sid with
            | some x => x.tracker == some dst && !d.pers.contains sid && sid != d.pos
            | none => false)).length
        else 0
      let total := (Kind.all.map (lookupArr post.np dst)).foldl (· + ·) 0
      if total != clones + posExtra + oldHandles then
        out := out ++ [("copy_no_extra_properties", s!"n_props total {total} clones {clones} position {posExtra} old handles {oldHandles}")]
      -- fresh storages: nothing the target owns is owned by anyone else
      for i in d.pos :: d.pers do
        for other in post.w.meshes do
          if other.id != dst && (other.pos :: other.pers).contains i then
            out := out ++ [("copy_fresh_storage", s!"target shares a storage with mesh {other.id}: {((getS post.w i).map content).getD "?"}")]
        if !isAssign && (post.w.handles.any (·.2 == i)) then
          out := out ++ [("copy_fresh_storage", s!"a user handle aliases a storage of the fresh copy: {((getS post.w i).map content).getD "?"}")]
      if isAssign then
        -- handles previously obtained from the assigned-to mesh
        for h in pre.w.handles do
          match getS pre.w h.2 with
          | some x =>
            if x.tracker == some dst then
              match (hget post.w h.1).bind (getS post.w) with
              | none => out := out ++ [("assign_handle_resolves", s!"handle {h.1}")]
              | some y =>
                if y.tracker != some dst then out := out ++ [("assign_handle_attached", s!"handle {h.1}: {content y}")]
                if y.vals.length != d.cnt.n y.kind then
                  out := out ++ [("assign_handle_sized", s!"handle {h.1}: size {y.vals.length}, entity count {d.cnt.n y.kind}")]
                if y.shared || y.pers then
                  out := out ++ [("assign_handle_not_findable", s!"handle {h.1}: {content y}")]
                if d.pers.contains y.id then
                  out := out ++ [("assign_handle_not_persistent", s!"handle {h.1}")]
          | none => pure ()
    | _, _ => out := out ++ [("copy_target_exists", s!"dst {dst} src {src}")]
    return out
  match st.op with
  | ["copy", s, d] => out := out ++ chk (nat! d) (nat! s) false
  | ["assign", d, s] =>
    if d == s then
      if canonFields pre.w != canonFields post.w || pre.np != post.np || pre.pp != post.pp then
        out := out ++ [("self_assign_identity", "state changed")]
    else out := out ++ chk (nat! d) (nat! s) true
  | _ => pure ()
  return out

/-- C14: a handle that outlives its mesh keeps its data and reports being detached -/
def c14Destroy (st : Step) (pre post : Impl) : List (String × String) := Id.run do
  let mut out : List (String × String) := []
  match st.op with
  | ["destroy", m] =>
    for h in pre.w.handles do
      match getS pre.w h.2 with
      | some x =>
        if x.tracker == some (nat! m) then
          match (hget post.w h.1).bind (getS post.w) with
          | none => out := out ++ [("outliving_handle_resolves", s!"handle {h.1}")]
          | some y =>
            if y.tracker.isSome then out := out ++ [("outliving_handle_detached", s!"handle {h.1}: {content y}")]
            if content { x with tracker := none } != content y then
              out := out ++ [("outliving_handle_keeps_data", s!"handle {h.1}: before {content x} after {content y}")]
      | none => pure ()
  | _ => pure ()
  return out

/-! ### judging -/

structure Tally where
  traces : Nat := 0
  steps  : Nat := 0
  xfail  : Nat := 0
  oracle : Nat := 0
  abort  : Nat := 0
  parse  : Nat := 0

def traceId (hdr : String) : String :=
  match (words hdr).find? (·.startsWith "trace=") with
  | some t => (t.drop 6).copy
  | none => "?"

def judgeTrace (tr : Trace) (tally : Tally) : IO Tally := do
  let tid := traceId tr.hdr
  let mut tally := { tally with traces := tally.traces + 1 }
  let mut pre := tr.init
  let mut failed := false
  let mut k := 0
  for st in tr.steps do
    k := k + 1
    let opText := " ".intercalate st.op
    match st.post, st.res with
    | some post, some res =>
      tally := { tally with steps := tally.steps + 1 }
      if let some b := post.bad then
        IO.println s!"PARSE trace={tid} step={k} what={b}"
        tally := { tally with parse := tally.parse + 1 }
        failed := true
      -- X_P: model vs implementation
      match mkOp st pre post with
      | none =>
        IO.println s!"PARSE trace={tid} step={k} what=unknown op `{opText}`"
        tally := { tally with parse := tally.parse + 1 }
        failed := true
      | some op =>
        let r := step pre.w op
        let mres := showRes r
        let ires := " ".intercalate res
        if mres != ires then
          IO.println s!"XFAIL trace={tid} step={k} op={opText} field=result model={mres} impl={ires}"
          tally := { tally with xfail := tally.xfail + 1 }; failed := true
        else
          let w' := match r with
            | .ok (w', _) => w'
            | .error _ => pre.w
          if w'.fault then
            IO.println s!"XFAIL trace={tid} step={k} op={opText} field=fault model=unchecked-access impl=-"
            tally := { tally with xfail := tally.xfail + 1 }; failed := true
          let mf := canonFields w'
          let implW := post.w
          let imf := (canonFields implW).map (fun (kv : String × String) =>
            -- n_props / n_persistent_props of the implementation are what it *reported*
            match post.w.meshes.find? (fun me => kv.1 == s!"mesh{me.id}.n_props") with
            | some me => (kv.1, toString (Kind.all.map (lookupArr post.np me.id)))
            | none =>
              match post.w.meshes.find? (fun me => kv.1 == s!"mesh{me.id}.n_persistent_props") with
              | some me => (kv.1, toString (Kind.all.map (lookupArr post.pp me.id)))
              | none => kv)
          match firstDiff mf imf with
          | some (f, a, b) =>
            IO.println s!"XFAIL trace={tid} step={k} op={opText} field={f} model={a} impl={b}"
            tally := { tally with xfail := tally.xfail + 1 }; failed := true
          | none => pure ()
      -- oracles on the implementation's own states
      let c14 := c14State post ++ c14Destroy st pre post
      let c13 := c13Frame st pre post ++ c13Copy st pre post
      for (rule, wit) in c14 do
        IO.println s!"ORACLE trace={tid} step={k} prop=C14 rule={rule} op={opText} witness={wit}"
        tally := { tally with oracle := tally.oracle + 1 }; failed := true
      for (rule, wit) in c13 do
        IO.println s!"ORACLE trace={tid} step={k} prop=C13 rule={rule} op={opText} witness={wit}"
        tally := { tally with oracle := tally.oracle + 1 }; failed := true
      pre := post
    | _, _ =>
      -- the child died inside this operation
      IO.println s!"ABORT trace={tid} step={k} op={opText} reason={tr.x.getD "truncated"}"
      tally := { tally with abort := tally.abort + 1 }; failed := true
  if tr.x.isSome && !failed then
    IO.println s!"ABORT trace={tid} step={k} op=- reason={tr.x.getD ""}"
    tally := { tally with abort := tally.abort + 1 }; failed := true
  if !failed then IO.println s!"OK trace={tid} steps={tr.steps.size}"
  return tally

partial def readAll (h : IO.FS.Stream) (acc : Array String) : IO (Array String) := do
  let l ← h.getLine
  if l.isEmpty then return acc
  readAll h (acc.push (l.dropEndWhile (fun c => c == '\n' || c == '\r')).copy)

end OVM.Registry.Judge

open OVM.Registry.Judge in
def main (args : List String) : IO UInt32 := do
  let lines ← match args with
    | [f] => do
      let s ← IO.FS.readFile f
      pure (s.splitOn "\n").toArray
    | _ => do
      let stdin ← IO.getStdin
      readAll stdin #[]
  let traces := parseTraces lines
  let mut tally : Tally := {}
  for tr in traces do
    tally ← judgeTrace tr tally
  IO.println s!"SUMMARY traces={tally.traces} steps={tally.steps} xfail={tally.xfail} oracle={tally.oracle} abort={tally.abort} parse={tally.parse}"
  return 0

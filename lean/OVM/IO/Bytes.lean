/-
  OVMB model, layer 0: byte strings and the decoder monad.
  `Bytes = List UInt8` (lists, not arrays: induction and `decide` work on them; files the judge sees are small).
  Core only (this file is imported by the compiled judge).
-/
namespace OVM.Ovmb

abbrev Bytes := List UInt8

/-- `n` zero bytes (`Encoder::padding`, `Encoder::reserved<N>`). -/
def zeros (n : Nat) : Bytes := List.replicate n 0

@[simp] theorem zeros_length (n : Nat) : (zeros n).length = n := by simp [zeros]

/-- every byte is zero (`Decoder::padding`, `Decoder::reserved<N>`). -/
def allZero (bs : Bytes) : Bool := bs.all (· == 0)

theorem allZero_zeros (n : Nat) : allZero (zeros n) = true := by
  simp [allZero, zeros]

theorem allZero_iff {bs : Bytes} : allZero bs = true ↔ bs = zeros bs.length := by
  induction bs with
  | nil => simp [allZero, zeros]
  | cons b t ih =>
    simp only [allZero, List.all_cons, Bool.and_eq_true, beq_iff_eq, List.length_cons, zeros,
      List.replicate_succ, List.cons.injEq] at *
    constructor
    · intro h; exact ⟨h.1, ih.mp h.2⟩
    · intro h; exact ⟨h.1, ih.mpr h.2⟩

/-- result classes of `ovmb_read` other than `Ok` (`ReadResult`); `CannotOpenFile`/`BadStream` cannot arise from
    `ovmb_read(std::istream&, …)`. -/
inductive Err where
  | invalidFile      -- ReadResult::InvalidFile (every parse_error, every ReadState::Error*)
  | incompatible     -- ReadResult::IncompatibleMesh
  | otherError       -- ReadResult::OtherError (std::exception other than parse_error)
  deriving DecidableEq, Repr, Inhabited

/-- `detail::Decoder` over one buffer: a function of the remaining bytes (`cur_ .. end_`).
    After the fixes F3/F23 every primitive read calls `need` first, so a short read is `parse_error`
    (→ `InvalidFile`), never an out-of-bounds access. -/
def Dec (α : Type) := Bytes → Except Err (α × Bytes)

namespace Dec

@[inline] protected def pure {α} (a : α) : Dec α := fun s => .ok (a, s)
@[inline] protected def bind {α β} (m : Dec α) (f : α → Dec β) : Dec β := fun s =>
  match m s with
  | .error e => .error e
  | .ok (a, s') => f a s'
@[inline] def fail {α} (e : Err) : Dec α := fun _ => .error e

instance : Monad Dec where
  pure := Dec.pure
  bind := Dec.bind

@[simp] theorem pure_run {α} (a : α) (s : Bytes) : (Pure.pure a : Dec α) s = .ok (a, s) := rfl
@[simp] theorem bind_run {α β} (m : Dec α) (f : α → Dec β) (s : Bytes) :
    (m >>= f) s = match m s with | .error e => .error e | .ok (a, s') => f a s' := rfl
@[simp] theorem fail_run {α} (e : Err) (s : Bytes) : (fail e : Dec α) s = .error e := rfl

theorem bind_ok {α β} {m : Dec α} {f : α → Dec β} {s s' : Bytes} {a : α}
    (h : m s = .ok (a, s')) : (m >>= f) s = f a s' := by simp [h]

theorem bind_err {α β} {m : Dec α} {f : α → Dec β} {s : Bytes} {e : Err}
    (h : m s = .error e) : (m >>= f) s = .error e := by simp [h]

/-- `Decoder::need(n)`: `parse_error("read beyond buffer")` when fewer than `n` bytes remain. -/
def need (n : Nat) : Dec Unit := fun s => if s.length < n then .error .invalidFile else .ok ((), s)

/-- `Decoder::read(uint8_t*, n)` (with its `need(n)`): the next `n` bytes. -/
def readN (n : Nat) : Dec Bytes := fun s =>
  if s.length < n then .error .invalidFile else .ok (s.take n, s.drop n)

/-- `s.length < n` without walking past the first `n` cells (the compiled judge reads multi-megabyte files: the
    specification-level `s.length` made every primitive read linear in the rest of the file) -/
def shorter : Bytes → Nat → Bool
  | _, 0 => false
  | [], _ + 1 => true
  | _ :: t, n + 1 => shorter t n

theorem shorter_eq (s : Bytes) (n : Nat) : shorter s n = decide (s.length < n) := by
  induction s generalizing n with
  | nil => cases n <;> simp [shorter]
  | cons a t ih => cases n with
    | zero => simp [shorter]
    | succ n => simp [shorter, ih]

/-- compiled form of `need` / `readN` (same function, proved equal; `@[csimp]` only changes the generated code) -/
def needFast (n : Nat) : Dec Unit := fun s => if shorter s n then .error .invalidFile else .ok ((), s)
def readNFast (n : Nat) : Dec Bytes := fun s =>
  if shorter s n then .error .invalidFile else .ok (s.take n, s.drop n)

@[csimp] theorem need_eq_needFast : @need = @needFast := by
  funext n s; simp [need, needFast, shorter_eq]
@[csimp] theorem readN_eq_readNFast : @readN = @readNFast := by
  funext n s; simp [readN, readNFast, shorter_eq]

/-- `remaining_bytes()` -/
def remaining : Dec Nat := fun s => .ok (s.length, s)

/-- guard: `parse_error` / error state unless `c`. -/
def guard (c : Bool) (e : Err := .invalidFile) : Dec Unit := fun s => if c then .ok ((), s) else .error e

@[simp] theorem need_append {n : Nat} {a b : Bytes} (h : n ≤ a.length) : need n (a ++ b) = .ok ((), a ++ b) := by
  simp only [need, List.length_append]
  rw [if_neg (by omega)]

theorem readN_append (a b : Bytes) : readN a.length (a ++ b) = .ok (a, b) := by
  simp [readN]

theorem readN_append' {n : Nat} (a b : Bytes) (h : a.length = n) : readN n (a ++ b) = .ok (a, b) := by
  subst h; exact readN_append a b

theorem readN_ok {n : Nat} {s r : Bytes} {x : Bytes} (h : readN n s = .ok (x, r)) :
    s = x ++ r ∧ x.length = n := by
  unfold readN at h
  split at h
  · cases h
  · rename_i hn
    injection h with h; injection h with h1 h2
    subst h1 h2
    exact ⟨(List.take_append_drop n s).symm, by simp; omega⟩

theorem readN_short {n : Nat} {s : Bytes} (h : s.length < n) : readN n s = .error .invalidFile := by
  simp [readN, h]

@[simp] theorem guard_true (e : Err) (s : Bytes) : guard true e s = .ok ((), s) := rfl
@[simp] theorem guard_false (e : Err) (s : Bytes) : guard false e s = .error e := rfl

end Dec

end OVM.Ovmb

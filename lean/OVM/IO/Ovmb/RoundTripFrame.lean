/-
  OVMB model, proofs: chunk framing (used by the round trip C06 and by truncation C18).

  * `readChunk_full`: `read_chunk` on a stream that delivers one well-framed chunk (`ChunkD`, header fields within
    their widths) runs `processChunk` on exactly the payload and continues with the bytes after the padding.
  * `readChunk_partial`: a stream that delivers only a strict prefix of the chunk makes `read_chunk` fail.
  * `processChunk_ep`: only a version-0 EOF chunk sets `reached_eof_chunk` (all four payload readers keep it).
  * `loop_truncated`, `decodeStream_truncated`: a strict prefix of `file header ++ chunks` (at most the last chunk
    an EOF chunk) is never read successfully: every configuration, truncated file and failing stream alike.
  Proof-only file (not imported by the judge).  Core only.
-/
import OVM.IO.Ovmb.FramingLemmas
namespace OVM.Ovmb
open OVM.Gen.Ovmb Dec

theorem loop_zero (cfg : Cfg) (s : RState) (st : Stream) (h : st.rem = 0) : loop cfg s st = finish s := by
  rw [loop]; simp [h]

theorem loop_err (cfg : Cfg) (s : RState) (st : Stream) (e : RErr) (h0 : st.rem ≠ 0)
    (h : readChunk cfg s st = .error e) : loop cfg s st = .error e := by
  rw [loop]; simp only [h0, if_false]
  split
  · rename_i e' he; rw [h] at he; cases he; rfl
  · rename_i s' st' he; rw [h] at he; cases he

theorem loop_ok (cfg : Cfg) (s s' : RState) (st st' : Stream) (h0 : st.rem ≠ 0)
    (h : readChunk cfg s st = .ok (s', st')) : loop cfg s st = loop cfg s' st' := by
  rw [loop]; simp only [h0, if_false]
  split
  · rename_i e' he; rw [h] at he; cases he
  · rename_i s'' st'' he; rw [h] at he; cases he; rfl
/-- a chunk as a record: header fields and payload -/
structure ChunkD where
  ty : Nat
  version : Nat
  pad : Nat
  compression : Nat
  flags : Nat
  payload : Bytes

def ChunkD.bytes (c : ChunkD) : Bytes := encChunk c.ty c.version c.pad c.compression c.flags c.payload

/-- the header fields fit their widths -/
structure ChunkD.Fits (c : ChunkD) : Prop where
  ty : c.ty < 2 ^ 32
  version : c.version < 256
  pad : c.pad < 256
  compression : c.compression < 256
  flags : c.flags ∈ validChunkFlags
  len : c.payload.length + c.pad < 2 ^ 64

def ChunkD.hdr (c : ChunkD) : ChunkHdr := ⟨c.ty, c.version, c.pad, c.compression, c.flags, c.payload.length + c.pad⟩

def ChunkD.hdrBytes (c : ChunkD) : Bytes :=
  leN 4 c.ty ++ leN 1 c.version ++ leN 1 c.pad ++ leN 1 c.compression ++ leN 1 c.flags ++ leN 8 (c.payload.length + c.pad)

theorem ChunkD.bytes_eq (c : ChunkD) : c.bytes = c.hdrBytes ++ (c.payload ++ zeros c.pad) := by
  simp [ChunkD.bytes, ChunkD.hdrBytes, encChunk, List.append_assoc]

@[simp] theorem ChunkD.hdrBytes_length (c : ChunkD) : c.hdrBytes.length = sizeChunkHeader := by
  simp [ChunkD.hdrBytes, sizeChunkHeader]

theorem ChunkD.bytes_length (c : ChunkD) : c.bytes.length = sizeChunkHeader + c.payload.length + c.pad :=
  encChunk_length ..

theorem readChunkHdr_enc (c : ChunkD) (hc : c.Fits) : runDec readChunkHdr c.hdrBytes = .ok (c.hdr, []) := by
  have h1 := uN_leN 4 c.ty (by simpa using hc.ty)
  have h2 := uN_leN 1 c.version (by simpa using hc.version)
  have h3 := uN_leN 1 c.pad (by simpa using hc.pad)
  have h4 := uN_leN 1 c.compression (by simpa using hc.compression)
  have h5 := uN_leN 1 c.flags (by have := hc.flags; simp [validChunkFlags] at this; omega)
  have h6 := uN_leN 8 (c.payload.length + c.pad) (by simpa using hc.len) []
  have hfl : decide (c.flags ∈ validChunkFlags) = true := by simpa using hc.flags
  simp only [List.append_nil] at h6
  simp only [runDec, readChunkHdr, ChunkD.hdrBytes, bind_run, u32, u8, u64, List.append_assoc, h1, h2, h3, h4, h5, h6,
    hfl, guard_true, pure_run, ChunkD.hdr]
  simp

theorem makeDecoder_append (rem : Nat) (a b : Bytes) (h : a.length ≤ rem) :
    Stream.makeDecoder ⟨rem, a ++ b⟩ a.length = .ok (a, ⟨rem - a.length, b⟩) := by
  unfold Stream.makeDecoder
  simp only [List.length_append]
  rw [if_neg (by omega), if_neg (by omega)]
  simp [pure, Except.pure]

theorem makeDecoder_append' (rem n : Nat) (a b : Bytes) (hn : a.length = n) (h : n ≤ rem) :
    Stream.makeDecoder ⟨rem, a ++ b⟩ n = .ok (a, ⟨rem - n, b⟩) := by
  subst hn; exact makeDecoder_append rem a b h

theorem makeDecoder_short (rem n : Nat) (d : Bytes) (h : d.length < n) :
    Stream.makeDecoder ⟨rem, d⟩ n = invalid := by
  unfold Stream.makeDecoder
  by_cases h1 : rem < n <;> simp [h1, h]

/-- reading one complete chunk from a stream that delivers it: `processChunk` runs on exactly the payload, and
    the stream continues with what follows the padding -/
theorem readChunk_full (cfg : Cfg) (s : RState) (c : ChunkD) (hc : c.Fits) (rem : Nat) (rest : Bytes)
    (hrem : c.bytes.length ≤ rem) :
    readChunk cfg s ⟨rem, c.bytes ++ rest⟩ =
      match processChunk cfg s c.hdr c.payload with
      | .error e => .error e
      | .ok s' => .ok (s', ⟨rem - c.bytes.length, rest⟩) := by
  rw [ChunkD.bytes_length] at hrem
  have e1 := makeDecoder_append' rem sizeChunkHeader c.hdrBytes (c.payload ++ zeros c.pad ++ rest) (by simp) (by omega)
  have e2 := makeDecoder_append (rem - sizeChunkHeader) c.payload (zeros c.pad ++ rest) (by omega)
  have e3 := makeDecoder_append' (rem - sizeChunkHeader - c.payload.length) c.pad (zeros c.pad) rest (by simp) (by omega)
  unfold readChunk
  rw [ChunkD.bytes_length, ChunkD.bytes_eq, List.append_assoc, e1]
  simp only [readChunkHdr_enc c hc]
  have hfl : c.hdr.fileLength = c.payload.length + c.pad := rfl
  have hpd : c.hdr.pad = c.pad := rfl
  rw [if_neg (by rw [hfl]; simp only [gt_iff_lt, Nat.not_lt]; omega)]
  rw [hfl, hpd, Nat.add_sub_cancel, List.append_assoc, e2]
  cases hp : processChunk cfg s c.hdr c.payload with
  | error e => simp only [hp]
  | ok s' =>
    simp only [hp, e3, allZero_zeros, Bool.not_true, Bool.false_eq_true, if_false]
    congr 3; omega

theorem take_append_ge {α} (a b : List α) (n : Nat) (h : a.length ≤ n) :
    (a ++ b).take n = a ++ b.take (n - a.length) := by
  rw [List.take_append, List.take_of_length_le h]

/-- a stream that delivers only a strict prefix of the next chunk makes `read_chunk` fail -/
theorem readChunk_partial (cfg : Cfg) (s : RState) (c : ChunkD) (hc : c.Fits) (rem : Nat) (data rest : Bytes)
    (hpre : data <+: c.bytes ++ rest) (hlt : data.length < c.bytes.length) (hrem : data.length ≤ rem) :
    ∃ e, readChunk cfg s ⟨rem, data⟩ = .error e := by
  have hd : data = c.bytes.take data.length := by
    have := List.prefix_iff_eq_take.mp hpre
    rw [List.take_append_of_le_length (by omega)] at this
    exact this
  rw [ChunkD.bytes_length] at hlt
  unfold readChunk
  by_cases h16 : data.length < sizeChunkHeader
  · rw [makeDecoder_short rem _ data h16]; exact ⟨_, rfl⟩
  · have hd1 : data = c.hdrBytes ++ (c.payload ++ zeros c.pad).take (data.length - sizeChunkHeader) := by
      conv => lhs; rw [hd, ChunkD.bytes_eq, take_append_ge _ _ _ (by simp; omega)]
      simp
    generalize hd1' : (c.payload ++ zeros c.pad).take (data.length - sizeChunkHeader) = d1 at hd1
    have hl1 : d1.length = data.length - sizeChunkHeader := by
      rw [← hd1']; simp; omega
    have e1 := makeDecoder_append' rem sizeChunkHeader c.hdrBytes d1 (by simp) (by omega)
    rw [hd1, e1]
    simp only [readChunkHdr_enc c hc]
    have hfl : c.hdr.fileLength = c.payload.length + c.pad := rfl
    have hpd : c.hdr.pad = c.pad := rfl
    by_cases hbig : c.hdr.fileLength > rem - sizeChunkHeader
    · rw [if_pos hbig]; exact ⟨_, rfl⟩
    · rw [if_neg hbig, hfl, hpd, Nat.add_sub_cancel]
      rw [hfl] at hbig
      by_cases hpl : d1.length < c.payload.length
      · rw [makeDecoder_short _ _ d1 hpl]; exact ⟨_, rfl⟩
      · have hd2 : d1 = c.payload ++ (zeros c.pad).take (d1.length - c.payload.length) := by
          conv => lhs; rw [← hd1', take_append_ge _ _ _ (by omega)]
          rw [hl1]
        generalize hd2' : (zeros c.pad).take (d1.length - c.payload.length) = d2 at hd2
        have hl2 : d2.length = d1.length - c.payload.length := by
          rw [← hd2']; simp; omega
        rw [hd2, makeDecoder_append _ _ _ (by omega)]
        cases hp : processChunk cfg s c.hdr c.payload with
        | error e => exact ⟨e, by simp only [hp]⟩
        | ok s' =>
          simp only [hp]
          rw [makeDecoder_short _ _ d2 (by omega)]; exact ⟨_, rfl⟩
/-- every successful outcome of `m` has end-of-file flag `e` -/
def EP (e : Bool) (m : R RState) : Prop := ∀ s', m = .ok s' → s'.eof = e

theorem EP.invalid {e : Bool} : EP e invalid := by intro s' h; cases h
theorem EP.err {e : Bool} (x : RErr) : EP e (.error x) := by intro s' h; cases h
theorem EP.pure {e : Bool} {s : RState} (h : s.eof = e) : EP e (pure s) := by
  intro s' h'; cases h'; exact h
theorem EP.bind {α} {e : Bool} {x : R α} {f : α → R RState} (h : ∀ a, EP e (f a)) : EP e (x >>= f) := by
  intro s' h'
  cases x with
  | error err => cases h'
  | ok a => exact h a s' h'
theorem EP.ite {e : Bool} {c : Prop} [Decidable c] {a b : R RState} (ha : EP e a) (hb : EP e b) :
    EP e (if c then a else b) := by
  split <;> assumption

macro "ep_step" : tactic => `(tactic| first
  | exact EP.invalid | exact EP.pure rfl | exact EP.err _ | assumption
  | apply EP.ite | (apply EP.bind; intro _) | split)

theorem applyVert_ep (s : RState) (p : Bytes) : EP s.eof (applyVert s p) := by
  unfold applyVert
  repeat' ep_step

theorem applyProp_ep (s : RState) (p : Bytes) : EP s.eof (applyProp s p) := by
  unfold applyProp
  repeat' ep_step

theorem applyTopo_ep (cfg : Cfg) (s : RState) (p : Bytes) : EP s.eof (applyTopo cfg s p) := by
  unfold applyTopo
  repeat' ep_step

theorem applyDirpLoop_ep (e : Bool) (fuel : Nat) (s : RState) (hs : s.eof = e) (p : Bytes) : EP e (applyDirpLoop s fuel p) := by
  induction fuel generalizing s p with
  | zero => unfold applyDirpLoop; subst hs; repeat' ep_step
  | succ n ih =>
    unfold applyDirpLoop
    repeat' (first | (apply ih; exact hs) | ep_step)
    subst hs; exact EP.pure rfl

theorem applyDirp_ep (s : RState) (p : Bytes) : EP s.eof (applyDirp s p) := by
  unfold applyDirp
  exact EP.ite EP.invalid (applyDirpLoop_ep _ _ _ rfl _)

/-- only a version-0 chunk of type EOF sets the end-of-file flag -/
theorem processChunk_ep (cfg : Cfg) (s : RState) (h : ChunkHdr) (p : Bytes) (hne : ¬(h.ty = ccEOF ∧ h.version = 0)) :
    EP s.eof (processChunk cfg s h p) := by
  unfold processChunk
  by_cases hv : h.version ≠ 0
  · rw [if_pos hv]; exact EP.ite EP.invalid (EP.pure rfl)
  · rw [if_neg hv]
    have hty : h.ty ≠ ccEOF := fun ht => hne ⟨ht, by omega⟩
    unfold dispatch
    rw [if_neg hty]
    exact EP.ite (applyDirp_ep s p) (EP.ite (applyProp_ep s p) (EP.ite (applyVert_ep s p)
      (EP.ite (applyTopo_ep cfg s p) (EP.ite EP.invalid (EP.pure rfl)))))

/-- a chunk that does not set the end-of-file flag -/
def ChunkD.notEof (c : ChunkD) : Prop := ¬(c.ty = ccEOF ∧ c.version = 0)

/-- **truncation, generic form**: a stream that delivers only a strict prefix of a sequence of well-framed chunks
    of which at most the last one is an end-of-file chunk is never read successfully — for every reader
    configuration, every reader state that has not seen an EOF chunk, whatever size the stream announces
    (`rem = data.length`: truncated file; `rem` = full size: stream failing at that position). -/
theorem loop_truncated (cfg : Cfg) (cs : List ChunkD) (hfit : ∀ c ∈ cs, c.Fits)
    (hne : ∀ c ∈ cs.dropLast, c.notEof) (s : RState) (hs : s.eof = false) (data : Bytes) (rem : Nat)
    (hpre : data <+: (cs.map ChunkD.bytes).flatten) (hlt : data.length < (cs.map ChunkD.bytes).flatten.length)
    (hrem : data.length ≤ rem) (F : File) : loop cfg s ⟨rem, data⟩ ≠ .ok F := by
  induction cs generalizing s data rem with
  | nil => simp at hlt
  | cons c cs ih =>
    by_cases h0 : rem = 0
    · rw [loop_zero cfg s _ h0]; simp [finish, hs, invalid]
    · simp only [List.map_cons, List.flatten_cons] at hpre hlt
      by_cases hc : data.length < c.bytes.length
      · obtain ⟨e, he⟩ := readChunk_partial cfg s c (hfit c (by simp)) rem data _ hpre hc hrem
        rw [loop_err cfg s _ e h0 he]; simp
      · -- the first chunk is delivered completely
        have hd : data = c.bytes ++ data.drop c.bytes.length := by
          have h1 := List.prefix_iff_eq_take.mp hpre
          have h2 : data.take c.bytes.length = c.bytes := by
            rw [h1, List.take_take, Nat.min_eq_left (by omega), List.take_left']
            rfl
          conv => lhs; rw [← List.take_append_drop c.bytes.length data, h2]
        generalize hd' : data.drop c.bytes.length = d1 at hd
        have hl1 : d1.length = data.length - c.bytes.length := by rw [← hd']; simp
        have hpre1 : d1 <+: (cs.map ChunkD.bytes).flatten := by
          rw [hd] at hpre; exact (List.prefix_append_right_inj _).mp hpre
        have hlt1 : d1.length < (cs.map ChunkD.bytes).flatten.length := by
          simp only [List.length_append] at hlt; omega
        have hcs : cs ≠ [] := by rintro rfl; simp at hlt1
        have hcne : c.notEof := hne c (by
          cases cs with
          | nil => exact absurd rfl hcs
          | cons c' cs' => simp [List.dropLast])
        have hfull := readChunk_full cfg s c (hfit c (by simp)) rem d1 (by omega)
        rw [hd]
        cases hp : processChunk cfg s c.hdr c.payload with
        | error e =>
          rw [hp] at hfull
          rw [loop_err cfg s _ e h0 hfull]; simp
        | ok s1 =>
          rw [hp] at hfull
          rw [loop_ok cfg s s1 _ _ h0 hfull]
          have hs1 : s1.eof = false := by
            have := processChunk_ep cfg s c.hdr c.payload hcne s1 hp
            rw [this, hs]
          apply ih (fun c' hc' => hfit c' (by simp [hc'])) _ s1 hs1 d1 _ hpre1 hlt1 (by omega)
          intro c' hc'
          apply hne
          cases cs with
          | nil => exact absurd rfl hcs
          | cons c'' cs' => simp only [List.dropLast_cons_cons]; exact List.mem_cons_of_mem _ hc'

/-- **truncation, file level**: a stream that delivers only a strict prefix of `file header ++ chunks` is
    rejected, whatever the header says and whatever the configuration is -/
theorem decodeStream_truncated (cfg : Cfg) (hdr : Bytes) (hh : hdr.length = sizeFileHeader)
    (cs : List ChunkD) (hfit : ∀ c ∈ cs, c.Fits) (hne : ∀ c ∈ cs.dropLast, c.notEof)
    (data : Bytes) (rem : Nat) (hpre : data <+: hdr ++ (cs.map ChunkD.bytes).flatten)
    (hlt : data.length < (hdr ++ (cs.map ChunkD.bytes).flatten).length) (hrem : data.length ≤ rem) (F : File) :
    decodeStream cfg ⟨rem, data⟩ ≠ .ok F := by
  unfold decodeStream
  by_cases h48 : data.length < sizeFileHeader
  · rw [makeDecoder_short rem _ data h48]; simp [invalid]
  · have h2 : data.take sizeFileHeader = hdr := by
      have h1 := List.prefix_iff_eq_take.mp hpre
      rw [h1, List.take_take, Nat.min_eq_left (by omega), ← hh, List.take_left']
      rfl
    have hd : data = hdr ++ data.drop sizeFileHeader := by
      conv => lhs; rw [← List.take_append_drop sizeFileHeader data, h2]
    generalize hd' : data.drop sizeFileHeader = d1 at hd
    have hl1 : d1.length = data.length - sizeFileHeader := by rw [← hd']; simp
    have hpre1 : d1 <+: (cs.map ChunkD.bytes).flatten := by
      rw [hd] at hpre; exact (List.prefix_append_right_inj _).mp hpre
    have hlt1 : d1.length < (cs.map ChunkD.bytes).flatten.length := by
      simp only [List.length_append] at hlt; omega
    rw [hd, makeDecoder_append' rem sizeFileHeader hdr d1 hh (by omega)]
    simp only
    repeat' split
    all_goals first
      | (intro h; cases h; done)
      | exact loop_truncated cfg cs hfit hne _ rfl d1 _ hpre1 hlt1 (by omega) F
end OVM.Ovmb

/-
  OVMB model, proofs: what a successful read implies about the 48-byte file header (C18, second clause).

  `decodeStream_ok_inv`: for every stream state, `Ok` implies: header readable, magic, header version 1, vertex
  dimension 3, valid topology type, zero reserved bytes, all four counts ≤ max_handle_idx, topology type
  compatible with the target mesh kind, and the chunk loop succeeded from the initial state with these counts.
  `Rejected r`: a result other than Ok.
  Proof-only file (not imported by the judge).  Core only.
-/
import OVM.IO.Ovmb.RoundTripTrunc
namespace OVM.Ovmb
open OVM.Gen.Ovmb Dec

/-- a result other than Ok -/
def Rejected {α} (r : R α) : Prop := ∀ a, r ≠ .ok a

theorem Rejected.error {α} (e : RErr) : Rejected (.error e : R α) := by intro a h; cases h
theorem Rejected.invalid {α} : Rejected (invalid : R α) := by intro a h; cases h
theorem Rejected.of_eq {α} {r : R α} {e : RErr} (h : r = .error e) : Rejected r := by rw [h]; exact Rejected.error e
theorem Rejected.of_invalid {α} {r : R α} (h : r = OVM.Ovmb.invalid) : Rejected r := by rw [h]; exact Rejected.invalid
theorem R_err_bind {α β} (e : RErr) (f : α → R β) : ((Except.error e : R α) >>= f) = .error e := rfl

/-- closes goals of the form `(… error … >>= …) = invalid` after the failing guard has been evaluated -/
macro "fin_err" : tactic => `(tactic| first | rfl | (simp [invalid, R_err_bind]; done) | (simp [invalid, R_err_bind]; rfl))


/-- a result other than Ok -/


theorem takeN_getD {α} (l : List α) (n i : Nat) (d : α) (h : i < n) : (l.take n).getD i d = l.getD i d := by
  simp [List.getD_eq_getElem?_getD, h]

theorem take_drop_take {α} (l : List α) (n k m : Nat) (h : k + m ≤ n) : ((l.take n).drop k).take m = (l.drop k).take m := by
  rw [List.drop_take, List.take_take, Nat.min_eq_left (by omega)]

/-- the header fields of a byte string, as `read_file` sees them -/
def hdrVersion (b : Bytes) : Nat := (b.getD 9 0).toNat
def hdrVertexDim (b : Bytes) : Nat := (b.getD 10 0).toNat
def hdrTopo (b : Bytes) : Nat := (b.getD 11 0).toNat
def hdrReserved (b : Bytes) : Bytes := (b.drop 12).take 4
def hdrCount (b : Bytes) (i : Nat) : Nat := fromLE ((b.drop (16 + 8 * i)).take 8)

/-- **what a successful read implies about the file header**, for every stream state -/
theorem decodeStream_ok_inv {cfg : Cfg} {rem : Nat} {data : Bytes} {F : File}
    (h : decodeStream cfg ⟨rem, data⟩ = .ok F) :
    sizeFileHeader ≤ rem ∧ sizeFileHeader ≤ data.length ∧ data.take 8 = magicBytes ∧ hdrVersion data = 1 ∧
    hdrVertexDim data = meshDim ∧ hdrTopo data ∈ validTopoType ∧ allZero (hdrReserved data) = true ∧
    (∀ i, i < 4 → hdrCount data i ≤ maxHandleIdx) ∧
    (cfg.kind = .tet → hdrTopo data = topoTypeTetrahedral) ∧ (cfg.kind = .hex → hdrTopo data = topoTypeHexahedral) ∧
    loop cfg (initState (hdrTopo data) (hdrCount data 0) (hdrCount data 1) (hdrCount data 2) (hdrCount data 3))
      ⟨rem - sizeFileHeader, data.drop sizeFileHeader⟩ = .ok F := by
  unfold decodeStream at h
  by_cases h1 : rem < sizeFileHeader
  · simp [Stream.makeDecoder, h1, invalid] at h
  by_cases h2 : data.length < sizeFileHeader
  · simp [Stream.makeDecoder, h1, h2, invalid] at h
  have hm : Stream.makeDecoder ⟨rem, data⟩ sizeFileHeader = .ok (data.take sizeFileHeader, ⟨rem - sizeFileHeader, data.drop sizeFileHeader⟩) := by
    simp [Stream.makeDecoder, h1, h2, pure, Except.pure]
  rw [hm] at h
  simp only at h
  have e8 : (data.take sizeFileHeader).take 8 = data.take 8 := by rw [List.take_take]; rfl
  have e9 : ((data.take sizeFileHeader).getD 9 0).toNat = hdrVersion data := by rw [takeN_getD _ _ _ _ (by decide)]; rfl
  have e10 : ((data.take sizeFileHeader).getD 10 0).toNat = hdrVertexDim data := by rw [takeN_getD _ _ _ _ (by decide)]; rfl
  have e11 : ((data.take sizeFileHeader).getD 11 0).toNat = hdrTopo data := by rw [takeN_getD _ _ _ _ (by decide)]; rfl
  have er : ((data.take sizeFileHeader).drop 12).take 4 = hdrReserved data := take_drop_take _ _ _ _ (by decide)
  have ec : ∀ i, i < 4 → fromLE (((data.take sizeFileHeader).drop (16 + 8 * i)).take 8) = hdrCount data i := by
    intro i hi; unfold hdrCount; rw [take_drop_take _ _ _ _ (by simp only [sizeFileHeader]; omega)]
  have ec0 := ec 0 (by omega); have ec1 := ec 1 (by omega); have ec2 := ec 2 (by omega); have ec3 := ec 3 (by omega)
  simp only [Nat.mul_zero, Nat.add_zero, Nat.mul_one] at ec0 ec1 ec2 ec3
  rw [e8, e9, e10, e11, er] at h
  simp only [ec0, ec1, ec2, ec3] at h
  by_cases hp : (decide (hdrTopo data ∈ validTopoType) && allZero (hdrReserved data)) = true
  · simp only [hp, if_true, Bool.not_true, Bool.false_eq_true, if_false] at h
    split at h
    · cases h
    split at h
    · cases h
    split at h
    · cases h
    split at h
    · cases h
    split at h
    · cases h
    split at h
    · cases h
    rename_i hmagic hver hdim htet hhex hmax
    simp only [Bool.and_eq_true, decide_eq_true_eq] at hp
    refine ⟨by omega, by omega, Decidable.not_not.mp hmagic, Decidable.not_not.mp hver, Decidable.not_not.mp hdim,
      hp.1, hp.2, ?_, ?_, ?_, h⟩
    · intro i hi
      have : i = 0 ∨ i = 1 ∨ i = 2 ∨ i = 3 := by omega
      rcases this with rfl | rfl | rfl | rfl <;> omega
    · intro hk; exact Decidable.not_not.mp (fun hn => htet ⟨hk, hn⟩)
    · intro hk; exact Decidable.not_not.mp (fun hn => hhex ⟨hk, hn⟩)
  · exfalso
    simp only [hp, if_false, Bool.false_eq_true] at h
    repeat' split at h
    all_goals first | cases h | simp_all

end OVM.Ovmb

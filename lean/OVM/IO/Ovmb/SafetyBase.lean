/-
  OVMB reader safety (C07), part 1: the Hoare-style predicate `Safe P r` ("`r` is not the ghost outcome `.ub`, and
  when it is a success its value satisfies `P`"), inversion lemmas for the payload decoder monad, and the kernel
  calls of the reader (`add_face` / `add_cell` with their topology checks and the tet / hex overrides): with every
  handle argument in range no unchecked access `getU` fails.
  Proof-only file, core only.
-/
import OVM.IO.Ovmb.Decode

namespace OVM.Ovmb
open OVM.Gen.Ovmb Dec

/-- `r` is not the ghost outcome "undefined behaviour", and a successful `r` satisfies `P` -/
def Safe {α} (P : α → Prop) (r : R α) : Prop :=
  match r with
  | .ok a => P a
  | .error e => e ≠ .ub

theorem Safe.ok {α} {P : α → Prop} {a : α} (h : P a) : Safe P (.ok a : R α) := h
theorem Safe.pure {α} {P : α → Prop} {a : α} (h : P a) : Safe P (pure a : R α) := h
theorem Safe.invalid {α} {P : α → Prop} : Safe P (Ovmb.invalid : R α) := by
  show Safe P (.error (.res .invalidFile)); simp [Safe]
theorem Safe.res {α} {P : α → Prop} (e : Err) : Safe P (.error (.res e) : R α) := by simp [Safe]
theorem Safe.unmodelled {α} {P : α → Prop} : Safe P (.error .unmodelled : R α) := by simp [Safe]

theorem Safe.not_ub {α} {P : α → Prop} {r : R α} (h : Safe P r) : r ≠ .error .ub := by
  intro hc; rw [hc] at h; exact h rfl

theorem Safe.of_ok {α} {P : α → Prop} {r : R α} {a : α} (h : Safe P r) (hr : r = .ok a) : P a := by
  rw [hr] at h; exact h

theorem Safe.mono {α} {P Q : α → Prop} {r : R α} (h : Safe P r) (hpq : ∀ a, r = .ok a → P a → Q a) : Safe Q r := by
  cases r with
  | ok a => exact hpq a rfl h
  | error e => exact h

theorem Safe.bind {α β} {P : α → Prop} {Q : β → Prop} {x : R α} {f : α → R β} (hx : Safe P x)
    (hf : ∀ a, x = .ok a → P a → Safe Q (f a)) : Safe Q (x >>= f) := by
  cases x with
  | ok a => exact hf a rfl hx
  | error e => exact hx

/-- `runDec` never yields `.ub`; a success is a success of the decoder -/
theorem runDec_safe {α} (d : Dec α) (bs : Bytes) : Safe (fun r => d bs = .ok r) (runDec d bs) := by
  unfold runDec
  cases h : d bs with
  | ok r => exact rfl
  | error e => simp [Safe]

/-! ### inversion of the payload decoder monad -/

theorem dec_bind_ok {α β} {m : Dec α} {f : α → Dec β} {s r : Bytes} {b : β} :
    (m >>= f) s = .ok (b, r) ↔ ∃ a s', m s = .ok (a, s') ∧ f a s' = .ok (b, r) := by
  simp only [bind_run]
  cases h : m s with
  | error e => simp
  | ok p =>
    obtain ⟨a, s'⟩ := p
    constructor
    · intro hf; exact ⟨a, s', rfl, hf⟩
    · rintro ⟨a', s'', he, hf⟩
      cases he; exact hf

theorem dec_pure_ok {α} {a b : α} {s r : Bytes} : (pure a : Dec α) s = .ok (b, r) ↔ a = b ∧ s = r := by
  simp [pure_run]

theorem dec_guard_ok {c : Bool} {e : Err} {s r : Bytes} {u : Unit} : Dec.guard c e s = .ok (u, r) ↔ c = true ∧ s = r := by
  cases c <;> simp [Dec.guard]

theorem dec_remaining_ok {s r : Bytes} {n : Nat} : remaining s = .ok (n, r) ↔ s.length = n ∧ s = r := by
  simp [remaining]

/-! ### `mapM` in `R` -/

theorem mapM_ok_of_forall {α β} {f : α → R β} : ∀ (l : List α), (∀ x ∈ l, ∃ b, f x = .ok b) →
    ∃ bs, l.mapM f = .ok bs := by
  intro l
  induction l with
  | nil => intro _; exact ⟨[], by simp [pure, Except.pure]⟩
  | cons a t ih =>
    intro h
    obtain ⟨b, hb⟩ := h a (by simp)
    obtain ⟨bs, hbs⟩ := ih (fun x hx => h x (by simp [hx]))
    exact ⟨b :: bs, by simp [List.mapM_cons, hb, hbs, bind, Except.bind, pure, Except.pure]⟩

theorem mapM_ok_mem {α β} {f : α → R β} : ∀ (l : List α) (bs : List β), l.mapM f = .ok bs →
    ∀ a ∈ l, ∃ b ∈ bs, f a = .ok b := by
  intro l
  induction l with
  | nil => intro bs _ a ha; cases ha
  | cons x t ih =>
    intro bs h a ha
    simp only [List.mapM_cons, bind, Except.bind] at h
    cases hx : f x with
    | error e => simp [hx] at h
    | ok b =>
      simp only [hx] at h
      cases ht : t.mapM f with
      | error e => simp [ht] at h
      | ok bs' =>
        simp only [ht, pure, Except.pure, Except.ok.injEq] at h
        subst h
        rcases List.mem_cons.mp ha with rfl | ha
        · exact ⟨b, by simp, hx⟩
        · obtain ⟨b', hb', hfa⟩ := ih bs' ht a ha
          exact ⟨b', by simp [hb'], hfa⟩

theorem mapM_ok_mem_rev {α β} {f : α → R β} : ∀ (l : List α) (bs : List β), l.mapM f = .ok bs →
    ∀ b ∈ bs, ∃ a ∈ l, f a = .ok b := by
  intro l
  induction l with
  | nil =>
    intro bs h b hb
    simp only [List.mapM_nil, pure, Except.pure, Except.ok.injEq] at h
    subst h; cases hb
  | cons x t ih =>
    intro bs h b hb
    simp only [List.mapM_cons, bind, Except.bind] at h
    cases hx : f x with
    | error e => simp [hx] at h
    | ok b0 =>
      simp only [hx] at h
      cases ht : t.mapM f with
      | error e => simp [ht] at h
      | ok bs' =>
        simp only [ht, pure, Except.pure, Except.ok.injEq] at h
        subst h
        rcases List.mem_cons.mp hb with rfl | hb
        · exact ⟨x, by simp, hx⟩
        · obtain ⟨a, ha, hfa⟩ := ih bs' ht b hb
          exact ⟨a, by simp [ha], hfa⟩

/-! ### the kernel calls -/

theorem xor_one_div (x : Nat) : (x ^^^ 1) / 2 = x / 2 := by
  have := Nat.shiftRight_xor_distrib (a := x) (b := 1) (i := 1)
  simpa [Nat.shiftRight_eq_div_pow] using this

theorem getU_inv {α} {l : List α} {i : Nat} {a : α} (h : getU l i = .ok a) : l[i]? = some a := by
  unfold getU at h
  split at h
  · rename_i b hb; cases h; exact hb
  · cases h

theorem getU_ok {α} {l : List α} {i : Nat} (h : i < l.length) : getU l i = .ok l[i] := by
  simp [getU, List.getElem?_eq_getElem h]

theorem heEnds_ok {edges : List (Nat × Nat)} {he : Nat} (h : he < 2 * edges.length) :
    ∃ p, heEnds edges he = .ok p := by
  have hi : he / 2 < edges.length := by omega
  exact ⟨_, by simp only [heEnds, getU_ok hi, bind, Except.bind]; rfl⟩

theorem hfHalfedges_ok {faces : List (List Nat)} {hf : Nat} (h : hf < 2 * faces.length) :
    ∃ p, hfHalfedges faces hf = .ok p := by
  have hi : hf / 2 < faces.length := by omega
  exact ⟨_, by simp only [hfHalfedges, getU_ok hi, bind, Except.bind]; rfl⟩

theorem faceCheck_ok {edges : List (Nat × Nat)} {hes : List Nat} (h : ∀ x ∈ hes, x < 2 * edges.length) :
    ∃ b, faceCheck edges hes = .ok b := by
  obtain ⟨ends, he⟩ := mapM_ok_of_forall (f := heEnds edges) hes (fun x hx => heEnds_ok (h x hx))
  unfold faceCheck
  simp only [he, bind, Except.bind]
  cases ends with
  | nil => exact ⟨_, rfl⟩
  | cons e0 t => exact ⟨_, rfl⟩

/-- `add_face` with in-range halfedges: no unchecked access fails -/
theorem addFace_ok (cfg : Cfg) {edges : List (Nat × Nat)} {hes : List Nat} (h : ∀ x ∈ hes, x < 2 * edges.length) :
    ∃ b, addFace cfg edges hes = .ok b := by
  unfold addFace
  split
  · exact ⟨_, rfl⟩
  · split
    · split
      · exact ⟨_, rfl⟩
      · exact faceCheck_ok h
    · exact ⟨_, rfl⟩

theorem addFaces_ok (cfg : Cfg) {edges : List (Nat × Nat)} : ∀ (fs : List (List Nat)),
    (∀ f ∈ fs, ∀ x ∈ f, x < 2 * edges.length) → ∃ b, addFaces cfg edges fs = .ok b := by
  intro fs
  induction fs with
  | nil => intro _; exact ⟨_, rfl⟩
  | cons f t ih =>
    intro h
    obtain ⟨b, hb⟩ := addFace_ok cfg (h f (by simp))
    obtain ⟨b', hb'⟩ := ih (fun g hg => h g (by simp [hg]))
    simp only [addFaces, hb, bind, Except.bind]
    cases b with
    | true => exact ⟨b', by simpa using hb'⟩
    | false => exact ⟨false, rfl⟩

theorem cellCheck_ok {faces : List (List Nat)} {hfs : List Nat} (h : ∀ x ∈ hfs, x < 2 * faces.length) :
    ∃ b, cellCheck faces hfs = .ok b := by
  obtain ⟨l, hl⟩ := mapM_ok_of_forall (f := hfHalfedges faces) hfs (fun x hx => hfHalfedges_ok (h x hx))
  unfold cellCheck
  simp only [hl, bind, Except.bind]
  exact ⟨_, rfl⟩

/-- the halfedges `halfface(hf).halfedges()` hands out are those of a stored face, possibly flipped: in range when
    the stored faces are -/
theorem hfHalfedges_range {edges : List (Nat × Nat)} {faces : List (List Nat)} {hf : Nat} {hes : List Nat}
    (hfa : ∀ f ∈ faces, ∀ x ∈ f, x < 2 * edges.length) (h : hfHalfedges faces hf = .ok hes) :
    ∀ x ∈ hes, x < 2 * edges.length := by
  unfold hfHalfedges at h
  cases hg : getU faces (hf / 2) with
  | error e => simp [hg, bind, Except.bind] at h
  | ok f =>
    simp only [hg, bind, Except.bind, pure, Except.pure, Except.ok.injEq] at h
    have hmem : f ∈ faces := List.mem_of_getElem? (getU_inv hg)
    subst h
    intro x hx
    split at hx
    · exact hfa f hmem x hx
    · simp only [List.mem_map, List.mem_reverse] at hx
      obtain ⟨y, hy, rfl⟩ := hx
      have hy' := hfa f hmem y hy
      have := xor_one_div y
      omega

/-- end points of all halfedges of the given halffaces: with the halffaces in range and every stored face's
    halfedges in range, neither of the two unchecked accesses fails -/
theorem cellEnds_ok {edges : List (Nat × Nat)} {faces : List (List Nat)} {hfs : List Nat}
    (hfa : ∀ f ∈ faces, ∀ x ∈ f, x < 2 * edges.length) (h : ∀ x ∈ hfs, x < 2 * faces.length) :
    ∃ ends, cellEnds edges faces hfs = .ok ends := by
  obtain ⟨ls, hls⟩ := mapM_ok_of_forall (f := hfHalfedges faces) hfs (fun x hx => hfHalfedges_ok (h x hx))
  have hrange : ∀ x ∈ ls.flatten, x < 2 * edges.length := by
    intro x hx
    obtain ⟨l, hl, hxl⟩ := List.mem_flatten.mp hx
    obtain ⟨a, _, ha⟩ := mapM_ok_mem_rev hfs ls hls l hl
    exact hfHalfedges_range hfa ha x hxl
  obtain ⟨ends, hends⟩ := mapM_ok_of_forall (f := heEnds edges) ls.flatten (fun x hx => heEnds_ok (hrange x hx))
  unfold cellEnds
  simp only [hls, bind, Except.bind]
  exact ⟨ends, hends⟩

/-- the distinct-vertex guard of the tet / hex `add_cell` overrides (64c6d58 / 7b999c9) -/
theorem spanCount_ok {edges : List (Nat × Nat)} {faces : List (List Nat)} {hfs : List Nat}
    (hfa : ∀ f ∈ faces, ∀ x ∈ f, x < 2 * edges.length) (h : ∀ x ∈ hfs, x < 2 * faces.length) :
    ∃ n, spanCount edges faces hfs = .ok n := by
  obtain ⟨ends, he⟩ := cellEnds_ok hfa h
  unfold spanCount
  simp only [he, bind, Except.bind]
  exact ⟨_, rfl⟩

/-- the parallel-halfedge guard of the tetrahedral override (4614b67) -/
theorem noParallel_ok {edges : List (Nat × Nat)} {faces : List (List Nat)} {hfs : List Nat}
    (hfa : ∀ f ∈ faces, ∀ x ∈ f, x < 2 * edges.length) (h : ∀ x ∈ hfs, x < 2 * faces.length) :
    ∃ b, noParallel edges faces hfs = .ok b := by
  obtain ⟨ends, he⟩ := cellEnds_ok hfa h
  unfold noParallel
  simp only [he, bind, Except.bind]
  exact ⟨_, rfl⟩

theorem hfFroms_ok {edges : List (Nat × Nat)} {faces : List (List Nat)} {hf : Nat}
    (hfa : ∀ f ∈ faces, ∀ x ∈ f, x < 2 * edges.length) (h : hf < 2 * faces.length) :
    ∃ vs, hfFroms edges faces hf = .ok vs := by
  obtain ⟨hes, hh⟩ := hfHalfedges_ok h
  obtain ⟨ends, hends⟩ := mapM_ok_of_forall (f := heEnds edges) hes
    (fun x hx => heEnds_ok (hfHalfedges_range hfa hh x hx))
  unfold hfFroms
  simp only [hh, hends, bind, Except.bind]
  exact ⟨_, rfl⟩

/-- the opposite-pairs guard of the checked hexahedral override (7800c85) -/
theorem oppPairsDisjoint_ok {edges : List (Nat × Nat)} {faces : List (List Nat)} {l : List Nat}
    (hfa : ∀ f ∈ faces, ∀ x ∈ f, x < 2 * edges.length) (h : ∀ x ∈ l, x < 2 * faces.length) :
    ∃ b, oppPairsDisjoint edges faces l = .ok b := by
  obtain ⟨vs, hvs⟩ := mapM_ok_of_forall (f := hfFroms edges faces) l (fun x hx => hfFroms_ok hfa (h x hx))
  unfold oppPairsDisjoint
  simp only [hvs, bind, Except.bind]
  exact ⟨_, rfl⟩

/-- what `add_cell` may return: nothing, or a list of halffaces all below the bound -/
def CellRes (bound : Nat) (o : Option (List Nat)) : Prop := ∀ l, o = some l → ∀ x ∈ l, x < bound

theorem baseAddCell_safe (cfg : Cfg) {faces : List (List Nat)} {hfs : List Nat}
    (h : ∀ x ∈ hfs, x < 2 * faces.length) : Safe (CellRes (2 * faces.length)) (baseAddCell cfg faces hfs) := by
  unfold baseAddCell
  split
  · split
    · exact Safe.pure (by intro l hl; cases hl)
    · obtain ⟨b, hb⟩ := cellCheck_ok h
      simp only [hb, bind, Except.bind]
      apply Safe.pure
      intro l hl
      split at hl
      · cases hl; exact h
      · cases hl
  · exact Safe.pure (by intro l hl; cases hl; exact h)

/-- The hex ordering step only hands on halffaces it was given.  Only required where the hexahedral `add_cell`
    actually calls it: six halffaces, all existing, every one of them a quad.  (For the kernel model of
    `HexahedralMeshTopologyKernel::add_cell` this is `OVM.Kernel.hexReorder_subset` in OVM/Hex/Lemmas.lean, used by Props/C16.) -/
def HexOK (cfg : Cfg) : Prop :=
  ∀ (faces : List (List Nat)) (hfs l : List Nat), hfs.length = 6 →
    (∀ x ∈ hfs, ∃ f, faces[x / 2]? = some f ∧ f.length = 4) →
    cfg.hexOrder faces hfs = .reordered l → ∀ x ∈ l, x ∈ hfs

/-- `add_cell` of any mesh type with in-range halffaces (and in-range stored faces): no unchecked access fails, and
    the stored list is in range -/
theorem addCell_safe (cfg : Cfg) (hx : HexOK cfg) {edges : List (Nat × Nat)} {faces : List (List Nat)} {hfs : List Nat}
    (hfa : ∀ f ∈ faces, ∀ x ∈ f, x < 2 * edges.length)
    (h : ∀ x ∈ hfs, x < 2 * faces.length) : Safe (CellRes (2 * faces.length)) (addCell cfg edges faces hfs) := by
  have hget : ∃ fs, hfs.mapM (fun hf => getU faces (hf / 2)) = .ok fs :=
    mapM_ok_of_forall hfs (fun x hx' => ⟨_, getU_ok (by have := h x hx'; omega)⟩)
  obtain ⟨fs, hfs'⟩ := hget
  obtain ⟨n, hn⟩ := spanCount_ok hfa h
  obtain ⟨np, hnp⟩ := noParallel_ok hfa h
  have hnone : Safe (CellRes (2 * faces.length)) (pure none : R (Option (List Nat))) :=
    Safe.pure (by intro l hl; cases hl)
  -- the guarded call of the checked hexahedral override, for any in-range list
  have hguard : ∀ l : List Nat, (∀ x ∈ l, x < 2 * faces.length) →
      Safe (CellRes (2 * faces.length))
        (do if (← oppPairsDisjoint edges faces l) then baseAddCell cfg faces l else pure none) := by
    intro l hl
    obtain ⟨b, hb⟩ := oppPairsDisjoint_ok hfa hl
    simp only [hb, bind, Except.bind]
    cases b with
    | true => exact baseAddCell_safe cfg hl
    | false => exact hnone
  unfold addCell
  split
  · exact baseAddCell_safe cfg h
  · split
    · exact hnone
    · simp only [hfs', hn, hnp, bind, Except.bind]
      split
      · exact hnone
      · split
        · exact hnone
        · split
          · exact hnone
          · exact baseAddCell_safe cfg h
  · split
    · exact hnone
    · rename_i hlen
      simp only [hfs', hn, bind, Except.bind]
      split
      · exact hnone
      · rename_i hquad
        split
        · exact hnone
        · split
          · exact baseAddCell_safe cfg h
          · split
            · exact hguard hfs h
            · exact hnone
            · rename_i l hl
              have hq : ∀ x ∈ hfs, ∃ f, faces[x / 2]? = some f ∧ f.length = 4 := by
                intro x hx'
                obtain ⟨f, hf, hfx⟩ := mapM_ok_mem hfs fs hfs' x hx'
                refine ⟨f, getU_inv hfx, ?_⟩
                simp only [Bool.not_eq_true, Bool.not_eq_false'] at hquad
                have := List.all_eq_true.mp hquad f hf
                simpa using this
              -- `HexOK` puts the re-ordered list in range *before* the guard reads its faces
              exact hguard l (fun x hx' => h x (hx faces hfs l (by simpa using hlen) hq hl x hx'))
            · exact Safe.unmodelled

theorem addCells_safe (cfg : Cfg) (hx : HexOK cfg) {edges : List (Nat × Nat)} {faces : List (List Nat)}
    (hfa : ∀ f ∈ faces, ∀ x ∈ f, x < 2 * edges.length) : ∀ (cs : List (List Nat)),
    (∀ c ∈ cs, ∀ x ∈ c, x < 2 * faces.length) →
    Safe (fun o => ∀ r, o = some r → r.length = cs.length ∧ ∀ c ∈ r, ∀ x ∈ c, x < 2 * faces.length)
      (addCells cfg edges faces cs) := by
  intro cs
  induction cs with
  | nil =>
    intro _
    apply Safe.pure
    intro r hr; cases hr; simp
  | cons c t ih =>
    intro h
    have h1 := addCell_safe cfg hx hfa (h c (by simp))
    have h2 := ih (fun g hg => h g (by simp [hg]))
    simp only [addCells]
    refine Safe.bind h1 ?_
    intro o _ ho
    cases o with
    | none => exact Safe.pure (by intro r hr; cases hr)
    | some c' =>
      refine Safe.bind h2 ?_
      intro o2 _ ho2
      cases o2 with
      | none => exact Safe.pure (by intro r hr; cases hr)
      | some r' =>
        apply Safe.pure
        intro r hr
        cases hr
        obtain ⟨hl, hb⟩ := ho2 r' rfl
        refine ⟨by simp [hl], ?_⟩
        intro g hg
        rcases List.mem_cons.mp hg with rfl | hg
        · exact ho g rfl
        · exact hb g hg

end OVM.Ovmb

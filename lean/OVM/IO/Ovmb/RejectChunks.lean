/-
  OVMB model, proofs: inconsistent chunk bodies are rejected — version / type switch, EOF, DIRP, VERT, PROP
  (C18, second clause).  Payloads are given by raw sub-header fields (any in-width values) followed by any bytes.
  Proof-only file (not imported by the judge).  Core only.
-/
import OVM.IO.Ovmb.RejectFrame
namespace OVM.Ovmb
open OVM.Gen.Ovmb Dec





/-! ### `read_chunk`'s version test and type switch -/

theorem processChunk_version_rejected (cfg : Cfg) (s : RState) (h : ChunkHdr) (p : Bytes)
    (hv : h.version ≠ 0) (hm : h.mandatory = true) : processChunk cfg s h p = invalid := by
  simp [processChunk, hv, hm]

theorem processChunk_unknown_rejected (cfg : Cfg) (s : RState) (h : ChunkHdr) (p : Bytes) (hm : h.mandatory = true)
    (hty : h.ty ≠ ccEOF ∧ h.ty ≠ ccDIRP ∧ h.ty ≠ ccPROP ∧ h.ty ≠ ccVERT ∧ h.ty ≠ ccTOPO) :
    processChunk cfg s h p = invalid := by
  by_cases hv : h.version = 0
  · simp [processChunk, hv, dispatch, hty.1, hty.2.1, hty.2.2.1, hty.2.2.2.1, hty.2.2.2.2, hm]
  · simp [processChunk, hv, hm]

theorem processChunk_second_eof_rejected (cfg : Cfg) (s : RState) (h : ChunkHdr) (p : Bytes) (hv : h.version = 0)
    (hty : h.ty = ccEOF) (he : s.eof = true) : processChunk cfg s h p = invalid := by
  simp only [processChunk, hv, ne_eq, not_true_eq_false, if_false, dispatch, hty, if_true, he]
  split <;> rfl

theorem processChunk_eof_payload_rejected (cfg : Cfg) (s : RState) (h : ChunkHdr) (p : Bytes) (hv : h.version = 0)
    (hty : h.ty = ccEOF) (hp : p ≠ []) : processChunk cfg s h p = invalid := by
  have : p.isEmpty = false := by cases p <;> simp_all
  simp [processChunk, hv, dispatch, hty, this]

theorem processChunk_second_dirp_rejected (cfg : Cfg) (s : RState) (h : ChunkHdr) (p : Bytes) (hv : h.version = 0)
    (hty : h.ty = ccDIRP) (hd : s.dir ≠ []) : processChunk cfg s h p = invalid := by
  have : s.dir.isEmpty = false := by cases hs : s.dir <;> simp_all
  simp [processChunk, hv, dispatch, hty, applyDirp, this, ccDIRP, ccEOF]

theorem dispatch_vert (cfg : Cfg) (s : RState) (h : ChunkHdr) (p : Bytes) (hv : h.version = 0) (hty : h.ty = ccVERT) :
    processChunk cfg s h p = applyVert s p := by
  simp [processChunk, hv, dispatch, hty, ccDIRP, ccEOF, ccVERT, ccPROP]
theorem dispatch_topo (cfg : Cfg) (s : RState) (h : ChunkHdr) (p : Bytes) (hv : h.version = 0) (hty : h.ty = ccTOPO) :
    processChunk cfg s h p = applyTopo cfg s p := by
  simp [processChunk, hv, dispatch, hty, ccDIRP, ccEOF, ccVERT, ccPROP, ccTOPO]
theorem dispatch_prop (cfg : Cfg) (s : RState) (h : ChunkHdr) (p : Bytes) (hv : h.version = 0) (hty : h.ty = ccPROP) :
    processChunk cfg s h p = applyProp s p := by
  simp [processChunk, hv, dispatch, hty, ccDIRP, ccEOF, ccPROP]

/-! ### VERT -/

/-- a VERT payload with arbitrary in-width header fields -/
def rawVert (first count enc : Nat) (res body : Bytes) : Bytes :=
  leN 8 first ++ leN 4 count ++ leN 1 enc ++ res ++ body

/-- `read_vertices_chunk`: the four consistency tests on the sub-header, in the reader's order -/
theorem applyVert_tests (s : RState) (first count enc : Nat) (res body : Bytes) (hf : first < 2 ^ 64)
    (hc : count < 2 ^ 32) (he : enc < 256) (hr : res.length = 3)
    (hbad : enc ∉ validVertexEncoding ∨ allZero res = false ∨ first ≠ s.nVr ∨ count > s.nV - s.nVr ∨
      body.length ≠ count * (elemSizeVertex enc * meshDim)) :
    applyVert s (rawVert first count enc res body) = invalid := by
  have h1 := uN_leN 8 first (by simpa using hf)
  have h2 := uN_leN 4 count (by simpa using hc)
  have h3 := uN_leN 1 enc (by simpa using he)
  have h4 := readN_append' res body hr
  unfold applyVert rawVert
  simp only [runDec, List.append_assoc, bind_run, u64, u32, u8, h1, h2, h3]
  by_cases c1 : enc ∈ validVertexEncoding
  · have d1 : decide (enc ∈ validVertexEncoding) = true := by simpa using c1
    simp only [d1, guard_true, h4]
    cases c2 : allZero res
    · fin_err
    · simp only [guard_true]
      cases c3 : validSpan s.nV s.nVr first count
      · fin_err
      · simp only [guard_true, remaining_run]
        have hsp : first = s.nVr ∧ count ≤ s.nV - s.nVr := by
          simpa [validSpan] using c3
        have c4 : body.length ≠ count * (elemSizeVertex enc * meshDim) := by
          rcases hbad with h | h | h | h | h
          · exact absurd c1 h
          · rw [c2] at h; cases h
          · exact absurd hsp.1 h
          · omega
          · exact h
        have d4 : (body.length == count * (elemSizeVertex enc * meshDim)) = false := by simpa using c4
        simp only [d4, guard_false]; fin_err
  · have d1 : decide (enc ∈ validVertexEncoding) = false := by simpa using c1
    simp only [d1, guard_false]; fin_err

/-! ### PROP -/

def rawProp (first count idx : Nat) (body : Bytes) : Bytes := leN 8 first ++ leN 4 count ++ leN 4 idx ++ body

theorem applyProp_hdr (first count idx : Nat) (body : Bytes) (hf : first < 2 ^ 64)
    (hc : count < 2 ^ 32) (hi : idx < 2 ^ 32) :
    runDec (do let first ← u64; let count ← u32; let idx ← u32; pure (first, count, idx)) (rawProp first count idx body)
      = .ok ((first, count, idx), body) := by
  have e1 := uN_leN 8 first (by simpa using hf)
  have e2 := uN_leN 4 count (by simpa using hc)
  have e3 := uN_leN 4 idx (by simpa using hi)
  apply runDec_ok
  simp only [rawProp, List.append_assoc, bind_run, u64, u32, e1, e2, e3, pure_run]

/-- property index outside the directory -/
theorem applyProp_index_rejected (s : RState) (first count idx : Nat) (body : Bytes) (hf : first < 2 ^ 64)
    (hc : count < 2 ^ 32) (hi : idx < 2 ^ 32) (hbad : s.dir.length ≤ idx) :
    applyProp s (rawProp first count idx body) = invalid := by
  unfold applyProp
  simp only [applyProp_hdr first count idx body hf hc hi, R_ok_bind, List.getElem?_eq_none hbad]

/-- span of property values outside the entities read so far / outside the property's size -/
theorem applyProp_range_rejected (s : RState) (first count idx i : Nat) (st : Storage) (body : Bytes)
    (hf : first < 2 ^ 64) (hc : count < 2 ^ 32) (hi : idx < 2 ^ 32) (hdir : s.dir[idx]? = some (some i))
    (hst : s.stor[i]? = some st) (hc0 : count ≠ 0)
    (hbad : s.readCount st.entity < first + count ∨ st.vals.length < first + count) :
    applyProp s (rawProp first count idx body) = invalid := by
  unfold applyProp
  simp only [applyProp_hdr first count idx body hf hc hi, R_ok_bind, hdir, hst, hc0, if_false]
  by_cases h1 : first ≥ s.readCount st.entity ∨ s.readCount st.entity - first < count
  · simp [h1]
  · have h2 : first + count > st.vals.length := by omega
    simp [h1, h2]

theorem readMany_readN_length (size : Nat) : ∀ (n : Nat) (p : Bytes) (vs : List Bytes) (rest : Bytes),
    readMany (readN size) n p = .ok (vs, rest) → p.length = n * size + rest.length := by
  intro n
  induction n with
  | zero => intro p vs rest h; simp only [readMany, pure_run] at h; cases h; simp
  | succ n ih =>
    intro p vs rest h
    simp only [readMany, bind_run] at h
    cases h1 : readN size p with
    | error e => simp [h1] at h
    | ok v =>
      obtain ⟨x, p1⟩ := v
      simp only [h1] at h
      cases h2 : readMany (readN size) n p1 with
      | error e => simp [h2] at h
      | ok w =>
        obtain ⟨t, r⟩ := w
        simp only [h2, pure_run] at h
        cases h
        obtain ⟨hp, hx⟩ := readN_ok h1
        have := ih p1 t rest h2
        rw [hp, List.length_append, hx, this, Nat.succ_mul]; omega

/-- `decode_n` of a fixed-size or bool codec consumes exactly `count * size` resp. `⌈count / 8⌉` bytes -/
theorem decodeN_consumes (c : Codec) (n : Nat) (p : Bytes) (vs : List Bytes) (rest : Bytes)
    (h : decodeN c n p = .ok (vs, rest)) :
    (c.kind = .fixed → p.length = n * c.size + rest.length) ∧ (c.kind = .bool → p.length = (n + 7) / 8 + rest.length) := by
  unfold decodeN at h
  constructor
  · intro hk
    simp only [hk, decodeOne] at h
    exact readMany_readN_length c.size n p vs rest h
  · intro hk
    simp only [hk, bind_run] at h
    cases h1 : readN ((n + 7) / 8) p with
    | error e => simp [h1] at h
    | ok v =>
      obtain ⟨x, p1⟩ := v
      simp only [h1, pure_run] at h
      cases h
      obtain ⟨hp, hx⟩ := readN_ok h1
      rw [hp, List.length_append, hx]

/-- payload size of a PROP chunk inconsistent with its count (fixed-size and bool value types; empty span) -/
theorem applyProp_size_rejected (s : RState) (first count idx i : Nat) (st : Storage) (body : Bytes)
    (hf : first < 2 ^ 64) (hc : count < 2 ^ 32) (hi : idx < 2 ^ 32) (hdir : s.dir[idx]? = some (some i))
    (hst : s.stor[i]? = some st)
    (hbad : (count = 0 ∧ body ≠ []) ∨ (st.codec.kind = .fixed ∧ body.length ≠ count * st.codec.size) ∨
      (st.codec.kind = .bool ∧ body.length ≠ (count + 7) / 8)) :
    Rejected (applyProp s (rawProp first count idx body)) := by
  intro s' hok
  unfold applyProp at hok
  simp only [applyProp_hdr first count idx body hf hc hi, R_ok_bind, hdir, hst] at hok
  by_cases hc0 : count = 0
  · rcases hbad with ⟨_, hb⟩ | ⟨hk, hb⟩ | ⟨hk, hb⟩
    · have : body.isEmpty = false := by cases body <;> simp_all
      simp [hc0, this, invalid] at hok
    · subst hc0
      have : body.isEmpty = false := by cases body <;> simp_all
      simp [this, invalid] at hok
    · subst hc0
      have : body.isEmpty = false := by cases body <;> simp_all
      simp [this, invalid] at hok
  · simp only [hc0, if_false] at hok
    split at hok
    · cases hok
    split at hok
    · cases hok
    cases hd : runDec (decodeN st.codec count) body with
    | error e => rw [hd] at hok; cases hok
    | ok v =>
      obtain ⟨vs, rest⟩ := v
      rw [hd] at hok
      simp only [R_ok_bind] at hok
      have hd' : decodeN st.codec count body = .ok (vs, rest) := by
        unfold runDec at hd
        cases h : decodeN st.codec count body with
        | error e => rw [h] at hd; cases hd
        | ok w => rw [h] at hd; cases hd; rfl
      obtain ⟨hfix, hbool⟩ := decodeN_consumes _ _ _ _ _ hd'
      cases rest with
      | cons b t => simp [invalid] at hok
      | nil =>
        rcases hbad with ⟨h0, _⟩ | ⟨hk, hb⟩ | ⟨hk, hb⟩
        · exact hc0 h0
        · have := hfix hk; simp at this; exact hb this
        · have := hbool hk; simp at this; exact hb this

end OVM.Ovmb

/-
  OVMB model, proofs: the hexahedral ordering oracle the compiled judge uses (`Judge.hexOrderStd`, the model of
  `check_halfface_ordering`; lean/OVM/IO/Driver.lean) is local — it reads the faces of the six halffaces it is
  given and nothing else — so `Judge.mkCfg k tc` satisfies the hypothesis `HexLocal` of `decode_encodeWith_any`.
  Proof-only file.  Core only.
-/
import OVM.IO.Driver
import OVM.IO.Ovmb.RoundTripLocal
namespace OVM.Ovmb
open OVM.Gen.Ovmb

theorem find?_congr' {α} {p q : α → Bool} : ∀ (l : List α), (∀ x ∈ l, p x = q x) → l.find? p = l.find? q := by
  intro l
  induction l with
  | nil => intro _; rfl
  | cons a t ih =>
    intro h
    simp only [List.find?_cons, h a (by simp), ih (fun x hx => h x (by simp [hx]))]

theorem hfHes_congr {faces faces' : List (List Nat)} {hf : Nat} (h : faces'[hf / 2]? = faces[hf / 2]?) :
    Judge.hfHes faces' hf = Judge.hfHes faces hf := by
  unfold Judge.hfHes; rw [h]

theorem adjHf_congr {faces faces' : List (List Nat)} {hfs : List Nat}
    (hF : ∀ x ∈ hfs, faces'[x / 2]? = faces[x / 2]?) (hf he : Nat) :
    Judge.adjHf faces' hf he hfs = Judge.adjHf faces hf he hfs := by
  unfold Judge.adjHf
  apply find?_congr'
  intro x hx
  rw [hfHes_congr (hF x hx)]

theorem checkSide_go_congr {faces faces' : List (List Nat)} {hfs : List Nat}
    (hF : ∀ x ∈ hfs, faces'[x / 2]? = faces[x / 2]?) (order : List Nat) (hf : Nat) :
    ∀ (hes : List Nat) (o : Option Nat),
      Judge.checkSide.go faces' hfs order hf hes o = Judge.checkSide.go faces hfs order hf hes o := by
  intro hes
  induction hes with
  | nil => intro o; simp [Judge.checkSide.go]
  | cons he rest ih =>
    intro o
    cases o with
    | none => simp only [Judge.checkSide.go, adjHf_congr hF, ih]
    | some v => simp only [Judge.checkSide.go, adjHf_congr hF, ih]

theorem checkSide_congr {faces faces' : List (List Nat)} {hfs : List Nat}
    (hF : ∀ x ∈ hfs, faces'[x / 2]? = faces[x / 2]?) (side : Nat) (hside : side < hfs.length) (order : List Nat) :
    Judge.checkSide faces' hfs side order = Judge.checkSide faces hfs side order := by
  unfold Judge.checkSide
  have hmem : hfs.getD side 0 ∈ hfs := by
    rw [List.getD_eq_getElem?_getD, List.getElem?_eq_getElem hside]; simp
  simp only [checkSide_go_congr hF, hfHes_congr (hF _ hmem)]

/-- `check_halfface_ordering` as modelled for the judge gives the same answer on any two face lists that hold the
    same faces for the (at least two) halffaces it is given -/
theorem hexOrderStd_congr {faces faces' : List (List Nat)} {hfs : List Nat} (hlen : 2 ≤ hfs.length)
    (hF : ∀ x ∈ hfs, faces'[x / 2]? = faces[x / 2]?) :
    Judge.hexOrderStd faces' hfs = Judge.hexOrderStd faces hfs := by
  unfold Judge.hexOrderStd
  rw [checkSide_congr hF 0 (by omega), checkSide_congr hF 1 (by omega)]

/-- the configuration the compiled judge compares with the C++ satisfies `HexLocal` -/
theorem judge_cfg_hexLocal (k : MeshKind) (tc : Bool) : HexLocal (Judge.mkCfg k tc) := by
  intro faces n hfs hlen hlt
  exact hexOrderStd_congr (by omega) (fun x hx => take_getElem? faces (hlt x hx))

/-- any oracle that does not look at the face list at all is local -/
theorem hexLocal_const (k : MeshKind) (tc : Bool) (g : List Nat → HexRes) : HexLocal ⟨k, tc, fun _ hfs => g hfs⟩ := by
  intro faces n hfs _ _; rfl

end OVM.Ovmb

/-
  OVMB reader safety (C07), part 3: the vertex, property-directory and property chunks preserve `RInv` and never
  reach an unchecked out-of-range access (`Safe RInv`).
  Proof-only file, core only.
-/
import OVM.IO.Ovmb.SafetyInv

namespace OVM.Ovmb
open OVM.Gen.Ovmb Dec

/-! ### `read_vertices_chunk` -/

theorem validSpan_inv {total read first count : Nat} (h : validSpan total read first count = true) :
    first = read ∧ count ≤ total - read := by
  simpa [validSpan] using h

theorem applyVert_safe {s : RState} (hi : RInv s) (payload : Bytes) : Safe RInv (applyVert s payload) := by
  unfold applyVert
  refine Safe.bind (runDec_safe _ _) ?_
  rintro ⟨r, rest⟩ _ hdec
  dsimp only
  split
  · exact Safe.invalid
  · obtain ⟨first, count, ps⟩ := r
    apply Safe.pure
    simp only [dec_bind_ok, dec_guard_ok, dec_remaining_ok] at hdec
    obtain ⟨a, _, _, a1, _, _, enc, _, _, _, _, _, _, _, _, _, _, _, _, _, ⟨hspan, _⟩, _, _, _, _, _, _, hfin⟩ := hdec
    obtain ⟨hf, hc⟩ := validSpan_inv hspan
    have key : first = a ∧ count = a1 ∧ ps.length = count ∧ ∀ p ∈ ps, PosOK p := by
      split at hfin
      · simp only [dec_bind_ok, dec_pure_ok] at hfin
        obtain ⟨ps', _, hm, he, _⟩ := hfin
        cases he
        exact ⟨rfl, rfl, readMany_length hm, readMany_all (P := PosOK) (fun _ _ _ hh => readInts_posOK hh) hm⟩
      · split at hfin
        · simp only [dec_bind_ok, dec_pure_ok] at hfin
          obtain ⟨ps', _, hm, he, _⟩ := hfin
          cases he
          exact ⟨rfl, rfl, readMany_length hm, readMany_all (P := PosOK) (fun _ _ _ hh => readFloats_posOK hh) hm⟩
        · simp only [dec_bind_ok, dec_pure_ok] at hfin
          obtain ⟨ps', _, ⟨rfl, _⟩, he, _⟩ := hfin
          cases he
          refine ⟨rfl, rfl, ?_, ?_⟩
          · simp only [List.length_take, List.length_drop, hi.posLen]; omega
          · intro p hp
            exact hi.posOk p (List.mem_of_mem_drop (List.mem_of_mem_take hp))
    obtain ⟨rfl, rfl, hl, hp⟩ := key
    have h1 := hi.posLen
    have h2 := hi.nVr_le
    refine ⟨?_, ?_, ?_, ?_, hi.facesOk, hi.cellsOk, hi.storOk, hi.dirOk⟩
    · simp only [List.length_append, List.length_take, List.length_drop, hl, h1]; omega
    · intro p hp'
      simp only [List.mem_append] at hp'
      rcases hp' with (hp' | hp') | hp'
      · exact hi.posOk p (List.mem_of_mem_take hp')
      · exact hp p hp'
      · exact hi.posOk p (List.mem_of_mem_drop hp')
    · show s.nVr + count ≤ s.nV
      omega
    · intro e he
      have := hi.edgesOk e he
      show e.1 < s.nVr + count ∧ e.2 < s.nVr + count
      omega

/-! ### `read_prop_chunk` -/

theorem applyProp_safe {s : RState} (hi : RInv s) (payload : Bytes) : Safe RInv (applyProp s payload) := by
  unfold applyProp
  refine Safe.bind (runDec_safe _ _) ?_
  rintro ⟨⟨first, count, idx⟩, p1⟩ _ _
  dsimp only
  split
  · exact Safe.invalid
  · exact Safe.pure hi
  · rename_i i hdir
    have hmem : some i ∈ s.dir := List.mem_of_getElem? hdir
    have hlt := hi.dirOk i hmem
    split
    · rename_i hnone
      rw [List.getElem?_eq_none_iff] at hnone
      omega
    · rename_i st hst
      have hstm : st ∈ s.stor := List.mem_of_getElem? hst
      obtain ⟨o1, o2, o3, o4, o5⟩ := hi.storOk st hstm
      split
      · split
        · exact Safe.pure hi
        · exact Safe.invalid
      · split
        · exact Safe.invalid
        · split
          · exact Safe.invalid
          · rename_i hrange
            refine Safe.bind (runDec_safe _ _) ?_
            rintro ⟨vs, rest⟩ _ hdec
            dsimp only
            split
            · exact Safe.invalid
            · apply Safe.pure
              obtain ⟨hvl, hvv⟩ := decodeN_ok hdec
              refine ⟨hi.posLen, hi.posOk, hi.nVr_le, hi.edgesOk, hi.facesOk, hi.cellsOk, ?_, ?_⟩
              · intro x hx
                rcases List.mem_or_eq_of_mem_set hx with hx | rfl
                · exact hi.storOk x hx
                · refine ⟨o1, o2, o3, ?_, ?_⟩
                  · show (st.vals.take first ++ vs ++ st.vals.drop (first + count)).length = s.count st.entity
                    simp only [List.length_append, List.length_take, List.length_drop, hvl]
                    rw [← o4]; omega
                  · intro v hv
                    simp only [List.mem_append] at hv
                    rcases hv with (hv | hv) | hv
                    · exact o5 v (List.mem_of_mem_take hv)
                    · exact hvv v hv
                    · exact o5 v (List.mem_of_mem_drop hv)
              · intro j hj
                simp only [List.length_set]
                exact hi.dirOk j hj

/-! ### `read_propdir_chunk` -/

theorem findStor_lt {st : List Storage} {e : Nat} {name : Bytes} {c : Codec} {i : Nat}
    (h : findStor st e name c = some i) : i < st.length := by
  unfold findStor at h
  simp only at h
  split at h
  · cases h; assumption
  · cases h

theorem readPropInfo_entity {s r : Bytes} {e : Nat} {name ty d : Bytes}
    (h : readPropInfo s = .ok ((e, name, ty, d), r)) : e ≤ propertyEntityMesh := by
  simp only [readPropInfo, dec_bind_ok, dec_guard_ok, dec_pure_ok] at h
  obtain ⟨e', _, _, _, _, ⟨hg, _⟩, _, _, _, _, _, _, _, _, _, he, _⟩ := h
  cases he
  have : e ∈ validPropertyEntity := by simpa using hg
  simp only [validPropertyEntity, List.mem_cons, List.mem_nil_iff, or_false] at this
  simp only [propertyEntityMesh]
  omega

theorem applyDirpLoop_safe : ∀ (fuel : Nat) {s : RState}, RInv s → ∀ (p : Bytes), Safe RInv (applyDirpLoop s fuel p) := by
  intro fuel
  induction fuel with
  | zero =>
    intro s hi p
    simp only [applyDirpLoop]
    split
    · exact Safe.pure hi
    · exact Safe.invalid
  | succ fuel ih =>
    intro s hi p
    simp only [applyDirpLoop]
    split
    · exact Safe.pure hi
    · refine Safe.bind (runDec_safe _ _) ?_
      rintro ⟨⟨e, name, ty, d⟩, p'⟩ _ hinfo
      dsimp only
      have hdir : ∀ (o : Option Nat) (st : List Storage), st.length ≥ s.stor.length →
          (∀ i, o = some i → i < st.length) → ∀ i, some i ∈ s.dir ++ [o] → i < st.length := by
        intro o st hst ho i hm
        rcases List.mem_append.mp hm with hm | hm
        · exact Nat.lt_of_lt_of_le (hi.dirOk i hm) hst
        · simp only [List.mem_singleton] at hm
          exact ho i hm.symm
      split
      · apply ih
        exact ⟨hi.posLen, hi.posOk, hi.nVr_le, hi.edgesOk, hi.facesOk, hi.cellsOk, hi.storOk,
          hdir none s.stor (Nat.le_refl _) (by intro i h; cases h)⟩
      · rename_i c hc
        refine Safe.bind (runDec_safe _ _) ?_
        rintro ⟨dv, _⟩ _ hdv
        dsimp only
        split
        · rename_i i hfs
          apply ih
          exact ⟨hi.posLen, hi.posOk, hi.nVr_le, hi.edgesOk, hi.facesOk, hi.cellsOk, hi.storOk,
            hdir (some i) s.stor (Nat.le_refl _) (by intro j h; cases h; exact findStor_lt hfs)⟩
        · split
          · exact Safe.res _
          · apply ih
            refine ⟨hi.posLen, hi.posOk, hi.nVr_le, hi.edgesOk, hi.facesOk, hi.cellsOk, ?_, ?_⟩
            · intro x hx
              rcases List.mem_append.mp hx with hx | hx
              · exact hi.storOk x hx
              · simp only [List.mem_singleton] at hx
                subst hx
                have hval := decodeOne_ok_valid hdv
                refine ⟨readPropInfo_entity hinfo, (findCodec_mem hc).1, hval, by simp [RState.count], ?_⟩
                intro v hv
                rw [(List.mem_replicate.mp hv).2]; exact hval
            · apply hdir (some s.stor.length) (s.stor ++ [_]) (by simp)
              intro j h; cases h; simp

theorem applyDirp_safe {s : RState} (hi : RInv s) (payload : Bytes) : Safe RInv (applyDirp s payload) := by
  unfold applyDirp
  split
  · exact Safe.invalid
  · exact applyDirpLoop_safe _ hi _

end OVM.Ovmb

/-
  OVMB model, proofs: the writer round trip `decode cfg (encode F) = .ok F` (C06).

  Hypotheses: `WFFile F`; `Accepts cfg F` (the target mesh type takes the file's topology type and every face /
  cell as written — always so for a polyhedral mesh without topology check, `accepts_poly`); `SizeOk F` (file
  length < 2^64, the width of the chunk length field).
  The reader state after each of the writer's chunks is explicit (`mkS`, `step_*`, `runChunks_writer`).
  Proof-only file (not imported by the judge).  Core only.
-/
import OVM.IO.Ovmb.RoundTripStates
namespace OVM.Ovmb
open OVM.Gen.Ovmb Dec


/-- the target mesh type accepts the file's topology type and every face and cell as written (always the case for
    a polyhedral mesh without topology check) -/
structure Accepts (cfg : Cfg) (F : File) : Prop where
  tet : cfg.kind = .tet → F.topo = topoTypeTetrahedral
  hex : cfg.kind = .hex → F.topo = topoTypeHexahedral
  faces : ∀ f ∈ F.faces, addFace cfg F.edges f = .ok true
  cells : ∀ c ∈ F.cells, addCell cfg F.edges F.faces c = .ok (some c)

theorem accepts_poly (cfg : Cfg) (F : File) (hk : cfg.kind = .poly) (ht : cfg.topoCheck = false) : Accepts cfg F where
  tet := by simp [hk]
  hex := by simp [hk]
  faces := by intro f _; simp [addFace, hk, ht, R_pure]
  cells := by intro c _; simp [addCell, baseAddCell, hk, ht, R_pure]

theorem addFaces_all (cfg : Cfg) (edges : List (Nat × Nat)) (fs : List (List Nat))
    (h : ∀ f ∈ fs, addFace cfg edges f = .ok true) : addFaces cfg edges fs = .ok true := by
  induction fs with
  | nil => rfl
  | cons f t ih =>
    simp only [addFaces, h f (by simp), R_ok_bind, if_true]
    exact ih (fun x hx => h x (by simp [hx]))

theorem addCells_all (cfg : Cfg) (edges : List (Nat × Nat)) (faces : List (List Nat)) (cs : List (List Nat))
    (h : ∀ c ∈ cs, addCell cfg edges faces c = .ok (some c)) : addCells cfg edges faces cs = .ok (some cs) := by
  induction cs with
  | nil => rfl
  | cons c t ih =>
    simp only [addCells, h c (by simp), R_ok_bind, ih (fun x hx => h x (by simp [hx]))]
    rfl

theorem runChunks_wc (cfg : Cfg) (s s' : RState) (ty : Nat) (p : Bytes)
    (h : processChunk cfg s (wc ty p).hdr p = .ok s') : runChunks cfg s [wc ty p] = .ok s' :=
  runChunks_one cfg s s' _ h

theorem blank_fn (s : RState) : blank s = blankC s.nV s.edges.length s.faces.length s.cells.length := rfl

variable (cfg : Cfg) (F : File)

theorem step_dirp (hw : WF F) :
    runChunks cfg (mkS F false false [] [] [] 0 false) (dirpCh F) = .ok (mkS F true false [] [] [] 0 false) := by
  unfold dirpCh
  by_cases hp : F.props.isEmpty = true
  · have : F.props = [] := List.isEmpty_iff.mp hp
    simp [runChunks, mkS, this]
  · rw [if_neg hp]
    apply runChunks_wc
    rw [pc_dirp]
    have := applyDirp_enc (mkS F false false [] [] [] 0 false) F.props (fun p hp => (hw.props p hp).1) rfl rfl hw.nodup
    rw [blank_fn] at this
    simpa [wc, mkS] using this

theorem step_vert (hw : WF F) :
    runChunks cfg (mkS F true false [] [] [] 0 false) (vertCh F) = .ok (mkS F true true [] [] [] 0 false) := by
  unfold vertCh
  by_cases hp : F.pos.length = 0
  · have : F.pos = [] := List.length_eq_zero_iff.mp hp
    simp [runChunks, mkS, this]
  · rw [if_neg hp]
    apply runChunks_wc
    rw [pc_vert]
    have hnV := hw.nV
    simp only [maxHandleIdx] at hnV
    have := applyVert_double (mkS F true false [] [] [] 0 false) F.pos (by simp [mkS]) (by omega) (by simp [mkS]) hw.pos
    simpa [wc, mkS] using this

theorem step_edges (hw : WF F) :
    runChunks cfg (mkS F true true [] [] [] 0 false) (edgeCh F) = .ok (mkS F true true F.edges [] [] 0 false) := by
  unfold edgeCh
  by_cases hp : F.edges.length = 0
  · have : F.edges = [] := List.length_eq_zero_iff.mp hp
    simp [runChunks, this]
  · rw [if_neg hp]
    apply runChunks_wc
    rw [pc_topo]
    have hnV := hw.nV
    have hnE := hw.nE
    simp only [maxHandleIdx] at hnV hnE
    have hok : EdgesOk F.edges (suitableIntEncoding F.pos.length) 0 (mkS F true true [] [] [] 0 false).nVr := by
      refine ⟨by omega, by omega, suitable_encOk _, by omega, by simp [mkS]; omega, ?_⟩
      intro e he
      obtain ⟨h1, h2⟩ := hw.edges e he
      simp only [mkS, if_true, Nat.sub_zero, Nat.zero_le, true_and]
      exact ⟨⟨suitable_fits (by omega) (by omega), h1⟩, ⟨suitable_fits (by omega) (by omega), h2⟩⟩
    have := applyTopo_edges cfg (mkS F true true [] [] [] 0 false) F.edges (suitableIntEncoding F.pos.length) 0 hok
      (by simp [mkS]) (by simp [mkS])
    simp only [mkS, List.length_nil, List.nil_append, if_true, List.take_zero, List.drop_zero, List.map_nil,
      growStor_blank_edges, Nat.zero_add] at this ⊢
    exact this

theorem step_faces (hw : WF F) (hacc : Accepts cfg F) :
    runChunks cfg (mkS F true true F.edges [] [] 0 false) (faceCh F) = .ok (mkS F true true F.edges F.faces [] 0 false) := by
  unfold faceCh
  by_cases hp : F.faces.length = 0
  · have : F.faces = [] := List.length_eq_zero_iff.mp hp
    simp [runChunks, this]
  · simp only [hp, if_false]
    apply runChunks_wc
    rw [pc_topo]
    have hne : F.faces ≠ [] := fun h => hp (by simp [h])
    have hnE := hw.nE
    have hnF := hw.nF
    simp only [maxHandleIdx] at hnE hnF
    have hok : ListsOk F.faces (writerValMode (F.faces.map List.length)).1 (writerValMode (F.faces.map List.length)).2
        (suitableIntEncoding (2 * F.edges.length)) 0 (2 * (mkS F true true F.edges [] [] 0 false).edges.length) := by
      refine ⟨by omega, by omega, suitable_encOk _, by omega, by simp [mkS]; omega, ?_, writerValMode_ok F.faces hne hw.faceLen⟩
      intro l hl
      refine ⟨fun h => by have := (hw.faceLen l hl).1; simp [h] at this, ?_⟩
      intro h hh
      have := hw.faces l hl h hh
      simp only [mkS, Nat.sub_zero, Nat.zero_le, true_and]
      exact ⟨suitable_fits (by omega) (by omega), this⟩
    have := applyTopo_faces cfg (mkS F true true F.edges [] [] 0 false) F.faces _ _ _ 0 hok (by simp [mkS]) (by simp [mkS])
      (fun ht => writerValMode_uniform F.faces hne 3 (by omega) (hw.tet ht).1)
      (fun ht => writerValMode_uniform F.faces hne 4 (by omega) (hw.hex ht).1)
      (addFaces_all cfg F.edges F.faces hacc.faces)
    simp only [mkS, List.length_nil, List.nil_append, if_true, List.take_zero, List.drop_zero, List.map_nil,
      growStor_blank_faces, Nat.zero_add] at this ⊢
    exact this

theorem step_cells (hw : WF F) (hacc : Accepts cfg F) :
    runChunks cfg (mkS F true true F.edges F.faces [] 0 false) (cellCh F)
      = .ok (mkS F true true F.edges F.faces F.cells 0 false) := by
  unfold cellCh
  by_cases hp : F.cells.length = 0
  · have : F.cells = [] := List.length_eq_zero_iff.mp hp
    simp [runChunks, this]
  · simp only [hp, if_false]
    apply runChunks_wc
    rw [pc_topo]
    have hne : F.cells ≠ [] := fun h => hp (by simp [h])
    have hnF := hw.nF
    have hnC := hw.nC
    simp only [maxHandleIdx] at hnF hnC
    have hok : ListsOk F.cells (writerValMode (F.cells.map List.length)).1 (writerValMode (F.cells.map List.length)).2
        (suitableIntEncoding (2 * F.faces.length)) 0 (2 * (mkS F true true F.edges F.faces [] 0 false).faces.length) := by
      refine ⟨by omega, by omega, suitable_encOk _, by omega, by simp [mkS]; omega, ?_, writerValMode_ok F.cells hne hw.cellLen⟩
      intro l hl
      refine ⟨fun h => by have := (hw.cellLen l hl).1; simp [h] at this, ?_⟩
      intro h hh
      have := hw.cells l hl h hh
      simp only [mkS, Nat.sub_zero, Nat.zero_le, true_and]
      exact ⟨suitable_fits (by omega) (by omega), this⟩
    have := applyTopo_cells cfg (mkS F true true F.edges F.faces [] 0 false) F.cells _ _ _ 0 hok (by simp [mkS]) (by simp [mkS])
      (fun ht => writerValMode_uniform F.cells hne 4 (by omega) (hw.tet ht).2)
      (fun ht => writerValMode_uniform F.cells hne 6 (by omega) (hw.hex ht).2)
      (addCells_all cfg F.edges F.faces F.cells hacc.cells)
    simp only [mkS, List.length_nil, List.nil_append, if_true, List.take_zero, List.drop_zero, List.map_nil,
      growStor_blank_cells, Nat.zero_add] at this ⊢
    exact this

/-- the state after the topology chunks, with the values of the first `k` properties read -/
abbrev topoDone (F : File) (k : Nat) (eof : Bool) : RState := mkS F true true F.edges F.faces F.cells k eof

theorem step_prop (hw : WF F) (i : Nat) (p : PropData) (rest : List PropData) (hd : F.props.drop i = p :: rest) :
    processChunk cfg (topoDone F i false) (wc ccPROP (propPayload 0 i p.codec p.vals)).hdr (propPayload 0 i p.codec p.vals)
      = .ok (topoDone F (i + 1) false) := by
  rw [pc_prop]
  have hi : i < F.props.length := by
    have : (F.props.drop i).length = rest.length + 1 := by rw [hd]; rfl
    simp only [List.length_drop] at this; omega
  have hpi : F.props[i]? = some p := by
    have := congrArg (fun l => l[0]?) hd
    simpa using this
  have hmem : p ∈ F.props := List.mem_of_getElem? hpi
  obtain ⟨hpo, hlen, hvals, h32⟩ := hw.props p hmem
  have hnp := hw.nprops
  have htk : (F.props.take i).length = i := by simp; omega
  have hst : (topoDone F i false).stor[i]? = some (blankC F.pos.length F.edges.length F.faces.length F.cells.length p) := by
    simp only [mkS, if_true]
    rw [List.getElem?_append_right (by rw [List.length_map, htk]; exact Nat.le_refl _), List.length_map, htk,
      Nat.sub_self, hd]
    rfl
  have hdir : (topoDone F i false).dir[i]? = some (some i) := by
    simp [mkS, hi]
  have hrc : (topoDone F i false).readCount p.entity = p.vals.length := by
    simp [RState.readCount, mkS, hlen, File.slots]
  have := applyProp_enc (topoDone F i false) i i 0 _ p.vals (by omega) hdir hst hvals h32 (by omega)
    (Or.inr ⟨by show 0 + p.vals.length ≤ (topoDone F i false).readCount p.entity; rw [hrc]; omega,
      by simp [blankC, hlen, File.slots]⟩)
  simp only [blankC] at this
  rw [this]
  congr 1
  simp only [mkS, if_true, List.take_zero, List.nil_append, Nat.zero_add, RState.mk.injEq, true_and, and_true]
  have hdrop : List.drop p.vals.length (List.replicate (slotCount p.entity F.pos.length F.edges.length F.faces.length F.cells.length) p.dflt) = [] := by
    apply List.drop_eq_nil_of_le
    simp [hlen, File.slots]
  rw [hdrop, List.append_nil, hd]
  have hd1 : F.props.drop (i + 1) = rest := by
    have := congrArg (List.drop 1) hd
    simpa [List.drop_drop, Nat.add_comm] using this
  have ht1 : F.props.take (i + 1) = F.props.take i ++ [p] := by
    rw [List.take_add_one, hpi]; rfl
  rw [hd1, ht1, List.map_append, List.map_cons]
  rw [List.set_append_right _ _ (by simp; omega)]
  simp [full, Nat.min_eq_left (Nat.le_of_lt hi)]

theorem steps_props (hw : WF F) : ∀ (rest : List PropData) (i : Nat), F.props.drop i = rest → i ≤ F.props.length →
    runChunks cfg (topoDone F i false) (propChunkDsFrom i rest) = .ok (topoDone F F.props.length false) := by
  intro rest
  induction rest with
  | nil =>
    intro i hd hi
    have : i = F.props.length := by
      have := congrArg List.length hd
      simp only [List.length_drop, List.length_nil] at this; omega
    subst this; rfl
  | cons p rest ih =>
    intro i hd hi
    have hi' : i < F.props.length := by
      have := congrArg List.length hd
      simp only [List.length_drop, List.length_cons] at this; omega
    have hd1 : F.props.drop (i + 1) = rest := by
      have := congrArg (List.drop 1) hd
      simpa [List.drop_drop, Nat.add_comm] using this
    simp only [propChunkDsFrom, runChunks]
    have := step_prop cfg F hw i p rest hd
    simp only [wc] at this ⊢
    rw [this]
    exact ih (i + 1) hd1 (by omega)

theorem finish_done : finish (topoDone F F.props.length true) = .ok F := by
  simp only [finish, mkS, if_true, Bool.not_true, Bool.false_eq_true, if_false, ne_eq, not_true_eq_false, or_self,
    List.take_length, List.drop_length, List.map_nil, List.append_nil, List.map_map, R_pure]
  congr 1
  obtain ⟨topo, pos, edges, faces, cells, props⟩ := F
  simp only [File.mk.injEq, true_and]
  conv => rhs; rw [← List.map_id props]
  apply List.map_congr_left
  intro p _; rfl

/-- all chunks of the writer, applied in order to the initial reader state -/
theorem runChunks_writer (hw : WF F) (hacc : Accepts cfg F) :
    runChunks cfg (mkS F false false [] [] [] 0 false) (writerChunkDs F) = .ok (topoDone F F.props.length true) := by
  simp only [writerChunkDs, frontChunkDs, runChunks_append, step_dirp cfg F hw, step_vert cfg F hw, step_edges cfg F hw,
    step_faces cfg F hw hacc, step_cells cfg F hw hacc, steps_props cfg F hw F.props 0 rfl (Nat.zero_le _)]
  exact runChunks_one cfg _ _ _ (pc_eof cfg _ rfl)

theorem ofNat_toNat_small (n : Nat) (h : n < 256) : (UInt8.ofNat n).toNat = n := toNat_ofNat_lt h

/-- the file header with an arbitrary `file_version` byte (the reader does not look at it) -/
def fileHeader (fv : Nat) (F : File) : Bytes :=
  encFileHeader fv writerHeaderVersion meshDim F.topo F.pos.length F.edges.length F.faces.length F.cells.length

/-- `read_file`'s header checks pass on the writer's header when the target mesh type accepts the file's
    topology type; the chunk loop starts from the initial state with the header's counts -/
theorem decodeStream_header_gen (fv : Nat) (hw : WF F) (htet : cfg.kind = .tet → F.topo = topoTypeTetrahedral)
    (hhex : cfg.kind = .hex → F.topo = topoTypeHexahedral) (body : Bytes) :
    decodeStream cfg ⟨(fileHeader fv F ++ body).length, fileHeader fv F ++ body⟩
      = loop cfg (initState F.topo F.pos.length F.edges.length F.faces.length F.cells.length) ⟨body.length, body⟩ := by
  have hlen : (fileHeader fv F).length = sizeFileHeader := encFileHeader_length ..
  have hnV := hw.nV; have hnE := hw.nE; have hnF := hw.nF; have hnC := hw.nC
  have htopo : F.topo < 3 := by
    have := hw.topo; simp [validTopoType] at this; omega
  unfold decodeStream
  rw [makeDecoder_append' _ sizeFileHeader (fileHeader fv F) body hlen (by simp [hlen])]
  simp only [List.length_append, hlen, Nat.add_sub_cancel_left]
  -- the header bytes, field by field
  have hpre : fileHeader fv F = (magicBytes ++ [UInt8.ofNat (fv % 256), UInt8.ofNat writerHeaderVersion,
        UInt8.ofNat meshDim, UInt8.ofNat F.topo, 0, 0, 0, 0])
      ++ (leN 8 F.pos.length ++ (leN 8 F.edges.length ++ (leN 8 F.faces.length ++ leN 8 F.cells.length))) := by
    simp [fileHeader, encFileHeader, leN, zeros, List.replicate, Nat.mod_eq_of_lt (show F.topo < 256 by omega),
      writerHeaderVersion, meshDim]
  have hmagic : (fileHeader fv F).take 8 = magicBytes := by
    rw [hpre, List.append_assoc, List.take_left' (by simp [magicBytes, magic])]
  have h9 : ((fileHeader fv F).getD 9 0).toNat = 1 := by
    rw [hpre]; simp [magicBytes, magic, writerHeaderVersion]
  have h10 : ((fileHeader fv F).getD 10 0).toNat = meshDim := by
    rw [hpre]; simp [magicBytes, magic, meshDim]
  have h11 : ((fileHeader fv F).getD 11 0).toNat = F.topo := by
    rw [hpre]; simp [magicBytes, magic]; omega
  have hres : allZero (((fileHeader fv F).drop 12).take 4) = true := by
    rw [hpre]; simp [magicBytes, magic, allZero]
  have hc : ∀ i, i < 4 → fromLE (((fileHeader fv F).drop (16 + 8 * i)).take 8)
      = [F.pos.length, F.edges.length, F.faces.length, F.cells.length].getD i 0 := by
    have h16 : (magicBytes ++ [UInt8.ofNat (fv % 256), UInt8.ofNat writerHeaderVersion,
        UInt8.ofNat meshDim, UInt8.ofNat F.topo, 0, 0, 0, 0]).length = 16 := by simp [magicBytes, magic]
    simp only [maxHandleIdx] at hnV hnE hnF hnC
    intro i hi
    rw [hpre, ← List.drop_drop, List.drop_left' h16]
    have : i = 0 ∨ i = 1 ∨ i = 2 ∨ i = 3 := by omega
    rcases this with rfl | rfl | rfl | rfl
    · simp only [Nat.mul_zero, List.drop_zero]
      rw [List.take_left' (leN_length ..)]; exact fromLE_leN 8 _ (by omega)
    · rw [List.drop_left' (by simp), List.take_left' (leN_length ..)]; exact fromLE_leN 8 _ (by omega)
    · rw [← List.append_assoc, List.drop_left' (by simp), List.take_left' (leN_length ..)]
      exact fromLE_leN 8 _ (by omega)
    · rw [← List.append_assoc, ← List.append_assoc, List.drop_left' (by simp)]
      have : leN 8 F.cells.length = leN 8 F.cells.length ++ [] := by simp
      rw [this, List.take_left' (leN_length ..)]; exact fromLE_leN 8 _ (by omega)
  have hparsed : (decide (F.topo ∈ validTopoType) && allZero (((fileHeader fv F).drop 12).take 4)) = true := by
    simp [hres, hw.topo]
  have c0 := hc 0 (by omega); have c1 := hc 1 (by omega); have c2 := hc 2 (by omega); have c3 := hc 3 (by omega)
  simp only [Nat.mul_zero, Nat.add_zero, Nat.mul_one, List.getD_cons_zero, List.getD_cons_succ] at c0 c1 c2 c3
  have ht : ¬(cfg.kind = MeshKind.tet ∧ F.topo ≠ topoTypeTetrahedral) := fun ⟨a, b⟩ => b (htet a)
  have hh : ¬(cfg.kind = MeshKind.hex ∧ F.topo ≠ topoTypeHexahedral) := fun ⟨a, b⟩ => b (hhex a)
  have hmax : ¬(F.pos.length > maxHandleIdx ∨ F.edges.length > maxHandleIdx ∨ F.faces.length > maxHandleIdx
      ∨ F.cells.length > maxHandleIdx) := by omega
  simp only [hmagic, h9, h10, h11, ne_eq, not_true_eq_false, if_false, hparsed, if_true, c0, c1, c2, c3, ht, hh, hmax,
    Bool.not_true, Bool.false_eq_true]

theorem decodeStream_header (hw : WF F) (hacc : Accepts cfg F) (body : Bytes) :
    decodeStream cfg ⟨(writerHeader F ++ body).length, writerHeader F ++ body⟩
      = loop cfg (initState F.topo F.pos.length F.edges.length F.faces.length F.cells.length) ⟨body.length, body⟩ :=
  decodeStream_header_gen cfg F writerFileVersion hw hacc.tet hacc.hex body

/-- **C06, writer round trip**: what the writer produces for a well-formed file whose faces and cells the target
    mesh type accepts reads back as that file -/
theorem decode_encode (hwf : WFFile F = true) (hacc : Accepts cfg F) (hs : SizeOk F) :
    decode cfg (encode F) = .ok F := by
  have hw := WF.of F hwf
  unfold decode
  rw [encode_eq, decodeStream_header cfg F hw hacc, loop_chunks cfg _ (writerChunkDs_fits F hs), mkS_init,
    runChunks_writer cfg F hw hacc]
  exact finish_done F
end OVM.Ovmb

/-
  OVMB model, proofs: ingredients of the writer round trip (C06).

  * `WF F`: `WFFile F` as propositions.
  * `writerValMode_ok`: the writer's fixed / variable valence selection meets the TOPO reader's side conditions.
  * `growStor_blank_*`: `resize_*props` on storages that hold one default per entity.
  * `pc_*`: `read_chunk`'s type switch on the writer's chunks.
  * `mkS`: the reader state between the writer's chunks ("state after k chunks", explicit).
  Proof-only file (not imported by the judge).  Core only.
-/
import OVM.IO.Ovmb.RoundTripTrunc
namespace OVM.Ovmb
open OVM.Gen.Ovmb Dec


/-- `WFFile` as propositions -/
structure WF (F : File) : Prop where
  pos : ∀ p ∈ F.pos, p.length = meshDim ∧ ∀ x ∈ p, x < 2 ^ 64
  edges : ∀ e ∈ F.edges, e.1 < F.pos.length ∧ e.2 < F.pos.length
  faces : ∀ f ∈ F.faces, ∀ h ∈ f, h < 2 * F.edges.length
  cells : ∀ c ∈ F.cells, ∀ h ∈ c, h < 2 * F.faces.length
  props : ∀ p ∈ F.props, PropOk p ∧ p.vals.length = F.slots p.entity ∧ (∀ v ∈ p.vals, validVal p.codec v = true)
            ∧ p.vals.length < 2 ^ 32
  nV : F.pos.length ≤ maxHandleIdx
  nE : F.edges.length ≤ maxHandleIdx
  nF : F.faces.length ≤ maxHandleIdx
  nC : F.cells.length ≤ maxHandleIdx
  faceLen : ∀ f ∈ F.faces, 1 ≤ f.length ∧ f.length < 2 ^ 32
  cellLen : ∀ c ∈ F.cells, 1 ≤ c.length ∧ c.length < 2 ^ 32
  topo : F.topo ∈ validTopoType
  tet : F.topo = topoTypeTetrahedral → (∀ f ∈ F.faces, f.length = 3) ∧ (∀ c ∈ F.cells, c.length = 4)
  hex : F.topo = topoTypeHexahedral → (∀ f ∈ F.faces, f.length = 4) ∧ (∀ c ∈ F.cells, c.length = 6)
  nprops : F.props.length < 2 ^ 32
  nodup : (F.props.map PropData.key).Nodup

theorem WF.of (F : File) (h : WFFile F = true) : WF F := by
  simp only [WFFile, WFMesh, uniformValence, Bool.and_eq_true, Bool.or_eq_true, List.all_eq_true, decide_eq_true_eq,
    beq_iff_eq, bne_iff_ne, ne_eq] at h
  obtain ⟨⟨⟨⟨⟨⟨⟨⟨⟨⟨⟨⟨⟨⟨⟨⟨⟨⟨hpos, hedges⟩, hfaces⟩, hcells⟩, hprops⟩, hnV⟩, hnE⟩, hnF⟩, hnC⟩, _⟩, _⟩, hfl⟩, hcl⟩, htopo⟩, htet⟩, hhex⟩, hnp⟩,
    hpp⟩, hnd⟩ := h
  refine ⟨hpos, hedges, hfaces, hcells, ?_, hnV, hnE, hnF, hnC, hfl, hcl, htopo, ?_, ?_, hnp, hnd⟩
  · intro p hp
    obtain ⟨⟨⟨⟨a, b⟩, c⟩, d⟩, e⟩ := hprops p hp
    obtain ⟨⟨⟨f, g⟩, i⟩, j⟩ := hpp p hp
    exact ⟨⟨a, b, c, f, g, i⟩, d, e, j⟩
  · intro ht; rcases htet with h | h
    · exact absurd ht h
    · exact h
  · intro ht; rcases hhex with h | h
    · exact absurd ht h
    · exact h

/-! ### the writer's valence mode -/

theorem listMin_le {l : List Nat} {x : Nat} (h : x ∈ l) : listMin l ≤ x := by
  induction l with
  | nil => cases h
  | cons a t ih =>
    simp only [listMin]
    rcases List.mem_cons.mp h with rfl | h
    · omega
    · have := ih h; omega

theorem le_listMax {l : List Nat} {x : Nat} (h : x ∈ l) : x ≤ listMax l := by
  induction l with
  | nil => cases h
  | cons a t ih =>
    simp only [listMax]
    rcases List.mem_cons.mp h with rfl | h
    · omega
    · have := ih h; omega

theorem listMin_ge {l : List Nat} {b : Nat} (hb : b ≤ 2 ^ 32 - 1) (h : ∀ x ∈ l, b ≤ x) : b ≤ listMin l := by
  induction l with
  | nil => exact hb
  | cons a t ih =>
    simp only [listMin]
    have := h a (by simp)
    have := ih (fun x hx => h x (by simp [hx]))
    omega

theorem listMax_lt {l : List Nat} {b : Nat} (hb : 0 < b) (h : ∀ x ∈ l, x < b) : listMax l < b := by
  induction l with
  | nil => exact hb
  | cons a t ih =>
    simp only [listMax]
    have := h a (by simp)
    have := ih (fun x hx => h x (by simp [hx]))
    omega

theorem suitable_encOk (n : Nat) : encOk (suitableIntEncoding n) = true := by
  unfold suitableIntEncoding
  split
  · decide
  · split <;> decide

/-- the writer's valence mode satisfies the side conditions of the TOPO chunk reader -/
theorem writerValMode_ok (ls : List (List Nat)) (_hne : ls ≠ []) (hlen : ∀ l ∈ ls, 1 ≤ l.length ∧ l.length < 2 ^ 32) :
    let m := writerValMode (ls.map List.length)
    (m.1 ≠ 0 ∧ m.2 = intEncodingNone ∧ m.1 < 256 ∧ (∀ l ∈ ls, l.length = m.1))
    ∨ (m.1 = 0 ∧ encOk m.2 = true ∧ ∀ l ∈ ls, l.length < 256 ^ elemSizeInt m.2) := by
  intro m
  have hm : m = writerValMode (ls.map List.length) := rfl
  unfold writerValMode at hm
  simp only at hm
  have hmem : ∀ l ∈ ls, l.length ∈ ls.map List.length := fun l hl => List.mem_map.mpr ⟨l, hl, rfl⟩
  split at hm
  · rename_i hc
    simp only [Bool.and_eq_true, beq_iff_eq, decide_eq_true_eq] at hc
    left
    have h1 : 1 ≤ listMin (ls.map List.length) := listMin_ge (by omega) (by
      intro x hx; obtain ⟨l, hl, rfl⟩ := List.mem_map.mp hx; exact (hlen l hl).1)
    rw [hm]
    refine ⟨by simp only; omega, rfl, by simp only; omega, ?_⟩
    intro l hl
    have a := listMin_le (hmem l hl)
    have b := le_listMax (hmem l hl)
    simp only; omega
  · right
    rw [hm]
    refine ⟨rfl, suitable_encOk _, ?_⟩
    intro l hl
    have hmx : listMax (ls.map List.length) < 2 ^ 32 := listMax_lt (by omega) (by
      intro x hx; obtain ⟨l, hl, rfl⟩ := List.mem_map.mp hx; exact (hlen l hl).2)
    exact suitable_fits hmx (le_listMax (hmem l hl))

/-- uniform valence `v ≤ 255`: the writer selects the fixed mode with that valence -/
theorem writerValMode_uniform (ls : List (List Nat)) (hne : ls ≠ []) (v : Nat) (hv : v ≤ 255)
    (h : ∀ l ∈ ls, l.length = v) : (writerValMode (ls.map List.length)).1 = v := by
  have hmem : ∀ l ∈ ls, l.length ∈ ls.map List.length := fun l hl => List.mem_map.mpr ⟨l, hl, rfl⟩
  obtain ⟨l0, hl0⟩ := List.exists_mem_of_ne_nil ls hne
  have a := listMin_le (hmem l0 hl0)
  have b := le_listMax (hmem l0 hl0)
  rw [h l0 hl0] at a b
  have c : v ≤ listMin (ls.map List.length) := listMin_ge (by omega) (by
    intro x hx; obtain ⟨l, hl, rfl⟩ := List.mem_map.mp hx; exact Nat.le_of_eq (h l hl).symm)
  have d : listMax (ls.map List.length) < v + 1 := listMax_lt (by omega) (by
    intro x hx; obtain ⟨l, hl, rfl⟩ := List.mem_map.mp hx; rw [h l hl]; omega)
  have e1 : listMin (ls.map List.length) = v := by omega
  have e2 : listMax (ls.map List.length) = v := by omega
  simp [writerValMode, e1, e2, hv]


theorem growStor_blank_edges (ps : List PropData) (nV nE nF nC k : Nat) :
    growStor (growStor (ps.map (blankC nV nE nF nC)) propertyEntityEdge k) propertyEntityHalfEdge (2 * k)
      = ps.map (blankC nV (nE + k) nF nC) := by
  simp only [growStor, List.map_map]
  apply List.map_congr_left
  intro p _
  simp only [Function.comp, blankC, slotCount, propertyEntityVertex, propertyEntityEdge, propertyEntityFace,
    propertyEntityCell, propertyEntityHalfEdge, propertyEntityHalfFace]
  by_cases h1 : p.entity = 1
  · simp [h1, List.replicate_append_replicate]
  · by_cases h4 : p.entity = 4
    · simp [h4, List.replicate_append_replicate, Nat.mul_add]
    · simp [h1, h4]

theorem growStor_blank_faces (ps : List PropData) (nV nE nF nC k : Nat) :
    growStor (growStor (ps.map (blankC nV nE nF nC)) propertyEntityFace k) propertyEntityHalfFace (2 * k)
      = ps.map (blankC nV nE (nF + k) nC) := by
  simp only [growStor, List.map_map]
  apply List.map_congr_left
  intro p _
  simp only [Function.comp, blankC, slotCount, propertyEntityVertex, propertyEntityEdge, propertyEntityFace,
    propertyEntityCell, propertyEntityHalfEdge, propertyEntityHalfFace]
  by_cases h2 : p.entity = 2
  · simp [h2, List.replicate_append_replicate]
  · by_cases h5 : p.entity = 5
    · simp [h5, List.replicate_append_replicate, Nat.mul_add]
    · simp [h2, h5]

theorem growStor_blank_cells (ps : List PropData) (nV nE nF nC k : Nat) :
    growStor (ps.map (blankC nV nE nF nC)) propertyEntityCell k = ps.map (blankC nV nE nF (nC + k)) := by
  simp only [growStor, List.map_map]
  apply List.map_congr_left
  intro p _
  simp only [Function.comp, blankC, slotCount, propertyEntityVertex, propertyEntityEdge, propertyEntityFace,
    propertyEntityCell, propertyEntityHalfEdge, propertyEntityHalfFace]
  by_cases h3 : p.entity = 3
  · simp [h3, List.replicate_append_replicate]
  · simp [h3]

/-! ### `read_chunk`'s dispatch on the writer's chunk types -/

theorem pc_dirp (cfg : Cfg) (s : RState) (p : Bytes) : processChunk cfg s (wc ccDIRP p).hdr p = applyDirp s p := by
  simp [processChunk, dispatch, wc, ChunkD.hdr, ccDIRP, ccEOF]
theorem pc_vert (cfg : Cfg) (s : RState) (p : Bytes) : processChunk cfg s (wc ccVERT p).hdr p = applyVert s p := by
  simp [processChunk, dispatch, wc, ChunkD.hdr, ccDIRP, ccEOF, ccVERT, ccPROP]
theorem pc_topo (cfg : Cfg) (s : RState) (p : Bytes) : processChunk cfg s (wc ccTOPO p).hdr p = applyTopo cfg s p := by
  simp [processChunk, dispatch, wc, ChunkD.hdr, ccDIRP, ccEOF, ccVERT, ccPROP, ccTOPO]
theorem pc_prop (cfg : Cfg) (s : RState) (p : Bytes) : processChunk cfg s (wc ccPROP p).hdr p = applyProp s p := by
  simp [processChunk, dispatch, wc, ChunkD.hdr, ccDIRP, ccEOF, ccPROP]
theorem pc_eof (cfg : Cfg) (s : RState) (h : s.eof = false) :
    processChunk cfg s (wc ccEOF []).hdr [] = .ok { s with eof := true } := by
  simp [processChunk, dispatch, wc, ChunkD.hdr, h, R_pure]

theorem runChunks_one (cfg : Cfg) (s s' : RState) (c : ChunkD) (h : processChunk cfg s c.hdr c.payload = .ok s') :
    runChunks cfg s [c] = .ok s' := by simp [runChunks, h]

/-! ### the reader states between the writer's chunks -/

/-- a storage holding the property's values -/
def full (p : PropData) : Storage := ⟨p.entity, p.name, p.codec, p.dflt, p.vals⟩

/-- the reader state while reading `encode F`: directory read?, vertices read?, the edges / faces / cells read so
    far, number of properties whose values have been read, EOF chunk seen? -/
def mkS (F : File) (dirp vert : Bool) (es : List (Nat × Nat)) (fs cs : List (List Nat)) (k : Nat) (eof : Bool) : RState :=
  { topo := F.topo, nV := F.pos.length, nE := F.edges.length, nF := F.faces.length, nC := F.cells.length,
    nVr := if vert then F.pos.length else 0,
    pos := if vert then F.pos else List.replicate F.pos.length (List.replicate meshDim 0),
    edges := es, faces := fs, cells := cs,
    stor := if dirp then (F.props.take k).map full ++ (F.props.drop k).map (blankC F.pos.length es.length fs.length cs.length)
            else [],
    dir := if dirp then (List.range F.props.length).map some else [],
    eof := eof }

theorem mkS_init (F : File) :
    initState F.topo F.pos.length F.edges.length F.faces.length F.cells.length = mkS F false false [] [] [] 0 false := rfl

end OVM.Ovmb

/-
  OVMB model, proofs: the round trip for every permitted encoding (C06) and its truncation (C18).

  * `decode_encodeWith`: `ValidLayout L F → WFFile F → decode cfg (encodeWith L F) = .ok F` for a polyhedral target
    without topology check — chunks split into spans, any sufficient integer width, any handle offset, fixed or
    variable valence, float vertices when exact, skippable chunks, any padding ≤ 255, any file version, any chunk
    order the cursor conditions allow.  Extra hypothesis: the file is shorter than 2^64 bytes.
  * `decode_encodeWith_adm`: the same for any target that accepts every face / cell span where it is read (`AdmAll`);
    `decode_encodeWith_ordered`: in particular for every accepting target (`Accepts`: tet / hex mesh types, topology
    check) when the layout writes faces after all edges and cells after all faces (`topoOrdered`).
  * `encodeWith_prefix_rejected`: no strict prefix of a valid layout's bytes reads Ok, for every configuration.
  Proof-only file (not imported by the judge).  Core only.
-/
import OVM.IO.Ovmb.RoundTripLayout
namespace OVM.Ovmb
open OVM.Gen.Ovmb Dec

variable (cfg : Cfg) (F : File)

def Spec.isEof : Spec → Bool
  | .eof => true
  | _ => false

/-- the target mesh accepts the faces / cells of this piece as written, given the edges / faces read so far -/
def Adm (cur : Cur) (pc : Piece) : Prop :=
  match pc.spec with
  | .faces count _ _ _ _ => addFaces cfg (F.edges.take cur.e) (slice F.faces cur.f count) = .ok true
  | .cells count _ _ _ _ => addCells cfg (F.edges.take cur.e) (F.faces.take cur.f) (slice F.cells cur.c count)
      = .ok (some (slice F.cells cur.c count))
  | _ => True

/-- `Adm` for every piece of a list, at the cursor the encoder has there -/
def AdmAll : Cur → List Piece → Prop
  | _, [] => True
  | cur, pc :: rest => Adm cfg F cur pc ∧ AdmAll (curAfter F cur pc) rest

/-- one admissible non-EOF piece of a layout: the reader follows the encoder's cursor -/
theorem lstep (hw : WF F)
    (cur : Cur) (hcur : CurOk F cur) (pc : Piece) (hne : pc.spec.isEof = false)
    (hok : pieceOk F cur pc = true) (hadm : Adm cfg F cur pc) :
    processChunk cfg (stOf F cur) (chunkOf F cur pc).hdr (chunkOf F cur pc).payload = .ok (stOf F (curAfter F cur pc))
      ∧ CurOk F (curAfter F cur pc) := by
  cases hs : pc.spec with
  | dirp => exact lstep_dirp cfg F hw cur hcur pc hs hok
  | vert count enc => exact lstep_vert cfg F hw cur hcur pc count enc hs hok
  | edges count hEnc off => exact lstep_edges cfg F hw cur hcur pc count hEnc off hs hok
  | faces count fixed valEnc hEnc off => exact lstep_faces cfg F hw cur hcur pc count fixed valEnc hEnc off hs hok (by simpa [Adm, hs] using hadm)
  | cells count fixed valEnc hEnc off => exact lstep_cells cfg F hw cur hcur pc count fixed valEnc hEnc off hs hok (by simpa [Adm, hs] using hadm)
  | prop idx count => exact lstep_prop cfg F hw cur hcur pc idx count hs hok
  | skip ty version flags payload => exact lstep_skip cfg F cur hcur pc ty version flags payload hs hok
  | eof => rw [hs] at hne; cases hne

theorem chunkOf_fits (cur : Cur) (pc : Piece) (hok : pieceOk F cur pc = true)
    (hlen : (chunkOf F cur pc).bytes.length < 2 ^ 64) : (chunkOf F cur pc).Fits := by
  rw [ChunkD.bytes_length] at hlen
  have hpad : (chunkOf F cur pc).pad < 256 := by
    have h1 : (match pc.pad with | none => true | some p => decide (p ≤ 255)) = true := by
      simp only [pieceOk, Bool.and_eq_true] at hok; exact hok.1
    have : (chunkOf F cur pc).pad = pc.pad.getD (padTo8 (pieceBody F cur pc.spec).2.1.length) := by
      unfold chunkOf; cases pc.spec <;> rfl
    rw [this]
    cases hp : pc.pad with
    | none => have := padTo8_lt (pieceBody F cur pc.spec).2.1.length; simp; omega
    | some p => rw [hp] at h1; simp at h1 ⊢; omega
  have hcomp : (chunkOf F cur pc).compression = 0 := by unfold chunkOf; cases pc.spec <;> rfl
  have hrest : (chunkOf F cur pc).ty < 2 ^ 32 ∧ (chunkOf F cur pc).version < 256 ∧
      (chunkOf F cur pc).flags ∈ validChunkFlags := by
    have hfl : ∀ n : Nat, n ≤ 1 → n ∈ validChunkFlags := by
      intro n hn; have : n = 0 ∨ n = 1 := by omega
      rcases this with rfl | rfl <;> decide
    cases hs : pc.spec with
    | skip ty version flags payload =>
      simp only [pieceOk, hs, Bool.and_eq_true, decide_eq_true_eq] at hok
      simp only [chunkOf, hs, pieceBody]
      exact ⟨hok.2.1.1.2, hok.2.1.2, hfl _ hok.2.1.1.1.1⟩
    | dirp =>
      simp only [pieceOk, hs, Bool.and_eq_true, decide_eq_true_eq] at hok
      simp only [chunkOf, hs, pieceBody]; exact ⟨by decide, by decide, hfl _ hok.2.2⟩
    | vert count enc =>
      simp only [pieceOk, hs, Bool.and_eq_true, decide_eq_true_eq] at hok
      simp only [chunkOf, hs, pieceBody]; exact ⟨by decide, by decide, hfl _ hok.2.1.2⟩
    | edges count hEnc off =>
      simp only [pieceOk, hs, Bool.and_eq_true, decide_eq_true_eq] at hok
      simp only [chunkOf, hs, pieceBody]; exact ⟨by decide, by decide, hfl _ hok.2.1.2⟩
    | faces count fixed valEnc hEnc off =>
      simp only [pieceOk, hs, Bool.and_eq_true, decide_eq_true_eq] at hok
      simp only [chunkOf, hs, pieceBody]; exact ⟨by decide, by decide, hfl _ hok.2.1.1.2⟩
    | cells count fixed valEnc hEnc off =>
      simp only [pieceOk, hs, Bool.and_eq_true, decide_eq_true_eq] at hok
      simp only [chunkOf, hs, pieceBody]; exact ⟨by decide, by decide, hfl _ hok.2.1.1.2⟩
    | prop idx count =>
      simp only [pieceOk, hs, Bool.and_eq_true, decide_eq_true_eq] at hok
      simp only [chunkOf, hs, pieceBody]; exact ⟨by decide, by decide, hfl _ hok.2.1.2⟩
    | eof =>
      simp only [pieceOk, hs, Bool.and_eq_true, decide_eq_true_eq] at hok
      simp only [chunkOf, hs, pieceBody]; exact ⟨by decide, by decide, hfl _ hok.2⟩
  exact ⟨hrest.1, hrest.2.1, hpad, by rw [hcomp]; decide, hrest.2.2, by omega⟩

/-- `piecesOk` unfolded: a valid piece list is a non-EOF admissible piece followed by a valid list, or the final
    EOF piece with everything covered -/
theorem piecesOk_cons (cur : Cur) (pc : Piece) (rest : List Piece) (h : piecesOk F cur (pc :: rest) = true) :
    pieceOk F cur pc = true ∧
    ((rest = [] ∧ pc.spec.isEof = true ∧ cur.v = F.pos.length ∧ cur.e = F.edges.length ∧ cur.f = F.faces.length
        ∧ cur.c = F.cells.length ∧ (F.props.isEmpty = true ∨ (cur.dirp = true ∧ cur.p = F.props.map (·.vals.length))))
     ∨ (rest ≠ [] ∧ pc.spec.isEof = false ∧ piecesOk F (curAfter F cur pc) rest = true)) := by
  cases rest with
  | nil =>
    simp only [piecesOk, Bool.and_eq_true, beq_iff_eq] at h
    obtain ⟨⟨⟨⟨⟨⟨he, hok⟩, hv⟩, hE⟩, hF⟩, hC⟩, hp⟩ := h
    refine ⟨hok, Or.inl ⟨rfl, ?_, hv, hE, hF, hC, ?_⟩⟩
    · cases hs : pc.spec <;> simp [hs] at he ⊢ <;> rfl
    · by_cases hpe : F.props.isEmpty = true
      · exact Or.inl hpe
      · simp only [hpe, if_false, Bool.and_eq_true, beq_iff_eq, Bool.false_eq_true] at hp
        exact Or.inr hp
  | cons pc' rest' =>
    simp only [piecesOk, Bool.and_eq_true] at h
    obtain ⟨⟨he, hok⟩, hrest⟩ := h
    refine ⟨hok, Or.inr ⟨by simp, ?_, hrest⟩⟩
    cases hs : pc.spec <;> simp [hs] at he ⊢ <;> rfl

theorem chunksOf_fits : ∀ (ps : List Piece) (cur : Cur), piecesOk F cur ps = true →
    ((chunksOf F cur ps).map ChunkD.bytes).flatten.length < 2 ^ 64 → ∀ c ∈ chunksOf F cur ps, c.Fits := by
  intro ps
  induction ps with
  | nil => intro cur h; simp [piecesOk] at h
  | cons pc rest ih =>
    intro cur h hlen c hc
    obtain ⟨hok, hcase⟩ := piecesOk_cons F cur pc rest h
    simp only [chunksOf, List.map_cons, List.flatten_cons, List.length_append] at hlen
    rcases List.mem_cons.mp hc with rfl | hc
    · exact chunkOf_fits F cur pc hok (by omega)
    · rcases hcase with ⟨rfl, _⟩ | ⟨_, _, hrest⟩
      · cases hc
      · exact ih _ hrest (by omega) c hc

theorem finish_layout (hw : WF F) (cur : Cur) (hv : cur.v = F.pos.length) (he : cur.e = F.edges.length)
    (hf : cur.f = F.faces.length) (hc : cur.c = F.cells.length)
    (hp : F.props.isEmpty = true ∨ (cur.dirp = true ∧ cur.p = F.props.map (·.vals.length))) :
    finish { stOf F cur with eof := true } = .ok F := by
  have hstor : (if cur.dirp then storAt F cur else []).map
      (fun x => (⟨x.entity, x.name, x.codec, x.dflt, x.vals⟩ : PropData)) = F.props := by
    rcases hp with hp | ⟨hd, hpp⟩
    · have : F.props = [] := List.isEmpty_iff.mp hp
      cases cur.dirp <;> simp [storAt, this]
    · rw [hd]
      simp only [if_true, storAt, List.map_map]
      conv => rhs; rw [← List.map_id F.props, map_eq_range F.props]
      apply map_range_congr
      intro i hi
      have hpi := getD_props F hi
      have hmem : F.props.getD i default ∈ F.props := List.mem_of_getElem? hpi
      obtain ⟨_, hlen, _, _⟩ := hw.props _ hmem
      have hk : cur.p.getD i 0 = (F.props.getD i default).vals.length := by
        rw [hpp]; simp [List.getD_eq_getElem?_getD, hi]
      simp only [Function.comp, partStor, hk, List.take_length, he, hf, hc, id]
      have : slotCount (F.props.getD i default).entity F.pos.length F.edges.length F.faces.length F.cells.length
          - (F.props.getD i default).vals.length = 0 := by
        rw [hlen]; simp [File.slots]
      rw [this]; simp
  simp only [finish, stOf, Bool.not_true, Bool.false_eq_true, if_false, hv, he, hf, hc, List.take_length,
    Nat.sub_self, List.replicate_zero, List.append_nil, ne_eq, not_true_eq_false, or_self, R_pure, hstor]

/-- the payload readers follow the permissive encoder through a whole valid piece list -/
theorem layout_run (hw : WF F) :
    ∀ (ps : List Piece) (cur : Cur), CurOk F cur → piecesOk F cur ps = true → AdmAll cfg F cur ps →
    ∃ s', runChunks cfg (stOf F cur) (chunksOf F cur ps) = .ok s' ∧ finish s' = .ok F := by
  intro ps
  induction ps with
  | nil => intro cur _ h; simp [piecesOk] at h
  | cons pc rest ih =>
    intro cur hcur h hadm
    obtain ⟨hok, hcase⟩ := piecesOk_cons F cur pc rest h
    rcases hcase with ⟨rfl, heof, hv, he, hf, hc, hp⟩ | ⟨_, hne, hrest⟩
    · -- the final EOF chunk
      refine ⟨{ stOf F cur with eof := true }, ?_, finish_layout F hw cur hv he hf hc hp⟩
      have hs : pc.spec = .eof := by cases h' : pc.spec <;> simp [h', Spec.isEof] at heof ⊢
      have hcv : (chunkOf F cur pc).hdr.version = 0 ∧ (chunkOf F cur pc).hdr.ty = ccEOF ∧
          (chunkOf F cur pc).payload = [] := by simp [chunkOf, pieceBody, hs, ChunkD.hdr]
      simp only [chunksOf, runChunks]
      rw [processChunk_v0 _ _ _ _ hcv.1, hcv.2.2]
      simp [dispatch, hcv.2.1, stOf, R_pure]
    · obtain ⟨hstep, hcur'⟩ := lstep cfg F hw cur hcur pc hne hok hadm.1
      obtain ⟨s', hrun, hfin⟩ := ih _ hcur' hrest hadm.2
      exact ⟨s', by simp only [chunksOf, runChunks, hstep]; exact hrun, hfin⟩

/-- **C06, every permitted encoding, any target**: a valid layout of a well-formed file reads back as that file
    whenever the target mesh type can hold the file's topology type and accepts every face / cell span at the point
    where it is read (`AdmAll`) -/
theorem decode_encodeWith_adm (L : Layout) (hwf : WFFile F = true) (hval : ValidLayout L F = true)
    (hsize : (encodeWith L F).length < 2 ^ 64) (htet : cfg.kind = .tet → F.topo = topoTypeTetrahedral)
    (hhex : cfg.kind = .hex → F.topo = topoTypeHexahedral) (hadm : AdmAll cfg F {} L.pieces) :
    decode cfg (encodeWith L F) = .ok F := by
  have hw := WF.of F hwf
  simp only [ValidLayout, Bool.and_eq_true, decide_eq_true_eq] at hval
  have henc : encodeWith L F = fileHeader L.fileVersion F ++ ((chunksOf F {} L.pieces).map ChunkD.bytes).flatten := by
    simp only [encodeWith, fileHeader, encodePieces_eq]
  have hfit := chunksOf_fits F L.pieces {} hval.2 (by
    rw [henc, List.length_append] at hsize; omega)
  obtain ⟨s', hrun, hfin⟩ := layout_run cfg F hw L.pieces {} (curOk_init F) hval.2 hadm
  unfold decode
  rw [henc, decodeStream_header_gen cfg F L.fileVersion hw htet hhex, loop_chunks cfg _ hfit, stOf_init, hrun]
  exact hfin

theorem admAll_poly (hk : cfg.kind = .poly) (ht : cfg.topoCheck = false) : ∀ (ps : List Piece) (cur : Cur),
    AdmAll cfg F cur ps := by
  intro ps
  induction ps with
  | nil => intro _; trivial
  | cons pc rest ih =>
    intro cur
    refine ⟨?_, ih _⟩
    unfold Adm
    cases pc.spec <;> simp only
    · exact addFaces_poly cfg hk ht _ _
    · exact addCells_poly cfg hk ht _ _ _

/-- **C06, every permitted encoding**: a valid layout of a well-formed file reads back as that file (polyhedral
    target without topology check) -/
theorem decode_encodeWith (hk : cfg.kind = .poly) (ht : cfg.topoCheck = false) (L : Layout)
    (hwf : WFFile F = true) (hval : ValidLayout L F = true) (hsize : (encodeWith L F).length < 2 ^ 64) :
    decode cfg (encodeWith L F) = .ok F :=
  decode_encodeWith_adm cfg F L hwf hval hsize (by simp [hk]) (by simp [hk]) (admAll_poly cfg F hk ht _ _)

/-- topology in dependency order: every face span is written after all edges, every cell span after all edges and
    faces (spans of one kind may still be split, and vertices, properties and skippable chunks go anywhere) -/
def topoOrdered : Cur → List Piece → Bool
  | _, [] => true
  | cur, pc :: rest =>
    (match pc.spec with
     | .faces _ _ _ _ _ => cur.e == F.edges.length
     | .cells _ _ _ _ _ => cur.e == F.edges.length && cur.f == F.faces.length
     | _ => true) && topoOrdered (curAfter F cur pc) rest

theorem mem_slice' {α} {l : List α} {a b : Nat} {x : α} (h : x ∈ slice l a b) : x ∈ l :=
  List.mem_of_mem_drop (List.mem_of_mem_take h)

theorem admAll_ordered (hacc : Accepts cfg F) : ∀ (ps : List Piece) (cur : Cur), topoOrdered F cur ps = true →
    AdmAll cfg F cur ps := by
  intro ps
  induction ps with
  | nil => intro _ _; trivial
  | cons pc rest ih =>
    intro cur h
    simp only [topoOrdered, Bool.and_eq_true] at h
    refine ⟨?_, ih _ h.2⟩
    unfold Adm
    cases hs : pc.spec <;> simp only
    · have he : cur.e = F.edges.length := by simpa [hs] using h.1
      rw [he, List.take_length]
      exact addFaces_all cfg F.edges _ (fun f hf => hacc.faces f (mem_slice' hf))
    · have he : cur.e = F.edges.length ∧ cur.f = F.faces.length := by simpa [hs] using h.1
      rw [he.1, he.2, List.take_length, List.take_length]
      exact addCells_all cfg F.edges F.faces _ (fun c hc => hacc.cells c (mem_slice' hc))

/-- **C06, permitted encodings into any accepting target** (tetrahedral / hexahedral mesh types, topology check
    on): a valid layout that writes its topology in dependency order reads back as the file for every reading
    configuration that accepts the file's faces and cells as written -/
theorem decode_encodeWith_ordered (L : Layout) (hwf : WFFile F = true) (hval : ValidLayout L F = true)
    (hsize : (encodeWith L F).length < 2 ^ 64) (hacc : Accepts cfg F) (hord : topoOrdered F {} L.pieces = true) :
    decode cfg (encodeWith L F) = .ok F :=
  decode_encodeWith_adm cfg F L hwf hval hsize hacc.tet hacc.hex (admAll_ordered cfg F hacc _ _ hord)

/-! ### truncation of any permitted encoding (C18) -/

theorem chunkOf_notEof (cur : Cur) (pc : Piece) (hok : pieceOk F cur pc = true) (hne : pc.spec.isEof = false) :
    (chunkOf F cur pc).notEof := by
  intro ⟨hty, hver⟩
  cases hs : pc.spec with
  | skip ty version flags payload =>
    simp only [pieceOk, hs, Bool.and_eq_true, decide_eq_true_eq, Bool.or_eq_true, bne_iff_ne, ne_eq,
      Bool.not_eq_true'] at hok
    simp only [chunkOf, hs, pieceBody] at hty hver
    rcases hok.2.2 with h | h
    · exact h hver
    · rw [hty] at h; revert h; decide
  | eof => rw [hs] at hne; cases hne
  | dirp => simp only [chunkOf, hs, pieceBody] at hty; revert hty; decide
  | vert count enc => simp only [chunkOf, hs, pieceBody] at hty; revert hty; decide
  | edges count hEnc off => simp only [chunkOf, hs, pieceBody] at hty; revert hty; decide
  | faces count fixed valEnc hEnc off => simp only [chunkOf, hs, pieceBody] at hty; revert hty; decide
  | cells count fixed valEnc hEnc off => simp only [chunkOf, hs, pieceBody] at hty; revert hty; decide
  | prop idx count => simp only [chunkOf, hs, pieceBody] at hty; revert hty; decide

theorem chunksOf_notEof : ∀ (ps : List Piece) (cur : Cur), piecesOk F cur ps = true →
    ∀ c ∈ (chunksOf F cur ps).dropLast, c.notEof := by
  intro ps
  induction ps with
  | nil => intro cur h; simp [piecesOk] at h
  | cons pc rest ih =>
    intro cur h c hc
    obtain ⟨hok, hcase⟩ := piecesOk_cons F cur pc rest h
    rcases hcase with ⟨rfl, _⟩ | ⟨hrne, hne, hrest⟩
    · simp [chunksOf] at hc
    · cases rest with
      | nil => exact absurd rfl hrne
      | cons pc' rest' =>
        simp only [chunksOf, List.dropLast_cons_cons, List.mem_cons] at hc
        rcases hc with rfl | hc
        · exact chunkOf_notEof F cur pc hok hne
        · exact ih _ hrest c (by simpa [chunksOf] using hc)

/-- **C18 for every permitted encoding**: no strict prefix of a valid layout's bytes is read successfully, and no
    stream that stops delivering them early — for every reader configuration -/
theorem encodeWith_prefix_rejected (L : Layout) (hval : ValidLayout L F = true)
    (hsize : (encodeWith L F).length < 2 ^ 64) (p : Nat) (hp : p < (encodeWith L F).length) (F' : File) :
    decode cfg ((encodeWith L F).take p) ≠ .ok F' ∧ decodeFaulty cfg (encodeWith L F) p ≠ .ok F' := by
  simp only [ValidLayout, Bool.and_eq_true, decide_eq_true_eq] at hval
  have henc : encodeWith L F = fileHeader L.fileVersion F ++ ((chunksOf F {} L.pieces).map ChunkD.bytes).flatten := by
    simp only [encodeWith, fileHeader, encodePieces_eq]
  have hfit := chunksOf_fits F L.pieces {} hval.2 (by
    rw [henc, List.length_append] at hsize; omega)
  exact framed_prefix_rejected cfg _ _ _ henc (encFileHeader_length ..) hfit (chunksOf_notEof F L.pieces {} hval.2) p hp F'
end OVM.Ovmb

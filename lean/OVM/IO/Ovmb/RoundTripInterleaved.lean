/-
  OVMB model, proofs: every permitted encoding into every accepting target, without an ordering condition on the
  layout (C06, the last clause: layouts that interleave edge, face and cell spans).

  * A valid layout can only write a face span whose halfedges designate edges of *earlier* edge spans, and a cell
    span whose halffaces designate faces of earlier face spans (`pieceOk`: handles below `2 * cur.e` / `2 * cur.f`
    — the reader range-checks handles against the entities read so far, not against the header counts).  Hence
    along a valid layout every face read so far uses only edges read so far (`FClosed`, `fClosed_step`).
  * `add_face` / `add_cell` are local (RoundTripLocal.lean), so what `Accepts` says about the complete edge / face
    lists holds on the prefixes the reader has when it meets the span: `adm_of_accepts`, `admAll_of_accepts`.
  * `decode_encodeWith_any`: `WFFile F → ValidLayout L F → Accepts cfg F → decode cfg (encodeWith L F) = .ok F`.
    For a hexahedral target read with topology check the ordering oracle has to be local (`HexLocal`;
    RoundTripHexStd.lean proves it for the judge's `hexOrderStd`).
  Proof-only file (not imported by the judge).  Core only.
-/
import OVM.IO.Ovmb.RoundTripPermitted
import OVM.IO.Ovmb.RoundTripLocal
namespace OVM.Ovmb
open OVM.Gen.Ovmb Dec

variable (cfg : Cfg) (F : File)

/-- every face covered so far uses only halfedges of edges covered so far -/
def FClosed (cur : Cur) : Prop := ∀ f ∈ F.faces.take cur.f, ∀ he ∈ f, he < 2 * cur.e

theorem fClosed_init : FClosed F {} := by
  intro f hf
  have : F.faces.take ({} : Cur).f = [] := List.take_zero
  rw [this] at hf; cases hf

theorem fClosed_of_eq {cur cur' : Cur} (he : cur'.e = cur.e) (hf : cur'.f = cur.f) (h : FClosed F cur) :
    FClosed F cur' := by
  unfold FClosed; rw [he, hf]; exact h

/-- a valid piece keeps `FClosed`: an edge span only raises the bound, a face span brings faces whose handles the
    layout condition `handlesOk … (2 * cur.e)` bounds by the edges covered at that point -/
theorem fClosed_step (cur : Cur) (pc : Piece) (hok : pieceOk F cur pc = true) (h : FClosed F cur) :
    FClosed F (curAfter F cur pc) := by
  cases hs : pc.spec with
  | faces count fixed valEnc hEnc off =>
    have hcur' : curAfter F cur pc = { cur with f := cur.f + count } := by
      simp [curAfter, pieceBytes, pieceBody, hs]
    simp only [pieceOk, hs, Bool.and_eq_true, decide_eq_true_eq] at hok
    obtain ⟨_, ⟨_, hh⟩⟩ := hok
    obtain ⟨_, _, hhand⟩ := handlesOk_elim hh
    rw [hcur']
    intro f hf he hhe
    have hf' : f ∈ F.faces.take cur.f ++ slice F.faces cur.f count := by rw [take_add_slice]; exact hf
    rcases List.mem_append.mp hf' with hf' | hf'
    · exact h f hf' he hhe
    · exact (hhand he (List.mem_flatten.mpr ⟨f, hf', hhe⟩)).2.2
  | edges count hEnc off =>
    have hcur' : curAfter F cur pc = { cur with e := cur.e + count } := by
      simp [curAfter, pieceBytes, pieceBody, hs]
    rw [hcur']
    intro f hf he hhe
    have := h f hf he hhe
    show he < 2 * (cur.e + count)
    omega
  | dirp => exact fClosed_of_eq F (by simp [curAfter, pieceBytes, pieceBody, hs]) (by simp [curAfter, pieceBytes, pieceBody, hs]) h
  | vert count enc => exact fClosed_of_eq F (by simp [curAfter, pieceBytes, pieceBody, hs]) (by simp [curAfter, pieceBytes, pieceBody, hs]) h
  | cells count fixed valEnc hEnc off => exact fClosed_of_eq F (by simp [curAfter, pieceBytes, pieceBody, hs]) (by simp [curAfter, pieceBytes, pieceBody, hs]) h
  | prop idx count => exact fClosed_of_eq F (by simp [curAfter, pieceBytes, pieceBody, hs]) (by simp [curAfter, pieceBytes, pieceBody, hs]) h
  | skip ty version flags payload => exact fClosed_of_eq F (by simp [curAfter, pieceBytes, pieceBody, hs]) (by simp [curAfter, pieceBytes, pieceBody, hs]) h
  | eof => exact fClosed_of_eq F (by simp [curAfter, pieceBytes, pieceBody, hs]) (by simp [curAfter, pieceBytes, pieceBody, hs]) h

/-- acceptance of the complete file gives acceptance of a valid span at the point where the reader meets it -/
theorem adm_of_accepts (hacc : Accepts cfg F) (hloc : cfg.kind = .hex → cfg.topoCheck = true → HexLocal cfg)
    (cur : Cur) (pc : Piece) (hok : pieceOk F cur pc = true) (hcl : FClosed F cur) : Adm cfg F cur pc := by
  unfold Adm
  cases hs : pc.spec <;> simp only
  · simp only [pieceOk, hs, Bool.and_eq_true, decide_eq_true_eq] at hok
    obtain ⟨_, ⟨_, hh⟩⟩ := hok
    obtain ⟨_, _, hhand⟩ := handlesOk_elim hh
    apply addFaces_all
    intro f hf
    rw [addFace_take cfg F.edges cur.e (fun he hhe => (hhand he (List.mem_flatten.mpr ⟨f, hf, hhe⟩)).2.2)]
    exact hacc.faces f (mem_slice' hf)
  · simp only [pieceOk, hs, Bool.and_eq_true, decide_eq_true_eq] at hok
    obtain ⟨_, ⟨_, hh⟩⟩ := hok
    obtain ⟨_, _, hhand⟩ := handlesOk_elim hh
    apply addCells_all
    intro c hc
    exact addCell_take cfg hloc F.edges F.faces cur.e cur.f
      (fun hf hhf => (hhand hf (List.mem_flatten.mpr ⟨c, hc, hhf⟩)).2.2) hcl (hacc.cells c (mem_slice' hc))

/-- `AdmAll` along every valid piece list, from `Accepts` -/
theorem admAll_of_accepts (hacc : Accepts cfg F) (hloc : cfg.kind = .hex → cfg.topoCheck = true → HexLocal cfg) :
    ∀ (ps : List Piece) (cur : Cur), piecesOk F cur ps = true → FClosed F cur → AdmAll cfg F cur ps := by
  intro ps
  induction ps with
  | nil => intro _ _ _; trivial
  | cons pc rest ih =>
    intro cur h hcl
    obtain ⟨hok, hcase⟩ := piecesOk_cons F cur pc rest h
    refine ⟨adm_of_accepts cfg F hacc hloc cur pc hok hcl, ?_⟩
    rcases hcase with ⟨rfl, _⟩ | ⟨_, _, hrest⟩
    · trivial
    · exact ih _ hrest (fClosed_step F cur pc hok hcl)

/-- **C06, every permitted encoding into every accepting target**: a valid layout of a well-formed file — spans in
    any order the format permits, edge, face and cell spans interleaved — reads back as the file for every reading
    configuration that accepts the file's faces and cells as written (tetrahedral / hexahedral mesh types,
    topology check on or off).  For a hexahedral target read with topology check the ordering oracle has to be
    local (`HexLocal`). -/
theorem decode_encodeWith_any (L : Layout) (hwf : WFFile F = true) (hval : ValidLayout L F = true)
    (hsize : (encodeWith L F).length < 2 ^ 64) (hacc : Accepts cfg F)
    (hloc : cfg.kind = .hex → cfg.topoCheck = true → HexLocal cfg) : decode cfg (encodeWith L F) = .ok F := by
  have hval' := hval
  simp only [ValidLayout, Bool.and_eq_true, decide_eq_true_eq] at hval'
  exact decode_encodeWith_adm cfg F L hwf hval hsize hacc.tet hacc.hex
    (admAll_of_accepts cfg F hacc hloc _ _ hval'.2 (fClosed_init F))

end OVM.Ovmb

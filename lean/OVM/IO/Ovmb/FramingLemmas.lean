/-
  OVMB model: lemmas about the chunk loop, the file header and the writer's sink (used by Props/C06, C07, C18).
  Core only.
-/
import OVM.IO.Ovmb.Decode
import OVM.IO.Ovmb.Permissive
namespace OVM.Ovmb
open OVM.Gen.Ovmb

/-! ### facts about the generated format constants (kept out of the judge's import closure: a changed constant must
    break a *proof*, not the judge) -/

/-- width-selection adequacy: every value up to the argument fits the selected width (for 32-bit arguments) -/
theorem suitable_fits {n v : Nat} (hn : n < 2 ^ 32) (hv : v ≤ n) :
    v < 256 ^ elemSizeInt (suitableIntEncoding n) := by
  unfold suitableIntEncoding
  split
  · rename_i h; have : elemSizeInt intEncodingU8 = 1 := by decide
    rw [this]; simp only [thrU8] at h; omega
  · split
    · rename_i h; have : elemSizeInt intEncodingU16 = 2 := by decide
      rw [this]; simp only [thrU16] at h; omega
    · have : elemSizeInt intEncodingU32 = 4 := by decide
      rw [this]; omega

theorem suitable_valid (n : Nat) : suitableIntEncoding n ∈ validIntEncoding ∧ suitableIntEncoding n ≠ intEncodingNone := by
  unfold suitableIntEncoding
  split
  · decide
  · split <;> decide

theorem encFileHeader_length (a b c d e f g h : Nat) : (encFileHeader a b c d e f g h).length = sizeFileHeader := by
  simp [encFileHeader, magicBytes, magic, sizeFileHeader]

theorem encChunk_length (ty v pad c fl : Nat) (p : Bytes) :
    (encChunk ty v pad c fl p).length = sizeChunkHeader + p.length + pad := by
  simp [encChunk, sizeChunkHeader]; omega


theorem finish_ok_eof {s : RState} {F : File} (h : finish s = .ok F) : s.eof = true := by
  unfold finish at h
  cases he : s.eof <;> simp_all [invalid]

/-- the chunk loop only succeeds from a state in which the EOF chunk has been seen -/
theorem loop_ok_final (cfg : Cfg) (s : RState) (st : Stream) (F : File) (h : loop cfg s st = .ok F) :
    ∃ s', s'.eof = true ∧ finish s' = .ok F := by
  fun_induction loop cfg s st with
  | case1 s st h0 => exact ⟨s, finish_ok_eof h, h⟩
  | case2 s st h0 e he => simp at h
  | case3 s st h0 s' st' he ih => exact ih h

theorem short_header_rejected (cfg : Cfg) (bytes : Bytes) (h : bytes.length < sizeFileHeader) :
    decode cfg bytes = .error (.res .incompatible) := by
  unfold decode decodeStream Stream.makeDecoder
  simp [h, invalid]

/-- bytes a sink can still take before failing -/
def Sink.room (s : Sink) : Option Nat := if s.good then s.cap else some 0

theorem Sink.write_good {s : Sink} {p : Bytes} (h : (s.write p).good = true) :
    s.good = true ∧ (s.write p).out = s.out ++ p ∧ (∀ c, s.cap = some c → p.length ≤ c ∧ (s.write p).cap = some (c - p.length)) ∧ (s.cap = none → (s.write p).cap = none) := by
  unfold Sink.write at h ⊢
  cases hg : s.good
  · simp [hg] at h
  · simp only [hg, Bool.not_true, Bool.false_eq_true, if_false] at h ⊢
    cases hc : s.cap with
    | none => simp
    | some c =>
      simp only [hc] at h ⊢
      by_cases hl : p.length ≤ c
      · simp [hl]
      · simp [hl] at h

theorem foldl_write_good : ∀ (ps : List Bytes) (s : Sink), (ps.foldl Sink.write s).good = true →
    s.good = true ∧ (ps.foldl Sink.write s).out = s.out ++ ps.flatten ∧ (∀ c, s.cap = some c → ps.flatten.length ≤ c) := by
  intro ps
  induction ps with
  | nil => intro s h; simpa using h
  | cons p ps ih =>
    intro s h
    simp only [List.foldl_cons] at h ⊢
    obtain ⟨g1, o1, c1⟩ := ih _ h
    obtain ⟨g0, o0, c0, n0⟩ := Sink.write_good g1
    refine ⟨g0, ?_, ?_⟩
    · rw [o1, o0]; simp
    · intro c hc
      obtain ⟨hl, hc'⟩ := c0 c hc
      have := c1 _ hc'
      simp only [List.flatten_cons, List.length_append]; omega

/-- C18 (write side): `Ok` is only returned when the stream took every byte of the file; a sink that fails
    before the end of the file yields a result other than Ok, and what was written is a prefix -/
theorem write_ok_complete (m : WMesh) (s : Sink) (h : (write m s).1 = .ok) :
    m.needsGC = false ∧ (write m s).2.out = s.out ++ encode m.file ∧ (∀ c, s.cap = some c → (encode m.file).length ≤ c) := by
  unfold write at h ⊢
  cases hg : s.good
  · simp [hg] at h
  · cases hn : m.needsGC
    · simp only [hg, hn, Bool.not_true, Bool.false_eq_true, if_false] at h ⊢
      have hgood : ((writerHeader m.file :: writerChunks m.file).foldl Sink.write s).good = true := by
        cases hh : ((writerHeader m.file :: writerChunks m.file).foldl Sink.write s).good
        · rw [hh] at h; simp at h
        · rfl
      obtain ⟨_, o, c⟩ := foldl_write_good _ _ hgood
      refine ⟨trivial, ?_, ?_⟩
      · rw [o]; simp [encode]
      · intro c' hc; have := c c' hc; simpa [encode] using this
    · simp [hg, hn] at h

theorem write_fault_not_ok (m : WMesh) (s : Sink) (c : Nat) (hc : s.cap = some c) (hlt : c < (encode m.file).length) :
    (write m s).1 ≠ .ok := by
  intro h
  have := (write_ok_complete m s h).2.2 c hc
  omega
end OVM.Ovmb

/-
  OVMB model, proofs: inconsistent files are rejected — from one chunk to the chunk loop and the file (C18, second
  clause).

  * `header_rejected`: every inconsistency of the 48-byte file header, for every stream state.
  * `loop_prefix`, `loop_next_chunk_rejected`, `decode_prefix_inv`, `decode_rejected_of_loop`: a chunk the reader
    rejects, placed after any prefix of well-framed chunks, makes the whole file rejected.
  * `loop_chunk_header_rejected`, `loop_chunk_too_big_rejected`, `loop_chunk_padding_rejected`: chunk framing.
  * `applyTopo_span_rejected`, `applyTopo_tail_rejected`: TOPO spans, valences, byte counts, handle ranges, empty lists.
  * `loop_end_rejected`, `decode_no_eof_rejected`, `loop_trailing_fragment_rejected`: end of file.
  * `decode_chunk_after_eof_accepted`: what the reader does after the EOF chunk (it keeps reading chunks).
  Proof-only file (not imported by the judge).  Core only.
-/
import OVM.IO.Ovmb.RejectTopo
import OVM.IO.Ovmb.RoundTripWriter
namespace OVM.Ovmb
open OVM.Gen.Ovmb Dec

/-! ### file header -/

/-- **inconsistent file header**: wrong magic, header version ≠ 1, vertex dimension ≠ 3, invalid topology type,
    non-zero reserved bytes, a count above max_handle_idx, or a topology type the target mesh kind cannot hold —
    for every stream state (complete or failing stream) -/
theorem header_rejected (cfg : Cfg) (rem : Nat) (data : Bytes)
    (hbad : data.take 8 ≠ magicBytes ∨ hdrVersion data ≠ 1 ∨ hdrVertexDim data ≠ meshDim ∨
      hdrTopo data ∉ validTopoType ∨ allZero (hdrReserved data) = false ∨
      (∃ i, i < 4 ∧ maxHandleIdx < hdrCount data i) ∨
      (cfg.kind = .tet ∧ hdrTopo data ≠ topoTypeTetrahedral) ∨ (cfg.kind = .hex ∧ hdrTopo data ≠ topoTypeHexahedral)) :
    Rejected (decodeStream cfg ⟨rem, data⟩) := by
  intro F hok
  obtain ⟨_, _, h1, h2, h3, h4, h5, h6, h7, h8, _⟩ := decodeStream_ok_inv hok
  rcases hbad with h | h | h | h | h | ⟨i, hi, h⟩ | h | h
  · exact h h1
  · exact h h2
  · exact h h3
  · exact h h4
  · rw [h5] at h; cases h
  · have := h6 i hi; omega
  · exact h.2 (h7 h.1)
  · exact h.2 (h8 h.1)


/-! ### from one chunk to the chunk loop and the file -/

theorem loop_rejected_of_readChunk (cfg : Cfg) (s : RState) (st : Stream) (h0 : st.rem ≠ 0)
    (h : Rejected (readChunk cfg s st)) : Rejected (loop cfg s st) := by
  cases hr : readChunk cfg s st with
  | error e => rw [loop_err cfg s st e h0 hr]; exact Rejected.error e
  | ok v => exact absurd hr (h v)

theorem loop_ok_step {cfg : Cfg} {s : RState} {st : Stream} {F : File} (h0 : st.rem ≠ 0) (h : loop cfg s st = .ok F) :
    ∃ s' st', readChunk cfg s st = .ok (s', st') ∧ loop cfg s' st' = .ok F := by
  cases hr : readChunk cfg s st with
  | error e => rw [loop_err cfg s st e h0 hr] at h; cases h
  | ok v =>
    obtain ⟨s', st'⟩ := v
    exact ⟨s', st', rfl, by rw [← loop_ok cfg s s' st st' h0 hr]; exact h⟩

/-- the chunk loop over a prefix of well-framed chunks followed by anything: the payload readers in order, then the
    loop continues on what follows -/
theorem loop_prefix (cfg : Cfg) (cs : List ChunkD) (hfit : ∀ c ∈ cs, c.Fits) (s : RState) (rem : Nat) (rest : Bytes)
    (hrem : (cs.map ChunkD.bytes).flatten.length ≤ rem) (hne : cs = [] ∨ rem ≠ 0) :
    loop cfg s ⟨rem, (cs.map ChunkD.bytes).flatten ++ rest⟩ =
      match runChunks cfg s cs with
      | .error e => .error e
      | .ok s' => loop cfg s' ⟨rem - (cs.map ChunkD.bytes).flatten.length, rest⟩ := by
  induction cs generalizing s rem with
  | nil => simp [runChunks]
  | cons c cs ih =>
    have hlen : 0 < c.bytes.length := by rw [ChunkD.bytes_length]; simp only [sizeChunkHeader]; omega
    simp only [List.map_cons, List.flatten_cons, List.length_append, List.append_assoc] at hrem ⊢
    have h0 : (⟨rem, c.bytes ++ ((cs.map ChunkD.bytes).flatten ++ rest)⟩ : Stream).rem ≠ 0 := by simp only; omega
    have hfull := readChunk_full cfg s c (hfit c (by simp)) rem ((cs.map ChunkD.bytes).flatten ++ rest) (by omega)
    simp only [runChunks]
    cases hp : processChunk cfg s c.hdr c.payload with
    | error e => rw [hp] at hfull; rw [loop_err _ _ _ e h0 hfull]
    | ok s' =>
      rw [hp] at hfull
      rw [loop_ok _ _ _ _ _ h0 hfull]
      have := ih (fun c' hc' => hfit c' (by simp [hc'])) s' (rem - c.bytes.length) (by omega)
        (by cases cs with
          | nil => exact Or.inl rfl
          | cons c' t =>
            right
            have : 0 < c'.bytes.length := by rw [ChunkD.bytes_length]; simp only [sizeChunkHeader]; omega
            simp only [List.map_cons, List.flatten_cons, List.length_append] at hrem; omega)
      rw [this, Nat.sub_sub]

/-- a well-framed next chunk whose body the reader rejects makes the chunk loop fail, from every state -/
theorem loop_next_chunk_rejected (cfg : Cfg) (s : RState) (c : ChunkD) (hc : c.Fits) (rem : Nat) (rest : Bytes)
    (hrem : c.bytes.length ≤ rem) (hrej : Rejected (processChunk cfg s c.hdr c.payload)) :
    Rejected (loop cfg s ⟨rem, c.bytes ++ rest⟩) := by
  have hlen : 0 < c.bytes.length := by rw [ChunkD.bytes_length]; simp only [sizeChunkHeader]; omega
  apply loop_rejected_of_readChunk _ _ _ (by simp only; omega)
  rw [readChunk_full cfg s c hc rem rest hrem]
  cases hp : processChunk cfg s c.hdr c.payload with
  | error e => exact Rejected.error e
  | ok s' => exact absurd hp (hrej s')

/-- a file = 48-byte header ++ well-framed chunks ++ rest is read Ok only if the chunk loop, started in some
    initial state and brought through the chunks to a state `s`, succeeds on `rest` -/
theorem decode_prefix_inv {cfg : Cfg} {hdr : Bytes} (hh : hdr.length = sizeFileHeader) {cs : List ChunkD}
    (hfit : ∀ c ∈ cs, c.Fits) {rest : Bytes} {F : File}
    (hok : decode cfg (hdr ++ ((cs.map ChunkD.bytes).flatten ++ rest)) = .ok F) :
    ∃ topo nV nE nF nC s, runChunks cfg (initState topo nV nE nF nC) cs = .ok s ∧
      loop cfg s ⟨rest.length, rest⟩ = .ok F := by
  unfold decode at hok
  obtain ⟨_, _, _, _, _, _, _, _, _, _, hloop⟩ := decodeStream_ok_inv hok
  rw [← hh, List.drop_left, List.length_append, Nat.add_sub_cancel_left] at hloop
  rw [List.length_append] at hloop
  generalize hs0 : initState _ _ _ _ _ = s0 at hloop
  have hp := loop_prefix cfg cs hfit s0 ((cs.map ChunkD.bytes).flatten.length + rest.length) rest (by omega)
    (by cases cs with
      | nil => exact Or.inl rfl
      | cons c t =>
        right
        have : 0 < c.bytes.length := by rw [ChunkD.bytes_length]; simp only [sizeChunkHeader]; omega
        simp only [List.map_cons, List.flatten_cons, List.length_append]; omega)
  rw [hp] at hloop
  cases hr : runChunks cfg s0 cs with
  | error e => rw [hr] at hloop; cases hloop
  | ok s =>
    rw [hr, Nat.add_sub_cancel_left] at hloop
    exact ⟨_, _, _, _, _, s, by rw [hs0]; exact hr, hloop⟩

/-- **lifting to files**: if the chunk loop rejects `rest` from every state, the file header ++ chunks ++ rest is
    rejected -/
theorem decode_rejected_of_loop (cfg : Cfg) (hdr : Bytes) (hh : hdr.length = sizeFileHeader) (cs : List ChunkD)
    (hfit : ∀ c ∈ cs, c.Fits) (rest : Bytes) (hrej : ∀ s, Rejected (loop cfg s ⟨rest.length, rest⟩)) :
    Rejected (decode cfg (hdr ++ ((cs.map ChunkD.bytes).flatten ++ rest))) := by
  intro F hok
  obtain ⟨_, _, _, _, _, s, _, hl⟩ := decode_prefix_inv hh hfit hok
  exact hrej s F hl

/-! ### framing of the next chunk -/

/-- invalid flags byte, or more padding than total length -/
theorem loop_chunk_header_rejected (cfg : Cfg) (s : RState) (h : RawHdr) (hw : h.InWidth) (rem : Nat) (rest : Bytes)
    (h0 : rem ≠ 0) (hbad : h.flags ∉ validChunkFlags ∨ h.fileLength < h.pad) :
    Rejected (loop cfg s ⟨rem, h.bytes ++ rest⟩) := by
  apply loop_rejected_of_readChunk _ _ _ h0
  unfold readChunk
  by_cases h16 : rem < sizeChunkHeader
  · simp [Stream.makeDecoder, h16, invalid]; exact Rejected.error _
  · rw [makeDecoder_append' rem sizeChunkHeader h.bytes rest (by simp) (by omega)]
    simp only [readChunkHdr_raw h hw]
    rw [if_neg (by rintro ⟨a, b⟩; rcases hbad with hb | hb; exact hb a; omega)]
    exact Rejected.invalid

/-- chunk length larger than the remaining bytes of the file -/
theorem loop_chunk_too_big_rejected (cfg : Cfg) (s : RState) (h : RawHdr) (hw : h.InWidth) (rem : Nat) (rest : Bytes)
    (h0 : rem ≠ 0) (hbad : rem - sizeChunkHeader < h.fileLength) :
    Rejected (loop cfg s ⟨rem, h.bytes ++ rest⟩) := by
  apply loop_rejected_of_readChunk _ _ _ h0
  unfold readChunk
  by_cases h16 : rem < sizeChunkHeader
  · simp [Stream.makeDecoder, h16, invalid]; exact Rejected.error _
  · rw [makeDecoder_append' rem sizeChunkHeader h.bytes rest (by simp) (by omega)]
    simp only [readChunkHdr_raw h hw]
    by_cases hv : h.flags ∈ validChunkFlags ∧ h.pad ≤ h.fileLength
    · rw [if_pos hv]
      simp only
      rw [if_pos (by show h.fileLength > rem - sizeChunkHeader; omega)]
      exact Rejected.invalid
    · rw [if_neg hv]; exact Rejected.invalid

/-- non-zero padding bytes -/
theorem loop_chunk_padding_rejected (cfg : Cfg) (s : RState) (h : RawHdr) (hw : h.InWidth) (rem : Nat)
    (payload pb rest : Bytes) (h0 : rem ≠ 0) (hpl : payload.length = h.fileLength - h.pad) (hpb : pb.length = h.pad)
    (hbad : allZero pb = false) : Rejected (loop cfg s ⟨rem, h.bytes ++ (payload ++ (pb ++ rest))⟩) := by
  apply loop_rejected_of_readChunk _ _ _ h0
  by_cases h16 : rem < sizeChunkHeader
  · unfold readChunk; simp [Stream.makeDecoder, h16, invalid]; exact Rejected.error _
  · rw [readChunk_framed cfg s h hw rem payload pb rest (by omega) hpl hpb]
    split
    · exact Rejected.invalid
    split
    · exact Rejected.invalid
    cases processChunk cfg s h.hdr payload with
    | error e => exact Rejected.error e
    | ok s' => simp only [hbad, Bool.not_false, if_true]; exact Rejected.invalid

/-! ### end of the file -/

/-- the final checks: no EOF chunk seen, or fewer edges / faces / cells read than the header announces -/
theorem loop_end_rejected (cfg : Cfg) (s : RState) (data : Bytes)
    (hbad : s.eof = false ∨ s.nE ≠ s.edges.length ∨ s.nF ≠ s.faces.length ∨ s.nC ≠ s.cells.length) :
    Rejected (loop cfg s ⟨0, data⟩) := by
  rw [loop_zero cfg s _ rfl]
  unfold finish
  rcases hbad with h | h
  · simp [h]; exact Rejected.invalid
  · cases s.eof
    · exact Rejected.invalid
    · simp only [Bool.not_true, Bool.false_eq_true, if_false, if_pos h]; exact Rejected.invalid

/-- a trailing fragment shorter than a chunk header (e.g. after the EOF chunk) -/
theorem loop_trailing_fragment_rejected (cfg : Cfg) (s : RState) (rem : Nat) (data : Bytes) (h0 : rem ≠ 0)
    (hbad : rem < sizeChunkHeader ∨ data.length < sizeChunkHeader) : Rejected (loop cfg s ⟨rem, data⟩) := by
  apply loop_rejected_of_readChunk _ _ _ h0
  unfold readChunk Stream.makeDecoder
  rcases hbad with h | h
  · simp [h, invalid]; exact Rejected.error _
  · by_cases h1 : rem < sizeChunkHeader
    · simp [h1, invalid]; exact Rejected.error _
    · simp [h1, h, invalid]; exact Rejected.error _

/-! ### TOPO: consequences of the inversion lemmas -/

theorem valDec_fixed (h : TopoHdr) (hv : h.valence ≠ 0) (p1 : Bytes) : runDec (valDec h) p1 = .ok ([], p1) := by
  simp [valDec, hv, runDec]

theorem valDec_var (h : TopoHdr) (hv : h.valence = 0) (vals : List Nat) (p2 : Bytes) (hl : vals.length = h.count)
    (hw : ∀ v ∈ vals, v < 256 ^ elemSizeInt h.valEnc) :
    runDec (valDec h) (encInts (elemSizeInt h.valEnc) vals ++ p2) = .ok (vals, p2) := by
  apply runDec_ok
  have hr := readInts_enc (elemSizeInt h.valEnc) vals p2 hw
  rw [hl] at hr
  have hg : decide (h.count * elemSizeInt h.valEnc ≤ (encInts (elemSizeInt h.valEnc) vals ++ p2).length) = true := by
    simp only [List.length_append, encInts_length, hl, decide_eq_true_eq]; rw [Nat.mul_comm]; omega
  simp only [valDec, hv, if_true, bind_run, remaining_run, hg, guard_true, hr]

/-- the bytes of a TOPO chunk after its sub-header: an explicit valence list in variable mode, then the handles -/
def topoTail (valence valEnc hEnc : Nat) (vals xs : List Nat) : Bytes :=
  (if valence = 0 then encInts (elemSizeInt valEnc) vals else []) ++ encInts (elemSizeInt hEnc) xs

/-- side conditions that make `topoTail` the encoding of `vals` and `xs` (values fit their widths) -/
structure TailOk (count valence valEnc hEnc : Nat) (vals xs : List Nat) : Prop where
  vals : valence = 0 → vals.length = count ∧ ∀ v ∈ vals, v < 256 ^ elemSizeInt valEnc
  xs : ∀ x ∈ xs, x < 256 ^ elemSizeInt hEnc

theorem elemSizeInt_pos {e : Nat} (h1 : e ∈ validIntEncoding) (h2 : e ≠ intEncodingNone) : 1 ≤ elemSizeInt e := by
  simp only [validIntEncoding, List.mem_cons, List.not_mem_nil, or_false] at h1
  rcases h1 with rfl | rfl | rfl | rfl
  · exact absurd rfl h2
  all_goals decide

/-- a TOPO chunk read successfully from `sub-header ++ topoTail`: what it implies about valences and handles -/
theorem applyTopo_tail_inv {cfg : Cfg} {s s' : RState} {first count entity valence valEnc hEnc off : Nat}
    (hw : TopoRaw first count entity valence valEnc hEnc off) {vals xs : List Nat}
    (ht : TailOk count valence valEnc hEnc vals xs)
    (hok : applyTopo cfg s (encTopoHeader first count entity valence valEnc hEnc off ++ topoTail valence valEnc hEnc vals xs)
      = .ok s') :
    xs.length = (if valence = 0 then vals.sum else valence * count) ∧
    (entity = topoEntityEdge → ∀ x ∈ xs, w64 (x + off) < s.nVr) ∧
    (entity = topoEntityFace → (valence = 0 → ∀ v ∈ vals, v ≠ 0) ∧ ∀ x ∈ xs, w64 (x + off) < 2 * s.edges.length) ∧
    (entity ≠ topoEntityEdge → entity ≠ topoEntityFace →
      (valence = 0 → ∀ v ∈ vals, v ≠ 0) ∧ ∀ x ∈ xs, w64 (x + off) < 2 * s.faces.length) := by
  obtain ⟨_, _, g3, _, g5, _, _, valences, p2, hv, hlen, hbody⟩ := applyTopo_ok_inv hw hok
  have hw1 := elemSizeInt_pos g3 g5
  -- the valence list and the handle bytes as the reader saw them
  have hvp : valences = (if valence = 0 then vals else []) ∧ p2 = encInts (elemSizeInt hEnc) xs := by
    by_cases h0 : valence = 0
    · have := valDec_var ⟨first, count, entity, valence, valEnc, hEnc, off⟩ h0 vals (encInts (elemSizeInt hEnc) xs)
        (ht.vals h0).1 (ht.vals h0).2
      simp only [topoTail, h0, if_true] at hv this ⊢
      rw [this] at hv; cases hv; exact ⟨rfl, rfl⟩
    · have := valDec_fixed ⟨first, count, entity, valence, valEnc, hEnc, off⟩ h0 (topoTail valence valEnc hEnc vals xs)
      rw [this] at hv; cases hv
      simp [topoTail, h0]
  obtain ⟨rfl, rfl⟩ := hvp
  have hxl : xs.length = (if valence = 0 then vals.sum else valence * count) := by
    rw [encInts_length] at hlen
    have : (if valence = 0 then (if valence = 0 then vals else []).sum else valence * count)
        = (if valence = 0 then vals.sum else valence * count) := by split <;> rfl
    rw [this, Nat.mul_comm] at hlen
    exact Nat.eq_of_mul_eq_mul_right hw1 hlen
  have hvals : (if valence = 0 then (if valence = 0 then vals else []) else List.replicate count valence)
      = (if valence = 0 then vals else List.replicate count valence) := by split <;> rfl
  rw [hvals] at hbody
  refine ⟨hxl, ?_, ?_, ?_⟩
  · intro he
    obtain ⟨_, _, _, xs', _, hwid, hp, hb⟩ := topoBody_edge_inv he hbody
    have := encInts_inj hw1 ht.xs hwid hp
    subst this; exact hb
  · intro he
    obtain ⟨_, _, _, _, hnz, xs', hwid, hp, hb⟩ := topoBody_face_inv he hbody
    have := encInts_inj hw1 ht.xs hwid hp
    subst this
    exact ⟨fun h0 => by simpa [h0] using hnz, hb⟩
  · intro he1 he2
    obtain ⟨_, _, _, _, hnz, xs', hwid, hp, hb⟩ := topoBody_cell_inv he1 he2 hbody
    have := encInts_inj hw1 ht.xs hwid hp
    subst this
    exact ⟨fun h0 => by simpa [h0] using hnz, hb⟩

/-- a TOPO chunk read successfully, whatever follows its sub-header: span and valence consistency -/
theorem applyTopo_span_inv {cfg : Cfg} {s s' : RState} {first count entity valence valEnc hEnc off : Nat}
    (hw : TopoRaw first count entity valence valEnc hEnc off) {p1 : Bytes}
    (hok : applyTopo cfg s (encTopoHeader first count entity valence valEnc hEnc off ++ p1) = .ok s') :
    (entity = topoEntityEdge → first = s.edges.length ∧ count ≤ s.nE - s.edges.length ∧ valence = 2) ∧
    (entity = topoEntityFace → first = s.faces.length ∧ count ≤ s.nF - s.faces.length ∧
      (s.topo = topoTypeTetrahedral → valence = 3) ∧ (s.topo = topoTypeHexahedral → valence = 4)) ∧
    (entity ≠ topoEntityEdge → entity ≠ topoEntityFace → first = s.cells.length ∧ count ≤ s.nC - s.cells.length ∧
      (s.topo = topoTypeTetrahedral → valence = 4) ∧ (s.topo = topoTypeHexahedral → valence = 6)) := by
  obtain ⟨_, _, _, _, _, _, _, valences, p2, _, _, hbody⟩ := applyTopo_ok_inv hw hok
  refine ⟨?_, ?_, ?_⟩
  · intro he
    obtain ⟨a, b, c, _⟩ := topoBody_edge_inv he hbody
    exact ⟨a, b, c⟩
  · intro he
    obtain ⟨a, b, c, d, _⟩ := topoBody_face_inv he hbody
    exact ⟨a, b, c, d⟩
  · intro he1 he2
    obtain ⟨a, b, c, d, _⟩ := topoBody_cell_inv he1 he2 hbody
    exact ⟨a, b, c, d⟩

/-- span not contiguous or overrunning the declared count; valence inconsistent with the entity kind or the file's
    topology type — whatever follows the sub-header -/
theorem applyTopo_span_rejected (cfg : Cfg) (s : RState) {first count entity valence valEnc hEnc off : Nat}
    (hw : TopoRaw first count entity valence valEnc hEnc off) (p1 : Bytes)
    (hbad :
      (entity = topoEntityEdge ∧ (first ≠ s.edges.length ∨ s.nE - s.edges.length < count ∨ valence ≠ 2)) ∨
      (entity = topoEntityFace ∧ (first ≠ s.faces.length ∨ s.nF - s.faces.length < count ∨
        (s.topo = topoTypeTetrahedral ∧ valence ≠ 3) ∨ (s.topo = topoTypeHexahedral ∧ valence ≠ 4))) ∨
      (entity = topoEntityCell ∧ (first ≠ s.cells.length ∨ s.nC - s.cells.length < count ∨
        (s.topo = topoTypeTetrahedral ∧ valence ≠ 4) ∨ (s.topo = topoTypeHexahedral ∧ valence ≠ 6)))) :
    Rejected (applyTopo cfg s (encTopoHeader first count entity valence valEnc hEnc off ++ p1)) := by
  intro s' hok
  obtain ⟨hE, hF, hC⟩ := applyTopo_span_inv hw hok
  rcases hbad with ⟨he, hb⟩ | ⟨he, hb⟩ | ⟨he, hb⟩
  · obtain ⟨a, b, c⟩ := hE he
    rcases hb with h | h | h
    · exact h a
    · omega
    · exact h c
  · obtain ⟨a, b, c, d⟩ := hF he
    rcases hb with h | h | h | h
    · exact h a
    · omega
    · exact h.2 (c h.1)
    · exact h.2 (d h.1)
  · obtain ⟨a, b, c, d⟩ := hC (by rw [he]; decide) (by rw [he]; decide)
    rcases hb with h | h | h | h
    · exact h a
    · omega
    · exact h.2 (c h.1)
    · exact h.2 (d h.1)

/-- number of handle bytes inconsistent with the valences; a handle (plus offset, mod 2^64) not below the number
    of entities read so far; an empty face / cell -/
theorem applyTopo_tail_rejected (cfg : Cfg) (s : RState) {first count entity valence valEnc hEnc off : Nat}
    (hw : TopoRaw first count entity valence valEnc hEnc off) {vals xs : List Nat}
    (ht : TailOk count valence valEnc hEnc vals xs)
    (hbad : xs.length ≠ (if valence = 0 then vals.sum else valence * count) ∨
      (entity = topoEntityEdge ∧ ∃ x ∈ xs, s.nVr ≤ w64 (x + off)) ∨
      (entity = topoEntityFace ∧ ∃ x ∈ xs, 2 * s.edges.length ≤ w64 (x + off)) ∨
      (entity = topoEntityCell ∧ ∃ x ∈ xs, 2 * s.faces.length ≤ w64 (x + off)) ∨
      (entity ≠ topoEntityEdge ∧ valence = 0 ∧ 0 ∈ vals)) :
    Rejected (applyTopo cfg s (encTopoHeader first count entity valence valEnc hEnc off ++ topoTail valence valEnc hEnc vals xs)) := by
  intro s' hok
  have hent := (applyTopo_ok_inv hw hok).1
  obtain ⟨hl, hE, hF, hC⟩ := applyTopo_tail_inv hw ht hok
  rcases hbad with h | ⟨he, x, hx, hb⟩ | ⟨he, x, hx, hb⟩ | ⟨he, x, hx, hb⟩ | ⟨he, h0, hz⟩
  · exact h hl
  · have := hE he x hx; omega
  · have := (hF he).2 x hx; omega
  · have := (hC (by rw [he]; decide) (by rw [he]; decide)).2 x hx; omega
  · by_cases hf : entity = topoEntityFace
    · exact (hF hf).1 h0 0 hz rfl
    · exact (hC he hf).1 h0 0 hz rfl

/-! ### end of file, files without / after the EOF chunk -/

theorem runChunks_eof (cfg : Cfg) : ∀ (cs : List ChunkD) (s s' : RState), (∀ c ∈ cs, c.notEof) →
    runChunks cfg s cs = .ok s' → s'.eof = s.eof := by
  intro cs
  induction cs with
  | nil => intro s s' _ h; simp only [runChunks] at h; cases h; rfl
  | cons c cs ih =>
    intro s s' hne h
    simp only [runChunks] at h
    cases hp : processChunk cfg s c.hdr c.payload with
    | error e => rw [hp] at h; cases h
    | ok s1 =>
      rw [hp] at h
      have h1 := processChunk_ep cfg s c.hdr c.payload (hne c (by simp)) s1 hp
      rw [ih s1 s' (fun c' hc' => hne c' (by simp [hc'])) h, h1]

/-- a file that consists of a header and well-framed chunks none of which is an EOF chunk is rejected -/
theorem decode_no_eof_rejected (cfg : Cfg) (hdr : Bytes) (hh : hdr.length = sizeFileHeader) (cs : List ChunkD)
    (hfit : ∀ c ∈ cs, c.Fits) (hne : ∀ c ∈ cs, c.notEof) :
    Rejected (decode cfg (hdr ++ (cs.map ChunkD.bytes).flatten)) := by
  intro F hok
  have hok' : decode cfg (hdr ++ ((cs.map ChunkD.bytes).flatten ++ [])) = .ok F := by simpa using hok
  obtain ⟨_, _, _, _, _, s, hr, hl⟩ := decode_prefix_inv hh hfit hok'
  have := runChunks_eof cfg cs _ s hne hr
  exact loop_end_rejected cfg s [] (Or.inl (by rw [this]; rfl)) F hl

/-- what the reader does after the EOF chunk: it keeps reading chunks like any other.  A well-framed skippable chunk
    (non-mandatory; unknown version or unknown type) that follows the writer's complete file is accepted and
    ignored — only a second EOF chunk (`processChunk_second_eof_rejected`) or a fragment shorter than a chunk
    header (`loop_trailing_fragment_rejected`) makes the read fail. -/
theorem decode_chunk_after_eof_accepted (cfg : Cfg) (F : File) (hwf : WFFile F = true) (hacc : Accepts cfg F)
    (c : ChunkD) (hc : c.Fits) (hs : (encode F ++ c.bytes).length < 2 ^ 64)
    (hskip : c.flags = 0 ∧ (c.version ≠ 0 ∨ (c.ty ≠ ccEOF ∧ c.ty ≠ ccDIRP ∧ c.ty ≠ ccPROP ∧ c.ty ≠ ccVERT ∧ c.ty ≠ ccTOPO))) :
    decode cfg (encode F ++ c.bytes) = .ok F := by
  have hw := WF.of F hwf
  have hsz : SizeOk F := by unfold SizeOk; rw [List.length_append] at hs; omega
  have hfit : ∀ c' ∈ writerChunkDs F ++ [c], c'.Fits := by
    intro c' hc'
    rcases List.mem_append.mp hc' with h | h
    · exact writerChunkDs_fits F hsz c' h
    · simp only [List.mem_singleton] at h; rw [h]; exact hc
  have hbytes : encode F ++ c.bytes = writerHeader F ++ ((writerChunkDs F ++ [c]).map ChunkD.bytes).flatten := by
    rw [encode_eq]; simp [List.append_assoc]
  have hm : c.hdr.mandatory = false := by simp [ChunkHdr.mandatory, ChunkD.hdr, hskip.1]
  have hpc : ∀ s, processChunk cfg s c.hdr c.payload = .ok s := by
    intro s
    rcases hskip.2 with hv | hty
    · have : c.hdr.version ≠ 0 := hv
      simp [processChunk, this, hm, R_pure]
    · by_cases hv : c.version = 0
      · have : c.hdr.version = 0 := hv
        have ht : c.hdr.ty = c.ty := rfl
        simp [processChunk, this, dispatch, ht, hty.1, hty.2.1, hty.2.2.1, hty.2.2.2.1, hty.2.2.2.2, hm, R_pure]
      · have : c.hdr.version ≠ 0 := hv
        simp [processChunk, this, hm, R_pure]
  unfold decode
  rw [hbytes, decodeStream_header cfg F hw hacc, loop_chunks cfg _ hfit, mkS_init, runChunks_append,
    runChunks_writer cfg F hw hacc]
  simp only [runChunks, hpc]
  exact finish_done F

end OVM.Ovmb

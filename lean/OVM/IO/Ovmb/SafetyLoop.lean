/-
  OVMB reader safety (C07), part 5: chunk dispatch, `read_chunk`, the chunk loop (induction along its
  well-founded recursion) and `read_file`: for every stream and every configuration whose hex ordering step only
  hands on halffaces it was given, the result is never the ghost outcome `.ub`, and a success is a valid mesh.
  Proof-only file, core only.
-/
import OVM.IO.Ovmb.SafetyTopo

namespace OVM.Ovmb
open OVM.Gen.Ovmb Dec


theorem dispatch_safe (cfg : Cfg) (hx : HexOK cfg) {s : RState} (hi : RInv s) (h : ChunkHdr) (payload : Bytes) :
    Safe RInv (dispatch cfg s h payload) := by
  unfold dispatch
  split
  · refine safe_ite_invalid fun _ => ?_
    refine safe_ite_invalid fun _ => ?_
    exact Safe.pure ⟨hi.posLen, hi.posOk, hi.nVr_le, hi.edgesOk, hi.facesOk, hi.cellsOk, hi.storOk, hi.dirOk⟩
  · split
    · exact applyDirp_safe hi payload
    · split
      · exact applyProp_safe hi payload
      · split
        · exact applyVert_safe hi payload
        · split
          · exact applyTopo_safe cfg hx hi payload
          · refine safe_ite_invalid fun _ => ?_
            exact Safe.pure hi

theorem processChunk_safe (cfg : Cfg) (hx : HexOK cfg) {s : RState} (hi : RInv s) (h : ChunkHdr) (payload : Bytes) :
    Safe RInv (processChunk cfg s h payload) := by
  unfold processChunk
  split
  · refine safe_ite_invalid fun _ => ?_
    exact Safe.pure hi
  · exact dispatch_safe cfg hx hi h payload

theorem makeDecoder_safe (st : Stream) (n : Nat) : Safe (fun _ => True) (st.makeDecoder n) := by
  unfold Stream.makeDecoder
  refine safe_ite_invalid fun _ => ?_
  refine safe_ite_invalid fun _ => ?_
  exact Safe.pure trivial

theorem readChunk_safe (cfg : Cfg) (hx : HexOK cfg) {s : RState} (hi : RInv s) (st : Stream) :
    Safe (fun r => RInv r.1) (readChunk cfg s st) := by
  unfold readChunk
  have m1 := makeDecoder_safe st sizeChunkHeader
  split
  · rename_i e he; rw [he] at m1; exact m1
  · rename_i hb st1 _
    have d1 := runDec_safe readChunkHdr hb
    split
    · rename_i e he; rw [he] at d1; exact d1
    · rename_i h _ _
      refine safe_ite_invalid fun _ => ?_
      have m2 := makeDecoder_safe st1 (h.fileLength - h.pad)
      split
      · rename_i e he; rw [he] at m2; exact m2
      · rename_i payload st2 _
        have p := processChunk_safe cfg hx hi h payload
        split
        · rename_i e he; rw [he] at p; exact p
        · rename_i s' hs'
          rw [hs'] at p
          have m3 := makeDecoder_safe st2 h.pad
          split
          · rename_i e he; rw [he] at m3; exact m3
          · refine safe_ite_invalid fun _ => ?_
            exact p

/-- what `finish` builds from a state satisfying the invariant is a valid mesh -/
theorem finish_safe {s : RState} (hi : RInv s) : Safe (fun F => WFMesh F = true) (finish s) := by
  unfold finish
  refine safe_ite_invalid fun _ => ?_
  refine safe_ite_invalid fun _ => ?_
  apply Safe.pure
  simp only [WFMesh, Bool.and_eq_true, List.all_eq_true, decide_eq_true_eq, beq_iff_eq, List.mem_map,
    forall_exists_index, and_imp, forall_apply_eq_imp_iff₂]
  refine ⟨⟨⟨⟨?_, ?_⟩, ?_⟩, ?_⟩, ?_⟩
  · intro p hp; exact hi.posOk p hp
  · intro e he
    have := hi.edgesOk e he
    have := hi.nVr_le
    have := hi.posLen
    omega
  · exact hi.facesOk
  · exact hi.cellsOk
  · intro x hx
    obtain ⟨o1, o2, o3, o4, o5⟩ := hi.storOk x hx
    refine ⟨⟨⟨⟨o1, o2⟩, o3⟩, ?_⟩, o5⟩
    rw [o4]
    simp [RState.count, File.slots, hi.posLen]

theorem loop_safe (cfg : Cfg) (hx : HexOK cfg) (s : RState) (st : Stream) (hi : RInv s) :
    Safe (fun F => WFMesh F = true) (loop cfg s st) := by
  fun_induction loop cfg s st with
  | case1 s st h0 => exact finish_safe hi
  | case2 s st h0 e he =>
    have := readChunk_safe cfg hx hi st
    rw [he] at this; exact this
  | case3 s st h0 s' st' he ih =>
    have := readChunk_safe cfg hx hi st
    rw [he] at this
    exact ih this

theorem safe_ite_res {α} {P : α → Prop} {c : Prop} [Decidable c] {e : Err} {x : R α} (h : ¬ c → Safe P x) :
    Safe P (if c then .error (.res e) else x) := by
  by_cases hc : c
  · rw [if_pos hc]; exact Safe.res _
  · rw [if_neg hc]; exact h hc

theorem decodeStream_safe (cfg : Cfg) (hx : HexOK cfg) (st : Stream) :
    Safe (fun F => WFMesh F = true) (decodeStream cfg st) := by
  unfold decodeStream
  split
  · exact Safe.res _
  · dsimp only
    refine safe_ite_res fun _ => ?_
    refine safe_ite_res fun _ => ?_
    refine safe_ite_res fun _ => ?_
    refine safe_ite_res fun _ => ?_
    refine safe_ite_res fun _ => ?_
    refine safe_ite_res fun _ => ?_
    refine safe_ite_invalid fun _ => ?_
    exact loop_safe cfg hx _ _ (initState_inv _ _ _ _ _)

/-! ### the two halves of C07 for the OVMB reader -/

/-- no unchecked out-of-range kernel access, for any stream (healthy or failing early) -/
theorem decodeStream_no_ub (cfg : Cfg) (hx : HexOK cfg) (st : Stream) : decodeStream cfg st ≠ .error .ub :=
  (decodeStream_safe cfg hx st).not_ub

/-- success ⇒ valid mesh, for any stream -/
theorem decodeStream_ok_wf (cfg : Cfg) (hx : HexOK cfg) (st : Stream) (F : File)
    (h : decodeStream cfg st = .ok F) : WFMesh F = true :=
  (decodeStream_safe cfg hx st).of_ok h

theorem decode_no_ub (cfg : Cfg) (hx : HexOK cfg) (bytes : Bytes) : decode cfg bytes ≠ .error .ub :=
  decodeStream_no_ub cfg hx _

theorem decode_ok_wf (cfg : Cfg) (hx : HexOK cfg) (bytes : Bytes) (F : File) (h : decode cfg bytes = .ok F) :
    WFMesh F = true :=
  decodeStream_ok_wf cfg hx _ F h

theorem decodeFaulty_no_ub (cfg : Cfg) (hx : HexOK cfg) (bytes : Bytes) (p : Nat) :
    decodeFaulty cfg bytes p ≠ .error .ub :=
  decodeStream_no_ub cfg hx _

theorem decodeFaulty_ok_wf (cfg : Cfg) (hx : HexOK cfg) (bytes : Bytes) (p : Nat) (F : File)
    (h : decodeFaulty cfg bytes p = .ok F) : WFMesh F = true :=
  decodeStream_ok_wf cfg hx _ F h

end OVM.Ovmb

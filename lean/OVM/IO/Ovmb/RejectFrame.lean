/-
  OVMB model, proofs: chunk framing with arbitrary header fields (C18, second clause).

  `RawHdr`: the six chunk header fields with arbitrary in-width values (`rawHdr_of_bytes`: every 16 bytes are one);
  `readChunkHdr_raw`: flags and padding-vs-length tests; `readChunk_framed`: `read_chunk` on header ++ payload ++
  padding bytes ++ rest — the tests in the reader's order (flags / pad ≤ length, length ≤ remaining, the chunk
  body, padding zero).
  Proof-only file (not imported by the judge).  Core only.
-/
import OVM.IO.Ovmb.RejectHeader
namespace OVM.Ovmb
open OVM.Gen.Ovmb Dec



/-- the six fields of a chunk header, with arbitrary values (every 16-byte string is `bytes` of one, `rawHdr_of_bytes`) -/
structure RawHdr where
  ty : Nat
  version : Nat
  pad : Nat
  compression : Nat
  flags : Nat
  fileLength : Nat

structure RawHdr.InWidth (h : RawHdr) : Prop where
  ty : h.ty < 2 ^ 32
  version : h.version < 256
  pad : h.pad < 256
  compression : h.compression < 256
  flags : h.flags < 256
  fileLength : h.fileLength < 2 ^ 64

def RawHdr.bytes (h : RawHdr) : Bytes :=
  leN 4 h.ty ++ leN 1 h.version ++ leN 1 h.pad ++ leN 1 h.compression ++ leN 1 h.flags ++ leN 8 h.fileLength

def RawHdr.hdr (h : RawHdr) : ChunkHdr := ⟨h.ty, h.version, h.pad, h.compression, h.flags, h.fileLength⟩

@[simp] theorem RawHdr.bytes_length (h : RawHdr) : h.bytes.length = sizeChunkHeader := by
  simp [RawHdr.bytes, sizeChunkHeader]

/-- every 16 bytes are the encoding of in-width header fields -/
theorem rawHdr_of_bytes (hb : Bytes) (hl : hb.length = sizeChunkHeader) : ∃ h : RawHdr, h.InWidth ∧ h.bytes = hb := by
  have split : ∀ (n : Nat) (l : Bytes), n ≤ l.length → ∃ a b, l = a ++ b ∧ a.length = n ∧ b.length = l.length - n := by
    intro n l hn; exact ⟨l.take n, l.drop n, (List.take_append_drop n l).symm, by simp; omega, by simp⟩
  simp only [sizeChunkHeader] at hl
  obtain ⟨a, r1, rfl, ha, hr1⟩ := split 4 hb (by omega)
  obtain ⟨b, r2, rfl, hb', hr2⟩ := split 1 r1 (by omega)
  obtain ⟨c, r3, rfl, hc, hr3⟩ := split 1 r2 (by simp at hr1 hl ⊢; omega)
  obtain ⟨d, r4, rfl, hd, hr4⟩ := split 1 r3 (by simp at hr1 hr2 hl ⊢; omega)
  obtain ⟨e, f, rfl, he, hf⟩ := split 1 r4 (by simp at hr1 hr2 hr3 hl ⊢; omega)
  have hf8 : f.length = 8 := by simp at hl ha hb' hc hd he ⊢; omega
  refine ⟨⟨fromLE a, fromLE b, fromLE c, fromLE d, fromLE e, fromLE f⟩, ⟨?_, ?_, ?_, ?_, ?_, ?_⟩, ?_⟩
  · have := fromLE_lt a; rw [ha] at this; simpa using this
  · have := fromLE_lt b; rw [hb'] at this; simpa using this
  · have := fromLE_lt c; rw [hc] at this; simpa using this
  · have := fromLE_lt d; rw [hd] at this; simpa using this
  · have := fromLE_lt e; rw [he] at this; simpa using this
  · have := fromLE_lt f; rw [hf8] at this; simpa using this
  · have ea : leN 4 (fromLE a) = a := by have := leN_fromLE a; rwa [ha] at this
    have eb : leN 1 (fromLE b) = b := by have := leN_fromLE b; rwa [hb'] at this
    have ec : leN 1 (fromLE c) = c := by have := leN_fromLE c; rwa [hc] at this
    have ed : leN 1 (fromLE d) = d := by have := leN_fromLE d; rwa [hd] at this
    have ee : leN 1 (fromLE e) = e := by have := leN_fromLE e; rwa [he] at this
    have ef : leN 8 (fromLE f) = f := by have := leN_fromLE f; rwa [hf8] at this
    simp only [RawHdr.bytes, ea, eb, ec, ed, ee, ef, List.append_assoc]

/-- `read(Decoder&, ChunkHeader&)` on raw header fields: the flags and padding-vs-length tests -/
theorem readChunkHdr_raw (h : RawHdr) (hw : h.InWidth) :
    runDec readChunkHdr h.bytes =
      if h.flags ∈ validChunkFlags ∧ h.pad ≤ h.fileLength then .ok (h.hdr, []) else invalid := by
  have h1 := uN_leN 4 h.ty (by simpa using hw.ty)
  have h2 := uN_leN 1 h.version (by simpa using hw.version)
  have h3 := uN_leN 1 h.pad (by simpa using hw.pad)
  have h4 := uN_leN 1 h.compression (by simpa using hw.compression)
  have h5 := uN_leN 1 h.flags (by simpa using hw.flags)
  have h6 := uN_leN 8 h.fileLength (by simpa using hw.fileLength) []
  simp only [List.append_nil] at h6
  by_cases hf : h.flags ∈ validChunkFlags
  · have hfd : decide (h.flags ∈ validChunkFlags) = true := by simpa using hf
    by_cases hp : h.pad ≤ h.fileLength
    · have hpd : decide (h.pad ≤ h.fileLength) = true := by simpa using hp
      rw [if_pos ⟨hf, hp⟩]
      simp only [runDec, readChunkHdr, RawHdr.bytes, bind_run, u32, u8, u64, List.append_assoc, h1, h2, h3, h4, h5, h6,
        hfd, hpd, guard_true, pure_run, RawHdr.hdr]
    · have hpd : decide (h.pad ≤ h.fileLength) = false := by simpa using hp
      rw [if_neg (fun hh => hp hh.2)]
      simp only [runDec, readChunkHdr, RawHdr.bytes, bind_run, u32, u8, u64, List.append_assoc, h1, h2, h3, h4, h5, h6,
        hfd, hpd, guard_true, guard_false, invalid]
  · have hfd : decide (h.flags ∈ validChunkFlags) = false := by simpa using hf
    rw [if_neg (fun hh => hf hh.1)]
    simp only [runDec, readChunkHdr, RawHdr.bytes, bind_run, u32, u8, u64, List.append_assoc, h1, h2, h3, h4, h5,
      hfd, guard_false, invalid]

/-- `read_chunk` on a stream whose next 16 bytes are the raw header `h`, followed by `payload`, `pb` (the padding
    bytes) and whatever comes next: the framing tests in the order the reader makes them -/
theorem readChunk_framed (cfg : Cfg) (s : RState) (h : RawHdr) (hw : h.InWidth) (rem : Nat) (payload pb rest : Bytes)
    (hrem : sizeChunkHeader ≤ rem) (hpl : payload.length = h.fileLength - h.pad) (hpb : pb.length = h.pad) :
    readChunk cfg s ⟨rem, h.bytes ++ (payload ++ (pb ++ rest))⟩ =
      if ¬(h.flags ∈ validChunkFlags ∧ h.pad ≤ h.fileLength) then invalid
      else if h.fileLength > rem - sizeChunkHeader then invalid
      else match processChunk cfg s h.hdr payload with
        | .error e => .error e
        | .ok s' => if !allZero pb then invalid else .ok (s', ⟨rem - sizeChunkHeader - h.fileLength, rest⟩) := by
  unfold readChunk
  rw [makeDecoder_append' rem sizeChunkHeader h.bytes _ (by simp) hrem]
  simp only [readChunkHdr_raw h hw]
  by_cases hv : h.flags ∈ validChunkFlags ∧ h.pad ≤ h.fileLength
  · simp only [hv, and_self, if_true, not_true_eq_false, if_false]
    have hfl : h.hdr.fileLength = h.fileLength := rfl
    have hpd : h.hdr.pad = h.pad := rfl
    rw [hfl, hpd]
    by_cases hbig : h.fileLength > rem - sizeChunkHeader
    · simp [hbig]
    · simp only [hbig, if_false]
      rw [makeDecoder_append' _ _ payload _ hpl (by omega)]
      simp only
      cases processChunk cfg s h.hdr payload with
      | error e => rfl
      | ok s' =>
        simp only
        rw [makeDecoder_append' _ _ pb _ hpb (by omega)]
        simp only
        by_cases hz : allZero pb = true
        · simp [hz]; omega
        · simp [hz]
  · simp [hv, invalid]

end OVM.Ovmb

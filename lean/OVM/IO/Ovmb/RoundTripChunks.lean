/-
  OVMB model, proofs: each chunk payload reader applied to the payload the encoders produce (C06).

  One lemma per chunk type, for an arbitrary reader state `s` and an arbitrary span / integer width / handle
  offset (so that they serve the writer's layout and the permitted alternative layouts alike):
  `applyVert_double`, `applyDirp_enc`, `applyTopo_edges`, `applyTopo_faces`, `applyTopo_cells`, `applyProp_enc`.
  Proof-only file (not imported by the judge).  Core only.
-/
import OVM.IO.Ovmb.RoundTripFrame
namespace OVM.Ovmb
open OVM.Gen.Ovmb Dec

theorem R_ok_bind {α β} (a : α) (f : α → R β) : ((Except.ok a : R α) >>= f) = f a := rfl
theorem R_pure {α} (a : α) : (pure a : R α) = .ok a := rfl
theorem runDec_ok {α} {d : Dec α} {bs : Bytes} {r : α × Bytes} (h : d bs = .ok r) : runDec d bs = .ok r := by
  simp [runDec, h]
theorem remaining_run (s : Bytes) : remaining s = .ok (s.length, s) := rfl

/-! ### VERT -/




theorem readN_zeros (n : Nat) (rest : Bytes) : readN n (zeros n ++ rest) = .ok (zeros n, rest) :=
  readN_append' _ _ (zeros_length n)

theorem encPositions_length (ps : List (List Nat)) (h : ∀ p ∈ ps, p.length = meshDim) :
    (encPositions ps).length = ps.length * (8 * meshDim) := by
  induction ps with
  | nil => simp [encPositions]
  | cons p t ih =>
    have hp := h p (by simp)
    have := ih (fun q hq => h q (by simp [hq]))
    simp only [encPositions, List.map_cons, List.flatten_cons, List.length_append, encInts_length, List.length_cons] at this ⊢
    rw [this, hp]; simp only [meshDim]; omega

theorem readPositions_enc (ps : List (List Nat)) (rest : Bytes)
    (h : ∀ p ∈ ps, p.length = meshDim ∧ ∀ x ∈ p, x < 2 ^ 64) :
    readMany (readInts 8 meshDim) ps.length (encPositions ps ++ rest) = .ok (ps, rest) := by
  refine readMany_roundtrip (readInts 8 meshDim) (encInts 8) (fun p => p.length = meshDim ∧ ∀ x ∈ p, x < 2 ^ 64)
    ?_ ps rest h
  intro a r ⟨ha, hb⟩
  rw [← ha]
  exact readInts_enc 8 a r (fun x hx => by have := hb x hx; simpa using this)

/-- `read_vertices_chunk` on a double-encoded span that continues where the last one ended -/
theorem applyVert_double (s : RState) (ps : List (List Nat)) (hcount : ps.length ≤ s.nV - s.nVr)
    (hc32 : ps.length < 2 ^ 32) (hf64 : s.nVr < 2 ^ 64)
    (hps : ∀ p ∈ ps, p.length = meshDim ∧ ∀ x ∈ p, x < 2 ^ 64) :
    applyVert s (vertPayload s.nVr vertexEncodingDouble ps) =
      .ok { s with pos := s.pos.take s.nVr ++ ps ++ s.pos.drop (s.nVr + ps.length), nVr := s.nVr + ps.length } := by
  have h1 := uN_leN 8 s.nVr (by simpa using hf64)
  have h2 := uN_leN 4 ps.length (by simpa using hc32)
  have h3 := uN_leN 1 vertexEncodingDouble (by decide)
  have hlen := encPositions_length ps (fun p hp => (hps p hp).1)
  have hrd := readPositions_enc ps [] hps
  simp only [List.append_nil] at hrd
  have hsz : elemSizeVertex vertexEncodingDouble = 8 := by decide
  have hve : decide (vertexEncodingDouble ∈ validVertexEncoding) = true := by decide
  have hv : validSpan s.nV s.nVr s.nVr ps.length = true := by simp [validSpan, hcount]
  unfold applyVert
  simp only [runDec, vertPayload, encVertHeader, encSpan, if_true, List.append_assoc, bind_run, u64, u32, u8, h1, h2, h3,
    readN_zeros, allZero_zeros, guard_true, remaining_run, hlen, hsz, hrd, pure_run, hve, hv, beq_self_eq_true]
  simp only [bind, Except.bind, pure, Except.pure]
  simp

/-! ### DIRP -/



/-- what `WFFile` says about one property (sizes fit, values of the codec's type) -/
structure PropOk (p : PropData) : Prop where
  entity : p.entity ≤ propertyEntityMesh
  codec : p.codec ∈ codecs
  dflt : validVal p.codec p.dflt = true
  name1 : 1 ≤ p.name.length
  name32 : p.name.length < 2 ^ 32
  dflt32 : p.dflt.length < 2 ^ 32

def Storage.key (x : Storage) : Nat × Bytes × Bytes := (x.entity, x.name, x.codec.name)

/-- the storage `request_property` creates for a directory entry: one default value per existing entity -/
def blankC (nV nE nF nC : Nat) (p : PropData) : Storage :=
  ⟨p.entity, p.name, p.codec, p.dflt, List.replicate (slotCount p.entity nV nE nF nC) p.dflt⟩

def blank (s : RState) (p : PropData) : Storage := blankC s.nV s.edges.length s.faces.length s.cells.length p

theorem codec_name_lt : ∀ c ∈ codecs, c.name.length < 2 ^ 32 := by decide

theorem readPropInfo_enc (p : PropData) (hp : PropOk p) (rest : Bytes) :
    readPropInfo (encPropInfo p ++ rest) = .ok ((p.entity, p.name, p.codec.name, p.dflt), rest) := by
  have he : p.entity < 256 ^ 1 := by have := hp.entity; simp [propertyEntityMesh] at this; omega
  have h1 := uN_leN 1 p.entity he
  have hv : decide (p.entity ∈ validPropertyEntity) = true := by
    have := hp.entity
    simp only [propertyEntityMesh] at this
    have : p.entity = 0 ∨ p.entity = 1 ∨ p.entity = 2 ∨ p.entity = 3 ∨ p.entity = 4 ∨ p.entity = 5 ∨ p.entity = 6 := by omega
    rcases this with h | h | h | h | h | h | h <;> rw [h] <;> decide
  have h2 := readVec32_enc p.name
  have h3 := readVec32_enc p.codec.name
  have h4 := readVec32_enc p.dflt
  simp only [readPropInfo, encPropInfo, List.append_assoc, bind_run, u8, h1, hv, guard_true,
    h2 _ hp.name32, h3 _ (codec_name_lt _ hp.codec), h4 _ hp.dflt32, pure_run]

theorem encPropInfo_ne_nil (p : PropData) : encPropInfo p ≠ [] := by
  simp [encPropInfo, leN]

theorem findStor_none (st : List Storage) (e : Nat) (name : Bytes) (c : Codec)
    (h : ∀ x ∈ st, x.key ≠ (e, name, c.name)) : findStor st e name c = none := by
  unfold findStor
  have : st.findIdx (fun x => x.entity == e && x.name == name && x.codec.name == c.name) = st.length := by
    rw [List.findIdx_eq_length]
    intro x hx
    have := h x hx
    simp only [Storage.key, ne_eq, Prod.mk.injEq, not_and] at this
    simp only [Bool.and_eq_false_imp, Bool.and_eq_true, beq_iff_eq, beq_eq_false_iff_ne, ne_eq, and_imp]
    exact this
  simp [this]

/-- `read_propdir_chunk` on the writer's directory: one new storage per entry, in order -/
theorem applyDirpLoop_enc (ps : List PropData) (hps : ∀ p ∈ ps, PropOk p) :
    ∀ (pre : List PropData) (s : RState) (fuel : Nat), ps.length ≤ fuel → s.stor = pre.map (blank s) →
      ((pre ++ ps).map PropData.key).Nodup →
      applyDirpLoop s fuel (dirpPayload ps) =
        .ok { s with stor := (pre ++ ps).map (blank s),
                     dir := s.dir ++ (List.range' pre.length ps.length).map some } := by
  induction ps with
  | nil =>
    intro pre s fuel _ hst _
    cases fuel <;> simp [applyDirpLoop, dirpPayload, pure, Except.pure, ← hst]
  | cons p ps ih =>
    intro pre s fuel hfuel hst hnd
    obtain ⟨fuel, rfl⟩ : ∃ f, fuel = f + 1 := ⟨fuel - 1, by simp at hfuel; omega⟩
    have hp := hps p (by simp)
    have hne : (dirpPayload (p :: ps)).isEmpty = false := by
      have := encPropInfo_ne_nil p
      simp only [dirpPayload, List.map_cons, List.flatten_cons]
      cases h : encPropInfo p
      · exact absurd h this
      · simp
    have hrd : runDec readPropInfo (dirpPayload (p :: ps)) = .ok ((p.entity, p.name, p.codec.name, p.dflt), dirpPayload ps) := by
      apply runDec_ok
      simp only [dirpPayload, List.map_cons, List.flatten_cons]
      exact readPropInfo_enc p hp _
    have hdd : runDec (decodeOne p.codec) p.dflt = .ok (p.dflt, []) := by
      apply runDec_ok
      have := decodeOne_valid p.codec p.dflt [] hp.dflt
      simpa using this
    have hfs : findStor s.stor p.entity p.name p.codec = none := by
      apply findStor_none
      rw [hst]
      intro x hx
      simp only [List.mem_map] at hx
      obtain ⟨q, hq, rfl⟩ := hx
      simp only [List.map_append, List.map_cons, List.nodup_append, List.mem_map, List.mem_cons] at hnd
      have := hnd.2.2 q.key ⟨q, hq, rfl⟩ p.key (Or.inl rfl)
      simpa [Storage.key, blank, blankC, PropData.key] using this
    have hnm : p.name.isEmpty = false := by
      have := hp.name1
      cases h : p.name
      · rw [h] at this; simp at this
      · rfl
    have hb : ∀ st d, blank { s with stor := st, dir := d } = blank s := fun _ _ => rfl
    rw [applyDirpLoop]
    simp only [hne, Bool.false_eq_true, if_false, hrd, bind, Except.bind, findCodec_name p.codec hp.codec, hdd, hfs, hnm]
    rw [ih (fun q hq => hps q (by simp [hq])) (pre ++ [p]) _ fuel (by simp at hfuel; omega)]
    · simp [hb, blank, blankC, RState.count, hst, List.range'_succ]
    · simp [hb, blank, blankC, RState.count, hst]
    · simpa using hnd

theorem dirpPayload_length_ge (ps : List PropData) : ps.length ≤ (dirpPayload ps).length := by
  induction ps with
  | nil => simp
  | cons p t ih =>
    have : 1 ≤ (encPropInfo p).length := by simp [encPropInfo]
    simp only [dirpPayload, List.map_cons, List.flatten_cons, List.length_append, List.length_cons] at ih ⊢
    omega

/-- `read_propdir_chunk` on the writer's directory, read into a mesh without properties -/
theorem applyDirp_enc (s : RState) (ps : List PropData) (hps : ∀ p ∈ ps, PropOk p) (hdir : s.dir = [])
    (hstor : s.stor = []) (hnd : (ps.map PropData.key).Nodup) :
    applyDirp s (dirpPayload ps) =
      .ok { s with stor := ps.map (blank s), dir := (List.range ps.length).map some } := by
  unfold applyDirp
  rw [hdir]
  simp only [List.isEmpty_nil, Bool.not_true, Bool.false_eq_true, if_false]
  rw [applyDirpLoop_enc ps hps [] s _ (dirpPayload_length_ge ps) (by simp [hstor]) (by simpa using hnd)]
  simp [hdir, List.range_eq_range']

/-! ### TOPO -/



theorem w64_sub_add {h off : Nat} (h1 : off ≤ h) (h2 : h < 2 ^ 64) : w64 (h - off + off) = h := by
  unfold w64; rw [Nat.sub_add_cancel h1]; exact Nat.mod_eq_of_lt h2

theorem encOk_cases {e : Nat} (h : encOk e = true) : e = 1 ∨ e = 2 ∨ e = 4 := by
  simp [encOk, intEncodingU8, intEncodingU16, intEncodingU32] at h; omega

theorem encOk_valid {e : Nat} (h : encOk e = true) :
    decide (e ∈ validIntEncoding) = true ∧ e ≠ intEncodingNone ∧ 1 ≤ elemSizeInt e := by
  rcases encOk_cases h with rfl | rfl | rfl <;> decide

/-- `read_n_ints` + range test on the handles of one face / cell, stored with offset `off` in width `w` -/
theorem readHandles_enc (w off bound : Nat) (l : List Nat) (rest : Bytes) (hb : bound ≤ 2 ^ 64)
    (hl : ∀ h ∈ l, off ≤ h ∧ h - off < 256 ^ w ∧ h < bound) :
    readHandles w off bound l.length (encInts w (l.map (· - off)) ++ rest) = .ok (l, rest) := by
  have hr := readInts_enc w (l.map (· - off)) rest (by
    intro x hx; simp only [List.mem_map] at hx; obtain ⟨h, hh, rfl⟩ := hx; exact (hl h hh).2.1)
  simp only [List.length_map] at hr
  have hmap : (l.map (· - off)).map (fun x => w64 (x + off)) = l := by
    rw [List.map_map]
    conv => rhs; rw [← List.map_id l]
    apply List.map_congr_left
    intro h hh
    obtain ⟨h1, _, h3⟩ := hl h hh
    exact w64_sub_add h1 (by omega)
  have hall : (l.all (· < bound)) = true := by
    simp only [List.all_eq_true, decide_eq_true_eq]; intro h hh; exact (hl h hh).2.2
  have hg : decide (l.length * w ≤ (encInts w (l.map (· - off)) ++ rest).length) = true := by
    simp only [List.length_append, encInts_length, List.length_map, decide_eq_true_eq]
    rw [Nat.mul_comm]; omega
  simp only [readHandles, bind_run, remaining_run, hg, guard_true, hr, hmap, hall, pure_run]

theorem readFaceLists_enc (w off bound : Nat) (ls : List (List Nat)) (rest : Bytes) (hb : bound ≤ 2 ^ 64)
    (hl : ∀ l ∈ ls, l ≠ [] ∧ ∀ h ∈ l, off ≤ h ∧ h - off < 256 ^ w ∧ h < bound) :
    readFaceLists w off bound (ls.map List.length) (encInts w (ls.flatten.map (· - off)) ++ rest) = .ok (ls, rest) := by
  induction ls with
  | nil => simp [readFaceLists]
  | cons l t ih =>
    have h1 := readHandles_enc w off bound l (encInts w (t.flatten.map (· - off)) ++ rest) hb (hl l (by simp)).2
    have h2 := ih (fun x hx => hl x (by simp [hx]))
    have hne : (l.length != 0) = true := by
      have := (hl l (by simp)).1
      cases l with
      | nil => exact absurd rfl this
      | cons _ _ => simp
    simp only [List.map_cons, List.flatten_cons, List.map_append, encInts_append, List.append_assoc, readFaceLists,
      bind_run, h1, hne, guard_true, h2, pure_run]

theorem readTopoHdr_enc (first count entity valence valEnc hEnc off : Nat) (rest : Bytes)
    (h1 : first < 2 ^ 64) (h2 : count < 2 ^ 32) (h3 : entity ∈ validTopoEntity) (h4 : valence < 256)
    (h5 : valEnc ∈ validIntEncoding) (h6 : hEnc ∈ validIntEncoding) (h7 : off < 2 ^ 64) :
    readTopoHdr (encTopoHeader first count entity valence valEnc hEnc off ++ rest) =
      .ok (⟨first, count, entity, valence, valEnc, hEnc, off⟩, rest) := by
  have e1 := uN_leN 8 first (by simpa using h1)
  have e2 := uN_leN 4 count (by simpa using h2)
  have e3 := uN_leN 1 entity (by simp [validTopoEntity] at h3; omega)
  have e4 := uN_leN 1 valence (by simpa using h4)
  have e5 := uN_leN 1 valEnc (by simp [validIntEncoding] at h5; omega)
  have e6 := uN_leN 1 hEnc (by simp [validIntEncoding] at h6; omega)
  have e7 := uN_leN 8 off (by simpa using h7)
  have d3 : decide (entity ∈ validTopoEntity) = true := by simpa using h3
  have d5 : decide (valEnc ∈ validIntEncoding) = true := by simpa using h5
  have d6 : decide (hEnc ∈ validIntEncoding) = true := by simpa using h6
  simp only [readTopoHdr, encTopoHeader, encSpan, List.append_assoc, bind_run, u64, u32, u8, e1, e2, e3, e4, e5, e6, e7,
    d3, d5, d6, guard_true, pure_run]

/-- side conditions under which a list of faces / cells can be stored in a TOPO chunk with the given valence mode,
    handle width and handle offset, and passes the reader's range test against `bound` -/
structure ListsOk (ls : List (List Nat)) (valence valEnc hEnc off bound : Nat) : Prop where
  count1 : 1 ≤ ls.length
  count32 : ls.length < 2 ^ 32
  hEncOk : encOk hEnc = true
  offLt : off < 2 ^ 64
  boundLe : bound ≤ 2 ^ 64
  handles : ∀ l ∈ ls, l ≠ [] ∧ ∀ h ∈ l, off ≤ h ∧ h - off < 256 ^ elemSizeInt hEnc ∧ h < bound
  mode : (valence ≠ 0 ∧ valEnc = intEncodingNone ∧ valence < 256 ∧ (∀ l ∈ ls, l.length = valence))
       ∨ (valence = 0 ∧ encOk valEnc = true ∧ ∀ l ∈ ls, l.length < 256 ^ elemSizeInt valEnc)

theorem flatten_length_fixed (ls : List (List Nat)) (v : Nat) (h : ∀ l ∈ ls, l.length = v) :
    ls.flatten.length = v * ls.length := by
  induction ls with
  | nil => simp
  | cons l t ih =>
    simp only [List.flatten_cons, List.length_append, List.length_cons, h l (by simp),
      ih (fun x hx => h x (by simp [hx])), Nat.mul_succ]; omega

theorem map_length_fixed (ls : List (List Nat)) (v : Nat) (h : ∀ l ∈ ls, l.length = v) :
    ls.map List.length = List.replicate ls.length v := by
  induction ls with
  | nil => simp
  | cons l t ih => simp [h l (by simp), ih (fun x hx => h x (by simp [hx])), List.replicate_succ]

/-- header and valence list of a face / cell TOPO chunk, as `read_topo_chunk` sees them -/
theorem topo_front (first entity : Nat) (hent : entity ∈ validTopoEntity) (hfirst : first < 2 ^ 64)
    (ls : List (List Nat)) (valence valEnc hEnc off bound : Nat) (hok : ListsOk ls valence valEnc hEnc off bound) :
    ∃ hb : Bytes,
      topoPayload first entity valence valEnc hEnc off ls = encTopoHeader first ls.length entity valence valEnc hEnc off ++ hb ∧
      runDec readTopoHdr (topoPayload first entity valence valEnc hEnc off ls)
        = .ok (⟨first, ls.length, entity, valence, valEnc, hEnc, off⟩, hb) ∧
      runDec (if valence = 0 then (do
          let rem ← remaining
          guard (decide (ls.length * elemSizeInt valEnc ≤ rem))
          readInts (elemSizeInt valEnc) ls.length) else pure []) hb
        = .ok (if valence = 0 then ls.map List.length else [], encInts (elemSizeInt hEnc) (ls.flatten.map (· - off))) ∧
      (encInts (elemSizeInt hEnc) (ls.flatten.map (· - off))).length =
        (if valence = 0 then (ls.map List.length).sum else valence * ls.length) * elemSizeInt hEnc := by
  obtain ⟨hv6, _, _⟩ := encOk_valid hok.hEncOk
  have hpay : topoPayload first entity valence valEnc hEnc off ls = encTopoHeader first ls.length entity valence valEnc hEnc off ++
      ((if valence = 0 then encInts (elemSizeInt valEnc) (ls.map List.length) else [])
        ++ encInts (elemSizeInt hEnc) (ls.flatten.map (· - off))) := by
    simp [topoPayload, List.append_assoc]
  refine ⟨_, hpay, ?_, ?_, ?_⟩
  · apply runDec_ok
    rw [hpay]
    apply readTopoHdr_enc _ _ _ _ _ _ _ _ hfirst hok.count32 hent
    · rcases hok.mode with ⟨_, _, h, _⟩ | ⟨h, _⟩ <;> omega
    · rcases hok.mode with ⟨_, h, _⟩ | ⟨_, h, _⟩
      · rw [h]; decide
      · exact of_decide_eq_true (encOk_valid h).1
    · exact of_decide_eq_true hv6
    · exact hok.offLt
  · apply runDec_ok
    rcases hok.mode with ⟨h0, _, _⟩ | ⟨h0, he, hl⟩
    · simp [h0]
    · subst h0
      have hr := readInts_enc (elemSizeInt valEnc) (ls.map List.length)
        (encInts (elemSizeInt hEnc) (ls.flatten.map (· - off)))
        (by intro x hx; simp only [List.mem_map] at hx; obtain ⟨l, hl', rfl⟩ := hx; exact hl l hl')
      simp only [List.length_map] at hr
      have hg : decide (ls.length * elemSizeInt valEnc ≤
          (encInts (elemSizeInt valEnc) (ls.map List.length) ++ encInts (elemSizeInt hEnc) (ls.flatten.map (· - off))).length) = true := by
        simp only [List.length_append, encInts_length, List.length_map, decide_eq_true_eq]
        rw [Nat.mul_comm]; omega
      simp only [if_true, bind_run, remaining_run, hg, guard_true, hr]
  · rw [encInts_length, List.length_map, Nat.mul_comm]
    congr 1
    rcases hok.mode with ⟨h0, _, _, hl⟩ | ⟨h0, _, _⟩
    · rw [if_neg h0]; exact flatten_length_fixed ls valence hl
    · rw [if_pos h0, List.length_flatten]

theorem validSpan_ok (total read count : Nat) (h : count ≤ total - read) : validSpan total read read count = true := by
  simp [validSpan, h]

/-- `read_topo_chunk` / `read_faces` on a span of faces that continues where the last one ended -/
theorem applyTopo_faces (cfg : Cfg) (s : RState) (ls : List (List Nat)) (valence valEnc hEnc off : Nat)
    (hok : ListsOk ls valence valEnc hEnc off (2 * s.edges.length))
    (hspan : ls.length ≤ s.nF - s.faces.length) (hfirst : s.faces.length < 2 ^ 64)
    (htet : s.topo = topoTypeTetrahedral → valence = 3) (hhex : s.topo = topoTypeHexahedral → valence = 4)
    (hadd : addFaces cfg s.edges ls = .ok true) :
    applyTopo cfg s (topoPayload s.faces.length topoEntityFace valence valEnc hEnc off ls) =
      .ok { s with faces := s.faces ++ ls,
                   stor := growStor (growStor s.stor propertyEntityFace ls.length) propertyEntityHalfFace (2 * ls.length) } := by
  obtain ⟨hb, _, h1, h2, h3⟩ := topo_front s.faces.length topoEntityFace (by decide) hfirst ls valence valEnc hEnc off _ hok
  obtain ⟨_, hne, _⟩ := encOk_valid hok.hEncOk
  have hc0 : ls.length ≠ 0 := by have := hok.count1; omega
  have hm1 : ¬(valence ≠ 0 ∧ valEnc ≠ intEncodingNone) := by
    rcases hok.mode with ⟨_, h, _⟩ | ⟨h, _⟩
    · simp [h]
    · simp [h]
  have hm2 : ¬(valence = 0 ∧ valEnc = intEncodingNone) := by
    rcases hok.mode with ⟨h, _⟩ | ⟨_, h, _⟩
    · simp [h]
    · simp [(encOk_valid h).2.1]
  have hvals : (if valence = 0 then (if valence = 0 then ls.map List.length else []) else List.replicate ls.length valence)
      = ls.map List.length := by
    rcases hok.mode with ⟨h0, _, _, hl⟩ | ⟨h0, _⟩
    · rw [if_neg h0]; exact (map_length_fixed ls valence hl).symm
    · simp [h0]
  have hsum : (if valence = 0 then (if valence = 0 then ls.map List.length else []).sum else valence * ls.length)
      = (if valence = 0 then (ls.map List.length).sum else valence * ls.length) := by
    split <;> rfl
  have h4 := readFaceLists_enc (elemSizeInt hEnc) off (2 * s.edges.length) ls [] hok.boundLe hok.handles
  rw [List.append_nil] at h4
  have h5 := runDec_ok h4
  have hvs := validSpan_ok s.nF s.faces.length ls.length hspan
  unfold applyTopo
  simp only [h1, R_ok_bind, hc0, hne, hm1, hm2, if_false, h2, hsum, h3, ne_eq,
    show topoEntityFace ≠ topoEntityEdge by decide, if_true, hvs, Bool.not_true, Bool.false_eq_true, hvals, h5, hadd]
  have ht : ¬(s.topo = topoTypeTetrahedral ∧ ¬valence = 3) := fun ⟨a, b⟩ => b (htet a)
  have hh : ¬(s.topo = topoTypeHexahedral ∧ ¬valence = 4) := fun ⟨a, b⟩ => b (hhex a)
  simp [ht, hh, R_pure]

/-- `read_topo_chunk` / `read_cells` on a span of cells that continues where the last one ended -/
theorem applyTopo_cells (cfg : Cfg) (s : RState) (ls : List (List Nat)) (valence valEnc hEnc off : Nat)
    (hok : ListsOk ls valence valEnc hEnc off (2 * s.faces.length))
    (hspan : ls.length ≤ s.nC - s.cells.length) (hfirst : s.cells.length < 2 ^ 64)
    (htet : s.topo = topoTypeTetrahedral → valence = 4) (hhex : s.topo = topoTypeHexahedral → valence = 6)
    (hadd : addCells cfg s.edges s.faces ls = .ok (some ls)) :
    applyTopo cfg s (topoPayload s.cells.length topoEntityCell valence valEnc hEnc off ls) =
      .ok { s with cells := s.cells ++ ls, stor := growStor s.stor propertyEntityCell ls.length } := by
  obtain ⟨hb, _, h1, h2, h3⟩ := topo_front s.cells.length topoEntityCell (by decide) hfirst ls valence valEnc hEnc off _ hok
  obtain ⟨_, hne, _⟩ := encOk_valid hok.hEncOk
  have hc0 : ls.length ≠ 0 := by have := hok.count1; omega
  have hm1 : ¬(valence ≠ 0 ∧ valEnc ≠ intEncodingNone) := by
    rcases hok.mode with ⟨_, h, _⟩ | ⟨h, _⟩
    · simp [h]
    · simp [h]
  have hm2 : ¬(valence = 0 ∧ valEnc = intEncodingNone) := by
    rcases hok.mode with ⟨h, _⟩ | ⟨_, h, _⟩
    · simp [h]
    · simp [(encOk_valid h).2.1]
  have hvals : (if valence = 0 then (if valence = 0 then ls.map List.length else []) else List.replicate ls.length valence)
      = ls.map List.length := by
    rcases hok.mode with ⟨h0, _, _, hl⟩ | ⟨h0, _⟩
    · rw [if_neg h0]; exact (map_length_fixed ls valence hl).symm
    · simp [h0]
  have hsum : (if valence = 0 then (if valence = 0 then ls.map List.length else []).sum else valence * ls.length)
      = (if valence = 0 then (ls.map List.length).sum else valence * ls.length) := by
    split <;> rfl
  have h4 := readFaceLists_enc (elemSizeInt hEnc) off (2 * s.faces.length) ls [] hok.boundLe hok.handles
  rw [List.append_nil] at h4
  have h5 := runDec_ok h4
  have hvs := validSpan_ok s.nC s.cells.length ls.length hspan
  unfold applyTopo
  simp only [h1, R_ok_bind, hc0, hne, hm1, hm2, if_false, h2, hsum, h3, ne_eq,
    show topoEntityCell ≠ topoEntityEdge by decide, show topoEntityCell ≠ topoEntityFace by decide,
    hvs, Bool.not_true, Bool.false_eq_true, hvals, h5, hadd]
  have ht : ¬(s.topo = topoTypeTetrahedral ∧ ¬valence = 4) := fun ⟨a, b⟩ => b (htet a)
  have hh : ¬(s.topo = topoTypeHexahedral ∧ ¬valence = 6) := fun ⟨a, b⟩ => b (hhex a)
  simp [ht, hh, R_pure]

theorem pairUp_edgeLists (es : List (Nat × Nat)) : pairUp (edgeLists es).flatten = es := by
  induction es with
  | nil => rfl
  | cons e t ih => simp only [edgeLists, List.map_cons, List.flatten_cons] at ih ⊢; simp [pairUp, ih]

/-- side conditions for a span of edges stored with handle width `hEnc` and offset `off` -/
structure EdgesOk (es : List (Nat × Nat)) (hEnc off bound : Nat) : Prop where
  count1 : 1 ≤ es.length
  count32 : 2 * es.length < 2 ^ 32
  hEncOk : encOk hEnc = true
  offLt : off < 2 ^ 64
  boundLe : bound ≤ 2 ^ 64
  handles : ∀ e ∈ es, (off ≤ e.1 ∧ e.1 - off < 256 ^ elemSizeInt hEnc ∧ e.1 < bound)
                    ∧ (off ≤ e.2 ∧ e.2 - off < 256 ^ elemSizeInt hEnc ∧ e.2 < bound)

theorem EdgesOk.lists {es : List (Nat × Nat)} {hEnc off bound : Nat} (h : EdgesOk es hEnc off bound) :
    ListsOk (edgeLists es) 2 intEncodingNone hEnc off bound where
  count1 := by simpa [edgeLists] using h.count1
  count32 := by have := h.count32; simp [edgeLists]; omega
  hEncOk := h.hEncOk
  offLt := h.offLt
  boundLe := h.boundLe
  handles := by
    intro l hl
    simp only [edgeLists, List.mem_map] at hl
    obtain ⟨e, he, rfl⟩ := hl
    refine ⟨by simp, ?_⟩
    intro x hx
    simp only [List.mem_cons, List.not_mem_nil, or_false] at hx
    rcases hx with rfl | rfl
    · exact (h.handles e he).1
    · exact (h.handles e he).2
  mode := Or.inl ⟨by decide, rfl, by decide, by
    intro l hl
    simp only [edgeLists, List.mem_map] at hl
    obtain ⟨e, _, rfl⟩ := hl; rfl⟩

/-- `read_topo_chunk` / `read_edges` on a span of edges that continues where the last one ended -/
theorem applyTopo_edges (cfg : Cfg) (s : RState) (es : List (Nat × Nat)) (hEnc off : Nat)
    (hok : EdgesOk es hEnc off s.nVr)
    (hspan : es.length ≤ s.nE - s.edges.length) (hfirst : s.edges.length < 2 ^ 64) :
    applyTopo cfg s (topoPayload s.edges.length topoEntityEdge 2 intEncodingNone hEnc off (edgeLists es)) =
      .ok { s with edges := s.edges ++ es,
                   stor := growStor (growStor s.stor propertyEntityEdge es.length) propertyEntityHalfEdge (2 * es.length) } := by
  have hl := hok.lists
  obtain ⟨hb, _, h1, h2, h3⟩ := topo_front s.edges.length topoEntityEdge (by decide) hfirst (edgeLists es) 2
    intEncodingNone hEnc off _ hl
  obtain ⟨_, hne, _⟩ := encOk_valid hok.hEncOk
  have hlen : (edgeLists es).length = es.length := by simp [edgeLists]
  have hc0 : es.length ≠ 0 := by have := hok.count1; omega
  have hfl : (edgeLists es).flatten.length = 2 * es.length := by
    rw [flatten_length_fixed (edgeLists es) 2 (by
      intro l hl'; simp only [edgeLists, List.mem_map] at hl'; obtain ⟨e, _, rfl⟩ := hl'; rfl), hlen]
  have hr := readInts_enc (elemSizeInt hEnc) ((edgeLists es).flatten.map (· - off)) [] (by
    intro x hx
    simp only [List.mem_map, List.mem_flatten] at hx
    obtain ⟨h, ⟨l, hl', hh⟩, rfl⟩ := hx
    exact ((hl.handles l hl').2 h hh).2.1)
  simp only [List.length_map, hfl, List.append_nil] at hr
  have hr' := runDec_ok hr
  have hmap : ((edgeLists es).flatten.map (· - off)).map (fun x => w64 (x + off)) = (edgeLists es).flatten := by
    rw [List.map_map]
    conv => rhs; rw [← List.map_id (edgeLists es).flatten]
    apply List.map_congr_left
    intro h hh
    simp only [List.mem_flatten] at hh
    obtain ⟨l, hl', hh⟩ := hh
    obtain ⟨a, _, c⟩ := (hl.handles l hl').2 h hh
    have := hok.boundLe
    exact w64_sub_add a (by omega)
  have hall : ((edgeLists es).flatten.all (· < s.nVr)) = true := by
    simp only [List.all_eq_true, decide_eq_true_eq, List.mem_flatten]
    rintro h ⟨l, hl', hh⟩
    exact ((hl.handles l hl').2 h hh).2.2
  have hvs := validSpan_ok s.nE s.edges.length es.length hspan
  rw [hlen] at h1 h2 h3
  unfold applyTopo
  simp only [h1, R_ok_bind, hc0, hne, if_false, h2, h3, ne_eq, not_true_eq_false, and_false,
    if_true, hvs, Bool.not_true, Bool.false_eq_true, hr', hmap, hall, pairUp_edgeLists]
  simp [R_pure]

/-! ### PROP -/


theorem encodeN_nil (c : Codec) : encodeN c [] = [] := by
  unfold encodeN; cases c.kind <;> simp [packBits]

/-- `read_prop_chunk` on a span of values of the property the directory entry `idx` designates -/
theorem applyProp_enc (s : RState) (idx i first : Nat) (st : Storage) (vals : List Bytes)
    (hidx : idx < 2 ^ 32) (hdir : s.dir[idx]? = some (some i)) (hst : s.stor[i]? = some st)
    (hvals : ∀ v ∈ vals, validVal st.codec v = true) (hc32 : vals.length < 2 ^ 32) (hf : first < 2 ^ 64)
    (hrange : vals.length = 0 ∨ (first + vals.length ≤ s.readCount st.entity ∧ first + vals.length ≤ st.vals.length)) :
    applyProp s (propPayload first idx st.codec vals) =
      .ok { s with stor := s.stor.set i { st with vals := st.vals.take first ++ vals ++ st.vals.drop (first + vals.length) } } := by
  have e1 := uN_leN 8 first (by simpa using hf)
  have e2 := uN_leN 4 vals.length (by simpa using hc32)
  have e3 := uN_leN 4 idx (by simpa using hidx)
  have hd : runDec (do let first ← u64; let count ← u32; let idx ← u32; pure (first, count, idx))
      (propPayload first idx st.codec vals) = .ok ((first, vals.length, idx), encodeN st.codec vals) := by
    apply runDec_ok
    simp only [propPayload, encPropHeader, encSpan, List.append_assoc, bind_run, u64, u32, e1, e2, e3, pure_run]
  unfold applyProp
  simp only [hd, R_ok_bind, hdir, hst]
  by_cases h0 : vals.length = 0
  · have hv : vals = [] := List.length_eq_zero_iff.mp h0
    subst hv
    simp only [List.length_nil, if_true, encodeN_nil, List.isEmpty_nil, R_pure, List.append_nil, Nat.add_zero,
      List.take_append_drop]
    congr 1
    have : s.stor.set i st = s.stor := by
      apply List.ext_getElem?
      intro j
      by_cases hj : i = j
      · subst hj; rw [List.getElem?_set_self' ]; simp [hst]
      · rw [List.getElem?_set_ne hj]
    cases s; simp_all
  · obtain ⟨hr1, hr2⟩ := hrange.resolve_left h0
    have hdn := runDec_ok (decodeN_encodeN st.codec vals [] hvals)
    rw [List.append_nil] at hdn
    have hc1 : ¬(first ≥ s.readCount st.entity ∨ s.readCount st.entity - first < vals.length) := by omega
    have hc2 : ¬(first + vals.length > st.vals.length) := by omega
    simp only [h0, if_false, hc1, hc2, hdn, R_pure]
    rfl

end OVM.Ovmb

/-
  OVMB model, proofs: the writer's file as a sequence of chunk records, and truncation (C18).

  * `writerChunkDs F`: the chunks of `encode F` as `ChunkD` records (`encode_eq`), each well framed when the file
    length fits 64 bits (`SizeOk`, `writerChunkDs_fits`), only the last one an EOF chunk (`writerChunkDs_notEof`).
  * `runChunks` / `loop_chunks`: the chunk loop over a complete file = the payload readers applied in order,
    then `finish` (used by the round trip).
  * `decode_prefix_rejected`, `decodeFaulty_rejected`: every strict prefix of `encode F` and every stream that
    stops delivering before the end is rejected, for every reader configuration (no well-formedness or
    acceptance hypothesis: a reader that rejects earlier has rejected too).
  Proof-only file (not imported by the judge).  Core only.
-/
import OVM.IO.Ovmb.RoundTripChunks
namespace OVM.Ovmb
open OVM.Gen.Ovmb Dec

/-- the reader state after the payload readers have processed the chunks `cs` in order -/
def runChunks (cfg : Cfg) : RState → List ChunkD → R RState
  | s, [] => .ok s
  | s, c :: cs => match processChunk cfg s c.hdr c.payload with
    | .error e => .error e
    | .ok s' => runChunks cfg s' cs

theorem runChunks_append (cfg : Cfg) (s : RState) (a b : List ChunkD) :
    runChunks cfg s (a ++ b) = match runChunks cfg s a with
      | .error e => .error e
      | .ok s' => runChunks cfg s' b := by
  induction a generalizing s with
  | nil => rfl
  | cons c t ih =>
    simp only [List.cons_append, runChunks]
    cases processChunk cfg s c.hdr c.payload with
    | error e => rfl
    | ok s' => exact ih s'

/-- the chunk loop over a healthy stream holding exactly the well-framed chunks `cs` -/
theorem loop_chunks (cfg : Cfg) (cs : List ChunkD) (hfit : ∀ c ∈ cs, c.Fits) (s : RState) :
    loop cfg s ⟨(cs.map ChunkD.bytes).flatten.length, (cs.map ChunkD.bytes).flatten⟩ =
      match runChunks cfg s cs with
      | .error e => .error e
      | .ok s' => finish s' := by
  induction cs generalizing s with
  | nil => rw [loop_zero _ _ _ (by simp)]; rfl
  | cons c cs ih =>
    have hlen : 0 < c.bytes.length := by rw [ChunkD.bytes_length]; simp only [sizeChunkHeader]; omega
    simp only [List.map_cons, List.flatten_cons, List.length_append]
    have h0 : (⟨c.bytes.length + (cs.map ChunkD.bytes).flatten.length, c.bytes ++ (cs.map ChunkD.bytes).flatten⟩ : Stream).rem ≠ 0 := by
      simp only; omega
    have hfull := readChunk_full cfg s c (hfit c (by simp)) (c.bytes.length + (cs.map ChunkD.bytes).flatten.length)
      (cs.map ChunkD.bytes).flatten (by omega)
    simp only [runChunks]
    cases hp : processChunk cfg s c.hdr c.payload with
    | error e => rw [hp] at hfull; rw [loop_err _ _ _ e h0 hfull]
    | ok s' =>
      rw [hp] at hfull
      rw [loop_ok _ _ _ _ _ h0 hfull, Nat.add_sub_cancel_left]
      exact ih (fun c' hc' => hfit c' (by simp [hc'])) s'

/-- `BinaryFileWriter::write_chunk(type)` as a chunk record -/
def wc (ty : Nat) (payload : Bytes) : ChunkD := ⟨ty, 0, padTo8 payload.length, 0, chunkFlagsMandatory, payload⟩

@[simp] theorem wc_bytes (ty : Nat) (p : Bytes) : (wc ty p).bytes = writerChunk ty p := rfl

def propChunkDsFrom : Nat → List PropData → List ChunkD
  | _, [] => []
  | i, p :: ps => wc ccPROP (propPayload 0 i p.codec p.vals) :: propChunkDsFrom (i + 1) ps

theorem propChunkDsFrom_bytes (i : Nat) (ps : List PropData) :
    (propChunkDsFrom i ps).map ChunkD.bytes = propChunksFrom i ps := by
  induction ps generalizing i with
  | nil => rfl
  | cons p t ih => simp [propChunkDsFrom, propChunksFrom, ih]

def dirpCh (F : File) : List ChunkD := if F.props.isEmpty then [] else [wc ccDIRP (dirpPayload F.props)]
def vertCh (F : File) : List ChunkD :=
  if F.pos.length = 0 then [] else [wc ccVERT (vertPayload 0 vertexEncodingDouble F.pos)]
def edgeCh (F : File) : List ChunkD :=
  if F.edges.length = 0 then [] else
    [wc ccTOPO (topoPayload 0 topoEntityEdge 2 intEncodingNone (suitableIntEncoding F.pos.length) 0 (edgeLists F.edges))]
def faceCh (F : File) : List ChunkD :=
  let fm := writerValMode (F.faces.map List.length)
  if F.faces.length = 0 then [] else
    [wc ccTOPO (topoPayload 0 topoEntityFace fm.1 fm.2 (suitableIntEncoding (2 * F.edges.length)) 0 F.faces)]
def cellCh (F : File) : List ChunkD :=
  let cm := writerValMode (F.cells.map List.length)
  if F.cells.length = 0 then [] else
    [wc ccTOPO (topoPayload 0 topoEntityCell cm.1 cm.2 (suitableIntEncoding (2 * F.faces.length)) 0 F.cells)]

/-- the chunks of `encode F` before the EOF chunk, as records -/
def frontChunkDs (F : File) : List ChunkD :=
  dirpCh F ++ vertCh F ++ edgeCh F ++ faceCh F ++ cellCh F ++ propChunkDsFrom 0 F.props

/-- the chunks of `encode F` as records -/
def writerChunkDs (F : File) : List ChunkD := frontChunkDs F ++ [wc ccEOF []]

theorem writerChunkDs_bytes (F : File) : (writerChunkDs F).map ChunkD.bytes = writerChunks F := by
  simp only [writerChunkDs, frontChunkDs, writerChunks, List.map_append, propChunkDsFrom_bytes, dirpCh, vertCh, edgeCh, faceCh, cellCh,
    eofChunk]
  congr 1; congr 1; congr 1; congr 1; congr 1; congr 1
  all_goals (split <;> simp)

theorem encode_eq (F : File) : encode F = writerHeader F ++ ((writerChunkDs F).map ChunkD.bytes).flatten := by
  rw [writerChunkDs_bytes]; rfl

theorem padTo8_lt (n : Nat) : padTo8 n < 8 := by unfold padTo8; omega

theorem mem_flatten_length_le {c : ChunkD} {cs : List ChunkD} (h : c ∈ cs) :
    c.bytes.length ≤ (cs.map ChunkD.bytes).flatten.length := by
  induction cs with
  | nil => cases h
  | cons d t ih =>
    simp only [List.map_cons, List.flatten_cons, List.length_append]
    rcases List.mem_cons.mp h with rfl | h
    · omega
    · have := ih h; omega

theorem wc_fits (ty : Nat) (p : Bytes) (hty : ty < 2 ^ 32) (hlen : (wc ty p).bytes.length < 2 ^ 64) : (wc ty p).Fits := by
  rw [ChunkD.bytes_length] at hlen
  exact ⟨hty, by simp [wc], by have := padTo8_lt p.length; simp only [wc]; omega, by simp [wc],
    by simp [wc, chunkFlagsMandatory, validChunkFlags], by simp only [wc] at hlen ⊢; omega⟩

theorem propChunkDsFrom_ty (i : Nat) (ps : List PropData) : ∀ c ∈ propChunkDsFrom i ps, ∃ p, c = wc ccPROP p := by
  induction ps generalizing i with
  | nil => intro c hc; cases hc
  | cons p t ih =>
    intro c hc
    rcases List.mem_cons.mp hc with rfl | hc
    · exact ⟨_, rfl⟩
    · exact ih _ c hc

theorem frontChunkDs_wc (F : File) : ∀ c ∈ frontChunkDs F, ∃ ty p, c = wc ty p ∧
    (ty = ccDIRP ∨ ty = ccVERT ∨ ty = ccTOPO ∨ ty = ccPROP) := by
  intro c hc
  simp only [frontChunkDs, List.mem_append, dirpCh, vertCh, edgeCh, faceCh, cellCh] at hc
  rcases hc with ((((hc | hc) | hc) | hc) | hc) | hc
  · split at hc
    · cases hc
    · simp only [List.mem_singleton] at hc; exact ⟨_, _, hc, Or.inl rfl⟩
  · split at hc
    · cases hc
    · simp only [List.mem_singleton] at hc; exact ⟨_, _, hc, Or.inr (Or.inl rfl)⟩
  · split at hc
    · cases hc
    · simp only [List.mem_singleton] at hc; exact ⟨_, _, hc, Or.inr (Or.inr (Or.inl rfl))⟩
  · split at hc
    · cases hc
    · simp only [List.mem_singleton] at hc; exact ⟨_, _, hc, Or.inr (Or.inr (Or.inl rfl))⟩
  · split at hc
    · cases hc
    · simp only [List.mem_singleton] at hc; exact ⟨_, _, hc, Or.inr (Or.inr (Or.inl rfl))⟩
  · obtain ⟨p, hp⟩ := propChunkDsFrom_ty _ _ c hc
    exact ⟨_, _, hp, Or.inr (Or.inr (Or.inr rfl))⟩

/-- every chunk the writer emits is `write_chunk` of one of the five known types -/
theorem writerChunkDs_wc (F : File) : ∀ c ∈ writerChunkDs F, ∃ ty p, c = wc ty p ∧
    (ty = ccDIRP ∨ ty = ccVERT ∨ ty = ccTOPO ∨ ty = ccPROP ∨ ty = ccEOF) := by
  intro c hc
  rcases List.mem_append.mp hc with hc | hc
  · obtain ⟨ty, p, h, h'⟩ := frontChunkDs_wc F c hc
    exact ⟨ty, p, h, by rcases h' with h | h | h | h <;> simp [h]⟩
  · simp only [List.mem_singleton] at hc; exact ⟨_, _, hc, by simp⟩

/-- the file fits the 64-bit length fields of the format -/
def SizeOk (F : File) : Prop := (encode F).length < 2 ^ 64

theorem writerChunkDs_fits (F : File) (hs : SizeOk F) : ∀ c ∈ writerChunkDs F, c.Fits := by
  intro c hc
  obtain ⟨ty, p, rfl, hty⟩ := writerChunkDs_wc F c hc
  have hl := mem_flatten_length_le hc
  have : (encode F).length < 2 ^ 64 := hs
  rw [encode_eq, List.length_append] at this
  apply wc_fits _ _ _ (by omega)
  rcases hty with rfl | rfl | rfl | rfl | rfl <;> decide

theorem writerChunkDs_notEof (F : File) : ∀ c ∈ (writerChunkDs F).dropLast, c.notEof := by
  intro c hc
  rw [writerChunkDs, List.dropLast_concat] at hc
  obtain ⟨ty, p, rfl, hty⟩ := frontChunkDs_wc F c hc
  intro ⟨h, _⟩
  simp only [wc] at h
  rcases hty with rfl | rfl | rfl | rfl <;> revert h <;> decide

/-- truncation and read faults for any byte string of the form `file header ++ well-framed chunks, EOF last` -/
theorem framed_prefix_rejected (cfg : Cfg) (bytes hdr : Bytes) (cs : List ChunkD)
    (hb : bytes = hdr ++ (cs.map ChunkD.bytes).flatten) (hh : hdr.length = sizeFileHeader)
    (hfit : ∀ c ∈ cs, c.Fits) (hne : ∀ c ∈ cs.dropLast, c.notEof) (p : Nat) (hp : p < bytes.length) (F' : File) :
    decode cfg (bytes.take p) ≠ .ok F' ∧ decodeFaulty cfg bytes p ≠ .ok F' := by
  subst hb
  have hpre := List.take_prefix p (hdr ++ (cs.map ChunkD.bytes).flatten)
  have hlen : ((hdr ++ (cs.map ChunkD.bytes).flatten).take p).length = p := by
    rw [List.length_take]; omega
  unfold decode decodeFaulty
  exact ⟨decodeStream_truncated cfg hdr hh cs hfit hne _ _ hpre (by rw [hlen]; exact hp) (Nat.le_refl _) F',
    decodeStream_truncated cfg hdr hh cs hfit hne _ _ hpre (by rw [hlen]; exact hp) (by rw [hlen]; omega) F'⟩

/-- **C18, read side (truncated file)**: no strict prefix of a file the writer produces is read successfully -/
theorem decode_prefix_rejected (cfg : Cfg) (F : File) (hs : SizeOk F) (p : Nat) (hp : p < (encode F).length)
    (F' : File) : decode cfg ((encode F).take p) ≠ .ok F' :=
  (framed_prefix_rejected cfg (encode F) (writerHeader F) (writerChunkDs F) (encode_eq F) (encFileHeader_length ..)
    (writerChunkDs_fits F hs) (writerChunkDs_notEof F) p hp F').1

/-- **C18, read side (failing stream)**: a stream that announces the full size but stops delivering at any
    position before the end is not read successfully -/
theorem decodeFaulty_rejected (cfg : Cfg) (F : File) (hs : SizeOk F) (p : Nat) (hp : p < (encode F).length)
    (F' : File) : decodeFaulty cfg (encode F) p ≠ .ok F' :=
  (framed_prefix_rejected cfg (encode F) (writerHeader F) (writerChunkDs F) (encode_eq F) (encFileHeader_length ..)
    (writerChunkDs_fits F hs) (writerChunkDs_notEof F) p hp F').2
end OVM.Ovmb

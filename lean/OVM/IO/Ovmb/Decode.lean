/-
  OVMB model, layer 5: the reader (`BinaryFileReader.cc`, `BinaryFileReader_impl.hh`, `BinaryIStream.cc`,
  `ovmb_codec.cc`) as it is after the fixes F1–F4, F13, F22–F24, with exactly the checks the C++ has.

  * Every `Decoder` primitive is checked (F3): a short buffer is `parse_error` → `InvalidFile`.
  * The kernel calls the reader makes (`add_face`, `add_cell` with their topology checks; tet/hex overrides) index
    `edges_` / `faces_` *unchecked* (NDEBUG): modelled by `getU`, which yields the ghost error `Err.ub` when out of
    range.  "Memory safe" is the theorem `decode … ≠ .error .ub` (C07), a statement about where the reader's range
    checks are placed — not an artefact of a totalised accessor.
  * The chunk loop is recursion on `Stream.rem` (what `remaining_bytes()` returns): every iteration consumes at
    least one chunk header.
  Core only.
-/
import OVM.IO.Ovmb.Encode
import OVM.Base.ListX

namespace OVM.Ovmb
open OVM.Gen.Ovmb Dec

/-- result of the hexahedral kernel's halfface-ordering step for a cell (`HexahedralMeshTopologyKernel::add_cell`
    with topology check): kept as given, rejected, re-ordered, or not predicted by the model instance in use. -/
inductive HexRes where
  | asIs | reject | reordered (l : List Nat) | unmodelled

/-- reading configuration: target mesh type, `ReadOptions::topology_check`, and the hex ordering oracle
    (`check_halfface_ordering` + re-ordering), abstract in the theorems, concrete in the judge. -/
structure Cfg where
  kind : MeshKind
  topoCheck : Bool
  hexOrder : List (List Nat) → List Nat → HexRes

/-- ghost outcomes next to the three `ReadResult` error classes -/
inductive RErr where
  | res (e : Err)      -- the reader returned this error class
  | ub                 -- an unchecked out-of-range access happened (undefined behaviour in the C++)
  | unmodelled         -- the hex re-ordering path, which this model instance does not predict
  deriving DecidableEq, Repr, Inhabited

abbrev R := Except RErr

def invalid {α} : R α := .error (.res .invalidFile)

/-- unchecked `vector::operator[]` of the kernel -/
def getU {α} (l : List α) (i : Nat) : R α :=
  match l[i]? with
  | some a => .ok a
  | none => .error .ub

/-- run a payload decoder; `parse_error` → `InvalidFile` -/
def runDec {α} (d : Dec α) (bs : Bytes) : R (α × Bytes) :=
  match d bs with
  | .ok r => .ok r
  | .error e => .error (.res e)

/-! ### the kernel as the reader uses it -/

/-- `(from_vertex, to_vertex)` of a halfedge (`TopologyKernel::halfedge`) -/
def heEnds (edges : List (Nat × Nat)) (he : Nat) : R (Nat × Nat) := do
  let e ← getU edges (he / 2)
  pure (if he % 2 = 0 then e else (e.2, e.1))

/-- `halfface(hf).halfedges()`: the face's list, reversed and flipped for the odd halfface -/
def hfHalfedges (faces : List (List Nat)) (hf : Nat) : R (List Nat) := do
  let f ← getU faces (hf / 2)
  pure (if hf % 2 = 0 then f else f.reverse.map (· ^^^ 1))

/-- topology check of `TopologyKernel::add_face`: consecutive halfedges connected, loop closed -/
def faceCheck (edges : List (Nat × Nat)) (hes : List Nat) : R Bool := do
  let ends ← hes.mapM (heEnds edges)
  match ends with
  | [] => pure false
  | e0 :: _ =>
    let tos := ends.map (·.2)
    let froms := (ends.map (·.1)).drop 1 ++ [e0.1]
    pure (tos == froms)

/-- `add_face(halfedges, topology_check)` of the mesh type: is the face accepted? -/
def addFace (cfg : Cfg) (edges : List (Nat × Nat)) (hes : List Nat) : R Bool :=
  if (cfg.kind = .tet ∧ hes.length ≠ 3) ∨ (cfg.kind = .hex ∧ hes.length ≠ 4) then pure false
  else if cfg.topoCheck then (if hes.isEmpty then pure false else faceCheck edges hes)
  else pure true

/-- topology check of `TopologyKernel::add_cell`: no halfedge twice, every used edge used in both directions -/
def cellCheck (faces : List (List Nat)) (hfs : List Nat) : R Bool := do
  let hes := (← hfs.mapM (hfHalfedges faces)).flatten
  let sorted := OVM.sortL hes
  pure (!OVM.adjDup sorted && hes.length == 2 * OVM.uniqByEdgeCount sorted)

def baseAddCell (cfg : Cfg) (faces : List (List Nat)) (hfs : List Nat) : R (Option (List Nat)) :=
  if cfg.topoCheck then
    if hfs.isEmpty then pure none
    else do let ok ← cellCheck faces hfs; pure (if ok then some hfs else none)
  else pure (some hfs)

/-- number of distinct vertices met by the halfedges of the given halffaces: the `std::set<VertexHandle>` guard of the
    tetrahedral / hexahedral `add_cell` overrides (64c6d58 / 7b999c9); unchecked `faces_[..]` / `edges_[..]` accesses -/
def cellEnds (edges : List (Nat × Nat)) (faces : List (List Nat)) (hfs : List Nat) : R (List (Nat × Nat)) := do
  let hes := (← hfs.mapM (hfHalfedges faces)).flatten
  hes.mapM (heEnds edges)

def spanCount (edges : List (Nat × Nat)) (faces : List (List Nat)) (hfs : List Nat) : R Nat := do
  let ends ← cellEnds edges faces hfs
  pure (OVM.toSet (ends.flatMap (fun e => [e.1, e.2]))).length

/-- 4614b67: no ordered vertex pair is used by two halfedges of the cell (tetrahedral override) -/
def noParallel (edges : List (Nat × Nat)) (faces : List (List Nat)) (hfs : List Nat) : R Bool := do
  let ends ← cellEnds edges faces hfs
  pure (decide ends.Nodup)

/-- start vertices of a halfface -/
def hfFroms (edges : List (Nat × Nat)) (faces : List (List Nat)) (hf : Nat) : R (List Nat) := do
  let hes ← hfHalfedges faces hf
  let ends ← hes.mapM (heEnds edges)
  pure (ends.map (·.1))

/-- 7800c85: in the list the checked hexahedral override is about to store, the two halffaces of each axis share no vertex -/
def oppPairsDisjoint (edges : List (Nat × Nat)) (faces : List (List Nat)) (l : List Nat) : R Bool := do
  let vs ← l.mapM (hfFroms edges faces)
  pure ([0, 1, 2].all (fun a => ((vs.getD (2 * a + 1) []).all (fun v => !(vs.getD (2 * a) []).contains v))))

/-- `add_cell(halffaces, topology_check)` of the mesh type: the stored halfface list, or `none` when rejected -/
def addCell (cfg : Cfg) (edges : List (Nat × Nat)) (faces : List (List Nat)) (hfs : List Nat) : R (Option (List Nat)) :=
  match cfg.kind with
  | .poly => baseAddCell cfg faces hfs
  | .tet =>
    if hfs.length ≠ 4 then pure none
    else do
      let fs ← hfs.mapM (fun hf => getU faces (hf / 2))
      if !fs.all (·.length == 3) then pure none
      else if (← spanCount edges faces hfs) ≠ 4 then pure none
      else if !(← noParallel edges faces hfs) then pure none
      else baseAddCell cfg faces hfs
  | .hex =>
    if hfs.length ≠ 6 then pure none
    else do
      let fs ← hfs.mapM (fun hf => getU faces (hf / 2))
      if !fs.all (·.length == 4) then pure none
      else if (← spanCount edges faces hfs) ≠ 8 then pure none
      else if !cfg.topoCheck then baseAddCell cfg faces hfs
      else match cfg.hexOrder faces hfs with
        | .asIs => do if (← oppPairsDisjoint edges faces hfs) then baseAddCell cfg faces hfs else pure none
        | .reject => pure none
        | .reordered l => do if (← oppPairsDisjoint edges faces l) then baseAddCell cfg faces l else pure none
        | .unmodelled => .error .unmodelled

/-! ### reader state -/

/-- a property storage of the mesh being filled -/
structure Storage where
  entity : Nat
  name : Bytes
  codec : Codec
  dflt : Bytes
  vals : List Bytes
  deriving DecidableEq, Repr, Inhabited

/-- `BinaryFileReader` fields + the mesh under construction -/
structure RState where
  topo : Nat
  nV : Nat
  nE : Nat
  nF : Nat
  nC : Nat                         -- file_header_
  nVr : Nat                        -- n_verts_read_
  pos : List (List Nat)            -- nV positions (zero until a VERT chunk writes them)
  edges : List (Nat × Nat)         -- mesh edges  (n_edges_read_ = edges.length)
  faces : List (List Nat)
  cells : List (List Nat)
  stor : List Storage              -- persistent properties created so far, in creation order
  dir : List (Option Nat)          -- props_: index into `stor`, `none` for a type without decoder
  eof : Bool                       -- reached_eof_chunk
  deriving Repr, Inhabited

/-- current number of slots of entity kind `e` in the mesh (`prop->size()`) -/
def RState.count (s : RState) (e : Nat) : Nat := slotCount e s.nV s.edges.length s.faces.length s.cells.length

/-- `n` of `read_prop_chunk`: entities of that kind read so far -/
def RState.readCount (s : RState) (e : Nat) : Nat := slotCount e s.nVr s.edges.length s.faces.length s.cells.length

/-- `resize_*props`: every storage of entity kind `e` grows by `k` default values -/
def growStor (st : List Storage) (e k : Nat) : List Storage :=
  st.map (fun x => if x.entity = e then { x with vals := x.vals ++ List.replicate k x.dflt } else x)

/-- `validate_span(total, read, span)` -/
def validSpan (total read first count : Nat) : Bool := first == read && decide (count ≤ total - read)

def w64 (x : Nat) : Nat := x % 2 ^ 64

/-! ### chunk payloads -/

/-- `read_vertices_chunk` -/
def applyVert (s : RState) (payload : Bytes) : R RState := do
  let (r, rest) ← runDec (do
    let first ← u64; let count ← u32
    let enc ← u8; guard (enc ∈ validVertexEncoding)
    let res ← readN 3; guard (allZero res)
    guard (validSpan s.nV s.nVr first count)
    let rem ← remaining
    guard (rem == count * (elemSizeVertex enc * meshDim))     -- ErrorInvalidChunkSize
    let ps ← if enc = vertexEncodingDouble then readMany (readInts 8 meshDim) count
             else if enc = vertexEncodingFloat then
               readMany (do let xs ← readInts 4 meshDim; pure (xs.map f32to64)) count
             else pure ((s.pos.drop first).take count)
    pure (first, count, ps)) payload
  if !rest.isEmpty then invalid            -- "Extra data at end of chunk"
  else
    let (first, count, ps) := r
    pure { s with pos := s.pos.take first ++ ps ++ s.pos.drop (first + count), nVr := s.nVr + count }

structure TopoHdr where
  first : Nat
  count : Nat
  entity : Nat
  valence : Nat
  valEnc : Nat
  hEnc : Nat
  off : Nat

/-- `read(Decoder&, TopoChunkHeader&)` -/
def readTopoHdr : Dec TopoHdr := do
  let first ← u64; let count ← u32
  let entity ← u8; guard (entity ∈ validTopoEntity)
  let valence ← u8
  let valEnc ← u8; guard (valEnc ∈ validIntEncoding)
  let hEnc ← u8; guard (hEnc ∈ validIntEncoding)
  let off ← u64
  pure ⟨first, count, entity, valence, valEnc, hEnc, off⟩

/-- `read_n_ints(reader, enc, out, count, make_t)` with the range test of `read_heh` / `read_hfh` -/
def readHandles (w off bound n : Nat) : Dec (List Nat) := do
  let rem ← remaining
  guard (decide (n * w ≤ rem))
  let xs ← readInts w n
  let hs := xs.map (fun x => w64 (x + off))
  guard (hs.all (· < bound))                 -- parse_error("Invalid Halfedge/Halfface handle")
  pure hs

/-- the per-entity loop of `read_faces`: one handle list per valence -/
def readFaceLists (w off bound : Nat) : List Nat → Dec (List (List Nat))
  | [] => pure []
  | v :: vs => do
    let hs ← readHandles w off bound v
    guard (v != 0)                           -- ErrorEmptyList (F22)
    let rest ← readFaceLists w off bound vs
    pure (hs :: rest)

/-- add the faces one by one; `none` when the mesh rejects one (F4) -/
def addFaces (cfg : Cfg) (edges : List (Nat × Nat)) : List (List Nat) → R Bool
  | [] => pure true
  | f :: fs => do
    let ok ← addFace cfg edges f
    if ok then addFaces cfg edges fs else pure false

def addCells (cfg : Cfg) (edges : List (Nat × Nat)) (faces : List (List Nat)) : List (List Nat) → R (Option (List (List Nat)))
  | [] => pure (some [])
  | c :: cs => do
    match ← addCell cfg edges faces c with
    | none => pure none
    | some c' =>
      match ← addCells cfg edges faces cs with
      | none => pure none
      | some r => pure (some (c' :: r))

def pairUp : List Nat → List (Nat × Nat)
  | a :: b :: t => (a, b) :: pairUp t
  | _ => []

/-- `read_topo_chunk` with `read_edges` / `read_faces` / `read_cells` -/
def applyTopo (cfg : Cfg) (s : RState) (payload : Bytes) : R RState := do
  let (h, p1) ← runDec readTopoHdr payload
  if h.count = 0 then invalid                                     -- ErrorEmptyList
  else if h.hEnc = intEncodingNone then invalid                   -- ErrorInvalidEncoding (F24)
  else if h.valence ≠ 0 ∧ h.valEnc ≠ intEncodingNone then invalid
  else if h.valence = 0 ∧ h.valEnc = intEncodingNone then invalid
  else
    let (valences, p2) ← runDec (if h.valence = 0 then (do
        let rem ← remaining
        guard (decide (h.count * elemSizeInt h.valEnc ≤ rem))
        readInts (elemSizeInt h.valEnc) h.count) else pure []) p1
    let total := if h.valence = 0 then valences.sum else h.valence * h.count
    let w := elemSizeInt h.hEnc
    if p2.length ≠ total * w then invalid                         -- "number of remaining bytes incorrect"
    else if h.entity = topoEntityEdge then
      if !validSpan s.nE s.edges.length h.first h.count then invalid
      else if h.valence ≠ 2 then invalid
      else
        let (hs, rest) ← runDec (readInts w (2 * h.count)) p2
        let vs := hs.map (fun x => w64 (x + h.off))
        if !vs.all (· < s.nVr) then invalid                      -- ErrorHandleRange
        else if !rest.isEmpty then invalid
        else pure { s with edges := s.edges ++ pairUp vs,
                           stor := growStor (growStor s.stor propertyEntityEdge h.count) propertyEntityHalfEdge (2 * h.count) }
    else
      -- computed only after `validSpan` bounded `h.count` (a `let` here would be evaluated eagerly by the
      -- compiled judge for counts up to 2^32)
      let vals := fun (_ : Unit) => if h.valence = 0 then valences else List.replicate h.count h.valence
      if h.entity = topoEntityFace then
        if !validSpan s.nF s.faces.length h.first h.count then invalid
        else if s.topo = topoTypeTetrahedral ∧ h.valence ≠ 3 then invalid   -- ErrorInvalidTopoType
        else if s.topo = topoTypeHexahedral ∧ h.valence ≠ 4 then invalid
        else
          let (fs, rest) ← runDec (readFaceLists w h.off (2 * s.edges.length) (vals ())) p2
          if !(← addFaces cfg s.edges fs) then invalid
          else if !rest.isEmpty then invalid
          else pure { s with faces := s.faces ++ fs,
                             stor := growStor (growStor s.stor propertyEntityFace h.count) propertyEntityHalfFace (2 * h.count) }
      else
        if !validSpan s.nC s.cells.length h.first h.count then invalid
        else if s.topo = topoTypeTetrahedral ∧ h.valence ≠ 4 then invalid
        else if s.topo = topoTypeHexahedral ∧ h.valence ≠ 6 then invalid
        else
          let (cs, rest) ← runDec (readFaceLists w h.off (2 * s.faces.length) (vals ())) p2
          match ← addCells cfg s.edges s.faces cs with
          | none => invalid
          | some cs' =>
            if !rest.isEmpty then invalid
            else pure { s with cells := s.cells ++ cs', stor := growStor s.stor propertyEntityCell h.count }

/-- `read(Decoder&, PropertyInfo&)` -/
def readPropInfo : Dec (Nat × Bytes × Bytes × Bytes) := do
  let e ← u8; guard (e ∈ validPropertyEntity)
  let name ← readVec32
  let ty ← readVec32
  let d ← readVec32
  pure (e, name, ty, d)

def findStor (st : List Storage) (e : Nat) (name : Bytes) (c : Codec) : Option Nat :=
  let i := st.findIdx (fun x => x.entity == e && x.name == name && x.codec.name == c.name)
  if i < st.length then some i else none

/-- `read_propdir_chunk`: one entry after the other until the payload is exhausted.  Recursion on the number of
    remaining bytes (every entry consumes at least `sizePropertyInfoMin - 1` bytes). -/
def applyDirpLoop (s : RState) (fuel : Nat) (p : Bytes) : R RState :=
  match fuel with
  | 0 => if p.isEmpty then pure s else invalid
  | fuel + 1 =>
    if p.isEmpty then pure s
    else do
      let ((e, name, ty, d), p') ← runDec readPropInfo p
      match findCodec ty with
      | none => applyDirpLoop { s with dir := s.dir ++ [none] } fuel p'       -- "Could not find decoder …, ignoring."
      | some c =>
        let (dv, _) ← runDec (decodeOne c) d                                   -- request_property: decode the default
        match findStor s.stor e name c with
        | some i => applyDirpLoop { s with dir := s.dir ++ [some i] } fuel p'  -- existing property is re-used
        | none =>
          if name.isEmpty then .error (.res .otherError)                      -- set_persistent on an unnamed property throws
          else
            let st : Storage := ⟨e, name, c, dv, List.replicate (s.count e) dv⟩
            applyDirpLoop { s with stor := s.stor ++ [st], dir := s.dir ++ [some s.stor.length] } fuel p'

def applyDirp (s : RState) (payload : Bytes) : R RState :=
  if !s.dir.isEmpty then invalid           -- "contains multiple property directories"
  else applyDirpLoop s payload.length payload

/-- `read_prop_chunk` -/
def applyProp (s : RState) (payload : Bytes) : R RState := do
  let ((first, count, idx), p1) ← runDec (do
    let first ← u64; let count ← u32; let idx ← u32; pure (first, count, idx)) payload
  match s.dir[idx]? with
  | none => invalid                        -- index ≥ number of props
  | some none => pure s                    -- no decoder: chunk skipped
  | some (some i) =>
    match s.stor[i]? with
    | none => .error .ub                   -- cannot happen: `dir` only holds indices of existing storages
    | some st =>
      if count = 0 then (if p1.isEmpty then pure s else invalid)
      else
        let n := s.readCount st.entity
        if first ≥ n ∨ n - first < count then invalid       -- ErrorHandleRange
        else if first + count > st.vals.length then invalid -- deserialize: "invalid prop range"
        else
          let (vs, rest) ← runDec (decodeN st.codec count) p1
          if !rest.isEmpty then invalid
          else
            let st' := { st with vals := st.vals.take first ++ vs ++ st.vals.drop (first + count) }
            pure { s with stor := s.stor.set i st' }

/-! ### stream and chunk framing -/

/-- `BinaryIStream`: `rem = size_ - pos_`; `data` = the bytes the underlying stream can still deliver
    (`data.length = rem` for a healthy stream, shorter for one that fails early). -/
structure Stream where
  rem : Nat
  data : Bytes

/-- `BinaryIStream::make_decoder(n)`: parse_error when fewer than `n` bytes remain according to the size, and
    (F13) when the stream does not deliver them. -/
def Stream.makeDecoder (st : Stream) (n : Nat) : R (Bytes × Stream) :=
  if st.rem < n then invalid
  else if st.data.length < n then invalid
  else pure (st.data.take n, ⟨st.rem - n, st.data.drop n⟩)

structure ChunkHdr where
  ty : Nat
  version : Nat
  pad : Nat
  compression : Nat
  flags : Nat
  fileLength : Nat

/-- `read(Decoder&, ChunkHeader&)` -/
def readChunkHdr : Dec ChunkHdr := do
  let ty ← u32; let version ← u8; let pad ← u8; let compression ← u8
  let flags ← u8; guard (flags ∈ validChunkFlags)
  let fileLength ← u64
  guard (decide (pad ≤ fileLength))        -- "Cannot have more padding than total length"
  pure ⟨ty, version, pad, compression, flags, fileLength⟩

def ChunkHdr.mandatory (h : ChunkHdr) : Bool := h.flags % 2 == 1

/-- the `switch (header.type)` of `read_chunk` for a version-0 chunk -/
def dispatch (cfg : Cfg) (s : RState) (h : ChunkHdr) (payload : Bytes) : R RState :=
  if h.ty = ccEOF then
    if !payload.isEmpty then invalid
    else if s.eof then invalid
    else pure { s with eof := true }
  else if h.ty = ccDIRP then applyDirp s payload
  else if h.ty = ccPROP then applyProp s payload
  else if h.ty = ccVERT then applyVert s payload
  else if h.ty = ccTOPO then applyTopo cfg s payload
  else if h.mandatory then invalid         -- ErrorUnsupportedChunkType
  else pure s                              -- unknown optional chunk: skipped

/-- body of `read_chunk` between the two `make_decoder` calls: version test, then the type switch -/
def processChunk (cfg : Cfg) (s : RState) (h : ChunkHdr) (payload : Bytes) : R RState :=
  if h.version ≠ 0 then (if h.mandatory then invalid else pure s)   -- ErrorUnsupportedChunkVersion / skip
  else dispatch cfg s h payload

/-- `read_chunk` -/
def readChunk (cfg : Cfg) (s : RState) (st : Stream) : R (RState × Stream) :=
  match st.makeDecoder sizeChunkHeader with
  | .error e => .error e
  | .ok (hb, st1) =>
    match runDec readChunkHdr hb with
    | .error e => .error e
    | .ok (h, _) =>
      if h.fileLength > st1.rem then invalid   -- ErrorChunkTooBig
      else
        match st1.makeDecoder (h.fileLength - h.pad) with
        | .error e => .error e
        | .ok (payload, st2) =>
          match processChunk cfg s h payload with
          | .error e => .error e
          | .ok s' =>
            match st2.makeDecoder h.pad with
            | .error e => .error e
            | .ok (pb, st3) => if !allZero pb then invalid else .ok (s', st3)   -- "padding not 0"

theorem makeDecoder_rem {st st' : Stream} {n : Nat} {b : Bytes} (h : st.makeDecoder n = .ok (b, st')) :
    st'.rem = st.rem - n ∧ n ≤ st.rem := by
  unfold Stream.makeDecoder at h
  by_cases h1 : st.rem < n
  · simp [h1, invalid] at h
  · by_cases h2 : st.data.length < n
    · simp [h1, h2, invalid] at h
    · simp only [h1, h2, if_false, pure, Except.pure, Except.ok.injEq, Prod.mk.injEq] at h
      obtain ⟨_, rfl⟩ := h
      exact ⟨rfl, by omega⟩

/-- every successful `read_chunk` consumes at least the chunk header from the stream -/
theorem readChunk_rem_lt {cfg : Cfg} {s s' : RState} {st st' : Stream}
    (h : readChunk cfg s st = .ok (s', st')) : st'.rem + sizeChunkHeader ≤ st.rem := by
  unfold readChunk at h
  cases h1 : st.makeDecoder sizeChunkHeader with
  | error e => simp [h1] at h
  | ok v1 =>
    obtain ⟨hb, st1⟩ := v1
    simp only [h1] at h
    cases h2 : runDec readChunkHdr hb with
    | error e => simp [h2] at h
    | ok v2 =>
      obtain ⟨hd, r⟩ := v2
      simp only [h2] at h
      by_cases hc : hd.fileLength > st1.rem
      · simp [hc, invalid] at h
      · simp only [hc, if_false] at h
        cases h3 : st1.makeDecoder (hd.fileLength - hd.pad) with
        | error e => simp [h3] at h
        | ok v3 =>
          obtain ⟨payload, st2⟩ := v3
          simp only [h3] at h
          cases h4 : processChunk cfg s hd payload with
          | error e => simp [h4] at h
          | ok s4 =>
            simp only [h4] at h
            cases h5 : st2.makeDecoder hd.pad with
            | error e => simp [h5] at h
            | ok v5 =>
              obtain ⟨pb, st3⟩ := v5
              simp only [h5] at h
              by_cases hz : (!allZero pb) = true
              · simp [hz, invalid] at h
              · simp only [hz, if_false, Except.ok.injEq, Prod.mk.injEq] at h
                obtain ⟨_, rfl⟩ := h
                have r1 := makeDecoder_rem h1
                have r3 := makeDecoder_rem h3
                have r5 := makeDecoder_rem h5
                omega

/-- the end of `internal_read_file`: EOF chunk seen (F1), all announced entities present -/
def finish (s : RState) : R File :=
  if !s.eof then invalid                                        -- "No EOF chunk found, file truncated?"
  else if s.nE ≠ s.edges.length ∨ s.nF ≠ s.faces.length ∨ s.nC ≠ s.cells.length then invalid   -- ErrorMissingData
  else pure ⟨s.topo, s.pos, s.edges, s.faces, s.cells,
             s.stor.map (fun x => ⟨x.entity, x.name, x.codec, x.dflt, x.vals⟩)⟩

/-- `while (stream_.remaining_bytes() > 0) read_chunk();` then the final checks -/
def loop (cfg : Cfg) (s : RState) (st : Stream) : R File :=
  if st.rem = 0 then finish s
  else
    match h : readChunk cfg s st with
    | .error e => .error e
    | .ok (s', st') => loop cfg s' st'
termination_by st.rem
decreasing_by
  have := readChunk_rem_lt h
  simp only [sizeChunkHeader] at this
  omega

def initState (topo nV nE nF nC : Nat) : RState :=
  { topo, nV, nE, nF, nC, nVr := 0, pos := List.replicate nV (List.replicate meshDim 0),
    edges := [], faces := [], cells := [], stor := [], dir := [], eof := false }

/-- `read_file<MeshT>`: header, `compatibility<MeshT>()`, `internal_read_file`.  A header that cannot be read
    leaves `header_version = 0` and is reported as IncompatibleMesh (FileVersionUnsupported); a header with an
    invalid topo type or non-zero reserved bytes has its counts unread (0). -/
def decodeStream (cfg : Cfg) (st : Stream) : R File :=
  match st.makeDecoder sizeFileHeader with
  | .error _ => .error (.res .incompatible)
  | .ok (hb, st1) =>
    if hb.take 8 ≠ magicBytes then .error (.res .incompatible)
    else
      let hv := (hb.getD 9 0).toNat
      let vdim := (hb.getD 10 0).toNat
      let topo := (hb.getD 11 0).toNat
      if hv ≠ 1 then .error (.res .incompatible)
      else
        let parsed := decide (topo ∈ validTopoType) && allZero ((hb.drop 12).take 4)
        let cnt (i : Nat) : Nat := if parsed then fromLE ((hb.drop (16 + 8 * i)).take 8) else 0
        if vdim ≠ meshDim then .error (.res .incompatible)
        else if cfg.kind = .tet ∧ topo ≠ topoTypeTetrahedral then .error (.res .incompatible)
        else if cfg.kind = .hex ∧ topo ≠ topoTypeHexahedral then .error (.res .incompatible)
        else if cnt 0 > maxHandleIdx ∨ cnt 1 > maxHandleIdx ∨ cnt 2 > maxHandleIdx ∨ cnt 3 > maxHandleIdx then
          .error (.res .incompatible)
        else if !parsed then invalid
        else loop cfg (initState topo (cnt 0) (cnt 1) (cnt 2) (cnt 3)) st1

/-- reading a complete byte string through a healthy stream -/
def decode (cfg : Cfg) (bytes : Bytes) : R File := decodeStream cfg ⟨bytes.length, bytes⟩

/-- reading through a stream that reports the full size but fails from position `p` on -/
def decodeFaulty (cfg : Cfg) (bytes : Bytes) (p : Nat) : R File := decodeStream cfg ⟨bytes.length, bytes.take p⟩

end OVM.Ovmb

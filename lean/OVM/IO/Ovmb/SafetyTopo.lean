/-
  OVMB reader safety (C07), part 4: the topology chunk (`read_topo_chunk` with `read_edges` / `read_faces` /
  `read_cells`).  The range guard of `readHandles` (and the `vs.all (· < nVr)` test for edges) is what puts every
  later `getU` of `add_face` / `add_cell` in range; the grown property storages keep one element per entity.
  Proof-only file, core only.
-/
import OVM.IO.Ovmb.SafetySteps

namespace OVM.Ovmb
open OVM.Gen.Ovmb Dec


theorem safe_ite_invalid {α} {P : α → Prop} {c : Prop} [Decidable c] {x : R α} (h : ¬ c → Safe P x) :
    Safe P (if c then invalid else x) := by
  by_cases hc : c
  · rw [if_pos hc]; exact Safe.invalid
  · rw [if_neg hc]; exact h hc

theorem growStor2_ok {cnt cnt' : Nat → Nat} {st : List Storage} {e1 k1 e2 k2 : Nat} (h : ∀ x ∈ st, StorOK cnt x)
    (hc : ∀ e, cnt' e = cnt e + (if e = e1 then k1 else 0) + (if e = e2 then k2 else 0)) :
    ∀ x ∈ growStor (growStor st e1 k1) e2 k2, StorOK cnt' x :=
  growStor_ok (growStor_ok (cnt' := fun e => cnt e + if e = e1 then k1 else 0) h (fun _ => rfl)) hc

theorem inv_addEdges {s : RState} (hi : RInv s) {vs : List Nat} {k : Nat} (hvs : ∀ x ∈ vs, x < s.nVr)
    (hl : vs.length = 2 * k) :
    RInv { s with edges := s.edges ++ pairUp vs,
                  stor := growStor (growStor s.stor propertyEntityEdge k) propertyEntityHalfEdge (2 * k) } := by
  have hpl : (pairUp vs).length = k := by rw [pairUp_length, hl]; omega
  refine ⟨hi.posLen, hi.posOk, hi.nVr_le, ?_, ?_, hi.cellsOk, ?_, ?_⟩
  · intro e he
    rcases List.mem_append.mp he with he | he
    · exact hi.edgesOk e he
    · obtain ⟨h1, h2⟩ := pairUp_mem vs e he
      exact ⟨hvs _ h1, hvs _ h2⟩
  · intro f hf x hx
    have := hi.facesOk f hf x hx
    simp only [List.length_append]; omega
  · apply growStor2_ok hi.storOk
    intro e
    simp only [RState.count, List.length_append, hpl]
    have := slotCount_grow e s.nV s.edges.length s.faces.length s.cells.length k 0 0
    simp only [Nat.add_zero, Nat.mul_zero, ite_self] at this
    exact this
  · intro i hm
    simp only [growStor_length]
    exact hi.dirOk i hm

theorem inv_addFaces {s : RState} (hi : RInv s) {fs : List (List Nat)} {k : Nat}
    (hfs : ∀ f ∈ fs, ∀ x ∈ f, x < 2 * s.edges.length) (hl : fs.length = k) :
    RInv { s with faces := s.faces ++ fs,
                  stor := growStor (growStor s.stor propertyEntityFace k) propertyEntityHalfFace (2 * k) } := by
  refine ⟨hi.posLen, hi.posOk, hi.nVr_le, hi.edgesOk, ?_, ?_, ?_, ?_⟩
  · intro f hf
    rcases List.mem_append.mp hf with hf | hf
    · exact hi.facesOk f hf
    · exact hfs f hf
  · intro c hc x hx
    have := hi.cellsOk c hc x hx
    simp only [List.length_append]; omega
  · apply growStor2_ok hi.storOk
    intro e
    simp only [RState.count, List.length_append, hl]
    have := slotCount_grow e s.nV s.edges.length s.faces.length s.cells.length 0 k 0
    simp only [Nat.add_zero, Nat.mul_zero, ite_self] at this
    exact this
  · intro i hm
    simp only [growStor_length]
    exact hi.dirOk i hm

theorem inv_addCells {s : RState} (hi : RInv s) {cs : List (List Nat)} {k : Nat}
    (hcs : ∀ c ∈ cs, ∀ x ∈ c, x < 2 * s.faces.length) (hl : cs.length = k) :
    RInv { s with cells := s.cells ++ cs, stor := growStor s.stor propertyEntityCell k } := by
  refine ⟨hi.posLen, hi.posOk, hi.nVr_le, hi.edgesOk, hi.facesOk, ?_, ?_, ?_⟩
  · intro c hc
    rcases List.mem_append.mp hc with hc | hc
    · exact hi.cellsOk c hc
    · exact hcs c hc
  · apply growStor_ok hi.storOk
    intro e
    simp only [RState.count, List.length_append, hl]
    have := slotCount_grow e s.nV s.edges.length s.faces.length s.cells.length 0 0 k
    simp only [Nat.add_zero, Nat.mul_zero, ite_self] at this
    exact this
  · intro i hm
    simp only [growStor_length]
    exact hi.dirOk i hm

/-- the valence list of a face / cell chunk has one entry per entity -/
theorem valences_length {h : TopoHdr} {p1 p2 : Bytes} {valences : List Nat}
    (hval : (if h.valence = 0 then (do
        let rem ← remaining
        guard (decide (h.count * elemSizeInt h.valEnc ≤ rem))
        readInts (elemSizeInt h.valEnc) h.count) else pure []) p1 = .ok (valences, p2)) :
    (if h.valence = 0 then valences else List.replicate h.count h.valence).length = h.count := by
  split
  · rename_i hv
    rw [if_pos hv] at hval
    simp only [dec_bind_ok, dec_guard_ok, dec_remaining_ok] at hval
    obtain ⟨_, _, _, _, _, _, hr⟩ := hval
    exact (readInts_ok hr).1
  · simp

theorem applyTopo_safe (cfg : Cfg) (hx : HexOK cfg) {s : RState} (hi : RInv s) (payload : Bytes) :
    Safe RInv (applyTopo cfg s payload) := by
  unfold applyTopo
  refine Safe.bind (runDec_safe _ _) ?_
  rintro ⟨h, p1⟩ _ _
  dsimp only
  refine safe_ite_invalid fun _ => ?_
  refine safe_ite_invalid fun _ => ?_
  refine safe_ite_invalid fun _ => ?_
  refine safe_ite_invalid fun _ => ?_
  refine Safe.bind (runDec_safe _ _) ?_
  rintro ⟨valences, p2⟩ _ hval
  dsimp only
  have hvl := valences_length hval
  refine safe_ite_invalid fun _ => ?_
  by_cases hent : h.entity = topoEntityEdge
  · rw [if_pos hent]
    refine safe_ite_invalid fun _ => ?_
    refine safe_ite_invalid fun _ => ?_
    refine Safe.bind (runDec_safe _ _) ?_
    rintro ⟨hs, rest⟩ _ hdec
    dsimp only
    refine safe_ite_invalid fun hall => ?_
    refine safe_ite_invalid fun _ => ?_
    apply Safe.pure
    apply inv_addEdges hi
    · intro x hx
      simp only [Bool.not_eq_true, Bool.not_eq_false'] at hall
      have := List.all_eq_true.mp hall x hx
      simpa using this
    · simp [(readInts_ok hdec).1]
  · rw [if_neg hent]
    by_cases hentf : h.entity = topoEntityFace
    · rw [if_pos hentf]
      refine safe_ite_invalid fun _ => ?_
      refine safe_ite_invalid fun _ => ?_
      refine safe_ite_invalid fun _ => ?_
      refine Safe.bind (runDec_safe _ _) ?_
      rintro ⟨fs, rest⟩ _ hdec
      dsimp only
      obtain ⟨hfl, hfb⟩ := readFaceLists_ok _ hdec
      obtain ⟨b, hb⟩ := addFaces_ok cfg fs hfb
      simp only [hb, bind, Except.bind]
      refine safe_ite_invalid fun _ => ?_
      refine safe_ite_invalid fun _ => ?_
      apply Safe.pure
      exact inv_addFaces hi hfb (hfl.trans hvl)
    · rw [if_neg hentf]
      refine safe_ite_invalid fun _ => ?_
      refine safe_ite_invalid fun _ => ?_
      refine safe_ite_invalid fun _ => ?_
      refine Safe.bind (runDec_safe _ _) ?_
      rintro ⟨cs, rest⟩ _ hdec
      dsimp only
      obtain ⟨hcl, hcb⟩ := readFaceLists_ok _ hdec
      refine Safe.bind (addCells_safe cfg hx hi.facesOk cs hcb) ?_
      intro o _ ho
      cases o with
      | none => exact Safe.invalid
      | some cs' =>
        dsimp only
        refine safe_ite_invalid fun _ => ?_
        apply Safe.pure
        obtain ⟨h1, h2⟩ := ho cs' rfl
        exact inv_addCells hi h2 (h1.trans (hcl.trans hvl))
end OVM.Ovmb

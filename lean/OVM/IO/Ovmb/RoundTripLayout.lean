/-
  OVMB model, proofs: one chunk of a permitted layout (C06).

  `chunkOf F cur pc` is the chunk the permissive encoder emits for piece `pc` at cursor `cur` (`chunkOf_bytes`,
  `encodePieces_eq`).  `lstep_*`: for an admissible piece (`pieceOk`) the reader goes from the state `stOf F cur`
  to `stOf F (curAfter F cur pc)` and the cursor invariant `CurOk` is kept — directory, vertex spans (double or
  exact float), edge / face / cell spans with any admissible width, offset and valence mode, property spans,
  skippable chunks.  Faces and cells: under the hypothesis that the target mesh accepts the span (`hadd`), given the
  edges / faces read so far.
  Proof-only file (not imported by the judge).  Core only.
-/
import OVM.IO.Ovmb.RoundTripLayoutBase
namespace OVM.Ovmb
open OVM.Gen.Ovmb Dec


/-- the chunk a layout piece stands for, as a record -/
def chunkOf (F : File) (cur : Cur) (pc : Piece) : ChunkD :=
  let body := pieceBody F cur pc.spec
  let pad := pc.pad.getD (padTo8 body.2.1.length)
  match pc.spec with
  | .skip _ version flags _ => ⟨body.1, version, pad, 0, flags, body.2.1⟩
  | _ => ⟨body.1, 0, pad, 0, pc.flags, body.2.1⟩

theorem chunkOf_bytes (F : File) (cur : Cur) (pc : Piece) : (chunkOf F cur pc).bytes = (pieceBytes F cur pc).1 := by
  unfold chunkOf pieceBytes ChunkD.bytes
  cases pc.spec <;> rfl

def chunksOf (F : File) : Cur → List Piece → List ChunkD
  | _, [] => []
  | cur, pc :: rest => chunkOf F cur pc :: chunksOf F (curAfter F cur pc) rest

theorem encodePieces_eq (F : File) (cur : Cur) (ps : List Piece) :
    encodePieces F cur ps = ((chunksOf F cur ps).map ChunkD.bytes).flatten := by
  induction ps generalizing cur with
  | nil => rfl
  | cons pc rest ih =>
    simp only [encodePieces, chunksOf, List.map_cons, List.flatten_cons, chunkOf_bytes, curAfter]
    rw [← ih]

theorem processChunk_v0 (cfg : Cfg) (s : RState) (h : ChunkHdr) (p : Bytes) (hv : h.version = 0) :
    processChunk cfg s h p = dispatch cfg s h p := by simp [processChunk, hv]

theorem getD_replicate_zero (n i : Nat) : (List.replicate n 0).getD i 0 = 0 := by
  simp only [List.getD_eq_getElem?_getD, List.getElem?_replicate]
  split <;> rfl

variable (cfg : Cfg) (F : File)

theorem lstep_dirp (hw : WF F) (cur : Cur) (hcur : CurOk F cur) (pc : Piece) (hs : pc.spec = .dirp)
    (hok : pieceOk F cur pc = true) :
    processChunk cfg (stOf F cur) (chunkOf F cur pc).hdr (chunkOf F cur pc).payload = .ok (stOf F (curAfter F cur pc))
      ∧ CurOk F (curAfter F cur pc) := by
  have hd : cur.dirp = false := by
    simp only [pieceOk, hs, Bool.and_eq_true, Bool.not_eq_true'] at hok; exact hok.2.1
  have hcur' : curAfter F cur pc = { cur with dirp := true, p := List.replicate F.props.length 0 } := by
    simp [curAfter, pieceBytes, pieceBody, hs]
  constructor
  · have hc : (chunkOf F cur pc).hdr.version = 0 ∧ (chunkOf F cur pc).hdr.ty = ccDIRP ∧
        (chunkOf F cur pc).payload = dirpPayload F.props := by simp [chunkOf, pieceBody, hs, ChunkD.hdr]
    rw [processChunk_v0 _ _ _ _ hc.1, hc.2.2]
    have : dispatch cfg (stOf F cur) (chunkOf F cur pc).hdr (dirpPayload F.props) = applyDirp (stOf F cur) (dirpPayload F.props) := by
      simp [dispatch, hc.2.1, ccDIRP, ccEOF]
    rw [this, applyDirp_enc (stOf F cur) F.props (fun p hp => (hw.props p hp).1) (by simp [stOf, hd]) (by simp [stOf, hd]) hw.nodup]
    rw [hcur', blank_fn, stOf_edges_length F cur hcur, stOf_faces_length F cur hcur, stOf_cells_length F cur hcur]
    simp only [stOf, hd, if_true, storAt]
    congr 2
    rw [map_eq_range F.props]
    apply map_range_congr
    intro i hi
    simp only [partStor, blankC, getD_replicate_zero, List.take_zero, List.nil_append, Nat.sub_zero]
  · rw [hcur']
    exact ⟨hcur.v, hcur.e, hcur.f, hcur.c, by simp, by intro i p _; simp only [getD_replicate_zero]; omega⟩

theorem slice_length {α} (l : List α) (a b : Nat) (h : a + b ≤ l.length) : (slice l a b).length = b := by
  simp [slice]; omega

theorem mem_slice {α} {l : List α} {a b : Nat} {x : α} (h : x ∈ slice l a b) : x ∈ l :=
  List.mem_of_mem_drop (List.mem_of_mem_take h)

theorem lstep_vert (hw : WF F) (cur : Cur) (hcur : CurOk F cur) (pc : Piece) (count enc : Nat)
    (hs : pc.spec = .vert count enc) (hok : pieceOk F cur pc = true) :
    processChunk cfg (stOf F cur) (chunkOf F cur pc).hdr (chunkOf F cur pc).payload = .ok (stOf F (curAfter F cur pc))
      ∧ CurOk F (curAfter F cur pc) := by
  simp only [pieceOk, hs, Bool.and_eq_true, decide_eq_true_eq, Bool.or_eq_true, beq_iff_eq, List.all_eq_true] at hok
  obtain ⟨_, ⟨⟨⟨hv, hc32⟩, _⟩, henc⟩⟩ := hok
  have hcur' : curAfter F cur pc = { cur with v := cur.v + count } := by
    simp [curAfter, pieceBytes, pieceBody, hs]
  have hnV := hw.nV
  simp only [maxHandleIdx] at hnV
  have hsl := slice_length F.pos cur.v count hv
  constructor
  · have hc : (chunkOf F cur pc).hdr.version = 0 ∧ (chunkOf F cur pc).hdr.ty = ccVERT ∧
        (chunkOf F cur pc).payload = vertPayload cur.v enc (slice F.pos cur.v count) := by
      simp [chunkOf, pieceBody, hs, ChunkD.hdr]
    rw [processChunk_v0 _ _ _ _ hc.1, hc.2.2]
    have : dispatch cfg (stOf F cur) (chunkOf F cur pc).hdr (vertPayload cur.v enc (slice F.pos cur.v count))
        = applyVert (stOf F cur) (vertPayload cur.v enc (slice F.pos cur.v count)) := by
      simp [dispatch, hc.2.1, ccDIRP, ccEOF, ccVERT, ccPROP]
    rw [this]
    have hres : applyVert (stOf F cur) (vertPayload (stOf F cur).nVr enc (slice F.pos cur.v count)) =
        .ok { stOf F cur with pos := (stOf F cur).pos.take (stOf F cur).nVr ++ slice F.pos cur.v count
                                ++ (stOf F cur).pos.drop ((stOf F cur).nVr + (slice F.pos cur.v count).length),
                              nVr := (stOf F cur).nVr + (slice F.pos cur.v count).length } := by
      rcases henc with rfl | ⟨rfl, hall⟩
      · exact applyVert_double _ _ (by simp [stOf, hsl]; omega) (by omega) (by simp [stOf]; omega)
          (fun p hp => hw.pos p (mem_slice hp))
      · exact applyVert_float _ _ (by simp [stOf, hsl]; omega) (by omega) (by simp [stOf]; omega)
          (fun p hp => ⟨(hw.pos p (mem_slice hp)).1, hall p hp⟩)
    have hn : (stOf F cur).nVr = cur.v := rfl
    rw [hn] at hres
    rw [hres, hcur', hsl]
    simp only [stOf, storAt]
    congr 2
    have htl : (F.pos.take cur.v).length = cur.v := by simp; omega
    rw [List.take_left' htl, ← take_add_slice F.pos cur.v count, List.append_assoc, List.append_assoc]
    congr 2
    rw [List.drop_append, htl]
    have : List.drop (cur.v + count) (List.take cur.v F.pos) = [] := by
      apply List.drop_eq_nil_of_le; omega
    rw [this, List.nil_append, List.drop_replicate]
    congr 1; omega
  · rw [hcur']
    refine ⟨by simpa using hv, hcur.e, hcur.f, hcur.c, hcur.plen, ?_⟩
    intro i p hp
    obtain ⟨a, b⟩ := hcur.pk i p hp
    exact ⟨a, Nat.le_trans b (slotCount_mono _ (Nat.le_add_right _ _) (Nat.le_refl _) (Nat.le_refl _) (Nat.le_refl _))⟩

theorem getD_props {i : Nat} (hi : i < F.props.length) : F.props[i]? = some (F.props.getD i default) := by
  simp [List.getD_eq_getElem?_getD, hi]

theorem pk_full (cur : Cur) (hcur : CurOk F cur) {i : Nat} (hi : i < F.props.length) :
    cur.p.getD i 0 ≤ slotCount (F.props.getD i default).entity F.pos.length cur.e cur.f cur.c :=
  Nat.le_trans (hcur.pk i _ (getD_props F hi)).2
    (slotCount_mono _ hcur.v (Nat.le_refl _) (Nat.le_refl _) (Nat.le_refl _))

theorem storAt_grow_edges (cur : Cur) (hcur : CurOk F cur) (k : Nat) :
    growStor (growStor (storAt F cur) propertyEntityEdge k) propertyEntityHalfEdge (2 * k)
      = storAt F { cur with e := cur.e + k } := by
  simp only [storAt, growStor_range]
  apply map_range_congr
  intro i hi
  exact partStor_grow_edges _ _ _ _ _ _ k (pk_full F cur hcur hi)

theorem storAt_grow_faces (cur : Cur) (hcur : CurOk F cur) (k : Nat) :
    growStor (growStor (storAt F cur) propertyEntityFace k) propertyEntityHalfFace (2 * k)
      = storAt F { cur with f := cur.f + k } := by
  simp only [storAt, growStor_range]
  apply map_range_congr
  intro i hi
  exact partStor_grow_faces _ _ _ _ _ _ k (pk_full F cur hcur hi)

theorem storAt_grow_cells (cur : Cur) (hcur : CurOk F cur) (k : Nat) :
    growStor (storAt F cur) propertyEntityCell k = storAt F { cur with c := cur.c + k } := by
  simp only [storAt, growStor_range]
  apply map_range_congr
  intro i hi
  exact partStor_grow_cells _ _ _ _ _ _ k (pk_full F cur hcur hi)

theorem growStor_nil (e k : Nat) : growStor [] e k = [] := rfl

theorem handlesOk_elim {hs : List Nat} {enc off bound : Nat} (h : handlesOk hs enc off bound = true) :
    encOk enc = true ∧ off < 2 ^ 64 ∧ ∀ x ∈ hs, off ≤ x ∧ x - off < 256 ^ elemSizeInt enc ∧ x < bound := by
  simp only [handlesOk, Bool.and_eq_true, decide_eq_true_eq, List.all_eq_true] at h
  exact ⟨h.1.1, h.1.2, fun x hx => ⟨(h.2 x hx).1.1, (h.2 x hx).1.2, (h.2 x hx).2⟩⟩

theorem lstep_edges (hw : WF F) (cur : Cur) (hcur : CurOk F cur) (pc : Piece) (count hEnc off : Nat)
    (hs : pc.spec = .edges count hEnc off) (hok : pieceOk F cur pc = true) :
    processChunk cfg (stOf F cur) (chunkOf F cur pc).hdr (chunkOf F cur pc).payload = .ok (stOf F (curAfter F cur pc))
      ∧ CurOk F (curAfter F cur pc) := by
  simp only [pieceOk, hs, Bool.and_eq_true, decide_eq_true_eq] at hok
  obtain ⟨_, ⟨⟨⟨hc1, hce⟩, _⟩, hh⟩⟩ := hok
  obtain ⟨hEncOk, hoff, hhand⟩ := handlesOk_elim hh
  have hcur' : curAfter F cur pc = { cur with e := cur.e + count } := by
    simp [curAfter, pieceBytes, pieceBody, hs]
  have hnV := hw.nV; have hnE := hw.nE
  simp only [maxHandleIdx] at hnV hnE
  have hsl := slice_length F.edges cur.e count hce
  constructor
  · have hc : (chunkOf F cur pc).hdr.version = 0 ∧ (chunkOf F cur pc).hdr.ty = ccTOPO ∧
        (chunkOf F cur pc).payload = topoPayload cur.e topoEntityEdge 2 intEncodingNone hEnc off
          (edgeLists (slice F.edges cur.e count)) := by
      simp [chunkOf, pieceBody, hs, ChunkD.hdr]
    rw [processChunk_v0 _ _ _ _ hc.1, hc.2.2]
    have : ∀ p, dispatch cfg (stOf F cur) (chunkOf F cur pc).hdr p = applyTopo cfg (stOf F cur) p := by
      intro p; simp [dispatch, hc.2.1, ccDIRP, ccEOF, ccVERT, ccPROP, ccTOPO]
    rw [this]
    have hokE : EdgesOk (slice F.edges cur.e count) hEnc off (stOf F cur).nVr := by
      refine ⟨by omega, by omega, hEncOk, hoff, by simp only [stOf]; have := hcur.v; omega, ?_⟩
      intro e he
      have h1 := hhand e.1 (by simp only [edgeLists, List.mem_flatten, List.mem_map]; exact ⟨[e.1, e.2], ⟨e, he, rfl⟩, by simp⟩)
      have h2 := hhand e.2 (by simp only [edgeLists, List.mem_flatten, List.mem_map]; exact ⟨[e.1, e.2], ⟨e, he, rfl⟩, by simp⟩)
      exact ⟨h1, h2⟩
    have hres := applyTopo_edges cfg (stOf F cur) (slice F.edges cur.e count) hEnc off hokE
      (by rw [stOf_edges_length F cur hcur, hsl]; simp only [stOf]; omega) (by rw [stOf_edges_length F cur hcur]; omega)
    rw [stOf_edges_length F cur hcur] at hres
    rw [hres, hcur', hsl]
    simp only [stOf, Except.ok.injEq, RState.mk.injEq, true_and, and_true]
    refine ⟨take_add_slice F.edges cur.e count, ?_⟩
    · cases hd : cur.dirp
      · simp [growStor_nil]
      · simp only [if_true]; exact storAt_grow_edges F cur hcur count
  · rw [hcur']
    refine ⟨hcur.v, by simpa using hce, hcur.f, hcur.c, hcur.plen, ?_⟩
    intro i p hp
    obtain ⟨a, b⟩ := hcur.pk i p hp
    exact ⟨a, Nat.le_trans b (slotCount_mono _ (Nat.le_refl _) (Nat.le_add_right _ _) (Nat.le_refl _) (Nat.le_refl _))⟩

theorem listsOk_of (ls : List (List Nat)) (h1 : 1 ≤ ls.length) (h32 : ls.length < 2 ^ 32)
    (fixed : Bool) (valEnc hEnc off bound : Nat) (hb : bound ≤ 2 ^ 64)
    (hv : (if fixed then ls.all (·.length == valenceOf ls) && decide (1 ≤ valenceOf ls) && decide (valenceOf ls ≤ 255)
           else encOk valEnc && ls.all (fun l => decide (1 ≤ l.length) && decide (l.length < 256 ^ elemSizeInt valEnc))) = true)
    (hh : handlesOk ls.flatten hEnc off bound = true) :
    ListsOk ls (if fixed then valenceOf ls else 0) (if fixed then intEncodingNone else valEnc) hEnc off bound := by
  obtain ⟨hEncOk, hoff, hhand⟩ := handlesOk_elim hh
  have hne : ∀ l ∈ ls, l ≠ [] := by
    intro l hl hnil
    cases fixed
    · simp only [Bool.false_eq_true, if_false, Bool.and_eq_true, List.all_eq_true, decide_eq_true_eq] at hv
      have := (hv.2 l hl).1; rw [hnil] at this; simp at this
    · simp only [if_true, Bool.and_eq_true, List.all_eq_true, decide_eq_true_eq, beq_iff_eq] at hv
      have := hv.1.1 l hl; rw [hnil] at this; simp at this; omega
  refine ⟨h1, h32, hEncOk, hoff, hb, ?_, ?_⟩
  · intro l hl
    exact ⟨hne l hl, fun h hh' => hhand h (List.mem_flatten.mpr ⟨l, hl, hh'⟩)⟩
  · cases fixed
    · simp only [Bool.false_eq_true, if_false, Bool.and_eq_true, List.all_eq_true, decide_eq_true_eq] at hv ⊢
      exact Or.inr ⟨trivial, hv.1, fun l hl => (hv.2 l hl).2⟩
    · simp only [if_true, Bool.and_eq_true, List.all_eq_true, decide_eq_true_eq, beq_iff_eq] at hv ⊢
      exact Or.inl ⟨by omega, trivial, by omega, hv.1.1⟩

theorem addFaces_poly (hk : cfg.kind = .poly) (ht : cfg.topoCheck = false) (edges : List (Nat × Nat))
    (fs : List (List Nat)) : addFaces cfg edges fs = .ok true :=
  addFaces_all cfg edges fs (fun f _ => by simp [addFace, hk, ht, R_pure])

theorem addCells_poly (hk : cfg.kind = .poly) (ht : cfg.topoCheck = false) (edges : List (Nat × Nat))
    (faces : List (List Nat)) (cs : List (List Nat)) : addCells cfg edges faces cs = .ok (some cs) :=
  addCells_all cfg edges faces cs (fun c _ => by simp [addCell, baseAddCell, hk, ht, R_pure])

theorem topo_valence (fixed : Bool) (v fv : Nat)
    (h : (F.topo == topoTypePolyhedral || (fixed && v == fv)) = true) (hne : F.topo ≠ topoTypePolyhedral) :
    (if fixed then v else 0) = fv := by
  simp only [Bool.or_eq_true, beq_iff_eq, Bool.and_eq_true] at h
  rcases h with h | ⟨h1, h2⟩
  · exact absurd h hne
  · simp [h1, h2]

theorem lstep_faces (hw : WF F)
    (cur : Cur) (hcur : CurOk F cur) (pc : Piece) (count : Nat) (fixed : Bool) (valEnc hEnc off : Nat)
    (hs : pc.spec = .faces count fixed valEnc hEnc off) (hok : pieceOk F cur pc = true)
    (hadd : addFaces cfg (F.edges.take cur.e) (slice F.faces cur.f count) = .ok true) :
    processChunk cfg (stOf F cur) (chunkOf F cur pc).hdr (chunkOf F cur pc).payload = .ok (stOf F (curAfter F cur pc))
      ∧ CurOk F (curAfter F cur pc) := by
  simp only [pieceOk, hs, valencesOk, Bool.and_eq_true, decide_eq_true_eq] at hok
  obtain ⟨_, ⟨⟨⟨⟨hc1, hce⟩, _⟩, ⟨hval, htopo⟩⟩, hh⟩⟩ := hok
  have hcur' : curAfter F cur pc = { cur with f := cur.f + count } := by
    simp [curAfter, pieceBytes, pieceBody, hs]
  have hnE := hw.nE; have hnF := hw.nF
  simp only [maxHandleIdx] at hnE hnF
  have hsl := slice_length F.faces cur.f count hce
  constructor
  · have hc : (chunkOf F cur pc).hdr.version = 0 ∧ (chunkOf F cur pc).hdr.ty = ccTOPO ∧
        (chunkOf F cur pc).payload = topoPayload cur.f topoEntityFace
          (if fixed then valenceOf (slice F.faces cur.f count) else 0) (if fixed then intEncodingNone else valEnc) hEnc off
          (slice F.faces cur.f count) := by
      simp [chunkOf, pieceBody, hs, ChunkD.hdr]
    rw [processChunk_v0 _ _ _ _ hc.1, hc.2.2]
    have : ∀ p, dispatch cfg (stOf F cur) (chunkOf F cur pc).hdr p = applyTopo cfg (stOf F cur) p := by
      intro p; simp [dispatch, hc.2.1, ccDIRP, ccEOF, ccVERT, ccPROP, ccTOPO]
    rw [this]
    have hokL := listsOk_of (slice F.faces cur.f count) (by omega) (by omega) fixed valEnc hEnc off
      (2 * (stOf F cur).edges.length) (by rw [stOf_edges_length F cur hcur]; have := hcur.e; omega)
      (by simpa [Bool.and_assoc] using hval) (by rw [stOf_edges_length F cur hcur]; exact hh)
    have hres := applyTopo_faces cfg (stOf F cur) (slice F.faces cur.f count) _ _ hEnc off hokL
      (by rw [stOf_faces_length F cur hcur, hsl]; simp only [stOf]; omega) (by rw [stOf_faces_length F cur hcur]; omega)
      (fun h => by
        have := topo_valence F fixed (valenceOf (slice F.faces cur.f count)) _ htopo
          (by have : (stOf F cur).topo = F.topo := rfl; rw [this] at h; rw [h]; decide)
        have ht' : (stOf F cur).topo = F.topo := rfl
        rw [ht'] at h
        simpa [h] using this)
      (fun h => by
        have := topo_valence F fixed (valenceOf (slice F.faces cur.f count)) _ htopo
          (by have : (stOf F cur).topo = F.topo := rfl; rw [this] at h; rw [h]; decide)
        have ht' : (stOf F cur).topo = F.topo := rfl
        rw [ht'] at h
        simpa [h, topoTypeHexahedral, topoTypeTetrahedral] using this)
      hadd
    rw [stOf_faces_length F cur hcur] at hres
    rw [hres, hcur', hsl]
    simp only [stOf, Except.ok.injEq, RState.mk.injEq, true_and, and_true]
    refine ⟨take_add_slice F.faces cur.f count, ?_⟩
    · cases hd : cur.dirp
      · simp [growStor_nil]
      · simp only [if_true]; exact storAt_grow_faces F cur hcur count
  · rw [hcur']
    refine ⟨hcur.v, hcur.e, by simpa using hce, hcur.c, hcur.plen, ?_⟩
    intro i p hp
    obtain ⟨a, b⟩ := hcur.pk i p hp
    exact ⟨a, Nat.le_trans b (slotCount_mono _ (Nat.le_refl _) (Nat.le_refl _) (Nat.le_add_right _ _) (Nat.le_refl _))⟩

theorem lstep_cells (hw : WF F)
    (cur : Cur) (hcur : CurOk F cur) (pc : Piece) (count : Nat) (fixed : Bool) (valEnc hEnc off : Nat)
    (hs : pc.spec = .cells count fixed valEnc hEnc off) (hok : pieceOk F cur pc = true)
    (hadd : addCells cfg (F.edges.take cur.e) (F.faces.take cur.f) (slice F.cells cur.c count)
      = .ok (some (slice F.cells cur.c count))) :
    processChunk cfg (stOf F cur) (chunkOf F cur pc).hdr (chunkOf F cur pc).payload = .ok (stOf F (curAfter F cur pc))
      ∧ CurOk F (curAfter F cur pc) := by
  simp only [pieceOk, hs, valencesOk, Bool.and_eq_true, decide_eq_true_eq] at hok
  obtain ⟨_, ⟨⟨⟨⟨hc1, hce⟩, _⟩, ⟨hval, htopo⟩⟩, hh⟩⟩ := hok
  have hcur' : curAfter F cur pc = { cur with c := cur.c + count } := by
    simp [curAfter, pieceBytes, pieceBody, hs]
  have hnF := hw.nF; have hnC := hw.nC
  simp only [maxHandleIdx] at hnF hnC
  have hsl := slice_length F.cells cur.c count hce
  constructor
  · have hc : (chunkOf F cur pc).hdr.version = 0 ∧ (chunkOf F cur pc).hdr.ty = ccTOPO ∧
        (chunkOf F cur pc).payload = topoPayload cur.c topoEntityCell
          (if fixed then valenceOf (slice F.cells cur.c count) else 0) (if fixed then intEncodingNone else valEnc) hEnc off
          (slice F.cells cur.c count) := by
      simp [chunkOf, pieceBody, hs, ChunkD.hdr]
    rw [processChunk_v0 _ _ _ _ hc.1, hc.2.2]
    have : ∀ p, dispatch cfg (stOf F cur) (chunkOf F cur pc).hdr p = applyTopo cfg (stOf F cur) p := by
      intro p; simp [dispatch, hc.2.1, ccDIRP, ccEOF, ccVERT, ccPROP, ccTOPO]
    rw [this]
    have hokL := listsOk_of (slice F.cells cur.c count) (by omega) (by omega) fixed valEnc hEnc off
      (2 * (stOf F cur).faces.length) (by rw [stOf_faces_length F cur hcur]; have := hcur.f; omega)
      (by simpa [Bool.and_assoc] using hval) (by rw [stOf_faces_length F cur hcur]; exact hh)
    have hres := applyTopo_cells cfg (stOf F cur) (slice F.cells cur.c count) _ _ hEnc off hokL
      (by rw [stOf_cells_length F cur hcur, hsl]; simp only [stOf]; omega) (by rw [stOf_cells_length F cur hcur]; omega)
      (fun h => by
        have := topo_valence F fixed (valenceOf (slice F.cells cur.c count)) _ htopo
          (by have : (stOf F cur).topo = F.topo := rfl; rw [this] at h; rw [h]; decide)
        have ht' : (stOf F cur).topo = F.topo := rfl
        rw [ht'] at h
        simpa [h] using this)
      (fun h => by
        have := topo_valence F fixed (valenceOf (slice F.cells cur.c count)) _ htopo
          (by have : (stOf F cur).topo = F.topo := rfl; rw [this] at h; rw [h]; decide)
        have ht' : (stOf F cur).topo = F.topo := rfl
        rw [ht'] at h
        simpa [h, topoTypeHexahedral, topoTypeTetrahedral] using this)
      hadd
    rw [stOf_cells_length F cur hcur] at hres
    rw [hres, hcur', hsl]
    simp only [stOf, Except.ok.injEq, RState.mk.injEq, true_and, and_true]
    refine ⟨take_add_slice F.cells cur.c count, ?_⟩
    · cases hd : cur.dirp
      · simp [growStor_nil]
      · simp only [if_true]; exact storAt_grow_cells F cur hcur count
  · rw [hcur']
    refine ⟨hcur.v, hcur.e, hcur.f, by simpa using hce, hcur.plen, ?_⟩
    intro i p hp
    obtain ⟨a, b⟩ := hcur.pk i p hp
    exact ⟨a, Nat.le_trans b (slotCount_mono _ (Nat.le_refl _) (Nat.le_refl _) (Nat.le_refl _) (Nat.le_add_right _ _))⟩

theorem lstep_skip (cur : Cur) (hcur : CurOk F cur) (pc : Piece) (ty version flags : Nat) (payload : Bytes)
    (hs : pc.spec = .skip ty version flags payload) (hok : pieceOk F cur pc = true) :
    processChunk cfg (stOf F cur) (chunkOf F cur pc).hdr (chunkOf F cur pc).payload = .ok (stOf F (curAfter F cur pc))
      ∧ CurOk F (curAfter F cur pc) := by
  simp only [pieceOk, hs, Bool.and_eq_true, decide_eq_true_eq, beq_iff_eq, Bool.or_eq_true, bne_iff_ne, ne_eq,
    Bool.not_eq_true'] at hok
  obtain ⟨_, ⟨⟨⟨⟨_, hfl⟩, _⟩, _⟩, hvk⟩⟩ := hok
  have hcur' : curAfter F cur pc = cur := by simp [curAfter, pieceBytes, pieceBody, hs]
  rw [hcur']
  refine ⟨?_, hcur⟩
  have hc : (chunkOf F cur pc).hdr.version = version ∧ (chunkOf F cur pc).hdr.ty = ty ∧
      (chunkOf F cur pc).hdr.flags = flags := by simp [chunkOf, pieceBody, hs, ChunkD.hdr]
  have hm : (chunkOf F cur pc).hdr.mandatory = false := by
    simp [ChunkHdr.mandatory, hc.2.2, hfl]
  unfold processChunk
  by_cases hv : version = 0
  · have hk : knownType ty = false := by
      rcases hvk with h | h
      · exact absurd hv h
      · exact h
    simp only [knownType, Bool.or_eq_false_iff, beq_eq_false_iff_ne, ne_eq] at hk
    simp [hc.1, hv, dispatch, hc.2.1, hk, hm, R_pure]
  · simp [hc.1, hv, hm, R_pure]

theorem lstep_prop (hw : WF F) (cur : Cur) (hcur : CurOk F cur) (pc : Piece) (idx count : Nat)
    (hs : pc.spec = .prop idx count) (hok : pieceOk F cur pc = true) :
    processChunk cfg (stOf F cur) (chunkOf F cur pc).hdr (chunkOf F cur pc).payload = .ok (stOf F (curAfter F cur pc))
      ∧ CurOk F (curAfter F cur pc) := by
  simp only [pieceOk, hs, Bool.and_eq_true, decide_eq_true_eq] at hok
  obtain ⟨_, ⟨⟨hd, _⟩, hm⟩⟩ := hok
  cases hpi : F.props[idx]? with
  | none => simp [hpi] at hm
  | some p =>
    simp only [hpi, Bool.and_eq_true, Bool.or_eq_true, beq_iff_eq, decide_eq_true_eq] at hm
    obtain ⟨hcnt, hvl⟩ := hm
    have hidx : idx < F.props.length := by
      obtain ⟨h, _⟩ := List.getElem?_eq_some_iff.mp hpi; exact h
    have hpd : F.props.getD idx default = p := by simp [List.getD_eq_getElem?_getD, hpi]
    have hmem : p ∈ F.props := List.mem_of_getElem? hpi
    obtain ⟨hpo, hlen, hvals, h32⟩ := hw.props p hmem
    have hplen := hcur.plen hd
    obtain ⟨hk1, hk2⟩ := hcur.pk idx p hpi
    generalize hfirst : cur.p.getD idx 0 = first at *
    have hfirst' : cur.p[idx]?.getD 0 = first := by rw [← hfirst]; simp
    have hpd' : F.props[idx]?.getD default = p := by rw [← hpd]; simp
    have hpd'' : F.props[idx] = p := by
      obtain ⟨_, h⟩ := List.getElem?_eq_some_iff.mp hpi; exact h
    have hcur' : curAfter F cur pc = { cur with p := cur.p.set idx (first + count) } := by
      simp [curAfter, pieceBytes, pieceBody, hs, hfirst']
    have hsl := slice_length p.vals first count hvl
    have hsc : slotCount p.entity cur.v cur.e cur.f cur.c ≤ slotCount p.entity F.pos.length cur.e cur.f cur.c :=
      slotCount_mono _ hcur.v (Nat.le_refl _) (Nat.le_refl _) (Nat.le_refl _)
    constructor
    · have hc : (chunkOf F cur pc).hdr.version = 0 ∧ (chunkOf F cur pc).hdr.ty = ccPROP ∧
          (chunkOf F cur pc).payload = propPayload first idx p.codec (slice p.vals first count) := by
        simp [chunkOf, pieceBody, hs, ChunkD.hdr, hfirst', hpd']
      rw [processChunk_v0 _ _ _ _ hc.1, hc.2.2]
      have : ∀ q, dispatch cfg (stOf F cur) (chunkOf F cur pc).hdr q = applyProp (stOf F cur) q := by
        intro q; simp [dispatch, hc.2.1, ccDIRP, ccEOF, ccPROP]
      rw [this]
      have hst : (stOf F cur).stor[idx]? = some (partStor p first F.pos.length cur.e cur.f cur.c) := by
        simp [stOf, hd, storAt, hidx, hpd'', hfirst']
      have hdir : (stOf F cur).dir[idx]? = some (some idx) := by simp [stOf, hd, hidx]
      have hrc : (stOf F cur).readCount p.entity = slotCount p.entity cur.v cur.e cur.f cur.c := by
        simp only [RState.readCount, stOf_edges_length F cur hcur, stOf_faces_length F cur hcur,
          stOf_cells_length F cur hcur]; rfl
      have hstlen : (partStor p first F.pos.length cur.e cur.f cur.c).vals.length
          = slotCount p.entity F.pos.length cur.e cur.f cur.c := by
        simp [partStor]; omega
      have hres := applyProp_enc (stOf F cur) idx idx first (partStor p first F.pos.length cur.e cur.f cur.c)
        (slice p.vals first count) (by have := hw.nprops; omega) hdir hst
        (fun v hv => hvals v (mem_slice hv)) (by omega) (by omega)
        (by
          rw [hsl]
          rcases hcnt with h0 | h0
          · exact Or.inl h0
          · refine Or.inr ⟨?_, ?_⟩
            · show first + count ≤ (stOf F cur).readCount p.entity
              rw [hrc]; exact h0
            · rw [hstlen]; omega)
      have hcodec : (partStor p first F.pos.length cur.e cur.f cur.c).codec = p.codec := rfl
      rw [hcodec] at hres
      rw [hres, hcur', hsl]
      simp only [stOf, hd, if_true, Except.ok.injEq, RState.mk.injEq, true_and, and_true]
      simp only [storAt, set_range_map]
      apply map_range_congr
      intro j hj
      simp only [getD_set, hplen]
      by_cases hji : j = idx
      · subst hji
        simp only [true_and, hidx, if_true, hpd, partStor, Storage.mk.injEq]
        have htl : (p.vals.take first).length = first := by simp; omega
        rw [List.take_left' htl, List.append_assoc, ← List.append_assoc (p.vals.take first), take_add_slice]
        rw [List.drop_append, htl]
        have : List.drop (first + count) (List.take first p.vals) = [] := by
          apply List.drop_eq_nil_of_le; omega
        rw [this, List.nil_append, List.drop_replicate]
        congr 2; omega
      · simp [hji]
    · rw [hcur']
      refine ⟨hcur.v, hcur.e, hcur.f, hcur.c, by intro _; simp [hplen], ?_⟩
      intro i q hq
      simp only [getD_set, hplen]
      by_cases hii : i = idx
      · subst hii
        rw [hpi] at hq; cases hq
        simp only [true_and, hidx, if_true]
        refine ⟨hvl, ?_⟩
        rcases hcnt with h0 | h0
        · rw [h0]; exact hk2
        · exact h0
      · simp only [hii, false_and, if_false]
        exact hcur.pk i q hq
end OVM.Ovmb

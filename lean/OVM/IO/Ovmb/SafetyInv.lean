/-
  OVMB reader safety (C07), part 2: the invariant `RInv` of the reader state, and what the payload decoders
  deliver (bounded coordinates, range-checked handle lists).
  Proof-only file, core only.
-/
import OVM.IO.Ovmb.SafetyBase

namespace OVM.Ovmb
open OVM.Gen.Ovmb Dec

/-! ### float widening stays within 64 bits -/

theorem highBit_lt : ∀ (f m : Nat), m < 2 ^ f → m < 2 ^ (highBit f m + 1) ∧ highBit f m ≤ f := by
  intro f
  induction f with
  | zero => intro m h; simp [highBit]; simp at h; omega
  | succ f ih =>
    intro m h
    simp only [highBit]
    split
    · omega
    · have h2 : m / 2 < 2 ^ f := by rw [Nat.pow_succ] at h; omega
      obtain ⟨a, b⟩ := ih (m / 2) h2
      refine ⟨?_, by omega⟩
      have : 2 ^ (1 + highBit f (m / 2) + 1) = 2 * 2 ^ (highBit f (m / 2) + 1) := by
        rw [show 1 + highBit f (m / 2) + 1 = (highBit f (m / 2) + 1) + 1 by omega, Nat.pow_succ]; omega
      rw [this]; omega

/-- the widened bit pattern is a 64-bit value, for every input -/
theorem f32to64_lt (u : Nat) : f32to64 u < 2 ^ 64 := by
  unfold f32to64
  have hs : u / 2 ^ 31 % 2 < 2 := Nat.mod_lt _ (by decide)
  have he : u / 2 ^ 23 % 256 < 256 := Nat.mod_lt _ (by decide)
  have hm : u % 2 ^ 23 < 2 ^ 23 := Nat.mod_lt _ (by decide)
  generalize u / 2 ^ 31 % 2 = s at *
  generalize u / 2 ^ 23 % 256 = e at *
  generalize u % 2 ^ 23 = m at *
  simp only
  split
  · split
    · omega
    · have : m * 2 ^ 29 % 2 ^ 51 < 2 ^ 51 := Nat.mod_lt _ (by decide)
      omega
  · split
    · split
      · omega
      · obtain ⟨h1, h2⟩ := highBit_lt 24 m (by omega)
        generalize highBit 24 m = k at *
        have h3 : (m - 2 ^ k) * 2 ^ (52 - k) < 2 ^ 53 := by
          have : 2 ^ 53 = 2 ^ (k + 1) * 2 ^ (52 - k) := by rw [← Nat.pow_add]; congr 1; omega
          rw [this]
          exact Nat.mul_lt_mul_of_lt_of_le (by omega) (Nat.le_refl _) (Nat.pow_pos (by decide))
        omega
    · rename_i h1 h2
      simp only [beq_iff_eq] at h1
      omega

/-! ### the invariant -/

/-- a position as `WFMesh` wants it -/
def PosOK (p : List Nat) : Prop := p.length = meshDim ∧ ∀ x ∈ p, x < 2 ^ 64

/-- a property storage as `WFMesh` wants it, for the slot counts `cnt` -/
def StorOK (cnt : Nat → Nat) (x : Storage) : Prop :=
  x.entity ≤ propertyEntityMesh ∧ x.codec ∈ codecs ∧ validVal x.codec x.dflt = true ∧
  x.vals.length = cnt x.entity ∧ ∀ v ∈ x.vals, validVal x.codec v = true

/-- invariant of the reader state between chunks -/
structure RInv (s : RState) : Prop where
  posLen : s.pos.length = s.nV
  posOk : ∀ p ∈ s.pos, PosOK p
  nVr_le : s.nVr ≤ s.nV
  edgesOk : ∀ e ∈ s.edges, e.1 < s.nVr ∧ e.2 < s.nVr
  facesOk : ∀ f ∈ s.faces, ∀ x ∈ f, x < 2 * s.edges.length
  cellsOk : ∀ c ∈ s.cells, ∀ x ∈ c, x < 2 * s.faces.length
  storOk : ∀ x ∈ s.stor, StorOK s.count x
  dirOk : ∀ i, some i ∈ s.dir → i < s.stor.length

theorem initState_inv (topo nV nE nF nC : Nat) : RInv (initState topo nV nE nF nC) := by
  refine ⟨by simp [initState], ?_, by simp [initState], by simp [initState], by simp [initState],
    by simp [initState], by simp [initState], by simp [initState]⟩
  intro p hp
  simp only [initState, List.mem_replicate] at hp
  rw [hp.2]
  exact ⟨by simp, by intro x hx; rw [(List.mem_replicate.mp hx).2]; decide⟩

/-! ### growing storages -/

theorem growStor_length (st : List Storage) (e k : Nat) : (growStor st e k).length = st.length := by
  simp [growStor]

theorem growStor_ok {cnt cnt' : Nat → Nat} {st : List Storage} {e k : Nat} (h : ∀ x ∈ st, StorOK cnt x)
    (hc : ∀ e', cnt' e' = cnt e' + (if e' = e then k else 0)) : ∀ x ∈ growStor st e k, StorOK cnt' x := by
  intro x hx
  simp only [growStor, List.mem_map] at hx
  obtain ⟨y, hy, rfl⟩ := hx
  obtain ⟨h1, h2, h3, h4, h5⟩ := h y hy
  split
  · rename_i he
    refine ⟨h1, h2, h3, ?_, ?_⟩
    · simp only [List.length_append, List.length_replicate, h4, hc y.entity, if_pos he]
    · intro v hv
      rcases List.mem_append.mp hv with hv | hv
      · exact h5 v hv
      · rw [(List.mem_replicate.mp hv).2]; exact h3
  · rename_i he
    refine ⟨h1, h2, h3, ?_, h5⟩
    rw [h4, hc y.entity, if_neg he]; rfl

/-- slot counts after `ke` more edges, `kf` more faces, `kc` more cells -/
theorem slotCount_grow (e nV nE nF nC ke kf kc : Nat) :
    slotCount e nV (nE + ke) (nF + kf) (nC + kc) =
      slotCount e nV nE nF nC
        + (if e = propertyEntityEdge then ke else 0) + (if e = propertyEntityHalfEdge then 2 * ke else 0)
        + (if e = propertyEntityFace then kf else 0) + (if e = propertyEntityHalfFace then 2 * kf else 0)
        + (if e = propertyEntityCell then kc else 0) := by
  simp only [slotCount, propertyEntityVertex, propertyEntityEdge, propertyEntityFace, propertyEntityCell,
    propertyEntityHalfEdge, propertyEntityHalfFace]
  rcases e with _ | _ | _ | _ | _ | _ | e <;> simp <;> omega

/-! ### handle lists -/

theorem pairUp_mem : ∀ (l : List Nat) (p : Nat × Nat), p ∈ pairUp l → p.1 ∈ l ∧ p.2 ∈ l
  | [], p, h => by simp [pairUp] at h
  | [_], p, h => by simp [pairUp] at h
  | a :: b :: t, p, h => by
    simp only [pairUp, List.mem_cons] at h
    rcases h with rfl | h
    · simp
    · obtain ⟨h1, h2⟩ := pairUp_mem t p h
      simp [h1, h2]

theorem pairUp_length : ∀ (l : List Nat), (pairUp l).length = l.length / 2
  | [] => by simp [pairUp]
  | [_] => by simp [pairUp]
  | a :: b :: t => by
    simp only [pairUp, List.length_cons, pairUp_length t]; omega

/-- the range test of `read_heh` / `read_hfh`: every handle handed on is below `bound` -/
theorem readHandles_ok {w off bound n : Nat} {s r : Bytes} {hs : List Nat}
    (h : readHandles w off bound n s = .ok (hs, r)) : ∀ x ∈ hs, x < bound := by
  simp only [readHandles, dec_bind_ok, dec_guard_ok, dec_pure_ok, dec_remaining_ok] at h
  obtain ⟨_, _, _, _, _, _, xs, _, _, _, _, ⟨hall, _⟩, rfl, _⟩ := h
  intro x hx
  have := List.all_eq_true.mp hall x hx
  simpa using this

theorem readFaceLists_ok {w off bound : Nat} : ∀ (vs : List Nat) {s r : Bytes} {ls : List (List Nat)},
    readFaceLists w off bound vs s = .ok (ls, r) → ls.length = vs.length ∧ ∀ l ∈ ls, ∀ x ∈ l, x < bound := by
  intro vs
  induction vs with
  | nil =>
    intro s r ls h
    simp only [readFaceLists, dec_pure_ok] at h
    rw [← h.1]; simp
  | cons v t ih =>
    intro s r ls h
    simp only [readFaceLists, dec_bind_ok, dec_guard_ok, dec_pure_ok] at h
    obtain ⟨hs, s1, h1, _, _, _, rest, s3, h3, rfl, _⟩ := h
    obtain ⟨hl, hb⟩ := ih h3
    refine ⟨by simp [hl], ?_⟩
    intro l hl'
    rcases List.mem_cons.mp hl' with rfl | hl'
    · exact readHandles_ok h1
    · exact hb l hl'

/-! ### positions -/

theorem readInts_posOK {s r : Bytes} {xs : List Nat} (h : readInts 8 meshDim s = .ok (xs, r)) : PosOK xs := by
  obtain ⟨hl, hb, _⟩ := readInts_ok h
  exact ⟨hl, fun x hx => by have := hb x hx; have e : (256 : Nat) ^ 8 = 2 ^ 64 := by decide
                            omega⟩

theorem readFloats_posOK {s r : Bytes} {xs : List Nat}
    (h : (do let xs ← readInts 4 meshDim; pure (xs.map f32to64) : Dec (List Nat)) s = .ok (xs, r)) : PosOK xs := by
  simp only [dec_bind_ok, dec_pure_ok] at h
  obtain ⟨ys, s1, h1, rfl, _⟩ := h
  obtain ⟨hl, _, _⟩ := readInts_ok h1
  refine ⟨by simp [hl], ?_⟩
  intro x hx
  obtain ⟨y, _, rfl⟩ := List.mem_map.mp hx
  exact f32to64_lt y

end OVM.Ovmb

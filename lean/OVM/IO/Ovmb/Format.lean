/-
  OVMB model, layer 3: the abstract file `File`, its well-formedness predicates, format constants (all
  taken from the generated `OVM.Gen.Ovmb`), headers and chunk framing shared by writer and reader models.
  Core only.
-/
import OVM.IO.Codec

namespace OVM.Ovmb
open OVM.Gen.Ovmb

/-- one persistent property: entity kind (PropertyEntity code), name, codec, default and one value per slot,
    all values canonical byte strings (see `Codec.lean`). -/
structure PropData where
  entity : Nat
  name : Bytes
  codec : Codec
  dflt : Bytes
  vals : List Bytes
  deriving DecidableEq, Repr, Inhabited

/-- The abstract content of an OVMB file = the observable content of a mesh without pending deletions:
    topology type, positions (three `double` bit patterns per vertex), edge / face / cell definitions handle for
    handle, persistent properties. -/
structure File where
  topo : Nat                        -- TopoType code
  pos : List (List Nat)             -- per vertex: `meshDim` coordinates, IEEE-754 binary64 bit patterns
  edges : List (Nat × Nat)          -- (from, to) vertex handles
  faces : List (List Nat)           -- halfedge handles
  cells : List (List Nat)           -- halfface handles
  props : List PropData
  deriving DecidableEq, Repr, Inhabited

/-- dimension of the meshes read/written here (`GeometricPolyhedralMeshV3d` etc.) -/
def meshDim : Nat := 3

/-- number of slots of a property on entity kind `e` for the given entity counts (`ResourceManager::n<EntityTag>()`) -/
def slotCount (e nV nE nF nC : Nat) : Nat :=
  if e = propertyEntityVertex then nV
  else if e = propertyEntityEdge then nE
  else if e = propertyEntityFace then nF
  else if e = propertyEntityCell then nC
  else if e = propertyEntityHalfEdge then 2 * nE
  else if e = propertyEntityHalfFace then 2 * nF
  else 1

def File.slots (F : File) (e : Nat) : Nat :=
  slotCount e F.pos.length F.edges.length F.faces.length F.cells.length

/-- C07's notion of a valid mesh: every stored handle designates an existing entity, every property has one
    element per entity (and holds values of its type). -/
def WFMesh (F : File) : Bool :=
  F.pos.all (fun p => p.length == meshDim && p.all (· < 2 ^ 64))
  && F.edges.all (fun e => e.1 < F.pos.length && e.2 < F.pos.length)
  && F.faces.all (fun f => f.all (· < 2 * F.edges.length))
  && F.cells.all (fun c => c.all (· < 2 * F.faces.length))
  && F.props.all (fun p => p.entity ≤ propertyEntityMesh && p.codec ∈ codecs && validVal p.codec p.dflt
        && p.vals.length == F.slots p.entity && p.vals.all (validVal p.codec))

/-- key under which `ResourceManager::internal_find_property` identifies a property -/
def PropData.key (p : PropData) : Nat × Bytes × Bytes := (p.entity, p.name, p.codec.name)

/-- faces have `fv` halfedges each and cells `cv` halffaces each -/
def uniformValence (F : File) (fv cv : Nat) : Bool :=
  F.faces.all (·.length == fv) && F.cells.all (·.length == cv)

/-- Well-formed *writer input* (explicit, decidable): a valid mesh whose sizes fit the format's fields, with
    non-empty faces and cells, named properties with pairwise distinct keys, and a topology type that its
    valences allow. -/
def WFFile (F : File) : Bool :=
  WFMesh F
  && F.pos.length ≤ maxHandleIdx && F.edges.length ≤ maxHandleIdx
  && F.faces.length ≤ maxHandleIdx && F.cells.length ≤ maxHandleIdx
  && 2 * F.edges.length < 2 ^ 32 && 2 * F.faces.length < 2 ^ 32
  && F.faces.all (fun f => 1 ≤ f.length && f.length < 2 ^ 32)
  && F.cells.all (fun c => 1 ≤ c.length && c.length < 2 ^ 32)
  && F.topo ∈ validTopoType
  && (F.topo != topoTypeTetrahedral || uniformValence F 3 4)
  && (F.topo != topoTypeHexahedral || uniformValence F 4 6)
  && F.props.length < 2 ^ 32
  && F.props.all (fun p => 1 ≤ p.name.length && p.name.length < 2 ^ 32 && p.dflt.length < 2 ^ 32
        && p.vals.length < 2 ^ 32)
  && (F.props.map PropData.key).Nodup

/-! ### integer encodings -/

/-- `elem_size(IntEncoding)` -/
def elemSizeInt (enc : Nat) : Nat := (elemSizeIntTable.lookup enc).getD 0

/-- `elem_size(VertexEncoding)` -/
def elemSizeVertex (enc : Nat) : Nat := (elemSizeVertexTable.lookup enc).getD 0

/-- `suitable_int_encoding(max_value)` with the generated thresholds -/
def suitableIntEncoding (v : Nat) : Nat :=
  if v ≤ thrU8 then intEncodingU8 else if v ≤ thrU16 then intEncodingU16 else intEncodingU32

/-! ### headers -/

def magicBytes : Bytes := magic.map UInt8.ofNat

/-- `write(Encoder&, FileHeader const&)` -/
def encFileHeader (fileVersion headerVersion vdim topo nV nE nF nC : Nat) : Bytes :=
  magicBytes ++ leN 1 fileVersion ++ leN 1 headerVersion ++ leN 1 vdim ++ leN 1 topo ++ zeros 4
    ++ leN 8 nV ++ leN 8 nE ++ leN 8 nF ++ leN 8 nC

/-- `write(Encoder&, ChunkHeader const&)` followed by payload and zero padding -/
def encChunk (ty version pad compression flags : Nat) (payload : Bytes) : Bytes :=
  leN 4 ty ++ leN 1 version ++ leN 1 pad ++ leN 1 compression ++ leN 1 flags ++ leN 8 (payload.length + pad)
    ++ payload ++ zeros pad

/-- padding the writer chooses: up to the next multiple of 8 (`(len + 7) & ~7`) -/
def padTo8 (len : Nat) : Nat := (8 - len % 8) % 8

/-- `BinaryFileWriter::write_chunk(type)` -/
def writerChunk (ty : Nat) (payload : Bytes) : Bytes :=
  encChunk ty 0 (padTo8 payload.length) 0 chunkFlagsMandatory payload

def encSpan (first count : Nat) : Bytes := leN 8 first ++ leN 4 count

/-- `write(Encoder&, PropertyInfo const&)` -/
def encPropInfo (p : PropData) : Bytes :=
  leN 1 p.entity ++ encVec32 p.name ++ encVec32 p.codec.name ++ encVec32 p.dflt

def encVertHeader (first count enc : Nat) : Bytes := encSpan first count ++ leN 1 enc ++ zeros 3

def encTopoHeader (first count entity valence valEnc hEnc off : Nat) : Bytes :=
  encSpan first count ++ leN 1 entity ++ leN 1 valence ++ leN 1 valEnc ++ leN 1 hEnc ++ leN 8 off

def encPropHeader (first count idx : Nat) : Bytes := encSpan first count ++ leN 4 idx

end OVM.Ovmb

/-
  OVMB model, proofs: ingredients of the round trip for every permitted encoding (C06).

  * `f64to32_some`, `applyVert_float`: float-encoded vertex spans whose coordinates are exactly representable.
  * `stOf F cur`: the reader state that corresponds to the cursor `cur` of the permissive encoder
    (`Permissive.lean`), with partially read property storages `partStor`; `CurOk`: the cursor invariant.
  * `partStor_grow_*`: `resize_*props` on partially read storages.
  Proof-only file (not imported by the judge).  Core only.
-/
import OVM.IO.Ovmb.RoundTripWriter
namespace OVM.Ovmb
open OVM.Gen.Ovmb Dec


/-- a double that `f64to32?` recognises as the widening of a float: that float is a 32-bit pattern and widens
    back to the double -/
theorem f64to32_some {d u : Nat} (h : f64to32? d = some u) : u < 2 ^ 32 ∧ f32to64 u = d := by
  unfold f64to32? at h
  simp only at h
  have hmem := List.mem_of_find?_eq_some h
  have hp := List.find?_some h
  refine ⟨?_, by simpa using hp⟩
  have hs : d / 2 ^ 63 % 2 < 2 := Nat.mod_lt _ (by omega)
  have hm : d % 2 ^ 52 < 2 ^ 52 := Nat.mod_lt _ (by omega)
  split at hmem
  · simp only [List.mem_singleton] at hmem; subst hmem; omega
  · split at hmem
    · simp only [List.mem_singleton] at hmem; subst hmem; omega
    · split at hmem
      · rename_i he
        simp only [Bool.and_eq_true, decide_eq_true_eq] at he
        simp only [List.mem_singleton] at hmem; subst hmem; omega
      · split at hmem
        · rename_i he
          simp only [Bool.and_eq_true, decide_eq_true_eq] at he
          simp only [List.mem_singleton] at hmem; subst hmem
          have : (2 ^ 52 + d % 2 ^ 52) / 2 ^ (29 + (897 - d / 2 ^ 52 % 2048)) < 2 ^ 24 := by
            apply Nat.div_lt_of_lt_mul
            have h30 : 2 ^ 30 ≤ 2 ^ (29 + (897 - d / 2 ^ 52 % 2048)) := Nat.pow_le_pow_right (by omega) (by omega)
            calc 2 ^ 52 + d % 2 ^ 52 < 2 ^ 30 * 2 ^ 24 := by omega
              _ ≤ 2 ^ (29 + (897 - d / 2 ^ 52 % 2048)) * 2 ^ 24 := Nat.mul_le_mul_right _ h30
          omega
        · cases hmem

def f32of (d : Nat) : Nat := (f64to32? d).getD 0

theorem encPositionsF_eq (ps : List (List Nat)) : encPositionsF ps = (ps.map (fun p => encInts 4 (p.map f32of))).flatten := rfl

theorem encPositionsF_length (ps : List (List Nat)) (h : ∀ p ∈ ps, p.length = meshDim) :
    (encPositionsF ps).length = ps.length * (4 * meshDim) := by
  rw [encPositionsF_eq]
  induction ps with
  | nil => simp
  | cons p t ih =>
    have hp := h p (by simp)
    have := ih (fun q hq => h q (by simp [hq]))
    simp only [List.map_cons, List.flatten_cons, List.length_append, encInts_length, List.length_cons, List.length_map] at this ⊢
    rw [this, hp]; simp only [meshDim]; omega

theorem readPositionsF_enc (ps : List (List Nat)) (rest : Bytes)
    (h : ∀ p ∈ ps, p.length = meshDim ∧ ∀ x ∈ p, (f64to32? x).isSome = true) :
    readMany (do let xs ← readInts 4 meshDim; pure (xs.map f32to64)) ps.length (encPositionsF ps ++ rest) = .ok (ps, rest) := by
  rw [encPositionsF_eq]
  refine readMany_roundtrip _ (fun p => encInts 4 (p.map f32of))
    (fun p => p.length = meshDim ∧ ∀ x ∈ p, (f64to32? x).isSome = true) ?_ ps rest h
  intro a r ⟨ha, hb⟩
  have hr := readInts_enc 4 (a.map f32of) r (by
    intro x hx
    simp only [List.mem_map] at hx
    obtain ⟨d, hd, rfl⟩ := hx
    obtain ⟨u, hu⟩ := Option.isSome_iff_exists.mp (hb d hd)
    have := (f64to32_some hu).1
    simp only [f32of, hu, Option.getD_some]; omega)
  simp only [List.length_map, ha] at hr
  have hmap : (a.map f32of).map f32to64 = a := by
    rw [List.map_map]
    conv => rhs; rw [← List.map_id a]
    apply List.map_congr_left
    intro d hd
    obtain ⟨u, hu⟩ := Option.isSome_iff_exists.mp (hb d hd)
    simp only [Function.comp, f32of, hu, Option.getD_some, id]
    exact (f64to32_some hu).2
  simp only [bind_run, hr, pure_run, hmap]

/-- `read_vertices_chunk` on a float-encoded span whose coordinates are all exactly representable as floats -/
theorem applyVert_float (s : RState) (ps : List (List Nat)) (hcount : ps.length ≤ s.nV - s.nVr)
    (hc32 : ps.length < 2 ^ 32) (hf64 : s.nVr < 2 ^ 64)
    (hps : ∀ p ∈ ps, p.length = meshDim ∧ ∀ x ∈ p, (f64to32? x).isSome = true) :
    applyVert s (vertPayload s.nVr vertexEncodingFloat ps) =
      .ok { s with pos := s.pos.take s.nVr ++ ps ++ s.pos.drop (s.nVr + ps.length), nVr := s.nVr + ps.length } := by
  have h1 := uN_leN 8 s.nVr (by simpa using hf64)
  have h2 := uN_leN 4 ps.length (by simpa using hc32)
  have h3 := uN_leN 1 vertexEncodingFloat (by decide)
  have hlen := encPositionsF_length ps (fun p hp => (hps p hp).1)
  have hrd := readPositionsF_enc ps [] hps
  simp only [List.append_nil] at hrd
  have hsz : elemSizeVertex vertexEncodingFloat = 4 := by decide
  have hve : decide (vertexEncodingFloat ∈ validVertexEncoding) = true := by decide
  have hv : validSpan s.nV s.nVr s.nVr ps.length = true := by simp [validSpan, hcount]
  have hne : ¬(vertexEncodingFloat = vertexEncodingDouble) := by decide
  unfold applyVert
  simp only [runDec, vertPayload, encVertHeader, encSpan, hne, if_false, if_true, List.append_assoc, bind_run, u64, u32, u8,
    h1, h2, h3, readN_zeros, allZero_zeros, guard_true, remaining_run, hlen, hsz, hrd, pure_run, hve, hv, beq_self_eq_true]
  simp only [bind, Except.bind, pure, Except.pure]
  simp


/-! ### list helpers -/

theorem map_range_congr {α} {n : Nat} {f g : Nat → α} (h : ∀ i < n, f i = g i) :
    (List.range n).map f = (List.range n).map g :=
  List.map_congr_left (fun i hi => h i (List.mem_range.mp hi))

theorem map_eq_range {α β} [Inhabited α] (l : List α) (h : α → β) :
    l.map h = (List.range l.length).map (fun i => h (l.getD i default)) := by
  apply List.ext_getElem?
  intro i
  by_cases hi : i < l.length
  · simp [hi]
  · simp [hi]

theorem set_range_map {α} (n i : Nat) (g : Nat → α) (x : α) :
    ((List.range n).map g).set i x = (List.range n).map (fun j => if j = i then x else g j) := by
  apply List.ext_getElem?
  intro j
  by_cases hj : j < n
  · by_cases hij : i = j
    · subst hij; simp [hj]
    · rw [List.getElem?_set_ne hij]; simp [hj]; intro h; exact absurd h.symm hij
  · simp [hj]

theorem getD_set {α} (l : List α) (i j : Nat) (x d : α) :
    (l.set i x).getD j d = if j = i ∧ i < l.length then x else l.getD j d := by
  simp only [List.getD_eq_getElem?_getD]
  by_cases hij : i = j
  · subst hij
    by_cases hi : i < l.length
    · simp [hi]
    · simp [hi]
  · rw [List.getElem?_set_ne hij]
    have : ¬(j = i) := fun h => hij h.symm
    simp [this]

theorem take_add_slice {α} (l : List α) (a b : Nat) : l.take a ++ slice l a b = l.take (a + b) := by
  unfold slice
  rw [List.take_add]

/-! ### the reader state that corresponds to a cursor of the permissive encoder -/

/-- storage of property `p` when its first `k` slots have been read and the mesh has the given entity counts -/
def partStor (p : PropData) (k nV nE nF nC : Nat) : Storage :=
  ⟨p.entity, p.name, p.codec, p.dflt, p.vals.take k ++ List.replicate (slotCount p.entity nV nE nF nC - k) p.dflt⟩

def storAt (F : File) (cur : Cur) : List Storage :=
  (List.range F.props.length).map (fun i => partStor (F.props.getD i default) (cur.p.getD i 0) F.pos.length cur.e cur.f cur.c)

def zero3 : List Nat := List.replicate meshDim 0

/-- the reader state after the chunks that brought the permissive encoder to cursor `cur` -/
def stOf (F : File) (cur : Cur) : RState :=
  { topo := F.topo, nV := F.pos.length, nE := F.edges.length, nF := F.faces.length, nC := F.cells.length,
    nVr := cur.v,
    pos := F.pos.take cur.v ++ List.replicate (F.pos.length - cur.v) zero3,
    edges := F.edges.take cur.e, faces := F.faces.take cur.f, cells := F.cells.take cur.c,
    stor := if cur.dirp then storAt F cur else [],
    dir := if cur.dirp then (List.range F.props.length).map some else [],
    eof := false }

theorem stOf_init (F : File) :
    initState F.topo F.pos.length F.edges.length F.faces.length F.cells.length = stOf F {} := by
  simp [initState, stOf, zero3]

/-- what holds of every cursor reached along a valid layout -/
structure CurOk (F : File) (cur : Cur) : Prop where
  v : cur.v ≤ F.pos.length
  e : cur.e ≤ F.edges.length
  f : cur.f ≤ F.faces.length
  c : cur.c ≤ F.cells.length
  plen : cur.dirp = true → cur.p.length = F.props.length
  pk : ∀ i p, F.props[i]? = some p → cur.p.getD i 0 ≤ p.vals.length ∧
        cur.p.getD i 0 ≤ slotCount p.entity cur.v cur.e cur.f cur.c

theorem curOk_init (F : File) : CurOk F {} where
  v := Nat.zero_le _
  e := Nat.zero_le _
  f := Nat.zero_le _
  c := Nat.zero_le _
  plen := by intro h; cases h
  pk := by intro i p _; simp

theorem slotCount_mono (e : Nat) {a b c d a' b' c' d' : Nat} (ha : a ≤ a') (hb : b ≤ b') (hc : c ≤ c') (hd : d ≤ d') :
    slotCount e a b c d ≤ slotCount e a' b' c' d' := by
  unfold slotCount
  repeat' split
  all_goals omega

@[simp] theorem stOf_edges_length (F : File) (cur : Cur) (h : CurOk F cur) : (stOf F cur).edges.length = cur.e := by
  simp [stOf, h.e]
@[simp] theorem stOf_faces_length (F : File) (cur : Cur) (h : CurOk F cur) : (stOf F cur).faces.length = cur.f := by
  simp [stOf, h.f]
@[simp] theorem stOf_cells_length (F : File) (cur : Cur) (h : CurOk F cur) : (stOf F cur).cells.length = cur.c := by
  simp [stOf, h.c]

/-! ### `resize_*props` on partially read storages -/

theorem growStor_range (n : Nat) (g : Nat → Storage) (e k : Nat) :
    growStor ((List.range n).map g) e k =
      (List.range n).map (fun i => if (g i).entity = e then { g i with vals := (g i).vals ++ List.replicate k (g i).dflt } else g i) := by
  simp [growStor, List.map_map, Function.comp]

theorem partStor_grow_edges (p : PropData) (j nV nE nF nC k : Nat) (hj : j ≤ slotCount p.entity nV nE nF nC) :
    let a := partStor p j nV nE nF nC
    let b := if a.entity = propertyEntityEdge then { a with vals := a.vals ++ List.replicate k a.dflt } else a
    (if b.entity = propertyEntityHalfEdge then { b with vals := b.vals ++ List.replicate (2 * k) b.dflt } else b)
      = partStor p j nV (nE + k) nF nC := by
  simp only [partStor, slotCount, propertyEntityVertex, propertyEntityEdge, propertyEntityFace,
    propertyEntityCell, propertyEntityHalfEdge, propertyEntityHalfFace] at hj ⊢
  by_cases h1 : p.entity = 1
  · simp [h1] at hj
    simp [h1, List.append_assoc, List.replicate_append_replicate]; congr 1; omega
  · by_cases h4 : p.entity = 4
    · simp [h4] at hj
      simp [h4, List.append_assoc, List.replicate_append_replicate]; congr 1; omega
    · simp [h1, h4]

theorem partStor_grow_faces (p : PropData) (j nV nE nF nC k : Nat) (hj : j ≤ slotCount p.entity nV nE nF nC) :
    let a := partStor p j nV nE nF nC
    let b := if a.entity = propertyEntityFace then { a with vals := a.vals ++ List.replicate k a.dflt } else a
    (if b.entity = propertyEntityHalfFace then { b with vals := b.vals ++ List.replicate (2 * k) b.dflt } else b)
      = partStor p j nV nE (nF + k) nC := by
  simp only [partStor, slotCount, propertyEntityVertex, propertyEntityEdge, propertyEntityFace,
    propertyEntityCell, propertyEntityHalfEdge, propertyEntityHalfFace] at hj ⊢
  by_cases h2 : p.entity = 2
  · simp [h2] at hj
    simp [h2, List.append_assoc, List.replicate_append_replicate]; congr 1; omega
  · by_cases h5 : p.entity = 5
    · simp [h5] at hj
      simp [h5, List.append_assoc, List.replicate_append_replicate]; congr 1; omega
    · simp [h2, h5]

theorem partStor_grow_cells (p : PropData) (j nV nE nF nC k : Nat) (hj : j ≤ slotCount p.entity nV nE nF nC) :
    let a := partStor p j nV nE nF nC
    (if a.entity = propertyEntityCell then { a with vals := a.vals ++ List.replicate k a.dflt } else a)
      = partStor p j nV nE nF (nC + k) := by
  simp only [partStor, slotCount, propertyEntityVertex, propertyEntityEdge, propertyEntityFace,
    propertyEntityCell, propertyEntityHalfEdge, propertyEntityHalfFace] at hj ⊢
  by_cases h3 : p.entity = 3
  · simp [h3] at hj
    simp [h3, List.append_assoc, List.replicate_append_replicate]; congr 1; omega
  · simp [h3]

end OVM.Ovmb

/-
  OVMB model: concrete interleaved layouts used as non-vacuity witnesses of `permitted_roundtrip_any_layout`
  (Props/C06) — the one-tetrahedron file of RoundTripExample.lean with a face span written between two edge spans,
  and a one-cube hexahedral file (8 vertices, 12 edges, 6 faces, 1 cell) laid out the same way, read into a
  hexahedral mesh with topology check under the judge's ordering oracle.  Everything here is evaluation of the
  model on these two inputs (`decide` / `rfl`), i.e. a test, not a theorem about all inputs.
  Proof-only file (not imported by the judge).  Core only.
-/
import OVM.IO.Ovmb.RoundTripExample
import OVM.IO.Ovmb.RoundTripInterleaved
import OVM.IO.Ovmb.RoundTripHexStd
namespace OVM.Ovmb.Example
open OVM.Ovmb OVM.Gen.Ovmb

/-- an interleaved layout of `tetFile`: three edges, the one face that uses only these, the directory, the other
    three edges, the other three faces, the cell, the property values -/
def interLayout : Layout :=
  { fileVersion := 2,
    pieces := [ { spec := .vert 4 vertexEncodingDouble },
                { spec := .edges 3 intEncodingU8 0 },
                { spec := .faces 1 true intEncodingNone intEncodingU8 0 },
                { spec := .dirp },
                { spec := .edges 3 intEncodingU16 0 },
                { spec := .faces 3 true intEncodingNone intEncodingU16 0 },
                { spec := .cells 1 true intEncodingNone intEncodingU8 0 },
                { spec := .prop 0 4 },
                { spec := .eof } ] }

theorem interLayout_valid : ValidLayout interLayout tetFile = true := by decide

/-- it is not covered by `permitted_roundtrip_ordered` -/
theorem interLayout_not_ordered : topoOrdered tetFile {} interLayout.pieces = false := by decide

set_option maxRecDepth 20000 in
theorem interLayout_length : (encodeWith interLayout tetFile).length = 544 := by decide

/-- the unit cube as a hexahedral mesh: vertex `x + 2y + 4z`, faces oriented outwards -/
def cubeFile : File :=
  { topo := topoTypeHexahedral,
    pos := [[0, 0, 0], [4607182418800017408, 0, 0], [0, 4607182418800017408, 0],
            [4607182418800017408, 4607182418800017408, 0], [0, 0, 4607182418800017408],
            [4607182418800017408, 0, 4607182418800017408], [0, 4607182418800017408, 4607182418800017408],
            [4607182418800017408, 4607182418800017408, 4607182418800017408]],
    edges := [(0, 1), (2, 3), (4, 5), (6, 7), (0, 2), (1, 3), (4, 6), (5, 7), (0, 4), (1, 5), (2, 6), (3, 7)],
    faces := [[16, 12, 21, 9], [10, 22, 15, 19], [0, 18, 5, 17], [20, 6, 23, 3], [8, 2, 11, 1], [4, 14, 7, 13]],
    cells := [[1, 3, 5, 7, 9, 11]],
    props := [] }

theorem cubeFile_wf : WFFile cubeFile = true := by decide

/-- a hexahedral target mesh with topology check and the ordering check of the compiled judge -/
def hexCfg : Cfg := Judge.mkCfg .hex true

/-- the hexahedral mesh type with topology check takes every face and the cell as written -/
theorem cubeFile_accepts : Accepts hexCfg cubeFile where
  tet := by intro h; cases h
  hex := fun _ => rfl
  faces := by
    intro f hf
    simp only [cubeFile, List.mem_cons, List.not_mem_nil, or_false] at hf
    rcases hf with rfl | rfl | rfl | rfl | rfl | rfl <;> rfl
  cells := by
    intro c hc
    simp only [cubeFile, List.mem_cons, List.not_mem_nil, or_false] at hc
    subst hc; rfl

/-- an interleaved layout of `cubeFile`: eleven edges, the face that uses only these, the last edge, the other
    five faces, the cell -/
def cubeLayout : Layout :=
  { fileVersion := 1,
    pieces := [ { spec := .vert 8 vertexEncodingFloat },
                { spec := .edges 11 intEncodingU8 0 },
                { spec := .faces 1 true intEncodingNone intEncodingU8 9 },
                { spec := .edges 1 intEncodingU32 3 },
                { spec := .faces 5 true intEncodingNone intEncodingU16 0 },
                { spec := .cells 1 true intEncodingNone intEncodingU8 1 },
                { spec := .eof } ] }

theorem cubeLayout_valid : ValidLayout cubeLayout cubeFile = true := by decide

theorem cubeLayout_not_ordered : topoOrdered cubeFile {} cubeLayout.pieces = false := by decide

set_option maxRecDepth 20000 in
theorem cubeLayout_length : (encodeWith cubeLayout cubeFile).length = 480 := by decide

/-! ### `HexLocal` cannot be dropped (model level): two stacked cubes and an ordering oracle that looks at the
    length of the face list -/

/-- two unit cubes stacked in `z` (vertex `x + 2y + 4z`, `z ≤ 2`); the first cube's edges and faces come first -/
def twoCubes : File :=
  { topo := topoTypeHexahedral,
    pos := [[0, 0, 0], [4607182418800017408, 0, 0], [0, 4607182418800017408, 0],
            [4607182418800017408, 4607182418800017408, 0], [0, 0, 4607182418800017408],
            [4607182418800017408, 0, 4607182418800017408], [0, 4607182418800017408, 4607182418800017408],
            [4607182418800017408, 4607182418800017408, 4607182418800017408], [0, 0, 4611686018427387904],
            [4607182418800017408, 0, 4611686018427387904], [0, 4607182418800017408, 4611686018427387904],
            [4607182418800017408, 4607182418800017408, 4611686018427387904]],
    edges := [(0, 1), (2, 3), (4, 5), (6, 7), (0, 2), (1, 3), (4, 6), (5, 7), (0, 4), (1, 5), (2, 6), (3, 7),
              (8, 9), (10, 11), (8, 10), (9, 11), (4, 8), (5, 9), (6, 10), (7, 11)],
    faces := [[16, 12, 21, 9], [10, 22, 15, 19], [0, 18, 5, 17], [20, 6, 23, 3], [8, 2, 11, 1], [4, 14, 7, 13],
              [32, 28, 37, 13], [14, 38, 31, 35], [4, 34, 25, 33], [36, 26, 39, 7], [24, 30, 27, 29]],
    cells := [[1, 3, 5, 7, 9, 11], [10, 21, 13, 15, 17, 19]],
    props := [] }

theorem twoCubes_wf : WFFile twoCubes = true := by decide

/-- a hexahedral target with topology check whose ordering step is NOT local: it rejects unless the mesh holds
    exactly eleven faces, and otherwise is the judge's `check_halfface_ordering` -/
def nonLocalCfg : Cfg := ⟨.hex, true, fun faces hfs => if faces.length = 11 then Judge.hexOrderStd faces hfs else .reject⟩

theorem twoCubes_accepts_nonLocal : Accepts nonLocalCfg twoCubes where
  tet := by intro h; cases h
  hex := fun _ => rfl
  faces := by
    intro f hf
    simp only [twoCubes, List.mem_cons, List.not_mem_nil, or_false] at hf
    rcases hf with rfl | rfl | rfl | rfl | rfl | rfl | rfl | rfl | rfl | rfl | rfl <;> rfl
  cells := by
    intro c hc
    simp only [twoCubes, List.mem_cons, List.not_mem_nil, or_false] at hc
    rcases hc with rfl | rfl <;> rfl

theorem twoCubes_accepts : Accepts hexCfg twoCubes where
  tet := by intro h; cases h
  hex := fun _ => rfl
  faces := by
    intro f hf
    simp only [twoCubes, List.mem_cons, List.not_mem_nil, or_false] at hf
    rcases hf with rfl | rfl | rfl | rfl | rfl | rfl | rfl | rfl | rfl | rfl | rfl <;> rfl
  cells := by
    intro c hc
    simp only [twoCubes, List.mem_cons, List.not_mem_nil, or_false] at hc
    rcases hc with rfl | rfl <;> rfl

/-- the first cube complete (its twelve edges, six faces, its cell), then the second -/
def twoCubesLayout : Layout :=
  { fileVersion := 1,
    pieces := [ { spec := .vert 12 vertexEncodingFloat },
                { spec := .edges 12 intEncodingU8 0 },
                { spec := .faces 6 true intEncodingNone intEncodingU8 0 },
                { spec := .cells 1 true intEncodingNone intEncodingU8 0 },
                { spec := .edges 8 intEncodingU8 0 },
                { spec := .faces 5 true intEncodingNone intEncodingU8 0 },
                { spec := .cells 1 true intEncodingNone intEncodingU8 0 },
                { spec := .eof } ] }

theorem twoCubesLayout_valid : ValidLayout twoCubesLayout twoCubes = true := by decide

/-- the reader returned `InvalidFile` -/
def isInvalidFile (r : R File) : Bool :=
  match r with
  | .error (.res .invalidFile) => true
  | _ => false

set_option maxRecDepth 100000 in
/-- the non-local configuration accepts every face and cell of the complete mesh, yet rejects this valid layout of
    it: it meets the first cell when the mesh holds six faces (evaluation of the model on this input) -/
theorem twoCubes_nonLocal_rejected :
    isInvalidFile (decode nonLocalCfg (encodeWith twoCubesLayout twoCubes)) = true := by decide +kernel

set_option maxRecDepth 20000 in
theorem twoCubesLayout_length : (encodeWith twoCubesLayout twoCubes).length = 584 := by decide

end OVM.Ovmb.Example

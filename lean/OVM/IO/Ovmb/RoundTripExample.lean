/-
  OVMB model: a concrete small file used as non-vacuity witness by Props/C06 and Props/C18 — one tetrahedron
  (4 vertices, 6 edges, 4 faces, 1 cell) with an `i32` vertex property.  Everything here is evaluation of the
  model on this one input (`decide` / `rfl`), i.e. a test, not a theorem about all inputs.
  Proof-only file (not imported by the judge).  Core only.
-/
import OVM.IO.Ovmb.RoundTripWriter
namespace OVM.Ovmb.Example
open OVM.Ovmb OVM.Gen.Ovmb

def tetFile : File :=
  { topo := topoTypeTetrahedral,
    pos := [[0, 0, 0], [4607182418800017408, 0, 0], [0, 4607182418800017408, 0], [0, 0, 4607182418800017408]],
    edges := [(0, 1), (1, 2), (2, 0), (0, 3), (1, 3), (2, 3)],
    faces := [[0, 2, 4], [0, 8, 7], [2, 10, 9], [4, 6, 11]],
    cells := [[1, 2, 4, 6]],
    props := [⟨propertyEntityVertex, [112], ⟨[105, 51, 50], .fixed, 4⟩, [0, 0, 0, 0],
               [[1, 0, 0, 0], [2, 0, 0, 0], [3, 0, 0, 0], [255, 255, 255, 255]]⟩] }

theorem tetFile_wf : WFFile tetFile = true := by decide

set_option maxRecDepth 20000 in
theorem tetFile_length : (encode tetFile).length = 440 := by decide

theorem tetFile_size : SizeOk tetFile := by unfold SizeOk; rw [tetFile_length]; decide

/-- a polyhedral target mesh without topology check -/
def polyCfg : Cfg := ⟨.poly, false, fun _ _ => .asIs⟩

/-- a tetrahedral target mesh with topology check -/
def tetCfg : Cfg := ⟨.tet, true, fun _ _ => .asIs⟩

/-- the tetrahedral mesh type with topology check takes every face and the cell as written -/
theorem tetFile_accepts : Accepts tetCfg tetFile where
  tet := fun _ => rfl
  hex := by intro h; cases h
  faces := by
    intro f hf
    simp only [tetFile, List.mem_cons, List.not_mem_nil, or_false] at hf
    rcases hf with rfl | rfl | rfl | rfl <;> rfl
  cells := by
    intro c hc
    simp only [tetFile, List.mem_cons, List.not_mem_nil, or_false] at hc
    subst hc; rfl

/-- an alternative layout of `tetFile`: vertices in two spans (the second float-encoded), edges with different
    handle widths in two spans, faces in two spans (the second with handle offset 4), cells with handle offset 1,
    two skippable chunks (one of type EOF with an unknown version), the directory after the topology, the
    property values in two spans, explicit padding, a non-mandatory flag, file version 7 -/
def altLayout : Layout :=
  { fileVersion := 7,
    pieces := [ { spec := .vert 1 vertexEncodingDouble }, { spec := .vert 3 vertexEncodingFloat, pad := some 3 },
                { spec := .edges 2 intEncodingU16 0 }, { spec := .skip 1234 0 0 [1, 2, 3] },
                { spec := .edges 4 intEncodingU32 0 },
                { spec := .faces 3 true intEncodingNone intEncodingU8 0, flags := 0 },
                { spec := .faces 1 true intEncodingNone intEncodingU16 4 },
                { spec := .cells 1 true intEncodingNone intEncodingU16 1 },
                { spec := .dirp }, { spec := .prop 0 3 }, { spec := .skip ccEOF 1 0 [] }, { spec := .prop 0 1 },
                { spec := .eof } ] }

theorem altLayout_valid : ValidLayout altLayout tetFile = true := by decide

set_option maxRecDepth 20000 in
theorem altLayout_length : (encodeWith altLayout tetFile).length = 631 := by decide

end OVM.Ovmb.Example

/-
  OVMB model, proofs: *locality* of the kernel calls the reader makes (C06, interleaved layouts).

  `add_face(halfedges, topology_check)` looks only at the edges its halfedges belong to; `add_cell(halffaces,
  topology_check)` (base kernel, tetrahedral and hexahedral overrides: closed-surface check, distinct-vertex guard,
  parallel-halfedge guard, opposite-pairs guard) looks only at the faces of its halffaces and at the edges of those
  faces.  So the verdict is the same on any two edge / face lists that agree there (`*_congr`), in particular on a
  prefix that contains them (`addFace_take`, `addCell_take`).  The hexahedral ordering oracle `cfg.hexOrder` is
  abstract; what is needed of it is `HexLocal` (its answer for a six-halfface cell does not change when faces the
  cell does not use are added behind a prefix that holds the cell's faces).
  Proof-only file (not imported by the judge).  Core only.
-/
import OVM.IO.Ovmb.SafetyBase
namespace OVM.Ovmb
open OVM.Gen.Ovmb Dec

theorem mapM_congr {α β} {f g : α → R β} : ∀ (l : List α), (∀ x ∈ l, f x = g x) → l.mapM f = l.mapM g := by
  intro l
  induction l with
  | nil => intro _; simp
  | cons a t ih =>
    intro h
    simp only [List.mapM_cons]
    rw [h a (by simp), ih (fun x hx => h x (by simp [hx]))]

theorem getU_congr {α} {l l' : List α} {i : Nat} (h : l'[i]? = l[i]?) : getU l' i = getU l i := by
  unfold getU; rw [h]

theorem heEnds_congr {edges edges' : List (Nat × Nat)} {he : Nat} (h : edges'[he / 2]? = edges[he / 2]?) :
    heEnds edges' he = heEnds edges he := by
  unfold heEnds; rw [getU_congr h]

theorem hfHalfedges_congr {faces faces' : List (List Nat)} {hf : Nat} (h : faces'[hf / 2]? = faces[hf / 2]?) :
    hfHalfedges faces' hf = hfHalfedges faces hf := by
  unfold hfHalfedges; rw [getU_congr h]

/-- the topology check of `add_face` reads the edges of the given halfedges only -/
theorem faceCheck_congr {edges edges' : List (Nat × Nat)} {hes : List Nat}
    (h : ∀ he ∈ hes, edges'[he / 2]? = edges[he / 2]?) : faceCheck edges' hes = faceCheck edges hes := by
  unfold faceCheck
  rw [mapM_congr hes (fun x hx => heEnds_congr (h x hx))]

theorem addFace_congr (cfg : Cfg) {edges edges' : List (Nat × Nat)} {hes : List Nat}
    (h : ∀ he ∈ hes, edges'[he / 2]? = edges[he / 2]?) : addFace cfg edges' hes = addFace cfg edges hes := by
  unfold addFace
  rw [faceCheck_congr h]

/-- the halfedges of a halfface are those of its face, possibly flipped: they designate the same edges -/
theorem hfHalfedges_mem {faces : List (List Nat)} {hf : Nat} {hes : List Nat} (h : hfHalfedges faces hf = .ok hes)
    {x : Nat} (hx : x ∈ hes) : ∃ f, faces[hf / 2]? = some f ∧ ∃ y ∈ f, x / 2 = y / 2 := by
  unfold hfHalfedges at h
  cases hg : getU faces (hf / 2) with
  | error e => simp [hg, bind, Except.bind] at h
  | ok f =>
    simp only [hg, bind, Except.bind, pure, Except.pure, Except.ok.injEq] at h
    refine ⟨f, getU_inv hg, ?_⟩
    subst h
    split at hx
    · exact ⟨x, hx, rfl⟩
    · simp only [List.mem_map, List.mem_reverse] at hx
      obtain ⟨y, hy, rfl⟩ := hx
      exact ⟨y, hy, xor_one_div y⟩

theorem cellCheck_congr {faces faces' : List (List Nat)} {hfs : List Nat}
    (hF : ∀ hf ∈ hfs, faces'[hf / 2]? = faces[hf / 2]?) : cellCheck faces' hfs = cellCheck faces hfs := by
  unfold cellCheck
  rw [mapM_congr hfs (fun x hx => hfHalfedges_congr (hF x hx))]

theorem baseAddCell_congr (cfg : Cfg) {faces faces' : List (List Nat)} {hfs : List Nat}
    (hF : ∀ hf ∈ hfs, faces'[hf / 2]? = faces[hf / 2]?) : baseAddCell cfg faces' hfs = baseAddCell cfg faces hfs := by
  unfold baseAddCell
  rw [cellCheck_congr hF]

/-- the end points of the halfedges of the given halffaces: read from the faces of these halffaces and the edges of
    those faces only -/
theorem cellEnds_congr {edges edges' : List (Nat × Nat)} {faces faces' : List (List Nat)} {hfs : List Nat}
    (hF : ∀ hf ∈ hfs, faces'[hf / 2]? = faces[hf / 2]?)
    (hE : ∀ hf ∈ hfs, ∀ f, faces[hf / 2]? = some f → ∀ he ∈ f, edges'[he / 2]? = edges[he / 2]?) :
    cellEnds edges' faces' hfs = cellEnds edges faces hfs := by
  unfold cellEnds
  rw [mapM_congr hfs (fun x hx => hfHalfedges_congr (hF x hx))]
  cases hls : hfs.mapM (hfHalfedges faces) with
  | error e => rfl
  | ok ls =>
    simp only [bind, Except.bind]
    apply mapM_congr
    intro x hx
    obtain ⟨l, hl, hxl⟩ := List.mem_flatten.mp hx
    obtain ⟨hf, hhf, hh⟩ := mapM_ok_mem_rev hfs ls hls l hl
    obtain ⟨f, hf1, y, hy, hxy⟩ := hfHalfedges_mem hh hxl
    exact heEnds_congr (by rw [hxy]; exact hE hf hhf f hf1 y hy)

theorem spanCount_congr {edges edges' : List (Nat × Nat)} {faces faces' : List (List Nat)} {hfs : List Nat}
    (hF : ∀ hf ∈ hfs, faces'[hf / 2]? = faces[hf / 2]?)
    (hE : ∀ hf ∈ hfs, ∀ f, faces[hf / 2]? = some f → ∀ he ∈ f, edges'[he / 2]? = edges[he / 2]?) :
    spanCount edges' faces' hfs = spanCount edges faces hfs := by
  unfold spanCount
  rw [cellEnds_congr hF hE]

theorem noParallel_congr {edges edges' : List (Nat × Nat)} {faces faces' : List (List Nat)} {hfs : List Nat}
    (hF : ∀ hf ∈ hfs, faces'[hf / 2]? = faces[hf / 2]?)
    (hE : ∀ hf ∈ hfs, ∀ f, faces[hf / 2]? = some f → ∀ he ∈ f, edges'[he / 2]? = edges[he / 2]?) :
    noParallel edges' faces' hfs = noParallel edges faces hfs := by
  unfold noParallel
  rw [cellEnds_congr hF hE]

theorem hfFroms_congr {edges edges' : List (Nat × Nat)} {faces faces' : List (List Nat)} {hf : Nat}
    (hF : faces'[hf / 2]? = faces[hf / 2]?)
    (hE : ∀ f, faces[hf / 2]? = some f → ∀ he ∈ f, edges'[he / 2]? = edges[he / 2]?) :
    hfFroms edges' faces' hf = hfFroms edges faces hf := by
  unfold hfFroms
  rw [hfHalfedges_congr hF]
  cases hh : hfHalfedges faces hf with
  | error e => rfl
  | ok hes =>
    have e : hes.mapM (heEnds edges') = hes.mapM (heEnds edges) := by
      apply mapM_congr
      intro x hx
      obtain ⟨f, hf1, y, hy, hxy⟩ := hfHalfedges_mem hh hx
      exact heEnds_congr (by rw [hxy]; exact hE f hf1 y hy)
    simp only [bind, Except.bind]
    rw [e]

theorem oppPairsDisjoint_congr {edges edges' : List (Nat × Nat)} {faces faces' : List (List Nat)} {l : List Nat}
    (hF : ∀ hf ∈ l, faces'[hf / 2]? = faces[hf / 2]?)
    (hE : ∀ hf ∈ l, ∀ f, faces[hf / 2]? = some f → ∀ he ∈ f, edges'[he / 2]? = edges[he / 2]?) :
    oppPairsDisjoint edges' faces' l = oppPairsDisjoint edges faces l := by
  unfold oppPairsDisjoint
  rw [mapM_congr l (fun x hx => hfFroms_congr (hF x hx) (hE x hx))]

/-- the base kernel's `add_cell` stores the list it was given -/
theorem baseAddCell_some {cfg : Cfg} {faces : List (List Nat)} {l r : List Nat}
    (h : baseAddCell cfg faces l = .ok (some r)) : r = l := by
  unfold baseAddCell at h
  split at h
  · split at h
    · simp [pure, Except.pure] at h
    · cases hc : cellCheck faces l with
      | error e => simp [hc, bind, Except.bind] at h
      | ok b =>
        simp only [hc, bind, Except.bind, pure, Except.pure, Except.ok.injEq] at h
        split at h
        · simpa using h.symm
        · simp at h
  · simpa [pure, Except.pure] using h.symm

/-- what the checked hexahedral `add_cell` stores after a re-ordering step is the re-ordered list -/
theorem addCell_reordered {cfg : Cfg} {edges : List (Nat × Nat)} {faces : List (List Nat)} {c r l : List Nat}
    (hk : cfg.kind = .hex) (ht : cfg.topoCheck = true) (hx : cfg.hexOrder faces c = .reordered l)
    (h : addCell cfg edges faces c = .ok (some r)) : r = l := by
  unfold addCell at h
  simp only [hk] at h
  split at h
  · simp [pure, Except.pure] at h
  · cases h1 : c.mapM (fun hf => getU faces (hf / 2)) with
    | error e => simp [h1, bind, Except.bind] at h
    | ok fs =>
      simp only [h1, bind, Except.bind] at h
      split at h
      · simp [pure, Except.pure] at h
      · cases h2 : spanCount edges faces c with
        | error e => simp [h2] at h
        | ok n =>
          simp only [h2] at h
          split at h
          · simp [pure, Except.pure] at h
          · simp only [ht, hx, Bool.not_true, Bool.false_eq_true, if_false] at h
            cases h3 : oppPairsDisjoint edges faces l with
            | error e => simp [h3] at h
            | ok b =>
              simp only [h3] at h
              cases b with
              | false => simp [pure, Except.pure] at h
              | true => exact baseAddCell_some (by simpa using h)

/-- **locality of `add_cell`** (all mesh types, topology check on or off): a cell accepted as written on
    `edges` / `faces` is accepted as written on any `edges'` / `faces'` that hold the same faces for its halffaces
    and the same edges for the halfedges of those faces, provided the ordering oracle answers the same -/
theorem addCell_transport (cfg : Cfg) {edges edges' : List (Nat × Nat)} {faces faces' : List (List Nat)} {c : List Nat}
    (hF : ∀ hf ∈ c, faces'[hf / 2]? = faces[hf / 2]?)
    (hE : ∀ hf ∈ c, ∀ f, faces[hf / 2]? = some f → ∀ he ∈ f, edges'[he / 2]? = edges[he / 2]?)
    (hH : cfg.kind = .hex → cfg.topoCheck = true → c.length = 6 → cfg.hexOrder faces' c = cfg.hexOrder faces c)
    (h : addCell cfg edges faces c = .ok (some c)) : addCell cfg edges' faces' c = .ok (some c) := by
  have e1 := baseAddCell_congr cfg hF
  have e2 := spanCount_congr hF hE
  have e3 := noParallel_congr hF hE
  have e4 : c.mapM (fun hf => getU faces' (hf / 2)) = c.mapM (fun hf => getU faces (hf / 2)) :=
    mapM_congr c (fun x hx => getU_congr (hF x hx))
  have e5 := oppPairsDisjoint_congr hF hE
  cases hk : cfg.kind with
  | poly => unfold addCell at h ⊢; simp only [hk] at h ⊢; rw [e1]; exact h
  | tet => unfold addCell at h ⊢; simp only [hk] at h ⊢; rw [e1, e2, e3, e4]; exact h
  | hex =>
    by_cases hlen : c.length = 6
    · cases ht : cfg.topoCheck with
      | false =>
        unfold addCell at h ⊢; simp only [hk, ht] at h ⊢; rw [e1, e2, e4]; exact h
      | true =>
        have hH' := hH hk ht hlen
        cases hx : cfg.hexOrder faces c with
        | reordered l =>
          have hl : c = l := addCell_reordered hk ht hx h
          subst hl
          unfold addCell at h ⊢; simp only [hk, ht, hH', hx] at h ⊢; rw [e1, e2, e4, e5]; exact h
        | asIs => unfold addCell at h ⊢; simp only [hk, ht, hH', hx] at h ⊢; rw [e1, e2, e4, e5]; exact h
        | reject => unfold addCell at h ⊢; simp only [hk, ht, hH', hx] at h ⊢; rw [e2, e4]; exact h
        | unmodelled => unfold addCell at h ⊢; simp only [hk, ht, hH', hx] at h ⊢; rw [e2, e4]; exact h
    · unfold addCell at h; simp only [hk] at h
      rw [if_pos hlen] at h
      simp [pure, Except.pure] at h

/-! ### prefixes -/

theorem take_getElem? {α} (l : List α) {n i : Nat} (h : i < n) : (l.take n)[i]? = l[i]? := by
  rw [List.getElem?_take]; simp [h]

/-- a face whose halfedges all belong to the first `n` edges is judged on those as on the full edge list -/
theorem addFace_take (cfg : Cfg) (edges : List (Nat × Nat)) (n : Nat) {hes : List Nat} (h : ∀ he ∈ hes, he < 2 * n) :
    addFace cfg (edges.take n) hes = addFace cfg edges hes :=
  addFace_congr cfg (fun he hhe => take_getElem? edges (by have := h he hhe; omega))

/-- the ordering oracle of the hexahedral `add_cell` reads only the faces of the halffaces it is given: its answer
    for a six-halfface cell is the same on a prefix of the face list that holds these faces as on the full list -/
def HexLocal (cfg : Cfg) : Prop :=
  ∀ (faces : List (List Nat)) (n : Nat) (hfs : List Nat), hfs.length = 6 → (∀ hf ∈ hfs, hf / 2 < n) →
    cfg.hexOrder (faces.take n) hfs = cfg.hexOrder faces hfs

/-- a cell whose halffaces all belong to the first `m` faces, these faces having their halfedges among the first
    `n` edges: accepted as written on the full lists, it is accepted as written on the prefixes -/
theorem addCell_take (cfg : Cfg) (hloc : cfg.kind = .hex → cfg.topoCheck = true → HexLocal cfg)
    (edges : List (Nat × Nat)) (faces : List (List Nat)) (n m : Nat) {c : List Nat}
    (hc : ∀ hf ∈ c, hf < 2 * m) (hcl : ∀ f ∈ faces.take m, ∀ he ∈ f, he < 2 * n)
    (h : addCell cfg edges faces c = .ok (some c)) : addCell cfg (edges.take n) (faces.take m) c = .ok (some c) := by
  have hF : ∀ hf ∈ c, (faces.take m)[hf / 2]? = faces[hf / 2]? :=
    fun hf hhf => take_getElem? faces (by have := hc hf hhf; omega)
  refine addCell_transport cfg hF ?_ ?_ h
  · intro hf hhf f hf1 he hhe
    have hmem : f ∈ faces.take m := List.mem_of_getElem? (by rw [hF hf hhf]; exact hf1)
    exact take_getElem? edges (by have := hcl f hmem he hhe; omega)
  · intro hk ht hlen
    exact hloc hk ht faces m c hlen (fun hf hhf => by have := hc hf hhf; omega)

end OVM.Ovmb

/-
  OVMB model, layer 4: the writer (`BinaryFileWriter.cc`): file header, DIRP, VERT, TOPO×3, PROP×n, EOF — one span
  per kind, integer widths from `suitable_int_encoding(count)`, fixed vs. variable valence as `start_topo_chunk`
  decides, padding to 8 — and the generic chunk payload encoders shared with the permissive encoder.  Core only.
-/
import OVM.IO.Ovmb.Format

namespace OVM.Ovmb
open OVM.Gen.Ovmb

/-- `GeometryWriterT::write`: `dim` doubles per vertex -/
def encPositions (pos : List (List Nat)) : Bytes := (pos.map (encInts 8)).flatten

/-- positions as floats (only meaningful when every coordinate is the widening of a float) -/
def encPositionsF (pos : List (List Nat)) : Bytes :=
  (pos.map (fun p => encInts 4 (p.map (fun d => (f64to32? d).getD 0)))).flatten

/-- payload of a TOPO chunk: header, valence list when `valence = 0`, handles minus `off` -/
def topoPayload (first entity valence valEnc hEnc off : Nat) (lists : List (List Nat)) : Bytes :=
  encTopoHeader first lists.length entity valence valEnc hEnc off
    ++ (if valence = 0 then encInts (elemSizeInt valEnc) (lists.map List.length) else [])
    ++ encInts (elemSizeInt hEnc) (lists.flatten.map (· - off))

def edgeLists (es : List (Nat × Nat)) : List (List Nat) := es.map (fun e => [e.1, e.2])

def listMin : List Nat → Nat
  | [] => 2 ^ 32 - 1
  | x :: xs => min x (listMin xs)

def listMax : List Nat → Nat
  | [] => 0
  | x :: xs => max x (listMax xs)

/-- `start_topo_chunk` with a valence function: `(valence, valence_encoding)` -/
def writerValMode (vals : List Nat) : Nat × Nat :=
  let mn := listMin vals
  let mx := listMax vals
  if mn == mx && mn ≤ 255 then (mn, intEncodingNone) else (0, suitableIntEncoding mx)

def vertPayload (first enc : Nat) (pos : List (List Nat)) : Bytes :=
  encVertHeader first pos.length enc
    ++ (if enc = vertexEncodingDouble then encPositions pos else if enc = vertexEncodingFloat then encPositionsF pos else [])

def propPayload (first idx : Nat) (c : Codec) (vals : List Bytes) : Bytes :=
  encPropHeader first vals.length idx ++ encodeN c vals

def dirpPayload (ps : List PropData) : Bytes := (ps.map encPropInfo).flatten

def propChunksFrom : Nat → List PropData → List Bytes
  | _, [] => []
  | i, p :: ps => writerChunk ccPROP (propPayload 0 i p.codec p.vals) :: propChunksFrom (i + 1) ps

def eofChunk : Bytes := writerChunk ccEOF []

/-- the chunks the writer emits, in order, each as one byte string -/
def writerChunks (F : File) : List Bytes :=
  let nV := F.pos.length
  let nE := F.edges.length
  let nF := F.faces.length
  let fm := writerValMode (F.faces.map List.length)
  let cm := writerValMode (F.cells.map List.length)
  (if F.props.isEmpty then [] else [writerChunk ccDIRP (dirpPayload F.props)])
  ++ (if nV = 0 then [] else [writerChunk ccVERT (vertPayload 0 vertexEncodingDouble F.pos)])
  ++ (if nE = 0 then [] else
        [writerChunk ccTOPO (topoPayload 0 topoEntityEdge 2 intEncodingNone (suitableIntEncoding nV) 0 (edgeLists F.edges))])
  ++ (if nF = 0 then [] else
        [writerChunk ccTOPO (topoPayload 0 topoEntityFace fm.1 fm.2 (suitableIntEncoding (2 * nE)) 0 F.faces)])
  ++ (if F.cells.length = 0 then [] else
        [writerChunk ccTOPO (topoPayload 0 topoEntityCell cm.1 cm.2 (suitableIntEncoding (2 * nF)) 0 F.cells)])
  ++ propChunksFrom 0 F.props
  ++ [eofChunk]

def writerHeader (F : File) : Bytes :=
  encFileHeader writerFileVersion writerHeaderVersion meshDim F.topo
    F.pos.length F.edges.length F.faces.length F.cells.length

/-- `BinaryFileWriter::do_write_file` on a mesh without pending deletions: the bytes of the file -/
def encode (F : File) : Bytes := writerHeader F ++ (writerChunks F).flatten

/-! ### the writer as a procedure: refusal of pending deletions, failing sinks -/

inductive WriteResult where
  | ok | error | badStream
  deriving DecidableEq, Repr

/-- what the writer sees of a mesh: its content and `needs_garbage_collection()` -/
structure WMesh where
  file : File
  needsGC : Bool

/-- an output stream that accepts `cap` more bytes and then fails (`none`: never fails) -/
structure Sink where
  out : Bytes
  good : Bool
  cap : Option Nat

/-- `ostream::write(p, n)`: no-op once the stream is not good; a write that does not fit sets badbit
    (the bytes that did fit are kept, as `xsputn` returns a short count) -/
def Sink.write (s : Sink) (p : Bytes) : Sink :=
  if !s.good then s else
  match s.cap with
  | none => { s with out := s.out ++ p }
  | some c =>
    if p.length ≤ c then { s with out := s.out ++ p, cap := some (c - p.length) }
    else { s with out := s.out ++ p.take c, cap := some 0, good := false }

/-- `BinaryFileWriter::write_file`: BadStream if the stream is already bad, Error for a mesh that needs garbage
    collection (`write_error("run garbage collection first!")`, nothing written), else header and chunks are
    written and the result is `ostream_.good()`. -/
def write (m : WMesh) (s : Sink) : WriteResult × Sink :=
  if !s.good then (.badStream, s)
  else if m.needsGC then (.error, s)
  else
    let s' := (writerHeader m.file :: writerChunks m.file).foldl Sink.write s
    (if s'.good then .ok else .error, s')

/-! ### topology type detection (`detect_topology_type`) -/

inductive MeshKind where
  | poly | tet | hex
  deriving DecidableEq, Repr, Inhabited

/-- `mesh_is_tetrahedral` / `mesh_is_hexahedral`: at least one cell, all faces `fv`-gons, all cells `cv`-hedra -/
def allValences (faces cells : List (List Nat)) (fv cv : Nat) : Bool :=
  !cells.isEmpty && faces.all (·.length == fv) && cells.all (·.length == cv)

/-- the TopoType code the writer puts into the header under `WriteOptions::AutoDetect` -/
def detectTopo (k : MeshKind) (faces cells : List (List Nat)) : Nat :=
  match k with
  | .tet => topoTypeTetrahedral
  | .hex => topoTypeHexahedral
  | .poly =>
    if allValences faces cells 3 4 then topoTypeTetrahedral
    else if allValences faces cells 4 6 then topoTypeHexahedral
    else topoTypePolyhedral

end OVM.Ovmb

/-
  OVMB model, proofs: the writer's bytes are one of the permitted encodings (C06).

  `writerLayout_spec`: for every well-formed `F`, `ValidLayout (writerLayout F) F` and
  `encodeWith (writerLayout F) F = encode F`, hence `Encodes (encode F) F` — what the writer produces conforms
  to the format description as formalised in `Permissive.lean`.  Proved segment by segment (`Seg`: admissible,
  cursor, bytes) along directory, vertices, edges, faces, cells, property values.
  Proof-only file (not imported by the judge).  Core only.
-/
import OVM.IO.Ovmb.RoundTripPermitted
namespace OVM.Ovmb
open OVM.Gen.Ovmb Dec

variable (F : File)

/-- cursor after a list of pieces -/
def curEnd : Cur → List Piece → Cur
  | cur, [] => cur
  | cur, pc :: r => curEnd (curAfter F cur pc) r

/-- every piece is admissible at its cursor and none is an EOF piece -/
def prefixOk : Cur → List Piece → Bool
  | _, [] => true
  | cur, pc :: r => !pc.spec.isEof && pieceOk F cur pc && prefixOk (curAfter F cur pc) r

theorem notEof_match (s : Spec) : (match s with | .eof => false | _ => true) = !s.isEof := by
  cases s <;> rfl

theorem piecesOk_append (cur : Cur) (a b : List Piece) (hb : b ≠ []) :
    piecesOk F cur (a ++ b) = (prefixOk F cur a && piecesOk F (curEnd F cur a) b) := by
  induction a generalizing cur with
  | nil => simp [prefixOk, curEnd]
  | cons pc a ih =>
    have hne : a ++ b ≠ [] := by simp [hb]
    simp only [List.cons_append, prefixOk, curEnd]
    cases hab : a ++ b with
    | nil => exact absurd hab hne
    | cons pc' r =>
      rw [piecesOk]
      · rw [← hab, ih]
        cases pc.spec <;> simp [Spec.isEof, Bool.and_assoc]
      · simp

theorem encodePieces_append (cur : Cur) (a b : List Piece) :
    encodePieces F cur (a ++ b) = encodePieces F cur a ++ encodePieces F (curEnd F cur a) b := by
  induction a generalizing cur with
  | nil => simp [encodePieces, curEnd]
  | cons pc a ih =>
    simp only [List.cons_append, encodePieces, curEnd, curAfter, List.append_assoc, ih]

theorem prefixOk_append (cur : Cur) (a b : List Piece) :
    prefixOk F cur (a ++ b) = (prefixOk F cur a && prefixOk F (curEnd F cur a) b) := by
  induction a generalizing cur with
  | nil => simp [prefixOk, curEnd]
  | cons pc a ih => simp only [List.cons_append, prefixOk, curEnd, ih, Bool.and_assoc]

theorem curEnd_append (cur : Cur) (a b : List Piece) : curEnd F cur (a ++ b) = curEnd F (curEnd F cur a) b := by
  induction a generalizing cur with
  | nil => rfl
  | cons pc a ih => simp only [List.cons_append, curEnd, ih]

/-- one default piece (writer padding, mandatory flag): its bytes are `write_chunk` of its body -/
theorem encodePieces_one (cur : Cur) (spec : Spec)
    (hk : ∀ ty v fl p, spec ≠ .skip ty v fl p) :
    encodePieces F cur [{ spec := spec }] = writerChunk (pieceBody F cur spec).1 (pieceBody F cur spec).2.1 := by
  simp only [encodePieces, pieceBytes, List.append_nil]
  cases spec with
  | skip ty v fl p => exact absurd rfl (hk ty v fl p)
  | _ => rfl

theorem slice_all {α} (l : List α) : slice l 0 l.length = l := by simp [slice]

/-- the three facts about one segment of the writer's layout: admissible, where the cursor ends, and the bytes -/
structure Seg (c : Cur) (S : List Piece) (c' : Cur) (W : List Bytes) : Prop where
  ok : prefixOk F c S = true
  fin : curEnd F c S = c'
  bytes : encodePieces F c S = W.flatten

theorem Seg.append {c1 c2 c3 : Cur} {S1 S2 : List Piece} {W1 W2 : List Bytes}
    (h1 : Seg F c1 S1 c2 W1) (h2 : Seg F c2 S2 c3 W2) : Seg F c1 (S1 ++ S2) c3 (W1 ++ W2) where
  ok := by rw [prefixOk_append, h1.ok, h1.fin, h2.ok]; rfl
  fin := by rw [curEnd_append, h1.fin, h2.fin]
  bytes := by rw [encodePieces_append, h1.bytes, h1.fin, h2.bytes, List.flatten_append]

theorem seg_dirp :
    Seg F {} (if F.props.isEmpty then [] else [{ spec := .dirp }])
      (if F.props.isEmpty then {} else { dirp := true, p := List.replicate F.props.length 0 })
      (if F.props.isEmpty then [] else [writerChunk ccDIRP (dirpPayload F.props)]) := by
  by_cases hp : F.props.isEmpty = true
  · simp only [hp, if_true]; exact ⟨rfl, rfl, rfl⟩
  · simp only [hp, if_false, Bool.false_eq_true]
    refine ⟨by simp [prefixOk, Spec.isEof, pieceOk], by simp [curEnd, curAfter, pieceBytes, pieceBody], ?_⟩
    rw [encodePieces_one F _ _ (by intro _ _ _ _ h; cases h)]
    simp [pieceBody]

theorem seg_vert (hw : WF F) (cur : Cur) (hv : cur.v = 0) :
    Seg F cur (if F.pos.length = 0 then [] else [{ spec := .vert F.pos.length vertexEncodingDouble }])
      { cur with v := F.pos.length }
      (if F.pos.length = 0 then [] else [writerChunk ccVERT (vertPayload 0 vertexEncodingDouble F.pos)]) := by
  have hnV := hw.nV
  simp only [maxHandleIdx] at hnV
  by_cases hp : F.pos.length = 0
  · simp only [hp, if_true]; exact ⟨rfl, by simp only [curEnd]; rw [← hv], rfl⟩
  · simp only [hp, if_false]
    refine ⟨?_, by simp [curEnd, curAfter, pieceBytes, pieceBody, hv], ?_⟩
    · simp only [prefixOk, Spec.isEof, pieceOk, hv, Bool.not_false, Bool.true_and, Bool.and_true, Bool.and_eq_true,
        decide_eq_true_eq, beq_self_eq_true, Bool.true_or]
      omega
    · rw [encodePieces_one F _ _ (by intro _ _ _ _ h; cases h)]
      simp [pieceBody, hv, slice_all]

theorem handlesOk_intro {hs : List Nat} {enc off bound : Nat} (h1 : encOk enc = true) (h2 : off < 2 ^ 64)
    (h3 : ∀ x ∈ hs, off ≤ x ∧ x - off < 256 ^ elemSizeInt enc ∧ x < bound) : handlesOk hs enc off bound = true := by
  simp only [handlesOk, Bool.and_eq_true, decide_eq_true_eq, List.all_eq_true]
  exact ⟨⟨h1, h2⟩, fun x hx => ⟨⟨(h3 x hx).1, (h3 x hx).2.1⟩, (h3 x hx).2.2⟩⟩

theorem seg_edges (hw : WF F) (cur : Cur) (he : cur.e = 0) (hv : cur.v = F.pos.length) :
    Seg F cur (if F.edges.length = 0 then [] else [{ spec := .edges F.edges.length (suitableIntEncoding F.pos.length) 0 }])
      { cur with e := F.edges.length }
      (if F.edges.length = 0 then [] else
        [writerChunk ccTOPO (topoPayload 0 topoEntityEdge 2 intEncodingNone (suitableIntEncoding F.pos.length) 0 (edgeLists F.edges))]) := by
  have hnV := hw.nV
  simp only [maxHandleIdx] at hnV
  by_cases hp : F.edges.length = 0
  · simp only [hp, if_true]; exact ⟨rfl, by simp only [curEnd]; rw [← he], rfl⟩
  · simp only [hp, if_false]
    refine ⟨?_, by simp [curEnd, curAfter, pieceBytes, pieceBody, he], ?_⟩
    · have hh : handlesOk (edgeLists (slice F.edges 0 F.edges.length)).flatten (suitableIntEncoding F.pos.length) 0 cur.v = true := by
        apply handlesOk_intro (suitable_encOk _) (by omega)
        intro x hx
        rw [slice_all] at hx
        simp only [edgeLists, List.mem_flatten, List.mem_map] at hx
        obtain ⟨l, ⟨e, hemem, rfl⟩, hxl⟩ := hx
        obtain ⟨h1, h2⟩ := hw.edges e hemem
        simp only [List.mem_cons, List.not_mem_nil, or_false] at hxl
        rw [hv]
        rcases hxl with rfl | rfl
        · exact ⟨Nat.zero_le _, suitable_fits (by omega) (by omega), h1⟩
        · exact ⟨Nat.zero_le _, suitable_fits (by omega) (by omega), h2⟩
      simp only [prefixOk, Spec.isEof, pieceOk, he, hh, Bool.not_false, Bool.true_and, Bool.and_true, Bool.and_eq_true,
        decide_eq_true_eq]
      omega
    · rw [encodePieces_one F _ _ (by intro _ _ _ _ h; cases h)]
      simp [pieceBody, he, slice_all]

/-- the writer's valence mode, as the layout's `fixed` flag sees it -/
theorem writer_mode_layout (ls : List (List Nat)) (hne : ls ≠ []) (hlen : ∀ l ∈ ls, 1 ≤ l.length ∧ l.length < 2 ^ 32) :
    let m := writerValMode (ls.map List.length)
    (if (m.1 != 0) then valenceOf ls else 0) = m.1 ∧ (if (m.1 != 0) then intEncodingNone else m.2) = m.2 ∧
    (if (m.1 != 0) then ls.all (·.length == valenceOf ls) && decide (1 ≤ valenceOf ls) && decide (valenceOf ls ≤ 255)
      else encOk m.2 && ls.all (fun l => decide (1 ≤ l.length) && decide (l.length < 256 ^ elemSizeInt m.2))) = true := by
  intro m
  have hmem : ∀ l ∈ ls, l.length ∈ ls.map List.length := fun l hl => List.mem_map.mpr ⟨l, hl, rfl⟩
  obtain ⟨l0, t, rfl⟩ := List.exists_cons_of_ne_nil hne
  have hm : m = writerValMode ((l0 :: t).map List.length) := rfl
  unfold writerValMode at hm
  simp only at hm
  split at hm
  · rename_i hc
    simp only [Bool.and_eq_true, beq_iff_eq, decide_eq_true_eq] at hc
    have hall : ∀ l ∈ l0 :: t, l.length = listMin ((l0 :: t).map List.length) := by
      intro l hl
      have a := listMin_le (hmem l hl)
      have b := le_listMax (hmem l hl)
      omega
    have h1 : 1 ≤ listMin ((l0 :: t).map List.length) := by
      rw [← hall l0 (by simp)]; exact (hlen l0 (by simp)).1
    have hv : valenceOf (l0 :: t) = listMin ((l0 :: t).map List.length) := by
      simp only [valenceOf, List.head?_cons, Option.map_some, Option.getD_some]; exact hall l0 (by simp)
    rw [hm]
    have hne0 : (listMin ((l0 :: t).map List.length) != 0) = true := by rw [bne_iff_ne]; omega
    simp only [hne0, if_true, hv, Bool.and_eq_true, List.all_eq_true, beq_iff_eq, decide_eq_true_eq]
    exact ⟨trivial, trivial, ⟨hall, h1⟩, hc.2⟩
  · rw [hm]
    simp only [bne_self_eq_false, Bool.false_eq_true, if_false, Bool.and_eq_true, List.all_eq_true, decide_eq_true_eq, true_and]
    refine ⟨suitable_encOk _, fun l hl => ⟨(hlen l hl).1, ?_⟩⟩
    have hmx : listMax ((l0 :: t).map List.length) < 2 ^ 32 := listMax_lt (by omega) (by
      intro x hx; obtain ⟨l, hl, rfl⟩ := List.mem_map.mp hx; exact (hlen l hl).2)
    exact suitable_fits hmx (le_listMax (hmem l hl))

theorem topo_cases (hw : WF F) : F.topo = topoTypePolyhedral ∨ F.topo = topoTypeTetrahedral ∨ F.topo = topoTypeHexahedral := by
  have := hw.topo
  simp only [validTopoType, List.mem_cons, List.not_mem_nil, or_false] at this
  exact this

theorem seg_faces (hw : WF F) (cur : Cur) (hf : cur.f = 0) (he : cur.e = F.edges.length) :
    let fm := writerValMode (F.faces.map List.length)
    Seg F cur (if F.faces.length = 0 then [] else
        [{ spec := .faces F.faces.length (fm.1 != 0) fm.2 (suitableIntEncoding (2 * F.edges.length)) 0 }])
      { cur with f := F.faces.length }
      (if F.faces.length = 0 then [] else
        [writerChunk ccTOPO (topoPayload 0 topoEntityFace fm.1 fm.2 (suitableIntEncoding (2 * F.edges.length)) 0 F.faces)]) := by
  intro fm
  have hnE := hw.nE
  simp only [maxHandleIdx] at hnE
  by_cases hp : F.faces.length = 0
  · simp only [hp, if_true]; exact ⟨rfl, by simp only [curEnd]; rw [← hf], rfl⟩
  · simp only [hp, if_false]
    have hne : F.faces ≠ [] := fun h => hp (by simp [h])
    obtain ⟨hm1, hm2, hm3⟩ := writer_mode_layout F.faces hne hw.faceLen
    refine ⟨?_, by simp [curEnd, curAfter, pieceBytes, pieceBody, hf], ?_⟩
    · have hh : handlesOk (slice F.faces 0 F.faces.length).flatten (suitableIntEncoding (2 * F.edges.length)) 0
          (2 * cur.e) = true := by
        apply handlesOk_intro (suitable_encOk _) (by omega)
        intro x hx
        rw [slice_all] at hx
        obtain ⟨l, hl, hxl⟩ := List.mem_flatten.mp hx
        have := hw.faces l hl x hxl
        rw [he]
        exact ⟨Nat.zero_le _, suitable_fits (by omega) (by omega), this⟩
      have htopo : (F.topo == topoTypePolyhedral || ((fm.1 != 0) && valenceOf (slice F.faces 0 F.faces.length)
          == (if F.topo == topoTypeTetrahedral then 3 else 4))) = true := by
        rw [slice_all]
        rcases topo_cases F hw with h | h | h
        · simp [h]
        · have hu := writerValMode_uniform F.faces hne 3 (by omega) (hw.tet h).1
          have hfix : (fm.1 != 0) = true := by show ((writerValMode (F.faces.map List.length)).1 != 0) = true; rw [hu]; rfl
          have hv : valenceOf F.faces = 3 := by
            have := hm1; simp only [fm] at hfix; rw [hfix, if_pos rfl] at this; rw [this, hu]
          simp [h, hfix, hv]
        · have hu := writerValMode_uniform F.faces hne 4 (by omega) (hw.hex h).1
          have hfix : (fm.1 != 0) = true := by show ((writerValMode (F.faces.map List.length)).1 != 0) = true; rw [hu]; rfl
          have hv : valenceOf F.faces = 4 := by
            have := hm1; simp only [fm] at hfix; rw [hfix, if_pos rfl] at this; rw [this, hu]
          simp [h, hfix, hv, topoTypeHexahedral, topoTypeTetrahedral]
      have hval : valencesOk F (slice F.faces 0 F.faces.length) (fm.1 != 0) fm.2
          (if F.topo == topoTypeTetrahedral then 3 else 4) = true := by
        unfold valencesOk
        rw [Bool.and_eq_true]
        refine ⟨?_, htopo⟩
        rw [slice_all]
        simpa [Bool.and_assoc] using hm3
      simp only [prefixOk, Spec.isEof, pieceOk, hf, hh, hval, Bool.not_false, Bool.true_and, Bool.and_true, Bool.and_eq_true,
        decide_eq_true_eq]
      omega
    · rw [encodePieces_one F _ _ (by intro _ _ _ _ h; cases h)]
      simp only [pieceBody, hf, slice_all]
      rw [hm1, hm2]
      simp [fm]

theorem seg_cells (hw : WF F) (cur : Cur) (hc : cur.c = 0) (hf : cur.f = F.faces.length) :
    let cm := writerValMode (F.cells.map List.length)
    Seg F cur (if F.cells.length = 0 then [] else
        [{ spec := .cells F.cells.length (cm.1 != 0) cm.2 (suitableIntEncoding (2 * F.faces.length)) 0 }])
      { cur with c := F.cells.length }
      (if F.cells.length = 0 then [] else
        [writerChunk ccTOPO (topoPayload 0 topoEntityCell cm.1 cm.2 (suitableIntEncoding (2 * F.faces.length)) 0 F.cells)]) := by
  intro cm
  have hnF := hw.nF
  simp only [maxHandleIdx] at hnF
  by_cases hp : F.cells.length = 0
  · simp only [hp, if_true]; exact ⟨rfl, by simp only [curEnd]; rw [← hc], rfl⟩
  · simp only [hp, if_false]
    have hne : F.cells ≠ [] := fun h => hp (by simp [h])
    obtain ⟨hm1, hm2, hm3⟩ := writer_mode_layout F.cells hne hw.cellLen
    refine ⟨?_, by simp [curEnd, curAfter, pieceBytes, pieceBody, hc], ?_⟩
    · have hh : handlesOk (slice F.cells 0 F.cells.length).flatten (suitableIntEncoding (2 * F.faces.length)) 0
          (2 * cur.f) = true := by
        apply handlesOk_intro (suitable_encOk _) (by omega)
        intro x hx
        rw [slice_all] at hx
        obtain ⟨l, hl, hxl⟩ := List.mem_flatten.mp hx
        have := hw.cells l hl x hxl
        rw [hf]
        exact ⟨Nat.zero_le _, suitable_fits (by omega) (by omega), this⟩
      have htopo : (F.topo == topoTypePolyhedral || ((cm.1 != 0) && valenceOf (slice F.cells 0 F.cells.length)
          == (if F.topo == topoTypeTetrahedral then 4 else 6))) = true := by
        rw [slice_all]
        rcases topo_cases F hw with h | h | h
        · simp [h]
        · have hu := writerValMode_uniform F.cells hne 4 (by omega) (hw.tet h).2
          have hfix : (cm.1 != 0) = true := by show ((writerValMode (F.cells.map List.length)).1 != 0) = true; rw [hu]; rfl
          have hv : valenceOf F.cells = 4 := by
            have := hm1; simp only [cm] at hfix; rw [hfix, if_pos rfl] at this; rw [this, hu]
          simp [h, hfix, hv]
        · have hu := writerValMode_uniform F.cells hne 6 (by omega) (hw.hex h).2
          have hfix : (cm.1 != 0) = true := by show ((writerValMode (F.cells.map List.length)).1 != 0) = true; rw [hu]; rfl
          have hv : valenceOf F.cells = 6 := by
            have := hm1; simp only [cm] at hfix; rw [hfix, if_pos rfl] at this; rw [this, hu]
          simp [h, hfix, hv, topoTypeHexahedral, topoTypeTetrahedral]
      have hval : valencesOk F (slice F.cells 0 F.cells.length) (cm.1 != 0) cm.2
          (if F.topo == topoTypeTetrahedral then 4 else 6) = true := by
        unfold valencesOk
        rw [Bool.and_eq_true]
        refine ⟨?_, htopo⟩
        rw [slice_all]
        simpa [Bool.and_assoc] using hm3
      simp only [prefixOk, Spec.isEof, pieceOk, hc, hh, hval, Bool.not_false, Bool.true_and, Bool.and_true, Bool.and_eq_true,
        decide_eq_true_eq]
      omega
    · rw [encodePieces_one F _ _ (by intro _ _ _ _ h; cases h)]
      simp only [pieceBody, hc, slice_all]
      rw [hm1, hm2]
      simp [cm]

/-- cursor of the writer's layout after the topology and the values of the first `k` properties -/
def wcur (k : Nat) : Cur :=
  { v := F.pos.length, e := F.edges.length, f := F.faces.length, c := F.cells.length, dirp := true,
    p := (F.props.take k).map (·.vals.length) ++ List.replicate (F.props.length - k) 0 }

theorem seg_props (hw : WF F) : ∀ (m k : Nat), k + m = F.props.length →
    Seg F (wcur F k)
      ((List.range' k m).map (fun i => ({ spec := .prop i ((F.props.getD i default).vals.length) } : Piece)))
      (wcur F F.props.length) (propChunksFrom k (F.props.drop k)) := by
  intro m
  induction m with
  | zero =>
    intro k hk
    have : k = F.props.length := by omega
    subst this
    simp only [List.range'_zero, List.map_nil, List.drop_length, propChunksFrom]
    exact ⟨rfl, rfl, rfl⟩
  | succ m ih =>
    intro k hk
    have hk' : k < F.props.length := by omega
    have hpi := getD_props F hk'
    generalize hp : F.props.getD k default = p at hpi
    have hmem : p ∈ F.props := List.mem_of_getElem? hpi
    obtain ⟨hpo, hlen, hvals, h32⟩ := hw.props p hmem
    have hdrop : F.props.drop k = p :: F.props.drop (k + 1) := by
      rw [List.drop_eq_getElem_cons hk']
      congr 1
      obtain ⟨_, h⟩ := List.getElem?_eq_some_iff.mp hpi; exact h
    have hl : ((F.props.take k).map (·.vals.length)).length = k := by
      rw [List.length_map, List.length_take]; omega
    have hfirst : (wcur F k).p.getD k 0 = 0 := by
      simp only [wcur, List.getD_eq_getElem?_getD]
      rw [List.getElem?_append_right (by omega), hl, Nat.sub_self, List.getElem?_replicate]
      split <;> rfl
    have hnext : curAfter F (wcur F k) { spec := .prop k p.vals.length } = wcur F (k + 1) := by
      have h0 : curAfter F (wcur F k) { spec := .prop k p.vals.length } =
          { wcur F k with p := (wcur F k).p.set k ((wcur F k).p.getD k 0 + p.vals.length) } := rfl
      rw [h0, hfirst, Nat.zero_add]
      simp only [wcur, Cur.mk.injEq, true_and]
      rw [List.take_add_one, hpi, List.set_append_right _ _ (by omega), hl, Nat.sub_self]
      have : F.props.length - k = (F.props.length - (k + 1)) + 1 := by omega
      rw [this, List.replicate_succ]
      simp
    have hone : Seg F (wcur F k) [{ spec := .prop k p.vals.length }] (wcur F (k + 1))
        [writerChunk ccPROP (propPayload 0 k p.codec p.vals)] := by
      refine ⟨?_, by simp only [curEnd]; exact hnext, ?_⟩
      · have hd : (wcur F k).dirp = true := rfl
        have hsl : slotCount p.entity (wcur F k).v (wcur F k).e (wcur F k).f (wcur F k).c = p.vals.length := by
          rw [hlen]; rfl
        simp only [prefixOk, Spec.isEof, pieceOk, hpi, hfirst, hd, hsl, Nat.zero_add, Bool.not_false,
          Bool.and_true, Nat.le_refl, decide_true, Bool.or_true]
      · rw [encodePieces_one F _ _ (by intro _ _ _ _ h; cases h)]
        simp only [pieceBody, hfirst, hp, slice_all, List.flatten_cons, List.flatten_nil, List.append_nil]
    have hrest := ih (k + 1) (by omega)
    rw [List.range'_succ, List.map_cons, hp, hdrop, propChunksFrom]
    exact (hone.append F hrest : Seg F (wcur F k) ([_] ++ _) _ ([_] ++ _))

/-- the writer's layout up to the EOF piece: admissible, and its bytes are the writer's chunks up to the EOF chunk;
    the cursor ends with everything covered -/
theorem writer_front (hw : WF F) : ∃ (S : List Piece) (c : Cur) (W : List Bytes),
    (writerLayout F).pieces = S ++ [{ spec := .eof }] ∧ writerChunks F = W ++ [eofChunk] ∧ Seg F {} S c W ∧
    c.v = F.pos.length ∧ c.e = F.edges.length ∧ c.f = F.faces.length ∧ c.c = F.cells.length ∧
    (F.props.isEmpty = true ∨ (c.dirp = true ∧ c.p = F.props.map (·.vals.length))) := by
  have s1 := seg_dirp F
  generalize hc1 : (if F.props.isEmpty then ({} : Cur) else { dirp := true, p := List.replicate F.props.length 0 }) = c1 at s1
  have hc1v : c1.v = 0 ∧ c1.e = 0 ∧ c1.f = 0 ∧ c1.c = 0 := by rw [← hc1]; split <;> exact ⟨rfl, rfl, rfl, rfl⟩
  have s2 := seg_vert F hw c1 hc1v.1
  have s3 := seg_edges F hw { c1 with v := F.pos.length } hc1v.2.1 rfl
  have s4 := seg_faces F hw { c1 with v := F.pos.length, e := F.edges.length } hc1v.2.2.1 rfl
  have s5 := seg_cells F hw { c1 with v := F.pos.length, e := F.edges.length, f := F.faces.length } hc1v.2.2.2 rfl
  have s15 := (((s1.append F s2).append F s3).append F s4).append F s5
  by_cases hp : F.props.isEmpty = true
  · have hpn : F.props = [] := List.isEmpty_iff.mp hp
    refine ⟨_, _, _, ?_, ?_, s15, rfl, rfl, rfl, rfl, Or.inl hp⟩
    · simp [writerLayout, hpn]
    · simp [writerChunks, hpn, propChunksFrom]
  · have hc1' : c1 = { dirp := true, p := List.replicate F.props.length 0 } := by rw [← hc1, if_neg hp]
    have s6 := seg_props F hw F.props.length 0 (Nat.zero_add _)
    have hw0 : wcur F 0 = { c1 with v := F.pos.length, e := F.edges.length, f := F.faces.length, c := F.cells.length } := by
      rw [hc1']; simp [wcur]
    rw [hw0] at s6
    have s16 := s15.append F s6
    refine ⟨_, _, _, ?_, ?_, s16, rfl, rfl, rfl, rfl, Or.inr ⟨rfl, ?_⟩⟩
    · simp only [writerLayout, List.range_eq_range', List.append_assoc]
    · simp only [writerChunks, List.drop_zero, List.append_assoc]
    · simp [wcur]

/-- **the writer's bytes are one of the permitted encodings**: its layout is valid and encodes to `encode F` -/
theorem writerLayout_spec (hwf : WFFile F = true) :
    ValidLayout (writerLayout F) F = true ∧ encodeWith (writerLayout F) F = encode F := by
  have hw := WF.of F hwf
  obtain ⟨S, c, W, hS, hW, hseg, hv, he, hf, hc, hp⟩ := writer_front F hw
  have hlast : pieceOk F c { spec := .eof } = true := by simp [pieceOk]
  constructor
  · simp only [ValidLayout, Bool.and_eq_true, decide_eq_true_eq]
    refine ⟨by simp [writerLayout, writerFileVersion], ?_⟩
    rw [hS, piecesOk_append F {} S _ (by simp), hseg.ok, hseg.fin]
    simp only [piecesOk, hlast, hv, he, hf, hc, beq_self_eq_true, Bool.and_true, Bool.true_and]
    rcases hp with hp | ⟨hd, hpp⟩
    · simp [hp]
    · simp [hd, hpp]
  · have hfv : (writerLayout F).fileVersion = writerFileVersion := rfl
    simp only [encodeWith, encode, writerHeader, hfv]
    rw [hS, encodePieces_append, hseg.bytes, hseg.fin, hW, List.flatten_append]
    congr 2
end OVM.Ovmb

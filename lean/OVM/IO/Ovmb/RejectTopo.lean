/-
  OVMB model, proofs: TOPO chunks (C18, second clause).

  `applyTopo_header_rejected`: invalid entity / encodings, empty span, handle encoding None, valence vs. valence
  encoding.  `applyTopo_ok_inv`, `topoBody_*_inv`, `readFaceLists_inv`: what a successfully read TOPO chunk implies
  (byte count as announced, contiguous span within the declared count, valence fixed by the topology type, every
  handle plus offset (mod 2^64) below the number of entities read so far, no empty list).
  Proof-only file (not imported by the judge).  Core only.
-/
import OVM.IO.Ovmb.RejectChunks
namespace OVM.Ovmb
open OVM.Gen.Ovmb Dec



/-! ### TOPO -/

/-- in-width fields of a TOPO sub-header -/
structure TopoRaw (first count entity valence valEnc hEnc off : Nat) : Prop where
  first : first < 2 ^ 64
  count : count < 2 ^ 32
  entity : entity < 256
  valence : valence < 256
  valEnc : valEnc < 256
  hEnc : hEnc < 256
  off : off < 2 ^ 64

/-- `read(Decoder&, TopoChunkHeader&)` on raw fields: the three enum tests -/
theorem readTopoHdr_raw {first count entity valence valEnc hEnc off : Nat}
    (hw : TopoRaw first count entity valence valEnc hEnc off) (rest : Bytes) :
    runDec readTopoHdr (encTopoHeader first count entity valence valEnc hEnc off ++ rest) =
      if entity ∈ validTopoEntity ∧ valEnc ∈ validIntEncoding ∧ hEnc ∈ validIntEncoding then
        .ok (⟨first, count, entity, valence, valEnc, hEnc, off⟩, rest) else invalid := by
  have e1 := uN_leN 8 first (by simpa using hw.first)
  have e2 := uN_leN 4 count (by simpa using hw.count)
  have e3 := uN_leN 1 entity (by simpa using hw.entity)
  have e4 := uN_leN 1 valence (by simpa using hw.valence)
  have e5 := uN_leN 1 valEnc (by simpa using hw.valEnc)
  have e6 := uN_leN 1 hEnc (by simpa using hw.hEnc)
  have e7 := uN_leN 8 off (by simpa using hw.off)
  by_cases c1 : entity ∈ validTopoEntity
  · have d1 : decide (entity ∈ validTopoEntity) = true := by simpa using c1
    by_cases c2 : valEnc ∈ validIntEncoding
    · have d2 : decide (valEnc ∈ validIntEncoding) = true := by simpa using c2
      by_cases c3 : hEnc ∈ validIntEncoding
      · have d3 : decide (hEnc ∈ validIntEncoding) = true := by simpa using c3
        rw [if_pos ⟨c1, c2, c3⟩]
        simp only [runDec, readTopoHdr, encTopoHeader, encSpan, List.append_assoc, bind_run, u64, u32, u8,
          e1, e2, e3, e4, e5, e6, e7, d1, d2, d3, guard_true, pure_run]
      · have d3 : decide (hEnc ∈ validIntEncoding) = false := by simpa using c3
        rw [if_neg (fun h => c3 h.2.2)]
        simp only [runDec, readTopoHdr, encTopoHeader, encSpan, List.append_assoc, bind_run, u64, u32, u8,
          e1, e2, e3, e4, e5, e6, d1, d2, d3, guard_true, guard_false, invalid]
    · have d2 : decide (valEnc ∈ validIntEncoding) = false := by simpa using c2
      rw [if_neg (fun h => c2 h.2.1)]
      simp only [runDec, readTopoHdr, encTopoHeader, encSpan, List.append_assoc, bind_run, u64, u32, u8,
        e1, e2, e3, e4, e5, d1, d2, guard_true, guard_false, invalid]
  · have d1 : decide (entity ∈ validTopoEntity) = false := by simpa using c1
    rw [if_neg (fun h => c1 h.1)]
    simp only [runDec, readTopoHdr, encTopoHeader, encSpan, List.append_assoc, bind_run, u64, u32, u8,
      e1, e2, e3, d1, guard_false, invalid]

/-- inconsistent TOPO sub-header: invalid entity or encodings, empty span, handle encoding `None`, valence /
    valence-encoding combination -/
theorem applyTopo_header_rejected (cfg : Cfg) (s : RState) {first count entity valence valEnc hEnc off : Nat}
    (hw : TopoRaw first count entity valence valEnc hEnc off) (p1 : Bytes)
    (hbad : entity ∉ validTopoEntity ∨ valEnc ∉ validIntEncoding ∨ hEnc ∉ validIntEncoding ∨ count = 0 ∨
      hEnc = intEncodingNone ∨ (valence ≠ 0 ∧ valEnc ≠ intEncodingNone) ∨ (valence = 0 ∧ valEnc = intEncodingNone)) :
    applyTopo cfg s (encTopoHeader first count entity valence valEnc hEnc off ++ p1) = invalid := by
  unfold applyTopo
  rw [readTopoHdr_raw hw]
  by_cases c : entity ∈ validTopoEntity ∧ valEnc ∈ validIntEncoding ∧ hEnc ∈ validIntEncoding
  · rw [if_pos c]
    simp only [R_ok_bind]
    rcases hbad with h | h | h | h | h | h | h
    · exact absurd c.1 h
    · exact absurd c.2.1 h
    · exact absurd c.2.2 h
    · simp [h]
    · by_cases h0 : count = 0
      · simp [h0]
      · simp [h0, h]
    · by_cases h0 : count = 0
      · simp [h0]
      · by_cases h1 : hEnc = intEncodingNone
        · simp [h0, h1]
        · simp [h0, h1, h]
    · by_cases h0 : count = 0
      · simp [h0]
      · by_cases h1 : hEnc = intEncodingNone
        · simp [h0, h1]
        · simp [h0, h1, h]
  · rw [if_neg c]; fin_err

/-- the entity switch of `read_topo_chunk` (`read_edges` / `read_faces` / `read_cells`), after the sub-header, the
    valence list and the byte-count test -/
def topoBody (cfg : Cfg) (s : RState) (h : TopoHdr) (vals : List Nat) (p2 : Bytes) : R RState :=
  let w := elemSizeInt h.hEnc
  if h.entity = topoEntityEdge then
    if !validSpan s.nE s.edges.length h.first h.count then invalid
    else if h.valence ≠ 2 then invalid
    else do
      let (hs, rest) ← runDec (readInts w (2 * h.count)) p2
      let vs := hs.map (fun x => w64 (x + h.off))
      if !vs.all (· < s.nVr) then invalid
      else if !rest.isEmpty then invalid
      else pure { s with edges := s.edges ++ pairUp vs,
                         stor := growStor (growStor s.stor propertyEntityEdge h.count) propertyEntityHalfEdge (2 * h.count) }
  else if h.entity = topoEntityFace then
    if !validSpan s.nF s.faces.length h.first h.count then invalid
    else if s.topo = topoTypeTetrahedral ∧ h.valence ≠ 3 then invalid
    else if s.topo = topoTypeHexahedral ∧ h.valence ≠ 4 then invalid
    else do
      let (fs, rest) ← runDec (readFaceLists w h.off (2 * s.edges.length) vals) p2
      if !(← addFaces cfg s.edges fs) then invalid
      else if !rest.isEmpty then invalid
      else pure { s with faces := s.faces ++ fs,
                         stor := growStor (growStor s.stor propertyEntityFace h.count) propertyEntityHalfFace (2 * h.count) }
  else
    if !validSpan s.nC s.cells.length h.first h.count then invalid
    else if s.topo = topoTypeTetrahedral ∧ h.valence ≠ 4 then invalid
    else if s.topo = topoTypeHexahedral ∧ h.valence ≠ 6 then invalid
    else do
      let (cs, rest) ← runDec (readFaceLists w h.off (2 * s.faces.length) vals) p2
      match ← addCells cfg s.edges s.faces cs with
      | none => invalid
      | some cs' =>
        if !rest.isEmpty then invalid
        else pure { s with cells := s.cells ++ cs', stor := growStor s.stor propertyEntityCell h.count }

/-- the valence-list reader of `read_topo_chunk` -/
def valDec (h : TopoHdr) : Dec (List Nat) :=
  if h.valence = 0 then (do
    let rem ← remaining
    guard (decide (h.count * elemSizeInt h.valEnc ≤ rem))
    readInts (elemSizeInt h.valEnc) h.count) else pure []

/-- **what a successfully read TOPO chunk implies**: consistent sub-header, readable valence list, byte count
    as announced, and the entity switch succeeded -/
theorem applyTopo_ok_inv {cfg : Cfg} {s s' : RState} {first count entity valence valEnc hEnc off : Nat}
    (hw : TopoRaw first count entity valence valEnc hEnc off) {p1 : Bytes}
    (hok : applyTopo cfg s (encTopoHeader first count entity valence valEnc hEnc off ++ p1) = .ok s') :
    entity ∈ validTopoEntity ∧ valEnc ∈ validIntEncoding ∧ hEnc ∈ validIntEncoding ∧ count ≠ 0 ∧
    hEnc ≠ intEncodingNone ∧ ¬(valence ≠ 0 ∧ valEnc ≠ intEncodingNone) ∧ ¬(valence = 0 ∧ valEnc = intEncodingNone) ∧
    ∃ valences p2, runDec (valDec ⟨first, count, entity, valence, valEnc, hEnc, off⟩) p1 = .ok (valences, p2) ∧
      p2.length = (if valence = 0 then valences.sum else valence * count) * elemSizeInt hEnc ∧
      topoBody cfg s ⟨first, count, entity, valence, valEnc, hEnc, off⟩
        (if valence = 0 then valences else List.replicate count valence) p2 = .ok s' := by
  have hgood : ¬(entity ∉ validTopoEntity ∨ valEnc ∉ validIntEncoding ∨ hEnc ∉ validIntEncoding ∨ count = 0 ∨
      hEnc = intEncodingNone ∨ (valence ≠ 0 ∧ valEnc ≠ intEncodingNone) ∨ (valence = 0 ∧ valEnc = intEncodingNone)) := by
    intro hbad
    rw [applyTopo_header_rejected cfg s hw p1 hbad] at hok; cases hok
  simp only [not_or, Decidable.not_not] at hgood
  obtain ⟨g1, g2, g3, g4, g5, g6, g7⟩ := hgood
  refine ⟨g1, g2, g3, g4, g5, g6, g7, ?_⟩
  unfold applyTopo at hok
  rw [readTopoHdr_raw hw, if_pos ⟨g1, g2, g3⟩] at hok
  simp only [R_ok_bind, g4, g5, g6, g7, if_false] at hok
  cases hv : runDec (valDec ⟨first, count, entity, valence, valEnc, hEnc, off⟩) p1 with
  | error e =>
    simp only [valDec] at hv
    rw [hv] at hok; cases hok
  | ok v =>
    obtain ⟨valences, p2⟩ := v
    simp only [valDec] at hv
    rw [hv] at hok
    simp only [R_ok_bind] at hok
    refine ⟨valences, p2, rfl, ?_⟩
    by_cases hl : p2.length = (if valence = 0 then valences.sum else valence * count) * elemSizeInt hEnc
    · refine ⟨hl, ?_⟩
      simp only [hl, ne_eq, not_true_eq_false, if_false] at hok
      exact hok
    · simp only [ne_eq, hl, not_false_eq_true, if_true] at hok
      cases hok

theorem runDec_inv {α} {d : Dec α} {bs : Bytes} {r : α × Bytes} (h : runDec d bs = .ok r) : d bs = .ok r := by
  unfold runDec at h
  cases hd : d bs with
  | error e => rw [hd] at h; cases h
  | ok w => rw [hd] at h; cases h; rfl

theorem validSpan_inv {total read first count : Nat} (h : validSpan total read first count = true) :
    first = read ∧ count ≤ total - read := by simpa [validSpan] using h

/-- what `read_n_ints` + range test return: as many handles as asked for, all below the bound, read from the
    little-endian encoding of in-width integers -/
theorem readHandles_inv {w off bound n : Nat} {p r : Bytes} {hs : List Nat} (h : readHandles w off bound n p = .ok (hs, r)) :
    ∃ xs, xs.length = n ∧ (∀ x ∈ xs, x < 256 ^ w) ∧ p = encInts w xs ++ r ∧ hs = xs.map (fun x => w64 (x + off)) ∧
      ∀ x ∈ xs, w64 (x + off) < bound := by
  simp only [readHandles, bind_run, remaining_run] at h
  by_cases g1 : n * w ≤ p.length
  · have d1 : decide (n * w ≤ p.length) = true := by simpa using g1
    simp only [d1, guard_true] at h
    cases hr : readInts w n p with
    | error e => rw [hr] at h; cases h
    | ok v =>
      obtain ⟨xs, r1⟩ := v
      rw [hr] at h
      simp only at h
      cases hall : (xs.map (fun x => w64 (x + off))).all (· < bound) with
      | false => simp only [hall, guard_false] at h; cases h
      | true =>
        simp only [hall, guard_true, pure_run] at h
        cases h
        obtain ⟨hl, hwid, hp⟩ := readInts_ok hr
        refine ⟨xs, hl, hwid, hp, rfl, ?_⟩
        intro x hx
        simp only [List.all_eq_true, List.mem_map, decide_eq_true_eq, forall_exists_index, and_imp,
          forall_apply_eq_imp_iff₂] at hall
        exact hall x hx
  · have d1 : decide (n * w ≤ p.length) = false := by simpa using g1
    simp only [d1, guard_false] at h; cases h

/-- what the per-entity loop of `read_faces` / `read_cells` returns: one non-empty list per valence, every handle
    below the bound, read from the encoding of in-width integers -/
theorem readFaceLists_inv {w off bound : Nat} : ∀ {vals : List Nat} {p r : Bytes} {fs : List (List Nat)},
    readFaceLists w off bound vals p = .ok (fs, r) →
    fs.map List.length = vals ∧ (∀ v ∈ vals, v ≠ 0) ∧
    ∃ xs, (∀ x ∈ xs, x < 256 ^ w) ∧ p = encInts w xs ++ r ∧ fs.flatten = xs.map (fun x => w64 (x + off)) ∧
      ∀ x ∈ xs, w64 (x + off) < bound := by
  intro vals
  induction vals with
  | nil =>
    intro p r fs h
    simp only [readFaceLists, pure_run] at h
    cases h
    exact ⟨rfl, by simp, [], by simp, by simp, by simp, by simp⟩
  | cons v vs ih =>
    intro p r fs h
    simp only [readFaceLists, bind_run] at h
    cases h1 : readHandles w off bound v p with
    | error e => rw [h1] at h; cases h
    | ok a =>
      obtain ⟨hs, p1⟩ := a
      rw [h1] at h
      simp only at h
      by_cases hv : v = 0
      · subst hv; simp at h
      · have : (v != 0) = true := by simpa using hv
        simp only [this, guard_true] at h
        cases h2 : readFaceLists w off bound vs p1 with
        | error e => rw [h2] at h; cases h
        | ok b =>
          obtain ⟨fs', r'⟩ := b
          rw [h2] at h
          simp only [pure_run] at h
          cases h
          obtain ⟨xs1, hl1, hw1, hp1, hhs, hb1⟩ := readHandles_inv h1
          obtain ⟨hm, hne, xs2, hw2, hp2, hfl, hb2⟩ := ih h2
          refine ⟨by simp [hm, hhs, hl1], ?_, xs1 ++ xs2, ?_, ?_, ?_, ?_⟩
          · intro u hu
            rcases List.mem_cons.mp hu with rfl | hu
            · exact hv
            · exact hne u hu
          · intro x hx
            rcases List.mem_append.mp hx with hx | hx
            · exact hw1 x hx
            · exact hw2 x hx
          · rw [hp1, hp2, encInts_append, List.append_assoc]
          · simp [hhs, hfl]
          · intro x hx
            rcases List.mem_append.mp hx with hx | hx
            · exact hb1 x hx
            · exact hb2 x hx

theorem encInts_inj {w : Nat} (hw : 1 ≤ w) : ∀ {xs ys : List Nat}, (∀ x ∈ xs, x < 256 ^ w) → (∀ y ∈ ys, y < 256 ^ w) →
    encInts w xs = encInts w ys → xs = ys := by
  intro xs
  induction xs with
  | nil =>
    intro ys _ _ h
    cases ys with
    | nil => rfl
    | cons y t =>
      have := congrArg List.length h
      simp at this; omega
  | cons x t ih =>
    intro ys hx hy h
    cases ys with
    | nil =>
      have := congrArg List.length h
      simp at this; omega
    | cons y u =>
      simp only [encInts_cons] at h
      obtain ⟨h1, h2⟩ := List.append_inj h (by simp)
      have := leN_inj (hx x (by simp)) (hy y (by simp)) h1
      subst this
      rw [ih (fun a ha => hx a (by simp [ha])) (fun a ha => hy a (by simp [ha])) h2]

theorem isEmpty_false_nil {α} {l : List α} (h : (!l.isEmpty) = false) : l = [] := by
  cases l <;> simp_all

/-- what a successfully read span of edges implies -/
theorem topoBody_edge_inv {cfg : Cfg} {s s' : RState} {h : TopoHdr} {vals : List Nat} {p2 : Bytes}
    (he : h.entity = topoEntityEdge) (hok : topoBody cfg s h vals p2 = .ok s') :
    h.first = s.edges.length ∧ h.count ≤ s.nE - s.edges.length ∧ h.valence = 2 ∧
    ∃ xs, xs.length = 2 * h.count ∧ (∀ x ∈ xs, x < 256 ^ elemSizeInt h.hEnc) ∧ p2 = encInts (elemSizeInt h.hEnc) xs ∧
      ∀ x ∈ xs, w64 (x + h.off) < s.nVr := by
  simp only [topoBody, he, if_true] at hok
  cases hsp : validSpan s.nE s.edges.length h.first h.count with
  | false => simp [hsp, invalid] at hok
  | true =>
    simp only [hsp, Bool.not_true, Bool.false_eq_true, if_false] at hok
    by_cases hv : h.valence = 2
    · simp only [hv, ne_eq, not_true_eq_false, if_false] at hok
      cases hr : runDec (readInts (elemSizeInt h.hEnc) (2 * h.count)) p2 with
      | error e => rw [hr] at hok; cases hok
      | ok v =>
        obtain ⟨xs, rest⟩ := v
        rw [hr] at hok
        simp only [R_ok_bind] at hok
        cases hall : (xs.map (fun x => w64 (x + h.off))).all (· < s.nVr) with
        | false => simp [hall, invalid] at hok
        | true =>
          simp only [hall, Bool.not_true, Bool.false_eq_true, if_false] at hok
          cases hre : (!rest.isEmpty) with
          | true => simp [hre, invalid] at hok
          | false =>
            have := isEmpty_false_nil hre; subst this
            obtain ⟨hl, hwid, hp⟩ := readInts_ok (runDec_inv hr)
            refine ⟨(validSpan_inv hsp).1, (validSpan_inv hsp).2, hv, xs, hl, hwid, by simpa using hp, ?_⟩
            intro x hx
            simp only [List.all_eq_true, List.mem_map, decide_eq_true_eq, forall_exists_index, and_imp,
              forall_apply_eq_imp_iff₂] at hall
            exact hall x hx
    · simp [hv, invalid] at hok

/-- what a successfully read span of faces implies -/
theorem topoBody_face_inv {cfg : Cfg} {s s' : RState} {h : TopoHdr} {vals : List Nat} {p2 : Bytes}
    (he : h.entity = topoEntityFace) (hok : topoBody cfg s h vals p2 = .ok s') :
    h.first = s.faces.length ∧ h.count ≤ s.nF - s.faces.length ∧
    (s.topo = topoTypeTetrahedral → h.valence = 3) ∧ (s.topo = topoTypeHexahedral → h.valence = 4) ∧
    (∀ v ∈ vals, v ≠ 0) ∧
    ∃ xs, (∀ x ∈ xs, x < 256 ^ elemSizeInt h.hEnc) ∧ p2 = encInts (elemSizeInt h.hEnc) xs ∧
      ∀ x ∈ xs, w64 (x + h.off) < 2 * s.edges.length := by
  have hfe : ¬(topoEntityFace = topoEntityEdge) := by decide
  simp only [topoBody, he, hfe, if_true, if_false] at hok
  cases hsp : validSpan s.nF s.faces.length h.first h.count with
  | false => simp [hsp, invalid] at hok
  | true =>
    simp only [hsp, Bool.not_true, Bool.false_eq_true, if_false] at hok
    by_cases ht : s.topo = topoTypeTetrahedral ∧ h.valence ≠ 3
    · simp [ht, invalid] at hok
    by_cases hh : s.topo = topoTypeHexahedral ∧ h.valence ≠ 4
    · simp [hh, invalid] at hok
    simp only [ht, hh, if_false] at hok
    cases hr : runDec (readFaceLists (elemSizeInt h.hEnc) h.off (2 * s.edges.length) vals) p2 with
    | error e => rw [hr] at hok; cases hok
    | ok v =>
      obtain ⟨fs, rest⟩ := v
      rw [hr] at hok
      simp only [R_ok_bind] at hok
      cases ha : addFaces cfg s.edges fs with
      | error e => rw [ha] at hok; cases hok
      | ok b =>
        rw [ha] at hok
        simp only [R_ok_bind] at hok
        cases b with
        | false => simp [invalid] at hok
        | true =>
          simp only [Bool.not_true, Bool.false_eq_true, if_false] at hok
          cases hre : (!rest.isEmpty) with
          | true => simp [hre, invalid] at hok
          | false =>
            have := isEmpty_false_nil hre; subst this
            obtain ⟨_, hnz, xs, hwid, hp, _, hb⟩ := readFaceLists_inv (runDec_inv hr)
            exact ⟨(validSpan_inv hsp).1, (validSpan_inv hsp).2,
              fun h1 => Decidable.not_not.mp (fun h2 => ht ⟨h1, h2⟩),
              fun h1 => Decidable.not_not.mp (fun h2 => hh ⟨h1, h2⟩), hnz, xs, hwid, by simpa using hp, hb⟩

/-- what a successfully read span of cells implies -/
theorem topoBody_cell_inv {cfg : Cfg} {s s' : RState} {h : TopoHdr} {vals : List Nat} {p2 : Bytes}
    (he1 : h.entity ≠ topoEntityEdge) (he2 : h.entity ≠ topoEntityFace) (hok : topoBody cfg s h vals p2 = .ok s') :
    h.first = s.cells.length ∧ h.count ≤ s.nC - s.cells.length ∧
    (s.topo = topoTypeTetrahedral → h.valence = 4) ∧ (s.topo = topoTypeHexahedral → h.valence = 6) ∧
    (∀ v ∈ vals, v ≠ 0) ∧
    ∃ xs, (∀ x ∈ xs, x < 256 ^ elemSizeInt h.hEnc) ∧ p2 = encInts (elemSizeInt h.hEnc) xs ∧
      ∀ x ∈ xs, w64 (x + h.off) < 2 * s.faces.length := by
  simp only [topoBody, he1, he2, if_false] at hok
  cases hsp : validSpan s.nC s.cells.length h.first h.count with
  | false => simp [hsp, invalid] at hok
  | true =>
    simp only [hsp, Bool.not_true, Bool.false_eq_true, if_false] at hok
    by_cases ht : s.topo = topoTypeTetrahedral ∧ h.valence ≠ 4
    · simp [ht, invalid] at hok
    by_cases hh : s.topo = topoTypeHexahedral ∧ h.valence ≠ 6
    · simp [hh, invalid] at hok
    simp only [ht, hh, if_false] at hok
    cases hr : runDec (readFaceLists (elemSizeInt h.hEnc) h.off (2 * s.faces.length) vals) p2 with
    | error e => rw [hr] at hok; cases hok
    | ok v =>
      obtain ⟨cs, rest⟩ := v
      rw [hr] at hok
      simp only [R_ok_bind] at hok
      cases ha : addCells cfg s.edges s.faces cs with
      | error e => rw [ha] at hok; cases hok
      | ok b =>
        rw [ha] at hok
        simp only [R_ok_bind] at hok
        cases b with
        | none => simp [invalid] at hok
        | some cs' =>
          simp only at hok
          cases hre : (!rest.isEmpty) with
          | true => simp [hre, invalid] at hok
          | false =>
            have := isEmpty_false_nil hre; subst this
            obtain ⟨_, hnz, xs, hwid, hp, _, hb⟩ := readFaceLists_inv (runDec_inv hr)
            exact ⟨(validSpan_inv hsp).1, (validSpan_inv hsp).2,
              fun h1 => Decidable.not_not.mp (fun h2 => ht ⟨h1, h2⟩),
              fun h1 => Decidable.not_not.mp (fun h2 => hh ⟨h1, h2⟩), hnz, xs, hwid, by simpa using hp, hb⟩

end OVM.Ovmb

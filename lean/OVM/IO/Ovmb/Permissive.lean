/-
  OVMB model, layer 6: the *format relation* `Encodes bytes F` — every encoding of the abstract file `F` that the
  published description (`extra/ovmb-kaitai/ovmb.ksy`, `documentation/subpages/binary_file_format.docu`) permits:
  chunks split into contiguous spans, any `IntEncoding` wide enough, any `handle_offset`, float-encoded vertices
  when exact, optional skippable chunks (non-mandatory unknown type or version), any zero padding ≤ 255, any
  file_version, chunks in any order the reader's dependencies allow, exactly one EOF chunk at the very end.
  A `Layout` is a recipe; `encodeWith` is the (executable) permissive encoder the judge uses to produce alternative
  files; `ValidLayout` is the decidable side condition.  Core only.
-/
import OVM.IO.Ovmb.Encode

namespace OVM.Ovmb
open OVM.Gen.Ovmb

inductive Spec where
  | dirp
  | vert (count enc : Nat)
  | edges (count hEnc off : Nat)
  | faces (count : Nat) (fixed : Bool) (valEnc hEnc off : Nat)
  | cells (count : Nat) (fixed : Bool) (valEnc hEnc off : Nat)
  | prop (idx count : Nat)
  | skip (ty version flags : Nat) (payload : Bytes)
  | eof
  deriving Repr, Inhabited

/-- a chunk of the layout: what it holds, its padding (`none`: pad to the next multiple of 8 as the writer does)
    and its flags byte for known chunk types -/
structure Piece where
  spec : Spec
  pad : Option Nat := none
  flags : Nat := 1
  deriving Repr, Inhabited

structure Layout where
  fileVersion : Nat
  pieces : List Piece
  deriving Repr, Inhabited

/-- how much of `F` the chunks so far have covered -/
structure Cur where
  v : Nat := 0
  e : Nat := 0
  f : Nat := 0
  c : Nat := 0
  dirp : Bool := false
  p : List Nat := []          -- per property: slots covered
  deriving Repr, Inhabited

def slice {α} (l : List α) (first count : Nat) : List α := (l.drop first).take count

def valenceOf (lists : List (List Nat)) : Nat := (lists.head?.map List.length).getD 0

/-- payload, chunk type and new cursor for a piece -/
def pieceBody (F : File) (cur : Cur) : Spec → Nat × Bytes × Cur
  | .dirp => (ccDIRP, dirpPayload F.props, { cur with dirp := true, p := List.replicate F.props.length 0 })
  | .vert count enc => (ccVERT, vertPayload cur.v enc (slice F.pos cur.v count), { cur with v := cur.v + count })
  | .edges count hEnc off =>
      (ccTOPO, topoPayload cur.e topoEntityEdge 2 intEncodingNone hEnc off (edgeLists (slice F.edges cur.e count)),
       { cur with e := cur.e + count })
  | .faces count fixed valEnc hEnc off =>
      let ls := slice F.faces cur.f count
      (ccTOPO, topoPayload cur.f topoEntityFace (if fixed then valenceOf ls else 0) (if fixed then intEncodingNone else valEnc) hEnc off ls,
       { cur with f := cur.f + count })
  | .cells count fixed valEnc hEnc off =>
      let ls := slice F.cells cur.c count
      (ccTOPO, topoPayload cur.c topoEntityCell (if fixed then valenceOf ls else 0) (if fixed then intEncodingNone else valEnc) hEnc off ls,
       { cur with c := cur.c + count })
  | .prop idx count =>
      let p := F.props.getD idx default
      let first := cur.p.getD idx 0
      (ccPROP, propPayload first idx p.codec (slice p.vals first count), { cur with p := cur.p.set idx (first + count) })
  | .skip ty _ _ payload => (ty, payload, cur)
  | .eof => (ccEOF, [], cur)

def pieceBytes (F : File) (cur : Cur) (pc : Piece) : Bytes × Cur :=
  let (ty, payload, cur') := pieceBody F cur pc.spec
  let pad := pc.pad.getD (padTo8 payload.length)
  match pc.spec with
  | .skip _ version flags _ => (encChunk ty version pad 0 flags payload, cur')
  | _ => (encChunk ty 0 pad 0 pc.flags payload, cur')

def encodePieces (F : File) : Cur → List Piece → Bytes
  | _, [] => []
  | cur, pc :: rest => let (b, cur') := pieceBytes F cur pc; b ++ encodePieces F cur' rest

/-- the permissive encoder -/
def encodeWith (L : Layout) (F : File) : Bytes :=
  encFileHeader L.fileVersion writerHeaderVersion meshDim F.topo F.pos.length F.edges.length F.faces.length F.cells.length
    ++ encodePieces F {} L.pieces

def knownType (ty : Nat) : Bool := ty == ccVERT || ty == ccTOPO || ty == ccDIRP || ty == ccPROP || ty == ccEOF

def encOk (enc : Nat) : Bool := enc == intEncodingU8 || enc == intEncodingU16 || enc == intEncodingU32

/-- handles `hs` can be stored with offset `off` in width `enc`, and designate entities below `bound` -/
def handlesOk (hs : List Nat) (enc off bound : Nat) : Bool :=
  encOk enc && decide (off < 2 ^ 64) && hs.all (fun h => off ≤ h && h - off < 256 ^ elemSizeInt enc && h < bound)

def valencesOk (F : File) (ls : List (List Nat)) (fixed : Bool) (valEnc fv : Nat) : Bool :=
  (if fixed then ls.all (·.length == valenceOf ls) && 1 ≤ valenceOf ls && valenceOf ls ≤ 255
   else encOk valEnc && ls.all (fun l => 1 ≤ l.length && l.length < 256 ^ elemSizeInt valEnc))
  -- tetrahedral / hexahedral files must use the fixed valence the reader insists on
  && (F.topo == topoTypePolyhedral || (fixed && valenceOf ls == fv))

def pieceOk (F : File) (cur : Cur) (pc : Piece) : Bool :=
  (match pc.pad with | none => true | some p => p ≤ 255)
  && (match pc.spec with
  | .dirp => !cur.dirp && pc.flags ≤ 1
  | .vert count enc =>
      cur.v + count ≤ F.pos.length && count < 2 ^ 32 && pc.flags ≤ 1
      && (enc == vertexEncodingDouble
          || (enc == vertexEncodingFloat && (slice F.pos cur.v count).all (fun p => p.all (fun d => (f64to32? d).isSome))))
  | .edges count hEnc off =>
      1 ≤ count && cur.e + count ≤ F.edges.length && pc.flags ≤ 1
      && handlesOk (edgeLists (slice F.edges cur.e count)).flatten hEnc off cur.v
  | .faces count fixed valEnc hEnc off =>
      let ls := slice F.faces cur.f count
      1 ≤ count && cur.f + count ≤ F.faces.length && pc.flags ≤ 1
      && valencesOk F ls fixed valEnc (if F.topo == topoTypeTetrahedral then 3 else 4)
      && handlesOk ls.flatten hEnc off (2 * cur.e)
  | .cells count fixed valEnc hEnc off =>
      let ls := slice F.cells cur.c count
      1 ≤ count && cur.c + count ≤ F.cells.length && pc.flags ≤ 1
      && valencesOk F ls fixed valEnc (if F.topo == topoTypeTetrahedral then 4 else 6)
      && handlesOk ls.flatten hEnc off (2 * cur.f)
  | .prop idx count =>
      cur.dirp && pc.flags ≤ 1
      && (match F.props[idx]? with
          | none => false
          | some p =>
            let first := cur.p.getD idx 0
            (count == 0 || first + count ≤ slotCount p.entity cur.v cur.e cur.f cur.c) && first + count ≤ p.vals.length)
  | .skip ty version flags _ =>
      flags ≤ 1 && flags % 2 == 0 && ty < 2 ^ 32 && version < 256 && (version != 0 || !knownType ty)
  | .eof => pc.flags ≤ 1)

def curAfter (F : File) (cur : Cur) (pc : Piece) : Cur := (pieceBytes F cur pc).2

/-- all pieces admissible in sequence, EOF exactly once and last, everything covered at the end -/
def piecesOk (F : File) : Cur → List Piece → Bool
  | cur, [] => false && cur.dirp
  | cur, [pc] =>
      (match pc.spec with | .eof => true | _ => false) && pieceOk F cur pc
      && cur.v == F.pos.length && cur.e == F.edges.length && cur.f == F.faces.length && cur.c == F.cells.length
      && (if F.props.isEmpty then true else cur.dirp && cur.p == F.props.map (·.vals.length))
  | cur, pc :: rest =>
      (match pc.spec with | .eof => false | _ => true) && pieceOk F cur pc && piecesOk F (curAfter F cur pc) rest

def ValidLayout (L : Layout) (F : File) : Bool := L.fileVersion < 256 && piecesOk F {} L.pieces

/-- **the format relation**: `bytes` is one of the encodings of `F` that the published description permits -/
def Encodes (bytes : Bytes) (F : File) : Prop := ∃ L : Layout, ValidLayout L F = true ∧ bytes = encodeWith L F

/-- the layout the writer uses: one span per kind, widths from `suitable_int_encoding`, offset 0, padding to 8 -/
def writerLayout (F : File) : Layout :=
  let nV := F.pos.length
  let nE := F.edges.length
  let nF := F.faces.length
  let fm := writerValMode (F.faces.map List.length)
  let cm := writerValMode (F.cells.map List.length)
  let propPieces : List Piece := (List.range F.props.length).map (fun i => { spec := .prop i ((F.props.getD i default).vals.length) })
  { fileVersion := writerFileVersion,
    pieces :=
      (if F.props.isEmpty then [] else [{ spec := .dirp }])
      ++ (if nV = 0 then [] else [{ spec := .vert nV vertexEncodingDouble }])
      ++ (if nE = 0 then [] else [{ spec := .edges nE (suitableIntEncoding nV) 0 }])
      ++ (if nF = 0 then [] else [{ spec := .faces nF (fm.1 != 0) fm.2 (suitableIntEncoding (2 * nE)) 0 }])
      ++ (if F.cells.length = 0 then [] else [{ spec := .cells F.cells.length (cm.1 != 0) cm.2 (suitableIntEncoding (2 * nF)) 0 }])
      ++ propPieces
      ++ [{ spec := .eof }] }

end OVM.Ovmb

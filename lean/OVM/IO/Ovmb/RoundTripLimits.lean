/-
  OVMB model, proofs: the one size limit of the writer round trip that is not a format limit (C06).

  `ModeFits` (fixed valence × count < 2^32) always holds up to 16 843 009 faces / cells (`modeFits_of_count`), and
  it is necessary: `decode_encode_overflow` — when the writer's fixed face valence times the face count reaches
  2^32 (e.g. 1 431 655 766 triangles; the header admits 2^31 - 1 faces) the reader rejects the writer's own file,
  because `read_topo_chunk` multiplies `uint8_t valence * uint32_t count` in 32 bits
  (finding O2-topo-valence-product-overflow).
  Proof-only file (not imported by the judge).  Core only.
-/
import OVM.IO.Ovmb.RoundTripWriter
namespace OVM.Ovmb
open OVM.Gen.Ovmb Dec


theorem writerValMode_le (vals : List Nat) : (writerValMode vals).1 ≤ 255 := by
  unfold writerValMode
  simp only
  split
  · rename_i h; simp only [Bool.and_eq_true, decide_eq_true_eq] at h; exact h.2
  · simp

/-- up to 16 843 009 faces / cells the product always fits -/
theorem modeFits_of_count (ls : List (List Nat)) (h : ls.length ≤ 16843009) : ModeFits ls := by
  unfold ModeFits
  have := writerValMode_le (ls.map List.length)
  calc (writerValMode (ls.map List.length)).1 * ls.length ≤ 255 * 16843009 := Nat.mul_le_mul this h
    _ < 2 ^ 32 := by decide

/-- `read_topo_chunk` on a fixed-valence chunk whose `valence * count` does not fit 32 bits: the reader's
    expected byte count is computed from the wrapped product and the chunk is rejected
    (BinaryFileReader.cc:130 `uint64_t total_handles = header.valence * header.span.count;` multiplies a
    `uint8_t` by a `uint32_t` in 32 bits) -/
theorem applyTopo_fixed_overflow (cfg : Cfg) (s : RState) (first entity valence hEnc off : Nat) (ls : List (List Nat))
    (hent : entity ∈ validTopoEntity) (hfirst : first < 2 ^ 64) (hcount : ls.length < 2 ^ 32)
    (hv : valence < 256) (hl : ∀ l ∈ ls, l.length = valence) (hEncOk : encOk hEnc = true) (hoff : off < 2 ^ 64)
    (hbig : 2 ^ 32 ≤ valence * ls.length) :
    applyTopo cfg s (topoPayload first entity valence intEncodingNone hEnc off ls) = invalid := by
  obtain ⟨hv6, hne, hw⟩ := encOk_valid hEncOk
  have hv0 : valence ≠ 0 := by rintro rfl; simp at hbig
  have hc0 : ls.length ≠ 0 := by intro h; rw [h] at hbig; simp at hbig
  have hpay : topoPayload first entity valence intEncodingNone hEnc off ls =
      encTopoHeader first ls.length entity valence intEncodingNone hEnc off ++
        encInts (elemSizeInt hEnc) (ls.flatten.map (· - off)) := by
    simp [topoPayload, hv0]
  have h1 := runDec_ok (readTopoHdr_enc first ls.length entity valence intEncodingNone hEnc off
    (encInts (elemSizeInt hEnc) (ls.flatten.map (· - off))) hfirst hcount hent hv (by decide)
    (of_decide_eq_true hv6) hoff)
  have hlen : (encInts (elemSizeInt hEnc) (ls.flatten.map (· - off))).length ≠
      (valence * ls.length % 2 ^ 32) * elemSizeInt hEnc := by
    rw [encInts_length, List.length_map, flatten_length_fixed ls valence hl, Nat.mul_comm]
    have : valence * ls.length % 2 ^ 32 < valence * ls.length := by omega
    intro h
    have := Nat.eq_of_mul_eq_mul_right (by omega) h
    omega
  unfold applyTopo
  rw [hpay]
  have hpure : ∀ p2 : Bytes, runDec (pure [] : Dec (List Nat)) p2 = .ok ([], p2) := fun _ => rfl
  simp only [h1, R_ok_bind, hc0, hne, hv0, if_false, ne_eq, not_true_eq_false, not_false_eq_true, true_and, false_and,
    hpure, hlen, if_true]

/-- the product condition is necessary: when it fails for the faces, the reader rejects what the writer wrote -/
theorem decode_encode_overflow (cfg : Cfg) (F : File) (hwf : WFFile F = true) (hacc : Accepts cfg F) (hs : SizeOk F)
    (hf : ¬ModeFits F.faces) : decode cfg (encode F) = .error (.res .invalidFile) := by
  have hw := WF.of F hwf
  have hnE := hw.nE; have hnF := hw.nF
  simp only [maxHandleIdx] at hnE hnF
  have hbig : 2 ^ 32 ≤ (writerValMode (F.faces.map List.length)).1 * F.faces.length := by
    unfold ModeFits at hf; omega
  have hp : F.faces.length ≠ 0 := by intro h; rw [h] at hbig; simp at hbig
  have hm0 : (writerValMode (F.faces.map List.length)).1 ≠ 0 := by intro h; rw [h] at hbig; simp at hbig
  -- the writer is in fixed mode
  have hmode : (writerValMode (F.faces.map List.length)).2 = intEncodingNone ∧
      ∀ l ∈ F.faces, l.length = (writerValMode (F.faces.map List.length)).1 := by
    have hmem : ∀ l ∈ F.faces, l.length ∈ F.faces.map List.length := fun l hl => List.mem_map.mpr ⟨l, hl, rfl⟩
    unfold writerValMode at hm0 ⊢
    simp only at hm0 ⊢
    split
    · rename_i hc
      simp only [Bool.and_eq_true, beq_iff_eq, decide_eq_true_eq] at hc
      refine ⟨rfl, ?_⟩
      intro l hl
      have a := listMin_le (hmem l hl)
      have b := le_listMax (hmem l hl)
      simp only; omega
    · rename_i hc; rw [if_neg hc] at hm0; exact absurd rfl hm0
  have hface : processChunk cfg (mkS F true true F.edges [] [] 0 false)
      (wc ccTOPO (topoPayload 0 topoEntityFace (writerValMode (F.faces.map List.length)).1
        (writerValMode (F.faces.map List.length)).2 (suitableIntEncoding (2 * F.edges.length)) 0 F.faces)).hdr
      (topoPayload 0 topoEntityFace (writerValMode (F.faces.map List.length)).1
        (writerValMode (F.faces.map List.length)).2 (suitableIntEncoding (2 * F.edges.length)) 0 F.faces) = invalid := by
    rw [pc_topo, hmode.1]
    exact applyTopo_fixed_overflow cfg _ 0 topoEntityFace _ _ 0 F.faces (by decide) (by omega) (by omega)
      (by have := writerValMode_le (F.faces.map List.length); omega) hmode.2 (suitable_encOk _) (by omega) hbig
  unfold decode
  rw [encode_eq, decodeStream_header cfg F hw hacc, loop_chunks cfg _ (writerChunkDs_fits F hs), mkS_init]
  simp only [writerChunkDs, frontChunkDs, runChunks_append, step_dirp cfg F hw, step_vert cfg F hw, step_edges cfg F hw]
  simp only [faceCh, hp, if_false, runChunks, wc] at hface ⊢
  rw [hface]
  rfl
end OVM.Ovmb

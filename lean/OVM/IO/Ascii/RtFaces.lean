import OVM.IO.Ascii.RtSections
/-
  Round trip, part 7 (proof-only file): the face and cell sections read back what `printTopo` wrote.
-/
namespace OVM.Ascii

/-- a printed face / cell line, read through `nextLine` (covers `"0 "` for an empty cell) -/
theorem handlesLine_read (st : RS) (hs : List Nat) (rest : Str) (hst : st.is = good (printHandles hs ++ rest)) :
    st.nextLine.is = good rest ∧ st.nextLine.line = showNat hs.length ++ spacedNums hs := by
  cases hs with
  | nil =>
    have e : printHandles [] ++ rest = showNat 0 ++ cSP :: cNL :: rest := by
      simp [printHandles, line, spaced]
    rw [e] at hst
    have := nextLine_printed_sp st (showNat 0) rest hst (showNat_noNL 0) (showNat_headOK 0) (showNat_lastOK 0)
    simpa [spacedNums] using this
  | cons a t =>
    have hne : (a :: t) ≠ [] := by simp
    have e : printHandles (a :: t) ++ rest = (showNat (a :: t).length ++ spacedNums (a :: t)) ++ cNL :: rest := by
      simp only [printHandles, line, ← spaced_eq (a :: t) hne]
      simp
    rw [e] at hst
    exact nextLine_printed st _ rest hst ((showNat_noNL _).append (spacedNums_noNL _))
      ((showNat_headOK _).append _) ((spacedNums_lastOK _ hne).prepend _)

/-! ### faces -/

theorem faceStep_printed (cfg : Cfg) (edges : List (Nat × Nat)) (nHE i : Nat) (st : RS) (f : List Nat) (rest : Str)
    (hst : st.is = good (printHandles f ++ rest)) (hne : f ≠ []) (hb : ∀ x ∈ f, x < nHE ∧ x < 2 ^ 32)
    (hlim : f.length ≤ cfg.lim) (hk : f.length < 2 ^ 64) (hacc : faceDec cfg edges f = .accept f) :
    (faceStep cfg edges nHE i st).is = good rest ∧ (faceStep cfg edges nHE i st).faces = f :: st.faces ∧
    (faceStep cfg edges nHE i st).err = st.err := by
  obtain ⟨n1, n2⟩ := handlesLine_read st f rest hst
  obtain ⟨r1, r2⟩ := idxLine_read nHE cfg.lim f hb hk
  have hpos : ¬ f.length = 0 := by
    intro h; exact hne (List.length_eq_zero_iff.mp h)
  have hl : ¬ cfg.lim < f.length := by omega
  unfold faceStep
  simp only [n2, r1, r2, hacc, beq_iff_eq, hpos, hl, if_false, n1]
  exact ⟨trivial, rfl, rfl⟩

theorem faceLoop_printed (cfg : Cfg) (edges : List (Nat × Nat)) (nHE : Nat) : ∀ (fs : List (List Nat)) (i : Nat) (st : RS) (rest : Str),
    st.is = good (fs.flatMap printHandles ++ rest) → st.err = none →
    (∀ f ∈ fs, f ≠ [] ∧ (∀ x ∈ f, x < nHE ∧ x < 2 ^ 32) ∧ f.length ≤ cfg.lim ∧ f.length < 2 ^ 64 ∧
      faceDec cfg edges f = .accept f) →
    (loopN (faceStep cfg edges nHE) fs.length i st).is = good rest ∧
    (loopN (faceStep cfg edges nHE) fs.length i st).faces = fs.reverse ++ st.faces ∧
    (loopN (faceStep cfg edges nHE) fs.length i st).err = none ∧
    (loopN (faceStep cfg edges nHE) fs.length i st).verts = st.verts ∧
    (loopN (faceStep cfg edges nHE) fs.length i st).edges = st.edges ∧
    (loopN (faceStep cfg edges nHE) fs.length i st).cells = st.cells ∧
    (loopN (faceStep cfg edges nHE) fs.length i st).props = st.props ∧
    (loopN (faceStep cfg edges nHE) fs.length i st).dF = st.dF := by
  intro fs
  induction fs with
  | nil =>
    intro i st rest h he _
    show st.is = good rest ∧ st.faces = [].reverse ++ st.faces ∧ st.err = none ∧ st.verts = st.verts ∧
      st.edges = st.edges ∧ st.cells = st.cells ∧ st.props = st.props ∧ st.dF = st.dF
    exact ⟨by simpa using h, rfl, he, rfl, rfl, rfl, rfl, rfl⟩
  | cons f fs ih =>
    intro i st rest h he hb
    have h' : st.is = good (printHandles f ++ (fs.flatMap printHandles ++ rest)) := by simpa using h
    obtain ⟨b1, b2, b3, b4, b5⟩ := hb f (by simp)
    obtain ⟨s1, s2, s3⟩ := faceStep_printed cfg edges nHE i st f _ h' b1 b2 b3 b4 b5
    obtain ⟨f1, f2, f3, f4, _, _, f7⟩ := faceStep_facts cfg edges nHE i st
    have he' : (faceStep cfg edges nHE i st).err = none := s3.trans he
    simp only [List.length_cons, loopN, he', Option.isSome_none, Bool.false_eq_true, if_false]
    obtain ⟨r1, r2, r3, r4, r5, r6, r7, r8⟩ := ih (i + 1) (faceStep cfg edges nHE i st) rest s1 he' (fun q hq => hb q (by simp [hq]))
    refine ⟨r1, ?_, r3, r4.trans f1, r5.trans f2, r6.trans f3, r7.trans f4, r8.trans f7⟩
    rw [r2, s2]; simp

/-! ### cells -/

theorem cellStep_printed (cfg : Cfg) (edges : List (Nat × Nat)) (faces : List (List Nat)) (nHF i : Nat) (st : RS) (c : List Nat) (rest : Str)
    (hst : st.is = good (printHandles c ++ rest)) (hb : ∀ x ∈ c, x < nHF ∧ x < 2 ^ 32)
    (hlim : c.length ≤ cfg.lim) (hk : c.length < 2 ^ 64) (hacc : cellDec cfg edges faces c = .accept c) :
    (cellStep cfg edges faces nHF i st).is = good rest ∧ (cellStep cfg edges faces nHF i st).cells = c :: st.cells ∧
    (cellStep cfg edges faces nHF i st).err = st.err := by
  obtain ⟨n1, n2⟩ := handlesLine_read st c rest hst
  obtain ⟨r1, r2⟩ := idxLine_read nHF cfg.lim c hb hk
  have hl : ¬ cfg.lim < c.length := by omega
  unfold cellStep
  simp only [n2, r1, r2, hacc, hl, if_false, n1]
  exact ⟨trivial, rfl, rfl⟩

theorem cellLoop_printed (cfg : Cfg) (edges : List (Nat × Nat)) (faces : List (List Nat)) (nHF : Nat) : ∀ (cs : List (List Nat)) (i : Nat) (st : RS) (rest : Str),
    st.is = good (cs.flatMap printHandles ++ rest) → st.err = none →
    (∀ c ∈ cs, (∀ x ∈ c, x < nHF ∧ x < 2 ^ 32) ∧ c.length ≤ cfg.lim ∧ c.length < 2 ^ 64 ∧
      cellDec cfg edges faces c = .accept c) →
    (loopN (cellStep cfg edges faces nHF) cs.length i st).is = good rest ∧
    (loopN (cellStep cfg edges faces nHF) cs.length i st).cells = cs.reverse ++ st.cells ∧
    (loopN (cellStep cfg edges faces nHF) cs.length i st).err = none ∧
    (loopN (cellStep cfg edges faces nHF) cs.length i st).verts = st.verts ∧
    (loopN (cellStep cfg edges faces nHF) cs.length i st).edges = st.edges ∧
    (loopN (cellStep cfg edges faces nHF) cs.length i st).faces = st.faces ∧
    (loopN (cellStep cfg edges faces nHF) cs.length i st).props = st.props := by
  intro cs
  induction cs with
  | nil =>
    intro i st rest h he _
    show st.is = good rest ∧ st.cells = [].reverse ++ st.cells ∧ st.err = none ∧ st.verts = st.verts ∧
      st.edges = st.edges ∧ st.faces = st.faces ∧ st.props = st.props
    exact ⟨by simpa using h, rfl, he, rfl, rfl, rfl, rfl⟩
  | cons c cs ih =>
    intro i st rest h he hb
    have h' : st.is = good (printHandles c ++ (cs.flatMap printHandles ++ rest)) := by simpa using h
    obtain ⟨b2, b3, b4, b5⟩ := hb c (by simp)
    obtain ⟨s1, s2, s3⟩ := cellStep_printed cfg edges faces nHF i st c _ h' b2 b3 b4 b5
    obtain ⟨f1, f2, f3, f4, _, _, _⟩ := cellStep_facts cfg edges faces nHF i st
    have he' : (cellStep cfg edges faces nHF i st).err = none := s3.trans he
    simp only [List.length_cons, loopN, he', Option.isSome_none, Bool.false_eq_true, if_false]
    obtain ⟨r1, r2, r3, r4, r5, r6, r7⟩ := ih (i + 1) (cellStep cfg edges faces nHF i st) rest s1 he' (fun q hq => hb q (by simp [hq]))
    refine ⟨r1, ?_, r3, r4.trans f1, r5.trans f2, r6.trans f3, r7.trans f4⟩
    rw [r2, s2]; simp

end OVM.Ascii

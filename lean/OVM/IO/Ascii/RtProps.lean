import OVM.IO.Ascii.RtDecl
import OVM.IO.Ascii.RtTopoAll
/-
  Round trip, part 12 (proof-only file): `readProperty` on a printed block, and the loop
  `while(!_istream.eof()) readProperty(...)` on the printed blocks of a file.
-/
namespace OVM.Ascii

theorem zipWith_posOfVal_map (vs : List Pos) : List.zipWith posOfVal (vs.map valOfPos) vs = vs := by
  induction vs with
  | nil => rfl
  | cons p ps ih => simp [posOfVal, valOfPos, ih]

theorem upsert_fresh (ps : List PropRec) (p : PropRec) (h : ∀ q ∈ ps, keyOf q ≠ keyOf p) : upsert ps p = ps ++ [p] := by
  have : ps.any (fun q => sameKey q p.ent p.ty p.name) = false := by
    rw [List.any_eq_false]
    intro q hq hs
    simp only [sameKey, Bool.and_eq_true, beq_iff_eq] at hs
    exact h q hq (by simp [keyOf, hs.1.1, hs.1.2, hs.2])
  simp [upsert, this]

theorem find_fresh (ps : List PropRec) (p : PropRec) (h : ∀ q ∈ ps, keyOf q ≠ keyOf p) :
    ps.find? (fun q => sameKey q p.ent p.ty p.name) = none := by
  rw [List.find?_eq_none]
  intro q hq hs
  simp only [sameKey, Bool.and_eq_true, beq_iff_eq] at hs
  exact h q hq (by simp [keyOf, hs.1.1, hs.1.2, hs.2])

theorem count_eq (st : RS) (F : AFile) (hv : st.verts = F.verts) (he : st.edges = F.edges) (hf : st.faces = F.faces)
    (hc : st.cells = F.cells) (k : Ent) : st.count k = F.count k := by
  cases k <;> simp [RS.count, AFile.count, hv, he, hf, hc]

/-- one printed block: the declaration is recognised, one value per entity is read, the block is
    stored as a new property, the positions stay -/
theorem readProperty_printed (lim : Nat) (hlim : lim < 2 ^ 31) (F : AFile) (p : PropRec) (st : RS) (nls more : Str)
    (hst : st.is = good (nls ++ printProp p ++ more)) (hn : AllNL nls)
    (hv : st.verts = F.verts) (he : st.edges = F.edges) (hf : st.faces = F.faces) (hc : st.cells = F.cells)
    (hp : WFProp lim F p) (hkey : ∀ q ∈ st.props, keyOf q ≠ keyOf p) :
    ∃ ws', AllNL ws' ∧ readProperty lim st = { st with is := good (ws' ++ more), props := st.props ++ [p] } := by
  obtain ⟨init, z, hname, hz⟩ := hp.nameLast
  obtain ⟨d1, d2, d3⟩ := declLine_shape p.ent p.ty p.name hp.ty hp.nameNL
  have hclean := trim_clean (clean_of d2 d3)
  obtain ⟨c0, t0, hct, _, hhash⟩ := d2
  have hacc : acceptLine (trim (declLine p.ent p.ty p.name)) = true := by
    rw [hclean]; exact acceptLine_of _ c0 t0 hct hhash
  -- the declaration line
  have e0 : nls ++ printProp p ++ more =
      nls ++ declLine p.ent p.ty p.name ++ cNL :: (p.vals.flatMap printVal ++ more) := by
    rw [printProp_eq]; simp
  have hg := getCleanLine_skip nls (declLine p.ent p.ty p.name) (p.vals.flatMap printVal ++ more) []
    hn d1 hacc
  rw [hclean] at hg
  have hd : parseDecl (declLine p.ent p.ty p.name) = some (p.ent, p.ty, p.name) := by
    rw [hname]; exact parseDecl_declLine p.ent p.ty init z hp.ty hz
  have hne : (declLine p.ent p.ty p.name).isEmpty = false := by rw [hct]; rfl
  -- the old values
  have hcnt := count_eq st F hv he hf hc p.ent
  have hfind := find_fresh st.props p hkey
  have holdLen : (oldVals { st with is := good (p.vals.flatMap printVal ++ more) } p.ent p.ty p.name).length = p.vals.length := by
    unfold oldVals
    split
    · rename_i hk
      have := hp.pos hk
      simp [this, hv]
    · simp only [hfind, List.length_replicate]
      rw [hp.len, ← hcnt]; rfl
  have holdStr : p.ty = .sc .str → ∀ o ∈ oldVals { st with is := good (p.vals.flatMap printVal ++ more) } p.ent p.ty p.name,
      o = .sc (.str []) := by
    intro hty o ho
    unfold oldVals at ho
    split at ho
    · rename_i hk
      simp only [isPosKey, Bool.and_eq_true, beq_iff_eq] at hk
      rw [hty] at hk
      exact absurd hk.1.2 (by simp)
    · simp only [hfind] at ho
      have := List.eq_of_mem_replicate ho
      rw [this, hty]; rfl
  obtain ⟨ws', hws', hr⟩ := readVals_printed lim hlim p.ty (regTypes_noTupStr p.ty hp.ty) p.vals
    (oldVals { st with is := good (p.vals.flatMap printVal ++ more) } p.ent p.ty p.name) [] more [] holdLen AllNL.nil hp.vals holdStr
  simp only [List.nil_append, List.reverse_nil] at hr
  refine ⟨ws', hws', ?_⟩
  unfold readProperty
  simp only [hst, e0, hg, hne, Bool.false_eq_true, if_false, hd, hr]
  -- the store
  have hup := upsert_fresh st.props p hkey
  unfold storeProp
  simp only [hup]
  by_cases hk : isPosKey p.ent p.ty p.name = true
  · have hvals := hp.pos hk
    simp only [hk, if_true]
    rw [hvals, hv, zipWith_posOfVal_map, ← hv]
  · simp only [hk, Bool.false_eq_true, if_false]

/-- the loop over the printed blocks `ps`; `fuel` as large as the number of blocks + 2 suffices -/
theorem readProps_printed (lim : Nat) (hlim : lim < 2 ^ 31) (F : AFile) : ∀ (ps : List PropRec) (st : RS) (nls : Str) (fuel : Nat),
    st.is = good (nls ++ ps.flatMap printProp) → AllNL nls → st.err = none →
    st.verts = F.verts → st.edges = F.edges → st.faces = F.faces → st.cells = F.cells →
    (∀ p ∈ ps, WFProp lim F p) → (st.props ++ ps).Pairwise (fun p q => keyOf p ≠ keyOf q) →
    ps.length + 2 ≤ fuel →
    readProps lim fuel st = { st with is := { rest := [], eof := true, fail := true }, props := st.props ++ ps } := by
  intro ps
  induction ps with
  | nil =>
    intro st nls fuel hst hn herr _ _ _ _ _ _ hfuel
    obtain ⟨f, rfl⟩ : ∃ f, fuel = f + 2 := ⟨fuel - 2, by simp at hfuel; omega⟩
    rw [readProps_end lim f st nls (by simpa using hst) hn herr]
    simp
  | cons p ps ih =>
    intro st nls fuel hst hn herr hv he hf hc hwf hkeys hfuel
    obtain ⟨f, rfl⟩ : ∃ f, fuel = f + 1 := ⟨fuel - 1, by simp at hfuel; omega⟩
    have hst' : st.is = good (nls ++ printProp p ++ ps.flatMap printProp) := by simpa using hst
    have hkey : ∀ q ∈ st.props, keyOf q ≠ keyOf p := by
      intro q hq
      have := List.pairwise_append.mp hkeys
      exact this.2.2 q hq p (by simp)
    obtain ⟨ws', hws', hr⟩ := readProperty_printed lim hlim F p st nls (ps.flatMap printProp) hst' hn hv he hf hc
      (hwf p (by simp)) hkey
    have heof : st.is.eof = false := by rw [hst]; rfl
    simp only [readProps, heof, Bool.false_eq_true, if_false, hr, herr, Option.isSome_none, good, Bool.false_and]
    have hkeys' : ((st.props ++ [p]) ++ ps).Pairwise (fun p q => keyOf p ≠ keyOf q) := by simpa using hkeys
    have hih := ih { st with is := good (ws' ++ ps.flatMap printProp), props := st.props ++ [p] } ws' f rfl hws' herr hv he hf hc
      (fun q hq => hwf q (by simp [hq])) hkeys' (by simp at hfuel ⊢; omega)
    simp only [herr, good] at hih
    rw [hih]
    simp

end OVM.Ascii

import OVM.IO.Ascii.RtPrim
/-
  Round trip, part 2 (proof-only file): `getCleanLine` on printed lines, `trimString`.
-/
namespace OVM.Ascii

theorem dropWhile_head_false {α} (p : α → Bool) (a : α) (t : List α) (h : p a = false) :
    (a :: t).dropWhile p = a :: t := by simp [List.dropWhile, h]

/-- a line the printer produces: starts and ends with a character that `trimString` keeps -/
structure Clean (l : Str) : Prop where
  ne : l ≠ []
  hd : ∀ c t, l = c :: t → isTrim c = false
  lt : ∀ c t, l.reverse = c :: t → isTrim c = false

theorem trim_clean {l : Str} (h : Clean l) : trim l = l := by
  unfold trim
  cases hl : l with
  | nil => exact absurd hl h.ne
  | cons a t =>
    rw [dropWhile_head_false isTrim a t (h.hd a t hl)]
    cases hr : (a :: t).reverse with
    | nil => simp at hr
    | cons b u =>
      have := h.lt b u (by rw [hl]; exact hr)
      rw [dropWhile_head_false isTrim b u this, ← hr, List.reverse_reverse]

theorem trim_clean_sp {l : Str} (h : Clean l) : trim (l ++ [cSP]) = l := by
  unfold trim
  cases hl : l with
  | nil => exact absurd hl h.ne
  | cons a t =>
    simp only [List.cons_append]
    rw [dropWhile_head_false isTrim a _ (h.hd a t hl)]
    have : (a :: (t ++ [cSP])).reverse = cSP :: (a :: t).reverse := by simp
    rw [this]
    have hsp : isTrim cSP = true := by decide
    simp only [List.dropWhile, hsp]
    cases hr : (a :: t).reverse with
    | nil => simp at hr
    | cons b u =>
      have := h.lt b u (by rw [hl]; exact hr)
      rw [dropWhile_head_false isTrim b u this, ← hr, List.reverse_reverse]

theorem gclGo_acc (rest : Str) : ∀ (l cur : Str), (∀ c ∈ l, c ≠ cNL) →
    gclGo (l ++ cNL :: rest) cur =
      if acceptLine (trim (cur.reverse ++ l)) then (true, trim (cur.reverse ++ l), good rest) else gclGo rest [] := by
  intro l
  induction l with
  | nil =>
    intro cur _
    simp only [List.nil_append, List.append_nil, gclGo, beq_self_eq_true, if_true, good]
  | cons c cs ih =>
    intro cur h
    have hc : (c == cNL) = false := by simpa using h c (by simp)
    simp only [List.cons_append, gclGo, hc, Bool.false_eq_true, if_false]
    rw [ih (c :: cur) (fun x hx => h x (by simp [hx]))]
    simp

/-- reading one printed line -/
theorem getCleanLine_line (l rest old : Str) (hnl : ∀ c ∈ l, c ≠ cNL) (hacc : acceptLine (trim l) = true) :
    getCleanLine (good (l ++ cNL :: rest)) old = (true, trim l, good rest) := by
  unfold getCleanLine
  simp only [good, Bool.or_self, Bool.false_eq_true, if_false]
  rw [gclGo_acc rest l [] hnl]
  simp [hacc, good]

/-- blank lines in front are skipped -/
theorem getCleanLine_skip (nls l rest old : Str) (hn : ∀ c ∈ nls, c = cNL) (hnl : ∀ c ∈ l, c ≠ cNL)
    (hacc : acceptLine (trim l) = true) :
    getCleanLine (good (nls ++ l ++ cNL :: rest)) old = (true, trim l, good rest) := by
  induction nls with
  | nil => simpa using getCleanLine_line l rest old hnl hacc
  | cons c cs ih =>
    have hc : c = cNL := hn c (by simp)
    subst hc
    have ih' := ih (fun x hx => hn x (by simp [hx]))
    unfold getCleanLine at ih' ⊢
    simp only [good, Bool.or_self, Bool.false_eq_true, if_false] at ih' ⊢
    simp only [List.cons_append, gclGo, beq_self_eq_true, if_true]
    have : acceptLine (trim ([] : Str).reverse) = false := by decide
    rw [this]
    simpa using ih'

theorem acceptLine_of (l : Str) (c : Nat) (t : Str) (h : l = c :: t) (hc : c ≠ cHash) : acceptLine l = true := by
  subst h
  simp [acceptLine, hc]

end OVM.Ascii

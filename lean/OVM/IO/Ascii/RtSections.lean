import OVM.IO.Ascii.RtSpec
import OVM.IO.Ascii.ParseLemmas
/-
  Round trip, part 5 (proof-only file): the topology sections read back what `printTopo` wrote.
-/
namespace OVM.Ascii

/-! ### shapes of printed lines -/

def NoNL (l : Str) : Prop := ∀ c ∈ l, c ≠ cNL
def HeadOK (l : Str) : Prop := ∃ c t, l = c :: t ∧ isTrim c = false ∧ c ≠ cHash
def LastOK (l : Str) : Prop := ∃ c t, l.reverse = c :: t ∧ isTrim c = false

theorem NoNL.append {a b : Str} (ha : NoNL a) (hb : NoNL b) : NoNL (a ++ b) := by
  intro c hc; rcases List.mem_append.mp hc with h | h
  · exact ha c h
  · exact hb c h
theorem NoNL.cons {c : Nat} {b : Str} (hc : c ≠ cNL) (hb : NoNL b) : NoNL (c :: b) := by
  intro x hx; rcases List.mem_cons.mp hx with h | h
  · rw [h]; exact hc
  · exact hb x h
theorem NoNL.nil : NoNL [] := fun _ h => by simp at h
theorem HeadOK.append {a : Str} (b : Str) (ha : HeadOK a) : HeadOK (a ++ b) := by
  obtain ⟨c, t, rfl, h⟩ := ha; exact ⟨c, t ++ b, by simp, h⟩
theorem LastOK.prepend (a : Str) {b : Str} (hb : LastOK b) : LastOK (a ++ b) := by
  obtain ⟨c, t, h, hc⟩ := hb; exact ⟨c, t ++ a.reverse, by simp [h], hc⟩

theorem clean_of {l : Str} (hh : HeadOK l) (hl : LastOK l) : Clean l := by
  obtain ⟨c, t, rfl, hc, _⟩ := hh
  obtain ⟨d, u, hr, hd⟩ := hl
  refine ⟨by simp, ?_, ?_⟩
  · intro c' t' h; simp at h; rw [← h.1]; exact hc
  · intro c' t' h; rw [hr] at h; simp at h; rw [← h.1]; exact hd

theorem showNat_noNL (n : Nat) : NoNL (showNat n) := by
  intro c hc hq
  have := showNat_digits n c hc
  subst hq
  simp [isDigit, cNL] at this
theorem digit_ne_hash {c : Nat} (h : isDigit c = true) : c ≠ cHash := by
  simp only [isDigit, Bool.and_eq_true, decide_eq_true_eq] at h
  simp [cHash]; omega
theorem showNat_headOK (n : Nat) : HeadOK (showNat n) := by
  obtain ⟨c, t, h, hc⟩ := showNat_head n
  exact ⟨c, t, h, isDigit_not_trim hc, digit_ne_hash hc⟩
theorem showNat_lastOK (n : Nat) : LastOK (showNat n) := by
  cases hr : (showNat n).reverse with
  | nil => simp at hr; exact absurd hr (showNat_ne_nil n)
  | cons c t =>
    refine ⟨c, t, hr, isDigit_not_trim (showNat_digits n c ?_)⟩
    have : c ∈ (showNat n).reverse := by rw [hr]; simp
    simpa using this

theorem floatTok_noNL {ty : FltTy} {t : Str} (h : FloatTok ty t) : NoNL t :=
  fun c hc => (floatChar_facts (h.chars c hc)).2.2.1
theorem floatTok_headOK {ty : FltTy} {t : Str} (h : FloatTok ty t) : HeadOK t := by
  obtain ⟨c, r, rfl⟩ := h.ne
  have := floatChar_facts (h.chars c (by simp))
  exact ⟨c, r, rfl, this.2.1, this.2.2.2.1⟩
theorem floatTok_lastOK {ty : FltTy} {t : Str} (h : FloatTok ty t) : LastOK t := by
  obtain ⟨c0, r0, hne⟩ := h.ne
  cases hr : t.reverse with
  | nil => simp at hr; rw [hr] at hne; simp at hne
  | cons c u =>
    have : c ∈ t := by
      have : c ∈ t.reverse := by rw [hr]; simp
      simpa using this
    exact ⟨c, u, hr, (floatChar_facts (h.chars c this)).2.1⟩

theorem sp_ne_nl : cSP ≠ cNL := by decide

/-- reading a printed line through `nextLine` -/
theorem nextLine_printed (st : RS) (l rest : Str) (hst : st.is = good (l ++ cNL :: rest)) (hn : NoNL l)
    (hh : HeadOK l) (hl : LastOK l) : st.nextLine.is = good rest ∧ st.nextLine.line = l := by
  have hc := trim_clean (clean_of hh hl)
  obtain ⟨c, t, hct, _, hhash⟩ := hh
  have hacc : acceptLine (trim l) = true := by rw [hc]; exact acceptLine_of l c t hct hhash
  have := getCleanLine_line l rest st.line hn hacc
  simp [RS.nextLine, hst, this, hc]

/-- the same when the printer left a blank behind the last token (`"0 "`) -/
theorem nextLine_printed_sp (st : RS) (l rest : Str) (hst : st.is = good (l ++ cSP :: cNL :: rest)) (hn : NoNL l)
    (hh : HeadOK l) (hl : LastOK l) : st.nextLine.is = good rest ∧ st.nextLine.line = l := by
  have hc := trim_clean_sp (clean_of hh hl)
  obtain ⟨c, t, hct, _, hhash⟩ := hh
  have hacc : acceptLine (trim (l ++ [cSP])) = true := by rw [hc]; exact acceptLine_of l c t hct hhash
  have hn' : NoNL (l ++ [cSP]) := hn.append (NoNL.cons sp_ne_nl NoNL.nil)
  have := getCleanLine_line (l ++ [cSP]) rest st.line hn' hacc
  have e : l ++ cSP :: cNL :: rest = (l ++ [cSP]) ++ cNL :: rest := by simp
  rw [e] at hst
  simp only [RS.nextLine, hst, this, hc, and_self]

/-! ### vertices -/

def PosTok (p : Pos) : Prop := FloatTok .f64 p.1 ∧ FloatTok .f64 p.2.1 ∧ FloatTok .f64 p.2.2

theorem posLine_shape (p : Pos) (h : PosTok p) :
    NoNL (p.1 ++ cSP :: p.2.1 ++ cSP :: p.2.2) ∧ HeadOK (p.1 ++ cSP :: p.2.1 ++ cSP :: p.2.2) ∧
    LastOK (p.1 ++ cSP :: p.2.1 ++ cSP :: p.2.2) := by
  obtain ⟨ha, hb, hc⟩ := h
  refine ⟨?_, ?_, ?_⟩
  · exact ((floatTok_noNL ha).append (NoNL.cons sp_ne_nl (floatTok_noNL hb))).append (NoNL.cons sp_ne_nl (floatTok_noNL hc))
  · exact ((floatTok_headOK ha).append _).append _
  · have : p.1 ++ cSP :: p.2.1 ++ cSP :: p.2.2 = (p.1 ++ cSP :: p.2.1 ++ [cSP]) ++ p.2.2 := by simp
    rw [this]; exact (floatTok_lastOK hc).prepend _

theorem vertStep_printed (i : Nat) (st : RS) (p : Pos) (rest : Str) (hst : st.is = good (printPos p ++ rest))
    (hp : PosTok p) : (vertStep i st).is = good rest ∧ (vertStep i st).verts = p :: st.verts := by
  obtain ⟨hn, hh, hl⟩ := posLine_shape p hp
  have e : printPos p ++ rest = (p.1 ++ cSP :: p.2.1 ++ cSP :: p.2.2) ++ cNL :: rest := by
    simp [printPos, line]
  rw [e] at hst
  obtain ⟨h1, h2⟩ := nextLine_printed st _ rest hst hn hh hl
  unfold vertStep
  simp only [h1, h2, readPos_line _ _ _ _ hp.1 hp.2.1 hp.2.2]
  exact ⟨trivial, rfl⟩

theorem vertLoop_printed : ∀ (vs : List Pos) (i : Nat) (st : RS) (rest : Str),
    st.is = good (vs.flatMap printPos ++ rest) → st.err = none → (∀ p ∈ vs, PosTok p) →
    (loopN vertStep vs.length i st).is = good rest ∧ (loopN vertStep vs.length i st).verts = vs.reverse ++ st.verts ∧
    (loopN vertStep vs.length i st).err = none ∧ (loopN vertStep vs.length i st).edges = st.edges ∧
    (loopN vertStep vs.length i st).faces = st.faces ∧ (loopN vertStep vs.length i st).cells = st.cells ∧
    (loopN vertStep vs.length i st).props = st.props ∧ (loopN vertStep vs.length i st).dV = st.dV := by
  intro vs
  induction vs with
  | nil =>
    intro i st rest h he _
    show st.is = good rest ∧ st.verts = [].reverse ++ st.verts ∧ st.err = none ∧ st.edges = st.edges ∧
      st.faces = st.faces ∧ st.cells = st.cells ∧ st.props = st.props ∧ st.dV = st.dV
    exact ⟨by simpa using h, rfl, he, rfl, rfl, rfl, rfl, rfl⟩
  | cons p ps ih =>
    intro i st rest h he hp
    have h' : st.is = good (printPos p ++ (ps.flatMap printPos ++ rest)) := by simpa using h
    obtain ⟨s1, s2⟩ := vertStep_printed i st p _ h' (hp p (by simp))
    obtain ⟨f1, f2, f3, f4, _, f6, f7, _, _, _⟩ := vertStep_facts i st
    have he' : (vertStep i st).err = none := f6.trans he
    simp only [List.length_cons, loopN, he', Option.isSome_none, Bool.false_eq_true, if_false]
    obtain ⟨r1, r2, r3, r4, r5, r6, r7, r8⟩ := ih (i + 1) (vertStep i st) rest s1 he' (fun q hq => hp q (by simp [hq]))
    refine ⟨r1, ?_, r3, r4.trans f1, r5.trans f2, r6.trans f3, r7.trans f4, r8.trans f7⟩
    rw [r2, s2]; simp

/-! ### edges -/

theorem edgeStep_printed (nV i : Nat) (st : RS) (e : Nat × Nat) (rest : Str)
    (hst : st.is = good (printEdge e ++ rest)) (h1 : e.1 < nV) (h2 : e.2 < nV) (h32 : nV ≤ 2 ^ 32) :
    (edgeStep nV i st).is = good rest ∧ (edgeStep nV i st).edges = e :: st.edges ∧ (edgeStep nV i st).err = st.err := by
  have hn : NoNL (showNat e.1 ++ cSP :: showNat e.2) := (showNat_noNL _).append (NoNL.cons sp_ne_nl (showNat_noNL _))
  have hh : HeadOK (showNat e.1 ++ cSP :: showNat e.2) := (showNat_headOK _).append _
  have hl : LastOK (showNat e.1 ++ cSP :: showNat e.2) := by
    have : showNat e.1 ++ cSP :: showNat e.2 = (showNat e.1 ++ [cSP]) ++ showNat e.2 := by simp
    rw [this]; exact (showNat_lastOK _).prepend _
  have e0 : printEdge e ++ rest = (showNat e.1 ++ cSP :: showNat e.2) ++ cNL :: rest := by simp [printEdge, line]
  rw [e0] at hst
  obtain ⟨n1, n2⟩ := nextLine_printed st _ rest hst hn hh hl
  have x1 := extractInt_nat .u32 [] (cSP :: showNat e.2) e.1 allSpace_nil (stops_cons _ _ _ (by decide)) (fits_u32 _ (by omega))
  simp only [List.nil_append] at x1
  have x2 := extractInt_nat .u32 [cSP] [] e.2 allSpace_sp (stops_nil _) (fits_u32 _ (by omega))
  have g1 : IStream.ofStr (showNat e.1 ++ cSP :: showNat e.2) = good (showNat e.1 ++ (cSP :: showNat e.2)) := rfl
  have g2 : ({ rest := cSP :: showNat e.2, eof := (cSP :: showNat e.2).isEmpty, fail := false } : IStream) =
      good ([cSP] ++ showNat e.2 ++ []) := by simp [good]
  unfold edgeStep
  simp only [n2, g1, x1, g2, x2, natOf, Option.getD_some, Int.toNat_natCast]
  have c1 : ¬ nV ≤ e.1 := by omega
  have c2 : ¬ nV ≤ e.2 := by omega
  simp only [c1, c2, decide_false, Bool.or_self, Bool.false_eq_true, if_false, n1]
  exact ⟨trivial, rfl, rfl⟩

theorem edgeLoop_printed (nV : Nat) (h32 : nV ≤ 2 ^ 32) : ∀ (es : List (Nat × Nat)) (i : Nat) (st : RS) (rest : Str),
    st.is = good (es.flatMap printEdge ++ rest) → st.err = none → (∀ e ∈ es, e.1 < nV ∧ e.2 < nV) →
    (loopN (edgeStep nV) es.length i st).is = good rest ∧
    (loopN (edgeStep nV) es.length i st).edges = es.reverse ++ st.edges ∧
    (loopN (edgeStep nV) es.length i st).err = none ∧ (loopN (edgeStep nV) es.length i st).verts = st.verts ∧
    (loopN (edgeStep nV) es.length i st).faces = st.faces ∧ (loopN (edgeStep nV) es.length i st).cells = st.cells ∧
    (loopN (edgeStep nV) es.length i st).props = st.props ∧ (loopN (edgeStep nV) es.length i st).dV = st.dV ∧
    (loopN (edgeStep nV) es.length i st).dE = st.dE := by
  intro es
  induction es with
  | nil =>
    intro i st rest h he _
    show st.is = good rest ∧ st.edges = [].reverse ++ st.edges ∧ st.err = none ∧ st.verts = st.verts ∧
      st.faces = st.faces ∧ st.cells = st.cells ∧ st.props = st.props ∧ st.dV = st.dV ∧ st.dE = st.dE
    exact ⟨by simpa using h, rfl, he, rfl, rfl, rfl, rfl, rfl, rfl⟩
  | cons e es ih =>
    intro i st rest h he hb
    have h' : st.is = good (printEdge e ++ (es.flatMap printEdge ++ rest)) := by simpa using h
    obtain ⟨b1, b2⟩ := hb e (by simp)
    obtain ⟨s1, s2, s3⟩ := edgeStep_printed nV i st e _ h' b1 b2 h32
    obtain ⟨f1, f2, f3, f4, _, f6, f7, _⟩ := edgeStep_facts nV i st
    have he' : (edgeStep nV i st).err = none := s3.trans he
    simp only [List.length_cons, loopN, he', Option.isSome_none, Bool.false_eq_true, if_false]
    obtain ⟨r1, r2, r3, r4, r5, r6, r7, r8, r9⟩ := ih (i + 1) (edgeStep nV i st) rest s1 he' (fun q hq => hb q (by simp [hq]))
    refine ⟨r1, ?_, r3, r4.trans f1, r5.trans f2, r6.trans f3, r7.trans f4, r8.trans f6, r9.trans f7⟩
    rw [r2, s2]; simp

/-! ### index lines -/

theorem spaced_eq : ∀ (hs : List Nat), hs ≠ [] → cSP :: spaced (hs.map showNat) = spacedNums hs := by
  intro hs
  induction hs with
  | nil => intro h; exact absurd rfl h
  | cons a t ih =>
    intro _
    cases t with
    | nil => simp [spaced, spacedNums]
    | cons b u =>
      have := ih (by simp)
      simp only [List.map_cons, spaced] at this ⊢
      simp only [spacedNums, List.flatMap_cons] at this ⊢
      rw [← this]
      simp

theorem spacedNums_noNL (hs : List Nat) : NoNL (spacedNums hs) := by
  induction hs with
  | nil => exact NoNL.nil
  | cons a t ih =>
    have : spacedNums (a :: t) = (cSP :: showNat a) ++ spacedNums t := by simp [spacedNums]
    rw [this]; exact (NoNL.cons sp_ne_nl (showNat_noNL a)).append ih

theorem spacedNums_lastOK : ∀ (hs : List Nat), hs ≠ [] → LastOK (spacedNums hs) := by
  intro hs
  induction hs with
  | nil => intro h; exact absurd rfl h
  | cons a t ih =>
    intro _
    have e : spacedNums (a :: t) = (cSP :: showNat a) ++ spacedNums t := by simp [spacedNums]
    cases t with
    | nil =>
      have : spacedNums [a] = [cSP] ++ showNat a := by simp [spacedNums]
      rw [this]; exact (showNat_lastOK a).prepend _
    | cons b u => rw [e]; exact (ih (by simp)).prepend _

theorem spacedNums_isEmpty (hs : List Nat) (h : (spacedNums hs).isEmpty = true) : hs = [] := by
  cases hs with
  | nil => rfl
  | cons a t => simp [spacedNums] at h

/-- the valence and the indices of a printed face / cell line -/
theorem idxLine_read (bound lim : Nat) (hs : List Nat) (hb : ∀ h ∈ hs, h < bound ∧ h < 2 ^ 32) (hk : hs.length < 2 ^ 64) :
    natOf (extractInt .u64 (IStream.ofStr (showNat hs.length ++ spacedNums hs))).1 = hs.length ∧
    readIdx bound hs.length (extractInt .u64 (IStream.ofStr (showNat hs.length ++ spacedNums hs))).2 [] = some hs := by
  have x := extractInt_nat .u64 [] (spacedNums hs) hs.length allSpace_nil (spacedNums_stops hs) (fits_u64 _ hk)
  simp only [List.nil_append] at x
  have g : IStream.ofStr (showNat hs.length ++ spacedNums hs) = good (showNat hs.length ++ spacedNums hs) := rfl
  rw [g, x]
  refine ⟨by simp [natOf], ?_⟩
  have := readIdx_spaced bound hs { rest := spacedNums hs, eof := (spacedNums hs).isEmpty, fail := false } [] rfl rfl
    (fun h => spacedNums_isEmpty hs h) hb
  simpa using this

end OVM.Ascii

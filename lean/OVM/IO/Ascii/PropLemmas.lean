import OVM.IO.Ascii.ParseLemmas
import OVM.IO.Ascii.StreamLemmas
/-
  The property loop (proof-only file): what `readProperty` leaves alone, one element per entity in
  every block it stores, and the fuel argument.
-/
namespace OVM.Ascii

theorem gclGo_mu : ∀ (r cur : Str), mu (gclGo r cur).2.2 ≤ r.length := by
  intro r
  induction r with
  | nil => intro cur; simp [gclGo, mu]
  | cons c cs ih =>
    intro cur
    simp only [gclGo]
    split
    · split
      · simp [mu]
      · exact Nat.le_trans (ih _) (by simp)
    · exact Nat.le_trans (ih _) (by simp)

/-- on a good stream `getCleanLine` consumes input (or reaches the end) -/
theorem getCleanLine_mu (s : IStream) (l : Str) (he : s.eof = false) (hf : s.fail = false) :
    mu (getCleanLine s l).2.2 < mu s := by
  unfold getCleanLine
  simp [he, hf]
  have := gclGo_mu s.rest []
  simp only [mu, he] at this ⊢
  simp; omega

theorem getCleanLine_bad (s : IStream) (l : Str) (hf : s.fail = true) :
    (getCleanLine s l).2.2 = { s with fail := true } ∧ (getCleanLine s l).2.1 = trim l := by
  unfold getCleanLine
  simp [hf]

theorem trim_nil : trim [] = [] := by simp [trim]

/-- the entity counts of the state -/
theorem upsert_lengths (ps : List PropRec) (p : PropRec) (cnt : Ent → Nat)
    (h : ∀ q ∈ ps, q.vals.length = cnt q.ent) (hp : p.vals.length = cnt p.ent) :
    ∀ q ∈ upsert ps p, q.vals.length = cnt q.ent := by
  unfold upsert
  split
  · intro q hq
    simp only [List.mem_map] at hq
    obtain ⟨q0, hq0, rfl⟩ := hq
    split
    · exact hp
    · exact h q0 hq0
  · intro q hq
    rcases List.mem_append.mp hq with hq | hq
    · exact h q hq
    · simp at hq; rw [hq]; exact hp

theorem oldVals_length (st : RS) (k : Ent) (vt : VT) (name : Str)
    (h : ∀ q ∈ st.props, q.vals.length = st.count q.ent) : (oldVals st k vt name).length = st.count k := by
  unfold oldVals
  split
  · rename_i hk
    simp only [isPosKey, Bool.and_eq_true, beq_iff_eq] at hk
    rw [hk.1.1]; simp [RS.count]
  · split
    · rename_i p hp
      have hm := List.mem_of_find?_eq_some hp
      have hs := List.find?_some hp
      simp only [sameKey, Bool.and_eq_true, beq_iff_eq] at hs
      rw [h p hm, hs.1.1]
    · simp

theorem zipWith_posOfVal_length (vals : List Val) (vs : List Pos) (h : vals.length = vs.length) :
    (List.zipWith posOfVal vals vs).length = vs.length := by
  simp [h]

theorem count_congr (a b : RS) (hv : a.verts.length = b.verts.length) (he : a.edges = b.edges) (hf : a.faces = b.faces)
    (hc : a.cells = b.cells) (k : Ent) : a.count k = b.count k := by
  cases k <;> simp [RS.count, hv, he, hf, hc]

theorem storeProp_count (st : RS) (k : Ent) (vt : VT) (name : Str) (vals : List Val) (is' : IStream)
    (hv : vals.length = st.count k) (j : Ent) : (storeProp st k vt name vals is').count j = st.count j := by
  refine count_congr (storeProp st k vt name vals is') st ?_ rfl rfl rfl j
  unfold storeProp
  simp only
  split
  · rename_i hk
    simp only [isPosKey, Bool.and_eq_true, beq_iff_eq] at hk
    have : vals.length = st.verts.length := by rw [hv, hk.1.1]; simp [RS.count]
    simp [this]
  · rfl

/-- everything `readProperty` guarantees -/
structure PropStep (st st' : RS) : Prop where
  edges : st'.edges = st.edges
  faces : st'.faces = st.faces
  cells : st'.cells = st.cells
  fault : st'.fault = st.fault
  plen : (∀ q ∈ st.props, q.vals.length = st.count q.ent) →
    (∀ j, st'.count j = st.count j) ∧ ∀ q ∈ st'.props, q.vals.length = st'.count q.ent
  errNoFuel : st.err ≠ some .fuel → st'.err ≠ some .fuel
  progress : st.is.eof = false → ¬ (st'.is.fail = true ∧ st'.is.eof = false) → mu st'.is < mu st.is

theorem readProperty_spec (lim : Nat) (st : RS) : PropStep st (readProperty lim st) := by
  -- the stream after the declaration line
  have hline : st.is.eof = false → ¬ ((getCleanLine st.is []).2.2.fail = true ∧ (getCleanLine st.is []).2.2.eof = false) →
      mu (getCleanLine st.is []).2.2 < mu st.is := by
    intro he hn
    cases hf : st.is.fail with
    | false => exact getCleanLine_mu _ _ he hf
    | true =>
      exfalso; apply hn
      rw [(getCleanLine_bad st.is [] hf).1]
      exact ⟨rfl, he⟩
  unfold readProperty
  simp only
  split
  · exact ⟨rfl, rfl, rfl, rfl, fun h => ⟨fun _ => rfl, h⟩, fun h => h, hline⟩
  · rename_i k vt name hd
    have hne : (getCleanLine st.is []).2.1.isEmpty = false := by
      cases hc : (getCleanLine st.is []).2.1.isEmpty with
      | false => rfl
      | true => rw [hc] at hd; simp at hd
    split
    · exact ⟨rfl, rfl, rfl, rfl, fun h => ⟨fun _ => rfl, h⟩, fun _ => by simp, hline⟩
    · rename_i vals is' hr
      have hs := readVals_spec lim vt _ _ _ _ _ hr
      refine ⟨rfl, rfl, rfl, rfl, ?_, fun h => h, ?_⟩
      · intro hp
        have hl := oldVals_length { st with is := (getCleanLine st.is []).2.2 } k vt name hp
        have hvl : vals.length = RS.count { st with is := (getCleanLine st.is []).2.2 } k := by
          rw [hs.2, hl]; simp
        have hc := storeProp_count { st with is := (getCleanLine st.is []).2.2 } k vt name vals is' hvl
        refine ⟨fun j => hc j, ?_⟩
        intro q hq
        rw [hc]
        exact upsert_lengths st.props _ st.count hp hvl q hq
      · intro he _
        have hf : st.is.fail = false := by
          cases hf : st.is.fail with
          | false => rfl
          | true =>
            have := (getCleanLine_bad st.is [] hf).2
            rw [this, trim_nil] at hne
            simp at hne
        exact Nat.lt_of_le_of_lt hs.1 (getCleanLine_mu _ _ he hf)

def PropsInv (st : RS) : Prop := ∀ q ∈ st.props, q.vals.length = st.count q.ent

structure PropsRun (st st' : RS) : Prop where
  edges : st'.edges = st.edges
  faces : st'.faces = st.faces
  cells : st'.cells = st.cells
  fault : st'.fault = st.fault
  plen : PropsInv st → (∀ j, st'.count j = st.count j) ∧ PropsInv st'

theorem count_fail (st : RS) (e : Err) (j : Ent) : (st.fail e).count j = st.count j := by
  cases j <;> rfl

theorem readProps_run (lim : Nat) : ∀ (fuel : Nat) (st : RS), PropsRun st (readProps lim fuel st) := by
  intro fuel
  induction fuel with
  | zero =>
    intro st
    show PropsRun st (st.fail .fuel)
    exact ⟨rfl, rfl, rfl, rfl, fun h => ⟨fun j => count_fail st _ j, fun q hq => by rw [count_fail]; exact h q hq⟩⟩
  | succ fuel ih =>
    intro st
    simp only [readProps]
    split
    · exact ⟨rfl, rfl, rfl, rfl, fun h => ⟨fun _ => rfl, h⟩⟩
    · have hp := readProperty_spec lim st
      split
      · exact ⟨hp.edges, hp.faces, hp.cells, hp.fault, hp.plen⟩
      · split
        · refine ⟨hp.edges, hp.faces, hp.cells, hp.fault, fun h => ?_⟩
          obtain ⟨c, i⟩ := hp.plen h
          exact ⟨fun j => by rw [count_fail]; exact c j, fun q hq => by rw [count_fail]; exact i q hq⟩
        · have hr := ih (readProperty lim st)
          refine ⟨hr.edges.trans hp.edges, hr.faces.trans hp.faces, hr.cells.trans hp.cells, hr.fault.trans hp.fault, fun h => ?_⟩
          obtain ⟨c, i⟩ := hp.plen h
          obtain ⟨c2, i2⟩ := hr.plen i
          exact ⟨fun j => (c2 j).trans (c j), i2⟩

/-- the fuel `|input| + 2` is never used up: every pass of `while(!_istream.eof())` strictly decreases `mu` -/
theorem readProps_fuel (lim : Nat) : ∀ (fuel : Nat) (st : RS), mu st.is < fuel → st.err ≠ some .fuel →
    (readProps lim fuel st).err ≠ some .fuel := by
  intro fuel
  induction fuel with
  | zero => intro st h; omega
  | succ fuel ih =>
    intro st hm he
    simp only [readProps]
    split
    · exact he
    · rename_i heof
      have hp := readProperty_spec lim st
      split
      · exact hp.errNoFuel he
      · split
        · simp
        · rename_i hbad
          apply ih
          · have heof' : st.is.eof = false := by simpa using heof
            have := hp.progress heof' (by
              intro hb
              apply hbad
              simp [hb.1, hb.2])
            omega
          · exact hp.errNoFuel he

/-- C07's "valid mesh" on the abstract file -/
structure ValidFile (F : AFile) : Prop where
  edges : ∀ e ∈ F.edges, e.1 < F.verts.length ∧ e.2 < F.verts.length
  faces : ∀ f ∈ F.faces, ∀ x ∈ f, x < 2 * F.edges.length
  cells : ∀ c ∈ F.cells, ∀ x ∈ c, x < 2 * F.faces.length
  props : ∀ p ∈ F.props, p.vals.length = F.count p.ent

theorem file_count (st : RS) (j : Ent) : st.file.count j = st.count j := by
  cases j <;> rfl

/-- the three facts at once, on the reader state -/
theorem readAll_facts (cfg : Cfg) (hx : HexOK cfg) (input : Str) :
    (readAll cfg input).fault = false ∧ (readAll cfg input).err ≠ some .fuel ∧
    ((readAll cfg input).err = none → ValidFile (readAll cfg input).file) := by
  have h1 := sectHeader_S1 cfg input
  have n1 := sectHeader_nofuel cfg input
  unfold readAll
  simp only
  split
  · rename_i he
    exact ⟨h1.fault, n1, fun h => by rw [h] at he; simp at he⟩
  · rename_i he
    have he' : (sectHeader cfg input).err = none := by simpa using he
    have h2 := sectEdges_S2 cfg _ h1 he'
    have n2 := sectEdges_nofuel cfg _ n1
    split
    · rename_i he2
      exact ⟨h2.fault, n2, fun h => by rw [h] at he2; simp at he2⟩
    · rename_i he2
      have he2' : (sectEdges cfg (sectHeader cfg input)).err = none := by simpa using he2
      have h3 := sectFaces_S3 cfg _ h2 he2'
      have n3 := sectFaces_nofuel cfg _ n2
      split
      · rename_i he3
        exact ⟨h3.fault, n3, fun h => by rw [h] at he3; simp at he3⟩
      · rename_i he3
        have he3' : (sectFaces cfg (sectEdges cfg (sectHeader cfg input))).err = none := by simpa using he3
        have h4 := sectCells_S4 cfg hx _ h3 he3'
        have n4 := sectCells_nofuel cfg _ n3
        split
        · rename_i he4
          exact ⟨h4.fault, n4, fun h => by rw [h] at he4; simp at he4⟩
        · rename_i he4
          have he4' : (sectCells cfg (sectFaces cfg (sectEdges cfg (sectHeader cfg input)))).err = none := by simpa using he4
          generalize hst : sectCells cfg (sectFaces cfg (sectEdges cfg (sectHeader cfg input))) = st at *
          have hr := readProps_run cfg.lim (st.is.rest.length + 2) st
          have hf := readProps_fuel cfg.lim (st.is.rest.length + 2) st
            (by simp only [mu]; split <;> omega) (by rw [he4']; simp)
          obtain ⟨o1, o2, o3⟩ := h4.ok he4'
          have hinv0 : PropsInv st := by intro q hq; rw [h4.props] at hq; simp at hq
          obtain ⟨hc, hi⟩ := hr.plen hinv0
          refine ⟨hr.fault.trans h4.fault, hf, fun _ => ?_⟩
          have hvl : (readProps cfg.lim (st.is.rest.length + 2) st).verts.length = st.verts.length := hc .v
          refine ⟨?_, ?_, ?_, ?_⟩
          · show ∀ e ∈ (readProps cfg.lim (st.is.rest.length + 2) st).edges, _
            rw [hr.edges]
            intro e he
            show e.1 < (readProps cfg.lim (st.is.rest.length + 2) st).verts.length ∧ e.2 < (readProps cfg.lim (st.is.rest.length + 2) st).verts.length
            rw [hvl]; exact o1 e he
          · show ∀ f ∈ (readProps cfg.lim (st.is.rest.length + 2) st).faces, ∀ x ∈ f,
              x < 2 * (readProps cfg.lim (st.is.rest.length + 2) st).edges.length
            rw [hr.faces, hr.edges]; exact o2
          · show ∀ c ∈ (readProps cfg.lim (st.is.rest.length + 2) st).cells, ∀ x ∈ c,
              x < 2 * (readProps cfg.lim (st.is.rest.length + 2) st).faces.length
            rw [hr.cells, hr.faces]; exact o3
          · intro p hp
            rw [file_count]
            exact hi p hp

end OVM.Ascii

import OVM.IO.Ascii.RtSpec
/-
  Round trip, part 6: well-formedness of property values (C06's domain on the value level).
  A value is well formed for its type when the reader reads its printed form back verbatim:
  * integers (and handles) in the range of their C type (`FitsInt`), `bool` 0/1
  * `char` / `unsigned char`: not a white-space character (`is >> c` skips white space: a property
    holding ' ' or '\n' does NOT survive the format — finding A1-char-whitespace)
  * `float` / `double`: a floating literal that `operator>>` reads back verbatim (`FloatTok`)
  * `string`: any bytes (written `len:bytes`, read with `istream::read`, so blanks, newlines and '#'
    inside the string survive), length within the allocation limit
  * containers: sizes within the allocation limit; `map_heh_int`: keys strictly increasing
    (a `std::map` iterates in key order, so that is what a writer produces)
-/
namespace OVM.Ascii

def WFAtom (lim : Nat) (s : Sc) : Atom → Prop
  | .int i => ∃ ty, s.intTy = some ty ∧ FitsInt ty i
  | .chr c => (s = .chr ∨ s = .uchr) ∧ isSpace c = false
  | .flt t => (s = .f32 ∧ FloatTok .f32 t) ∨ (s = .f64 ∧ FloatTok .f64 t)
  | .str b => s = .str ∧ b.length ≤ lim
  | .unk => False

def WFVal (lim : Nat) : VT → Val → Prop
  | .sc s, .sc a => WFAtom lim s a
  | .tup n s, .tup as => as.length = n ∧ as ≠ [] ∧ ∀ a ∈ as, WFAtom lim s a
  | .vec s, .vec as => as.length ≤ lim ∧ ∀ a ∈ as, WFAtom lim s a
  | .vecvec s, .vecvec ass => ass.length ≤ lim ∧ ∀ as ∈ ass, as.length ≤ lim ∧ ∀ a ∈ as, WFAtom lim s a
  | .map, .map kvs => kvs.length < 2 ^ 64 ∧ kvs.Pairwise (fun a b => a.1 < b.1) ∧
      ∀ kv ∈ kvs, FitsInt .i32 kv.1 ∧ FitsInt .i32 kv.2
  | _, _ => False

/-- a run of line ends (what separates the printed values of a block) -/
def AllNL (ws : Str) : Prop := ∀ c ∈ ws, c = cNL

theorem AllNL.allSpace {ws : Str} (h : AllNL ws) : AllSpace ws := by
  intro c hc; rw [h c hc]; decide

theorem AllNL.nil : AllNL [] := fun _ h => by simp at h
theorem AllNL.append {a b : Str} (ha : AllNL a) (hb : AllNL b) : AllNL (a ++ b) := by
  intro c hc; rcases List.mem_append.mp hc with h | h
  · exact ha c h
  · exact hb c h
theorem AllNL.single : AllNL [cNL] := fun c h => by simpa using h

end OVM.Ascii

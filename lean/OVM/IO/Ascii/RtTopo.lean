import OVM.IO.Ascii.RtLines
/-
  Round trip, part 3 (proof-only file): what the reader extracts from each kind of printed line.
-/
namespace OVM.Ascii

theorem ofStr_eq_good (l : Str) : IStream.ofStr l = good l := rfl

theorem space_isSpace : isSpace cSP = true := by decide
theorem allSpace_nil : AllSpace [] := fun _ h => by simp at h
theorem allSpace_sp : AllSpace [cSP] := fun c h => by simp at h; subst h; exact space_isSpace

/-! ### keyword and count lines -/

theorem kwVertices (old : Str) : (readWordUpper (IStream.ofStr (kw "Vertices")) old).1 = kVERTICES := by rfl
theorem kwEdges (old : Str) : (readWordUpper (IStream.ofStr (kw "Edges")) old).1 = kEDGES := by rfl
theorem kwFaces (old : Str) : (readWordUpper (IStream.ofStr (kw "Faces")) old).1 = kFACES := by rfl
theorem kwPolyhedra (old : Str) : (readWordUpper (IStream.ofStr (kw "Polyhedra")) old).1 = kPOLYHEDRA := by rfl

theorem fits_u64 (n : Nat) (h : n < 2 ^ 64) : finishInt .u64 false (some n) = ((n : Int), false) := by
  simp only [finishInt, finishUnsigned]
  have : ¬ n > 2 ^ 64 - 1 := by omega
  simp [this]

theorem fits_u32 (n : Nat) (h : n < 2 ^ 32) : finishInt .u32 false (some n) = ((n : Int), false) := by
  simp only [finishInt, finishUnsigned]
  have : ¬ n > 2 ^ 32 - 1 := by omega
  simp [this]

theorem readCount_showNat (n : Nat) (h : n < 2 ^ 64) : readCount (showNat n) = n := by
  unfold readCount
  have := extractInt_nat .u64 [] [] n allSpace_nil (stops_nil _) (fits_u64 n h)
  simp only [List.nil_append, List.append_nil] at this
  rw [ofStr_eq_good, this]
  simp [natOf]

/-! ### vertex lines -/

theorem floatStop_sp : FloatStop cSP := floatStop_space cSP space_isSpace

theorem readPos_line (v : Pos) (a b c : Str) (ha : FloatTok .f64 a) (hb : FloatTok .f64 b) (hc : FloatTok .f64 c) :
    readPos v (a ++ cSP :: b ++ cSP :: c) = (a, b, c) := by
  unfold readPos
  have e1 := extractFloat_tok .f64 [] a (cSP :: b ++ cSP :: c) allSpace_nil ha (Or.inr ⟨cSP, _, rfl, floatStop_sp⟩)
  simp only [List.nil_append] at e1
  have h1 : IStream.ofStr (a ++ cSP :: b ++ cSP :: c) = good (a ++ (cSP :: b ++ cSP :: c)) := by
    simp [IStream.ofStr, good]
  rw [h1, e1]
  have e2 := extractFloat_tok .f64 [cSP] b (cSP :: c) allSpace_sp hb (Or.inr ⟨cSP, _, rfl, floatStop_sp⟩)
  have h2 : ({ rest := cSP :: b ++ cSP :: c, eof := (cSP :: b ++ cSP :: c).isEmpty, fail := false } : IStream) =
      good ([cSP] ++ b ++ cSP :: c) := by simp [good]
  simp only
  rw [h2, e2]
  have e3 := extractFloat_tok .f64 [cSP] c [] allSpace_sp hc (Or.inl rfl)
  have h3 : ({ rest := cSP :: c, eof := (cSP :: c).isEmpty, fail := false } : IStream) = good ([cSP] ++ c ++ []) := by
    simp [good]
  simp only
  rw [h3, e3]
  simp

/-! ### index lists -/

def spacedNums (hs : List Nat) : Str := hs.flatMap (fun h => cSP :: showNat h)

theorem spacedNums_stops (hs : List Nat) : Stops isDigit (spacedNums hs) := by
  cases hs with
  | nil => exact Or.inl rfl
  | cons h t => exact Or.inr ⟨cSP, showNat h ++ spacedNums t, by simp [spacedNums], by decide⟩

theorem readIdx_spaced (b : Nat) : ∀ (hs : List Nat) (s : IStream) (acc : List Nat),
    s.rest = spacedNums hs → s.fail = false → (s.eof = true → hs = []) →
    (∀ h ∈ hs, h < b ∧ h < 2 ^ 32) →
    readIdx b hs.length s acc = some (acc.reverse ++ hs) := by
  intro hs
  induction hs with
  | nil => intro s acc _ _ _ _; simp [readIdx]
  | cons h t ih =>
    intro s acc hr hf he hb
    have heof : s.eof = false := by
      cases hq : s.eof with
      | false => rfl
      | true => exact absurd (he hq) (by simp)
    have hs : s = good ([cSP] ++ showNat h ++ spacedNums t) := by
      cases s
      simp only [good] at *
      simp_all [spacedNums]
    obtain ⟨hlt, h32⟩ := hb h (by simp)
    have e := extractInt_nat .u32 [cSP] (spacedNums t) h allSpace_sp (spacedNums_stops t) (fits_u32 h h32)
    simp only [List.length_cons, readIdx]
    rw [hs, e]
    simp only [natOf, Option.getD_some, Int.toNat_natCast]
    have : ¬ b ≤ h := by omega
    simp only [this, if_false]
    rw [ih _ (h :: acc) rfl rfl (by
      intro hq
      simp only [List.isEmpty_iff] at hq
      cases t with
      | nil => rfl
      | cons x xs => simp [spacedNums] at hq) (fun x hx => hb x (by simp [hx]))]
    simp

end OVM.Ascii

import OVM.IO.Ascii.Parse
import OVM.Base.Bits
/-
  Invariants of the reader model (proof-only file): handle bounds established by the range checks,
  frame conditions of every loop, lengths of property blocks, and the input-consuming measure of the
  property loop.  Used by `OVM/Props/C07Ascii.lean`.
-/
namespace OVM.Ascii

/-! ### `readIdx` -/

theorem readIdx_bound (b : Nat) : ∀ (k : Nat) (ss : IStream) (acc l : List Nat),
    readIdx b k ss acc = some l → (∀ x ∈ acc, x < b) → ∀ x ∈ l, x < b := by
  intro k
  induction k with
  | zero =>
    intro ss acc l h hacc x hx
    simp [readIdx] at h
    subst h
    exact hacc x (by simpa using hx)
  | succ k ih =>
    intro ss acc l h hacc
    simp only [readIdx] at h
    split at h
    · simp at h
    · rename_i hb
      refine ih _ _ _ h ?_
      intro x hx
      rcases List.mem_cons.mp hx with rfl | hx
      · omega
      · exact hacc x hx

theorem readIdx_length (b : Nat) : ∀ (k : Nat) (ss : IStream) (acc l : List Nat),
    readIdx b k ss acc = some l → l.length = acc.length + k := by
  intro k
  induction k with
  | zero => intro ss acc l h; simp [readIdx] at h; subst h; simp
  | succ k ih =>
    intro ss acc l h
    simp only [readIdx] at h
    split at h
    · simp at h
    · have := ih _ _ _ h
      simp at this; omega

/-! ### frame facts of `nextLine` / `fail` -/

@[simp] theorem nextLine_verts (st : RS) : st.nextLine.verts = st.verts := rfl
@[simp] theorem nextLine_edges (st : RS) : st.nextLine.edges = st.edges := rfl
@[simp] theorem nextLine_faces (st : RS) : st.nextLine.faces = st.faces := rfl
@[simp] theorem nextLine_cells (st : RS) : st.nextLine.cells = st.cells := rfl
@[simp] theorem nextLine_props (st : RS) : st.nextLine.props = st.props := rfl
@[simp] theorem nextLine_fault (st : RS) : st.nextLine.fault = st.fault := rfl
@[simp] theorem nextLine_err (st : RS) : st.nextLine.err = st.err := rfl
@[simp] theorem nextLine_dV (st : RS) : st.nextLine.dV = st.dV := rfl
@[simp] theorem nextLine_dE (st : RS) : st.nextLine.dE = st.dE := rfl
@[simp] theorem nextLine_dF (st : RS) : st.nextLine.dF = st.dF := rfl
@[simp] theorem fail_verts (st : RS) (e : Err) : (st.fail e).verts = st.verts := rfl
@[simp] theorem fail_edges (st : RS) (e : Err) : (st.fail e).edges = st.edges := rfl
@[simp] theorem fail_faces (st : RS) (e : Err) : (st.fail e).faces = st.faces := rfl
@[simp] theorem fail_cells (st : RS) (e : Err) : (st.fail e).cells = st.cells := rfl
@[simp] theorem fail_props (st : RS) (e : Err) : (st.fail e).props = st.props := rfl
@[simp] theorem fail_fault (st : RS) (e : Err) : (st.fail e).fault = st.fault := rfl
@[simp] theorem fail_err (st : RS) (e : Err) : (st.fail e).err = some e := rfl
@[simp] theorem fail_dV (st : RS) (e : Err) : (st.fail e).dV = st.dV := rfl
@[simp] theorem fail_dE (st : RS) (e : Err) : (st.fail e).dE = st.dE := rfl
@[simp] theorem fail_dF (st : RS) (e : Err) : (st.fail e).dF = st.dF := rfl
@[simp] theorem fail_is (st : RS) (e : Err) : (st.fail e).is = st.is := rfl

/-! ### the counted loop -/

theorem loopN_inv (step : Nat → RS → RS) (P : RS → Prop) (hstep : ∀ i st, P st → P (step i st)) :
    ∀ (n i : Nat) (st : RS), P st → P (loopN step n i st) := by
  intro n
  induction n with
  | zero => intro i st h; exact h
  | succ n ih =>
    intro i st h
    simp only [loopN]
    split
    · exact hstep i st h
    · exact ih _ _ (hstep i st h)

/-- a counter that every error-free pass of the body advances by one -/
theorem loopN_count (step : Nat → RS → RS) (cnt : RS → Nat)
    (hstep : ∀ i st, (step i st).err = none → cnt (step i st) = cnt st + 1) :
    ∀ (n i : Nat) (st : RS), (loopN step n i st).err = none → cnt (loopN step n i st) = cnt st + n := by
  intro n
  induction n with
  | zero => intro i st _; rfl
  | succ n ih =>
    intro i st h
    simp only [loopN] at h ⊢
    split
    · rename_i he
      rw [if_pos he] at h
      rw [h] at he; simp at he
    · rename_i he
      rw [if_neg he] at h
      rw [ih _ _ h, hstep i st (by simpa using he)]
      omega

/-! ### kernel decisions -/

/-- the assumption on the hex ordering step: it hands on members of the list it was given -/
def HexOK (cfg : Cfg) : Prop := ∀ faces hfs l, cfg.hexOrder faces hfs = some l → ∀ x ∈ l, x ∈ hfs

theorem faceDec_accept {cfg : Cfg} {edges : List (Nat × Nat)} {hes l : List Nat}
    (h : faceDec cfg edges hes = .accept l) : l = hes := by
  unfold faceDec at h
  split at h <;> try (simp at h)
  split at h <;> try (simp at h)
  split at h <;> simp at h
  exact h.symm

theorem faceDec_no_fault {cfg : Cfg} {edges : List (Nat × Nat)} {hes : List Nat}
    (hb : ∀ x ∈ hes, x < 2 * edges.length) : faceDec cfg edges hes ≠ .fault := by
  unfold faceDec
  split
  · simp
  · split
    · rename_i _ h
      simp only [List.any_eq_true, decide_eq_true_eq] at h
      obtain ⟨x, hx, hle⟩ := h
      have := hb x hx
      omega
    · split <;> simp

theorem cellDecBase_accept {cfg : Cfg} {faces : List (List Nat)} {hfs l : List Nat}
    (h : cellDecBase cfg faces hfs = .accept l) : l = hfs := by
  unfold cellDecBase at h
  split at h <;> try (simp at h)
  split at h <;> simp at h
  exact h.symm

theorem cellDecBase_no_fault {cfg : Cfg} {faces : List (List Nat)} {hfs : List Nat}
    (hb : ∀ x ∈ hfs, x < 2 * faces.length) : cellDecBase cfg faces hfs ≠ .fault := by
  unfold cellDecBase
  split
  · rename_i h
    simp only [List.any_eq_true, decide_eq_true_eq] at h
    obtain ⟨x, hx, hle⟩ := h
    have := hb x hx
    omega
  · split <;> simp

theorem any_oob_false {faces : List (List Nat)} {hfs : List Nat} (hb : ∀ x ∈ hfs, x < 2 * faces.length) :
    (hfs.any fun h => decide (faces.length ≤ h / 2)) = false := by
  rw [List.any_eq_false]
  intro x hx
  have := hb x hx
  simp; omega

/-- every halfedge of a stored face designates an existing edge (what `faceDec` checked before the face was
    stored): the halfedges of any halfface — either orientation — do so too -/
theorem hfHalfedges_bound {edges : List (Nat × Nat)} {faces : List (List Nat)}
    (hfe : ∀ f ∈ faces, ∀ x ∈ f, x < 2 * edges.length) (hf : Nat) : ∀ x ∈ hfHalfedges faces hf, x / 2 < edges.length := by
  have hmem : ∀ y ∈ faces.getD (hf / 2) [], y < 2 * edges.length := by
    intro y hy
    rw [List.getD_eq_getElem?_getD] at hy
    cases hq : faces[hf / 2]? with
    | none => rw [hq] at hy; simp at hy
    | some f =>
      rw [hq] at hy
      exact hfe f (List.mem_of_getElem? hq) y (by simpa using hy)
  intro x hx
  unfold hfHalfedges at hx
  simp only at hx
  split at hx
  · have := hmem x hx; omega
  · simp only [List.map_reverse, List.mem_reverse, List.mem_map] at hx
    obtain ⟨y, hy, rfl⟩ := hx
    rw [xor_one_div]
    have := hmem y hy; omega

/-- the guard in front of the vertex-count test of the tet/hex `add_cell` is never taken in the reader:
    the lemma C07 needs for the new `.fault` exit -/
theorem any_he_oob_false {edges : List (Nat × Nat)} {faces : List (List Nat)} (hfs : List Nat)
    (hfe : ∀ f ∈ faces, ∀ x ∈ f, x < 2 * edges.length) :
    ((hfs.flatMap (hfHalfedges faces)).any fun h => decide (edges.length ≤ h / 2)) = false := by
  rw [List.any_eq_false]
  intro x hx
  obtain ⟨hf, _, hxm⟩ := List.mem_flatMap.mp hx
  have := hfHalfedges_bound hfe hf x hxm
  simp; omega

theorem cellDec_accept {cfg : Cfg} (hk : HexOK cfg) {edges : List (Nat × Nat)} {faces : List (List Nat)} {hfs l : List Nat}
    (h : cellDec cfg edges faces hfs = .accept l) : ∀ x ∈ l, x ∈ hfs := by
  unfold cellDec at h
  split at h
  · rw [cellDecBase_accept h]; exact fun x hx => hx
  · split at h <;> try (simp at h)
    split at h <;> try (simp at h)
    split at h <;> try (simp at h)
    split at h <;> try (simp at h)
    split at h <;> try (simp at h)
    rw [cellDecBase_accept h]; exact fun x hx => hx
  · split at h <;> try (simp at h)
    split at h <;> try (simp at h)
    split at h <;> try (simp at h)
    split at h <;> try (simp at h)
    split at h <;> try (simp at h)
    split at h
    · rw [cellDecBase_accept h]; exact fun x hx => hx
    · split at h
      · simp at h
      · rename_i l' hl'
        split at h <;> try (simp at h)
        split at h <;> try (simp at h)
        rw [cellDecBase_accept h]
        exact hk _ _ _ hl'

theorem cellDec_no_fault {cfg : Cfg} (hk : HexOK cfg) {edges : List (Nat × Nat)} {faces : List (List Nat)} {hfs : List Nat}
    (hb : ∀ x ∈ hfs, x < 2 * faces.length) (hfe : ∀ f ∈ faces, ∀ x ∈ f, x < 2 * edges.length) :
    cellDec cfg edges faces hfs ≠ .fault := by
  have hoob := any_oob_false hb
  have hhe := any_he_oob_false hfs hfe
  unfold cellDec
  split
  · exact cellDecBase_no_fault hb
  · split
    · simp
    · rw [hoob]; simp only [Bool.false_eq_true, if_false]
      split
      · simp
      · rw [hhe]; simp only [Bool.false_eq_true, if_false]
        split
        · simp
        · exact cellDecBase_no_fault hb
  · split
    · simp
    · rw [hoob]; simp only [Bool.false_eq_true, if_false]
      split
      · simp
      · rw [hhe]; simp only [Bool.false_eq_true, if_false]
        split
        · simp
        · split
          · exact cellDecBase_no_fault hb
          · split
            · simp
            · rename_i l' hl'
              -- the range test on the reordered list: `l' ⊆ hfs`, and `hfs` was range-checked above
              have hb' : ∀ x ∈ l', x < 2 * faces.length := fun x hx => hb x (hk _ _ _ hl' x hx)
              rw [any_oob_false hb']; simp only [Bool.false_eq_true, if_false]
              split
              · simp
              · exact cellDecBase_no_fault hb'

/-! ### loop bodies -/

/-- the fields a loop body over one section must not touch, relative to a reference state `r` -/
structure Keeps (r st : RS) : Prop where
  props : st.props = r.props
  dV : st.dV = r.dV
  dE : st.dE = r.dE
  dF : st.dF = r.dF

theorem vertStep_facts (i : Nat) (st : RS) :
    (vertStep i st).edges = st.edges ∧ (vertStep i st).faces = st.faces ∧ (vertStep i st).cells = st.cells ∧
    (vertStep i st).props = st.props ∧ (vertStep i st).fault = st.fault ∧ (vertStep i st).err = st.err ∧
    (vertStep i st).dV = st.dV ∧ (vertStep i st).dE = st.dE ∧ (vertStep i st).dF = st.dF ∧
    (vertStep i st).verts.length = st.verts.length + 1 := by
  simp [vertStep]

theorem edgeStep_facts (nV i : Nat) (st : RS) :
    (edgeStep nV i st).verts = st.verts ∧ (edgeStep nV i st).faces = st.faces ∧ (edgeStep nV i st).cells = st.cells ∧
    (edgeStep nV i st).props = st.props ∧ (edgeStep nV i st).fault = st.fault ∧
    (edgeStep nV i st).dV = st.dV ∧ (edgeStep nV i st).dE = st.dE ∧ (edgeStep nV i st).dF = st.dF := by
  unfold edgeStep
  simp only
  split <;> simp

theorem edgeStep_mem (nV i : Nat) (st : RS) (h : ∀ e ∈ st.edges, e.1 < nV ∧ e.2 < nV) :
    ∀ e ∈ (edgeStep nV i st).edges, e.1 < nV ∧ e.2 < nV := by
  unfold edgeStep
  simp only
  split
  · simpa using h
  · rename_i hb
    simp only [Bool.or_eq_true, decide_eq_true_eq, not_or, Nat.not_le] at hb
    intro e he
    rcases List.mem_cons.mp he with rfl | he
    · exact hb
    · exact h e he

theorem edgeStep_len (nV i : Nat) (st : RS) (h : (edgeStep nV i st).err = none) :
    (edgeStep nV i st).edges.length = st.edges.length + 1 := by
  unfold edgeStep at h ⊢
  simp only at h ⊢
  split
  · rename_i hb; rw [if_pos hb] at h; simp at h
  · simp

theorem faceStep_facts (cfg : Cfg) (edges : List (Nat × Nat)) (nHE i : Nat) (st : RS) :
    (faceStep cfg edges nHE i st).verts = st.verts ∧ (faceStep cfg edges nHE i st).edges = st.edges ∧
    (faceStep cfg edges nHE i st).cells = st.cells ∧ (faceStep cfg edges nHE i st).props = st.props ∧
    (faceStep cfg edges nHE i st).dV = st.dV ∧ (faceStep cfg edges nHE i st).dE = st.dE ∧
    (faceStep cfg edges nHE i st).dF = st.dF := by
  unfold faceStep
  simp only
  split
  · simp
  · split
    · simp
    · split
      · simp
      · split <;> simp

theorem faceStep_fault (cfg : Cfg) (edges : List (Nat × Nat)) (nHE i : Nat) (st : RS)
    (hn : nHE ≤ 2 * edges.length) : (faceStep cfg edges nHE i st).fault = st.fault := by
  unfold faceStep
  simp only
  split
  · simp
  · split
    · simp
    · split
      · simp
      · rename_i hes hidx
        have hb := readIdx_bound nHE _ _ [] hes hidx (by simp)
        split
        · simp
        · simp
        · rename_i hd
          exact absurd hd (faceDec_no_fault (fun x hx => Nat.lt_of_lt_of_le (hb x hx) hn))

theorem faceStep_mem (cfg : Cfg) (edges : List (Nat × Nat)) (nHE i : Nat) (st : RS)
    (h : ∀ f ∈ st.faces, ∀ x ∈ f, x < nHE) : ∀ f ∈ (faceStep cfg edges nHE i st).faces, ∀ x ∈ f, x < nHE := by
  unfold faceStep
  simp only
  split
  · simpa using h
  · split
    · simpa using h
    · split
      · simpa using h
      · rename_i hes hidx
        have hb := readIdx_bound nHE _ _ [] hes hidx (by simp)
        split
        · rename_i l hd
          intro f hf
          rcases List.mem_cons.mp hf with rfl | hf
          · rw [faceDec_accept hd]; exact hb
          · exact h f hf
        · simpa using h
        · simpa using h

theorem faceStep_len (cfg : Cfg) (edges : List (Nat × Nat)) (nHE i : Nat) (st : RS)
    (h : (faceStep cfg edges nHE i st).err = none) :
    (faceStep cfg edges nHE i st).faces.length = st.faces.length + 1 := by
  unfold faceStep at h ⊢
  simp only at h ⊢
  split
  · rename_i c; rw [if_pos c] at h; simp at h
  · rename_i c1
    rw [if_neg c1] at h
    split
    · rename_i c; rw [if_pos c] at h; simp at h
    · rename_i c2
      rw [if_neg c2] at h
      split
      · rename_i hidx; rw [hidx] at h; simp at h
      · rename_i hes hidx
        rw [hidx] at h
        simp only at h
        split
        · simp
        · rename_i hd; rw [hd] at h; simp at h
        · rename_i hd; rw [hd] at h; simp at h

theorem cellStep_facts (cfg : Cfg) (edges : List (Nat × Nat)) (faces : List (List Nat)) (nHF i : Nat) (st : RS) :
    (cellStep cfg edges faces nHF i st).verts = st.verts ∧ (cellStep cfg edges faces nHF i st).edges = st.edges ∧
    (cellStep cfg edges faces nHF i st).faces = st.faces ∧ (cellStep cfg edges faces nHF i st).props = st.props ∧
    (cellStep cfg edges faces nHF i st).dV = st.dV ∧ (cellStep cfg edges faces nHF i st).dE = st.dE ∧
    (cellStep cfg edges faces nHF i st).dF = st.dF := by
  unfold cellStep
  simp only
  split
  · simp
  · split
    · simp
    · split <;> simp

theorem cellStep_fault (cfg : Cfg) (hk : HexOK cfg) (edges : List (Nat × Nat)) (faces : List (List Nat)) (nHF i : Nat) (st : RS)
    (hn : nHF ≤ 2 * faces.length) (hfe : ∀ f ∈ faces, ∀ x ∈ f, x < 2 * edges.length) : (cellStep cfg edges faces nHF i st).fault = st.fault := by
  unfold cellStep
  simp only
  split
  · simp
  · split
    · simp
    · rename_i hfs hidx
      have hb := readIdx_bound nHF _ _ [] hfs hidx (by simp)
      split
      · simp
      · simp
      · rename_i hd
        exact absurd hd (cellDec_no_fault hk (fun x hx => Nat.lt_of_lt_of_le (hb x hx) hn) hfe)

theorem cellStep_mem (cfg : Cfg) (hk : HexOK cfg) (edges : List (Nat × Nat)) (faces : List (List Nat)) (nHF i : Nat) (st : RS)
    (h : ∀ c ∈ st.cells, ∀ x ∈ c, x < nHF) : ∀ c ∈ (cellStep cfg edges faces nHF i st).cells, ∀ x ∈ c, x < nHF := by
  unfold cellStep
  simp only
  split
  · simpa using h
  · split
    · simpa using h
    · rename_i hfs hidx
      have hb := readIdx_bound nHF _ _ [] hfs hidx (by simp)
      split
      · rename_i l hd
        intro c hc
        rcases List.mem_cons.mp hc with rfl | hc
        · intro x hx; exact hb x (cellDec_accept hk hd x hx)
        · exact h c hc
      · simpa using h
      · simpa using h

theorem cellStep_len (cfg : Cfg) (edges : List (Nat × Nat)) (faces : List (List Nat)) (nHF i : Nat) (st : RS)
    (h : (cellStep cfg edges faces nHF i st).err = none) :
    (cellStep cfg edges faces nHF i st).cells.length = st.cells.length + 1 := by
  unfold cellStep at h ⊢
  simp only at h ⊢
  split
  · rename_i c; rw [if_pos c] at h; simp at h
  · rename_i c1
    rw [if_neg c1] at h
    split
    · rename_i hidx; rw [hidx] at h; simp at h
    · rename_i hfs hidx
      rw [hidx] at h
      simp only at h
      split
      · simp
      · rename_i hd; rw [hd] at h; simp at h
      · rename_i hd; rw [hd] at h; simp at h

/-! ### sections -/

/-- everything except the stream, the scratch variables and `err` coincides -/
structure Same (a b : RS) : Prop where
  verts : a.verts = b.verts
  edges : a.edges = b.edges
  faces : a.faces = b.faces
  cells : a.cells = b.cells
  props : a.props = b.props
  fault : a.fault = b.fault
  dV : a.dV = b.dV
  dE : a.dE = b.dE
  dF : a.dF = b.dF

theorem Same.rfl' (a : RS) : Same a a := ⟨rfl, rfl, rfl, rfl, rfl, rfl, rfl, rfl, rfl⟩

theorem expectKeyword_same (kwd : Str) (e : Err) (st : RS) : Same (expectKeyword kwd e st) st := by
  unfold expectKeyword
  simp only
  split <;> exact ⟨rfl, rfl, rfl, rfl, rfl, rfl, rfl, rfl, rfl⟩

theorem countLine_same (lim : Nat) (st : RS) : Same (countLine lim st).1 st := by
  unfold countLine
  simp only
  split <;> exact ⟨rfl, rfl, rfl, rfl, rfl, rfl, rfl, rfl, rfl⟩

theorem headerPrefix_init (input : Str) :
    (headerPrefix input).verts = [] ∧ (headerPrefix input).edges = [] ∧ (headerPrefix input).faces = [] ∧
    (headerPrefix input).cells = [] ∧ (headerPrefix input).props = [] ∧ (headerPrefix input).fault = false := by
  unfold headerPrefix
  simp only
  split
  · exact ⟨rfl, rfl, rfl, rfl, rfl, rfl⟩
  · split <;> split <;> exact ⟨rfl, rfl, rfl, rfl, rfl, rfl⟩

structure S1 (st : RS) : Prop where
  fault : st.fault = false
  edges : st.edges = []
  faces : st.faces = []
  cells : st.cells = []
  props : st.props = []
  verts : st.err = none → st.verts.length = st.dV

theorem vertLoop_S1 (n : Nat) (st0 : RS) (he : st0.edges = []) (hf : st0.faces = []) (hc : st0.cells = [])
    (hp : st0.props = []) (hfa : st0.fault = false) (hv : st0.verts = []) (hd : st0.dV = n) :
    S1 { loopN vertStep n 0 st0 with verts := (loopN vertStep n 0 st0).verts.reverse } := by
  have hinv := loopN_inv vertStep
    (fun st => st.edges = [] ∧ st.faces = [] ∧ st.cells = [] ∧ st.props = [] ∧ st.fault = false ∧ st.dV = n)
    (fun i st h => by
      obtain ⟨a1, a2, a3, a4, a5, _, a7, _, _, _⟩ := vertStep_facts i st
      exact ⟨a1.trans h.1, a2.trans h.2.1, a3.trans h.2.2.1, a4.trans h.2.2.2.1, a5.trans h.2.2.2.2.1, a7.trans h.2.2.2.2.2⟩)
    n 0 st0 ⟨he, hf, hc, hp, hfa, hd⟩
  have hcnt := loopN_count vertStep (fun st => st.verts.length)
    (fun i st _ => (vertStep_facts i st).2.2.2.2.2.2.2.2.2) n 0 st0
  refine ⟨hinv.2.2.2.2.1, hinv.1, hinv.2.1, hinv.2.2.1, hinv.2.2.2.1, ?_⟩
  intro herr
  have h2 := hcnt herr
  simp only [List.length_reverse]
  rw [h2, hv, hinv.2.2.2.2.2]
  simp

theorem sectHeader_S1 (cfg : Cfg) (input : Str) : S1 (sectHeader cfg input) := by
  obtain ⟨hv, he, hf, hc, hp, hfa⟩ := headerPrefix_init input
  unfold sectHeader
  simp only
  split
  · rename_i herr
    exact ⟨hfa, he, hf, hc, hp, fun h => by rw [h] at herr; simp at herr⟩
  · have hs := countLine_same cfg.lim (headerPrefix input)
    split
    · rename_i herr
      exact ⟨hs.fault.trans hfa, hs.edges.trans he, hs.faces.trans hf, hs.cells.trans hc, hs.props.trans hp,
        fun h => by rw [h] at herr; simp at herr⟩
    · exact vertLoop_S1 _ _ (hs.edges.trans he) (hs.faces.trans hf) (hs.cells.trans hc) (hs.props.trans hp)
        (hs.fault.trans hfa) (hs.verts.trans hv) rfl

structure S2 (st : RS) : Prop where
  fault : st.fault = false
  faces : st.faces = []
  cells : st.cells = []
  props : st.props = []
  ok : st.err = none → st.verts.length = st.dV ∧ st.edges.length = st.dE ∧ ∀ e ∈ st.edges, e.1 < st.dV ∧ e.2 < st.dV

theorem edgeLoop_S2 (n nV : Nat) (st0 : RS) (hf : st0.faces = []) (hc : st0.cells = []) (hp : st0.props = [])
    (hfa : st0.fault = false) (he : st0.edges = []) (hv : st0.verts.length = st0.dV) (hd : st0.dE = n)
    (hnV : st0.dV = nV) :
    S2 { loopN (edgeStep nV) n 0 st0 with edges := (loopN (edgeStep nV) n 0 st0).edges.reverse } := by
  subst hnV
  have hinv := loopN_inv (edgeStep st0.dV)
    (fun st => st.faces = [] ∧ st.cells = [] ∧ st.props = [] ∧ st.fault = false ∧ st.verts = st0.verts ∧
      st.dV = st0.dV ∧ st.dE = n ∧ ∀ e ∈ st.edges, e.1 < st0.dV ∧ e.2 < st0.dV)
    (fun i st h => by
      obtain ⟨a1, a2, a3, a4, a5, a6, a7, _⟩ := edgeStep_facts st0.dV i st
      exact ⟨a2.trans h.1, a3.trans h.2.1, a4.trans h.2.2.1, a5.trans h.2.2.2.1, a1.trans h.2.2.2.2.1,
        a6.trans h.2.2.2.2.2.1, a7.trans h.2.2.2.2.2.2.1, edgeStep_mem _ _ _ h.2.2.2.2.2.2.2⟩)
    n 0 st0 ⟨hf, hc, hp, hfa, rfl, rfl, hd, by rw [he]; simp⟩
  have hcnt := loopN_count (edgeStep st0.dV) (fun st => st.edges.length) (fun i st h => edgeStep_len _ i st h) n 0 st0
  refine ⟨hinv.2.2.2.1, hinv.1, hinv.2.1, hinv.2.2.1, ?_⟩
  intro herr
  have h2 := hcnt herr
  refine ⟨?_, ?_, ?_⟩
  · show (loopN (edgeStep st0.dV) n 0 st0).verts.length = (loopN (edgeStep st0.dV) n 0 st0).dV
    rw [hinv.2.2.2.2.1, hinv.2.2.2.2.2.1]; exact hv
  · show (loopN (edgeStep st0.dV) n 0 st0).edges.reverse.length = (loopN (edgeStep st0.dV) n 0 st0).dE
    rw [List.length_reverse, h2, he, hinv.2.2.2.2.2.2.1]; simp
  · intro e hm
    have hm' : e ∈ (loopN (edgeStep st0.dV) n 0 st0).edges := by simpa using hm
    show e.1 < (loopN (edgeStep st0.dV) n 0 st0).dV ∧ e.2 < (loopN (edgeStep st0.dV) n 0 st0).dV
    rw [hinv.2.2.2.2.2.1]
    exact hinv.2.2.2.2.2.2.2 e hm'

theorem sectEdges_S2 (cfg : Cfg) (st : RS) (h1 : S1 st) (herr0 : st.err = none) : S2 (sectEdges cfg st) := by
  have hk := expectKeyword_same kEDGES .noEdges st
  unfold sectEdges
  simp only
  split
  · rename_i herr
    exact ⟨hk.fault.trans h1.fault, hk.faces.trans h1.faces, hk.cells.trans h1.cells, hk.props.trans h1.props,
      fun h => by rw [h] at herr; simp at herr⟩
  · have hs := countLine_same cfg.lim (expectKeyword kEDGES .noEdges st)
    split
    · rename_i herr
      exact ⟨hs.fault.trans (hk.fault.trans h1.fault), hs.faces.trans (hk.faces.trans h1.faces),
        hs.cells.trans (hk.cells.trans h1.cells), hs.props.trans (hk.props.trans h1.props),
        fun h => by rw [h] at herr; simp at herr⟩
    · exact edgeLoop_S2 _ _ _ (hs.faces.trans (hk.faces.trans h1.faces)) (hs.cells.trans (hk.cells.trans h1.cells))
        (hs.props.trans (hk.props.trans h1.props)) (hs.fault.trans (hk.fault.trans h1.fault))
        (hs.edges.trans (hk.edges.trans h1.edges))
        (by
          show (countLine cfg.lim (expectKeyword kEDGES .noEdges st)).1.verts.length = (countLine cfg.lim (expectKeyword kEDGES .noEdges st)).1.dV
          rw [hs.verts, hk.verts, hs.dV, hk.dV]; exact h1.verts herr0) rfl rfl

structure S3 (st : RS) : Prop where
  fault : st.fault = false
  cells : st.cells = []
  props : st.props = []
  ok : st.err = none → st.verts.length = st.dV ∧ st.edges.length = st.dE ∧ st.faces.length = st.dF ∧
    (∀ e ∈ st.edges, e.1 < st.dV ∧ e.2 < st.dV) ∧ (∀ f ∈ st.faces, ∀ x ∈ f, x < 2 * st.dE)

theorem faceLoop_S3 (cfg : Cfg) (n nHE : Nat) (edges : List (Nat × Nat)) (st0 : RS)
    (hc : st0.cells = []) (hp : st0.props = []) (hfa : st0.fault = false) (hf : st0.faces = [])
    (hv : st0.verts.length = st0.dV) (he : st0.edges.length = st0.dE)
    (hem : ∀ e ∈ st0.edges, e.1 < st0.dV ∧ e.2 < st0.dV)
    (hd : st0.dF = n) (hE : st0.edges = edges) (hH : nHE = 2 * st0.dE) :
    S3 { loopN (faceStep cfg edges nHE) n 0 st0 with faces := (loopN (faceStep cfg edges nHE) n 0 st0).faces.reverse } := by
  subst hE hH
  have hle : 2 * st0.dE ≤ 2 * st0.edges.length := by omega
  have hinv := loopN_inv (faceStep cfg st0.edges (2 * st0.dE))
    (fun st => st.cells = [] ∧ st.props = [] ∧ st.fault = false ∧ st.verts = st0.verts ∧ st.edges = st0.edges ∧
      st.dV = st0.dV ∧ st.dE = st0.dE ∧ st.dF = n ∧ ∀ f ∈ st.faces, ∀ x ∈ f, x < 2 * st0.dE)
    (fun i st h => by
      obtain ⟨a1, a2, a3, a4, a5, a6, a7⟩ := faceStep_facts cfg st0.edges (2 * st0.dE) i st
      exact ⟨a3.trans h.1, a4.trans h.2.1, (faceStep_fault cfg _ _ i st hle).trans h.2.2.1, a1.trans h.2.2.2.1,
        a2.trans h.2.2.2.2.1, a5.trans h.2.2.2.2.2.1, a6.trans h.2.2.2.2.2.2.1, a7.trans h.2.2.2.2.2.2.2.1,
        faceStep_mem cfg _ _ i st h.2.2.2.2.2.2.2.2⟩)
    n 0 st0 ⟨hc, hp, hfa, rfl, rfl, rfl, rfl, hd, by rw [hf]; simp⟩
  have hcnt := loopN_count (faceStep cfg st0.edges (2 * st0.dE)) (fun st => st.faces.length)
    (fun i st h => faceStep_len cfg _ _ i st h) n 0 st0
  refine ⟨hinv.2.2.1, hinv.1, hinv.2.1, ?_⟩
  intro herr
  have h2 := hcnt herr
  refine ⟨?_, ?_, ?_, ?_, ?_⟩
  · show (loopN (faceStep cfg st0.edges (2 * st0.dE)) n 0 st0).verts.length = (loopN (faceStep cfg st0.edges (2 * st0.dE)) n 0 st0).dV
    rw [hinv.2.2.2.1, hinv.2.2.2.2.2.1]; exact hv
  · show (loopN (faceStep cfg st0.edges (2 * st0.dE)) n 0 st0).edges.length = (loopN (faceStep cfg st0.edges (2 * st0.dE)) n 0 st0).dE
    rw [hinv.2.2.2.2.1, hinv.2.2.2.2.2.2.1]; exact he
  · show (loopN (faceStep cfg st0.edges (2 * st0.dE)) n 0 st0).faces.reverse.length = (loopN (faceStep cfg st0.edges (2 * st0.dE)) n 0 st0).dF
    rw [List.length_reverse, h2, hf, hinv.2.2.2.2.2.2.2.1]; simp
  · show ∀ e ∈ (loopN (faceStep cfg st0.edges (2 * st0.dE)) n 0 st0).edges,
        e.1 < (loopN (faceStep cfg st0.edges (2 * st0.dE)) n 0 st0).dV ∧ e.2 < (loopN (faceStep cfg st0.edges (2 * st0.dE)) n 0 st0).dV
    rw [hinv.2.2.2.2.1, hinv.2.2.2.2.2.1]; exact hem
  · intro f hm
    have hm' : f ∈ (loopN (faceStep cfg st0.edges (2 * st0.dE)) n 0 st0).faces := by simpa using hm
    show ∀ x ∈ f, x < 2 * (loopN (faceStep cfg st0.edges (2 * st0.dE)) n 0 st0).dE
    rw [hinv.2.2.2.2.2.2.1]
    exact hinv.2.2.2.2.2.2.2.2 f hm'

theorem sectFaces_S3 (cfg : Cfg) (st : RS) (h2 : S2 st) (herr0 : st.err = none) : S3 (sectFaces cfg st) := by
  have hk := expectKeyword_same kFACES .noFaces st
  obtain ⟨o1, o2, o3⟩ := h2.ok herr0
  unfold sectFaces
  simp only
  split
  · rename_i herr
    exact ⟨hk.fault.trans h2.fault, hk.cells.trans h2.cells, hk.props.trans h2.props,
      fun h => by rw [h] at herr; simp at herr⟩
  · have hs := countLine_same cfg.lim (expectKeyword kFACES .noFaces st)
    split
    · rename_i herr
      exact ⟨hs.fault.trans (hk.fault.trans h2.fault), hs.cells.trans (hk.cells.trans h2.cells),
        hs.props.trans (hk.props.trans h2.props), fun h => by rw [h] at herr; simp at herr⟩
    · refine faceLoop_S3 cfg _ _ _ _ (hs.cells.trans (hk.cells.trans h2.cells)) (hs.props.trans (hk.props.trans h2.props))
        (hs.fault.trans (hk.fault.trans h2.fault)) (hs.faces.trans (hk.faces.trans h2.faces)) ?_ ?_ ?_ rfl rfl rfl
      · show (countLine cfg.lim (expectKeyword kFACES .noFaces st)).1.verts.length = (countLine cfg.lim (expectKeyword kFACES .noFaces st)).1.dV
        rw [hs.verts, hk.verts, hs.dV, hk.dV]; exact o1
      · show (countLine cfg.lim (expectKeyword kFACES .noFaces st)).1.edges.length = (countLine cfg.lim (expectKeyword kFACES .noFaces st)).1.dE
        rw [hs.edges, hk.edges, hs.dE, hk.dE]; exact o2
      · show ∀ e ∈ (countLine cfg.lim (expectKeyword kFACES .noFaces st)).1.edges,
          e.1 < (countLine cfg.lim (expectKeyword kFACES .noFaces st)).1.dV ∧ e.2 < (countLine cfg.lim (expectKeyword kFACES .noFaces st)).1.dV
        rw [hs.edges, hk.edges, hs.dV, hk.dV]; exact o3

/-- what `readStream` has established when the topology sections are through -/
structure S4 (st : RS) : Prop where
  fault : st.fault = false
  props : st.props = []
  ok : st.err = none →
    (∀ e ∈ st.edges, e.1 < st.verts.length ∧ e.2 < st.verts.length) ∧
    (∀ f ∈ st.faces, ∀ x ∈ f, x < 2 * st.edges.length) ∧
    (∀ c ∈ st.cells, ∀ x ∈ c, x < 2 * st.faces.length)

theorem cellLoop_S4 (cfg : Cfg) (hk : HexOK cfg) (n nHF : Nat) (edges : List (Nat × Nat)) (faces : List (List Nat)) (st0 : RS)
    (hp : st0.props = []) (hfa : st0.fault = false) (hc : st0.cells = [])
    (hv : st0.verts.length = st0.dV) (he : st0.edges.length = st0.dE) (hf : st0.faces.length = st0.dF)
    (hem : ∀ e ∈ st0.edges, e.1 < st0.dV ∧ e.2 < st0.dV) (hfm : ∀ f ∈ st0.faces, ∀ x ∈ f, x < 2 * st0.dE)
    (hE : st0.edges = edges) (hF : st0.faces = faces) (hH : nHF = 2 * st0.dF) :
    S4 { loopN (cellStep cfg edges faces nHF) n 0 st0 with cells := (loopN (cellStep cfg edges faces nHF) n 0 st0).cells.reverse } := by
  subst hE hF hH
  have hle : 2 * st0.dF ≤ 2 * st0.faces.length := by omega
  have hfe : ∀ f ∈ st0.faces, ∀ x ∈ f, x < 2 * st0.edges.length := by rw [he]; exact hfm
  have hinv := loopN_inv (cellStep cfg st0.edges st0.faces (2 * st0.dF))
    (fun st => st.props = [] ∧ st.fault = false ∧ st.verts = st0.verts ∧ st.edges = st0.edges ∧ st.faces = st0.faces ∧
      ∀ c ∈ st.cells, ∀ x ∈ c, x < 2 * st0.dF)
    (fun i st h => by
      obtain ⟨a1, a2, a3, a4, _, _, _⟩ := cellStep_facts cfg st0.edges st0.faces (2 * st0.dF) i st
      exact ⟨a4.trans h.1, (cellStep_fault cfg hk _ _ _ i st hle hfe).trans h.2.1, a1.trans h.2.2.1, a2.trans h.2.2.2.1,
        a3.trans h.2.2.2.2.1, cellStep_mem cfg hk _ _ _ i st h.2.2.2.2.2⟩)
    n 0 st0 ⟨hp, hfa, rfl, rfl, rfl, by rw [hc]; simp⟩
  refine ⟨hinv.2.1, hinv.1, ?_⟩
  intro _
  refine ⟨?_, ?_, ?_⟩
  · show ∀ e ∈ (loopN (cellStep cfg st0.edges st0.faces (2 * st0.dF)) n 0 st0).edges,
        e.1 < (loopN (cellStep cfg st0.edges st0.faces (2 * st0.dF)) n 0 st0).verts.length ∧
        e.2 < (loopN (cellStep cfg st0.edges st0.faces (2 * st0.dF)) n 0 st0).verts.length
    rw [hinv.2.2.1, hinv.2.2.2.1, hv]; exact hem
  · show ∀ f ∈ (loopN (cellStep cfg st0.edges st0.faces (2 * st0.dF)) n 0 st0).faces,
        ∀ x ∈ f, x < 2 * (loopN (cellStep cfg st0.edges st0.faces (2 * st0.dF)) n 0 st0).edges.length
    rw [hinv.2.2.2.1, hinv.2.2.2.2.1, he]; exact hfm
  · intro c hm
    have hm' : c ∈ (loopN (cellStep cfg st0.edges st0.faces (2 * st0.dF)) n 0 st0).cells := by simpa using hm
    show ∀ x ∈ c, x < 2 * (loopN (cellStep cfg st0.edges st0.faces (2 * st0.dF)) n 0 st0).faces.length
    rw [hinv.2.2.2.2.1, hf]
    exact hinv.2.2.2.2.2 c hm'

theorem sectCells_S4 (cfg : Cfg) (hx : HexOK cfg) (st : RS) (h3 : S3 st) (herr0 : st.err = none) : S4 (sectCells cfg st) := by
  have hk := expectKeyword_same kPOLYHEDRA .noCells st
  obtain ⟨o1, o2, o3, o4, o5⟩ := h3.ok herr0
  unfold sectCells
  simp only
  split
  · rename_i herr
    exact ⟨hk.fault.trans h3.fault, hk.props.trans h3.props, fun h => by rw [h] at herr; simp at herr⟩
  · have hs := countLine_same cfg.lim (expectKeyword kPOLYHEDRA .noCells st)
    split
    · rename_i herr
      exact ⟨hs.fault.trans (hk.fault.trans h3.fault), hs.props.trans (hk.props.trans h3.props),
        fun h => by rw [h] at herr; simp at herr⟩
    · refine cellLoop_S4 cfg hx _ _ _ _ _ (hs.props.trans (hk.props.trans h3.props))
        (hs.fault.trans (hk.fault.trans h3.fault)) (hs.cells.trans (hk.cells.trans h3.cells)) ?_ ?_ ?_ ?_ ?_ rfl rfl rfl
      · show (countLine cfg.lim (expectKeyword kPOLYHEDRA .noCells st)).1.verts.length = (countLine cfg.lim (expectKeyword kPOLYHEDRA .noCells st)).1.dV
        rw [hs.verts, hk.verts, hs.dV, hk.dV]; exact o1
      · show (countLine cfg.lim (expectKeyword kPOLYHEDRA .noCells st)).1.edges.length = (countLine cfg.lim (expectKeyword kPOLYHEDRA .noCells st)).1.dE
        rw [hs.edges, hk.edges, hs.dE, hk.dE]; exact o2
      · show (countLine cfg.lim (expectKeyword kPOLYHEDRA .noCells st)).1.faces.length = (countLine cfg.lim (expectKeyword kPOLYHEDRA .noCells st)).1.dF
        rw [hs.faces, hk.faces, hs.dF, hk.dF]; exact o3
      · show ∀ e ∈ (countLine cfg.lim (expectKeyword kPOLYHEDRA .noCells st)).1.edges,
          e.1 < (countLine cfg.lim (expectKeyword kPOLYHEDRA .noCells st)).1.dV ∧ e.2 < (countLine cfg.lim (expectKeyword kPOLYHEDRA .noCells st)).1.dV
        rw [hs.edges, hk.edges, hs.dV, hk.dV]; exact o4
      · show ∀ f ∈ (countLine cfg.lim (expectKeyword kPOLYHEDRA .noCells st)).1.faces,
          ∀ x ∈ f, x < 2 * (countLine cfg.lim (expectKeyword kPOLYHEDRA .noCells st)).1.dE
        rw [hs.faces, hk.faces, hs.dE, hk.dE]; exact o5

/-! ### `Err.fuel` is not produced before the property loop -/

def NoFuel (st : RS) : Prop := st.err ≠ some .fuel

theorem expectKeyword_nofuel (kwd : Str) (e : Err) (he : e ≠ .fuel) (st : RS) (h : NoFuel st) :
    NoFuel (expectKeyword kwd e st) := by
  unfold expectKeyword NoFuel
  simp only
  split
  · simp; exact he
  · exact h

theorem countLine_nofuel (lim : Nat) (st : RS) (h : NoFuel st) : NoFuel (countLine lim st).1 := by
  unfold countLine NoFuel
  simp only
  split
  · simp
  · exact h

theorem vertStep_nofuel (i : Nat) (st : RS) (h : NoFuel st) : NoFuel (vertStep i st) := by
  unfold NoFuel; rw [(vertStep_facts i st).2.2.2.2.2.1]; exact h

theorem edgeStep_nofuel (nV i : Nat) (st : RS) (h : NoFuel st) : NoFuel (edgeStep nV i st) := by
  unfold edgeStep NoFuel
  simp only
  split
  · simp
  · exact h

theorem faceStep_nofuel (cfg : Cfg) (edges : List (Nat × Nat)) (nHE i : Nat) (st : RS) (h : NoFuel st) :
    NoFuel (faceStep cfg edges nHE i st) := by
  unfold faceStep NoFuel
  simp only
  split
  · simp
  · split
    · simp
    · split
      · simp
      · split
        · exact h
        · simp
        · simp

theorem cellStep_nofuel (cfg : Cfg) (edges : List (Nat × Nat)) (faces : List (List Nat)) (nHF i : Nat) (st : RS) (h : NoFuel st) :
    NoFuel (cellStep cfg edges faces nHF i st) := by
  unfold cellStep NoFuel
  simp only
  split
  · simp
  · split
    · simp
    · split
      · exact h
      · simp
      · simp

theorem nofuel_of_err_eq (a b : RS) (h : a.err = b.err) (hb : NoFuel b) : NoFuel a := by
  unfold NoFuel at *; rw [h]; exact hb

theorem headerPrefix_nofuel (input : Str) : NoFuel (headerPrefix input) := by
  unfold headerPrefix NoFuel
  simp only
  split
  · simp
  · split <;> split <;> simp [RS.nextLine]

theorem sectHeader_nofuel (cfg : Cfg) (input : Str) : NoFuel (sectHeader cfg input) := by
  unfold sectHeader
  simp only
  split
  · exact headerPrefix_nofuel input
  · split
    · exact countLine_nofuel _ _ (headerPrefix_nofuel input)
    · exact nofuel_of_err_eq _ (loopN vertStep _ 0 _) rfl
        (loopN_inv vertStep NoFuel vertStep_nofuel _ _ _
          (nofuel_of_err_eq _ (countLine cfg.lim (headerPrefix input)).1 rfl (countLine_nofuel _ _ (headerPrefix_nofuel input))))

theorem sectEdges_nofuel (cfg : Cfg) (st : RS) (h : NoFuel st) : NoFuel (sectEdges cfg st) := by
  have hk := expectKeyword_nofuel kEDGES .noEdges (fun hc => Err.noConfusion hc) st h
  unfold sectEdges
  simp only
  split
  · exact hk
  · split
    · exact countLine_nofuel _ _ hk
    · exact nofuel_of_err_eq _ (loopN (edgeStep _) _ 0 _) rfl
        (loopN_inv _ NoFuel (edgeStep_nofuel _) _ _ _
          (nofuel_of_err_eq _ (countLine cfg.lim (expectKeyword kEDGES .noEdges st)).1 rfl (countLine_nofuel _ _ hk)))

theorem sectFaces_nofuel (cfg : Cfg) (st : RS) (h : NoFuel st) : NoFuel (sectFaces cfg st) := by
  have hk := expectKeyword_nofuel kFACES .noFaces (fun hc => Err.noConfusion hc) st h
  unfold sectFaces
  simp only
  split
  · exact hk
  · split
    · exact countLine_nofuel _ _ hk
    · exact nofuel_of_err_eq _ (loopN (faceStep _ _ _) _ 0 _) rfl
        (loopN_inv _ NoFuel (faceStep_nofuel _ _ _) _ _ _
          (nofuel_of_err_eq _ (countLine cfg.lim (expectKeyword kFACES .noFaces st)).1 rfl (countLine_nofuel _ _ hk)))

theorem sectCells_nofuel (cfg : Cfg) (st : RS) (h : NoFuel st) : NoFuel (sectCells cfg st) := by
  have hk := expectKeyword_nofuel kPOLYHEDRA .noCells (fun hc => Err.noConfusion hc) st h
  unfold sectCells
  simp only
  split
  · exact hk
  · split
    · exact countLine_nofuel _ _ hk
    · exact nofuel_of_err_eq _ (loopN (cellStep _ _ _ _) _ 0 _) rfl
        (loopN_inv _ NoFuel (cellStep_nofuel _ _ _ _) _ _ _ (countLine_nofuel _ _ hk))

end OVM.Ascii

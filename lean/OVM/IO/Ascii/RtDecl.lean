import OVM.IO.Ascii.RtPropSpec
import OVM.IO.Ascii.RtSections
/-
  Round trip, part 11 (proof-only file): the declaration line of a property block
  (`VProp int "name"`) is read back by `parseDecl` / `extractQuotedText`.
-/
namespace OVM.Ascii

def declLine (k : Ent) (vt : VT) (name : Str) : Str :=
  k.name ++ cSP :: nameOfVT vt ++ cSP :: cQuote :: name ++ [cQuote]

theorem printProp_eq (p : PropRec) : printProp p = declLine p.ent p.ty p.name ++ cNL :: p.vals.flatMap printVal := by
  simp [printProp, declLine, line]

/-! ### `extractQuotedText` -/

theorem afterFirstQuote_append (pre rest : Str) (h : ∀ c ∈ pre, c ≠ cQuote) :
    afterFirstQuote (pre ++ cQuote :: rest) = rest := by
  induction pre with
  | nil => simp [afterFirstQuote]
  | cons c cs ih =>
    have hc : (c == cQuote) = false := by simpa using h c (by simp)
    simp only [List.cons_append, afterFirstQuote, hc, Bool.false_eq_true, if_false]
    exact ih (fun x hx => h x (by simp [hx]))

theorem stripTrailingQuotes_name (init : Str) (z : Nat) (hz : z ≠ cQuote) :
    stripTrailingQuotes ((init ++ [z]) ++ [cQuote]) = init ++ [z] := by
  have hzq : (z == cQuote) = false := by simpa using hz
  simp [stripTrailingQuotes, List.dropWhile, hzq]

theorem extractQuoted_decl (pre init : Str) (z : Nat) (hpre : ∀ c ∈ pre, c ≠ cQuote) (hne : ∃ c t, pre = c :: t)
    (hz : z ≠ cQuote) : extractQuoted (pre ++ cQuote :: ((init ++ [z]) ++ [cQuote])) = init ++ [z] := by
  obtain ⟨c, t, rfl⟩ := hne
  have hc : (c == cQuote) = false := by simpa using hpre c (by simp)
  have hzq : (z == cQuote) = false := by simpa using hz
  have h1 : ((c :: t) ++ cQuote :: ((init ++ [z]) ++ [cQuote])).all (· == cQuote) = false := by
    simp [hc]
  have h2 : ((c :: t) ++ cQuote :: ((init ++ [z]) ++ [cQuote])).contains cQuote = true := by
    simp
  have h3 : ((init ++ [z]) ++ [cQuote]).all (· == cQuote) = false := by
    simp [hzq]
  unfold extractQuoted
  rw [h1]
  simp only [Bool.false_eq_true, if_false, h2, if_true]
  rw [afterFirstQuote_append (c :: t) _ hpre, h3]
  simp only [Bool.false_eq_true, if_false]
  exact stripTrailingQuotes_name init z hz

/-! ### the declaration line -/

theorem good_cons' (c : Nat) (t : Str) : ({ rest := c :: t, eof := (c :: t).isEmpty } : IStream) = good (c :: t) := rfl

theorem parseDecl_declLine (k : Ent) (vt : VT) (init : Str) (z : Nat) (hvt : vt ∈ regTypes) (hz : z ≠ cQuote) :
    parseDecl (declLine k vt (init ++ [z])) = some (k, vt, init ++ [z]) := by
  obtain ⟨hk1, hk2, c0, t0, hk3, _, _, hk4⟩ := ent_names k
  obtain ⟨hv1, hv2, hv3⟩ := regTypes_names vt hvt
  obtain ⟨c1, t1, hv4⟩ : ∃ c t, nameOfVT vt = c :: t := by
    cases h : nameOfVT vt with
    | nil => exact absurd h hv2
    | cons c t => exact ⟨c, t, rfl⟩
  -- first word
  have w1 := extractWord_good [] k.name (cSP :: nameOfVT vt ++ cSP :: cQuote :: (init ++ [z]) ++ [cQuote]) allSpace_nil
    (fun c hc => (hk2 c hc).1) ⟨c0, t0, hk3⟩ (Or.inr ⟨cSP, _, rfl, space_isSpace⟩)
  have e1 : IStream.ofStr (declLine k vt (init ++ [z])) =
      good ([] ++ k.name ++ (cSP :: nameOfVT vt ++ cSP :: cQuote :: (init ++ [z]) ++ [cQuote])) := by
    simp [IStream.ofStr, good, declLine]
  -- second word
  have w2 := extractWord_good [cSP] (nameOfVT vt) (cSP :: cQuote :: (init ++ [z]) ++ [cQuote]) allSpace_sp
    (fun c hc => (hv3 c hc).1) ⟨c1, t1, hv4⟩ (Or.inr ⟨cSP, _, rfl, space_isSpace⟩)
  have e2 : ({ rest := cSP :: nameOfVT vt ++ cSP :: cQuote :: (init ++ [z]) ++ [cQuote],
               eof := (cSP :: nameOfVT vt ++ cSP :: cQuote :: (init ++ [z]) ++ [cQuote]).isEmpty } : IStream) =
      good ([cSP] ++ nameOfVT vt ++ (cSP :: cQuote :: (init ++ [z]) ++ [cQuote])) := by
    simp [good]
  -- the quoted name
  have hpre : ∀ c ∈ k.name ++ cSP :: nameOfVT vt ++ [cSP], c ≠ cQuote := by
    intro c hc
    simp only [List.append_assoc, List.cons_append, List.mem_append, List.mem_cons, List.not_mem_nil, or_false] at hc
    rcases hc with h | h | h | h
    · exact (hk2 c h).2.1
    · rw [h]; decide
    · exact (hv3 c h).2.1
    · rw [h]; decide
  have q := extractQuoted_decl (k.name ++ cSP :: nameOfVT vt ++ [cSP]) init z hpre
    ⟨c0, t0 ++ cSP :: nameOfVT vt ++ [cSP], by rw [hk3]; simp⟩ hz
  have e3 : declLine k vt (init ++ [z]) =
      (k.name ++ cSP :: nameOfVT vt ++ [cSP]) ++ cQuote :: ((init ++ [z]) ++ [cQuote]) := by
    simp [declLine]
  have hne : (init ++ [z]).isEmpty = false := by simp
  unfold parseDecl
  simp only [e1, w1, e2, w2]
  rw [e3, q]
  simp only [hne, Bool.false_eq_true, if_false, Option.getD_some, hv1, hk1]

theorem declLine_shape (k : Ent) (vt : VT) (name : Str) (hvt : vt ∈ regTypes) (hn : ∀ c ∈ name, c ≠ cNL) :
    NoNL (declLine k vt name) ∧ HeadOK (declLine k vt name) ∧ LastOK (declLine k vt name) := by
  obtain ⟨_, hk2, c0, t0, hk3, hk4, hk5, _⟩ := ent_names k
  obtain ⟨_, _, hv3⟩ := regTypes_names vt hvt
  refine ⟨?_, ?_, ?_⟩
  · intro c hc
    simp only [declLine, List.append_assoc, List.cons_append, List.mem_append, List.mem_cons, List.not_mem_nil,
      or_false] at hc
    rcases hc with h | h | h | h | h | h | h
    · exact (hk2 c h).2.2
    · rw [h]; decide
    · exact (hv3 c h).2.2
    · rw [h]; decide
    · rw [h]; decide
    · exact hn c h
    · rw [h]; decide
  · exact ⟨c0, t0 ++ cSP :: nameOfVT vt ++ cSP :: cQuote :: name ++ [cQuote], by simp [declLine, hk3], hk4, hk5⟩
  · refine ⟨cQuote, (k.name ++ cSP :: nameOfVT vt ++ cSP :: cQuote :: name).reverse, ?_, by decide⟩
    simp [declLine]

end OVM.Ascii

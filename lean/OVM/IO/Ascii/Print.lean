import OVM.IO.Ascii.Tokens
/-
  OVM-ASCII model, part 2: the abstract file and `print`, mirroring `FileManager::writeStream`
  (FileManagerT_impl.hh:463-608), `PropertyStorageT<T>::serialize` (PropertyStorageT.hh:130-135) and
  the `serialize` overloads (Serializers.cc:43-49, SerializersT_impl.hh:130-169).
-/
namespace OVM.Ascii

abbrev Pos := Str × Str × Str

structure PropRec where
  ent : Ent
  ty : VT
  name : Str
  vals : List Val          -- one per entity slot
deriving DecidableEq, Repr

/-- Abstract file.  Positions are number *tokens*; handles are indices. -/
structure AFile where
  verts : List Pos := []
  edges : List (Nat × Nat) := []
  faces : List (List Nat) := []
  cells : List (List Nat) := []
  props : List PropRec := []
deriving DecidableEq, Repr

def AFile.count (F : AFile) : Ent → Nat
  | .v => F.verts.length | .e => F.edges.length | .he => 2 * F.edges.length
  | .f => F.faces.length | .hf => 2 * F.faces.length | .c => F.cells.length | .m => 1

def line (l : Str) : Str := l ++ [cNL]

def spaced : List Str → Str
  | [] => []
  | [a] => a
  | a :: b :: t => a ++ cSP :: spaced (b :: t)

/-- `<< size << " "`, then the indices separated by single blanks (cc:502-515, 524-537) -/
def printHandles (hs : List Nat) : Str :=
  line (showNat hs.length ++ cSP :: spaced (hs.map showNat))

/-! ### values -/

/-- `serialize(os, x)` for a scalar: `os << x`; strings as `len:bytes` -/
def printAtom : Atom → Str
  | .int i => showInt i
  | .chr c => [c]
  | .flt t => t
  | .str s => showNat s.length ++ cColon :: s
  | .unk => [63]           -- never part of a well-formed file

/-- `serialize(os, std::vector<T>)`: size, endl, every element followed by endl -/
def printVec (as : List Atom) : Str :=
  line (showNat as.length) ++ as.flatMap (fun a => line (printAtom a))

def printMap (kvs : List (Int × Int)) : Str :=
  line (showNat kvs.length) ++ kvs.flatMap (fun kv => line (showInt kv.1) ++ line (showInt kv.2))

/-- one slot of a property block: `serialize(_ostr, *it) << std::endl` -/
def printVal : Val → Str
  | .sc a => line (printAtom a)
  | .tup as => line (spaced (as.map printAtom))
  | .vec as => line (printVec as)
  | .vecvec ass => line (line (showNat ass.length) ++ ass.flatMap (fun as => line (printVec as)))
  | .map kvs => line (printMap kvs)

/-- cc:602-606 -/
def printProp (p : PropRec) : Str :=
  line (p.ent.name ++ cSP :: nameOfVT p.ty ++ cSP :: cQuote :: p.name ++ [cQuote]) ++ p.vals.flatMap printVal

def printPos (p : Pos) : Str := line (p.1 ++ cSP :: p.2.1 ++ cSP :: p.2.2)
def printEdge (e : Nat × Nat) : Str := line (showNat e.1 ++ cSP :: showNat e.2)

/-- `writeProps<Entity::X>` is called in this order (cc:540-546); within a kind the order is that of
    a `std::set<shared_ptr>` (address order): the abstract file lists them as written. -/
def propsOf (F : AFile) (k : Ent) : List PropRec := F.props.filter (fun p => p.ent == k)

def printTopo (F : AFile) : Str :=
  line (kw "OVM ASCII") ++
  line (kw "Vertices") ++ line (showNat F.verts.length) ++ F.verts.flatMap printPos ++
  line (kw "Edges") ++ line (showNat F.edges.length) ++ F.edges.flatMap printEdge ++
  line (kw "Faces") ++ line (showNat F.faces.length) ++ F.faces.flatMap printHandles ++
  line (kw "Polyhedra") ++ line (showNat F.cells.length) ++ F.cells.flatMap printHandles

def print (F : AFile) : Str :=
  printTopo F ++ Ent.all.flatMap (fun k => (propsOf F k).flatMap printProp)

/-! ### the writer on a kernel state -/

/-- What `writeStream` looks at: the abstract content (all slots) and `needs_garbage_collection()`. -/
structure MeshView where
  file : AFile
  needsGC : Bool

/-- `writeStream` after 79b56c5: a mesh with pending deletions is refused (nothing written, failbit). -/
def write (m : MeshView) : Option Str := if m.needsGC then none else some (print m.file)

end OVM.Ascii

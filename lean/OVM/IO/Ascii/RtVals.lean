import OVM.IO.Ascii.RtVals1
/-
  Round trip, part 7b (proof-only file): one slot (`readVal_printed`) and a whole block
  (`readVals_printed`) of a property are read back as written, for well-formed values (`WFVal`).
-/
namespace OVM.Ascii

/-! ### one slot, a whole block -/

theorem allNL_two : AllNL [cNL, cNL] := AllNL.append AllNL.single AllNL.single

/-- tuples with an explicit condition on the old components (tuples of strings: an empty component
    `0:` leaves the old one in place) -/
theorem readVal_tup_printed (lim : Nat) (hlim : lim < 2 ^ 31) (n : Nat) (s : Sc) (as : List Atom) (old : Val)
    (ws more : Str) (hws : AllNL ws) (hv : WFVal lim (.tup n s) (.tup as))
    (hold : s = .str → ∀ o ∈ old.tupAtoms n, o = .str []) :
    readVal lim (.tup n s) old (good (ws ++ printVal (.tup as) ++ more)) = .ok (.tup as, good ([cNL] ++ more)) := by
  obtain ⟨hn, hne, hwf⟩ := hv
  have l : ws ++ printVal (.tup as) ++ more = ws ++ spaced (as.map printAtom) ++ cNL :: more := by
    simp [printVal, line]
  have e := readTup_printed lim hlim s as (old.tupAtoms n) ws more cNL [] hne
    (by rw [tupAtoms_length, hn]) hws.allSpace nl_isSpace hwf hold
  rw [l]
  simp only [readVal, e, Except.map, List.reverse_nil, List.nil_append, List.singleton_append]

/-- one slot of a property block.  `htup`: the statement is false for a tuple of strings (WFVal allows
    it, no registered type is one): an empty component `0:` leaves the old component in place. -/
theorem readVal_printed (lim : Nat) (hlim : lim < 2 ^ 31) (vt : VT) (v old : Val) (ws more : Str)
    (hws : AllNL ws) (hv : WFVal lim vt v) (hold : vt = .sc .str → old = .sc (.str []))
    (htup : ∀ n, vt ≠ .tup n .str) :
    ∃ ws', AllNL ws' ∧ readVal lim vt old (good (ws ++ printVal v ++ more)) = .ok (v, good (ws' ++ more)) := by
  cases vt with
  | sc s =>
    cases v with
    | sc a =>
      refine ⟨[cNL], AllNL.single, ?_⟩
      have l : ws ++ printVal (.sc a) ++ more = ws ++ printAtom a ++ cNL :: more := by simp [printVal, line]
      have ho : a = .str [] → old.scAtom (defaultAtom s) = .str [] := by
        intro h
        have hw : WFAtom lim s a := hv
        rw [h] at hw
        rw [hold (by rw [hw.1])]; rfl
      have e := readSc_printed lim hlim s a (old.scAtom (defaultAtom s)) ws more cNL hws.allSpace nl_isSpace hv ho
      rw [l]
      simp only [readVal, e, Except.map, List.singleton_append]
    | _ => exact absurd hv (by simp [WFVal])
  | tup n s =>
    cases v with
    | tup as =>
      exact ⟨[cNL], AllNL.single, readVal_tup_printed lim hlim n s as old ws more hws hv
        (fun hs => absurd (by rw [hs]) (htup n))⟩
    | _ => exact absurd hv (by simp [WFVal])
  | vec s =>
    cases v with
    | vec as =>
      refine ⟨[cNL, cNL], allNL_two, ?_⟩
      have l : ws ++ printVal (.vec as) ++ more = ws ++ printVec as ++ ([cNL] ++ more) := by simp [printVal, line]
      have e := readVec_printed lim hlim s as ws ([cNL] ++ more) hws.allSpace hv.1 hv.2
      rw [l]
      simp only [readVal, e, Except.map]
      simp
    | _ => exact absurd hv (by simp [WFVal])
  | vecvec s =>
    cases v with
    | vecvec ass =>
      obtain ⟨h1, h2⟩ : ass.length ≤ lim ∧ ∀ as ∈ ass, as.length ≤ lim ∧ ∀ a ∈ as, WFAtom lim s a := hv
      let R := [cNL] ++ more
      have l : ws ++ printVal (.vecvec ass) ++ more =
          ws ++ showNat ass.length ++ cNL :: (ass.flatMap (fun as => line (printVec as)) ++ R) := by
        simp [printVal, line, R]
      have e := extractInt_nat .u64 ws (cNL :: (ass.flatMap (fun as => line (printVec as)) ++ R)) ass.length
        hws.allSpace (stops_digit_space _ _ nl_isSpace) (fits_u64 _ (lt64_of_le_lim hlim h1))
      rw [good_cons] at e
      have l2 : cNL :: (ass.flatMap (fun as => line (printVec as)) ++ R) =
          [cNL] ++ ass.flatMap (fun as => line (printVec as)) ++ R := by simp
      obtain ⟨ws', hws', e'⟩ := readVecs_printed lim hlim s ass [cNL] R [] AllNL.single h2
      refine ⟨ws' ++ [cNL], AllNL.append hws' AllNL.single, ?_⟩
      have hl : ¬ lim < ass.length := by omega
      rw [l]
      simp only [readVal, e, natOf, Option.getD_some, Int.toNat_natCast, hl, if_false]
      rw [l2, e']
      simp [Except.map, R]
    | _ => exact absurd hv (by simp [WFVal])
  | map =>
    cases v with
    | map kvs =>
      obtain ⟨h1, h2, h3⟩ : kvs.length < 2 ^ 64 ∧ kvs.Pairwise (fun (a b : Int × Int) => a.1 < b.1) ∧
        ∀ kv ∈ kvs, FitsInt .i32 kv.1 ∧ FitsInt .i32 kv.2 := hv
      refine ⟨[cNL, cNL], allNL_two, ?_⟩
      let R := [cNL] ++ more
      have l : ws ++ printVal (.map kvs) ++ more = ws ++ showNat kvs.length ++
          cNL :: (kvs.flatMap (fun kv => line (showInt kv.1) ++ line (showInt kv.2)) ++ R) := by
        simp [printVal, printMap, line, R]
      have e := extractInt_nat .u64 ws
        (cNL :: (kvs.flatMap (fun kv => line (showInt kv.1) ++ line (showInt kv.2)) ++ R)) kvs.length
        hws.allSpace (stops_digit_space _ _ nl_isSpace) (fits_u64 _ h1)
      rw [good_cons] at e
      rw [l]
      simp only [readVal, e, natOf, Option.getD_some, Int.toNat_natCast]
      rw [readMapLoop_printed kvs R [] h3 (by simpa using h2)]
      simp [R]
    | _ => exact absurd hv (by simp [WFVal])

/-- a whole block -/
theorem readVals_printed (lim : Nat) (hlim : lim < 2 ^ 31) (vt : VT) (htup : ∀ n, vt ≠ .tup n .str) :
    ∀ (vals olds : List Val) (ws more : Str) (acc : List Val),
    olds.length = vals.length → AllNL ws → (∀ v ∈ vals, WFVal lim vt v) →
    (vt = .sc .str → ∀ o ∈ olds, o = .sc (.str [])) →
    ∃ ws', AllNL ws' ∧
      readVals lim vt olds (good (ws ++ vals.flatMap printVal ++ more)) acc = .ok (acc.reverse ++ vals, good (ws' ++ more)) := by
  intro vals
  induction vals with
  | nil =>
    intro olds ws more acc hlen hws _ _
    have : olds = [] := List.length_eq_zero_iff.mp (by simpa using hlen)
    subst this
    exact ⟨ws, hws, by simp [readVals]⟩
  | cons v t ih =>
    intro olds ws more acc hlen hws hwf hold
    cases olds with
    | nil => simp at hlen
    | cons o os =>
      have l : ws ++ (v :: t).flatMap printVal ++ more = ws ++ printVal v ++ (t.flatMap printVal ++ more) := by simp
      obtain ⟨ws1, hws1, e1⟩ := readVal_printed lim hlim vt v o ws (t.flatMap printVal ++ more) hws
        (hwf v (by simp)) (fun h => hold h o (by simp)) htup
      have l2 : ws1 ++ (t.flatMap printVal ++ more) = ws1 ++ t.flatMap printVal ++ more := by simp
      obtain ⟨ws', hws', e'⟩ := ih os ws1 more (v :: acc) (by simpa using hlen) hws1
        (fun x hx => hwf x (by simp [hx])) (fun h x hx => hold h x (by simp [hx]))
      refine ⟨ws', hws', ?_⟩
      rw [l]
      simp only [readVals, e1]
      rw [l2, e']
      simp

/-! ### non-vacuity -/

set_option maxRecDepth 100000 in
set_option exponentiation.threshold 2048 in
theorem floatTok_1_5 : FloatTok .f64 (kw "1.5") :=
  ⟨⟨_, rfl, by decide, by decide⟩, by decide, ⟨_, _, rfl⟩⟩

example : WFVal 1000 (.sc .i32) (.sc (.int 5)) := ⟨.i32, rfl, by decide⟩
example : WFVal 1000 (.sc .i32) (.sc (.int (-7))) := ⟨.i32, rfl, by decide⟩
example : WFVal 1000 (.sc .f64) (.sc (.flt (kw "1.5"))) := Or.inr ⟨rfl, floatTok_1_5⟩
example : WFVal 1000 (.sc .str) (.sc (.str (kw "a b\n#"))) := ⟨rfl, by decide⟩
example : WFVal 1000 (.tup 2 .f64) (.tup [.flt (kw "1.5"), .flt (kw "1.5")]) :=
  ⟨rfl, by simp, fun a ha => by
    have : a = .flt (kw "1.5") := by simpa using ha
    subst this; exact Or.inr ⟨rfl, floatTok_1_5⟩⟩
example : WFVal 1000 .map (.map [(1, 5), (4, -2)]) := ⟨by decide, by decide, by decide⟩
example : WFVal 1000 (.vecvec .hfh) (.vecvec [[.int 3], []]) := by
  refine ⟨by decide, ?_⟩
  intro as has
  simp only [List.mem_cons, List.not_mem_nil, or_false] at has
  rcases has with rfl | rfl
  · exact ⟨by decide, fun a ha => by
      have : a = .int 3 := by simpa using ha
      subst this; exact ⟨.i32, rfl, by decide⟩⟩
  · exact ⟨by decide, fun a ha => by simp at ha⟩

/-- `readVal_printed` on a concrete slot (instance of the theorem, not a test) -/
example (more : Str) : ∃ ws', AllNL ws' ∧
    readVal 1000 (.sc .f64) (.sc (.flt [cZero])) (good ([cNL] ++ printVal (.sc (.flt (kw "1.5"))) ++ more)) =
      .ok (.sc (.flt (kw "1.5")), good (ws' ++ more)) :=
  readVal_printed 1000 (by decide) (.sc .f64) _ _ [cNL] more AllNL.single (Or.inr ⟨rfl, floatTok_1_5⟩)
    (fun h => by simp at h) (fun n h => by simp at h)

/-- why `htup` is needed (evaluation of the model on one input): an empty string component of a tuple
    of strings is written `0:` and the reader leaves the old component in place -/
example : WFVal 10 (.tup 2 .str) (.tup [.str [], .str [65]]) ∧
    readVal 10 (.tup 2 .str) (.tup [.unk, .unk]) (good (printVal (.tup [.str [], .str [65]]))) =
      .ok (.tup [.unk, .str [65]], good [cNL]) := by
  refine ⟨⟨rfl, by simp, ?_⟩, by rfl⟩
  intro a ha
  simp only [List.mem_cons, List.not_mem_nil, or_false] at ha
  rcases ha with rfl | rfl <;> exact ⟨rfl, by decide⟩

end OVM.Ascii

import OVM.IO.Ascii.RtProps
/-
  Round trip, part 13 (proof-only file): the order of the property blocks in a written file, and the
  whole of `readAll` on `print F`.
-/
namespace OVM.Ascii

theorem print_eq (F : AFile) : print F = printTopo F ++ (sortedProps F).flatMap printProp := by
  simp [print, sortedProps, List.flatMap_assoc]

theorem mem_sortedProps {F : AFile} {p : PropRec} : p ∈ sortedProps F ↔ p ∈ F.props := by
  simp only [sortedProps, propsOf, List.mem_flatMap, List.mem_filter, beq_iff_eq]
  constructor
  · rintro ⟨k, _, hp, _⟩; exact hp
  · intro hp
    exact ⟨p.ent, by cases p.ent <;> simp [Ent.all], hp, rfl⟩

theorem ent_all_pairwise : Ent.all.Pairwise (· ≠ ·) := by decide

theorem sortedProps_pairwise (F : AFile) (h : F.props.Pairwise (fun p q => keyOf p ≠ keyOf q)) :
    (sortedProps F).Pairwise (fun p q => keyOf p ≠ keyOf q) := by
  rw [sortedProps, List.pairwise_flatMap]
  refine ⟨fun k _ => h.filter _, ?_⟩
  refine ent_all_pairwise.imp ?_
  intro a b hab x hx y hy hk
  simp only [propsOf, List.mem_filter, beq_iff_eq] at hx hy
  apply hab
  rw [← hx.2, ← hy.2]
  have : (keyOf x).1 = (keyOf y).1 := by rw [hk]
  exact this

theorem filter_ent_flatMap (ps : List PropRec) (k : Ent) : ∀ ks : List Ent, ks.Nodup →
    (ks.flatMap (fun j => ps.filter (fun p => p.ent == j))).filter (fun p => p.ent == k) =
      if k ∈ ks then ps.filter (fun p => p.ent == k) else [] := by
  intro ks
  induction ks with
  | nil => intro _; simp
  | cons j js ih =>
    intro hnd
    obtain ⟨hj, hjs⟩ := List.nodup_cons.mp hnd
    rw [List.flatMap_cons, List.filter_append, ih hjs, List.filter_filter]
    by_cases hkj : k = j
    · subst hkj
      simp [hj]
    · have e : (ps.filter fun a => a.ent == k && a.ent == j) = [] := by
        rw [List.filter_eq_nil_iff]
        intro p _ hc
        simp only [Bool.and_eq_true, beq_iff_eq] at hc
        exact hkj (hc.1.symm.trans hc.2)
      simp [e, hkj]

/-- within one entity kind the order is kept: sorting twice changes nothing -/
theorem propsOf_sortProps (F : AFile) (k : Ent) : propsOf (sortProps F) k = propsOf F k := by
  have h := filter_ent_flatMap F.props k Ent.all (by decide)
  have hk : k ∈ Ent.all := by cases k <;> simp [Ent.all]
  simp only [hk, if_true] at h
  exact h

theorem sortedProps_sortProps (F : AFile) : sortedProps (sortProps F) = sortedProps F := by
  show Ent.all.flatMap (propsOf (sortProps F)) = Ent.all.flatMap (propsOf F)
  rw [funext (propsOf_sortProps F)]

theorem printTopo_sortProps (F : AFile) : printTopo (sortProps F) = printTopo F := rfl

theorem print_sortProps (F : AFile) : print (sortProps F) = print F := by
  rw [print_eq, print_eq, sortedProps_sortProps, printTopo_sortProps]

theorem sortProps_idem (F : AFile) : sortProps (sortProps F) = sortProps F := by
  show { sortProps F with props := sortedProps (sortProps F) } = sortProps F
  rw [sortedProps_sortProps]
  rfl

theorem printProp_length_pos (p : PropRec) : 1 ≤ (printProp p).length := by
  simp only [printProp, line, List.length_append, List.length_cons]
  omega

theorem flatMap_length_ge (ps : List PropRec) : ps.length ≤ (ps.flatMap printProp).length := by
  induction ps with
  | nil => simp
  | cons p ps ih =>
    have := printProp_length_pos p
    simp only [List.flatMap_cons, List.length_append, List.length_cons]
    omega

/-- `readStream` on a written file: the state at the end -/
theorem readAll_print (cfg : Cfg) (F : AFile) (hwf : WFTopo cfg.lim F) (hacc : Accepts cfg F) (hp : WFProps cfg.lim F) :
    ∃ st : RS, readAll cfg (print F) = st ∧ st.err = none ∧ st.file = sortProps F := by
  obtain ⟨st, s4, hr⟩ := topo_read cfg F ((sortedProps F).flatMap printProp) hwf hacc
  have hkeys : (st.props ++ sortedProps F).Pairwise (fun p q => keyOf p ≠ keyOf q) := by
    rw [s4.props]; simpa using sortedProps_pairwise F hp.keys
  have hl := readProps_printed cfg.lim hwf.lim31 F (sortedProps F) st [] (((sortedProps F).flatMap printProp).length + 2)
    (by simpa using s4.is) AllNL.nil s4.err s4.verts s4.edges s4.faces s4.cells
    (fun p hm => hp.each p (mem_sortedProps.mp hm)) hkeys
    (by have := flatMap_length_ge (sortedProps F); omega)
  refine ⟨{ st with is := { rest := [], eof := true, fail := true }, props := st.props ++ sortedProps F },
    by rw [print_eq]; exact hr.trans hl, s4.err, ?_⟩
  simp only [RS.file, s4.verts, s4.edges, s4.faces, s4.cells, s4.props, List.nil_append]
  rfl

theorem parse_of_readAll (cfg : Cfg) (input : Str) (st : RS) (h : readAll cfg input = st) (he : st.err = none) :
    (parse cfg input).res = .ok st.file := by
  unfold parse
  simp only [h, he]

theorem sortProps_noProps (F : AFile) (hp : F.props = []) : sortProps F = F := by
  cases F
  simp only at hp
  simp [sortProps, sortedProps, propsOf, hp, Ent.all]

theorem wfProps_nil (lim : Nat) (F : AFile) (hp : F.props = []) : WFProps lim F :=
  ⟨fun p h => by rw [hp] at h; simp at h, by rw [hp]; exact List.Pairwise.nil⟩

/-- `WFProp` from decidable pieces (for concrete files) -/
theorem wfProp_of_dec (lim : Nat) (F : AFile) (p : PropRec) (h1 : p.ty ∈ regTypes)
    (h2 : p.name.getLast? ≠ none ∧ p.name.getLast? ≠ some cQuote) (h3 : ∀ c ∈ p.name, c ≠ cNL)
    (h4 : p.vals.length = F.count p.ent) (h5 : ∀ v ∈ p.vals, WFVal lim p.ty v)
    (h6 : isPosKey p.ent p.ty p.name = true → p.vals = F.verts.map valOfPos) : WFProp lim F p := by
  refine ⟨h1, ?_, h3, h4, h5, h6⟩
  rcases List.eq_nil_or_concat p.name with h | ⟨init, z, h⟩
  · rw [h] at h2; exact absurd rfl h2.1
  · refine ⟨init, z, by simpa using h, ?_⟩
    intro hz
    apply h2.2
    rw [h, hz]; simp

end OVM.Ascii

import OVM.IO.Ascii.RtVals
/-
  Round trip, part 10: well-formedness of the property blocks of a file (C06's domain), the order in
  which a written file lists them, and decision procedures for the predicates (so that concrete files
  can be shown well formed by `decide`).
-/
namespace OVM.Ascii

/-- the value types the format registers (TypeNames.cc / `typeTable`) -/
def regTypes : List VT := typeTable.map (·.2)

def keyOf (p : PropRec) : Ent × VT × Str := (p.ent, p.ty, p.name)

/-- one persistent property of a mesh whose content is `F`:
    * its type is one the format registers;
    * its name is not empty, has no line end in it and does not end in a quote character (the reader strips
      trailing quotes; quotes elsewhere in the name are fine);
    * one value per entity, every value well formed for the type (`WFVal`);
    * the vertex positions are themselves the property `VProp vec3d "ovm:position"`: if that one is
      listed it holds the positions. -/
structure WFProp (lim : Nat) (F : AFile) (p : PropRec) : Prop where
  ty : p.ty ∈ regTypes
  nameLast : ∃ init z, p.name = init ++ [z] ∧ z ≠ cQuote
  nameNL : ∀ c ∈ p.name, c ≠ cNL
  len : p.vals.length = F.count p.ent
  vals : ∀ v ∈ p.vals, WFVal lim p.ty v
  pos : isPosKey p.ent p.ty p.name = true → p.vals = F.verts.map valOfPos

/-- all of them, with pairwise distinct (entity kind, value type, name) -/
structure WFProps (lim : Nat) (F : AFile) : Prop where
  each : ∀ p ∈ F.props, WFProp lim F p
  keys : F.props.Pairwise (fun p q => keyOf p ≠ keyOf q)

/-- the properties in the order in which `writeStream` lists them (by entity kind; `print` keeps the
    order of `F.props` within a kind) — and the reader stores them in the order read -/
def sortedProps (F : AFile) : List PropRec := Ent.all.flatMap (propsOf F)

def sortProps (F : AFile) : AFile := { F with props := sortedProps F }

/-! ### facts about the registered names (complete finite tables, by `decide`) -/

set_option maxRecDepth 100000 in
theorem regTypes_names : ∀ vt ∈ regTypes, vtOfName (lower (nameOfVT vt)) = some vt ∧ nameOfVT vt ≠ [] ∧
    (∀ c ∈ nameOfVT vt, isSpace c = false ∧ c ≠ cQuote ∧ c ≠ cNL) := by decide

def isTupStr : VT → Bool
  | .tup _ .str => true
  | _ => false

theorem regTypes_noTupStr : ∀ vt ∈ regTypes, ∀ n, vt ≠ .tup n .str := by
  have h : ∀ vt ∈ regTypes, isTupStr vt = false := by decide
  intro vt hvt n he
  have := h vt hvt
  rw [he] at this
  simp [isTupStr] at this

set_option maxRecDepth 100000 in
theorem ent_names (k : Ent) : entOfName (lower k.name) = some k ∧
    (∀ c ∈ k.name, isSpace c = false ∧ c ≠ cQuote ∧ c ≠ cNL) ∧
    (∃ c t, k.name = c :: t ∧ isTrim c = false ∧ c ≠ cHash ∧ c ≠ cQuote) := by
  cases k <;> exact ⟨by decide, by decide, _, _, rfl, by decide, by decide, by decide⟩

/-! ### decision procedures -/

def floatTokB (ty : FltTy) (t : Str) : Bool :=
  (match fRunAll {} t with
   | some st => decide (st.acc = t) && st.accepts
   | none => false) && !ty.overflows t && !t.isEmpty

theorem floatTok_iff (ty : FltTy) (t : Str) : FloatTok ty t ↔ floatTokB ty t = true := by
  constructor
  · intro h
    obtain ⟨st, h1, h2, h3⟩ := h.run
    obtain ⟨c, r, hc⟩ := h.ne
    have hne : t.isEmpty = false := by rw [hc]; rfl
    simp [floatTokB, h1, h2, h3, h.fin, hne]
  · intro h
    simp only [floatTokB, Bool.and_eq_true, Bool.not_eq_true', List.isEmpty_eq_false_iff] at h
    obtain ⟨⟨h1, h2⟩, h3⟩ := h
    refine ⟨?_, h2, ?_⟩
    · split at h1
      · rename_i st hst
        simp only [Bool.and_eq_true, decide_eq_true_eq] at h1
        exact ⟨st, hst, h1.1, h1.2⟩
      · simp at h1
    · cases t with
      | nil => exact absurd rfl h3
      | cons c r => exact ⟨c, r, rfl⟩

instance (ty : FltTy) (t : Str) : Decidable (FloatTok ty t) := decidable_of_iff _ (floatTok_iff ty t).symm

def wfAtomB (lim : Nat) (s : Sc) : Atom → Bool
  | .int i => match s.intTy with
    | some ty => decide (FitsInt ty i)
    | none => false
  | .chr c => (s == .chr || s == .uchr) && !isSpace c
  | .flt t => (s == .f32 && floatTokB .f32 t) || (s == .f64 && floatTokB .f64 t)
  | .str b => s == .str && decide (b.length ≤ lim)
  | .unk => false

theorem wfAtom_iff (lim : Nat) (s : Sc) (a : Atom) : WFAtom lim s a ↔ wfAtomB lim s a = true := by
  cases a with
  | int i =>
    simp only [WFAtom, wfAtomB]
    cases h : s.intTy with
    | none => simp
    | some ty => simp
  | chr c => simp [WFAtom, wfAtomB]
  | flt t => simp [WFAtom, wfAtomB, floatTok_iff]
  | str b => simp [WFAtom, wfAtomB]
  | unk => simp [WFAtom, wfAtomB]

instance (lim : Nat) (s : Sc) (a : Atom) : Decidable (WFAtom lim s a) := decidable_of_iff _ (wfAtom_iff lim s a).symm

instance (lim : Nat) (vt : VT) (v : Val) : Decidable (WFVal lim vt v) := by
  cases vt <;> cases v <;> unfold WFVal <;> infer_instance

end OVM.Ascii

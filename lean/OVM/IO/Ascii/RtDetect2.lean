import OVM.IO.Ascii.RtDetect
/-
  Round trip, part 15 (proof-only file): `detect want (print F)`.
-/
namespace OVM.Ascii

/-! ### the text in front of the keyword `Polyhedra` has no 'P' and ends in a line end -/

def NoP (l : Str) : Prop := ∀ x ∈ l, x ≠ cP

theorem NoP.append {a b : Str} (ha : NoP a) (hb : NoP b) : NoP (a ++ b) := by
  intro x hx; rcases List.mem_append.mp hx with h | h
  · exact ha x h
  · exact hb x h
theorem NoP.line {a : Str} (ha : NoP a) : NoP (line a) := ha.append (by intro x hx; simp at hx; rw [hx]; decide)
theorem NoP.flatMap {α} (f : α → Str) (l : List α) (h : ∀ a ∈ l, NoP (f a)) : NoP (l.flatMap f) := by
  intro x hx
  obtain ⟨a, ha, hxa⟩ := List.mem_flatMap.mp hx
  exact h a ha x hxa
theorem showNat_noP (n : Nat) : NoP (showNat n) := by
  intro x hx hq
  have := showNat_digits n x hx
  subst hq
  simp [isDigit, cP] at this
theorem floatTok_noP {ty : FltTy} {t : Str} (h : FloatTok ty t) : NoP t := by
  intro x hx hq
  have := h.chars x hx
  subst hq
  rcases this with h | h | h | h | h | h
  · simp [isDigit, cP] at h
  all_goals simp [cP, cPlus, cMinus, cDot] at h
theorem sp_noP : NoP [cSP] := by intro x hx; simp at hx; rw [hx]; decide

theorem printPos_noP (p : Pos) (h : PosTok p) : NoP (printPos p) := by
  have h1 := floatTok_noP h.1
  have h2 := floatTok_noP h.2.1
  have h3 := floatTok_noP h.2.2
  have e : printPos p = line (p.1 ++ ([cSP] ++ (p.2.1 ++ ([cSP] ++ p.2.2)))) := by simp [printPos, line]
  rw [e]
  exact (h1.append (sp_noP.append (h2.append (sp_noP.append h3)))).line

theorem printEdge_noP (e : Nat × Nat) : NoP (printEdge e) := by
  have e0 : printEdge e = line (showNat e.1 ++ ([cSP] ++ showNat e.2)) := by simp [printEdge, line]
  rw [e0]
  exact ((showNat_noP _).append (sp_noP.append (showNat_noP _))).line

theorem spaced_noP : ∀ (hs : List Nat), NoP (spaced (hs.map showNat)) := by
  intro hs
  induction hs with
  | nil => intro x hx; simp [spaced] at hx
  | cons a t ih =>
    cases t with
    | nil => simpa [spaced] using showNat_noP a
    | cons b u =>
      have e : spaced ((a :: b :: u).map showNat) = showNat a ++ ([cSP] ++ spaced ((b :: u).map showNat)) := by
        simp [spaced]
      rw [e]
      exact (showNat_noP a).append (sp_noP.append ih)

theorem printHandles_noP (hs : List Nat) : NoP (printHandles hs) := by
  have e : printHandles hs = line (showNat hs.length ++ ([cSP] ++ spaced (hs.map showNat))) := by
    simp [printHandles, line]
  rw [e]
  exact ((showNat_noP _).append (sp_noP.append (spaced_noP hs))).line

/-- last character, if any, is a line end -/
def LastNL (l : Str) : Prop := ∀ z, l.getLast? = some z → z = cNL

theorem LastNL.endsSp {l : Str} (h : LastNL l) : EndsSp l := by
  intro init z hl
  have := h z (by rw [hl]; exact List.getLast?_concat)
  rw [this]; decide

theorem lastNL_line (a : Str) : LastNL (line a) := by
  intro z hz
  simp only [line, List.getLast?_concat, Option.some.injEq] at hz
  exact hz.symm

theorem LastNL.append {a b : Str} (ha : LastNL a) (hb : LastNL b) : LastNL (a ++ b) := by
  intro z hz
  rw [List.getLast?_append] at hz
  cases hb' : b.getLast? with
  | none => rw [hb'] at hz; simp at hz; exact ha z hz
  | some y => rw [hb'] at hz; simp at hz; rw [← hz]; exact hb y hb'

theorem lastNL_flatMap {α} (f : α → Str) (l : List α) (h : ∀ a ∈ l, LastNL (f a)) : LastNL (l.flatMap f) := by
  induction l with
  | nil => intro z hz; simp at hz
  | cons a t ih =>
    rw [List.flatMap_cons]
    exact (h a (by simp)).append (ih (fun b hb => h b (by simp [hb])))

theorem printHandles_lastNL (hs : List Nat) : LastNL (printHandles hs) := lastNL_line _

/-- everything `printTopo` writes in front of the keyword `Polyhedra` -/
def prePoly (F : AFile) : Str :=
  line (kw "OVM ASCII") ++ line (kw "Vertices") ++ line (showNat F.verts.length) ++ F.verts.flatMap printPos ++
  line (kw "Edges") ++ line (showNat F.edges.length) ++ F.edges.flatMap printEdge ++
  line (kw "Faces") ++ line (showNat F.faces.length) ++ F.faces.flatMap printHandles

theorem print_split (F : AFile) :
    print F = prePoly F ++ kPolyhedra ++ cNL :: (showNat F.cells.length ++ cNL ::
      (F.cells.flatMap printHandles ++ (sortedProps F).flatMap printProp)) := by
  rw [print_eq]
  simp [printTopo, prePoly, line, kPolyhedra]

theorem prePoly_noP (F : AFile) (hp : ∀ p ∈ F.verts, PosTok p) : NoP (prePoly F) := by
  have k1 : NoP (kw "OVM ASCII") := by unfold NoP; decide
  have k2 : NoP (kw "Vertices") := by unfold NoP; decide
  have k3 : NoP (kw "Edges") := by unfold NoP; decide
  have k4 : NoP (kw "Faces") := by unfold NoP; decide
  unfold prePoly
  exact ((((((((k1.line.append k2.line).append (showNat_noP _).line).append
    (NoP.flatMap _ _ (fun p hpm => printPos_noP p (hp p hpm)))).append k3.line).append (showNat_noP _).line).append
    (NoP.flatMap _ _ (fun e _ => printEdge_noP e))).append k4.line).append (showNat_noP _).line).append
    (NoP.flatMap _ _ (fun f _ => printHandles_noP f))

theorem lastNL_line_flat (a x : Str) (ls : List (List Nat)) : LastNL (a ++ line x ++ ls.flatMap printHandles) := by
  intro z hz
  rw [List.getLast?_append] at hz
  cases hb : (ls.flatMap printHandles).getLast? with
  | some y =>
    rw [hb] at hz; simp at hz; rw [← hz]
    exact lastNL_flatMap _ _ (fun f _ => printHandles_lastNL f) y hb
  | none =>
    rw [hb] at hz
    simp only [Option.none_or] at hz
    rw [List.getLast?_append] at hz
    simp only [line, List.getLast?_concat, Option.some_or, Option.some.injEq] at hz
    exact hz.symm

theorem prePoly_endsSp (F : AFile) : EndsSp (prePoly F) := by
  unfold prePoly
  exact (lastNL_line_flat _ _ _).endsSp

/-! ### the cell lines -/

theorem splitNL_line : ∀ (l rest : Str), (∀ c ∈ l, c ≠ cNL) → splitNL (l ++ cNL :: rest) = (l, some rest) := by
  intro l
  induction l with
  | nil => intro rest _; simp [splitNL]
  | cons c cs ih =>
    intro rest h
    have hc : (c == cNL) = false := by simpa using h c (by simp)
    simp only [List.cons_append, splitNL, hc, Bool.false_eq_true, if_false]
    rw [ih rest (fun x hx => h x (by simp [hx]))]

theorem getline256_line (l rest : Str) (hn : ∀ c ∈ l, c ≠ cNL) (hl : l.length ≤ 255) :
    getline256 (good (l ++ cNL :: rest)) = good rest := by
  simp [getline256, good, splitNL_line l rest hn, hl]

theorem showNatF_length : ∀ (f n k : Nat), n < f → n < 10 ^ k → 1 ≤ k → (showNatF f n).length ≤ k := by
  intro f
  induction f with
  | zero => intro n k h; omega
  | succ f ih =>
    intro n k hf hk h1
    simp only [showNatF]
    split
    · simp; exact h1
    · rename_i hn
      obtain ⟨k', rfl⟩ : ∃ k', k = k' + 1 := ⟨k - 1, by omega⟩
      have hk' : 1 ≤ k' := by
        cases k' with
        | zero => simp at hk; omega
        | succ j => omega
      have hd : n / 10 < 10 ^ k' := by
        rw [Nat.pow_succ] at hk
        exact Nat.div_lt_of_lt_mul (by omega)
      have := ih (n / 10) k' (by omega) hd hk'
      simp; omega

theorem showNat_length32 (n : Nat) (h : n < 2 ^ 32) : (showNat n).length ≤ 10 :=
  showNatF_length (n + 1) n 10 (by omega) (by
    have : (2 : Nat) ^ 32 < 10 ^ 10 := by decide
    omega) (by omega)

theorem spacedNums_length (hs : List Nat) (h : ∀ x ∈ hs, x < 2 ^ 32) : (spacedNums hs).length ≤ 11 * hs.length := by
  induction hs with
  | nil => simp [spacedNums]
  | cons a t ih =>
    have e : spacedNums (a :: t) = (cSP :: showNat a) ++ spacedNums t := by simp [spacedNums]
    have h1 := showNat_length32 a (h a (by simp))
    have h2 := ih (fun x hx => h x (by simp [hx]))
    rw [e]
    simp only [List.length_append, List.length_cons]
    omega

/-- behind the valence: the rest of a printed cell line -/
def restOfLine (c : List Nat) : Str := cSP :: spaced (c.map showNat)

theorem printHandles_split (c : List Nat) (tail : Str) :
    printHandles c ++ tail = showNat c.length ++ (restOfLine c ++ cNL :: tail) := by
  simp [printHandles, line, restOfLine]

theorem restOfLine_facts (c : List Nat) (h : ∀ x ∈ c, x < 2 ^ 32) :
    (∀ x ∈ restOfLine c, x ≠ cNL) ∧ (restOfLine c).length ≤ 11 * c.length + 1 ∧ Stops isDigit (restOfLine c ++ cNL :: ([] : Str)) := by
  refine ⟨?_, ?_, Or.inr ⟨cSP, _, rfl, by decide⟩⟩
  · cases c with
    | nil => intro x hx; simp [restOfLine, spaced] at hx; rw [hx]; decide
    | cons a t =>
      unfold restOfLine
      rw [spaced_eq (a :: t) (by simp)]
      exact spacedNums_noNL _
  · cases c with
    | nil => simp [restOfLine, spaced]
    | cons a t =>
      unfold restOfLine
      rw [spaced_eq (a :: t) (by simp)]
      have := spacedNums_length (a :: t) h
      omega

theorem detectLoop_printed (want : Nat) (hw : want ≤ 22) : ∀ (cs : List (List Nat)) (ws tail : Str) (v : Nat),
    AllSpace ws → (∀ c ∈ cs, (∀ x ∈ c, x < 2 ^ 32) ∧ c.length < 2 ^ 32) →
    detectLoop want cs.length (good (ws ++ cs.flatMap printHandles ++ tail)) v = cs.all (fun c => c.length == want) := by
  intro cs
  induction cs with
  | nil => intro ws tail v _ _; rfl
  | cons c cs ih =>
    intro ws tail v hws hb
    obtain ⟨hx, hl⟩ := hb c (by simp)
    obtain ⟨r1, r2, _⟩ := restOfLine_facts c hx
    have e0 : ws ++ (c :: cs).flatMap printHandles ++ tail =
        ws ++ showNat c.length ++ (restOfLine c ++ cNL :: (cs.flatMap printHandles ++ tail)) := by
      simp only [List.flatMap_cons, List.append_assoc]
      rw [printHandles_split]
    have x := extractInt_nat .u32 ws (restOfLine c ++ cNL :: (cs.flatMap printHandles ++ tail)) c.length hws
      (Or.inr ⟨cSP, _, rfl, by decide⟩) (fits_u32 _ hl)
    have g : ({ rest := restOfLine c ++ cNL :: (cs.flatMap printHandles ++ tail),
                eof := (restOfLine c ++ cNL :: (cs.flatMap printHandles ++ tail)).isEmpty, fail := false } : IStream) =
        good (restOfLine c ++ cNL :: (cs.flatMap printHandles ++ tail)) := by simp [good, restOfLine]
    simp only [List.length_cons, detectLoop, List.all_cons]
    rw [e0, x, g]
    simp only [Int.toNat_natCast]
    by_cases hcw : c.length = want
    · have hlen : (restOfLine c).length ≤ 255 := by omega
      rw [getline256_line _ _ r1 hlen]
      have := ih [] tail c.length allSpace_nil (fun d hd => hb d (by simp [hd]))
      simp only [List.nil_append] at this
      rw [this]
      simp [hcw]
    · simp [hcw]

/-- **type detection on a written file** (`want = 4`: isTetrahedralMesh, `want = 6`: isHexahedralMesh) -/
theorem detect_print (lim want : Nat) (hw : want ≤ 22) (F : AFile) (hwf : WFTopo lim F) :
    detect want (print F) = (!F.cells.isEmpty && F.cells.all (fun c => c.length == want)) := by
  have h31 := hwf.lim31
  have p31 : (2 : Nat) ^ 31 = 2147483648 := by decide
  have p32 : (2 : Nat) ^ 32 = 4294967296 := by decide
  have hnC := hwf.nC
  have hnF := hwf.nF
  have hseek := seek_found cNL (showNat F.cells.length ++ cNL ::
      (F.cells.flatMap printHandles ++ (sortedProps F).flatMap printProp)) (by decide)
    (prePoly F).length (prePoly F) ((print F).length + 1) [] (Nat.le_refl _)
    (by rw [print_split]; simp only [List.length_append]; omega) (prePoly_endsSp F) (prePoly_noP F hwf.posTok)
  have hin : IStream.ofStr (print F) = good (prePoly F ++ kPolyhedra ++ cNL :: (showNat F.cells.length ++ cNL ::
      (F.cells.flatMap printHandles ++ (sortedProps F).flatMap printProp))) := by
    rw [print_split]; rfl
  have x := extractInt_nat .u32 [cNL] (cNL :: (F.cells.flatMap printHandles ++ (sortedProps F).flatMap printProp))
    F.cells.length (by intro c hc; simp at hc; rw [hc]; decide) (Or.inr ⟨cNL, _, rfl, by decide⟩) (fits_u32 _ (by omega))
  have g1 : ({ rest := cNL :: (showNat F.cells.length ++ cNL :: (F.cells.flatMap printHandles ++ (sortedProps F).flatMap printProp)),
               eof := false } : IStream) =
      good ([cNL] ++ showNat F.cells.length ++ cNL :: (F.cells.flatMap printHandles ++ (sortedProps F).flatMap printProp)) := by
    simp [good]
  have g2 : ({ rest := cNL :: (F.cells.flatMap printHandles ++ (sortedProps F).flatMap printProp),
               eof := (cNL :: (F.cells.flatMap printHandles ++ (sortedProps F).flatMap printProp)).isEmpty, fail := false } : IStream) =
      good ([cNL] ++ F.cells.flatMap printHandles ++ (sortedProps F).flatMap printProp) := by
    simp [good]
  have hloop := detectLoop_printed want hw F.cells [cNL] ((sortedProps F).flatMap printProp) 0
    (by intro c hc; simp at hc; rw [hc]; decide)
    (fun c hc => ⟨fun y hy => by have := hwf.cells c hc y hy; omega, by have := hwf.cval c hc; omega⟩)
  unfold detect
  simp only [hin, hseek, g1, x, g2, natOf, Option.getD_some, Int.toNat_natCast]
  cases hc : F.cells with
  | nil => simp
  | cons c cs =>
    rw [hc] at hloop
    simp only [List.length_cons] at hloop
    have he : ∀ r : Str, (good r).eof = false := fun _ => rfl
    simp only [List.length_cons, List.isEmpty_cons, Bool.not_false, Bool.true_and, he, Bool.false_eq_true, if_false]
    rw [hloop]
    simp

end OVM.Ascii

import OVM.IO.Ascii.Parse
/-
  Round trip, part 1 (proof-only file): decimal printing and the integer extractor.
-/
namespace OVM.Ascii

/-! ### lists -/

theorem takeWhile_append_stop {α} (p : α → Bool) (a b : List α) (ha : ∀ x ∈ a, p x = true)
    (hb : b = [] ∨ ∃ c t, b = c :: t ∧ p c = false) : (a ++ b).takeWhile p = a := by
  induction a with
  | nil =>
    rcases hb with rfl | ⟨c, t, rfl, hc⟩
    · simp
    · simp [hc]
  | cons x xs ih =>
    have hx : p x = true := ha x (by simp)
    simp only [List.cons_append, List.takeWhile, hx]
    rw [ih (fun y hy => ha y (by simp [hy]))]

theorem dropWhile_append_stop {α} (p : α → Bool) (a b : List α) (ha : ∀ x ∈ a, p x = true)
    (hb : b = [] ∨ ∃ c t, b = c :: t ∧ p c = false) : (a ++ b).dropWhile p = b := by
  induction a with
  | nil =>
    rcases hb with rfl | ⟨c, t, rfl, hc⟩
    · simp
    · simp [hc]
  | cons x xs ih =>
    have hx : p x = true := ha x (by simp)
    simp only [List.cons_append, List.dropWhile, hx]
    exact ih (fun y hy => ha y (by simp [hy]))

/-- "the next character, if any, does not satisfy `p`" -/
def Stops (p : Nat → Bool) (r : Str) : Prop := r = [] ∨ ∃ c t, r = c :: t ∧ p c = false

theorem stops_cons (p : Nat → Bool) (c : Nat) (t : Str) (h : p c = false) : Stops p (c :: t) := Or.inr ⟨c, t, rfl, h⟩
theorem stops_nil (p : Nat → Bool) : Stops p [] := Or.inl rfl

/-! ### decimal digits -/

theorem showNatF_spec : ∀ (f n : Nat), n < f →
    (showNatF f n ≠ []) ∧ (∀ c ∈ showNatF f n, isDigit c = true) ∧
    (∀ acc, (showNatF f n).foldl (fun a d => a * 10 + (d - 48)) acc = acc * 10 ^ (showNatF f n).length + n) := by
  intro f
  induction f with
  | zero => intro n h; omega
  | succ f ih =>
    intro n h
    simp only [showNatF]
    split
    · rename_i hn
      refine ⟨by simp, ?_, ?_⟩
      · intro c hc; simp at hc; subst hc; simp only [isDigit, Bool.and_eq_true, decide_eq_true_eq]; omega
      · intro acc; simp
    · rename_i hn
      have hlt : n / 10 < f := by omega
      obtain ⟨h1, h2, h3⟩ := ih (n / 10) hlt
      refine ⟨by simp, ?_, ?_⟩
      · intro c hc
        rcases List.mem_append.mp hc with hc | hc
        · exact h2 c hc
        · simp at hc; subst hc; simp only [isDigit, Bool.and_eq_true, decide_eq_true_eq]; omega
      · intro acc
        rw [List.foldl_append, h3 acc]
        simp only [List.foldl_cons, List.foldl_nil, List.length_append, List.length_singleton, Nat.pow_succ]
        have : 48 + n % 10 - 48 = n % 10 := by omega
        rw [this]
        have hd := Nat.div_add_mod n 10
        generalize 10 ^ (showNatF f (n / 10)).length = P
        have e1 : (acc * P + n / 10) * 10 = acc * (P * 10) + 10 * (n / 10) := by
          rw [Nat.add_mul, Nat.mul_assoc, Nat.mul_comm (n / 10) 10]
        rw [e1]; omega

theorem showNat_ne_nil (n : Nat) : showNat n ≠ [] := (showNatF_spec (n + 1) n (by omega)).1
theorem showNat_digits (n : Nat) : ∀ c ∈ showNat n, isDigit c = true := (showNatF_spec (n + 1) n (by omega)).2.1
theorem digitsVal_showNat (n : Nat) : digitsVal (showNat n) = n := by
  have := (showNatF_spec (n + 1) n (by omega)).2.2 0
  simpa [digitsVal, showNat] using this

theorem showNat_head (n : Nat) : ∃ c t, showNat n = c :: t ∧ isDigit c = true := by
  cases h : showNat n with
  | nil => exact absurd h (showNat_ne_nil n)
  | cons c t => exact ⟨c, t, rfl, showNat_digits n c (by rw [h]; simp)⟩

theorem isDigit_not_space {c : Nat} (h : isDigit c = true) : isSpace c = false := by
  simp only [isDigit, Bool.and_eq_true, decide_eq_true_eq] at h
  cases hd : isSpace c with
  | false => rfl
  | true =>
    simp only [isSpace, Bool.or_eq_true, beq_iff_eq, Bool.and_eq_true, decide_eq_true_eq] at hd
    omega

theorem isDigit_not_trim {c : Nat} (h : isDigit c = true) : isTrim c = false := by
  simp only [isDigit, Bool.and_eq_true, decide_eq_true_eq] at h
  cases hd : isTrim c with
  | false => rfl
  | true =>
    simp only [isTrim, Bool.or_eq_true, beq_iff_eq] at hd
    omega

/-! ### the integer extractor on printed numbers -/

def good (r : Str) : IStream := { rest := r }

/-- a run of white space -/
def AllSpace (ws : Str) : Prop := ∀ c ∈ ws, isSpace c = true

theorem sentry_good (ws a r : Str) (hws : AllSpace ws) (ha : ∃ c t, a = c :: t ∧ isSpace c = false) :
    sentry (good (ws ++ a ++ r)) = (good (a ++ r), true) := by
  obtain ⟨c, t, rfl, hc⟩ := ha
  unfold sentry good
  simp only [Bool.false_eq_true, Bool.or_self, if_false]
  have : (ws ++ (c :: t) ++ r).dropWhile isSpace = (c :: t) ++ r := by
    rw [List.append_assoc]
    exact dropWhile_append_stop isSpace ws _ hws (Or.inr ⟨c, t ++ r, by simp, hc⟩)
  rw [this]
  simp

theorem extractInt_nat (ty : IntTy) (ws r : Str) (n : Nat) (hws : AllSpace ws) (hr : Stops isDigit r)
    (hfit : finishInt ty false (some n) = ((n : Int), false)) :
    extractInt ty (good (ws ++ showNat n ++ r)) = (some (n : Int), { rest := r, eof := r.isEmpty, fail := false }) := by
  obtain ⟨c, t, hct, hc⟩ := showNat_head n
  have hs := sentry_good ws (showNat n) r hws ⟨c, t, hct, isDigit_not_space hc⟩
  unfold extractInt
  rw [hs]
  simp only
  have hneg : ((good (showNat n ++ r)).rest.head? == some cMinus) = false := by
    simp only [good, hct, List.cons_append, List.head?_cons]
    simp only [isDigit, Bool.and_eq_true, decide_eq_true_eq] at hc
    simp [cMinus]; omega
  have hplus : ((good (showNat n ++ r)).rest.head? == some cPlus) = false := by
    simp only [good, hct, List.cons_append, List.head?_cons]
    simp only [isDigit, Bool.and_eq_true, decide_eq_true_eq] at hc
    simp [cPlus]; omega
  rw [hneg, hplus]
  simp only [Bool.or_self, Bool.false_eq_true, if_false, good]
  rw [takeWhile_append_stop isDigit _ _ (showNat_digits n) hr, dropWhile_append_stop isDigit _ _ (showNat_digits n) hr]
  have hne : (showNat n).isEmpty = false := by rw [hct]; rfl
  rw [hne]
  simp only [Bool.false_eq_true, if_false, digitsVal_showNat, hfit]

/-- the value survives `operator>>` of the type: exactly what `finishInt` checks -/
def FitsInt (ty : IntTy) (i : Int) : Prop := finishInt ty (decide (i < 0)) (some i.natAbs) = (i, false)

instance (ty : IntTy) (i : Int) : Decidable (FitsInt ty i) := by unfold FitsInt; infer_instance

theorem minus_not_space : isSpace cMinus = false := by decide

theorem extractInt_neg (ty : IntTy) (ws r : Str) (m : Nat) (hws : AllSpace ws) (hr : Stops isDigit r)
    (hfit : finishInt ty true (some (m + 1)) = (Int.negSucc m, false)) :
    extractInt ty (good (ws ++ showInt (Int.negSucc m) ++ r)) =
      (some (Int.negSucc m), { rest := r, eof := r.isEmpty, fail := false }) := by
  have hs := sentry_good ws (showInt (Int.negSucc m)) r hws ⟨cMinus, showNat (m + 1), rfl, minus_not_space⟩
  unfold extractInt
  rw [hs]
  simp only [showInt, good, List.cons_append, List.head?_cons, beq_self_eq_true, Bool.true_or, if_true, List.tail_cons]
  rw [takeWhile_append_stop isDigit _ _ (showNat_digits _) hr, dropWhile_append_stop isDigit _ _ (showNat_digits _) hr]
  obtain ⟨c, t, hct, _⟩ := showNat_head (m + 1)
  have hne : (showNat (m + 1)).isEmpty = false := by rw [hct]; rfl
  rw [hne]
  simp only [Bool.false_eq_true, if_false, digitsVal_showNat, hfit]

theorem extractInt_int (ty : IntTy) (ws r : Str) (i : Int) (hws : AllSpace ws) (hr : Stops isDigit r)
    (hfit : FitsInt ty i) :
    extractInt ty (good (ws ++ showInt i ++ r)) = (some i, { rest := r, eof := r.isEmpty, fail := false }) := by
  cases i with
  | ofNat n =>
    have : finishInt ty false (some n) = ((n : Int), false) := by
      have h := hfit
      simp only [FitsInt] at h
      have hneg : decide ((Int.ofNat n) < 0) = false := by
        simp only [decide_eq_false_iff_not, Int.not_lt]; exact Int.natCast_nonneg n
      rw [hneg] at h
      exact h
    simpa [showInt] using extractInt_nat ty ws r n hws hr this
  | negSucc m =>
    have : finishInt ty true (some (m + 1)) = (Int.negSucc m, false) := by
      have h := hfit
      simp only [FitsInt, Int.natAbs_negSucc, Nat.succ_eq_add_one] at h
      have hneg : decide (Int.negSucc m < 0) = true := by simp [Int.negSucc_lt_zero]
      rw [hneg] at h
      exact h
    exact extractInt_neg ty ws r m hws hr this

/-! ### floating tokens -/

/-- all characters of `t` are consumed by the automaton started in `st`, ending in `st'` -/
def fRunAll (st : FSt) : Str → Option FSt
  | [] => some st
  | c :: cs => match fStep st c with
    | some st' => fRunAll st' cs
    | none => none

theorem fRun_append (t r : Str) : ∀ (st st' : FSt), fRunAll st t = some st' → fRun st (t ++ r) = fRun st' r := by
  induction t with
  | nil => intro st st' h; simp [fRunAll] at h; subst h; rfl
  | cons c cs ih =>
    intro st st' h
    simp only [fRunAll] at h
    simp only [List.cons_append, fRun]
    split at h
    · rename_i st1 h1
      rw [h1]
      exact ih st1 st' h
    · simp at h

/-- a character the automaton never accepts, in any state: white space in particular -/
def FloatStop (c : Nat) : Prop := ∀ st, fStep st c = none

theorem fMain_space (st : FSt) (c : Nat) (h : isSpace c = true) : fMain st c = none := by
  simp only [isSpace, Bool.or_eq_true, beq_iff_eq, Bool.and_eq_true, decide_eq_true_eq] at h
  have h1 : (c == cPlus) = false := by simp [cPlus]; omega
  have h2 : (c == cMinus) = false := by simp [cMinus]; omega
  have h3 : isDigit c = false := by
    cases hd : isDigit c with
    | false => rfl
    | true => simp only [isDigit, Bool.and_eq_true, decide_eq_true_eq] at hd; omega
  have h4 : (c == cDot) = false := by simp [cDot]; omega
  have h5 : (c == 101) = false := by simp; omega
  have h6 : (c == 69) = false := by simp; omega
  simp [fMain, h1, h2, h3, h4, h5, h6]

theorem floatStop_space (c : Nat) (h : isSpace c = true) : FloatStop c := by
  intro st
  have hs := h
  simp only [isSpace, Bool.or_eq_true, beq_iff_eq, Bool.and_eq_true, decide_eq_true_eq] at hs
  have h1 : (c == cPlus) = false := by simp [cPlus]; omega
  have h2 : (c == cMinus) = false := by simp [cMinus]; omega
  have h0 : (c == cZero) = false := by simp [cZero]; omega
  simp only [fStep, h1, h2, Bool.or_self, Bool.and_false, Bool.false_eq_true, if_false, h0]
  split <;> exact fMain_space _ _ h

/-- `t` is a floating literal that `operator>>` reads back verbatim -/
structure FloatTok (ty : FltTy) (t : Str) : Prop where
  run : ∃ st, fRunAll {} t = some st ∧ st.acc = t ∧ st.accepts = true
  fin : ty.overflows t = false
  ne : ∃ c r, t = c :: r

theorem fStep_some_not_space (st st' : FSt) (c : Nat) (h : fStep st c = some st') : isSpace c = false := by
  cases hs : isSpace c with
  | false => rfl
  | true => rw [floatStop_space c hs st] at h; simp at h

theorem FloatTok.head_not_space {ty : FltTy} {t : Str} (h : FloatTok ty t) : ∃ c r, t = c :: r ∧ isSpace c = false := by
  obtain ⟨c, r, rfl⟩ := h.ne
  obtain ⟨st, hr, _, _⟩ := h.run
  simp only [fRunAll] at hr
  split at hr
  · rename_i st1 h1
    exact ⟨c, r, rfl, fStep_some_not_space _ _ _ h1⟩
  · simp at hr

theorem extractFloat_tok (ty : FltTy) (ws t r : Str) (hws : AllSpace ws) (ht : FloatTok ty t)
    (hr : r = [] ∨ ∃ c r', r = c :: r' ∧ FloatStop c) :
    extractFloat ty (good (ws ++ t ++ r)) = (some t, { rest := r, eof := r.isEmpty, fail := false }) := by
  have hs := sentry_good ws t r hws ht.head_not_space
  obtain ⟨st, hrun, hacc, hok⟩ := ht.run
  have hstop : fRun st r = (st, r) := by
    rcases hr with rfl | ⟨c, r', rfl, hc⟩
    · rfl
    · simp [fRun, hc st]
  have hfull : fRun {} (t ++ r) = (st, r) := by rw [fRun_append t r {} st hrun, hstop]
  unfold extractFloat
  rw [hs]
  simp only [good, hfull, hok, hacc, ht.fin, Bool.not_true, Bool.false_eq_true, if_false]

/-! ### characters, words -/

theorem extractChar_good (ws r : Str) (c : Nat) (hws : AllSpace ws) (hc : isSpace c = false) :
    extractChar (good (ws ++ c :: r)) = (some c, good r) := by
  have hs := sentry_good ws [c] r hws ⟨c, [], rfl, hc⟩
  simp only [List.append_assoc, List.singleton_append] at hs
  unfold extractChar
  rw [hs]
  rfl

theorem extractWord_good (ws w r : Str) (hws : AllSpace ws) (hw : ∀ c ∈ w, isSpace c = false)
    (hne : ∃ c t, w = c :: t) (hr : r = [] ∨ ∃ c t, r = c :: t ∧ isSpace c = true) :
    extractWord (good (ws ++ w ++ r)) = (some w, { rest := r, eof := r.isEmpty }) := by
  obtain ⟨c, t, rfl⟩ := hne
  have hs := sentry_good ws (c :: t) r hws ⟨c, t, rfl, hw c (by simp)⟩
  unfold extractWord
  rw [hs]
  simp only [good]
  have hp : ∀ x ∈ c :: t, (fun c => !isSpace c) x = true := fun x hx => by simp [hw x hx]
  have hstop : r = [] ∨ ∃ c' t', r = c' :: t' ∧ (fun c => !isSpace c) c' = false := by
    rcases hr with h | ⟨c', t', h, hc'⟩
    · exact Or.inl h
    · exact Or.inr ⟨c', t', h, by simp [hc']⟩
  rw [takeWhile_append_stop _ _ _ hp hstop, dropWhile_append_stop _ _ _ hp hstop]

end OVM.Ascii

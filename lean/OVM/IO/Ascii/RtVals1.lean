import OVM.IO.Ascii.RtValSpec
/-
  Round trip, part 7a (proof-only file): the value readers on printed values, bottom-up —
  scalars (`readSc_printed`), tuples (`readTup_printed`), vectors (`readElems_printed`,
  `readVec_printed`, `readVecs_printed`) and maps (`mapInsert_append`, `readMapLoop_printed`).
-/
namespace OVM.Ascii

theorem stops_digit_space (c : Nat) (t : Str) (h : isSpace c = true) : Stops isDigit (c :: t) := by
  apply stops_cons
  cases hd : isDigit c with
  | false => rfl
  | true => rw [isDigit_not_space hd] at h; simp at h

theorem good_cons (c : Nat) (t : Str) :
    ({ rest := c :: t, eof := (c :: t).isEmpty, fail := false } : IStream) = good (c :: t) := rfl

theorem nl_isSpace : isSpace cNL = true := by decide

theorem readSc_int (lim : Nat) (s : Sc) (ty : IntTy) (hty : s.intTy = some ty) (old : Atom) (ws more : Str)
    (i : Int) (c : Nat) (hws : AllSpace ws) (hc : isSpace c = true) (hfit : FitsInt ty i) :
    readSc lim s old (good (ws ++ showInt i ++ c :: more)) = .ok (.int i, good (c :: more)) := by
  have e := extractInt_int ty ws (c :: more) i hws (stops_digit_space c more hc) hfit
  rw [good_cons] at e
  cases s <;> simp only [Sc.intTy, Option.some.injEq, reduceCtorEq] at hty <;> subst hty <;>
    simp only [readSc, e, Option.map_some, Option.getD_some]

theorem readSc_flt (lim : Nat) (s : Sc) (t : Str) (old : Atom) (ws more : Str) (c : Nat)
    (hws : AllSpace ws) (hc : isSpace c = true)
    (ht : (s = .f32 ∧ FloatTok .f32 t) ∨ (s = .f64 ∧ FloatTok .f64 t)) :
    readSc lim s old (good (ws ++ t ++ c :: more)) = .ok (.flt t, good (c :: more)) := by
  rcases ht with ⟨rfl, ht⟩ | ⟨rfl, ht⟩
  · have e := extractFloat_tok .f32 ws t (c :: more) hws ht (Or.inr ⟨c, more, rfl, floatStop_space c hc⟩)
    rw [good_cons] at e
    simp only [readSc, e, Option.map_some, Option.getD_some]
  · have e := extractFloat_tok .f64 ws t (c :: more) hws ht (Or.inr ⟨c, more, rfl, floatStop_space c hc⟩)
    rw [good_cons] at e
    simp only [readSc, e, Option.map_some, Option.getD_some]

theorem readSc_chr (lim : Nat) (s : Sc) (x : Nat) (old : Atom) (ws r : Str)
    (hws : AllSpace ws) (hs : s = .chr ∨ s = .uchr) (hx : isSpace x = false) :
    readSc lim s old (good (ws ++ [x] ++ r)) = .ok (.chr x, good r) := by
  have e := extractChar_good ws r x hws hx
  have l : ws ++ [x] ++ r = ws ++ x :: r := by simp
  rw [l]
  rcases hs with rfl | rfl <;> simp only [readSc, e, Option.map_some, Option.getD_some]

theorem readSc_str (lim : Nat) (hlim : lim < 2 ^ 31) (b : Str) (old : Atom) (ws r : Str)
    (hws : AllSpace ws) (hb : b.length ≤ lim) (hold : b = [] → old = .str []) :
    readSc lim .str old (good (ws ++ (showNat b.length ++ cColon :: b) ++ r)) = .ok (.str b, good r) := by
  have l : ws ++ (showNat b.length ++ cColon :: b) ++ r = ws ++ showNat b.length ++ cColon :: (b ++ r) := by simp
  have e1 := extractInt_nat .u64 ws (cColon :: (b ++ r)) b.length hws (stops_cons _ _ _ (by decide))
    (fits_u64 _ (by have : (2:Nat) ^ 31 < 2 ^ 64 := by decide
                    omega))
  rw [good_cons] at e1
  have e2 := extractChar_good [] (b ++ r) cColon allSpace_nil (by decide)
  rw [List.nil_append] at e2
  rw [l]
  simp only [readSc, e1, e2, natOf, Option.getD_some, Int.toNat_natCast]
  cases b with
  | nil => simp [good, IStream.ok, hold rfl]
  | cons x t =>
    have h1 : t.length + 1 ≤ lim := by simpa using hb
    simp [good, IStream.ok, readRaw, h1]

/-- one scalar, followed by a white-space character -/
theorem readSc_printed (lim : Nat) (hlim : lim < 2 ^ 31) (s : Sc) (a old : Atom) (ws more : Str) (c : Nat)
    (hws : AllSpace ws) (hc : isSpace c = true) (ha : WFAtom lim s a)
    (hold : a = .str [] → old = .str []) :
    readSc lim s old (good (ws ++ printAtom a ++ c :: more)) = .ok (a, good (c :: more)) := by
  cases a with
  | int i =>
    obtain ⟨ty, hty, hfit⟩ := ha
    exact readSc_int lim s ty hty old ws more i c hws hc hfit
  | chr x => exact readSc_chr lim s x old ws (c :: more) hws ha.1 ha.2
  | flt t => exact readSc_flt lim s t old ws more c hws hc ha
  | str b =>
    obtain ⟨rfl, hb⟩ := ha
    exact readSc_str lim hlim b old ws (c :: more) hws hb (fun h => hold (by rw [h]))
  | unk => exact absurd ha (by simp [WFAtom])


theorem allSpace_nl : AllSpace [cNL] := AllNL.single.allSpace

/-! ### tuples -/

theorem readTup_printed (lim : Nat) (hlim : lim < 2 ^ 31) (s : Sc) :
    ∀ (as olds : List Atom) (ws more : Str) (c : Nat) (acc : List Atom),
    as ≠ [] → olds.length = as.length → AllSpace ws → isSpace c = true → (∀ a ∈ as, WFAtom lim s a) →
    (s = .str → ∀ o ∈ olds, o = .str []) →
    readTup lim s olds (good (ws ++ spaced (as.map printAtom) ++ c :: more)) acc =
      .ok (acc.reverse ++ as, good (c :: more)) := by
  intro as
  induction as with
  | nil => intro _ _ _ _ _ h; exact absurd rfl h
  | cons a t ih =>
    intro olds ws more c acc _ hlen hws hc hwf hold
    cases olds with
    | nil => simp at hlen
    | cons o os =>
      have hlen' : os.length = t.length := by simpa using hlen
      have hoa : a = .str [] → o = .str [] := by
        intro h
        have hw := hwf a (by simp)
        rw [h] at hw
        exact hold hw.1 o (by simp)
      cases t with
      | nil =>
        have hos : os = [] := List.length_eq_zero_iff.mp hlen'
        subst hos
        have e := readSc_printed lim hlim s a o ws more c hws hc (hwf a (by simp)) hoa
        simp only [List.map_cons, List.map_nil, spaced, readTup, e, List.reverse_cons]
      | cons b t' =>
        have l : ws ++ spaced ((a :: b :: t').map printAtom) ++ c :: more =
            ws ++ printAtom a ++ cSP :: ([] ++ spaced ((b :: t').map printAtom) ++ c :: more) := by
          simp [spaced]
        have e := readSc_printed lim hlim s a o ws ([] ++ spaced ((b :: t').map printAtom) ++ c :: more) cSP hws
          space_isSpace (hwf a (by simp)) hoa
        rw [l]
        simp only [readTup, e]
        have l2 : cSP :: ([] ++ spaced ((b :: t').map printAtom) ++ c :: more) =
            [cSP] ++ spaced ((b :: t').map printAtom) ++ c :: more := by simp
        rw [l2, ih os [cSP] more c (a :: acc) (by simp) hlen' allSpace_sp hc
          (fun x hx => hwf x (by simp [hx])) (fun hs x hx => hold hs x (by simp [hx]))]
        simp

theorem tupAtoms_length (n : Nat) (old : Val) : (old.tupAtoms n).length = n := by
  cases old <;> simp only [Val.tupAtoms, List.length_replicate]
  split
  · rename_i h; simpa using h
  · simp

/-! ### vectors -/

theorem readElems_printed (lim : Nat) (hlim : lim < 2 ^ 31) (s : Sc) :
    ∀ (as : List Atom) (more : Str) (acc : List Atom), (∀ a ∈ as, WFAtom lim s a) →
    readElems lim s as.length (good (cNL :: (as.flatMap (fun a => line (printAtom a)) ++ more))) acc =
      .ok (acc.reverse ++ as, good (cNL :: more)) := by
  intro as
  induction as with
  | nil => intro more acc _; simp [readElems]
  | cons a t ih =>
    intro more acc hwf
    have l : cNL :: ((a :: t).flatMap (fun a => line (printAtom a)) ++ more) =
        [cNL] ++ printAtom a ++ cNL :: (t.flatMap (fun a => line (printAtom a)) ++ more) := by
      simp [line]
    have hd : a = .str [] → defaultAtom s = .str [] := by
      intro h
      have hw := hwf a (by simp)
      rw [h] at hw
      rw [hw.1]; rfl
    have e := readSc_printed lim hlim s a (defaultAtom s) [cNL] (t.flatMap (fun a => line (printAtom a)) ++ more) cNL
      allSpace_nl nl_isSpace (hwf a (by simp)) hd
    rw [l]
    simp only [List.length_cons, readElems, e]
    rw [ih more (a :: acc) (fun x hx => hwf x (by simp [hx]))]
    simp

theorem lt64_of_le_lim {lim n : Nat} (hlim : lim < 2 ^ 31) (h : n ≤ lim) : n < 2 ^ 64 := by
  have : (2:Nat) ^ 31 < 2 ^ 64 := by decide
  omega

theorem readVec_printed (lim : Nat) (hlim : lim < 2 ^ 31) (s : Sc) (as : List Atom) (ws more : Str)
    (hws : AllSpace ws) (hlen : as.length ≤ lim) (hwf : ∀ a ∈ as, WFAtom lim s a) :
    readVec lim s (good (ws ++ printVec as ++ more)) = .ok (as, good (cNL :: more)) := by
  have l : ws ++ printVec as ++ more =
      ws ++ showNat as.length ++ cNL :: (as.flatMap (fun a => line (printAtom a)) ++ more) := by
    simp [printVec, line]
  have e := extractInt_nat .u64 ws (cNL :: (as.flatMap (fun a => line (printAtom a)) ++ more)) as.length hws
    (stops_digit_space _ _ nl_isSpace) (fits_u64 _ (lt64_of_le_lim hlim hlen))
  rw [good_cons] at e
  have h1 : ¬ lim < as.length := by omega
  rw [l]
  simp only [readVec, e, natOf, Option.getD_some, Int.toNat_natCast, h1, if_false]
  rw [readElems_printed lim hlim s as more [] hwf]
  simp

theorem readVecs_printed (lim : Nat) (hlim : lim < 2 ^ 31) (s : Sc) :
    ∀ (ass : List (List Atom)) (ws more : Str) (acc : List (List Atom)), AllNL ws →
    (∀ as ∈ ass, as.length ≤ lim ∧ ∀ a ∈ as, WFAtom lim s a) →
    ∃ ws', AllNL ws' ∧
      readVecs lim s ass.length (good (ws ++ ass.flatMap (fun as => line (printVec as)) ++ more)) acc =
        .ok (acc.reverse ++ ass, good (ws' ++ more)) := by
  intro ass
  induction ass with
  | nil => intro ws more acc hws _; exact ⟨ws, hws, by simp [readVecs]⟩
  | cons as t ih =>
    intro ws more acc hws hwf
    obtain ⟨h1, h2⟩ := hwf as (by simp)
    have l : ws ++ (as :: t).flatMap (fun as => line (printVec as)) ++ more =
        ws ++ printVec as ++ ([cNL] ++ t.flatMap (fun as => line (printVec as)) ++ more) := by
      simp [line]
    have e := readVec_printed lim hlim s as ws ([cNL] ++ t.flatMap (fun as => line (printVec as)) ++ more)
      hws.allSpace h1 h2
    have l2 : cNL :: ([cNL] ++ t.flatMap (fun as => line (printVec as)) ++ more) =
        [cNL, cNL] ++ t.flatMap (fun as => line (printVec as)) ++ more := by simp
    obtain ⟨ws', hws', e'⟩ := ih [cNL, cNL] more (as :: acc) (AllNL.append AllNL.single AllNL.single)
      (fun x hx => hwf x (by simp [hx]))
    refine ⟨ws', hws', ?_⟩
    rw [l]
    simp only [List.length_cons, readVecs, e]
    rw [l2, e']
    simp

/-! ### maps -/

theorem mapInsert_append : ∀ (acc : List (Int × Int)) (k v : Int), (∀ p ∈ acc, p.1 < k) →
    mapInsert acc k v = acc ++ [(k, v)] := by
  intro acc
  induction acc with
  | nil => intro k v _; rfl
  | cons p t ih =>
    intro k v h
    obtain ⟨k', v'⟩ := p
    have hk : k' < k := h (k', v') (by simp)
    have h1 : ¬ k < k' := by omega
    have h2 : ¬ k = k' := by omega
    simp only [mapInsert, h1, h2, if_false, List.cons_append]
    rw [ih k v (fun q hq => h q (by simp [hq]))]

theorem readMapLoop_printed : ∀ (kvs : List (Int × Int)) (more : Str) (acc : List (Int × Int)),
    (∀ kv ∈ kvs, FitsInt .i32 kv.1 ∧ FitsInt .i32 kv.2) → (acc ++ kvs).Pairwise (fun a b => a.1 < b.1) →
    readMapLoop kvs.length
      (good (cNL :: (kvs.flatMap (fun kv => line (showInt kv.1) ++ line (showInt kv.2)) ++ more))) acc =
      (acc ++ kvs, good (cNL :: more)) := by
  intro kvs
  induction kvs with
  | nil => intro more acc _ _; simp [readMapLoop]
  | cons kv t ih =>
    intro more acc hfit hp
    obtain ⟨k, v⟩ := kv
    obtain ⟨hk, hv⟩ := hfit (k, v) (by simp)
    let R := t.flatMap (fun kv => line (showInt kv.1) ++ line (showInt kv.2)) ++ more
    have l : cNL :: (((k, v) :: t).flatMap (fun kv => line (showInt kv.1) ++ line (showInt kv.2)) ++ more) =
        [cNL] ++ showInt k ++ cNL :: (showInt v ++ cNL :: R) := by
      simp [line, R]
    have e1 := extractInt_int .i32 [cNL] (cNL :: (showInt v ++ cNL :: R)) k allSpace_nl
      (stops_digit_space _ _ nl_isSpace) hk
    rw [good_cons] at e1
    have e2 := extractInt_int .i32 [cNL] (cNL :: R) v allSpace_nl (stops_digit_space _ _ nl_isSpace) hv
    rw [good_cons] at e2
    have l2 : cNL :: (showInt v ++ cNL :: R) = [cNL] ++ showInt v ++ cNL :: R := by simp
    have hins : mapInsert acc k v = acc ++ [(k, v)] := by
      apply mapInsert_append
      intro p hp'
      rw [List.pairwise_append] at hp
      exact hp.2.2 p hp' (k, v) (by simp)
    have hok : (good ([cNL] ++ showInt k ++ cNL :: (showInt v ++ cNL :: R))).ok = true := rfl
    rw [l]
    simp only [List.length_cons, readMapLoop, hok, Bool.not_true, Bool.false_eq_true, if_false, e1]
    rw [l2, e2]
    simp only [Option.getD_some, hins]
    rw [ih more (acc ++ [(k, v)]) (fun x hx => hfit x (by simp [hx])) (by simpa using hp)]
    simp

end OVM.Ascii

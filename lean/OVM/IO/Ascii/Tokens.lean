/-
  OVM-ASCII model, part 1: characters, the two stream objects of `FileManager::readStream`
  (`_istream`, and the per-line `std::stringstream sstr`), the formatted extractors `>>` that the
  reader and the property deserialisers use, and the value-type table (TypeNames.cc).

  Core only, executable.  Characters are byte values (`Nat`), a text is a `List Nat`.

  What is mirrored (libstdc++ behaviour, which is what the pinned tree is built against):
  * `std::getline`            – Tokens.getline / Parse.getCleanLine
  * the `sentry` of a formatted extractor: not `good()` ⇒ failbit, value untouched; skip white space;
    running into the end while skipping ⇒ eofbit|failbit, value untouched
  * `num_get::_M_extract_int` – optional sign, decimal digits; no digit ⇒ value 0 + failbit;
    out of range ⇒ clamped + failbit; unsigned types accept `-n` as 2^w − n; eofbit when the scan
    reaches the end of the data
  * `operator>>(short&/int&)` clamp through `long`; `operator>>(bool&)`: 0/1, anything else true+fail
  * `num_get::_M_extract_float` as a character automaton; the *value* of a floating literal is the
    accumulated text (an abstract token): rounding and printing of floating point numbers are not
    modelled (DESIGN §9)
  * `operator>>(char&)`, `operator>>(std::string&)`, `istream::read`
-/
namespace OVM.Ascii


abbrev Str := List Nat   -- a text: byte values

/-- text of a Lean string literal as bytes (ASCII literals only) -/
def kw (s : String) : Str := s.toList.map Char.toNat

def cNL : Nat := 10
def cSP : Nat := 32
def cQuote : Nat := 34
def cHash : Nat := 35
def cPlus : Nat := 43
def cMinus : Nat := 45
def cDot : Nat := 46
def cZero : Nat := 48
def cColon : Nat := 58

/-- `std::isspace` in the classic locale: space, \t \n \v \f \r -/
def isSpace (c : Nat) : Bool := c == 32 || (9 ≤ c && c ≤ 13)
/-- the set `" \t\r\n"` of `FileManager::trimString` (FileManager.cc:70-71) -/
def isTrim (c : Nat) : Bool := c == 32 || c == 9 || c == 13 || c == 10
def isDigit (c : Nat) : Bool := 48 ≤ c && c ≤ 57
def toUpper (c : Nat) : Nat := if 97 ≤ c && c ≤ 122 then c - 32 else c
def toLower (c : Nat) : Nat := if 65 ≤ c && c ≤ 90 then c + 32 else c
def upper (s : Str) : Str := s.map toUpper
def lower (s : Str) : Str := s.map toLower

/-- FileManager.cc:67-78 -/
def trim (l : Str) : Str := ((l.dropWhile isTrim).reverse.dropWhile isTrim).reverse

/-! ### decimal printing (`ostream << integer`) -/

def showNatF : Nat → Nat → Str
  | 0, _ => []
  | f + 1, n => if n < 10 then [48 + n] else showNatF f (n / 10) ++ [48 + n % 10]

def showNat (n : Nat) : Str := showNatF (n + 1) n

def showInt (i : Int) : Str :=
  match i with
  | .ofNat n => showNat n
  | .negSucc n => cMinus :: showNat (n + 1)

/-! ### streams -/

structure IStream where
  rest : Str
  eof : Bool := false
  fail : Bool := false
deriving DecidableEq, Repr

namespace IStream
def ofStr (l : Str) : IStream := { rest := l }
def good (s : IStream) : Bool := !s.eof && !s.fail
/-- `operator bool` / `!fail()` -/
def ok (s : IStream) : Bool := !s.fail
end IStream

/-- `std::getline(is, str)`: returns the new stream and the new content of `str` (`old` when the
    sentry fails: libstdc++ erases the string only after a successful sentry). -/
def splitNL : Str → Str × Option Str
  | [] => ([], none)
  | c :: cs => if c == cNL then ([], some cs) else
      let (l, r) := splitNL cs
      (c :: l, r)

def getline (s : IStream) (old : Str) : IStream × Str :=
  if s.eof || s.fail then ({ s with fail := true }, old)
  else match splitNL s.rest with
    | (l, some r) => ({ rest := r }, l)
    | (l, none) => ({ rest := [], eof := true, fail := l.isEmpty }, l)

/-- sentry of a formatted input function (skipws set) -/
def sentry (s : IStream) : IStream × Bool :=
  if s.eof || s.fail then ({ s with fail := true }, false)
  else
    let r := s.rest.dropWhile isSpace
    if r.isEmpty then ({ rest := [], eof := true, fail := true }, false)
    else ({ s with rest := r }, true)

/-! ### integers -/

inductive IntTy | i16 | i32 | i64 | u32 | u64 | bool
deriving DecidableEq, Repr

def digitsVal (ds : Str) : Nat := ds.foldl (fun a d => a * 10 + (d - 48)) 0

def IntTy.bits : IntTy → Nat
  | .i16 => 16 | .i32 => 32 | .i64 => 64 | .u32 => 32 | .u64 => 64 | .bool => 64

/-- clamp a signed value read through `long` to `w` bits (`operator>>(short&)`, `operator>>(int&)`) -/
def clampS (w : Nat) (v : Int) (f : Bool) : Int × Bool :=
  let lo : Int := -(2 ^ (w - 1) : Nat)
  let hi : Int := (2 ^ (w - 1) : Nat) - 1
  if v < lo then (lo, true) else if v > hi then (hi, true) else (v, f)

/-- `_M_extract_int<long>`: value and failbit from sign + magnitude (`none` = no digit seen) -/
def finishLong (neg : Bool) (mag : Option Nat) : Int × Bool :=
  match mag with
  | none => (0, true)
  | some m =>
    if neg then (if m > 2 ^ 63 then (-(2 ^ 63 : Nat), true) else (-(m : Int), false))
    else (if m > 2 ^ 63 - 1 then ((2 ^ 63 - 1 : Nat), true) else (m, false))

def finishUnsigned (w : Nat) (neg : Bool) (mag : Option Nat) : Int × Bool :=
  match mag with
  | none => (0, true)
  | some m =>
    if m > 2 ^ w - 1 then ((2 ^ w - 1 : Nat), true)
    else if neg then (((2 ^ w - m) % 2 ^ w : Nat), false) else (m, false)

def finishInt (ty : IntTy) (neg : Bool) (mag : Option Nat) : Int × Bool :=
  match ty with
  | .u32 => finishUnsigned 32 neg mag
  | .u64 => finishUnsigned 64 neg mag
  | .i64 => finishLong neg mag
  | .i32 => let (v, f) := finishLong neg mag; clampS 32 v f
  | .i16 => let (v, f) := finishLong neg mag; clampS 16 v f
  | .bool =>
    let (v, f) := finishLong neg mag
    if v == 0 then (0, f) else if v == 1 then (1, f) else (1, true)

/-- `is >> x` for an integer `x`.  First component: `none` = `x` untouched (sentry failed). -/
def extractInt (ty : IntTy) (s : IStream) : Option Int × IStream :=
  match sentry s with
  | (s1, false) => (none, s1)
  | (s1, true) =>
    let neg := s1.rest.head? == some cMinus
    let r1 := if neg || s1.rest.head? == some cPlus then s1.rest.tail else s1.rest
    let ds := r1.takeWhile isDigit
    let r2 := r1.dropWhile isDigit
    let (v, f) := finishInt ty neg (if ds.isEmpty then none else some (digitsVal ds))
    (some v, { rest := r2, eof := r2.isEmpty, fail := f })

/-! ### characters and words -/

/-- `is >> c` for `char` / `unsigned char` -/
def extractChar (s : IStream) : Option Nat × IStream :=
  match sentry s with
  | (s1, false) => (none, s1)
  | (s1, true) =>
    match s1.rest with
    | [] => (none, s1)      -- unreachable: the sentry leaves a non-empty rest
    | c :: r => (some c, { rest := r })

/-- `is >> str` for `std::string` (width 0): the run of non-space characters -/
def extractWord (s : IStream) : Option Str × IStream :=
  match sentry s with
  | (s1, false) => (none, s1)
  | (s1, true) =>
    let w := s1.rest.takeWhile (fun c => !isSpace c)
    let r := s1.rest.dropWhile (fun c => !isSpace c)
    (some w, { rest := r, eof := r.isEmpty })

/-- `is.read(buf, n)`: the bytes obtained (the caller's buffer is zero-filled beyond them) -/
def readRaw (n : Nat) (s : IStream) : Str × IStream :=
  if s.eof || s.fail then ([], { s with fail := true })
  else if n ≤ s.rest.length then (s.rest.take n, { rest := s.rest.drop n })
  else (s.rest, { rest := [], eof := true, fail := true })

/-! ### floating literals: `num_get::_M_extract_float` as an automaton -/

structure FSt where
  acc : Str := []          -- __xtrc
  canSign : Bool := true   -- nothing consumed yet
  zeros : Bool := true     -- still in the "leading zeros" loop
  mant : Bool := false     -- __found_mantissa
  dec : Bool := false      -- __found_dec
  sci : Bool := false      -- __found_sci
  expSign : Bool := false  -- directly behind the 'e'
  expDig : Bool := false   -- an exponent digit was seen (strtod needs one)
deriving DecidableEq, Repr

def fMain (st : FSt) (c : Nat) : Option FSt :=
  if st.expSign && (c == cPlus || c == cMinus) then
    some { st with acc := st.acc ++ [c], expSign := false }
  else if isDigit c then
    some { st with acc := st.acc ++ [c], mant := true, expSign := false, expDig := st.sci }
  else if c == cDot && !st.dec && !st.sci then
    some { st with acc := st.acc ++ [c], dec := true, expSign := false }
  else if (c == 101 || c == 69) && !st.sci && st.mant then
    some { st with acc := st.acc ++ [101], sci := true, expSign := true }
  else none

/-- one character; `none` = the scan stops in front of `c` -/
def fStep (st : FSt) (c : Nat) : Option FSt :=
  if st.canSign && (c == cPlus || c == cMinus) then
    some { st with acc := st.acc ++ [c], canSign := false }
  else
    let st := { st with canSign := false }
    if st.zeros then
      if c == cZero then
        some (if st.mant then st else { st with acc := st.acc ++ [cZero], mant := true })
      else fMain { st with zeros := false } c
    else fMain st c

def fRun (st : FSt) : Str → FSt × Str
  | [] => (st, [])
  | c :: cs => match fStep st c with
    | some st' => fRun st' cs
    | none => (st, c :: cs)

/-- `strtod` consumes the whole accumulated text -/
def FSt.accepts (st : FSt) : Bool := st.mant && (!st.sci || st.expDig)

/-- Does the accepted literal `acc` (`[sign] digits [. digits] [e [sign] digits]`) round to infinity in a
    binary format whose largest finite value is `(2^p − 1)·2^(emax+1−p)`?  Exactly when its value is at
    least the midpoint `2^(emax+1) − 2^(emax−p)` between that value and `2^(emax+1)`.
    (`__convert_to_v`: `strtod`/`strtof` returning ±HUGE_VAL ⇒ ±max and failbit.) -/
def overflowsTo (p emax : Nat) (acc : Str) : Bool :=
  let body := if acc.head? == some cPlus || acc.head? == some cMinus then acc.tail else acc
  let ip := body.takeWhile isDigit
  let r1 := body.dropWhile isDigit
  let fp := if r1.head? == some cDot then r1.tail.takeWhile isDigit else []
  let r2 := if r1.head? == some cDot then r1.tail.dropWhile isDigit else r1
  let er := if r2.head? == some 101 then r2.tail else []
  let eneg := er.head? == some cMinus
  let ed := if er.head? == some cPlus || eneg then er.tail else er
  let m := digitsVal (ip ++ fp)
  let thr := 2 ^ (emax + 1) - 2 ^ (emax - p)
  if m == 0 then false
  else if ed.length > 7 then !eneg            -- |exponent| ≥ 10^7: far outside either format
  else
    let e := digitsVal ed
    -- value = m · 10^(±e − |fp|)
    if eneg then thr * 10 ^ (e + fp.length) ≤ m
    else if fp.length ≤ e then thr ≤ m * 10 ^ (e - fp.length)
    else thr * 10 ^ (fp.length - e) ≤ m

inductive FltTy | f32 | f64
deriving DecidableEq, Repr

def FltTy.overflows : FltTy → Str → Bool
  | .f32, a => overflowsTo 24 127 a
  | .f64, a => overflowsTo 53 1023 a

/-- the token `ostream <<` prints for ±max of the type (default precision) -/
def FltTy.maxTok : FltTy → Str
  | .f32 => kw "3.40282e+38"
  | .f64 => kw "1.79769e+308"

/-- `is >> x` for `float` / `double`: `some tok` = the token read (`"0"` + failbit when it is not a
    number, ±max + failbit when it is too large), `none` = untouched -/
def extractFloat (ty : FltTy) (s : IStream) : Option Str × IStream :=
  match sentry s with
  | (s1, false) => (none, s1)
  | (s1, true) =>
    let (st, r) := fRun {} s1.rest
    if !st.accepts then (some [cZero], { rest := r, eof := r.isEmpty, fail := true })
    else if ty.overflows st.acc then
      (some ((if st.acc.head? == some cMinus then [cMinus] else []) ++ ty.maxTok), { rest := r, eof := r.isEmpty, fail := true })
    else (some st.acc, { rest := r, eof := r.isEmpty })

/-! ### value types (TypeNames.cc) -/

inductive Sc
  | i16 | i32 | i64 | u32 | u64 | bool | chr | uchr | f32 | f64 | str | vh | hfh | heh
deriving DecidableEq, Repr

inductive VT
  | sc (s : Sc) | tup (n : Nat) (s : Sc) | vec (s : Sc) | vecvec (s : Sc) | map
deriving DecidableEq, Repr

inductive Atom
  | int (i : Int) | chr (c : Nat) | flt (t : Str) | str (s : Str)
  | unk          -- indeterminate (default-constructed VectorT component, Vector11T.hh:112)
deriving DecidableEq, Repr

inductive Val
  | sc (a : Atom)
  | tup (as : List Atom)
  | vec (as : List Atom)
  | vecvec (ass : List (List Atom))
  | map (kvs : List (Int × Int))
deriving DecidableEq, Repr

def Sc.intTy : Sc → Option IntTy
  | .i16 => some .i16 | .i32 => some .i32 | .i64 => some .i64 | .u32 => some .u32 | .u64 => some .u64
  | .bool => some .bool | .vh => some .i32 | .hfh => some .i32 | .heh => some .i32
  | _ => none

/-- the registered names, in the order `readProperty` tests them (FileManagerT_impl.hh:387-417) -/
def typeTable : List (String × VT) :=
  [("int", .sc .i32), ("uint", .sc .u32), ("short", .sc .i16), ("long", .sc .i64), ("ulong", .sc .u64),
   ("char", .sc .chr), ("uchar", .sc .uchr), ("bool", .sc .bool), ("float", .sc .f32), ("double", .sc .f64),
   ("string", .sc .str), ("map_heh_int", .map), ("vector_double", .vec .f64), ("vector_vh", .vec .vh),
   ("vector_hfh", .vec .hfh), ("vector_vector_hfh", .vecvec .hfh),
   ("vec2f", .tup 2 .f32), ("vec2d", .tup 2 .f64), ("vec2i", .tup 2 .i32), ("vec2ui", .tup 2 .u32),
   ("vec3f", .tup 3 .f32), ("vec3d", .tup 3 .f64), ("vec3i", .tup 3 .i32), ("vec3ui", .tup 3 .u32),
   ("vec4f", .tup 4 .f32), ("vec4d", .tup 4 .f64), ("vec4i", .tup 4 .i32), ("vec4ui", .tup 4 .u32)]

def vtOfName (n : Str) : Option VT := (typeTable.find? (fun p => kw p.1 == n)).map (·.2)
def nameOfVT (v : VT) : Str := match typeTable.find? (fun p => p.2 == v) with
  | some p => kw p.1
  | none => []

inductive Ent | v | e | he | f | hf | c | m
deriving DecidableEq, Repr

/-- `entityTypeName<>` as written (TypeNames.cc:64-70) -/
def Ent.name : Ent → Str
  | .v => kw "VProp" | .e => kw "EProp" | .he => kw "HEProp" | .f => kw "FProp"
  | .hf => kw "HFProp" | .c => kw "CProp" | .m => kw "MProp"

def Ent.all : List Ent := [.v, .e, .he, .f, .hf, .c, .m]

/-- `generateGenericProperty` compares the lower-cased first word (FileManagerT_impl.hh:429-457) -/
def entOfName (n : Str) : Option Ent := Ent.all.find? (fun k => lower k.name == n)

end OVM.Ascii

import OVM.IO.Ascii.RtFinal
/-
  Round trip, part 14 (proof-only file): automatic type detection on a written file
  (`isTetrahedralMesh` / `isHexahedralMesh`, FileManager.cc:134-225; model `detect`): the answer is
  "there are cells and each has `want` halffaces".
-/
namespace OVM.Ascii

def cP : Nat := 80   -- 'P'

/-! ### lists -/

theorem takeWhile_all {α} (p : α → Bool) (l : List α) : ∀ x ∈ l.takeWhile p, p x = true := by
  induction l with
  | nil => intro x hx; simp at hx
  | cons a t ih =>
    intro x hx
    simp only [List.takeWhile] at hx
    split at hx
    · rename_i ha
      rcases List.mem_cons.mp hx with rfl | h
      · exact ha
      · exact ih x h
    · simp at hx

theorem mem_of_takeWhile {α} (p : α → Bool) (l : List α) {x : α} (h : x ∈ l.takeWhile p) : x ∈ l := by
  have : x ∈ l.takeWhile p ++ l.dropWhile p := List.mem_append_left _ h
  rwa [List.takeWhile_append_dropWhile] at this

theorem mem_of_dropWhile {α} (p : α → Bool) (l : List α) {x : α} (h : x ∈ l.dropWhile p) : x ∈ l :=
  (List.dropWhile_sublist p).subset h

theorem dropWhile_length_le' {α} (p : α → Bool) (l : List α) : (l.dropWhile p).length ≤ l.length :=
  (List.dropWhile_sublist p).length_le

theorem all_of_dropWhile_nil {α} (p : α → Bool) (l : List α) (h : l.dropWhile p = []) : ∀ x ∈ l, p x = true := by
  have e : l.takeWhile p = l := by
    have := List.takeWhile_append_dropWhile (p := p) (l := l)
    rwa [h, List.append_nil] at this
  intro x hx
  rw [← e] at hx
  exact takeWhile_all p l x hx

theorem head_of_dropWhile {α} (p : α → Bool) : ∀ (l : List α) (a : α) (t : List α), l.dropWhile p = a :: t → p a = false := by
  intro l
  induction l with
  | nil => intro a t h; simp at h
  | cons x xs ih =>
    intro a t h
    simp only [List.dropWhile] at h
    split at h
    · exact ih a t h
    · rename_i hx
      simp only [List.cons.injEq] at h
      rw [← h.1]; simpa using hx

/-! ### seeking the word `Polyhedra` -/

/-- the text ends in white space (or is empty): the next character starts a word -/
def EndsSp (pre : Str) : Prop := ∀ l z, pre = l ++ [z] → isSpace z = true

theorem EndsSp.suffix {a b : Str} (h : EndsSp (a ++ b)) : EndsSp b := by
  intro l z hb
  exact h (a ++ l) z (by rw [hb]; simp)

theorem kPolyhedra_shape : (∀ c ∈ kPolyhedra, isSpace c = false) ∧ (∃ t, kPolyhedra = cP :: t) := by
  refine ⟨by decide, ⟨_, rfl⟩⟩

theorem seek_found (c : Nat) (post : Str) (hc : isSpace c = true) : ∀ (n : Nat) (pre : Str) (fuel : Nat) (w : Str),
    pre.length ≤ n → n + 1 ≤ fuel → EndsSp pre → (∀ x ∈ pre, x ≠ cP) →
    seekPolyhedra fuel (good (pre ++ kPolyhedra ++ c :: post)) w = { rest := c :: post, eof := false } := by
  intro n
  induction n with
  | zero =>
    intro pre fuel w hlen hfuel _ _
    have hpre : pre = [] := List.length_eq_zero_iff.mp (by omega)
    subst hpre
    obtain ⟨f, rfl⟩ : ∃ f, fuel = f + 1 := ⟨fuel - 1, by omega⟩
    have e := extractWord_good [] kPolyhedra (c :: post) allSpace_nil kPolyhedra_shape.1
      (by obtain ⟨t, ht⟩ := kPolyhedra_shape.2; exact ⟨_, t, ht⟩) (Or.inr ⟨c, post, rfl, hc⟩)
    simp only [List.nil_append] at e ⊢
    simp only [seekPolyhedra, e, Option.getD_some, beq_self_eq_true, if_true]
    simp [IStream.good, good]
  | succ n ih =>
    intro pre fuel w hlen hfuel hend hnoP
    obtain ⟨f, rfl⟩ : ∃ f, fuel = f + 1 := ⟨fuel - 1, by omega⟩
    have hgood : (good (pre ++ kPolyhedra ++ c :: post)).good = true := by simp [IStream.good, good]
    -- split off the leading white space
    have hsplit : pre = pre.takeWhile isSpace ++ pre.dropWhile isSpace := (List.takeWhile_append_dropWhile).symm
    have hsp : AllSpace (pre.takeWhile isSpace) := takeWhile_all isSpace pre
    cases hd : pre.dropWhile isSpace with
    | nil =>
      -- only white space in front of the keyword
      have e := extractWord_good (pre.takeWhile isSpace) kPolyhedra (c :: post) hsp kPolyhedra_shape.1
        (by obtain ⟨t, ht⟩ := kPolyhedra_shape.2; exact ⟨_, t, ht⟩) (Or.inr ⟨c, post, rfl, hc⟩)
      have hp : pre = pre.takeWhile isSpace := by rw [hd, List.append_nil] at hsplit; exact hsplit
      rw [← hp] at e
      simp only [seekPolyhedra, hgood, Bool.not_true, Bool.false_eq_true, if_false, e, Option.getD_some,
        beq_self_eq_true, if_true]
      rfl
    | cons a t =>
      -- a word of `pre` comes first
      have ha : isSpace a = false := head_of_dropWhile isSpace pre a t hd
      have hendd : EndsSp (a :: t) := by
        have : EndsSp (pre.takeWhile isSpace ++ pre.dropWhile isSpace) := by rw [← hsplit]; exact hend
        rw [hd] at this; exact this.suffix
      -- the word and what follows it inside `pre`
      have hws : (a :: t) = (a :: t).takeWhile (fun c => !isSpace c) ++ (a :: t).dropWhile (fun c => !isSpace c) :=
        (List.takeWhile_append_dropWhile).symm
      have hwne : ∃ c' t', (a :: t).takeWhile (fun c => !isSpace c) = c' :: t' := by
        simp [List.takeWhile, ha]
      have hwns : ∀ x ∈ (a :: t).takeWhile (fun c => !isSpace c), isSpace x = false := by
        intro x hx
        have := takeWhile_all _ _ x hx
        simpa using this
      cases hr : (a :: t).dropWhile (fun c => !isSpace c) with
      | nil =>
        -- impossible: `pre` ends in white space
        exfalso
        have hall : ∀ x ∈ a :: t, (!isSpace x) = true := all_of_dropWhile_nil _ _ hr
        rcases List.eq_nil_or_concat (a :: t) with h | ⟨l, z, h⟩
        · simp at h
        · have hz := hendd l z (by simpa using h)
          have := hall z (by rw [h]; simp)
          simp [hz] at this
      | cons b u =>
        have hb : isSpace b = true := by
          have := head_of_dropWhile (fun c => !isSpace c) (a :: t) b u hr
          simpa using this
        have e := extractWord_good (pre.takeWhile isSpace) ((a :: t).takeWhile (fun c => !isSpace c))
          ((b :: u) ++ kPolyhedra ++ c :: post) hsp hwns hwne (Or.inr ⟨b, u ++ kPolyhedra ++ c :: post, by simp, hb⟩)
        have htext : pre ++ kPolyhedra ++ c :: post =
            pre.takeWhile isSpace ++ (a :: t).takeWhile (fun c => !isSpace c) ++ ((b :: u) ++ kPolyhedra ++ c :: post) := by
          have h1 : pre = pre.takeWhile isSpace ++ ((a :: t).takeWhile (fun c => !isSpace c) ++ (b :: u)) := by
            rw [← hr, ← hws, ← hd]; exact hsplit
          calc pre ++ kPolyhedra ++ c :: post
              = (pre.takeWhile isSpace ++ ((a :: t).takeWhile (fun c => !isSpace c) ++ (b :: u))) ++ kPolyhedra ++ c :: post := by
                rw [← h1]
            _ = _ := by simp
        -- the word is not the keyword: it has no 'P'
        have hmem : ∀ x ∈ (a :: t).takeWhile (fun c => !isSpace c), x ∈ pre := by
          intro x hx
          have h1 : x ∈ a :: t := mem_of_takeWhile _ _ hx
          rw [← hd] at h1
          exact mem_of_dropWhile _ _ h1
        have hneq : ((a :: t).takeWhile (fun c => !isSpace c) == kPolyhedra) = false := by
          cases hq : ((a :: t).takeWhile (fun c => !isSpace c) == kPolyhedra) with
          | false => rfl
          | true =>
            exfalso
            have heq : (a :: t).takeWhile (fun c => !isSpace c) = kPolyhedra := by simpa using hq
            have : cP ∈ (a :: t).takeWhile (fun c => !isSpace c) := by rw [heq]; decide
            exact hnoP cP (hmem cP this) rfl
        -- the remainder
        have hbu_mem : ∀ x ∈ b :: u, x ∈ pre := by
          intro x hx
          have h1 : x ∈ a :: t := by rw [← hr] at hx; exact mem_of_dropWhile _ _ hx
          rw [← hd] at h1
          exact mem_of_dropWhile _ _ h1
        have hbu_len : (b :: u).length ≤ n := by
          have h1 : (b :: u).length ≤ (a :: t).length := by
            rw [← hr]; exact dropWhile_length_le' _ _
          have h2 : (a :: t).length ≤ pre.length := by rw [← hd]; exact dropWhile_length_le' _ _
          have h3 : 1 ≤ ((a :: t).takeWhile (fun c => !isSpace c)).length := by
            obtain ⟨c', t', h⟩ := hwne; rw [h]; simp
          have h4 : (a :: t).length = ((a :: t).takeWhile (fun c => !isSpace c)).length + (b :: u).length := by
            conv => lhs; rw [hws, hr]
            simp
          omega
        have hbu_end : EndsSp (b :: u) := by
          have : EndsSp ((a :: t).takeWhile (fun c => !isSpace c) ++ (b :: u)) := by rw [← hr, ← hws]; exact hendd
          exact this.suffix
        have hrec := ih (b :: u) f ((a :: t).takeWhile (fun c => !isSpace c)) hbu_len (by omega) hbu_end
          (fun x hx => hnoP x (hbu_mem x hx))
        simp only [seekPolyhedra, hgood, Bool.not_true, Bool.false_eq_true, if_false]
        rw [htext, e]
        simp only [Option.getD_some, hneq, Bool.false_eq_true, if_false]
        have hst : ({ rest := (b :: u) ++ kPolyhedra ++ c :: post, eof := ((b :: u) ++ kPolyhedra ++ c :: post).isEmpty } : IStream) =
            good ((b :: u) ++ kPolyhedra ++ c :: post) := by simp [good]
        rw [hst, hrec]

end OVM.Ascii

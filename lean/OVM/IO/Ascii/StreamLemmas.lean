import OVM.IO.Ascii.Parse
/-
  The input-consuming measure (proof-only file).  `mu s` = number of unread characters, plus one while
  eofbit is clear.  No extractor increases it; `getCleanLine` on a good stream decreases it.
-/
namespace OVM.Ascii

def mu (s : IStream) : Nat := s.rest.length + (if s.eof then 0 else 1)

theorem dropWhile_length_le {α} (p : α → Bool) (l : List α) : (l.dropWhile p).length ≤ l.length := by
  induction l with
  | nil => simp
  | cons a t ih => simp only [List.dropWhile]; split <;> simp <;> omega

theorem mu_sentry (s : IStream) : mu (sentry s).1 ≤ mu s := by
  unfold sentry
  split
  · simp [mu]
  · rename_i h
    simp only [Bool.or_eq_true, not_or, Bool.not_eq_true] at h
    simp only
    split
    · simp [mu]
    · have := dropWhile_length_le isSpace s.rest
      simp [mu, h.1]; omega

/-- after a successful sentry the stream is good and non-empty -/
theorem sentry_true (s : IStream) (h : (sentry s).2 = true) :
    (sentry s).1.eof = false ∧ (sentry s).1.fail = false ∧ (sentry s).1.rest.length ≤ s.rest.length ∧ s.eof = false := by
  unfold sentry at h ⊢
  split
  · rename_i hc; rw [if_pos hc] at h; simp at h
  · rename_i hc
    rw [if_neg hc] at h
    simp only [Bool.or_eq_true, not_or, Bool.not_eq_true] at hc
    simp only at h ⊢
    split
    · rename_i he; rw [if_pos he] at h; simp at h
    · exact ⟨hc.1, hc.2, dropWhile_length_le _ _, hc.1⟩

theorem mu_of_suffix (s : IStream) (r : Str) (f : Bool) (hs : s.eof = false) (hr : r.length ≤ s.rest.length) :
    mu { rest := r, eof := r.isEmpty, fail := f } ≤ mu s := by
  simp only [mu, hs]
  cases r <;> simp at hr ⊢ <;> omega

theorem mu_extractInt (ty : IntTy) (s : IStream) : mu (extractInt ty s).2 ≤ mu s := by
  unfold extractInt
  split
  · rename_i s1 hs
    have := mu_sentry s; rw [hs] at this; exact this
  · rename_i s1 hs
    have ht := sentry_true s (by rw [hs])
    rw [hs] at ht
    have h1 := mu_sentry s; rw [hs] at h1
    simp only
    refine Nat.le_trans (mu_of_suffix s1 _ _ ht.1 ?_) h1
    refine Nat.le_trans (dropWhile_length_le _ _) ?_
    split <;> simp

theorem mu_extractChar (s : IStream) : mu (extractChar s).2 ≤ mu s := by
  unfold extractChar
  split
  · rename_i s1 hs
    have := mu_sentry s; rw [hs] at this; exact this
  · rename_i s1 hs
    have ht := sentry_true s (by rw [hs])
    rw [hs] at ht
    have h1 := mu_sentry s; rw [hs] at h1
    split
    · exact h1
    · rename_i c r hr
      refine Nat.le_trans ?_ h1
      simp [mu, hr]

theorem fRun_length (st : FSt) (l : Str) : (fRun st l).2.length ≤ l.length := by
  induction l generalizing st with
  | nil => simp [fRun]
  | cons c cs ih =>
    simp only [fRun]
    split
    · exact Nat.le_trans (ih _) (by simp)
    · simp

theorem mu_extractFloat (ty : FltTy) (s : IStream) : mu (extractFloat ty s).2 ≤ mu s := by
  unfold extractFloat
  split
  · rename_i s1 hs
    have := mu_sentry s; rw [hs] at this; exact this
  · rename_i s1 hs
    have ht := sentry_true s (by rw [hs])
    rw [hs] at ht
    have h1 := mu_sentry s; rw [hs] at h1
    have hl := fRun_length {} s1.rest
    simp only
    split <;> (try split) <;> exact Nat.le_trans (mu_of_suffix s1 _ _ ht.1 hl) h1

theorem mu_readRaw (n : Nat) (s : IStream) : mu (readRaw n s).2 ≤ mu s := by
  unfold readRaw
  split
  · simp [mu]
  · rename_i h
    simp only [Bool.or_eq_true, not_or, Bool.not_eq_true] at h
    split
    · simp [mu, h.1]
    · simp [mu]

/-! ### value readers -/

theorem mu_readSc (lim : Nat) (sc : Sc) (old a : Atom) (is is' : IStream)
    (h : readSc lim sc old is = .ok (a, is')) : mu is' ≤ mu is := by
  unfold readSc at h
  split at h
  all_goals first
    | (simp only [Except.ok.injEq, Prod.mk.injEq] at h; rw [← h.2]; first
        | exact mu_extractChar _ | exact mu_extractFloat _ _ | exact mu_extractInt _ _)
    | skip
  -- the string case
  simp only at h
  split at h
  · split at h
    · simp at h
    · simp only [Except.ok.injEq, Prod.mk.injEq] at h
      rw [← h.2]
      exact Nat.le_trans (mu_readRaw _ _) (Nat.le_trans (mu_extractChar _) (mu_extractInt _ _))
  · simp only [Except.ok.injEq, Prod.mk.injEq] at h
    rw [← h.2]
    exact Nat.le_trans (mu_extractChar _) (mu_extractInt _ _)

theorem mu_readTup (lim : Nat) (sc : Sc) : ∀ (olds : List Atom) (is : IStream) (acc as : List Atom) (is' : IStream),
    readTup lim sc olds is acc = .ok (as, is') → mu is' ≤ mu is := by
  intro olds
  induction olds with
  | nil => intro is acc as is' h; simp [readTup] at h; rw [← h.2]; exact Nat.le_refl _
  | cons o os ih =>
    intro is acc as is' h
    simp only [readTup] at h
    split at h
    · simp at h
    · rename_i a is1 h1
      exact Nat.le_trans (ih _ _ _ _ h) (mu_readSc _ _ _ _ _ _ h1)

theorem mu_readElems (lim : Nat) (sc : Sc) : ∀ (n : Nat) (is : IStream) (acc as : List Atom) (is' : IStream),
    readElems lim sc n is acc = .ok (as, is') → mu is' ≤ mu is := by
  intro n
  induction n with
  | zero => intro is acc as is' h; simp [readElems] at h; rw [← h.2]; exact Nat.le_refl _
  | succ n ih =>
    intro is acc as is' h
    simp only [readElems] at h
    split at h
    · simp at h
    · rename_i a is1 h1
      exact Nat.le_trans (ih _ _ _ _ h) (mu_readSc _ _ _ _ _ _ h1)

theorem mu_readVec (lim : Nat) (sc : Sc) (is : IStream) (as : List Atom) (is' : IStream)
    (h : readVec lim sc is = .ok (as, is')) : mu is' ≤ mu is := by
  unfold readVec at h
  simp only at h
  split at h
  · simp at h
  · exact Nat.le_trans (mu_readElems _ _ _ _ _ _ _ h) (mu_extractInt _ _)

theorem mu_readVecs (lim : Nat) (sc : Sc) : ∀ (n : Nat) (is : IStream) (acc ass : List (List Atom)) (is' : IStream),
    readVecs lim sc n is acc = .ok (ass, is') → mu is' ≤ mu is := by
  intro n
  induction n with
  | zero => intro is acc as is' h; simp [readVecs] at h; rw [← h.2]; exact Nat.le_refl _
  | succ n ih =>
    intro is acc as is' h
    simp only [readVecs] at h
    split at h
    · simp at h
    · rename_i a is1 h1
      exact Nat.le_trans (ih _ _ _ _ h) (mu_readVec _ _ _ _ _ h1)

theorem mu_readMapLoop : ∀ (n : Nat) (is : IStream) (acc : List (Int × Int)),
    mu (readMapLoop n is acc).2 ≤ mu is := by
  intro n
  induction n with
  | zero => intro is acc; simp [readMapLoop]
  | succ n ih =>
    intro is acc
    simp only [readMapLoop]
    split
    · exact Nat.le_refl _
    · exact Nat.le_trans (ih _ _) (Nat.le_trans (mu_extractInt _ _) (mu_extractInt _ _))

theorem mu_readVal (lim : Nat) (vt : VT) (old v : Val) (is is' : IStream)
    (h : readVal lim vt old is = .ok (v, is')) : mu is' ≤ mu is := by
  unfold readVal at h
  split at h
  · cases hr : readSc lim _ (old.scAtom _) is with
    | error n => rw [hr] at h; simp [Except.map] at h
    | ok r => rw [hr] at h; simp [Except.map] at h; rw [← h.2]; exact mu_readSc _ _ _ _ _ _ hr
  · cases hr : readTup lim _ (old.tupAtoms _) is [] with
    | error n => rw [hr] at h; simp [Except.map] at h
    | ok r => rw [hr] at h; simp [Except.map] at h; rw [← h.2]; exact mu_readTup _ _ _ _ _ _ _ hr
  · cases hr : readVec lim _ is with
    | error n => rw [hr] at h; simp [Except.map] at h
    | ok r => rw [hr] at h; simp [Except.map] at h; rw [← h.2]; exact mu_readVec _ _ _ _ _ hr
  · simp only at h
    split at h
    · simp at h
    · cases hr : readVecs lim _ (natOf (extractInt IntTy.u64 is).1) (extractInt IntTy.u64 is).2 [] with
      | error n => rw [hr] at h; simp [Except.map] at h
      | ok r =>
        rw [hr] at h; simp [Except.map] at h; rw [← h.2]
        exact Nat.le_trans (mu_readVecs _ _ _ _ _ _ _ hr) (mu_extractInt _ _)
  · simp only [Except.ok.injEq, Prod.mk.injEq] at h
    rw [← h.2]
    exact Nat.le_trans (mu_readMapLoop _ _ _) (mu_extractInt _ _)

theorem readVals_spec (lim : Nat) (vt : VT) : ∀ (olds : List Val) (is : IStream) (acc vals : List Val) (is' : IStream),
    readVals lim vt olds is acc = .ok (vals, is') → mu is' ≤ mu is ∧ vals.length = acc.length + olds.length := by
  intro olds
  induction olds with
  | nil =>
    intro is acc vals is' h
    simp [readVals] at h
    rw [← h.1, ← h.2]; simp
  | cons o os ih =>
    intro is acc vals is' h
    simp only [readVals] at h
    split at h
    · simp at h
    · rename_i a is1 h1
      obtain ⟨m, l⟩ := ih _ _ _ _ h
      refine ⟨Nat.le_trans m (mu_readVal _ _ _ _ _ _ h1), ?_⟩
      rw [l]; simp; omega

end OVM.Ascii

import OVM.IO.Ascii.RtCompose
import OVM.IO.Ascii.RtValSpec
/-
  Round trip, part 9 (proof-only file): `readAll` on `printTopo F ++ rest` arrives at the property loop
  with exactly the topology of `F`; the property loop on an exhausted input.
-/
namespace OVM.Ascii

theorem pow31_le : (2 : Nat) ^ 31 ≤ 2 ^ 64 := by decide

/-- the state in which `readStream` enters `while(!_istream.eof()) readProperty(...)` -/
def topoState (cfg : Cfg) (input : Str) : RS :=
  sectCells cfg (sectFaces cfg (sectEdges cfg (sectHeader cfg input)))

theorem topo_read' (cfg : Cfg) (F : AFile) (rest : Str) (hwf : WFTopo cfg.lim F) (hacc : Accepts cfg F) :
    Snap (topoState cfg (printTopo F ++ rest)) (good rest) F.verts F.edges F.faces F.cells []
      F.verts.length F.edges.length F.faces.length ∧
    readAll cfg (printTopo F ++ rest) = readProps cfg.lim (rest.length + 2) (topoState cfg (printTopo F ++ rest)) := by
  have h31 := hwf.lim31
  have p31 : (2 : Nat) ^ 31 = 2147483648 := by decide
  have p32 : (2 : Nat) ^ 32 = 4294967296 := by decide
  have p64 : (2 : Nat) ^ 64 = 18446744073709551616 := by decide
  have hnV := hwf.nV
  have hnE := hwf.nE
  have hnF := hwf.nF
  have hnC := hwf.nC
  have e0 : printTopo F ++ rest =
      line (kw "OVM ASCII") ++ line (kw "Vertices") ++ line (showNat F.verts.length) ++ F.verts.flatMap printPos ++
      (line (kw "Edges") ++ line (showNat F.edges.length) ++ F.edges.flatMap printEdge ++
      (line (kw "Faces") ++ line (showNat F.faces.length) ++ F.faces.flatMap printHandles ++
      (line (kw "Polyhedra") ++ line (showNat F.cells.length) ++ F.cells.flatMap printHandles ++ rest))) := by
    simp [printTopo]
  have s1 := sectHeader_printed cfg F.verts
    (line (kw "Edges") ++ line (showNat F.edges.length) ++ F.edges.flatMap printEdge ++
      (line (kw "Faces") ++ line (showNat F.faces.length) ++ F.faces.flatMap printHandles ++
      (line (kw "Polyhedra") ++ line (showNat F.cells.length) ++ F.cells.flatMap printHandles ++ rest)))
    hnV (by omega) hwf.posTok
  rw [← e0] at s1
  have s2 := sectEdges_printed cfg _ F.verts F.edges _ 0 0 s1 hnE (by omega) (by omega) hwf.edges
  have s3 := sectFaces_printed cfg _ F.verts F.edges F.faces _ 0 s2 hnF (by omega) (by
    intro f hf
    obtain ⟨a, b⟩ := hwf.faces f hf
    have hl := hwf.fval f hf
    exact ⟨a, fun x hx => ⟨b x hx, by have := b x hx; omega⟩, hl, by omega, hacc.faces f hf⟩)
  have s4 := sectCells_printed cfg _ F.verts F.edges F.faces F.cells rest s3 hnC (by omega) (by
    intro c hc
    have b := hwf.cells c hc
    have hl := hwf.cval c hc
    exact ⟨fun x hx => ⟨b x hx, by have := b x hx; omega⟩, hl, by omega, hacc.cells c hc⟩)
  refine ⟨s4, ?_⟩
  unfold readAll
  simp only [s1.err, s2.err, s3.err, Option.isSome_none, Bool.false_eq_true, if_false]
  have e4 : (sectCells cfg (sectFaces cfg (sectEdges cfg (sectHeader cfg (printTopo F ++ rest))))).err = none := s4.err
  have i4 : (sectCells cfg (sectFaces cfg (sectEdges cfg (sectHeader cfg (printTopo F ++ rest))))).is = good rest := s4.is
  simp only [e4, i4, Option.isSome_none, Bool.false_eq_true, if_false, good, topoState]

/-- the same with the state abstracted (nothing downstream should unfold the reader again) -/
theorem topo_read (cfg : Cfg) (F : AFile) (rest : Str) (hwf : WFTopo cfg.lim F) (hacc : Accepts cfg F) :
    ∃ st : RS, Snap st (good rest) F.verts F.edges F.faces F.cells [] F.verts.length F.edges.length F.faces.length ∧
    readAll cfg (printTopo F ++ rest) = readProps cfg.lim (rest.length + 2) st :=
  ⟨_, topo_read' cfg F rest hwf hacc⟩

/-! ### the property loop at the end of the input -/

theorem gclGo_allNL : ∀ (nls : Str), AllNL nls → gclGo nls [] = (false, [], { rest := [], eof := true, fail := true }) := by
  intro nls
  induction nls with
  | nil => intro _; rfl
  | cons c cs ih =>
    intro h
    have hc : c = cNL := h c (by simp)
    subst hc
    simp only [gclGo, beq_self_eq_true, if_true]
    have : acceptLine (trim ([] : Str).reverse) = false := by decide
    rw [this]
    simpa using ih (fun x hx => h x (by simp [hx]))

/-- nothing but line ends left: `readProperty` runs into the end, the loop stops -/
theorem readProps_end (lim fuel : Nat) (st : RS) (nls : Str) (hst : st.is = good nls) (hn : AllNL nls)
    (he : st.err = none) :
    readProps lim (fuel + 2) st = { st with is := { rest := [], eof := true, fail := true } } := by
  have hg : getCleanLine st.is [] = (false, [], { rest := [], eof := true, fail := true }) := by
    rw [hst]
    unfold getCleanLine
    simp only [good, Bool.or_self, Bool.false_eq_true, if_false]
    exact gclGo_allNL nls hn
  have hp : readProperty lim st = { st with is := { rest := [], eof := true, fail := true } } := by
    unfold readProperty
    simp only [hg, List.isEmpty_nil, if_true]
  have heof : st.is.eof = false := by rw [hst]; rfl
  simp only [readProps, heof, Bool.false_eq_true, if_false, hp, he, Option.isSome_none, Bool.not_true, Bool.and_false,
    if_true]

end OVM.Ascii

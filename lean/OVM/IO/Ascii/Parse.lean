import OVM.IO.Ascii.Print
/-
  OVM-ASCII model, part 3: `parse`, mirroring `FileManager::readStream`
  (FileManagerT_impl.hh:61-350 as of 586c4f6 + `size_t n_cells = 0`), `getCleanLine`
  (FileManager.cc:97-130), `readProperty` / `generateGenericProperty` (cc:373-470),
  `PropertyStorageT<T>::deserialize`, the `deserialize` overloads (Serializers.cc, SerializersT_impl.hh)
  and the part of `add_face` / `add_cell` that decides acceptance (TopologyKernel.cc:174-227, 377-431,
  Tetrahedral/HexahedralMeshTopologyKernel.cc:41-105).

  The checks are the ones the code has:
  * a missing section keyword ⇒ `false`; a count that is not a number is 0
  * vertex lines are never validated (a token that is not a number reads as 0, missing ones keep the
    previous vertex' coordinate: `v` is declared outside the loop)
  * edge endpoints `< n_vertices`, halfedge indices `< 2*n_edges`, halfface indices `< 2*n_faces`;
    missing or non-numeric indices read as 0; extra tokens on a line are ignored
  * face valence 0 ⇒ `false` (76aa0c4); `add_face`/`add_cell` returning an invalid handle ⇒ `false` (208a81a)
  * after a property block: `fail() && !eof()` ⇒ `false` (fc2607f)
  * declared sizes above the allocation limit `cfg.lim` ⇒ a standard exception (`Err.alloc`)
  The kernel side carries a `fault` flag: it is raised when `add_face` / `add_cell` is handed a handle
  that is not below the number of entities that exist (the `assert`s of TopologyKernel.cc:178-181 and
  381-384, compiled out in the pinned build: the indexing that follows is then out of bounds).

  Unbounded loops and their measure:
  * `getCleanLine` – `gclGo` is structural recursion on the remaining input: every iteration of the
    C++ loop that does not return has consumed a line terminator.
  * `while(!_istream.eof()) readProperty(...)` – `readProps` runs on fuel `|input| + 2`;
    `Props/C07Ascii.lean` proves the fuel is never exhausted (`Err.fuel` is unreachable): every
    iteration consumes input, sets eofbit, or leaves through the `fail && !eof` exit.
-/
namespace OVM.Ascii

inductive Kind | poly | tet | hex
deriving DecidableEq, Repr

/-- Reader configuration.  `hexOrder faces hfs` stands for the ordering step of the checked
    `HexahedralMeshTopologyKernel::add_cell` (cc:107-155): `none` = rejected, `some l` = the list handed
    on to `TopologyKernel::add_cell`.  The theorems assume only that `l` consists of members of `hfs`
    (that kernel is the subject of C16, not of the file format). -/
structure Cfg where
  kind : Kind
  chk : Bool
  lim : Nat
  hexOrder : List (List Nat) → List Nat → Option (List Nat)

inductive Err
  | binary | noVertices | noEdges | noFaces | noCells
  | badEdge (i : Nat) | badHalfedge (i : Nat) | badHalfface (i : Nat) | zeroValence (i : Nat)
  | addFace (i : Nat) | addCell (i : Nat) | propData
  | alloc (n : Nat) -- std::length_error / std::bad_alloc out of reserve / resize / vector(n) of a declared size n
  | fuel            -- only if the property loop could run without consuming input (proved unreachable)
deriving DecidableEq, Repr

/-! ### kernel side -/

/-- outcome of `MeshT::add_face` / `MeshT::add_cell` as far as the reader can see it -/
inductive Dec
  | accept (l : List Nat)   -- entity stored with this handle list, valid handle returned
  | reject                  -- invalid handle returned, nothing stored
  | fault                   -- called with a handle that does not exist: out-of-bounds access in the kernel
deriving DecidableEq, Repr

def heFrom (edges : List (Nat × Nat)) (h : Nat) : Nat :=
  let e := edges.getD (h / 2) (0, 0)
  if h % 2 == 0 then e.1 else e.2
def heTo (edges : List (Nat × Nat)) (h : Nat) : Nat :=
  let e := edges.getD (h / 2) (0, 0)
  if h % 2 == 0 then e.2 else e.1

def consec (edges : List (Nat × Nat)) : List Nat → Bool
  | a :: b :: t => heTo edges a == heFrom edges b && consec edges (b :: t)
  | _ => true

/-- TopologyKernel.cc:184-197 (non-empty list) -/
def loopOk (edges : List (Nat × Nat)) (hes : List Nat) : Bool :=
  match hes.head?, hes.getLast? with
  | some h, some l => consec edges hes && heTo edges l == heFrom edges h
  | _, _ => false

def valenceOk : Kind → Nat → Bool
  | .poly, _ => true
  | .tet, n => n == 3
  | .hex, n => n == 4

/-- `MeshT::add_face(hes, chk)` on a mesh whose edges are `edges` -/
def faceDec (cfg : Cfg) (edges : List (Nat × Nat)) (hes : List Nat) : Dec :=
  if !valenceOk cfg.kind hes.length then .reject
  else if hes.any (fun h => edges.length ≤ h / 2) then .fault
  else if cfg.chk && (hes.isEmpty || !loopOk edges hes) then .reject
  else .accept hes

/-- `halfface(hf).halfedges()` -/
def hfHalfedges (faces : List (List Nat)) (hf : Nat) : List Nat :=
  let hs := faces.getD (hf / 2) []
  if hf % 2 == 0 then hs else hs.reverse.map (fun h => h ^^^ 1)

def insertSorted (x : Nat) : List Nat → List Nat
  | [] => [x]
  | y :: ys => if x ≤ y then x :: y :: ys else y :: insertSorted x ys
def insSort (l : List Nat) : List Nat := l.foldr insertSorted []
def adjDup : List Nat → Bool
  | a :: b :: t => a == b || adjDup (b :: t)
  | _ => false
def uniqEdges : List Nat → Nat
  | [] => 0
  | [_] => 1
  | a :: b :: t => (if a / 2 == b / 2 then 0 else 1) + uniqEdges (b :: t)

/-- the closedness test of the checked `add_cell` (TopologyKernel.cc:390-431) -/
def cellCheck (faces : List (List Nat)) (hfs : List Nat) : Bool :=
  let s := insSort (hfs.flatMap (hfHalfedges faces))
  !adjDup s && s.length == 2 * uniqEdges s

def cellDecBase (cfg : Cfg) (faces : List (List Nat)) (hfs : List Nat) : Dec :=
  if hfs.any (fun h => faces.length ≤ h / 2) then .fault
  else if cfg.chk && (hfs.isEmpty || !cellCheck faces hfs) then .reject
  else .accept hfs

def faceValence (faces : List (List Nat)) (hf : Nat) : Nat := (faces.getD (hf / 2) []).length

/-- insertion into a duplicate-free ascending list (`std::set<VertexHandle>::insert`) -/
def setInsert (x : Nat) : List Nat → List Nat
  | [] => [x]
  | y :: ys => if x < y then x :: y :: ys else if x = y then y :: ys else y :: setInsert x ys

/-- number of distinct vertices met by the halfedges of the given halffaces: the `std::set<VertexHandle>` guard of the
    tetrahedral / hexahedral `add_cell` overrides (64c6d58 / 7b999c9) -/
def spanCount (edges : List (Nat × Nat)) (faces : List (List Nat)) (hfs : List Nat) : Nat :=
  (((hfs.flatMap (hfHalfedges faces)).flatMap (fun h => [heFrom edges h, heTo edges h])).foldl (fun s x => setInsert x s) []).length

/-- 4614b67: no ordered vertex pair is used by two halfedges of the cell (tetrahedral override) -/
def noParallel (edges : List (Nat × Nat)) (faces : List (List Nat)) (hfs : List Nat) : Bool :=
  decide (((hfs.flatMap (hfHalfedges faces)).map (fun h => (heFrom edges h, heTo edges h))).Nodup)

/-- 7800c85: in the list the checked hexahedral override is about to store, the two halffaces of each axis share no vertex -/
def oppPairsDisjoint (edges : List (Nat × Nat)) (faces : List (List Nat)) (l : List Nat) : Bool :=
  [0, 1, 2].all (fun a =>
    let front := (hfHalfedges faces (l.getD (2 * a) 0)).map (heFrom edges)
    ((hfHalfedges faces (l.getD (2 * a + 1) 0)).map (heFrom edges)).all (fun v => !front.contains v))

/-- `MeshT::add_cell(hfs, chk)` on a mesh whose edges are `edges` and whose faces are `faces` -/
def cellDec (cfg : Cfg) (edges : List (Nat × Nat)) (faces : List (List Nat)) (hfs : List Nat) : Dec :=
  match cfg.kind with
  | .poly => cellDecBase cfg faces hfs
  | .tet =>
    if hfs.length != 4 then .reject
    else if hfs.any (fun h => faces.length ≤ h / 2) then .fault
    else if hfs.any (fun h => faceValence faces h != 3) then .reject
    else if (hfs.flatMap (hfHalfedges faces)).any (fun h => edges.length ≤ h / 2) then .fault
    else if spanCount edges faces hfs != 4 || !noParallel edges faces hfs then .reject
    else cellDecBase cfg faces hfs
  | .hex =>
    if hfs.length != 6 then .reject
    else if hfs.any (fun h => faces.length ≤ h / 2) then .fault
    else if hfs.any (fun h => faceValence faces h != 4) then .reject
    else if (hfs.flatMap (hfHalfedges faces)).any (fun h => edges.length ≤ h / 2) then .fault
    else if spanCount edges faces hfs != 8 then .reject
    else if !cfg.chk then cellDecBase cfg faces hfs
    else match cfg.hexOrder faces hfs with
      | none => .reject
      | some l =>
        if l.any (fun h => faces.length ≤ h / 2) then .fault
        else if !oppPairsDisjoint edges faces l then .reject       -- 7800c85
        else cellDecBase cfg faces l

/-! ### `getCleanLine` -/

def acceptLine (l : Str) : Bool := !l.isEmpty && l.head? != some cHash

/-- the loop of `getCleanLine` on a good stream; `cur` = characters of the current line, reversed -/
def gclGo : Str → Str → Bool × Str × IStream
  | [], cur =>
    -- `getline` ran into the end of the data: eofbit; failbit as well when it extracted nothing
    let l := trim cur.reverse
    (acceptLine l, l, { rest := [], eof := true, fail := cur.isEmpty })
  | c :: cs, cur =>
    if c == cNL then
      let l := trim cur.reverse
      if acceptLine l then (true, l, { rest := cs }) else gclGo cs []
    else gclGo cs (c :: cur)

/-- `getCleanLine(_ifs, _string)`: (return value, new `_string`, stream).  On a stream that is not
    `good()` `getline` leaves the string alone (it is then trimmed and judged again). -/
def getCleanLine (s : IStream) (line : Str) : Bool × Str × IStream :=
  if s.eof || s.fail then
    let l := trim line
    (acceptLine l, l, { s with fail := true })
  else gclGo s.rest []

/-! ### reader state -/

/-- everything `readStream` carries from line to line.  While a section's loop runs, that section's
    list is held in reverse (newest first); the section function turns it round at the end. -/
structure RS where
  is : IStream
  line : Str := []
  stmp : Str := []
  v : Pos := ([cZero], [cZero], [cZero])
  verts : List Pos := []
  edges : List (Nat × Nat) := []
  faces : List (List Nat) := []
  cells : List (List Nat) := []
  props : List PropRec := []
  fault : Bool := false
  err : Option Err := none
  dV : Nat := 0      -- n_vertices, n_edges, n_faces: the *declared* counts the range checks use
  dE : Nat := 0
  dF : Nat := 0
deriving DecidableEq, Repr

def RS.nextLine (st : RS) : RS :=
  let r := getCleanLine st.is st.line
  { st with line := r.2.1, is := r.2.2 }

def RS.fail (st : RS) (e : Err) : RS := { st with err := some e }

/-- `sstr >> s_tmp; transform(toupper)` -/
def readWordUpper (ss : IStream) (old : Str) : Str × IStream :=
  match extractWord ss with
  | (some w, ss') => (upper w, ss')
  | (none, ss') => (upper old, ss')

def natOf (v : Option Int) : Nat := (v.getD 0).toNat

/-- `sstr.str(line); sstr >> n` into a zero-initialised `size_t` -/
def readCount (line : Str) : Nat := natOf (extractInt .u64 (IStream.ofStr line)).1

/-- cc:144-150: the three coordinates; a failed extraction leaves the previous value -/
def readPos (v : Pos) (line : Str) : Pos :=
  let r0 := extractFloat .f64 (IStream.ofStr line)
  let r1 := extractFloat .f64 r0.2
  let r2 := extractFloat .f64 r1.2
  (r0.1.getD v.1, r1.1.getD v.2.1, r2.1.getD v.2.2)

/-- the counted loops `for (i = 0; i < n; ++i) { …; if (…) return false; … }` of `readStream`:
    `step i` is the body; the loop is left as soon as the body has set `err` -/
def loopN (step : Nat → RS → RS) : Nat → Nat → RS → RS
  | 0, _, st => st
  | n + 1, i, st =>
    let st' := step i st
    if st'.err.isSome then st' else loopN step n (i + 1) st'

/-- cc:142-151 -/
def vertStep (_ : Nat) (st : RS) : RS :=
  let st := st.nextLine
  let v := readPos st.v st.line
  { st with v := v, verts := v :: st.verts }

/-- cc:179-195 -/
def edgeStep (nV : Nat) (i : Nat) (st : RS) : RS :=
  let st := st.nextLine
  let r1 := extractInt .u32 (IStream.ofStr st.line)
  let r2 := extractInt .u32 r1.2
  let a := natOf r1.1
  let b := natOf r2.1
  if nV ≤ a || nV ≤ b then st.fail (.badEdge i)
  else { st with edges := (a, b) :: st.edges }

/-- cc:240-252 / 300-312: `val` indices, each `unsigned int v1 = 0; sstr >> v1; if (v1 >= bound) return false`;
    `acc` newest first -/
def readIdx (bound : Nat) : Nat → IStream → List Nat → Option (List Nat)
  | 0, _, acc => some acc.reverse
  | k + 1, ss, acc =>
    let r := extractInt .u32 ss
    let v := natOf r.1
    if bound ≤ v then none else readIdx bound k r.2 (v :: acc)

/-- cc:226-262; `edges` = the finished edge list -/
def faceStep (cfg : Cfg) (edges : List (Nat × Nat)) (nHE : Nat) (i : Nat) (st : RS) : RS :=
  let st := st.nextLine
  let r := extractInt .u64 (IStream.ofStr st.line)
  let val := natOf r.1
  if val == 0 then st.fail (.zeroValence i)
  else if cfg.lim < val then st.fail (.alloc val)
  else match readIdx nHE val r.2 [] with
    | none => st.fail (.badHalfedge i)
    | some hes =>
      match faceDec cfg edges hes with
      | .accept l => { st with faces := l :: st.faces }
      | .reject => st.fail (.addFace i)
      | .fault => { st with fault := true, err := some (.addFace i) }

/-- cc:291-327; `faces` = the finished face list -/
def cellStep (cfg : Cfg) (edges : List (Nat × Nat)) (faces : List (List Nat)) (nHF : Nat) (i : Nat) (st : RS) : RS :=
  let st := st.nextLine
  let r := extractInt .u64 (IStream.ofStr st.line)
  let val := natOf r.1
  if cfg.lim < val then st.fail (.alloc val)
  else match readIdx nHF val r.2 [] with
    | none => st.fail (.badHalfface i)
    | some hfs =>
      match cellDec cfg edges faces hfs with
      | .accept l => { st with cells := l :: st.cells }
      | .reject => st.fail (.addCell i)
      | .fault => { st with fault := true, err := some (.addCell i) }

/-! ### property values -/

def defaultAtom : Sc → Atom
  | .chr | .uchr => .chr 0
  | .f32 | .f64 => .flt [cZero]
  | .str => .str []
  | .vh | .hfh | .heh => .int (-1)
  | _ => .int 0

def defaultVal : VT → Val
  | .sc s => .sc (defaultAtom s)
  | .tup n _ => .tup (List.replicate n .unk)
  | .vec _ => .vec []
  | .vecvec _ => .vecvec []
  | .map => .map []

/-- `deserialize(_istr, x)` for a scalar `x` holding `old`; `.error n` = allocation of `n` elements failed -/
def readSc (lim : Nat) (s : Sc) (old : Atom) (is : IStream) : Except Nat (Atom × IStream) :=
  match s with
  | .chr | .uchr => let r := extractChar is; .ok ((r.1.map Atom.chr).getD old, r.2)
  | .f32 => let r := extractFloat .f32 is; .ok ((r.1.map Atom.flt).getD old, r.2)
  | .f64 => let r := extractFloat .f64 is; .ok ((r.1.map Atom.flt).getD old, r.2)
  | .str =>
    -- Serializers.cc:51-64
    let r1 := extractInt .u64 is
    let len := natOf r1.1
    let r2 := extractChar r1.2
    if r2.2.ok && len != 0 then
      if lim < len then .error len
      else
        let r3 := readRaw len r2.2
        .ok (.str (r3.1 ++ List.replicate (len - r3.1.length) 0), r3.2)
    else .ok (old, r2.2)
  | .i16 => let r := extractInt .i16 is; .ok ((r.1.map Atom.int).getD old, r.2)
  | .i32 | .vh | .hfh | .heh => let r := extractInt .i32 is; .ok ((r.1.map Atom.int).getD old, r.2)
  | .i64 => let r := extractInt .i64 is; .ok ((r.1.map Atom.int).getD old, r.2)
  | .u32 => let r := extractInt .u32 is; .ok ((r.1.map Atom.int).getD old, r.2)
  | .u64 => let r := extractInt .u64 is; .ok ((r.1.map Atom.int).getD old, r.2)
  | .bool => let r := extractInt .bool is; .ok ((r.1.map Atom.int).getD old, r.2)

/-- `is >> vec[0] >> … >> vec[n-1]` (Vector11T.hh:709-716); `acc` newest first -/
def readTup (lim : Nat) (s : Sc) : List Atom → IStream → List Atom → Except Nat (List Atom × IStream)
  | [], is, acc => .ok (acc.reverse, is)
  | o :: os, is, acc =>
    match readSc lim s o is with
    | .error n => .error n
    | .ok (a, is1) => readTup lim s os is1 (a :: acc)

def readElems (lim : Nat) (s : Sc) : Nat → IStream → List Atom → Except Nat (List Atom × IStream)
  | 0, is, acc => .ok (acc.reverse, is)
  | n + 1, is, acc =>
    match readSc lim s (defaultAtom s) is with
    | .error n => .error n
    | .ok (a, is1) => readElems lim s n is1 (a :: acc)

/-- SerializersT_impl.hh:171-181: `size_t size = 0; is >> size; resize(size); for … deserialize` -/
def readVec (lim : Nat) (s : Sc) (is : IStream) : Except Nat (List Atom × IStream) :=
  let r := extractInt .u64 is
  let size := natOf r.1
  if lim < size then .error size else readElems lim s size r.2 []

def readVecs (lim : Nat) (s : Sc) : Nat → IStream → List (List Atom) → Except Nat (List (List Atom) × IStream)
  | 0, is, acc => .ok (acc.reverse, is)
  | n + 1, is, acc =>
    match readVec lim s is with
    | .error n => .error n
    | .ok (a, is1) => readVecs lim s n is1 (a :: acc)

/-- `std::map::operator[]` assignment on a key-sorted association list -/
def mapInsert : List (Int × Int) → Int → Int → List (Int × Int)
  | [], k, v => [(k, v)]
  | (k', v') :: t, k, v =>
    if k < k' then (k, v) :: (k', v') :: t
    else if k = k' then (k, v) :: t
    else (k', v') :: mapInsert t k v

/-- SerializersT_impl.hh:143-160: `for (i < size && is)` -/
def readMapLoop : Nat → IStream → List (Int × Int) → List (Int × Int) × IStream
  | 0, is, acc => (acc, is)
  | n + 1, is, acc =>
    if !is.ok then (acc, is)
    else
      let r1 := extractInt .i32 is
      let r2 := extractInt .i32 r1.2
      readMapLoop n r2.2 (mapInsert acc (r1.1.getD (-1)) (r2.1.getD 0))

def Val.scAtom (d : Atom) : Val → Atom
  | .sc a => a
  | _ => d
def Val.tupAtoms (n : Nat) : Val → List Atom
  | .tup as => if as.length == n then as else List.replicate n .unk
  | _ => List.replicate n .unk

/-- `OpenVolumeMesh::deserialize(_istr, data_[i])` for a slot currently holding `old` -/
def readVal (lim : Nat) (vt : VT) (old : Val) (is : IStream) : Except Nat (Val × IStream) :=
  match vt with
  | .sc s => (readSc lim s (old.scAtom (defaultAtom s)) is).map (fun r => (.sc r.1, r.2))
  | .tup n s => (readTup lim s (old.tupAtoms n) is []).map (fun r => (.tup r.1, r.2))
  | .vec s => (readVec lim s is).map (fun r => (.vec r.1, r.2))
  | .vecvec s =>
    let r := extractInt .u64 is
    let size := natOf r.1
    if lim < size then .error size else (readVecs lim s size r.2 []).map (fun q => (.vecvec q.1, q.2))
  | .map =>
    let r := extractInt .u64 is
    let q := readMapLoop (natOf r.1) r.2 []
    .ok (.map q.1, q.2)

/-- `PropertyStorageT<T>::deserialize`: every slot in turn; `acc` newest first -/
def readVals (lim : Nat) (vt : VT) : List Val → IStream → List Val → Except Nat (List Val × IStream)
  | [], is, acc => .ok (acc.reverse, is)
  | o :: os, is, acc =>
    match readVal lim vt o is with
    | .error n => .error n
    | .ok (a, is1) => readVals lim vt os is1 (a :: acc)

/-! ### properties -/

def RS.count (st : RS) : Ent → Nat
  | .v => st.verts.length | .e => st.edges.length | .he => 2 * st.edges.length
  | .f => st.faces.length | .hf => 2 * st.faces.length | .c => st.cells.length | .m => 1

def afterFirstQuote : Str → Str
  | [] => []
  | c :: cs => if c == cQuote then cs else afterFirstQuote cs

def stripTrailingQuotes (l : Str) : Str := (l.reverse.dropWhile (· == cQuote)).reverse

/-- `extractQuotedText` (FileManager.cc:82-93), including its `size_t` wrap-arounds -/
def extractQuoted (l : Str) : Str :=
  if l.all (· == cQuote) then []
  else
    let a := if l.contains cQuote then afterFirstQuote l else l
    if a.all (· == cQuote) then a else stripTrailingQuotes a

/-- the vertex positions live in a shared `Vec3d` vertex property of this name (GeometryKernel.hh:212-219):
    a block `VProp vec3d "ovm:position"` is read into the positions themselves -/
def posName : Str := kw "ovm:position"
def posOfVal : Val → Pos → Pos
  | .tup [.flt a, .flt b, .flt c], _ => (a, b, c)
  | _, p => p
def valOfPos (p : Pos) : Val := .tup [.flt p.1, .flt p.2.1, .flt p.2.2]
def isPosKey (k : Ent) (vt : VT) (name : Str) : Bool := k == .v && vt == .tup 3 .f64 && name == posName

def sameKey (p : PropRec) (k : Ent) (vt : VT) (name : Str) : Bool := p.ent == k && p.ty == vt && p.name == name

/-- values currently held by the storage that `request_property<T,Entity>(name)` returns.
    (Simplification, not used by any theorem: for container types a re-declared property starts from
    defaults again instead of the earlier block's elements.) -/
def oldVals (st : RS) (k : Ent) (vt : VT) (name : Str) : List Val :=
  if isPosKey k vt name then st.verts.map valOfPos
  else match st.props.find? (fun p => sameKey p k vt name) with
    | some p => p.vals
    | none => List.replicate (st.count k) (defaultVal vt)

def upsert (ps : List PropRec) (p : PropRec) : List PropRec :=
  if ps.any (fun q => sameKey q p.ent p.ty p.name) then ps.map (fun q => if sameKey q p.ent p.ty p.name then p else q)
  else ps ++ [p]

/-- cc:379-395, 429-457: entity word, type word (both compared in lower case), quoted name; `none` when the
    line is not a declaration the reader acts on (unknown type or entity, empty name) -/
def parseDecl (line : Str) : Option (Ent × VT × Str) :=
  let w1 := extractWord (IStream.ofStr line)
  let w2 := extractWord w1.2
  let name := extractQuoted line
  if name.isEmpty then none       -- a property without a name is ignored (A3)
  else match vtOfName (lower (w2.1.getD [])), entOfName (lower (w1.1.getD [])) with
    | some vt, some k => some (k, vt, name)
    | _, _ => none

/-- the block just read becomes the content of the property `(k, vt, name)` -/
def storeProp (st : RS) (k : Ent) (vt : VT) (name : Str) (vals : List Val) (is' : IStream) : RS :=
  { st with is := is',
            verts := if isPosKey k vt name then List.zipWith posOfVal vals st.verts else st.verts,
            props := upsert st.props ⟨k, vt, name, vals⟩ }

/-- `readProperty` (cc:373-437) + `generateGenericProperty` -/
def readProperty (lim : Nat) (st : RS) : RS :=
  let r := getCleanLine st.is []
  let st := { st with is := r.2.2 }
  match (if r.2.1.isEmpty then none else parseDecl r.2.1) with
  | none => st
  | some (k, vt, name) =>
    match readVals lim vt (oldVals st k vt name) st.is [] with
    | .error n => { st with err := some (.alloc n) }
    | .ok (vals, is') => storeProp st k vt name vals is'

/-- cc:333-352 -/
def readProps (lim : Nat) : Nat → RS → RS
  | 0, st => st.fail .fuel
  | fuel + 1, st =>
    if st.is.eof then st
    else
      let st := readProperty lim st
      if st.err.isSome then st
      else if st.is.fail && !st.is.eof then st.fail .propData
      else readProps lim fuel st

/-! ### `readStream` -/

def kOVM := kw "OVM"
def kBINARY := kw "BINARY"
def kVERTICES := kw "VERTICES"
def kEDGES := kw "EDGES"
def kFACES := kw "FACES"
def kPOLYHEDRA := kw "POLYHEDRA"

/-- `getCleanLine; sstr.str(line); sstr >> s_tmp; toupper; if (s_tmp != KEYWORD) return false` -/
def expectKeyword (kwd : Str) (e : Err) (st : RS) : RS :=
  let st := st.nextLine
  let w := readWordUpper (IStream.ofStr st.line) st.stmp
  let st := { st with stmp := w.1 }
  if w.1 != kwd then st.fail e else st

/-- the count line and the `reserve_*` that follows it -/
def countLine (lim : Nat) (st : RS) : RS × Nat :=
  let st := st.nextLine
  let n := readCount st.line
  (if lim < n then st.fail (.alloc n) else st, n)

/-- cc:83-131: the header line(s) up to and including the `Vertices` keyword -/
def headerPrefix (input : Str) : RS :=
  let st : RS := { is := IStream.ofStr input }
  let st := st.nextLine
  let w1 := readWordUpper (IStream.ofStr st.line) []
  let headerFound := w1.1 == kOVM
  let w2 := readWordUpper w1.2 w1.1
  if w2.1 == kBINARY then st.fail .binary
  else
    let st := if headerFound then st.nextLine else st
    let w := readWordUpper (IStream.ofStr st.line) w2.1
    let st := { st with stmp := w.1 }
    if w.1 != kVERTICES then st.fail .noVertices else st

/-- cc:83-152: header and vertex section -/
def sectHeader (cfg : Cfg) (input : Str) : RS :=
  let st := headerPrefix input
  if st.err.isSome then st else
  let c := countLine cfg.lim st
  if c.1.err.isSome then c.1 else
  let st0 : RS := { c.1 with dV := c.2 }
  let st := loopN vertStep c.2 0 st0
  { st with verts := st.verts.reverse }

/-- cc:157-207 -/
def sectEdges (cfg : Cfg) (st : RS) : RS :=
  let st := expectKeyword kEDGES .noEdges st
  if st.err.isSome then st else
  let c := countLine cfg.lim st
  if c.1.err.isSome then c.1 else
  let st0 : RS := { c.1 with dE := c.2 }
  let st := loopN (edgeStep st0.dV) c.2 0 st0
  { st with edges := st.edges.reverse }

/-- cc:209-268 -/
def sectFaces (cfg : Cfg) (st : RS) : RS :=
  let st := expectKeyword kFACES .noFaces st
  if st.err.isSome then st else
  let c := countLine cfg.lim st
  if c.1.err.isSome then c.1 else
  let st0 : RS := { c.1 with dF := c.2 }
  let st := loopN (faceStep cfg st0.edges (2 * st0.dE)) c.2 0 st0
  { st with faces := st.faces.reverse }

/-- cc:270-333 -/
def sectCells (cfg : Cfg) (st : RS) : RS :=
  let st := expectKeyword kPOLYHEDRA .noCells st
  if st.err.isSome then st else
  let c := countLine cfg.lim st
  if c.1.err.isSome then c.1 else
  let st0 : RS := c.1
  let st := loopN (cellStep cfg st0.edges st0.faces (2 * st0.dF)) c.2 0 st0
  { st with cells := st.cells.reverse }

/-- the whole of `readStream` as a state transformer -/
def readAll (cfg : Cfg) (input : Str) : RS :=
  let st := sectHeader cfg input
  if st.err.isSome then st else
  let st := sectEdges cfg st
  if st.err.isSome then st else
  let st := sectFaces cfg st
  if st.err.isSome then st else
  let st := sectCells cfg st
  if st.err.isSome then st else
  readProps cfg.lim (st.is.rest.length + 2) st

structure Outcome where
  res : Except Err AFile
  fault : Bool
deriving Repr

def RS.file (st : RS) : AFile :=
  { verts := st.verts, edges := st.edges, faces := st.faces, cells := st.cells, props := st.props }

def parse (cfg : Cfg) (input : Str) : Outcome :=
  let st := readAll cfg input
  { res := match st.err with | some e => .error e | none => .ok st.file, fault := st.fault }

/-! ### `isHexahedralMesh` / `isTetrahedralMesh` (FileManager.cc:134-225) -/

def kPolyhedra := kw "Polyhedra"

/-- `while (iff.good()) { iff >> s; if (s == "Polyhedra") break; }` -/
def seekPolyhedra : Nat → IStream → Str → IStream
  | 0, s, _ => s
  | f + 1, s, w =>
    if !s.good then s
    else
      let r := extractWord s
      let w' := r.1.getD w
      if w' == kPolyhedra then r.2 else seekPolyhedra f r.2 w'

/-- `iff.getline(tmp, 256)` -/
def getline256 (s : IStream) : IStream :=
  if s.eof || s.fail then { s with fail := true }
  else match splitNL s.rest with
    | (l, some r) => if l.length ≤ 255 then { rest := r } else { rest := s.rest.drop 255, fail := true }
    | (l, none) => if l.length ≤ 255 then { rest := [], eof := true, fail := l.isEmpty } else { rest := s.rest.drop 255, fail := true }

def detectLoop (want : Nat) : Nat → IStream → Nat → Bool
  | 0, _, _ => true
  | n + 1, s, v =>
    let r := extractInt .u32 s
    let v' := match r.1 with | some x => x.toNat | none => v
    let s' := getline256 r.2
    if v' != want then false else detectLoop want n s' v'

/-- `want = 6`: isHexahedralMesh, `want = 4`: isTetrahedralMesh -/
def detect (want : Nat) (text : Str) : Bool :=
  let s := seekPolyhedra (text.length + 1) (IStream.ofStr text) []
  if s.eof then false
  else
    let r := extractInt .u32 s
    let n := natOf r.1
    if n == 0 then false else detectLoop want n r.2 0

end OVM.Ascii

import OVM.IO.Ascii.RtTopo
/-
  Round trip, part 4: the well-formedness predicates of C06 (what a file written from a mesh without
  pending deletions looks like), and character facts about floating tokens.
-/
namespace OVM.Ascii

/-! ### characters of a floating token -/

def FloatChar (c : Nat) : Prop := isDigit c = true ∨ c = cPlus ∨ c = cMinus ∨ c = cDot ∨ c = 101 ∨ c = 69

theorem fStep_none_of_other (st : FSt) (c : Nat) (h : ¬ FloatChar c) : fStep st c = none := by
  simp only [FloatChar, not_or] at h
  obtain ⟨hd, h1, h2, h3, h4, h5⟩ := h
  have hd' : isDigit c = false := by cases hq : isDigit c <;> simp_all
  have e1 : (c == cPlus) = false := by simpa using h1
  have e2 : (c == cMinus) = false := by simpa using h2
  have e3 : (c == cDot) = false := by simpa using h3
  have e4 : (c == 101) = false := by simpa using h4
  have e5 : (c == 69) = false := by simpa using h5
  have e0 : (c == cZero) = false := by
    cases hq : (c == cZero) with
    | false => rfl
    | true =>
      have : c = cZero := by simpa using hq
      subst this
      simp [isDigit, cZero] at hd'
  have hm : ∀ s : FSt, fMain s c = none := by
    intro s; simp [fMain, e1, e2, e3, e4, e5, hd']
  simp only [fStep, e1, e2, Bool.or_self, Bool.and_false, Bool.false_eq_true, if_false, e0]
  split <;> exact hm _

theorem fStep_some_char (st st' : FSt) (c : Nat) (h : fStep st c = some st') : FloatChar c := by
  apply Classical.byContradiction
  intro hn
  rw [fStep_none_of_other st c hn] at h
  simp at h

theorem floatChar_facts {c : Nat} (h : FloatChar c) : isSpace c = false ∧ isTrim c = false ∧ c ≠ cNL ∧ c ≠ cHash ∧ c ≠ cSP := by
  rcases h with h | h | h | h | h | h
  · have := isDigit_not_space h
    have t := isDigit_not_trim h
    simp only [isDigit, Bool.and_eq_true, decide_eq_true_eq] at h
    refine ⟨this, t, ?_, ?_, ?_⟩ <;> (simp [cNL, cHash, cSP]; omega)
  all_goals (subst h; decide)

theorem fRunAll_chars : ∀ (t : Str) (st st' : FSt), fRunAll st t = some st' → ∀ c ∈ t, FloatChar c := by
  intro t
  induction t with
  | nil => intro _ _ _ c hc; simp at hc
  | cons a as ih =>
    intro st st' h c hc
    simp only [fRunAll] at h
    split at h
    · rename_i st1 h1
      rcases List.mem_cons.mp hc with rfl | hc
      · exact fStep_some_char _ _ _ h1
      · exact ih st1 st' h c hc
    · simp at h

theorem FloatTok.chars {ty : FltTy} {t : Str} (h : FloatTok ty t) : ∀ c ∈ t, FloatChar c := by
  obtain ⟨st, hr, _, _⟩ := h.run
  exact fRunAll_chars t {} st hr

/-! ### well-formed files -/

/-- topology part of C06's domain: tokens the reader reads back verbatim, handles in range, no face
    without halfedges (the reader refuses those since 76aa0c4), sizes within the allocation limit.
    `lim < 2^31`: handles are `int`s. -/
structure WFTopo (lim : Nat) (F : AFile) : Prop where
  lim31 : lim < 2 ^ 31
  posTok : ∀ p ∈ F.verts, FloatTok .f64 p.1 ∧ FloatTok .f64 p.2.1 ∧ FloatTok .f64 p.2.2
  edges : ∀ e ∈ F.edges, e.1 < F.verts.length ∧ e.2 < F.verts.length
  faces : ∀ f ∈ F.faces, f ≠ [] ∧ ∀ x ∈ f, x < 2 * F.edges.length
  cells : ∀ c ∈ F.cells, ∀ x ∈ c, x < 2 * F.faces.length
  nV : F.verts.length ≤ lim
  nE : F.edges.length ≤ lim
  nF : F.faces.length ≤ lim
  nC : F.cells.length ≤ lim
  fval : ∀ f ∈ F.faces, f.length ≤ lim
  cval : ∀ c ∈ F.cells, c.length ≤ lim

/-- the kernel of the target mesh type accepts every face and cell as written (always the case for a
    polyhedral mesh without topology check) -/
structure Accepts (cfg : Cfg) (F : AFile) : Prop where
  faces : ∀ f ∈ F.faces, faceDec cfg F.edges f = .accept f
  cells : ∀ c ∈ F.cells, cellDec cfg F.edges F.faces c = .accept c

end OVM.Ascii

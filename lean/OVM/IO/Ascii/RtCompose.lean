import OVM.IO.Ascii.RtFaces
/-
  Round trip, part 8 (proof-only file): header, keyword and count lines; the four topology sections
  composed: `readAll` on `printTopo F ++ rest` up to the property loop.
-/
namespace OVM.Ascii

theorem nextLine_eq (st : RS) (l rest : Str) (hst : st.is = good (l ++ cNL :: rest)) (hn : NoNL l)
    (hh : HeadOK l) (hl : LastOK l) : st.nextLine = { st with line := l, is := good rest } := by
  obtain ⟨h1, h2⟩ := nextLine_printed st l rest hst hn hh hl
  simp only [RS.nextLine] at h1 h2 ⊢
  rw [h1, h2]

/-- a keyword line: no line end, first character neither trimmed nor '#', last not trimmed -/
structure KwLine (k up : Str) : Prop where
  nonl : NoNL k
  hd : HeadOK k
  lt : LastOK k
  word : ∀ old, (readWordUpper (IStream.ofStr k) old).1 = up

theorem expectKeyword_printed (k up : Str) (hk : KwLine k up) (e : Err) (st : RS) (rest : Str)
    (hst : st.is = good (line k ++ rest)) :
    expectKeyword up e st = { st with line := k, is := good rest, stmp := up } := by
  have e0 : line k ++ rest = k ++ cNL :: rest := by simp [line]
  rw [e0] at hst
  have hn := nextLine_eq st k rest hst hk.nonl hk.hd hk.lt
  unfold expectKeyword
  simp only [hn, hk.word, bne_self_eq_false, Bool.false_eq_true, if_false]

theorem kwLine_edges : KwLine (kw "Edges") kEDGES :=
  ⟨by unfold NoNL; decide, ⟨69, kw "dges", rfl, by decide, by decide⟩, ⟨115, (kw "Edge").reverse, rfl, by decide⟩, kwEdges⟩
theorem kwLine_faces : KwLine (kw "Faces") kFACES :=
  ⟨by unfold NoNL; decide, ⟨70, kw "aces", rfl, by decide, by decide⟩, ⟨115, (kw "Face").reverse, rfl, by decide⟩, kwFaces⟩
theorem kwLine_polyhedra : KwLine (kw "Polyhedra") kPOLYHEDRA :=
  ⟨by unfold NoNL; decide, ⟨80, kw "olyhedra", rfl, by decide, by decide⟩, ⟨97, (kw "Polyhedr").reverse, rfl, by decide⟩, kwPolyhedra⟩

theorem countLine_printed (lim n : Nat) (st : RS) (rest : Str) (hst : st.is = good (line (showNat n) ++ rest))
    (hl : n ≤ lim) (h64 : n < 2 ^ 64) :
    countLine lim st = ({ st with line := showNat n, is := good rest }, n) := by
  have e0 : line (showNat n) ++ rest = showNat n ++ cNL :: rest := by simp [line]
  rw [e0] at hst
  have hn := nextLine_eq st _ rest hst (showNat_noNL n) (showNat_headOK n) (showNat_lastOK n)
  have : ¬ lim < n := by omega
  unfold countLine
  simp only [hn, readCount_showNat n h64, this, if_false]

/-! ### header -/

theorem headerPrefix_printed (rest : Str) :
    headerPrefix (line (kw "OVM ASCII") ++ line (kw "Vertices") ++ rest) =
      { is := good rest, line := kw "Vertices", stmp := kVERTICES } := by
  have hn1 : NoNL (kw "OVM ASCII") := by unfold NoNL; decide
  have hh1 : HeadOK (kw "OVM ASCII") := ⟨79, kw "VM ASCII", rfl, by decide, by decide⟩
  have hl1 : LastOK (kw "OVM ASCII") := ⟨73, (kw "OVM ASCI").reverse, rfl, by decide⟩
  have hn2 : NoNL (kw "Vertices") := by unfold NoNL; decide
  have hh2 : HeadOK (kw "Vertices") := ⟨86, kw "ertices", rfl, by decide, by decide⟩
  have hl2 : LastOK (kw "Vertices") := ⟨115, (kw "Vertice").reverse, rfl, by decide⟩
  have e1 := nextLine_eq { is := IStream.ofStr (line (kw "OVM ASCII") ++ line (kw "Vertices") ++ rest) }
    (kw "OVM ASCII") (line (kw "Vertices") ++ rest) (by simp [IStream.ofStr, good, line]) hn1 hh1 hl1
  have e2 := nextLine_eq { is := good (line (kw "Vertices") ++ rest), line := kw "OVM ASCII" }
    (kw "Vertices") rest (by simp [good, line]) hn2 hh2 hl2
  have w1 : (readWordUpper (IStream.ofStr (kw "OVM ASCII")) []).1 = kOVM := by decide
  have w2 : (readWordUpper (readWordUpper (IStream.ofStr (kw "OVM ASCII")) []).2 kOVM).1 = kw "ASCII" := by decide
  have w3 : (kw "ASCII" == kBINARY) = false := by decide
  unfold headerPrefix
  simp only [e1, w1, w2, w3, beq_self_eq_true, if_true, Bool.false_eq_true, if_false, e2, kwVertices,
    bne_self_eq_false]

/-! ### sections -/

/-- the fields the round trip tracks through the sections -/
structure Snap (st : RS) (is : IStream) (vs : List Pos) (es : List (Nat × Nat)) (fs cs : List (List Nat))
    (ps : List PropRec) (dV dE dF : Nat) : Prop where
  is : st.is = is
  err : st.err = none
  verts : st.verts = vs
  edges : st.edges = es
  faces : st.faces = fs
  cells : st.cells = cs
  props : st.props = ps
  dV : st.dV = dV
  dE : st.dE = dE
  dF : st.dF = dF

theorem sectHeader_printed (cfg : Cfg) (vs : List Pos) (rest : Str) (hl : vs.length ≤ cfg.lim)
    (h64 : vs.length < 2 ^ 64) (hp : ∀ p ∈ vs, PosTok p) :
    Snap (sectHeader cfg (line (kw "OVM ASCII") ++ line (kw "Vertices") ++ line (showNat vs.length) ++
        vs.flatMap printPos ++ rest))
      (good rest) vs [] [] [] [] vs.length 0 0 := by
  have e0 : line (kw "OVM ASCII") ++ line (kw "Vertices") ++ line (showNat vs.length) ++ vs.flatMap printPos ++ rest =
      line (kw "OVM ASCII") ++ line (kw "Vertices") ++ (line (showNat vs.length) ++ (vs.flatMap printPos ++ rest)) := by
    simp
  rw [e0]
  have hH := headerPrefix_printed (line (showNat vs.length) ++ (vs.flatMap printPos ++ rest))
  have hC := countLine_printed cfg.lim vs.length
    { is := good (line (showNat vs.length) ++ (vs.flatMap printPos ++ rest)), line := kw "Vertices", stmp := kVERTICES }
    (vs.flatMap printPos ++ rest) rfl hl h64
  unfold sectHeader
  simp only [hH, hC, Option.isSome_none, Bool.false_eq_true, if_false]
  obtain ⟨r1, r2, r3, r4, r5, r6, r7, r8⟩ := vertLoop_printed vs 0
    { is := good (vs.flatMap printPos ++ rest), line := showNat vs.length, stmp := kVERTICES, dV := vs.length }
    rest rfl rfl hp
  have hd := loopN_inv vertStep (fun s => s.dE = 0 ∧ s.dF = 0)
    (fun i s h => by
      obtain ⟨_, _, _, _, _, _, _, a8, a9, _⟩ := vertStep_facts i s
      exact ⟨a8.trans h.1, a9.trans h.2⟩) vs.length 0
    { is := good (vs.flatMap printPos ++ rest), line := showNat vs.length, stmp := kVERTICES, dV := vs.length }
    ⟨rfl, rfl⟩
  exact ⟨r1, r3, by simp [r2], r4, r5, r6, r7, r8, hd.1, hd.2⟩

theorem Snap.elim {st : RS} {is : IStream} {vs : List Pos} {es : List (Nat × Nat)} {fs cs : List (List Nat)}
    {ps : List PropRec} {dV dE dF : Nat} (h : Snap st is vs es fs cs ps dV dE dF) :
    ∃ line stmp v fault, st =
      { is := is, line := line, stmp := stmp, v := v, verts := vs, edges := es, faces := fs,
        cells := cs, props := ps, fault := fault, err := none, dV := dV, dE := dE, dF := dF } := by
  cases st with
  | mk sis sline sstmp sv sverts sedges sfaces scells sprops sfault serr sdV sdE sdF =>
    obtain ⟨h1, h2, h3, h4, h5, h6, h7, h8, h9, h10⟩ := h
    simp only at h1 h2 h3 h4 h5 h6 h7 h8 h9 h10
    subst h1 h2 h3 h4 h5 h6 h7 h8 h9 h10
    exact ⟨_, _, _, _, rfl⟩

theorem sectEdges_printed (cfg : Cfg) (st : RS) (vs : List Pos) (es : List (Nat × Nat)) (rest : Str) (dE0 dF0 : Nat)
    (hs : Snap st (good (line (kw "Edges") ++ line (showNat es.length) ++ es.flatMap printEdge ++ rest))
      vs [] [] [] [] vs.length dE0 dF0)
    (hl : es.length ≤ cfg.lim) (h64 : es.length < 2 ^ 64) (hv : vs.length ≤ 2 ^ 32)
    (hb : ∀ e ∈ es, e.1 < vs.length ∧ e.2 < vs.length) :
    Snap (sectEdges cfg st) (good rest) vs es [] [] [] vs.length es.length dF0 := by
  have e0 : line (kw "Edges") ++ line (showNat es.length) ++ es.flatMap printEdge ++ rest =
      line (kw "Edges") ++ (line (showNat es.length) ++ (es.flatMap printEdge ++ rest)) := by simp
  rw [e0] at hs
  obtain ⟨l0, t0, v0, fa0, rfl⟩ := hs.elim
  have hK := expectKeyword_printed (kw "Edges") kEDGES kwLine_edges .noEdges _ _ hs.is
  simp only at hK
  have hC := countLine_printed cfg.lim es.length
    { is := good (line (showNat es.length) ++ (es.flatMap printEdge ++ rest)), line := kw "Edges", stmp := kEDGES,
      v := v0, verts := vs, fault := fa0, dV := vs.length, dE := dE0, dF := dF0 }
    (es.flatMap printEdge ++ rest) rfl hl h64
  simp only at hC
  unfold sectEdges
  simp only [hK, hC, Option.isSome_none, Bool.false_eq_true, if_false]
  obtain ⟨r1, r2, r3, r4, r5, r6, r7, r8, r9⟩ := edgeLoop_printed vs.length hv es 0
    { is := good (es.flatMap printEdge ++ rest), line := showNat es.length, stmp := kEDGES,
      v := v0, verts := vs, fault := fa0, dV := vs.length, dE := es.length, dF := dF0 }
    rest rfl rfl hb
  have hd := loopN_inv (edgeStep vs.length) (fun s => s.dF = dF0)
    (fun i s h => (edgeStep_facts vs.length i s).2.2.2.2.2.2.2.trans h) es.length 0
    { is := good (es.flatMap printEdge ++ rest), line := showNat es.length, stmp := kEDGES,
      v := v0, verts := vs, fault := fa0, dV := vs.length, dE := es.length, dF := dF0 } rfl
  exact ⟨r1, r3, r4, by simp [r2], r5, r6, r7, r8, r9, hd⟩

theorem sectFaces_printed (cfg : Cfg) (st : RS) (vs : List Pos) (es : List (Nat × Nat)) (fs : List (List Nat))
    (rest : Str) (dF0 : Nat)
    (hs : Snap st (good (line (kw "Faces") ++ line (showNat fs.length) ++ fs.flatMap printHandles ++ rest))
      vs es [] [] [] vs.length es.length dF0)
    (hl : fs.length ≤ cfg.lim) (h64 : fs.length < 2 ^ 64)
    (hb : ∀ f ∈ fs, f ≠ [] ∧ (∀ x ∈ f, x < 2 * es.length ∧ x < 2 ^ 32) ∧ f.length ≤ cfg.lim ∧ f.length < 2 ^ 64 ∧
      faceDec cfg es f = .accept f) :
    Snap (sectFaces cfg st) (good rest) vs es fs [] [] vs.length es.length fs.length := by
  have e0 : line (kw "Faces") ++ line (showNat fs.length) ++ fs.flatMap printHandles ++ rest =
      line (kw "Faces") ++ (line (showNat fs.length) ++ (fs.flatMap printHandles ++ rest)) := by simp
  rw [e0] at hs
  obtain ⟨l0, t0, v0, fa0, rfl⟩ := hs.elim
  have hK := expectKeyword_printed (kw "Faces") kFACES kwLine_faces .noFaces _ _ hs.is
  simp only at hK
  have hC := countLine_printed cfg.lim fs.length
    { is := good (line (showNat fs.length) ++ (fs.flatMap printHandles ++ rest)), line := kw "Faces", stmp := kFACES,
      v := v0, verts := vs, edges := es, fault := fa0, dV := vs.length, dE := es.length, dF := dF0 }
    (fs.flatMap printHandles ++ rest) rfl hl h64
  simp only at hC
  unfold sectFaces
  simp only [hK, hC, Option.isSome_none, Bool.false_eq_true, if_false]
  obtain ⟨r1, r2, r3, r4, r5, r6, r7, r8⟩ := faceLoop_printed cfg es (2 * es.length) fs 0
    { is := good (fs.flatMap printHandles ++ rest), line := showNat fs.length, stmp := kFACES,
      v := v0, verts := vs, edges := es, fault := fa0, dV := vs.length, dE := es.length, dF := fs.length }
    rest rfl rfl hb
  have hd := loopN_inv (faceStep cfg es (2 * es.length)) (fun s => s.dV = vs.length ∧ s.dE = es.length)
    (fun i s h => by
      obtain ⟨_, _, _, _, a5, a6, _⟩ := faceStep_facts cfg es (2 * es.length) i s
      exact ⟨a5.trans h.1, a6.trans h.2⟩) fs.length 0
    { is := good (fs.flatMap printHandles ++ rest), line := showNat fs.length, stmp := kFACES,
      v := v0, verts := vs, edges := es, fault := fa0, dV := vs.length, dE := es.length, dF := fs.length }
    ⟨rfl, rfl⟩
  exact ⟨r1, r3, r4, r5, by simp [r2], r6, r7, hd.1, hd.2, r8⟩

theorem sectCells_printed (cfg : Cfg) (st : RS) (vs : List Pos) (es : List (Nat × Nat)) (fs cs : List (List Nat))
    (rest : Str)
    (hs : Snap st (good (line (kw "Polyhedra") ++ line (showNat cs.length) ++ cs.flatMap printHandles ++ rest))
      vs es fs [] [] vs.length es.length fs.length)
    (hl : cs.length ≤ cfg.lim) (h64 : cs.length < 2 ^ 64)
    (hb : ∀ c ∈ cs, (∀ x ∈ c, x < 2 * fs.length ∧ x < 2 ^ 32) ∧ c.length ≤ cfg.lim ∧ c.length < 2 ^ 64 ∧
      cellDec cfg es fs c = .accept c) :
    Snap (sectCells cfg st) (good rest) vs es fs cs [] vs.length es.length fs.length := by
  have e0 : line (kw "Polyhedra") ++ line (showNat cs.length) ++ cs.flatMap printHandles ++ rest =
      line (kw "Polyhedra") ++ (line (showNat cs.length) ++ (cs.flatMap printHandles ++ rest)) := by simp
  rw [e0] at hs
  obtain ⟨l0, t0, v0, fa0, rfl⟩ := hs.elim
  have hK := expectKeyword_printed (kw "Polyhedra") kPOLYHEDRA kwLine_polyhedra .noCells _ _ hs.is
  simp only at hK
  have hC := countLine_printed cfg.lim cs.length
    { is := good (line (showNat cs.length) ++ (cs.flatMap printHandles ++ rest)), line := kw "Polyhedra", stmp := kPOLYHEDRA,
      v := v0, verts := vs, edges := es, faces := fs, fault := fa0, dV := vs.length, dE := es.length, dF := fs.length }
    (cs.flatMap printHandles ++ rest) rfl hl h64
  simp only at hC
  unfold sectCells
  simp only [hK, hC, Option.isSome_none, Bool.false_eq_true, if_false]
  obtain ⟨r1, r2, r3, r4, r5, r6, r7⟩ := cellLoop_printed cfg es fs (2 * fs.length) cs 0
    { is := good (cs.flatMap printHandles ++ rest), line := showNat cs.length, stmp := kPOLYHEDRA,
      v := v0, verts := vs, edges := es, faces := fs, fault := fa0, dV := vs.length, dE := es.length, dF := fs.length }
    rest rfl rfl hb
  have hd := loopN_inv (cellStep cfg es fs (2 * fs.length)) (fun s => s.dV = vs.length ∧ s.dE = es.length ∧ s.dF = fs.length)
    (fun i s h => by
      obtain ⟨_, _, _, _, a5, a6, a7⟩ := cellStep_facts cfg es fs (2 * fs.length) i s
      exact ⟨a5.trans h.1, a6.trans h.2.1, a7.trans h.2.2⟩) cs.length 0
    { is := good (cs.flatMap printHandles ++ rest), line := showNat cs.length, stmp := kPOLYHEDRA,
      v := v0, verts := vs, edges := es, faces := fs, fault := fa0, dV := vs.length, dE := es.length, dF := fs.length }
    ⟨rfl, rfl, rfl⟩
  exact ⟨r1, r3, r4, r5, r6, by simp [r2], r7, hd.1, hd.2.1, hd.2.2⟩

end OVM.Ascii

import OVM.IO.Ascii.Parse
/-
  Judge for the OVM-ASCII correspondence (C06/C07, text half).  Reads a trace written by
  `harness/ascii_drv.cc` and compares the implementation with the model:

    rt       – model-parse the text the C++ writer produced, compare with the dump of the source mesh;
               re-print with the model printer, compare bytes; every C++ read of that text: result class,
               dump = model file = source file, second C++ write = first (property blocks as a multiset);
               `isTetrahedralMesh`/`isHexahedralMesh` against `detect`
    mut      – result class of the model against the implementation's; on success the dump must be `WF`
               (computed from the dump alone) and equal to the model's file
    pending  – writer on a mesh with pending deletions: refused (`write = none`), or the text must parse to
               the collected mesh

  Output: one line per judged read, `J <case> <mut> <read> OK|FAIL|SKIP <detail>`, then `SUMMARY …`.
  Run with `lake env lean --run OVM/IO/Ascii/Driver.lean <trace>` or as a compiled executable.
-/
namespace OVM.Ascii.Judge
open OVM.Ascii

/-! ### concrete hex ordering step (HexahedralMeshTopologyKernel.cc:107-155, 160-259, 437-456) -/

def adjHf (faces : List (List Nat)) (hf he : Nat) (hfs : List Nat) : Option Nat :=
  let o := he ^^^ 1
  hfs.find? (fun x => x != hf && (hfHalfedges faces x).contains o)

def checkSide (faces : List (List Nat)) (hfs : List Nat) (side : Nat) (init order : List Nat) : Bool :=
  let hf := hfs.getD side 0
  let at_ := fun (i : Nat) => hfs[i]?
  let step := fun (st : Option (Option Nat)) (he : Nat) =>
    -- st = none: failed; some none: offset -1; some (some k): offset k
    match st with
    | none => none
    | some off =>
      let a := adjHf faces hf he hfs
      match off with
      | none =>
        let idx := init.findIdx (fun j => a.isSome && a == at_ j)
        if idx < init.length then some (some idx) else some none
      | some k =>
        let k' := (k + 1) % 4
        if a.isSome && a == at_ (order.getD k' 0) then some (some k') else none
  match (hfHalfedges faces hf).foldl step (some none) with
  | some (some _) => true
  | _ => false

def hexOrderStd (faces : List (List Nat)) (hfs : List Nat) : Option (List Nat) :=
  let top := [2, 4, 3, 5]
  let bot := [3, 4, 2, 5]
  if checkSide faces hfs 0 top top && checkSide faces hfs 1 bot bot then some hfs
  else
    -- re-ordering attempt; any missing neighbour is treated as a rejection
    let h0 := hfs.getD 0 0
    let hes := hfHalfedges faces h0
    let adj := hes.map (fun he => adjHf faces h0 he hfs)
    if adj.any Option.isNone then none
    else
      let sides := adj.filterMap id       -- in order: slots 2,4,3,5
      match hes.head? with
      | none => none
      | some he0 =>
        match adjHf faces h0 he0 hfs with
        | none => none
        | some n1 =>
          let o := he0 ^^^ 1
          let hs := hfHalfedges faces n1
          let i := hs.findIdx (· == o)
          if i ≥ hs.length then none
          else
            let he2 := hs.getD ((i + 2) % hs.length) 0
            match adjHf faces n1 he2 hfs with
            | none => none
            | some b =>
              let g := fun (i : Nat) => sides.getD i 0
              some [h0, b, g 0, g 2, g 1, g 3]

/-! ### small parsing helpers -/

def hexVal (c : Char) : Nat :=
  if '0' ≤ c && c ≤ '9' then c.toNat - 48 else if 'a' ≤ c && c ≤ 'f' then c.toNat - 87 else 0

def unhex (s : String) : Str :=
  -- tail recursive: a `W` line can hold megabytes (a reader that accepted a huge declared string writes it back)
  let rec go : List Char → Array Nat → Array Nat
    | a :: b :: t, acc => go t (acc.push (hexVal a * 16 + hexVal b))
    | _, acc => acc
  (go s.toList #[]).toList

def strOf (l : Str) : String := String.ofList (l.map (fun c => Char.ofNat c))
def hexOf (l : Str) : String :=
  let d := "0123456789abcdef".toList
  String.ofList (l.flatMap (fun c => [d.getD (c / 16) '0', d.getD (c % 16) '0']))

def words (s : String) : List String := (s.splitOn " ").filter (· != "")

def kv (ws : List String) (k : String) : String :=
  match ws.find? (fun w => w.startsWith (k ++ "=")) with
  | some w => (w.drop (k.length + 1)).toString
  | none => ""

/-! ### dump of the implementation's mesh -/

structure DProp where
  ent : String
  ty : String
  name : Str
  n : Nat
  slots : List (List String)
deriving Repr

structure Dump where
  nV : Nat := 0
  nE : Nat := 0
  nF : Nat := 0
  nC : Nat := 0
  gc : Bool := false
  verts : List (List String) := []
  edges : List (Nat × Nat) := []
  faces : List (List Nat) := []
  cells : List (List Nat) := []
  props : List DProp := []
deriving Repr

def splitSlots (ws : List String) : List (List String) :=
  let rec go : List String → List String → List (List String)
    | [], cur => if cur.isEmpty then [] else [cur.reverse]
    | w :: t, cur => if w == "|" then cur.reverse :: go t [] else go t (w :: cur)
  go ws []

def addDumpLine (d : Dump) (l : String) : Dump :=
  let ws := words l
  match ws with
  | "n" :: a :: b :: c :: e :: "gc" :: g :: _ =>
    { d with nV := a.toNat!, nE := b.toNat!, nF := c.toNat!, nC := e.toNat!, gc := g == "1" }
  | "v" :: t => { d with verts := t :: d.verts }
  | "e" :: a :: b :: _ => { d with edges := (a.toInt!.toNat, b.toInt!.toNat) :: d.edges }
  | "f" :: _ :: t => { d with faces := t.map (fun x => x.toInt!.toNat) :: d.faces }
  | "c" :: _ :: t => { d with cells := t.map (fun x => x.toInt!.toNat) :: d.cells }
  | "p" :: ent :: ty :: nm :: n :: ":" :: t =>
    { d with props := { ent := ent, ty := ty, name := unhex nm, n := n.toNat!, slots := splitSlots t } :: d.props }
  | _ => d

/-- `addDumpLine` collects newest first -/
def Dump.finish (d : Dump) : Dump :=
  { d with verts := d.verts.reverse, edges := d.edges.reverse, faces := d.faces.reverse, cells := d.cells.reverse,
           props := d.props.reverse }

/-- raw integers of the dump, negative ones kept: WF must see them -/
def rawInts (l : String) : List Int := ((words l).drop 2).map (fun x => x.toInt!)

/-! ### model file → dump vocabulary -/

def atomTok : Atom → String
  | .int i => toString i
  | .chr c => "c" ++ toString c
  | .flt t => strOf t
  | .str s => "s" ++ hexOf s
  | .unk => "?"

def valToks : Val → List String
  | .sc a => [atomTok a]
  | .tup as => ["("] ++ as.map atomTok ++ [")"]
  | .vec as => ["[", toString as.length] ++ as.map atomTok ++ ["]"]
  | .vecvec ass => ["[", toString ass.length] ++ ass.flatMap (fun as => ["[", toString as.length] ++ as.map atomTok ++ ["]"]) ++ ["]"]
  | .map kvs => ["{", toString kvs.length] ++ kvs.flatMap (fun kv => [toString kv.1, toString kv.2]) ++ ["}"]

/-- a floating token the implementation prints back unchanged (`%g`, 6 digits, fixed notation) -/
def canonFloat (t : String) : Bool :=
  let cs := t.toList
  let cs := if cs.head? == some '-' then cs.tail else cs
  let ip := cs.takeWhile Char.isDigit
  let r := cs.dropWhile Char.isDigit
  let okInt := ip == ['0'] || (!ip.isEmpty && ip.head? != some '0' && ip.length ≤ 6)
  match r with
  | [] => okInt
  | '.' :: fp =>
    okInt && !fp.isEmpty && fp.all Char.isDigit && fp.getLast? != some '0' &&
      (if ip == ['0'] then
         let lz := (fp.takeWhile (· == '0')).length
         lz ≤ 3 && fp.length - lz ≤ 6
       else ip.length + fp.length ≤ 6)
  | _ => false

def isNumLike (t : String) : Bool :=
  match t.toList with
  | [] => false
  | c :: _ => c.isDigit || c == '-' || c == '.' || c == '+'

/-- token comparison: exact, or lenient (unknown and non-canonical floating tokens are not compared) -/
def tokEq (exact : Bool) (isFloatTy : Bool) (m i : String) : Bool :=
  if m == "?" then true
  else if m == i then true
  else if exact then false
  else if isFloatTy && isNumLike m && !canonFloat m then true
  else false

def floatTy (ty : String) : Bool :=
  ty == "float" || ty == "double" || ty == "vector_double" || (ty.startsWith "vec" && (ty.endsWith "f" || ty.endsWith "d"))

def entStr : Ent → String
  | .v => "VProp" | .e => "EProp" | .he => "HEProp" | .f => "FProp" | .hf => "HFProp" | .c => "CProp" | .m => "MProp"

def listEq {α} (f : α → α → Bool) : List α → List α → Bool
  | [], [] => true
  | a :: as, b :: bs => f a b && listEq f as bs
  | _, _ => false

/-- first difference between the model's file and a dump, `none` = equal under the projection -/
def diffFile (exact : Bool) (cmpVals : Bool) (F : AFile) (d : Dump) : Option String :=
  if F.verts.length != d.nV || F.edges.length != d.nE || F.faces.length != d.nF || F.cells.length != d.nC then
    some s!"counts model={F.verts.length},{F.edges.length},{F.faces.length},{F.cells.length} impl={d.nV},{d.nE},{d.nF},{d.nC}"
  else if F.edges != d.edges then some "edges"
  else if F.faces != d.faces then some "faces"
  else if F.cells != d.cells then some "cells"
  else
    let vm := F.verts.map (fun p => [strOf p.1, strOf p.2.1, strOf p.2.2])
    if !listEq (listEq (tokEq exact true)) vm d.verts then some s!"positions"
    else
      -- properties: same key set, same values
      let keysM := F.props.map (fun p => (entStr p.ent, strOf (nameOfVT p.ty), p.name))
      let keysD := d.props.map (fun p => (p.ent, p.ty, p.name))
      if keysM.any (fun k => !keysD.contains k) || keysD.any (fun k => !keysM.contains k) || keysM.length != keysD.length then
        some s!"property set model={keysM.map (fun k => (k.1, k.2.1, strOf k.2.2))} impl={keysD.map (fun k => (k.1, k.2.1, strOf k.2.2))}"
      else
        F.props.findSome? (fun p =>
          match d.props.find? (fun q => q.ent == entStr p.ent && q.ty == strOf (nameOfVT p.ty) && q.name == p.name) with
          | none => some "property missing"
          | some q =>
            let mv := p.vals.map valToks
            if q.n != p.vals.length then some s!"property size {strOf p.name}: model={p.vals.length} impl={q.n}"
            else if cmpVals && !listEq (listEq (tokEq exact (floatTy q.ty))) mv q.slots then
              some s!"property values {entStr p.ent} {q.ty} {strOf p.name}: model={mv} impl={q.slots}"
            else none)

/-- C07's success clause on the implementation's dump alone -/
def dumpWF (d : Dump) (rawE rawF rawC : List (List Int)) : Option String :=
  if d.verts.length != d.nV || d.edges.length != d.nE || d.faces.length != d.nF || d.cells.length != d.nC then some "dump/count mismatch"
  else if rawE.any (fun l => l.any (fun x => x < 0 || x ≥ d.nV)) then some "edge endpoint out of range"
  else if rawF.any (fun l => l.any (fun x => x < 0 || x ≥ 2 * d.nE)) then some "halfedge handle out of range"
  else if rawC.any (fun l => l.any (fun x => x < 0 || x ≥ 2 * d.nF)) then some "halfface handle out of range"
  else
    d.props.findSome? (fun p =>
      let want := if p.ent == "VProp" then d.nV else if p.ent == "EProp" then d.nE else if p.ent == "HEProp" then 2 * d.nE
        else if p.ent == "FProp" then d.nF else if p.ent == "HFProp" then 2 * d.nF else if p.ent == "CProp" then d.nC else 1
      if p.n != want || p.slots.length != want then some s!"property {strOf p.name} has {p.n} elements for {want} entities" else none)

def fileWF (F : AFile) : Option String :=
  if F.edges.any (fun e => e.1 ≥ F.verts.length || e.2 ≥ F.verts.length) then some "model: edge endpoint"
  else if F.faces.any (fun f => f.any (· ≥ 2 * F.edges.length)) then some "model: halfedge"
  else if F.cells.any (fun c => c.any (· ≥ 2 * F.faces.length)) then some "model: halfface"
  else if F.props.any (fun p => p.vals.length != F.count p.ent) then some "model: property size"
  else none

/-! ### text comparison modulo the order of property blocks -/

def isPropHeader (l : Str) : Bool :=
  Ent.all.any (fun k => (k.name ++ [cSP]).isPrefixOf l)

def splitLines (t : Str) : List Str :=
  let rec go : Str → Str → List Str
    | [], cur => if cur.isEmpty then [] else [cur.reverse]
    | c :: cs, cur => if c == cNL then cur.reverse :: go cs [] else go cs (c :: cur)
  go t []

/-- (topology part, property blocks keyed by their header line); the split uses the model's parse of the
    text to know where blocks start: the k-th property starts at the k-th header in file order -/
def propBlocks (F : AFile) (t : Str) : Str × List Str :=
  let topo := printTopo F
  let rest := t.drop topo.length
  (t.take topo.length, (Ent.all.flatMap (fun k => (propsOf F k))).map printProp |>.foldl (fun (acc : List Str × Str) b => (acc.1 ++ [acc.2.take b.length], acc.2.drop b.length)) ([], rest) |>.1)

def strLt (a b : Str) : Bool := a.map (fun c => Char.ofNat c) |> String.ofList |> (· < (b.map (fun c => Char.ofNat c) |> String.ofList))

def sortStrs (l : List Str) : List Str := (l.toArray.qsort strLt).toList

/-- the same property (entity, type, name) declared twice: the second block is read over the first
    one's values; the model keeps defaults there, so values are then not compared -/
def hasDupKeys (t : Str) : Bool :=
  let keys := (splitLines t).filterMap (fun l =>
    let l := trim l
    let w1 := extractWord (IStream.ofStr l)
    let w2 := extractWord w1.2
    match vtOfName (lower (w2.1.getD [])), entOfName (lower (w1.1.getD [])) with
    | some vt, some k => some (k, vt, extractQuoted l)
    | _, _ => none)
  let rec dup : List (Ent × VT × Str) → Bool
    | [] => false
    | k :: t => t.contains k || dup t
  dup keys

/-! ### configuration and classes -/

/-- declared sizes up to this are executed by the model; larger ones are allocation failures when
    ≥ 2^31-1 (every container involved then exceeds the 1 GiB the sanitizer run allows) and are not
    judged in between (the implementation is merely slow / allocator dependent there) -/
def allocLimit : Nat := 999999

def mkCfg (kind : String) (chk : Bool) : Cfg :=
  { kind := if kind == "tet" then .tet else if kind == "hex" then .hex else .poly, chk := chk, lim := allocLimit,
    hexOrder := hexOrderStd }

def classOfModel (o : Outcome) : String :=
  match o.res with
  | .ok _ => "ok"
  | .error (.alloc n) => if 2147483647 ≤ n then "exc" else "gray"
  | .error .fuel => "hang"
  | .error _ => "false"

/-- sanitizer aborts that are allocation failures: under ASan `operator new` cannot throw -/
def isAllocAbort (r : String) : Bool :=
  r.startsWith "asan:allocator" || r.startsWith "asan:allocation-size-too-big" || r.startsWith "asan:out-of-memory"
    || r.startsWith "asan:requested" || r.startsWith "asan:calloc" || r.startsWith "asan:bad_alloc"

def classOfImpl (rline : String) : String :=
  let ws := words rline
  match ws with
  | "R" :: "ok" :: _ => "ok"
  | "R" :: "false" :: _ => "false"
  | "R" :: "exc" :: w :: _ => if w == "bad_alloc" || w == "length_error" then "exc" else "exc-other"
  | "X" :: r :: _ => if isAllocAbort r then "exc" else "crash"
  | _ => "?"

/-! ### the trace walker -/

structure ReadRec where
  kind : String := ""
  chk : Bool := false
  bu : Bool := false
  rline : String := ""
  dump : Dump := {}
  rawE : List (List Int) := []
  rawF : List (List Int) := []
  rawC : List (List Int) := []
  w : Option Str := none

structure Stats where
  judged : Nat := 0
  ok : Nat := 0
  failed : Nat := 0
  skipped : Nat := 0
  classes : List (String × Nat) := []
  wfChecked : Nat := 0
  valuesCompared : Nat := 0

def bump (l : List (String × Nat)) (k : String) : List (String × Nat) :=
  if l.any (·.1 == k) then l.map (fun p => if p.1 == k then (p.1, p.2 + 1) else p) else l ++ [(k, 1)]

structure JState where
  mode : String := ""
  caseId : String := ""
  caseKind : String := ""
  text : Str := []
  textIsMut : Bool := false
  mutId : String := "-"
  mutKind : String := ""
  src : Dump := {}
  gcsrc : Dump := {}
  gctext : Str := []
  wstateGood : Bool := true
  pending : Bool := false
  inSrc : Bool := false
  inGc : Bool := false
  inRead : Bool := false
  readNo : Nat := 0
  cur : ReadRec := {}
  detTet : Bool := false
  detHex : Bool := false
  fileM : Option AFile := none      -- model parse of TEXT (poly, unchecked)
  stats : Stats := {}

/-- `level`: `prop` = the property's own oracle fails on the implementation's output alone (crash, hang,
    foreign exception, success with an invalid mesh, round trip through the implementation differs, …);
    `corr` = model and implementation disagree although that oracle passes (the correspondence broke). -/
def emit (st : JState) (verdict level sig detail : String) : IO JState := do
  IO.println s!"J {st.caseId} {st.mutId} {st.readNo} {verdict} level={level} sig={sig} kind={st.cur.kind} chk={if st.cur.chk then 1 else 0} bu={if st.cur.bu then 1 else 0} mut={st.mutKind} :: {detail}"
  let s := st.stats
  let s := { s with judged := s.judged + 1 }
  let s := if verdict == "OK" then { s with ok := s.ok + 1 } else if verdict == "SKIP" then { s with skipped := s.skipped + 1 } else { s with failed := s.failed + 1 }
  return { st with stats := s }

def emitCase (st : JState) (verdict level sig detail : String) : IO JState := do
  IO.println s!"J {st.caseId} - 0 {verdict} level={level} sig={sig} kind={st.caseKind} chk=- bu=- mut=- :: {detail}"
  let s := st.stats
  let s := { s with judged := s.judged + 1 }
  let s := if verdict == "OK" then { s with ok := s.ok + 1 } else { s with failed := s.failed + 1 }
  return { st with stats := s }

def deathSig (rline : String) : String :=
  match words rline with
  | "X" :: r :: _ => "died:" ++ r
  | "R" :: "exc" :: w :: _ => "exception:" ++ ((w.splitOn ":").headD w)
  | _ => "died:?"

/-- implementation-only comparison of two dumps (source mesh / mesh read back) -/
def dumpDiff (a b : Dump) : Option String :=
  if a.nV != b.nV || a.nE != b.nE || a.nF != b.nF || a.nC != b.nC then some "counts"
  else if a.verts != b.verts then some "positions"
  else if a.edges != b.edges then some "edges"
  else if a.faces != b.faces then some "faces"
  else if a.cells != b.cells then some "cells"
  else if a.props.map (fun p => (p.ent, p.ty, p.name, p.n, p.slots)) != b.props.map (fun p => (p.ent, p.ty, p.name, p.n, p.slots)) then some "properties"
  else none

/-- judge one finished READ -/
def judgeRead (st : JState) : IO JState := do
  let r := st.cur
  let cfg := mkCfg r.kind r.chk
  let o := parse cfg st.text
  let cm := classOfModel o
  let ci := classOfImpl r.rline
  if cm == "gray" then
    return ← emit st "SKIP" "-" "gray-count" s!"impl={r.rline}"
  let st := { st with stats := { st.stats with classes := bump st.stats.classes (ci ++ "/" ++ cm) } }
  if ci == "crash" || ci == "exc-other" || ci == "?" then
    return ← emit st "FAIL" "prop" (deathSig r.rline) s!"model={cm} impl={r.rline}"
  if o.fault then
    return ← emit st "FAIL" "corr" "model-fault" s!"impl={r.rline}"
  let ownUnchecked := !st.textIsMut && r.kind == st.caseKind && !r.chk
  if ownUnchecked && ci != "ok" then
    return ← emit st "FAIL" "prop" "roundtrip-read-failed" s!"impl={r.rline}"
  if ci != cm then
    -- success of the implementation where the model refuses: is the mesh at least valid?
    if ci == "ok" then
      match dumpWF r.dump r.rawE r.rawF r.rawC with
      | some why => return ← emit st "FAIL" "prop" "success-not-WF" why
      | none => pure ()
    return ← emit st "FAIL" "corr" s!"class:model={cm}:impl={ci}" s!"impl={r.rline} modelres={match o.res with | .error e => reprStr e | .ok _ => "ok"}"
  match o.res with
  | .error _ => emit st "OK" "-" "-" s!"class={cm}"
  | .ok F =>
    let st := { st with stats := { st.stats with wfChecked := st.stats.wfChecked + 1 } }
    match dumpWF r.dump r.rawE r.rawF r.rawC with
    | some why => emit st "FAIL" "prop" "success-not-WF" why
    | none =>
    match fileWF F with
    | some why => emit st "FAIL" "corr" "model-not-WF" why
    | none =>
    if st.textIsMut then
      match diffFile false (!hasDupKeys st.text) F r.dump with
      | some why => emit st "FAIL" "corr" ("file-differs:" ++ ((why.splitOn " ").headD "")) why
      | none => emit st "OK" "-" "-" "class=ok"
    else
      -- round trip proper.  Implementation alone first: the mesh read back is the mesh written …
      let sameKind := r.kind == st.caseKind
      -- a topology-checked read into a hexahedral mesh stores each cell's halffaces in the x/y/z convention: the list
      -- may be a permutation of the written one (C16); then the read-back must equal the model's prediction and be
      -- cell by cell a permutation of the source
      let hexReordered : Bool :=
        r.kind == "hex" && r.chk &&
        (match st.fileM with
         | some F0 => F.cells.length == F0.cells.length &&
                      (List.range F.cells.length).all (fun i => insSort (F.cells.getD i []) == insSort (F0.cells.getD i [])) &&
                      { F with cells := F0.cells } == F0 && (diffFile true true F r.dump).isNone
         | none => false)
      match (if hexReordered then none else dumpDiff st.src r.dump) with
      | some why => emit st "FAIL" "prop" ("roundtrip-differs:" ++ why) s!"mesh read back differs from the source mesh in {why}"
      | none =>
      if hexReordered && F.cells != (st.fileM.map (·.cells)).getD [] then emit st "OK" "-" "-" "roundtrip-hex-reordered" else
      let _ := sameKind
      -- … and writing it again changes nothing (property blocks compared as a multiset)
      match r.w, st.fileM with
      | none, _ => emit st "FAIL" "prop" "no-second-write" ""
      | some _, none => emit st "FAIL" "corr" "no-model-parse" "the written text has no model parse"
      | some w, some F0 =>
        let (t1, b1) := propBlocks F0 st.text
        -- the writer lists the properties of one entity kind in an order that depends on addresses (a set of shared
        -- pointers): the second text is split by ITS OWN model parse, not by the block lengths of the first one
        let (t2, b2) := match (parse (mkCfg "poly" false) w).res with
          | .ok F2 => propBlocks F2 w
          | .error _ => propBlocks F0 w
        if t1 != t2 then emit st "FAIL" "prop" "second-write:topology" "second write: topology text differs"
        else if sortStrs b1 != sortStrs b2 || w.length != st.text.length then emit st "FAIL" "prop" "second-write:properties" "second write: property blocks differ"
        else
          -- model: same file, and equal to the dump token for token
          if F != F0 then emit st "FAIL" "corr" "model-readback" "model: file read back differs from the file written"
          else match diffFile true true F r.dump with
            | some why => emit st "FAIL" "corr" ("file-differs:" ++ ((why.splitOn " ").headD "")) why
            | none => emit st "OK" "-" "-" "roundtrip"

/-- judge a freshly written TEXT against the dump of its source mesh (rt mode) -/
def judgeText (st : JState) : IO JState := do
  let o := parse (mkCfg "poly" false) st.text
  match o.res with
  | .error e => emitCase { st with fileM := none } "FAIL" "corr" "written-text-unparsable-by-model" (reprStr e)
  | .ok F =>
    let st := { st with fileM := some F }
    match diffFile true true F st.src with
    | some why => emitCase st "FAIL" "corr" ("written-text-vs-source:" ++ ((why.splitOn " ").headD "")) why
    | none =>
      if print F != st.text then emitCase st "FAIL" "corr" "model-print-vs-written-text" s!"model={hexOf (print F)}"
      else if (parse (mkCfg "poly" false) (print F)).res.toOption != some F then emitCase st "FAIL" "corr" "model-idempotence" ""
      else emitCase st "OK" "-" "-" "written-text"

def judgeDetect (st : JState) : IO JState := do
  let mt := detect 4 st.text
  let mh := detect 6 st.text
  -- specification on the source mesh: at least one cell and every cell has 4 (6) halffaces
  let specT := !st.src.cells.isEmpty && st.src.cells.all (·.length == 4)
  let specH := !st.src.cells.isEmpty && st.src.cells.all (·.length == 6)
  if st.detTet != specT || st.detHex != specH then
    emitCase st "FAIL" "prop" "detect" s!"impl tet={st.detTet} hex={st.detHex} expected tet={specT} hex={specH}"
  else if mt != st.detTet || mh != st.detHex then
    emitCase st "FAIL" "corr" "detect-model" s!"model tet={mt} hex={mh} impl tet={st.detTet} hex={st.detHex}"
  else emitCase st "OK" "-" "-" "detect"

def judgePending (st : JState) : IO JState := do
  let refusedM := (write { file := {}, needsGC := st.src.gc }).isNone
  let refusedI := st.text.isEmpty && !st.wstateGood
  if refusedI then
    if refusedM then emitCase st "OK" "-" "-" "pending-refused"
    else emitCase st "FAIL" "corr" "pending-model" "implementation refused, model writes"
  else
    -- something was written (or nothing, silently): it must be the logical content
    let o := parse (mkCfg "poly" false) st.text
    match o.res with
    | .error e => emitCase st "FAIL" "prop" "pending-unreadable" s!"written file does not read back: {reprStr e}"
    | .ok F => match diffFile true true F st.gcsrc with
      | some why => emitCase st "FAIL" "prop" "pending-differs" s!"written file differs from the logical content: {why}"
      | none =>
        -- also through the implementation's own reader
        if classOfImpl st.cur.rline != "ok" then emitCase st "FAIL" "prop" "pending-unreadable" s!"implementation cannot read it back: {st.cur.rline}"
        else emitCase st "OK" "-" "-" "pending-logical"

def step (st : JState) (l : String) : IO JState := do
  let ws := words l
  match ws with
  | "T" :: _ => return { st with mode := kv ws "mode" }
  | "CASE" :: id :: _ =>
    return { st with caseId := id, caseKind := kv ws "kind", mutId := "-", mutKind := "", readNo := 0, fileM := none,
                     pending := (kv ws "pending") != "", src := {}, gcsrc := {}, text := [], textIsMut := false }
  | ["SRC"] => return { st with inSrc := true, src := {} }
  | ["ENDSRC"] => return { st with inSrc := false, src := st.src.finish }
  | ["GCSRC"] => return { st with inGc := true, gcsrc := {} }
  | ["ENDGCSRC"] => return { st with inGc := false, gcsrc := st.gcsrc.finish }
  | "TEXT" :: rest =>
    let st := { st with text := unhex (rest.headD ""), textIsMut := false }
    if st.mode == "rt" then judgeText st
    else if st.mode == "mut" then return { st with fileM := none }
    else return st
  | "WSTATE" :: _ => return { st with wstateGood := kv ws "good" == "1" }
  | "GCTEXT" :: rest => return { st with gctext := unhex (rest.headD "") }
  | "DETECT" :: _ =>
    judgeDetect { st with detTet := kv ws "tet" == "1", detHex := kv ws "hex" == "1" }
  | "MUT" :: id :: k :: rest => return { st with mutId := id, mutKind := k, text := unhex (rest.headD ""), textIsMut := true }
  | "READ" :: _ =>
    return { st with inRead := true, readNo := st.readNo + 1,
                     cur := { kind := kv ws "kind", chk := kv ws "chk" == "1", bu := kv ws "bu" == "1" } }
  | "R" :: _ => return { st with cur := { st.cur with rline := l } }
  | "X" :: _ => return { st with cur := { st.cur with rline := l } }
  | "W" :: rest => return { st with cur := { st.cur with w := some (unhex (rest.headD "")) } }
  | ["ENDREAD"] =>
    let c := st.cur
    let st := { st with inRead := false, cur := { c with dump := c.dump.finish, rawE := c.rawE.reverse, rawF := c.rawF.reverse, rawC := c.rawC.reverse } }
    if st.pending then return st else judgeRead st
  | ["ENDCASE"] => if st.pending then judgePending st else return st
  | _ =>
    if st.inSrc then return { st with src := addDumpLine st.src l }
    else if st.inGc then return { st with gcsrc := addDumpLine st.gcsrc l }
    else if st.inRead then
      let c := st.cur
      let c := { c with dump := addDumpLine c.dump l }
      let c := match ws with
        | "e" :: _ => { c with rawE := (ws.drop 1).map (fun x => x.toInt!) :: c.rawE }
        | "f" :: _ => { c with rawF := rawInts l :: c.rawF }
        | "c" :: _ => { c with rawC := rawInts l :: c.rawC }
        | _ => c
      return { st with cur := c }
    else return st

def run (path : String) : IO UInt32 := do
  let lines ← IO.FS.lines path
  let mut st : JState := {}
  for l in lines do
    st ← step st l
  let s := st.stats
  IO.println s!"SUMMARY judged={s.judged} ok={s.ok} failed={s.failed} skipped={s.skipped} wf_checked={s.wfChecked} classes={s.classes}"
  return (if s.failed == 0 then 0 else 1)

end OVM.Ascii.Judge

def main (args : List String) : IO UInt32 :=
  match args with
  | [p] => OVM.Ascii.Judge.run p
  | _ => do IO.eprintln "usage: Driver <trace>"; return 2

/-
  OVMB judge (C06 / C07 / C18): compares the Lean reader/writer models with what `io_drv` observed on the real code.

    ovmbjudge cases <cases.txt> <k> <seed> <jobs-out>     (i) decode C++ bytes = dumped mesh, (ii) re-encode = C++ bytes,
                                                          (d) writer refusal, (e) type detection; writes J lines: the original
                                                          bytes for every reader configuration + k alternative encodings
    ovmbjudge xcmp  <cases.txt> <jobs.txt> <results.txt>  (iii) results of reading those J lines: same mesh as the source
    ovmbjudge mut   <cases.txt> <xresults.txt>            (iv) mutants / truncations / faults: result class, mesh, WFMesh
  Output: `FAIL <id> <what> | <detail> | hex=<bytes>` lines, `STAT <key> <n>`, `SAMPLE <text>`.
  Core only.
-/
import OVM.IO.Ovmb.Decode
import OVM.IO.Ovmb.Permissive

namespace OVM.Ovmb.Judge
open OVM.Ovmb OVM.Gen.Ovmb

/-! ### text helpers -/

def hexDigit (c : Char) : Nat :=
  if '0' ≤ c ∧ c ≤ '9' then c.toNat - '0'.toNat
  else if 'a' ≤ c ∧ c ≤ 'f' then c.toNat - 'a'.toNat + 10
  else if 'A' ≤ c ∧ c ≤ 'F' then c.toNat - 'A'.toNat + 10 else 0

def unhex (s : String) : Bytes :=
  if s == "-" then [] else
  let rec go (cs : List Char) (acc : Array UInt8) : Array UInt8 :=
    match cs with
    | a :: b :: t => go t (acc.push (UInt8.ofNat (hexDigit a * 16 + hexDigit b)))
    | _ => acc
  (go s.toList #[]).toList

def hexChar (n : Nat) : Char := if n < 10 then Char.ofNat (48 + n) else Char.ofNat (87 + n)

def hexOf (b : Bytes) : String :=
  if b.isEmpty then "-" else
  String.ofList (b.foldr (fun x acc => hexChar (x.toNat / 16) :: hexChar (x.toNat % 16) :: acc) [])

def words (s : String) : List String := (s.splitOn " ").filter (· != "")

def bytesOfString (s : String) : Bytes := s.toUTF8.toList

def strOfBytes (b : Bytes) : String := String.ofList (b.map (fun c => Char.ofNat c.toNat))

/-! ### dumps -/

structure Dump where
  kind : MeshKind := .poly
  counts : List Nat := []
  pos : Array (List Nat) := #[]
  edges : Array (Int × Int) := #[]
  faces : Array (List Int) := #[]
  cells : Array (List Int) := #[]
  props : Array PropData := #[]
  unknownProps : Nat := 0
  bad : Option String := none
  deriving Inhabited

def kindOf (s : String) : MeshKind := if s == "t" then .tet else if s == "h" then .hex else .poly

def coords (b : Bytes) : List Nat :=
  [fromLE (b.take 8), fromLE ((b.drop 8).take 8), fromLE ((b.drop 16).take 8)]

def expandVals (toks : List String) : List Bytes :=
  let rec go (ts : List String) (acc : Array Bytes) (prev : Bytes) : Array Bytes :=
    match ts with
    | [] => acc
    | t :: rest =>
      if t.startsWith "*" then
        let k := (t.drop 1).toNat!
        go rest (acc ++ Array.replicate k prev) prev
      else
        let v := unhex t
        go rest (acc.push v) v
  (go toks #[] []).toList

def addDumpLine (d : Dump) (l : String) : Dump :=
  let ws := words l
  match ws with
  | "M" :: k :: rest => { d with kind := kindOf k, counts := rest.map String.toNat! }
  | ["V", h] => { d with pos := d.pos.push (coords (unhex h)) }
  | ["V", h, r] => { d with pos := d.pos ++ Array.replicate ((r.drop 1).toNat!) (coords (unhex h)) }
  | ["E", a, b] => { d with edges := d.edges.push (a.toInt!, b.toInt!) }
  | "F" :: _ :: hs => { d with faces := d.faces.push (hs.map String.toInt!) }
  | "C" :: _ :: hs => { d with cells := d.cells.push (hs.map String.toInt!) }
  | "P" :: pe :: cn :: nh :: dh :: _ :: vals =>
    match findCodec (bytesOfString cn) with
    | some c => { d with props := d.props.push ⟨pe.toNat!, unhex nh, c, unhex dh, expandVals vals⟩ }
    | none => { d with bad := some ("unknown codec in dump: " ++ cn) }
  | "P?" :: _ => { d with unknownProps := d.unknownProps + 1 }
  | _ => d

/-- every handle of the dump is a natural number -/
def Dump.nonneg (d : Dump) : Bool :=
  d.edges.all (fun e => e.1 ≥ 0 && e.2 ≥ 0) && d.faces.all (·.all (· ≥ 0)) && d.cells.all (·.all (· ≥ 0))

def Dump.toFile (d : Dump) (topo : Nat) : File :=
  ⟨topo, d.pos.toList, d.edges.toList.map (fun e => (e.1.toNat, e.2.toNat)), d.faces.toList.map (·.map Int.toNat),
   d.cells.toList.map (·.map Int.toNat), d.props.toList⟩

/-- the dump's own header counts agree with what it lists, all handles are ≥ 0 -/
def Dump.consistent (d : Dump) : Option String :=
  if let some b := d.bad then some b
  else if d.counts != [d.pos.size, d.edges.size, d.faces.size, d.cells.size] then some "dump counts differ from listed entities"
  else if !d.nonneg then some "negative (invalid) handle stored in the mesh"
  else none

/-! ### comparing meshes (property order is unspecified: sort by key) -/

def bytesLt : Bytes → Bytes → Bool
  | [], [] => false
  | [], _ => true
  | _, [] => false
  | a :: as, b :: bs => if a < b then true else if a > b then false else bytesLt as bs

def keyLt (a b : PropData) : Bool :=
  if a.entity != b.entity then a.entity < b.entity
  else if a.name != b.name then bytesLt a.name b.name
  else bytesLt a.codec.name b.codec.name

def sortProps (ps : List PropData) : List PropData := (ps.toArray.qsort keyLt).toList

def firstDiff {α} [BEq α] (a b : List α) : Option Nat :=
  let rec go (i : Nat) : List α → List α → Option Nat
    | [], [] => none
    | x :: xs, y :: ys => if x == y then go (i + 1) xs ys else some i
    | _, _ => some i
  go 0 a b

/-- `none` when equal (ignoring the topo type and the order of properties) -/
def diffFiles (a b : File) : Option String :=
  if a.pos.length != b.pos.length then some s!"vertex count {a.pos.length} vs {b.pos.length}"
  else if let some i := firstDiff a.pos b.pos then some s!"position of vertex {i}"
  else if a.edges.length != b.edges.length then some s!"edge count {a.edges.length} vs {b.edges.length}"
  else if let some i := firstDiff a.edges b.edges then some s!"edge {i}: {a.edges.getD i (0,0)} vs {b.edges.getD i (0,0)}"
  else if a.faces.length != b.faces.length then some s!"face count {a.faces.length} vs {b.faces.length}"
  else if let some i := firstDiff a.faces b.faces then some s!"face {i}: {a.faces.getD i []} vs {b.faces.getD i []}"
  else if a.cells.length != b.cells.length then some s!"cell count {a.cells.length} vs {b.cells.length}"
  else if let some i := firstDiff a.cells b.cells then some s!"cell {i}: {a.cells.getD i []} vs {b.cells.getD i []}"
  else
    let pa := sortProps a.props
    let pb := sortProps b.props
    if pa.length != pb.length then some s!"property count {pa.length} vs {pb.length}"
    else match firstDiff pa pb with
      | none => none
      | some i =>
        let x := pa.getD i default
        let y := pb.getD i default
        if x.key != y.key then some s!"property {i}: key ({x.entity},{strOfBytes x.name},{strOfBytes x.codec.name}) vs ({y.entity},{strOfBytes y.name},{strOfBytes y.codec.name})"
        else if x.dflt != y.dflt then some s!"property ({x.entity},{strOfBytes x.name},{strOfBytes x.codec.name}): default {hexOf x.dflt} vs {hexOf y.dflt}"
        else if x.vals.length != y.vals.length then some s!"property ({x.entity},{strOfBytes x.name},{strOfBytes x.codec.name}): {x.vals.length} vs {y.vals.length} values"
        else
          let j := (firstDiff x.vals y.vals).getD 0
          some s!"property ({x.entity},{strOfBytes x.name},{strOfBytes x.codec.name}) slot {j}: {hexOf (x.vals.getD j [])} vs {hexOf (y.vals.getD j [])}"

/-! ### the concrete hexahedral ordering check (`check_halfface_ordering`) -/

def hfHes (faces : List (List Nat)) (hf : Nat) : List Nat :=
  match faces[hf / 2]? with
  | some f => if hf % 2 = 0 then f else f.reverse.map (· ^^^ 1)
  | none => []

/-- `get_adjacent_halfface(hf, he, hfs)` -/
def adjHf (faces : List (List Nat)) (hf he : Nat) (hfs : List Nat) : Option Nat :=
  hfs.find? (fun x => x != hf && (hfHes faces x).contains (he ^^^ 1))

def checkSide (faces : List (List Nat)) (hfs : List Nat) (side : Nat) (order : List Nat) : Bool :=
  let hf := hfs.getD side 0
  let rec go (hes : List Nat) (offset : Option Nat) : Bool :=
    match hes with
    | [] => offset.isSome
    | he :: rest =>
      let a := adjHf faces hf he hfs
      match offset with
      | none =>
        let o := (List.range 4).find? (fun i => a == some (hfs.getD (order.getD i 0) 0))
        go rest o
      | some o =>
        let o' := (o + 1) % 4
        if a != some (hfs.getD (order.getD o' 0) 0) then false else go rest (some o')
  go (hfHes faces hf) none

def hexOrderStd (faces : List (List Nat)) (hfs : List Nat) : HexRes :=
  if checkSide faces hfs 0 [2, 4, 3, 5] && checkSide faces hfs 1 [3, 4, 2, 5] then .asIs else .unmodelled

def mkCfg (k : MeshKind) (tc : Bool) : Cfg := ⟨k, tc, hexOrderStd⟩

/-! ### cases -/

structure CaseRec where
  id : String
  kind : MeshKind
  desc : String
  gc : Bool
  forced : Bool
  wres : String := ""
  dump : Dump := {}
  bytes : Bytes := []
  deriving Inhabited

def parseCases (lines : Array String) : Array CaseRec := Id.run do
  let mut out : Array CaseRec := #[]
  let mut cur : Option CaseRec := none
  for l in lines do
    if l.startsWith "CASE " then
      let ws := words l
      cur := some { id := ws.getD 1 "?", kind := kindOf (ws.getD 2 "p"), desc := ws.getD 3 "",
                    gc := ws.contains "gc=1", forced := ws.contains "forced=0" }
    else match cur with
      | none => pure ()
      | some c =>
        if l.startsWith "W " then cur := some { c with wres := (l.drop 2).toString }
        else if l.startsWith "B " then cur := some { c with bytes := unhex (l.drop 2).toString }
        else if l == "END" then out := out.push c; cur := none
        else cur := some { c with dump := addDumpLine c.dump l }
  return out

/-! ### expectation from the model -/

inductive Expect where
  | ok (F : File)
  | err (e : Err)
  | ub
  | unmodelled
  | huge

def hugeCap : Nat := 2 ^ 20

def headerHuge (b : Bytes) : Bool :=
  b.length ≥ 48 && (List.range 4).any (fun i => fromLE ((b.drop (16 + 8 * i)).take 8) > hugeCap)

def expectOf (cfg : Cfg) (bytes : Bytes) (failAt : Option Nat) : Expect :=
  if headerHuge bytes then .huge else
  let r := match failAt with
    | none => decode cfg bytes
    | some p => if p < bytes.length then decodeFaulty cfg bytes p else decode cfg bytes
  match r with
  | .ok F => .ok F
  | .error (.res e) => .err e
  | .error .ub => .ub
  | .error .unmodelled => .unmodelled

def errName : Err → String
  | .invalidFile => "InvalidFile"
  | .incompatible => "IncompatibleMesh"
  | .otherError => "OtherError"

/-! ### deterministic random numbers (splitmix64 on Nat) -/

structure Rng where
  s : Nat

def Rng.next (r : Rng) : Nat × Rng :=
  let m := 2 ^ 64
  let s := (r.s + 0x9e3779b97f4a7c15) % m
  let z := s
  let z := ((z ^^^ (z >>> 30)) * 0xbf58476d1ce4e5b9) % m
  let z := ((z ^^^ (z >>> 27)) * 0x94d049bb133111eb) % m
  (z ^^^ (z >>> 31), ⟨s⟩)

def Rng.below (r : Rng) (n : Nat) : Nat × Rng := let (x, r') := r.next; (if n = 0 then 0 else x % n, r')

/-! ### random valid layouts (the alternative encoder of C06 iii) -/

def widthsFor (maxv : Nat) : List Nat :=
  [intEncodingU8, intEncodingU16, intEncodingU32].filter (fun e => maxv < 256 ^ elemSizeInt e)

def pickFrom (r : Rng) (l : List Nat) (d : Nat) : Nat × Rng :=
  let (i, r') := r.below l.length; (l.getD i d, r')

def listMinD (l : List Nat) : Nat := match l with | [] => 0 | x :: xs => xs.foldl min x

/-- how many of the next lists have all handles below `bound` -/
def prefixBelow (ls : List (List Nat)) (bound : Nat) : Nat := (ls.takeWhile (fun l => l.all (· < bound))).length

def genPad (r : Rng) : Option Nat × Rng :=
  let (c, r) := r.below 4
  if c == 0 then let (p, r) := r.below 256; (some p, r)
  else if c == 1 then (some 0, r)
  else (none, r)

def genHandleEnc (r : Rng) (hs : List Nat) : Nat × Nat × Rng :=
  let mn := listMinD hs
  let (c, r) := r.below 3
  let (off, r) := if c == 0 then (0, r) else if c == 1 then (mn, r) else r.below (mn + 1)
  let mx := hs.foldl (fun a h => max a (h - off)) 0
  let (enc, r) := pickFrom r (widthsFor mx) intEncodingU32
  (enc, off, r)

def genTopoSpec (r : Rng) (F : File) (ls : List (List Nat)) (isFace : Bool) : Spec × Rng :=
  let (enc, off, r) := genHandleEnc r ls.flatten
  let v0 := valenceOf ls
  let uniform := ls.all (·.length == v0) && 1 ≤ v0 && v0 ≤ 255
  let (c, r) := r.below 2
  let fixed := if F.topo != topoTypePolyhedral then true else uniform && c == 0
  let mxv := ls.foldl (fun a l => max a l.length) 0
  let (venc, r) := pickFrom r (widthsFor mxv) intEncodingU32
  (if isFace then .faces ls.length fixed venc enc off else .cells ls.length fixed venc enc off, r)

def genLayoutLoop (F : File) : Nat → Rng → Cur → Nat → List Piece → List Piece × Rng
  | 0, r, _, _, acc => (acc.reverse, r)
  | fuel + 1, r, cur, skips, acc =>
    let nV := F.pos.length
    let vAvail := cur.v < nV
    let eMax := prefixBelow ((edgeLists (F.edges.drop cur.e))) cur.v
    let fMax := prefixBelow (F.faces.drop cur.f) (2 * cur.e)
    let cMax := prefixBelow (F.cells.drop cur.c) (2 * cur.f)
    let dAvail := !cur.dirp && !F.props.isEmpty
    let propIdxs := (List.range F.props.length).filter (fun i =>
      let p := F.props.getD i default
      let first := cur.p.getD i 0
      cur.dirp && first < p.vals.length && first < slotCount p.entity cur.v cur.e cur.f cur.c)
    -- properties with zero slots still get their (empty) chunk once, like the writer does
    let actions : List Nat :=
      (if vAvail then [0, 0] else []) ++ (if eMax > 0 then [1, 1] else []) ++ (if fMax > 0 then [2, 2] else [])
      ++ (if cMax > 0 then [3, 3] else []) ++ (if dAvail then [4, 4] else []) ++ (if propIdxs.isEmpty then [] else [5, 5, 5])
      ++ (if skips < 3 then [6] else [])
    if !vAvail && eMax == 0 && fMax == 0 && cMax == 0 && !dAvail && propIdxs.isEmpty then (acc.reverse, r)
    else
      let (a, r) := pickFrom r actions 0
      let (pad, r) := genPad r
      let (fl, r) := r.below 2
      let split (r : Rng) (mx : Nat) : Nat × Rng :=
        let (c, r) := r.below 3
        if c == 0 || mx ≤ 1 then (mx, r) else let (k, r) := r.below mx; (k + 1, r)
      match a with
      | 0 =>
        let (c0, r) := r.below 8
        let (cnt, r) := if c0 == 0 then (0, r) else split r (nV - cur.v)
        let sl := slice F.pos cur.v cnt
        let fl32 := sl.all (fun p => p.all (fun d => (f64to32? d).isSome))
        let (c1, r) := r.below 2
        let enc := if fl32 && c1 == 0 then vertexEncodingFloat else vertexEncodingDouble
        let pc : Piece := ⟨.vert cnt enc, pad, fl⟩
        genLayoutLoop F fuel r (curAfter F cur pc) skips (pc :: acc)
      | 1 =>
        let (cnt, r) := split r eMax
        let (enc, off, r) := genHandleEnc r (edgeLists (slice F.edges cur.e cnt)).flatten
        let pc : Piece := ⟨.edges cnt enc off, pad, fl⟩
        genLayoutLoop F fuel r (curAfter F cur pc) skips (pc :: acc)
      | 2 =>
        let (cnt, r) := split r fMax
        let (sp, r) := genTopoSpec r F (slice F.faces cur.f cnt) true
        let pc : Piece := ⟨sp, pad, fl⟩
        genLayoutLoop F fuel r (curAfter F cur pc) skips (pc :: acc)
      | 3 =>
        let (cnt, r) := split r cMax
        let (sp, r) := genTopoSpec r F (slice F.cells cur.c cnt) false
        let pc : Piece := ⟨sp, pad, fl⟩
        genLayoutLoop F fuel r (curAfter F cur pc) skips (pc :: acc)
      | 4 =>
        let pc : Piece := ⟨.dirp, pad, fl⟩
        genLayoutLoop F fuel r (curAfter F cur pc) skips (pc :: acc)
      | 5 =>
        let (i, r) := pickFrom r propIdxs 0
        let p := F.props.getD i default
        let first := cur.p.getD i 0
        let mx := min p.vals.length (slotCount p.entity cur.v cur.e cur.f cur.c) - first
        let (cnt, r) := split r mx
        let pc : Piece := ⟨.prop i cnt, pad, fl⟩
        genLayoutLoop F fuel r (curAfter F cur pc) skips (pc :: acc)
      | _ =>
        let (c, r) := r.below 3
        let (n, r) := r.below 40
        let payload : Bytes := (List.range n).map (fun i => UInt8.ofNat (i * 37 + n))
        -- unknown optional type / known type with unsupported version, both non-mandatory
        let (ty, ver) := if c == 0 then (0x58585858, 0) else if c == 1 then (ccPROP, 7) else (0x4f4d454d, 3)
        let pc : Piece := ⟨.skip ty ver 0 payload, pad, 0⟩
        genLayoutLoop F fuel r cur (skips + 1) (pc :: acc)

def genLayout (F : File) (r : Rng) : Layout × Rng :=
  let (fv, r) := r.below 256
  let (pieces, r) := genLayoutLoop F 4000 r {} 0 []
  -- a zero-slot property has no admissible non-empty span: give it one empty chunk when a DIRP exists
  let hasDirp := pieces.any (fun p => match p.spec with | .dirp => true | _ => false)
  let empties : List Piece := if hasDirp then
      (List.range F.props.length).filterMap (fun i =>
        if (F.props.getD i default).vals.isEmpty then some ⟨.prop i 0, none, 1⟩ else none) else []
  (⟨fv, pieces ++ empties ++ [⟨.eof, none, 1⟩]⟩, r)

/-! ### reporting -/

structure Report where
  fails : Array String := #[]
  stats : List (String × Nat) := []
  samples : Array String := #[]

def Report.bump (r : Report) (k : String) (n : Nat := 1) : Report :=
  if r.stats.any (·.1 == k) then { r with stats := r.stats.map (fun kv => if kv.1 == k then (k, kv.2 + n) else kv) }
  else { r with stats := r.stats ++ [(k, n)] }

def Report.fail (r : Report) (id what detail : String) (bytes : Bytes) : Report :=
  let r := r.bump "fail"
  if r.fails.size < 60 then { r with fails := r.fails.push s!"FAIL {id} {what} | {detail} | hex={hexOf bytes}" } else r

def Report.sample (r : Report) (s : String) : Report := if r.samples.size < 8 then { r with samples := r.samples.push s } else r

def Report.print (r : Report) : IO Unit := do
  for f in r.fails do IO.println f
  for (k, v) in r.stats do IO.println s!"STAT {k} {v}"
  for s in r.samples do IO.println s!"SAMPLE {s}"

def kindChar : MeshKind → String
  | .poly => "p" | .tet => "t" | .hex => "h"

def fileTopoOfBytes (b : Bytes) : Nat := (b.getD 11 0).toNat

def compatibleKind (topo : Nat) (k : MeshKind) : Bool :=
  match k with
  | .poly => true
  | .tet => topo == topoTypeTetrahedral
  | .hex => topo == topoTypeHexahedral

/-! ### mode `cases` -/

def jobLine (id : String) (k : MeshKind) (tc bu : Bool) (bytes : Bytes) : String :=
  s!"J {id} {kindChar k} {if tc then 1 else 0} {if bu then 1 else 0} -1 0 {hexOf bytes}"

def judgeCase (c : CaseRec) (k : Nat) (seed : Nat) (rep : Report) (jobs : Array String) : Report × Array String := Id.run do
  let mut rep := rep.bump "cases"
  let mut jobs := jobs
  if let some why := c.dump.consistent then
    return (rep.fail c.id "source-dump" why c.bytes, jobs)
  let src0 := c.dump.toFile 0
  if c.gc then
    -- (d) a mesh with pending deletions is refused and nothing is written
    rep := rep.bump "gc_cases"
    let (res, snk) := write ⟨src0, true⟩ ⟨[], true, none⟩
    if c.wres != "Error" || !c.bytes.isEmpty then
      rep := rep.fail c.id "pending-deletion-not-refused" s!"writer returned {c.wres} and wrote {c.bytes.length} bytes; model: {repr res}, {snk.out.length} bytes" c.bytes
    return (rep, jobs)
  if c.wres != "Ok" then
    return (rep.fail c.id "writer-failed" s!"ovmb_write returned {c.wres}" [], jobs)
  if headerHuge c.bytes then return (rep.bump "skipped_huge_case", jobs)
  -- (e) topology type detection
  let topo := fileTopoOfBytes c.bytes
  let want := if c.forced then topoTypePolyhedral else detectTopo c.kind src0.faces src0.cells
  if topo != want then
    rep := rep.fail c.id "topo-type" s!"header topo type {topo}, detect gives {want}" c.bytes
  -- original bytes into every reader configuration of the real reader: whatever the model says about them below,
  -- the real reader must give the source mesh back (a writer whose own file the reader rejects is a failing input)
  for mk in [MeshKind.poly, .tet, .hex] do
    for tc in [false, true] do
      for bu in [false, true] do
        if c.bytes.length ≤ 200000 || (mk == c.kind && !bu) then
          jobs := jobs.push (jobLine s!"{c.id}.o.{kindChar mk}{if tc then 1 else 0}{if bu then 1 else 0}" mk tc bu c.bytes)
  -- (i) the model reader decodes the C++ bytes to the dumped mesh
  match decode (mkCfg .poly false) c.bytes with
  | .error e =>
    rep := rep.fail c.id "model-decode-of-writer-bytes" s!"model reader rejects the file the writer produced: {repr e}" c.bytes
  | .ok F =>
    let src := { src0 with topo := topo }
    match diffFiles F src with
    | some d => rep := rep.fail c.id "decode-vs-source" s!"model decode differs from the source mesh: {d}" c.bytes
    | none =>
      rep := rep.bump "decode_equal_source"
      -- (ii) the model writer reproduces the bytes (property order from the DIRP = order of F.props)
      let enc := encode F
      if enc != c.bytes then
        let i := (firstDiff enc c.bytes).getD 0
        rep := rep.fail c.id "encode-vs-writer-bytes" s!"model writer differs from C++ bytes at offset {i} (model length {enc.length}, C++ {c.bytes.length})" c.bytes
      else rep := rep.bump "encode_equal_bytes"
      if WFFile F then rep := rep.bump "wffile_true" else rep := rep.bump "wffile_false"
      if !WFMesh F then rep := rep.fail c.id "source-not-wf" "WFMesh fails on the source mesh" c.bytes
      -- writer layout: valid and byte-identical (dynamic form of C06 c)
      let wl := writerLayout F
      if WFFile F then
        if !ValidLayout wl F then rep := rep.fail c.id "writer-layout-invalid" "ValidLayout (writerLayout F) F = false" c.bytes
        else if encodeWith wl F != c.bytes then rep := rep.fail c.id "writer-layout-bytes" "encodeWith (writerLayout F) F ≠ bytes" c.bytes
        else rep := rep.bump "writer_layout_ok"
      -- (iii) k alternative encodings
      if WFFile F then
        let mut r : Rng := ⟨seed * 1000003 + c.id.hash.toNat % 1000000007⟩
        let kk := if c.bytes.length > 200000 then min k 2 else k
        for i in [0:kk] do
          let (L, r') := genLayout F r
          r := r'
          if !ValidLayout L F then
            rep := rep.fail c.id "alt-layout-invalid" s!"generated layout {i} is not valid (judge bug)" c.bytes
          else
            let b := encodeWith L F
            rep := rep.bump "alt_encodings"
            -- in-model: the reader model maps it back to F (dynamic form of C06 b)
            match decode (mkCfg .poly false) b with
            | .ok F' =>
              if F' != F then rep := rep.fail s!"{c.id}.a{i}" "model-alt-roundtrip" s!"decode (encodeWith L F) ≠ F: {(diffFiles F' F).getD "props order/topo"}" b
              else rep := rep.bump "alt_model_roundtrip_ok"
            | .error e => rep := rep.fail s!"{c.id}.a{i}" "model-alt-roundtrip" s!"model reader rejects a valid alternative encoding: {repr e}" b
            let (x, r2) := r.below 12
            r := r2
            let mks := [MeshKind.poly, .tet, .hex].filter (compatibleKind topo)
            let mk := mks.getD (x % mks.length) .poly
            jobs := jobs.push (jobLine s!"{c.id}.a{i}" mk (x / 3 % 2 == 1) (x / 6 % 2 == 1) b)
            if i == 0 then
              let desc := L.pieces.map (fun p => match p.spec with
                | .dirp => "DIRP" | .vert n e => s!"VERT({n},enc{e})" | .edges n e o => s!"E({n},w{e},off{o})"
                | .faces n f v e o => s!"F({n},{if f then "fixed" else s!"var{v}"},w{e},off{o})"
                | .cells n f v e o => s!"C({n},{if f then "fixed" else s!"var{v}"},w{e},off{o})"
                | .prop i n => s!"PROP({i},{n})" | .skip t v _ p => s!"SKIP(ty{t},v{v},{p.length}B)" | .eof => "EOF")
              rep := rep.sample s!"alt layout of {c.id} ({c.desc}): {desc.take 14}"
  return (rep, jobs)

/-! ### judging one read result -/

structure ImplRes where
  cls : String := "?"
  detail : String := ""
  dump : Option Dump := none
  same : Bool := false

/-- compare the implementation's result with the model's expectation.  `src`: the mesh the bytes are an encoding of
    (alternative encodings and original files), when known. -/
def judgeRead (rep : Report) (id tag : String) (cfg : Cfg) (bytes : Bytes) (failAt : Option Nat)
    (impl : ImplRes) (src : Option File) (srcDump : Option Dump) : Report := Id.run do
  let mut rep := rep.bump s!"reads"
  rep := rep.bump s!"impl_{impl.cls}"
  let mk := s!"{tag}:{impl.cls}"
  rep := rep.bump s!"hist {mk}"
  -- a header that announces more than 2^20 entities makes the reader allocate and default-fill them for every
  -- property before it can notice that the data is missing: slow under ASan, not a hang (it terminates)
  if impl.cls == "hang" && headerHuge bytes then return rep.bump "skipped_huge_slow"
  if impl.cls == "crash" || impl.cls == "hang" then
    return rep.fail id s!"reader-{impl.cls}" s!"{impl.detail} [{tag}, kind {kindChar cfg.kind}, topology_check {cfg.topoCheck}, fault {failAt}]" bytes
  let ex := expectOf cfg bytes failAt
  -- the implementation's own mesh (when it says Ok)
  let implDump : Option Dump := if impl.same then srcDump else impl.dump
  if impl.cls == "ok" then
    match implDump with
    | none => return rep.fail id "ok-without-dump" "driver printed no mesh" bytes
    | some d =>
      if let some why := d.consistent then
        return rep.fail id "ok-but-invalid-mesh" s!"{why} [{tag}]" bytes
      let Fd := d.toFile (fileTopoOfBytes bytes)
      if !WFMesh Fd then
        return rep.fail id "ok-but-not-WF" s!"reader returned Ok but WFMesh fails on its mesh [{tag}]" bytes
      rep := rep.bump "impl_ok_wf_checked"
  if impl.cls == "okhuge" then
    match ex with
    | .huge => return rep.bump "skipped_huge"
    | _ => return rep.fail id "huge-mesh-from-small-header" "reader produced more than 2^20 vertices but the header does not announce them" bytes
  match ex with
  | .huge => return rep.bump "skipped_huge"
  | .unmodelled => return rep.bump "skipped_hex_reorder"
  | .ub => return rep.fail id "model-ub" s!"the reader model performs an out-of-range kernel access on this input (impl: {impl.cls} {impl.detail}) [{tag}]" bytes
  | .err e =>
    if impl.cls == "ok" then
      return rep.fail id "accepts-what-model-rejects" s!"reader returned Ok, model: {errName e} [{tag}, kind {kindChar cfg.kind}, topology_check {cfg.topoCheck}, fault {failAt}]" bytes
    else if impl.cls == "alloc" then return rep.fail id "unexpected-alloc-failure" s!"{impl.detail} [{tag}]" bytes
    else
      rep := rep.bump "agree_err"
      if impl.detail != errName e then rep := rep.bump s!"drift_errkind {errName e}/{impl.detail}"
      if src.isSome && !cfg.topoCheck && compatibleKind (fileTopoOfBytes bytes) cfg.kind then
        return rep.fail id "valid-encoding-rejected" s!"a permitted encoding of the mesh is rejected (model and reader agree): {errName e} [{tag}]" bytes
      return rep
  | .ok F =>
    if impl.cls != "ok" then
      return rep.fail id "rejects-what-model-accepts" s!"reader: {impl.cls} {impl.detail}, model: Ok [{tag}, kind {kindChar cfg.kind}, topology_check {cfg.topoCheck}, fault {failAt}]" bytes
    match implDump with
    | none => return rep
    | some d =>
      let Fd := d.toFile F.topo
      match diffFiles Fd F with
      | some why => return rep.fail id "mesh-differs-from-model" s!"reader vs model: {why} [{tag}]" bytes
      | none =>
        rep := rep.bump "agree_ok_same_mesh"
        match src with
        | none => return rep
        | some S =>
          -- a topology-checked read into a hexahedral mesh stores each cell in the x/y/z convention: the stored list may
          -- be a permutation of the written one (C16); compare cell by cell up to order in that configuration
          let S' : File := { S with topo := F.topo }
          let hexReordered := cfg.kind == .hex && cfg.topoCheck && F.cells.length == S'.cells.length &&
            (List.range F.cells.length).all (fun i => OVM.sortL (F.cells.getD i []) == OVM.sortL (S'.cells.getD i []))
          match diffFiles F (if hexReordered then { S' with cells := F.cells } else S') with
          | some why => return rep.fail id "not-the-source-mesh" s!"read result vs source mesh: {why} [{tag}]" bytes
          | none => return rep.bump (if hexReordered && F.cells != S'.cells then "equals_source_up_to_hex_reordering" else "equals_source")

/-! ### result files -/

/-- split a results stream into records starting at lines with prefix `R ` (preceded by optional `X ` line) -/
structure Rec where
  x : Option String := none
  r : String := ""
  body : Array String := #[]
  deriving Inhabited

def splitRecs (lines : Array String) : Array Rec := Id.run do
  let mut out : Array Rec := #[]
  let mut cur : Option Rec := none
  let mut pendingX : Option String := none
  for l in lines do
    if l.startsWith "X " then
      if let some c := cur then out := out.push c
      cur := none
      pendingX := some l
    else if l.startsWith "R " then
      if let some c := cur then out := out.push c
      cur := some { x := pendingX, r := l }
      pendingX := none
    else if l.startsWith "WF " then
      if let some c := cur then out := out.push c
      cur := none
      out := out.push { r := l }
    else match cur with
      | some c => cur := some { c with body := c.body.push l }
      | none => pure ()
  if let some c := cur then out := out.push c
  return out

def implOf (rc : Rec) : ImplRes :=
  let ws := words rc.r
  let cls := ws.getD 2 "?"
  let detail := " ".intercalate (ws.drop 3)
  if cls == "ok" then
    if rc.body.any (·.startsWith "MHUGE") then { cls := "okhuge", detail }
    else if rc.body.any (· == "MSAME") then { cls, detail, same := true }
    else { cls, detail, dump := some (rc.body.foldl addDumpLine {}) }
  else { cls, detail }

def applyEdits (p : Bytes) (spec : String) : Bytes :=
  if spec == "-" then p else Id.run do
    let pa := p.toArray
    let mut out : Array UInt8 := #[]
    let mut pos := 0
    for e in spec.splitOn "," do
      match e.splitOn ":" with
      | [o, d, h] =>
        let off := max (min o.toNat! pa.size) pos
        out := out ++ pa.extract pos off
        out := out ++ (unhex h).toArray
        pos := min pa.size (off + d.toNat!)
      | _ => pure ()
    out := out ++ pa.extract pos pa.size
    return out.toList

def readLines (path : String) : IO (Array String) := do
  let h ← IO.FS.Handle.mk path IO.FS.Mode.read
  let mut out : Array String := #[]
  repeat
    let l ← h.getLine
    if l.isEmpty then break
    out := out.push (if l.endsWith "\n" then (l.dropEnd 1).toString else l)
  return out

/-- fold over the lines of a file without holding it in memory -/
def foldLines {σ} (path : String) (init : σ) (f : σ → String → σ) : IO σ := do
  let h ← IO.FS.Handle.mk path IO.FS.Mode.read
  let mut st := init
  repeat
    let l ← h.getLine
    if l.isEmpty then break
    st := f st (if l.endsWith "\n" then (l.dropEnd 1).toString else l)
  return st

def findCase (cs : Array CaseRec) (id : String) : Option CaseRec := cs.find? (·.id == id)

def modeCases (args : List String) : IO UInt32 := do
  let cases := parseCases (← readLines (args.getD 0 ""))
  let k := (args.getD 1 "8").toNat!
  let seed := (args.getD 2 "1").toNat!
  let mut rep : Report := {}
  let mut jobs : Array String := #[]
  for c in cases do
    let (r, j) := judgeCase c k seed rep jobs
    rep := r; jobs := j
  IO.FS.writeFile (args.getD 3 "jobs.txt") ("\n".intercalate jobs.toList ++ "\n")
  rep := rep.bump "jobs_emitted" jobs.size
  rep.print
  return 0

/-- source mesh of a job id `<case>.o.<cfg>` / `<case>.a<i>` -/
def caseIdOf (jid : String) : String := (jid.splitOn ".").getD 0 jid

def modeXcmp (args : List String) : IO UInt32 := do
  let cases := parseCases (← readLines (args.getD 0 ""))
  let jobs := (← readLines (args.getD 1 "")).filter (·.startsWith "J ")
  let recs := splitRecs (← readLines (args.getD 2 ""))
  let mut rep : Report := {}
  if jobs.size != recs.size then
    rep := rep.fail "-" "result-count" s!"{jobs.size} jobs but {recs.size} results" []
  for i in [0:min jobs.size recs.size] do
    let jw := words jobs[i]!
    let rc := recs[i]!
    let id := jw.getD 1 "?"
    if (words rc.r).getD 1 "" != id then
      rep := rep.fail id "result-order" s!"result line is for {(words rc.r).getD 1 ""}" []
    else
      let cfg := mkCfg (kindOf (jw.getD 2 "p")) (jw.getD 3 "0" == "1")
      let bytes := unhex (jw.getD 7 "-")
      match findCase cases (caseIdOf id) with
      | none => rep := rep.fail id "unknown-case" "" []
      | some c =>
        let tag := if (id.splitOn ".").getD 1 "" == "o" then "original" else "alt"
        rep := judgeRead rep id tag cfg bytes none (implOf rc) (some (c.dump.toFile 0)) (some c.dump)
  rep.print
  return 0

def judgeMutRec (cases : Array CaseRec) (rep : Report) (rc : Rec) : Report := Id.run do
  let mut rep := rep
  if rc.r.startsWith "WF " then
    -- WF <case> <pos> <style> <result> <written> <total> <prefix|NOTPREFIX>: a sink failing at `pos` must not yield Ok
    let ws := words rc.r
    rep := rep.bump "write_faults"
    let pos := (ws.getD 2 "0").toInt!
    let total := (ws.getD 6 "0").toNat!
    let res := ws.getD 4 "?"
    if pos < 0 then return rep.fail s!"{ws.getD 1 "?"}.w" "write-fault-run" s!"writer run failed: {rc.r}" []
    let modelRes := if pos.toNat < total then "Error" else "Ok"
    rep := rep.bump s!"hist writefault:{res}"
    if res != modelRes then
      rep := rep.fail s!"{ws.getD 1 "?"}.w{pos}" "write-fault" s!"sink failing at {pos} of {total}: ovmb_write returned {res}, model {modelRes}" []
    else if ws.getD 7 "" == "NOTPREFIX" then
      rep := rep.fail s!"{ws.getD 1 "?"}.w{pos}" "write-fault-bytes" s!"bytes written before the failure are not a prefix of the file" []
    return rep
  match rc.x with
  | none => return rep.fail "-" "record-without-X" rc.r []
  | some x =>
    let xw := words x
    let id := xw.getD 1 "?"
    match findCase cases (xw.getD 2 "") with
    | none => return rep.fail id "unknown-case" "" []
    | some c =>
      let cfg := mkCfg (kindOf (xw.getD 3 "p")) (xw.getD 4 "0" == "1")
      let fa := (xw.getD 6 "-1").toInt!
      let kind := xw.getD 8 "?"
      let bytes := applyEdits c.bytes (xw.getD 9 "-")
      let failAt := if fa < 0 then none else some fa.toNat
      let impl := implOf rc
      rep := judgeRead rep id kind cfg bytes failAt impl none (some c.dump)
      -- C18: truncations and failing sources of a valid file are never accepted (independent of the model run)
      if (kind == "trunc" || (kind.startsWith "readfault" && fa.toNat < bytes.length)) && (impl.cls == "ok" || impl.cls == "okhuge") then
        rep := rep.fail id "truncation-accepted" s!"{kind} at {if kind == "trunc" then bytes.length else fa.toNat} of {c.bytes.length} bytes read back Ok" bytes
      return rep

structure MutSt where
  rep : Report := {}
  cur : Option Rec := none
  pendingX : Option String := none

def modeMut (args : List String) : IO UInt32 := do
  let cases := parseCases (← readLines (args.getD 0 ""))
  let flush (st : MutSt) : MutSt :=
    match st.cur with
    | some c => { st with rep := judgeMutRec cases st.rep c, cur := none }
    | none => st
  let step (st : MutSt) (l : String) : MutSt :=
    if l.startsWith "X " then { flush st with pendingX := some l }
    else if l.startsWith "R " then
      let st := flush st
      { st with cur := some { x := st.pendingX, r := l }, pendingX := none }
    else if l.startsWith "WF " then
      let st := flush st
      { st with rep := judgeMutRec cases st.rep { r := l } }
    else if l.startsWith "FILE " then flush st
    else match st.cur with
      | some c => { st with cur := some { c with body := c.body.push l } }
      | none => st
  let st ← foldLines (args.getD 1 "") ({} : MutSt) step
  (flush st).rep.print
  return 0

end OVM.Ovmb.Judge

open OVM.Ovmb.Judge in
def main (args : List String) : IO UInt32 := do
  match args with
  | "cases" :: rest => modeCases rest
  | "xcmp" :: rest => modeXcmp rest
  | "mut" :: rest => modeMut rest
  | _ => IO.eprintln "usage: ovmbjudge cases|xcmp|mut ..."; return 2

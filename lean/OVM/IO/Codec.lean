/-
  OVMB model, layer 2: property codecs (`PropertyCodecs.cc`, `PropertyCodecsT_impl.hh`).
  Property values are kept as *canonical byte strings* (what `Codec::encode_one` writes): numbers, floats,
  handles and 2–4-vectors are raw little-endian bytes of fixed size, strings are `u32 length ++ bytes`,
  bools are one byte 0/1.  `encode_n`/`decode_n` differ from the concatenation only for bool (8 per byte).
  The codec table is the generated `OVM.Gen.Ovmb.codecTableB` (T4).  Core only.
-/
import OVM.IO.Prim
import OVM.Gen.OvmbConsts

namespace OVM.Ovmb
open Dec

inductive CKind where
  | bool | fixed | str
  deriving DecidableEq, Repr, Inhabited

structure Codec where
  name : Bytes
  kind : CKind
  size : Nat
  deriving DecidableEq, Repr, Inhabited

def mkCodec (e : List Nat × Nat × Nat) : Codec :=
  ⟨e.1.map UInt8.ofNat, if e.2.1 = 0 then .bool else if e.2.1 = 1 then .fixed else .str, e.2.2⟩

/-- every codec registered by `PropertyCodecs::with_all_default_types()` -/
def codecs : List Codec := OVM.Gen.Ovmb.codecTableB.map mkCodec

/-- `PropertyCodecs::get_decoder(ovmb_type_name)` -/
def findCodec (name : Bytes) : Option Codec := codecs.find? (fun c => c.name == name)

/-- `v` is what `encode_one` produces for some value of the codec's C++ type -/
def validVal (c : Codec) (v : Bytes) : Bool :=
  match c.kind with
  | .fixed => v.length == c.size
  | .bool => v == [0] || v == [1]
  | .str => 4 ≤ v.length && fromLE (v.take 4) + 4 == v.length

/-- `Codec::decode_one` (used for the serialized default; trailing bytes of the buffer are ignored by the caller) -/
def decodeOne (c : Codec) : Dec Bytes :=
  match c.kind with
  | .fixed => readN c.size
  | .bool => do
      let v ← u8
      guard (v == 0 || v == 1)        -- parse_error("invalid bool encoding")
      pure [UInt8.ofNat v]
  | .str => do
      let len ← u32
      let b ← readN len
      pure (leN 4 len ++ b)

def readMany {α} (d : Dec α) : Nat → Dec (List α)
  | 0 => pure []
  | n + 1 => do let x ← d; let xs ← readMany d n; pure (x :: xs)

/-- `Codec::encode_n(vec, begin, end)` on the canonical values of the slots -/
def encodeN (c : Codec) (vals : List Bytes) : Bytes :=
  match c.kind with
  | .bool => packBits (vals.map (fun v => v == [1]))
  | _ => vals.flatten

def boolVal (b : Bool) : Bytes := [if b then 1 else 0]

/-- `Codec::decode_n` for `n` slots -/
def decodeN (c : Codec) (n : Nat) : Dec (List Bytes) :=
  match c.kind with
  | .bool => do
      let bs ← readN ((n + 7) / 8)       -- need((n+7)/8), then one u8 per 8 slots
      pure ((unpackBits n bs).map boolVal)
  | _ => readMany (decodeOne c) n

/-! ### round trips -/

theorem decodeOne_valid (c : Codec) (v rest : Bytes) (h : validVal c v = true) :
    decodeOne c (v ++ rest) = .ok (v, rest) := by
  unfold validVal at h
  unfold decodeOne
  cases hk : c.kind <;> simp only [hk] at h ⊢
  · -- bool
    simp only [Bool.or_eq_true, beq_iff_eq] at h
    rcases h with rfl | rfl <;> simp [u8, uN, readN, fromLE] <;> rfl
  · -- fixed
    simp only [beq_iff_eq] at h
    exact readN_append' v rest h
  · -- str
    simp only [Bool.and_eq_true, decide_eq_true_eq, beq_iff_eq] at h
    obtain ⟨h4, hl⟩ := h
    obtain ⟨l, b, rfl, hlt, hd⟩ : ∃ l b, v = leN 4 l ++ b ∧ l < 256 ^ 4 ∧ b.length = l := by
      refine ⟨fromLE (v.take 4), v.drop 4, ?_, ?_, by simp; omega⟩
      · have e : leN 4 (fromLE (v.take 4)) = v.take 4 := by
          have := leN_fromLE (v.take 4)
          rwa [show (v.take 4).length = 4 by simp; omega] at this
        rw [e, List.take_append_drop]
      · have := fromLE_lt (v.take 4)
        rwa [show (v.take 4).length = 4 by simp; omega] at this
    simp only [List.append_assoc, bind_run, u32, uN_leN 4 _ hlt, readN_append' _ rest hd, pure_run]

theorem decodeOne_ok_valid {c : Codec} {s r v : Bytes} (h : decodeOne c s = .ok (v, r)) :
    validVal c v = true := by
  unfold decodeOne at h
  unfold validVal
  cases hk : c.kind <;> simp only [hk] at h ⊢
  · simp only [bind_run] at h
    cases h1 : u8 s with
    | error e => simp [h1] at h
    | ok p =>
      obtain ⟨x, s1⟩ := p
      simp only [h1] at h
      by_cases hx : (x == 0 || x == 1) = true
      · simp only [hx, guard_true, pure_run] at h
        injection h with h; injection h with h _
        subst h
        simp only [Bool.or_eq_true, beq_iff_eq] at hx
        rcases hx with rfl | rfl <;> decide
      · simp only [Bool.not_eq_true] at hx
        simp [hx] at h
  · have := (readN_ok h).2
    simp [this]
  · simp only [bind_run] at h
    cases h1 : u32 s with
    | error e => simp [h1] at h
    | ok p =>
      obtain ⟨len, s1⟩ := p
      simp only [h1] at h
      cases h2 : readN len s1 with
      | error e => simp [h2] at h
      | ok q =>
        obtain ⟨b, s2⟩ := q
        simp only [h2, pure_run] at h
        injection h with h; injection h with h _
        subst h
        have hlen := (uN_lt h1).1
        have hb := (readN_ok h2).2
        simp [fromLE_leN 4 len hlen, hb]; omega

theorem readMany_roundtrip {α} (d : Dec α) (enc : α → Bytes) (P : α → Prop)
    (hd : ∀ a rest, P a → d (enc a ++ rest) = .ok (a, rest)) (xs : List α) (rest : Bytes)
    (h : ∀ x ∈ xs, P x) :
    readMany d xs.length ((xs.map enc).flatten ++ rest) = .ok (xs, rest) := by
  induction xs with
  | nil => simp [readMany]
  | cons x t ih =>
    have hx := hd x ((t.map enc).flatten ++ rest) (h x (by simp))
    have ht := ih (fun y hy => h y (by simp [hy]))
    simp [readMany, List.append_assoc, hx, ht]

theorem readMany_length {α} {d : Dec α} {n : Nat} {s r : Bytes} {xs : List α}
    (h : readMany d n s = .ok (xs, r)) : xs.length = n := by
  induction n generalizing s xs r with
  | zero => simp [readMany] at h; simp [h.1.symm]
  | succ n ih =>
    simp only [readMany, bind_run] at h
    cases h1 : d s with
    | error e => simp [h1] at h
    | ok p =>
      obtain ⟨x, s1⟩ := p
      simp only [h1] at h
      cases h2 : readMany d n s1 with
      | error e => simp [h2] at h
      | ok q =>
        obtain ⟨t, s2⟩ := q
        simp only [h2, pure_run] at h
        injection h with h; injection h with h _
        subst h; simp [ih h2]

theorem readMany_all {α} {d : Dec α} {P : α → Prop} (hP : ∀ s a r, d s = .ok (a, r) → P a)
    {n : Nat} {s r : Bytes} {xs : List α} (h : readMany d n s = .ok (xs, r)) : ∀ x ∈ xs, P x := by
  induction n generalizing s xs r with
  | zero =>
    simp only [readMany, pure_run] at h
    injection h with h; injection h with h _
    subst h; intro x hx; cases hx
  | succ n ih =>
    simp only [readMany, bind_run] at h
    cases h1 : d s with
    | error e => simp [h1] at h
    | ok p =>
      obtain ⟨x, s1⟩ := p
      simp only [h1] at h
      cases h2 : readMany d n s1 with
      | error e => simp [h2] at h
      | ok q =>
        obtain ⟨t, s2⟩ := q
        simp only [h2, pure_run] at h
        injection h with h; injection h with h _
        subst h
        intro y hy
        rcases List.mem_cons.mp hy with rfl | hy
        · exact hP _ _ _ h1
        · exact ih h2 y hy

theorem boolVal_beq (v : Bytes) (h : (v == [0] || v == [1]) = true) : boolVal (v == [1]) = v := by
  simp only [Bool.or_eq_true, beq_iff_eq] at h
  rcases h with rfl | rfl <;> decide

theorem decodeN_encodeN (c : Codec) (vals : List Bytes) (rest : Bytes)
    (h : ∀ v ∈ vals, validVal c v = true) :
    decodeN c vals.length (encodeN c vals ++ rest) = .ok (vals, rest) := by
  unfold decodeN encodeN
  cases hk : c.kind <;> simp only [hk]
  · -- bool
    have hlen : (packBits (vals.map (fun v => v == [1]))).length = (vals.length + 7) / 8 := by
      rw [packBits_length]; simp
    simp only [bind_run, readN_append' _ rest hlen, pure_run]
    have := unpackBits_packBits (vals.map (fun v => v == [1]))
    simp only [List.length_map] at this
    rw [this]
    congr 2
    rw [List.map_map]
    conv => rhs; rw [← List.map_id vals]
    apply List.map_congr_left
    intro v hv
    have := h v hv
    simp only [validVal, hk] at this
    exact boolVal_beq v this
  · have := readMany_roundtrip (decodeOne c) id (fun v => validVal c v = true)
      (fun a r ha => decodeOne_valid c a r ha) vals rest h
    simpa using this
  · have := readMany_roundtrip (decodeOne c) id (fun v => validVal c v = true)
      (fun a r ha => decodeOne_valid c a r ha) vals rest h
    simpa using this

theorem decodeN_ok {c : Codec} {n : Nat} {s r : Bytes} {vals : List Bytes}
    (h : decodeN c n s = .ok (vals, r)) : vals.length = n ∧ ∀ v ∈ vals, validVal c v = true := by
  unfold decodeN at h
  cases hk : c.kind <;> simp only [hk] at h
  · simp only [bind_run] at h
    cases h1 : readN ((n + 7) / 8) s with
    | error e => simp [h1] at h
    | ok p =>
      obtain ⟨bs, s1⟩ := p
      simp only [h1, pure_run] at h
      injection h with h; injection h with h _
      subst h
      have hl : bs.length = (n + 7) / 8 := (readN_ok h1).2
      constructor
      · simp only [List.length_map]
        -- unpackBits yields n bits when enough bytes are present
        clear h1
        induction n using Nat.strongRecOn generalizing bs with
        | _ n ih =>
          cases n with
          | zero => simp [unpackBits]
          | succ m =>
            cases bs with
            | nil => simp at hl; omega
            | cons b t =>
              rw [unpackBits]
              simp only [List.length_append]
              have hbl : ∀ k v, (byteToBits k v).length = k := by
                intro k; induction k with
                | zero => intro v; rfl
                | succ k ihk => intro v; simp [byteToBits, ihk]
              rw [hbl]
              have ht : t.length = (m + 1 - 8 + 7) / 8 := by simp at hl; omega
              rw [ih (m + 1 - 8) (by omega) t ht]
              omega
      · intro v hv
        simp only [List.mem_map] at hv
        obtain ⟨b, _, rfl⟩ := hv
        cases b <;> simp [validVal, hk, boolVal]
  · exact ⟨readMany_length h, readMany_all (P := fun v => validVal c v = true) (fun _ _ _ hh => decodeOne_ok_valid hh) h⟩
  · exact ⟨readMany_length h, readMany_all (P := fun v => validVal c v = true) (fun _ _ _ hh => decodeOne_ok_valid hh) h⟩

/-- names in the generated table are pairwise distinct, so lookup by name returns the codec itself
    (`decide` over the complete 30-entry table) -/
theorem findCodec_name : ∀ c ∈ codecs, findCodec c.name = some c := by decide

theorem findCodec_mem {n : Bytes} {c : Codec} (h : findCodec n = some c) : c ∈ codecs ∧ c.name = n := by
  unfold findCodec at h
  have h1 := List.find?_some h
  have h2 := List.mem_of_find?_eq_some h
  exact ⟨h2, by simpa using h1⟩

end OVM.Ovmb

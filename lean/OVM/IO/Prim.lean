/-
  OVMB model, layer 1: little-endian integers (`Encoder::u8..u64`, `Decoder::u8..u64`), length-prefixed
  vectors (`writeVec<uint32_t>` / `readVec<uint32_t>`), lists of fixed-width integers, bit-packed bools,
  float → double widening (`point[d] = r.flt()`).  Core only.
-/
import OVM.IO.Bytes

namespace OVM.Ovmb

/-! ### little-endian naturals -/

/-- `k` bytes, least significant first, of `v mod 256^k` (`Encoder::u8/u16/u32/u64`: `(val >> 8*i) & 0xff`). -/
def leN : Nat → Nat → Bytes
  | 0, _ => []
  | k + 1, v => UInt8.ofNat (v % 256) :: leN k (v / 256)

/-- `Decoder::uN`: `cur_[0] + (cur_[1] << 8) + …`. -/
def fromLE : Bytes → Nat
  | [] => 0
  | b :: bs => b.toNat + 256 * fromLE bs

@[simp] theorem leN_length (k v : Nat) : (leN k v).length = k := by
  induction k generalizing v with
  | zero => rfl
  | succ k ih => simp [leN, ih]

theorem fromLE_lt (bs : Bytes) : fromLE bs < 256 ^ bs.length := by
  induction bs with
  | nil => simp [fromLE]
  | cons b t ih =>
    have hb : b.toNat < 256 := b.toNat_lt
    simp only [fromLE, List.length_cons, Nat.pow_succ]
    omega

theorem toNat_ofNat_lt {n : Nat} (h : n < 256) : (UInt8.ofNat n).toNat = n := by
  rw [UInt8.toNat_ofNat']; exact Nat.mod_eq_of_lt h

theorem fromLE_leN (k v : Nat) (h : v < 256 ^ k) : fromLE (leN k v) = v := by
  induction k generalizing v with
  | zero => simp [Nat.pow_zero] at h; subst h; rfl
  | succ k ih =>
    have h2 : v / 256 < 256 ^ k := by
      rw [Nat.pow_succ] at h
      exact Nat.div_lt_of_lt_mul (by rw [Nat.mul_comm]; exact h)
    have hm : (UInt8.ofNat (v % 256)).toNat = v % 256 := toNat_ofNat_lt (by omega)
    simp only [leN, fromLE, ih _ h2, hm]
    omega

theorem leN_fromLE (bs : Bytes) : leN bs.length (fromLE bs) = bs := by
  induction bs with
  | nil => rfl
  | cons b t ih =>
    have hb : b.toNat < 256 := b.toNat_lt
    have h1 : (b.toNat + 256 * fromLE t) % 256 = b.toNat := by omega
    have h2 : (b.toNat + 256 * fromLE t) / 256 = fromLE t := by omega
    simp only [List.length_cons, leN, fromLE, h1, h2, ih, UInt8.ofNat_toNat]

theorem leN_zero (k : Nat) : leN k 0 = zeros k := by
  induction k with
  | zero => rfl
  | succ k ih => simp [leN, ih, zeros, List.replicate_succ]

/-- two `k`-byte encodings are equal iff the values agree (below `256^k`) -/
theorem leN_inj {k a b : Nat} (ha : a < 256 ^ k) (hb : b < 256 ^ k) (h : leN k a = leN k b) : a = b := by
  have := congrArg fromLE h
  rwa [fromLE_leN k a ha, fromLE_leN k b hb] at this

open Dec

/-- `Decoder::uN()` for an `n`-byte integer. -/
def uN (n : Nat) : Dec Nat := do let bs ← readN n; pure (fromLE bs)

def u8 : Dec Nat := uN 1
def u16 : Dec Nat := uN 2
def u32 : Dec Nat := uN 4
def u64 : Dec Nat := uN 8

theorem uN_leN (k v : Nat) (h : v < 256 ^ k) (rest : Bytes) : uN k (leN k v ++ rest) = .ok (v, rest) := by
  simp [uN, readN_append' (leN k v) rest (leN_length k v), fromLE_leN k v h]

theorem uN_lt {k : Nat} {s r : Bytes} {v : Nat} (h : uN k s = .ok (v, r)) : v < 256 ^ k ∧ s = leN k v ++ r := by
  simp only [uN, bind_run] at h
  cases hr : readN k s with
  | error e => simp [hr] at h
  | ok p =>
    obtain ⟨x, r'⟩ := p
    simp only [hr, pure_run] at h
    injection h with h; injection h with h1 h2
    obtain ⟨hs, hl⟩ := readN_ok hr
    subst h1 h2
    refine ⟨by have := fromLE_lt x; rwa [hl] at this, ?_⟩
    rw [hs, ← hl, leN_fromLE]

theorem uN_short {k : Nat} {s : Bytes} (h : s.length < k) : uN k s = .error .invalidFile := by
  simp [uN, readN_short h]

/-! ### `writeVec<uint32_t>` / `readVec<uint32_t>` -/

/-- `Encoder::writeVec<uint32_t>(vec)` (the writer throws `write_error` when the length does not fit). -/
def encVec32 (v : Bytes) : Bytes := leN 4 v.length ++ v

/-- `Decoder::readVec<uint32_t>`: `need(4); len; need(len); read`. -/
def readVec32 : Dec Bytes := do let len ← u32; readN len

theorem readVec32_enc (v rest : Bytes) (h : v.length < 2 ^ 32) :
    readVec32 (encVec32 v ++ rest) = .ok (v, rest) := by
  have h' : v.length < 256 ^ 4 := by simpa using h
  simp [readVec32, encVec32, u32, List.append_assoc, uN_leN 4 v.length h', readN_append]

/-! ### lists of fixed-width integers (`read_n_ints`, valence lists, handle lists) -/

def encInts (w : Nat) (xs : List Nat) : Bytes := (xs.map (leN w)).flatten

/-- `count` integers of `w` bytes each -/
def readInts (w : Nat) : Nat → Dec (List Nat)
  | 0 => pure []
  | n + 1 => do let x ← uN w; let xs ← readInts w n; pure (x :: xs)

@[simp] theorem encInts_nil (w : Nat) : encInts w [] = [] := rfl
@[simp] theorem encInts_cons (w x : Nat) (xs : List Nat) : encInts w (x :: xs) = leN w x ++ encInts w xs := by
  simp [encInts]

@[simp] theorem encInts_length (w : Nat) (xs : List Nat) : (encInts w xs).length = w * xs.length := by
  induction xs with
  | nil => simp
  | cons x t ih => simp [ih, Nat.mul_succ]; omega

theorem encInts_append (w : Nat) (xs ys : List Nat) : encInts w (xs ++ ys) = encInts w xs ++ encInts w ys := by
  simp [encInts]

theorem readInts_enc (w : Nat) (xs : List Nat) (rest : Bytes) (h : ∀ x ∈ xs, x < 256 ^ w) :
    readInts w xs.length (encInts w xs ++ rest) = .ok (xs, rest) := by
  induction xs with
  | nil => simp [readInts]
  | cons x t ih =>
    have hx := h x (by simp)
    have ht := ih (fun y hy => h y (by simp [hy]))
    simp [readInts, List.append_assoc, uN_leN w x hx, ht]

theorem readInts_ok {w n : Nat} {s r : Bytes} {xs : List Nat} (h : readInts w n s = .ok (xs, r)) :
    xs.length = n ∧ (∀ x ∈ xs, x < 256 ^ w) ∧ s = encInts w xs ++ r := by
  induction n generalizing s xs with
  | zero => simp [readInts] at h; obtain ⟨rfl, rfl⟩ := h; simp
  | succ n ih =>
    simp only [readInts, bind_run] at h
    cases h1 : uN w s with
    | error e => simp [h1] at h
    | ok p =>
      obtain ⟨x, s1⟩ := p
      simp only [h1] at h
      cases h2 : readInts w n s1 with
      | error e => simp [h2] at h
      | ok q =>
        obtain ⟨t, s2⟩ := q
        simp only [h2, pure_run] at h
        injection h with h; injection h with ha hb
        subst ha hb
        obtain ⟨hl, hb, hs⟩ := ih h2
        obtain ⟨hx, hs1⟩ := uN_lt h1
        refine ⟨by simp [hl], ?_, ?_⟩
        · intro y hy
          rcases List.mem_cons.mp hy with rfl | hy
          · exact hx
          · exact hb y hy
        · rw [hs1, hs]; simp [List.append_assoc]

/-! ### bit-packed bools (`BoolPropCodec::encode_n` / `decode_n`): 8 per byte, least significant bit first -/

def bitsToByte : List Bool → Nat
  | [] => 0
  | b :: bs => (if b then 1 else 0) + 2 * bitsToByte bs

/-- the first `n` bits of a byte value, least significant first (`bitset[bit]`) -/
def byteToBits : Nat → Nat → List Bool
  | 0, _ => []
  | n + 1, v => (v % 2 == 1) :: byteToBits n (v / 2)

def packBits : List Bool → Bytes
  | [] => []
  | b :: bs => UInt8.ofNat (bitsToByte ((b :: bs).take 8)) :: packBits ((b :: bs).drop 8)
termination_by l => l.length
decreasing_by simp; omega

/-- `count` bools from `⌈count/8⌉` bytes -/
def unpackBits : Nat → Bytes → List Bool
  | 0, _ => []
  | _ + 1, [] => []
  | n + 1, b :: bs => byteToBits (min (n + 1) 8) b.toNat ++ unpackBits (n + 1 - 8) bs
termination_by n => n
decreasing_by omega

theorem bitsToByte_lt (bs : List Bool) : bitsToByte bs < 2 ^ bs.length := by
  induction bs with
  | nil => simp [bitsToByte]
  | cons b t ih => simp only [bitsToByte, List.length_cons, Nat.pow_succ]; split <;> omega

theorem byteToBits_bitsToByte (bs : List Bool) : byteToBits bs.length (bitsToByte bs) = bs := by
  induction bs with
  | nil => rfl
  | cons b t ih =>
    have h1 : ((if b then 1 else 0) + 2 * bitsToByte t) / 2 = bitsToByte t := by split <;> omega
    have h2 : (((if b then 1 else 0) + 2 * bitsToByte t) % 2 == 1) = b := by
      cases b <;> simp <;> omega
    simp only [List.length_cons, byteToBits, bitsToByte, h1, h2, ih]

theorem packBits_length (bs : List Bool) : (packBits bs).length = (bs.length + 7) / 8 := by
  induction h : bs.length using Nat.strongRecOn generalizing bs with
  | _ n ih =>
    cases bs with
    | nil => subst h; simp [packBits]
    | cons b t =>
      rw [packBits]
      simp only [List.length_cons]
      have := ih ((b :: t).drop 8).length (by subst h; simp; omega) ((b :: t).drop 8) rfl
      rw [this]; subst h
      simp only [List.length_drop, List.length_cons]
      omega

theorem unpackBits_packBits (bs : List Bool) : unpackBits bs.length (packBits bs) = bs := by
  induction h : bs.length using Nat.strongRecOn generalizing bs with
  | _ n ih =>
    cases bs with
    | nil => subst h; simp [unpackBits]
    | cons b t =>
      subst h
      rw [packBits]
      simp only [List.length_cons]
      rw [unpackBits]
      have hlt : bitsToByte ((b :: t).take 8) < 256 := by
        have := bitsToByte_lt ((b :: t).take 8)
        have h8 : ((b :: t).take 8).length ≤ 8 := by simp; omega
        calc bitsToByte ((b :: t).take 8) < 2 ^ ((b :: t).take 8).length := this
          _ ≤ 2 ^ 8 := Nat.pow_le_pow_right (by omega) h8
      have hto : (UInt8.ofNat (bitsToByte ((b :: t).take 8))).toNat = bitsToByte ((b :: t).take 8) :=
        toNat_ofNat_lt hlt
      have hlen : min (t.length + 1) 8 = ((b :: t).take 8).length := by simp; omega
      rw [hto, hlen, byteToBits_bitsToByte]
      have hrec := ih ((b :: t).drop 8).length (by simp; omega) ((b :: t).drop 8) rfl
      have hd : t.length + 1 - 8 = ((b :: t).drop 8).length := by simp
      rw [hd, hrec, List.take_append_drop]

/-! ### float → double (`double = float` conversion in `GeometryReaderT::read` for `VertexEncoding::Float`) -/

/-- position of the highest set bit of `m` (`m > 0`), by fuel -/
def highBit : Nat → Nat → Nat
  | 0, _ => 0
  | f + 1, m => if m ≤ 1 then 0 else 1 + highBit f (m / 2)

/-- IEEE-754 binary32 bit pattern → binary64 bit pattern of the same value (exact; NaNs keep sign and payload
    and are quieted, as `cvtss2sd` does). -/
def f32to64 (u : Nat) : Nat :=
  let s := u / 2 ^ 31 % 2
  let e := u / 2 ^ 23 % 256
  let m := u % 2 ^ 23
  if e == 255 then
    if m == 0 then s * 2 ^ 63 + 2047 * 2 ^ 52
    else s * 2 ^ 63 + 2047 * 2 ^ 52 + 2 ^ 51 + (m * 2 ^ 29) % 2 ^ 51
  else if e == 0 then
    if m == 0 then s * 2 ^ 63
    else
      let k := highBit 24 m            -- m = 2^k + rest, value = m * 2^-149
      s * 2 ^ 63 + (k + 1023 - 149) * 2 ^ 52 + (m - 2 ^ k) * 2 ^ (52 - k)
  else s * 2 ^ 63 + (e + 896) * 2 ^ 52 + m * 2 ^ 29

/-- is the double bit pattern `d` the widening of some float? returns that float's pattern -/
def f64to32? (d : Nat) : Option Nat :=
  let s := d / 2 ^ 63 % 2
  let e := d / 2 ^ 52 % 2048
  let m := d % 2 ^ 52
  let cands : List Nat :=
    if e == 2047 then [s * 2 ^ 31 + 255 * 2 ^ 23 + m / 2 ^ 29]
    else if e == 0 then [s * 2 ^ 31]
    else if e ≥ 897 && e ≤ 1150 then [s * 2 ^ 31 + (e - 896) * 2 ^ 23 + m / 2 ^ 29]
    else if e ≥ 874 && e ≤ 896 then [s * 2 ^ 31 + (2 ^ 52 + m) / 2 ^ (29 + (897 - e))]
    else []
  cands.find? (fun u => f32to64 u == d)

end OVM.Ovmb

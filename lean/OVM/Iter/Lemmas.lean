import OVM.Iter.Circ
/-
  Lemmas about the two iterator machines.
-/
namespace OVM

theorem drop_range_cons (n s : Nat) (h : s < n) : (List.range n).drop s = s :: (List.range n).drop (s + 1) := by
  rw [List.drop_eq_getElem_cons (by simpa using h)]; simp

theorem drop_range_nil (n s : Nat) (h : n ≤ s) : (List.range n).drop s = [] := by
  apply List.drop_eq_nil_of_le; simpa using h

/-- one step of the skip loop -/
theorem skipFwdP_unfold (p : Nat → Bool) (n s : Nat) :
    skipFwdP p n s = if s < n then (if p s = true then s else skipFwdP p n (s + 1)) else s := by
  unfold skipFwdP
  by_cases h : s < n
  · rw [drop_range_cons n s h]
    simp only [h, if_true, List.find?_cons]
    by_cases hl : p s = true
    · simp [hl]
    · have hl' : p s = false := by simpa using hl
      simp only [hl', Bool.false_eq_true, if_false]
      have : max n s = max n (s + 1) := by omega
      rw [this]
  · rw [drop_range_nil n s (by omega)]
    simp [h]; omega

/-- entity iteration visits exactly the slots ≥ start satisfying `p`, in ascending order -/
theorem enumFromP_eq (p : Nat → Bool) (n : Nat) : ∀ (d s : Nat), n - s = d →
    enumFromP p n s = ((List.range n).drop s).filter p := by
  intro d
  induction d with
  | zero =>
    intro s hs
    have hge : n ≤ s := by omega
    rw [drop_range_nil n s hge]
    unfold enumFromP
    have := le_skipFwdP p n s
    have : ¬ skipFwdP p n s < n := by omega
    simp [this]
  | succ d ih =>
    intro s hs
    have hlt : s < n := by omega
    rw [drop_range_cons n s hlt]
    by_cases hl : p s = true
    · have hsk : skipFwdP p n s = s := by rw [skipFwdP_unfold]; simp [hlt, hl]
      rw [enumFromP.eq_1]
      simp only [hsk, hlt, dite_true, List.filter_cons, hl, if_true]
      rw [ih (s + 1) (by omega)]
    · have hl' : p s = false := by simpa using hl
      have hsk : skipFwdP p n s = skipFwdP p n (s + 1) := by rw [skipFwdP_unfold]; simp [hlt, hl']
      have e : enumFromP p n s = enumFromP p n (s + 1) := by
        rw [enumFromP.eq_1 p n s, enumFromP.eq_1 p n (s + 1), hsk]
      rw [e, ih (s + 1) (by omega)]
      simp [hl']

theorem enumFrom_eq (del : List Bool) (n s : Nat) :
    enumFrom del n s = ((List.range n).drop s).filter (liveFlag del) := enumFromP_eq _ n _ s rfl

namespace Circ

theorem next_inner (L : List Nat) (m i : Nat) (l : Int) (v : Bool) (h : i + 1 < L.length) :
    next L m (pos L i l v) = pos L (i + 1) l v := by
  unfold next pos
  have : ¬ i + 1 = L.length := by omega
  simp [this]

theorem next_wrap (L : List Nat) (m i : Nat) (l : Int) (v : Bool) (h : i + 1 = L.length) :
    next L m (pos L i l v) = pos L 0 (l + 1) (v && decide (l + 1 < m)) := by
  unfold next pos
  simp [h]

theorem start_eq_pos (L : List Nat) : start L = pos L 0 0 (!L.isEmpty) := by
  unfold start pos; cases L <;> simp

/-- stepping back undoes stepping forward whenever the forward step lands on a valid position -/
theorem prev_next (L : List Nat) (m i : Nat) (l : Int) (hi : i < L.length) (hl : 0 ≤ l)
    (hv : (next L m (pos L i l true)).valid = true) : prev L (next L m (pos L i l true)) = pos L i l true := by
  by_cases h : i + 1 = L.length
  · rw [next_wrap L m i l true h] at hv ⊢
    unfold pos at hv
    simp only [Bool.true_and, decide_eq_true_eq] at hv
    unfold prev pos
    have e : L.length - 1 = i := by omega
    simp [e, hv]
    exact hl
  · rw [next_inner L m i l true (by omega)]
    unfold prev pos
    simp

/-- repeat a list `m` times -/
def rep (m : Nat) (L : List Nat) : List Nat := (List.replicate m L).flatten

theorem rep_succ (m : Nat) (L : List Nat) : rep (m + 1) L = L ++ rep m L := by
  simp [rep, List.replicate_succ]

/-- from position `i` of lap `l` (valid), the loop `for (; c.valid(); ++c)` dereferences the rest of
    this lap followed by the remaining full laps -/
theorem visit_from (L : List Nat) (m : Nat) :
    ∀ (r : Nat) (l : Nat), l + r + 1 = m → ∀ (j i : Nat), i + j + 1 = L.length →
    ∀ fuel, fuel ≥ (j + 1) + r * L.length + 1 →
    visit L m fuel (pos L i l true) = L.drop i ++ rep r L := by
  intro r
  induction r with
  | zero =>
    intro l hl j
    induction j with
    | zero =>
      intro i hi fuel hf
      obtain ⟨f, rfl⟩ : ∃ f, fuel = f + 1 := ⟨fuel - 1, by omega⟩
      have hil : i < L.length := by omega
      simp only [visit, pos, if_true]
      have hn := next_wrap L m i l true (by omega)
      unfold pos at hn
      rw [hn]
      have : ¬ ((l : Int) + 1 < m) := by omega
      simp only [this, decide_false, Bool.and_false]
      obtain ⟨f', rfl⟩ : ∃ f', f = f' + 1 := ⟨f - 1, by omega⟩
      have hd : L.drop i = [L[i]] := by
        rw [List.drop_eq_getElem_cons hil]
        have : L.drop (i + 1) = [] := List.drop_eq_nil_of_le (by omega)
        rw [this]
      simp [visit, rep, hd, List.getElem?_eq_getElem hil]
    | succ j ihj =>
      intro i hi fuel hf
      obtain ⟨f, rfl⟩ : ∃ f, fuel = f + 1 := ⟨fuel - 1, by omega⟩
      have hil : i < L.length := by omega
      simp only [visit, pos, if_true]
      have hn := next_inner L m i l true (by omega)
      unfold pos at hn
      rw [hn]
      have ih' := ihj (i + 1) (by omega) f (by omega)
      unfold pos at ih'
      rw [ih']
      have hd : L.drop i = L[i] :: L.drop (i + 1) := List.drop_eq_getElem_cons hil
      rw [hd]
      simp only [List.getElem?_eq_getElem hil, Option.getD_some, List.cons_append]
  | succ r ihr =>
    intro l hl j
    induction j with
    | zero =>
      intro i hi fuel hf
      obtain ⟨f, rfl⟩ : ∃ f, fuel = f + 1 := ⟨fuel - 1, by omega⟩
      have hil : i < L.length := by omega
      have hpos : 0 < L.length := by omega
      simp only [visit, pos, if_true]
      have hn := next_wrap L m i l true (by omega)
      unfold pos at hn
      rw [hn]
      have : ((l : Int) + 1 < m) := by omega
      simp only [this, decide_true, Bool.and_true]
      have ih' := ihr (l + 1) (by omega) (L.length - 1) 0 (by omega) f (by
        have : (r + 1) * L.length = r * L.length + L.length := by rw [Nat.succ_mul]
        omega)
      unfold pos at ih'
      have cast : ((l : Int) + 1) = ((l + 1 : Nat) : Int) := by simp
      rw [cast, ih']
      have hd : L.drop i = [L[i]] := by
        rw [List.drop_eq_getElem_cons hil]
        have : L.drop (i + 1) = [] := List.drop_eq_nil_of_le (by omega)
        rw [this]
      simp [hd, rep_succ, List.getElem?_eq_getElem hil]
    | succ j ihj =>
      intro i hi fuel hf
      obtain ⟨f, rfl⟩ : ∃ f, fuel = f + 1 := ⟨fuel - 1, by omega⟩
      have hil : i < L.length := by omega
      simp only [visit, pos, if_true]
      have hn := next_inner L m i l true (by omega)
      unfold pos at hn
      rw [hn]
      have ih' := ihj (i + 1) (by omega) f (by omega)
      unfold pos at ih'
      rw [ih']
      have hd : L.drop i = L[i] :: L.drop (i + 1) := List.drop_eq_getElem_cons hil
      rw [hd]
      simp only [List.getElem?_eq_getElem hil, Option.getD_some, List.cons_append]

end Circ
end OVM

/-
  The circulator state machine shared by every circulator class
  (src/OpenVolumeMesh/Core/Iterators/*.cc, BaseCirculator.hh, TopologyKernel.hh:70-79):
  position `idx` in the list `L` the constructor built, lap counter, valid flag, current handle.
  `cur = none` models the default-constructed output handle (−1).
-/
namespace OVM

structure Circ where
  idx : Nat
  lap : Int
  valid : Bool
  cur : Option Nat
deriving Repr, DecidableEq

namespace Circ

/-- constructor: position 0, valid iff the list is non-empty -/
def start (L : List Nat) : Circ := { idx := 0, lap := 0, valid := !L.isEmpty, cur := L.head? }

/-- `operator++` -/
def next (L : List Nat) (m : Nat) (c : Circ) : Circ :=
  if c.idx + 1 = L.length then
    { idx := 0, lap := c.lap + 1, valid := c.valid && decide (c.lap + 1 < m), cur := L[0]? }
  else { c with idx := c.idx + 1, cur := L[c.idx + 1]? }

/-- `operator--` (it never sets `valid` back to true) -/
def prev (L : List Nat) (c : Circ) : Circ :=
  if c.idx = 0 then
    { idx := L.length - 1, lap := c.lap - 1, valid := c.valid && decide (0 ≤ c.lap - 1), cur := L[L.length - 1]? }
  else { c with idx := c.idx - 1, cur := L[c.idx - 1]? }

/-- `make_end_circulator` -/
def endOf (m : Nat) (c : Circ) : Circ := if c.valid then { c with lap := m, valid := false } else c

/-- the C++ `operator==` of two circulators of the same mesh and centre: handle, valid, lap
    (the position is not compared) -/
def eqv (a b : Circ) : Bool := a.cur == b.cur && a.valid == b.valid && a.lap == b.lap

/-- the canonical state "position `i` in lap `l`" -/
def pos (L : List Nat) (i : Nat) (l : Int) (v : Bool) : Circ := { idx := i, lap := l, valid := v, cur := L[i]? }

/-- the handles dereferenced by `for (c = begin; c.valid(); ++c)` (fuel bounds the steps) -/
def visit (L : List Nat) (m : Nat) : Nat → Circ → List Nat
  | 0, _ => []
  | fuel + 1, c => if c.valid then (c.cur.getD 0) :: visit L m fuel (next L m c) else []

/-- `k` increments -/
def nextN (L : List Nat) (m : Nat) : Nat → Circ → Circ
  | 0, c => c
  | k + 1, c => next L m (nextN L m k c)

end Circ

/-! ### entity iterators (VertexIter, EdgeIter, FaceIter, CellIter and the half-entity ones) -/

/-- first slot ≥ start satisfying `p` (the skip loop `while (i < n && !p i) ++i`), or `max n start` -/
def skipFwdP (p : Nat → Bool) (n : Nat) (start : Nat) : Nat :=
  (((List.range n).drop start).find? p).getD (max n start)

theorem le_skipFwdP (p : Nat → Bool) (n start : Nat) : start ≤ skipFwdP p n start := by
  unfold skipFwdP
  cases hf : ((List.range n).drop start).find? p with
  | none => simp; omega
  | some x =>
    have hx := List.mem_of_find?_eq_some hf
    rw [List.mem_iff_getElem] at hx
    obtain ⟨i, hi, rfl⟩ := hx
    simp [List.getElem_drop]

/-- the handles visited by `for (it = Iter(mesh, start); it.valid(); ++it)` -/
def enumFromP (p : Nat → Bool) (n : Nat) (start : Nat) : List Nat :=
  if _h : skipFwdP p n start < n then skipFwdP p n start :: enumFromP p n (skipFwdP p n start + 1) else []
termination_by n - skipFwdP p n start
decreasing_by
  have := le_skipFwdP p n (skipFwdP p n start + 1)
  omega

/-- not-deleted test on a flag array -/
def liveFlag (del : List Bool) (i : Nat) : Bool := !(del.getD i false)

/-- the slot an entity iterator constructed at `start` points to -/
def skipFwd (del : List Bool) (n start : Nat) : Nat := skipFwdP (liveFlag del) n start
def enumFrom (del : List Bool) (n start : Nat) : List Nat := enumFromP (liveFlag del) n start

end OVM

import OVM.IO.Ovmb.FramingLemmas
import OVM.IO.Ovmb.SafetyLoop
import OVM.IO.Driver
/-
  C07, OVMB half.  Subject: `decode` / `decodeStream` (lean/OVM/IO/Ovmb/Decode.lean), the model of `ovmb_read`
  with exactly the range checks the C++ has; unchecked kernel accesses (`vector::operator[]` in the topology
  checks of `add_face` / `add_cell` and in the tet / hex overrides, incl. their guards `spanCount`, `noParallel`,
  `oppPairsDisjoint`)
  are the ghost error `.ub`.  The model is tied
  to the code by the differential run of tools/props/io_ovmb.py (same bytes to both, result class and mesh
  compared, the model compiled from these very files).

  Proved here, for every byte string, every stream (healthy, or failing early at any position) and every reader
  configuration (mesh type poly / tet / hex, topology check on / off, any hex ordering step that only hands on
  halffaces it was given — `HexOK`):
    * `no_undefined_behaviour`  the reader never makes an unchecked out-of-range kernel access: every `getU` call
                                site is reached only with an index that the reader's own range checks
                                (`readHandles`, the vertex-range test of `read_edges`) put in range; the
                                property directory only ever holds indices of existing storages
    * `ok_implies_valid_mesh`   success ⇒ `WFMesh`: three 64-bit coordinates per vertex, every edge endpoint /
                                halfedge / halfface stored designates an existing entity, every property has a
                                registered codec, a default and one value per entity, all of its type
    * `chunk_loop_measure` …    termination: the chunk loop is a well-founded recursion on `remaining_bytes()`
                                (each `read_chunk` consumes at least a chunk header; Lean accepted `loop` as a
                                total function by exactly this measure), every payload decoder is structural
                                recursion on a count checked against the payload length first
  Method (lean/OVM/IO/Ovmb/Safety*.lean): the invariant `RInv` of the reader state holds initially and is
  preserved by every chunk kind; `Safe RInv` (not `.ub`, and `RInv` on success) composes along the `do` blocks;
  the loop by functional induction; `finish` turns `RInv` into `WFMesh`.
  `HexOK` is necessary (`hexOK_needed` below: a configuration violating it reaches `.ub` on a valid cube file);
  it holds for the configuration of the correspondence run (`judge_cfg_hexOK`) and for the kernel model of the
  hexahedral `add_cell` (`OVM.Kernel.hexReorder_subset`, Props/C16).
-/
namespace OVM.Props.C07
open OVM.Ovmb OVM.Gen.Ovmb Dec

/-- **C07 (a)**, any stream: reading never makes an unchecked out-of-range kernel access -/
theorem no_undefined_behaviour_stream (cfg : Cfg) (hx : HexOK cfg) (st : Stream) :
    decodeStream cfg st ≠ .error .ub :=
  decodeStream_no_ub cfg hx st

/-- **C07 (a)**: for every byte string, reading never makes an unchecked out-of-range kernel access -/
theorem no_undefined_behaviour (cfg : Cfg) (hx : HexOK cfg) (bytes : Bytes) : decode cfg bytes ≠ .error .ub :=
  decode_no_ub cfg hx bytes

/-- **C07 (a)**, stream that fails from position `p` on -/
theorem no_undefined_behaviour_faulty (cfg : Cfg) (hx : HexOK cfg) (bytes : Bytes) (p : Nat) :
    decodeFaulty cfg bytes p ≠ .error .ub :=
  decodeFaulty_no_ub cfg hx bytes p

/-- **C07 (c)**, any stream: success ⇒ valid mesh -/
theorem ok_implies_valid_mesh_stream (cfg : Cfg) (hx : HexOK cfg) (st : Stream) (F : File)
    (h : decodeStream cfg st = .ok F) : WFMesh F = true :=
  decodeStream_ok_wf cfg hx st F h

/-- **C07 (c)**: for every byte string, success ⇒ every stored handle designates an existing entity and every
    property has one element (of its type) per entity -/
theorem ok_implies_valid_mesh (cfg : Cfg) (hx : HexOK cfg) (bytes : Bytes) (F : File)
    (h : decode cfg bytes = .ok F) : WFMesh F = true :=
  decode_ok_wf cfg hx bytes F h

/-- **C07 (c)**, stream that fails from position `p` on -/
theorem ok_implies_valid_mesh_faulty (cfg : Cfg) (hx : HexOK cfg) (bytes : Bytes) (p : Nat) (F : File)
    (h : decodeFaulty cfg bytes p = .ok F) : WFMesh F = true :=
  decodeFaulty_ok_wf cfg hx bytes p F h

/-- the reader state invariant behind both: it holds between any two chunks -/
theorem chunk_preserves_invariant (cfg : Cfg) (hx : HexOK cfg) (s s' : RState) (st st' : Stream) (hi : RInv s)
    (h : readChunk cfg s st = .ok (s', st')) : RInv s' :=
  (readChunk_safe cfg hx hi st).of_ok h

/-- the kernel call itself: `add_face` (any mesh type, check on or off) with halfedges below `2 * n_edges` makes
    no out-of-range access — what the reader's per-list range test buys, wherever in a chunk the call happens -/
theorem add_face_in_range_safe (cfg : Cfg) (edges : List (Nat × Nat)) (hes : List Nat)
    (h : ∀ x ∈ hes, x < 2 * edges.length) : ∃ b, addFace cfg edges hes = .ok b :=
  addFace_ok cfg h

/-- `add_cell` (any mesh type) with halffaces below `2 * n_faces`, in a mesh whose stored faces only hold halfedges
    below `2 * n_edges` (part of `RInv`), makes no out-of-range access — including the guards of the tet / hex
    overrides (`spanCount`, `noParallel`, and `oppPairsDisjoint` on the list about to be stored, which for a
    re-ordered list is in range only because of `HexOK`) — and the list it stores (possibly re-ordered by the hexahedral kernel) is
    again below `2 * n_faces` -/
theorem add_cell_in_range_safe (cfg : Cfg) (hx : HexOK cfg) (edges : List (Nat × Nat)) (faces : List (List Nat))
    (hfs : List Nat) (hfa : ∀ f ∈ faces, ∀ x ∈ f, x < 2 * edges.length) (h : ∀ x ∈ hfs, x < 2 * faces.length) :
    addCell cfg edges faces hfs ≠ .error .ub ∧
      ∀ l, addCell cfg edges faces hfs = .ok (some l) → ∀ x ∈ l, x < 2 * faces.length :=
  ⟨(addCell_safe cfg hx hfa h).not_ub, fun l hl => (addCell_safe cfg hx hfa h).of_ok hl l rfl⟩

/-- the chunk loop terminates: each successful `read_chunk` strictly decreases `remaining_bytes()` by at least
    the size of a chunk header (Lean accepted `loop` as a total function by exactly this measure) -/
theorem chunk_loop_measure (cfg : Cfg) (s s' : RState) (st st' : Stream) (h : readChunk cfg s st = .ok (s', st')) :
    st'.rem < st.rem := by
  have := readChunk_rem_lt h
  simp only [sizeChunkHeader] at this
  omega

/-- a chunk is never read past what the stream size admits -/
theorem decoder_within_stream {st st' : Stream} {n : Nat} {b : Bytes} (h : st.makeDecoder n = .ok (b, st')) :
    st'.rem = st.rem - n ∧ n ≤ st.rem := makeDecoder_rem h

/-- primitive reads are checked (F3): a buffer shorter than the integer is a parse error, never a read -/
theorem short_int_rejected {k : Nat} {s : Bytes} (h : s.length < k) : uN k s = .error .invalidFile := uN_short h

/-- `n` values decoded ⇒ exactly `n` values, each of the codec's type -/
theorem decoded_values_valid {c : Codec} {n : Nat} {s r : Bytes} {vals : List Bytes}
    (h : decodeN c n s = .ok (vals, r)) : vals.length = n ∧ ∀ v ∈ vals, validVal c v = true := decodeN_ok h

/-! ### the hypothesis `HexOK`: satisfiable, satisfied by the judge's configuration, and necessary -/

/-- a concrete configuration whose ordering step does re-order (it hands back the list it was given) -/
def cfgOf (k : MeshKind) (chk : Bool) : Cfg := ⟨k, chk, fun _ hfs => .reordered hfs⟩

theorem cfgOf_hexOK (k : MeshKind) (chk : Bool) : HexOK (cfgOf k chk) := by
  intro faces hfs l _ _ h
  simp only [cfgOf, HexRes.reordered.injEq] at h
  rw [← h]; exact fun x hx => hx

/-- the configuration the compiled judge compares with the C++ (`OVM.Ovmb.Judge.mkCfg`: the concrete
    `check_halfface_ordering`, `.unmodelled` when it fails) satisfies the hypothesis -/
theorem judge_cfg_hexOK (k : MeshKind) (chk : Bool) : HexOK (Judge.mkCfg k chk) := by
  intro faces hfs l _ _ h
  simp only [Judge.mkCfg, Judge.hexOrderStd] at h
  split at h <;> cases h

/-- so for the judge's configuration both statements hold without hypothesis -/
theorem judge_no_undefined_behaviour (k : MeshKind) (chk : Bool) (bytes : Bytes) :
    decode (Judge.mkCfg k chk) bytes ≠ .error .ub :=
  no_undefined_behaviour _ (judge_cfg_hexOK k chk) bytes

theorem judge_ok_implies_valid_mesh (k : MeshKind) (chk : Bool) (bytes : Bytes) (F : File)
    (h : decode (Judge.mkCfg k chk) bytes = .ok F) : WFMesh F = true :=
  ok_implies_valid_mesh _ (judge_cfg_hexOK k chk) bytes F h

def okOf (r : R File) : Option File := match r with | .ok F => some F | .error _ => none
def errOf (r : R File) : Option RErr := match r with | .ok _ => none | .error e => some e

def i32 : Codec := ⟨[105, 51, 50], .fixed, 4⟩

/-- the unit cube as one hexahedron, with an `int` vertex property -/
def cubeF : File :=
  { topo := topoTypeHexahedral,
    pos := [[0,0,0],[1,0,0],[1,1,0],[0,1,0],[0,0,1],[1,0,1],[1,1,1],[0,1,1]].map
             (fun p => p.map (fun x => x * 4607182418800017408)),
    edges := [(0,1),(1,2),(2,3),(3,0),(4,5),(5,6),(6,7),(7,4),(0,4),(1,5),(2,6),(3,7)],
    faces := [[0,2,4,6],[8,10,12,14],[0,18,9,17],[2,20,11,19],[4,22,13,21],[6,16,15,23]],
    cells := [[1,2,10,6,8,4]],
    props := [⟨propertyEntityVertex, [119], i32, [0,0,0,0],
               [[1,0,0,0],[2,0,0,0],[3,0,0,0],[4,0,0,0],[5,0,0,0],[6,0,0,0],[7,0,0,0],[8,0,0,0]]⟩] }

set_option maxRecDepth 100000

/- non-vacuity of `ok_implies_valid_mesh`: the 568 bytes the writer model emits for the cube are read
   successfully into a hexahedral, a polyhedral mesh (topology check on) … -/
example : okOf (decode (cfgOf .hex true) (encode cubeF)) = some cubeF
    ∧ okOf (decode (cfgOf .poly true) (encode cubeF)) = some cubeF
    ∧ okOf (decode (Judge.mkCfg .hex true) (encode cubeF)) = some cubeF
    ∧ WFMesh cubeF = true :=
  ⟨by decide +kernel, by decide +kernel, by decide +kernel, by decide +kernel⟩

/- … and through a stream that fails before the end the result is an error other than `.ub`
   (non-vacuity of `no_undefined_behaviour_faulty`; 420 = inside the face chunk) -/
example : errOf (decodeFaulty (cfgOf .hex true) (encode cubeF) 420) = some (.res .invalidFile) := by decide +kernel

/- the range checks the proof rests on are exercised: a halfface handle one past the end in the cell chunk
   (byte 481: `2` → `12 = 2 * n_faces`) is refused by the reader, not handed to `add_cell` -/
example : errOf (decode (cfgOf .hex true) ((encode cubeF).set 481 12)) = some (.res .invalidFile)
    ∧ ((encode cubeF).drop 480).take 6 = [1, 2, 10, 6, 8, 4] :=
  ⟨by decide +kernel, by decide +kernel⟩

/-- `HexOK` cannot be dropped: an ordering step that invents a halfface (what the hexahedral `add_cell` did
    before b95631b, finding C16-F14) drives the same valid file into an unchecked out-of-range access -/
theorem hexOK_needed :
    errOf (decode ⟨.hex, true, fun _ _ => .reordered [99, 2, 10, 6, 8, 4]⟩ (encode cubeF)) = some .ub := by
  decide +kernel

example : decode ⟨.poly, true, fun _ _ => .asIs⟩ [] = .error (.res .incompatible) :=
  short_header_rejected _ _ (by decide)

end OVM.Props.C07

import OVM.IO.Ovmb.FramingLemmas
/-
  C07, OVMB half.  Subject: `decode` (lean/OVM/IO/Ovmb/Decode.lean), the model of `ovmb_read` with exactly the
  range checks the C++ has; unchecked kernel accesses are the ghost error `.ub`.

  Proved here: termination (the chunk loop is a well-founded recursion on `remaining_bytes()`, every payload
  decoder is structural recursion on a count that is checked against the payload length first), every value the
  reader takes out of a payload is bounded by its encoding.
  NOT yet theorems (statements kept visible; evaluated by the judge on every mutant of the correspondence run):
  `NoUB` (no unchecked out-of-range kernel access for any byte string) and `OkValid` (success ⇒ `WFMesh`).
-/
namespace OVM.Props.C07
open OVM.Ovmb OVM.Gen.Ovmb Dec

def NoUB : Prop := ∀ (cfg : Cfg) (bytes : Bytes), decode cfg bytes ≠ .error .ub
def OkValid : Prop := ∀ (cfg : Cfg) (bytes : Bytes) (F : File), decode cfg bytes = .ok F → WFMesh F = true

/-- the chunk loop terminates: each successful `read_chunk` strictly decreases `remaining_bytes()` by at least
    the size of a chunk header (Lean accepted `loop` as a total function by exactly this measure) -/
theorem chunk_loop_measure (cfg : Cfg) (s s' : RState) (st st' : Stream) (h : readChunk cfg s st = .ok (s', st')) :
    st'.rem < st.rem := by
  have := readChunk_rem_lt h
  simp only [sizeChunkHeader] at this
  omega

/-- a chunk is never read past what the stream size admits -/
theorem decoder_within_stream {st st' : Stream} {n : Nat} {b : Bytes} (h : st.makeDecoder n = .ok (b, st')) :
    st'.rem = st.rem - n ∧ n ≤ st.rem := makeDecoder_rem h

/-- primitive reads are checked (F3): a buffer shorter than the integer is a parse error, never a read -/
theorem short_int_rejected {k : Nat} {s : Bytes} (h : s.length < k) : uN k s = .error .invalidFile := uN_short h

/-- `n` values decoded ⇒ exactly `n` values, each of the codec's type -/
theorem decoded_values_valid {c : Codec} {n : Nat} {s r : Bytes} {vals : List Bytes}
    (h : decodeN c n s = .ok (vals, r)) : vals.length = n ∧ ∀ v ∈ vals, validVal c v = true := decodeN_ok h

example : decode ⟨.poly, true, fun _ _ => .asIs⟩ [] = .error (.res .incompatible) :=
  short_header_rejected _ _ (by decide)

end OVM.Props.C07

import OVM.Status.Model
/-
  C04 (status part) — placeholder while the lemmas are being built.
-/
namespace OVM.Props.C04Status
open OVM OVM.Kernel OVM.Status

/-- the overload without handle containers is the tracking overload with empty containers -/
theorem statusGCPlain_eq (k : Kernel) (man : Bool) :
    statusGCPlain k man = ((markPhase k man).collectGarbage).enableDeferred k.deferred := by
  unfold statusGCPlain statusGC
  simp [Tracked.isEmpty]

end OVM.Props.C04Status

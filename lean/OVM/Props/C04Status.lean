import OVM.Status.Lemmas
import OVM.Status.DeadSetManifold
import OVM.Status.DeadSetLoops
/-
  C04 (status part) — `StatusAttrib::garbage_collection`: status-marked deletion, the
  `_preserveManifoldness` pass, remapping of the tracked handles.
  Model: `OVM/Status/Model.lean` (`statusGC`, mirrors StatusAttribT_impl.hh:45-137 on top of the
  kernel model); specification: `OVM/Status/Spec.lean`; lemmas: `OVM/Status/Lemmas.lean`.

  Proved here, for every state with consistent array lengths (`LenInv`, which C03 proves for every
  history), every set of marks, both values of the manifoldness flag, every deletion mode and
  bottom-up configuration, every list of tracked handles:
  * index algebra (no hypothesis at all): the `new_*[old_*[h]] = h` loop applied to an index column
    that went through a sequence of single deletions yields exactly the composition of the
    per-deletion index maps, without any out-of-range write; that composition is injective on the
    survivors, onto the new slots, and every column that went through the same deletions is
    carried along it; half-entity handles follow their parents side-preservingly;
  * `collect_garbage` (all four sweeps, fast or not) changes the six property storages by one such
    sequence per entity kind, every operation addressing an existing slot, and the entity counts
    follow; nothing is pending afterwards;
  * the mark phase (marked deletions, manifoldness pass) runs entirely in deferred mode: no
    property value and no entity slot moves;
  * hence (`tracked_*`): there is one renumbering `ρ` per kind — injective on survivors, onto the
    slots of the result — such that *every* property column (identity tokens, status bits, user
    data) of a surviving entity is found at `ρ` of its old slot, and every tracked handle `h` comes
    back as `ρ h`, or as the invalid handle exactly when `ρ h` is undefined (the slot was erased
    by one of the single deletions); an invalid handle stays invalid; halfedge / halfface handles
    keep their side and follow the edge / face renumbering;
  * the specification's manifoldness clause is exact and stable (`Spec` lemmas).
  NOT proved (evaluated on every call of the correspondence run instead, see `FullStatement`):
  that the set of erased slots is exactly the specification's `dead*` set (that needs the cache
  invariant of C01 across the deferred deletions), and the commutation of the *definitions*
  with `ρ` (that is the open rung of C04 for `collect_garbage` itself).
-/
namespace OVM.Props.C04Status
open OVM OVM.Kernel OVM.Status

/-! ### index algebra -/

/-- the tracked-handle table built by the C++ is the composition of the per-deletion index maps,
    and the scatter loop writes only inside the table -/
theorem remap_table_is_composition (ops : List IdxOp) (n : Nat) (h : okOps ops n) :
    scatter n ((runOps ops (List.range n)).map Int.ofNat) = ((List.range n).map (fwdOps ops), false) :=
  scatter_runOps ops n h

theorem composition_append (a b : List IdxOp) (i : Nat) : fwdOps (a ++ b) i = (fwdOps a i).bind (fwdOps b) :=
  fwdOps_append a b i

theorem composition_injective_on_survivors (ops : List IdxOp) (n i i' j : Nat) (h : okOps ops n) (hi : i < n) (hi' : i' < n)
    (hf : fwdOps ops i = some j) (hf' : fwdOps ops i' = some j) : i = i' :=
  fwdOps_injective ops n i i' j h hi hi' hf hf'

theorem composition_onto_new_slots (ops : List IdxOp) (n j : Nat) (h : okOps ops n) (hj : j < lenOps ops n) :
    ∃ i, i < n ∧ fwdOps ops i = some j :=
  ⟨preOps ops j, preOps_lt ops n j h hj, fwdOps_preOps ops n j h hj⟩

theorem survivors_land_in_range (ops : List IdxOp) (n i j : Nat) (h : okOps ops n) (hi : i < n) (hf : fwdOps ops i = some j) :
    j < lenOps ops n :=
  (preOps_fwdOps ops n i j h hi hf).1

theorem columns_carried_along_composition {α} (ops : List IdxOp) (l : List α) (h : okOps ops l.length) (i j : Nat)
    (hi : i < l.length) (hf : fwdOps ops i = some j) : (runOps ops l)[j]? = l[i]? :=
  runOps_transport ops l h i j hi hf

theorem half_handles_keep_their_side (ops : List IdxOp) (i s : Nat) (hs : s ≤ 1) :
    fwdOps (halfOps ops) (2 * i + s) = (fwdOps ops i).map (fun m => 2 * m + s) :=
  halfOps_fwd ops i s hs

example : fwdOps [IdxOp.swap 1 3, IdxOp.erase 3, IdxOp.erase 0] 3 = some 0 ∧
          fwdOps [IdxOp.swap 1 3, IdxOp.erase 3, IdxOp.erase 0] 1 = none ∧
          runOps [IdxOp.swap 1 3, IdxOp.erase 3, IdxOp.erase 0] [10, 11, 12, 13] = [13, 12] ∧
          okOps [IdxOp.swap 1 3, IdxOp.erase 3, IdxOp.erase 0] 4 := by
  refine ⟨by decide, by decide, by decide, ?_⟩
  simp [okOps, IdxOp.ok, IdxOp.len]

/-! ### the kernel's collection and the mark phase -/

theorem collectGarbage_moves_columns_uniformly (k : Kernel) (hi : LenInv k) :
    ∃ L : Log, k.collectGarbage.props = L.apply k.props ∧
      okOps L.v k.nV ∧ okOps L.e k.nE ∧ okOps L.f k.nF ∧ okOps L.c k.nC ∧
      k.collectGarbage.nV = lenOps L.v k.nV ∧ k.collectGarbage.nE = lenOps L.e k.nE ∧
      k.collectGarbage.nF = lenOps L.f k.nF ∧ k.collectGarbage.nC = lenOps L.c k.nC := by
  obtain ⟨L, t⟩ := collectGarbage_trans k hi
  exact ⟨L, t.props, t.okV, t.okE, t.okF, t.okC, t.nV, t.nE, t.nF, t.nC⟩

theorem nothing_pending_after_collection (k : Kernel) (hd : k.deferred = true) :
    k.collectGarbage.needsGC = false ∧ k.collectGarbage.deferred = true :=
  collectGarbage_clean k hd

/-- marked deletions and the manifoldness pass only set flags and unlink caches -/
theorem markPhase_moves_nothing (k : Kernel) (man : Bool) (hi : LenInv k) :
    (markPhase k man).props = k.props ∧ (markPhase k man).nV = k.nV ∧ (markPhase k man).edges = k.edges ∧
    (markPhase k man).faces = k.faces ∧ (markPhase k man).cells = k.cells ∧ (markPhase k man).deferred = true ∧
    LenInv (markPhase k man) := by
  have q := markPhase_Q k man hi
  exact ⟨q.props, q.nV, q.edges, q.faces, q.cells, q.dfr, q.len⟩

/-- the overload without handle containers is the tracking overload with empty containers:
    mark phase, `collect_garbage`, restore the deferred flag -/
theorem statusGCPlain_eq (k : Kernel) (man : Bool) :
    statusGCPlain k man = ((markPhase k man).collectGarbage).enableDeferred k.deferred := by
  unfold statusGCPlain statusGC
  simp [Tracked.isEmpty]

/-! ### tracked handles -/

/-- one entity kind: `n` old slots, the single deletions `ops`, the columns `cs` of that kind -/
theorem kind_facts (ops : List IdxOp) (n : Nat) (ok : okOps ops n) (cs : List Col) (hlen : ColsLen cs n) (tt : List Int) :
    (∀ i i' j, i < n → i' < n → fwdOps ops i = some j → fwdOps ops i' = some j → i = i') ∧
    (∀ j, j < lenOps ops n → ∃ i, i < n ∧ fwdOps ops i = some j) ∧
    (∀ c ∈ cs, ∀ i j, i < n → fwdOps ops i = some j → (Col.runOps ops c).vals[j]? = c.vals[i]?) ∧
    tt.map (remapFn ((List.range n).map (fwdOps ops))) =
      tt.map (fun h => if h < 0 then h else if h.toNat ≥ n then h else Spec.optInt (fwdOps ops h.toNat)) := by
  refine ⟨fun i i' j hi hi' a b => fwdOps_injective ops n i i' j ok hi hi' a b,
          fun j hj => ⟨preOps ops j, preOps_lt ops n j ok hj, fwdOps_preOps ops n j ok hj⟩, ?_, ?_⟩
  · intro c hc i j hi hf
    have hl := hlen c hc
    exact runOps_transport ops c.vals (by rw [hl]; exact ok) i j (by rw [hl]; exact hi) hf
  · apply List.map_congr_left
    intro h _
    unfold remapFn
    by_cases h1 : h < 0
    · simp [h1]
    · by_cases h2 : h.toNat ≥ n
      · simp [h1, h2]
      · have h3 : h.toNat < n := by omega
        simp [h1, h2, List.getD, List.getElem?_range h3]

/-- **Vertices.**  There is a renumbering `ρ` of the vertices of `k` — injective on the survivors,
    onto the vertex slots of the result — along which every vertex property column is carried and
    which every tracked vertex handle follows; a handle comes back invalid exactly when `ρ` is
    undefined there (slot erased) or it was invalid. -/
theorem tracked_vertex_handles (k : Kernel) (man : Bool) (t : Tracked) (hne : t.isEmpty = false)
    (hi : LenInv k) (hfr : Fresh k) :
    ∃ ρ : Nat → Option Nat,
      (∀ i i' j, i < k.nV → i' < k.nV → ρ i = some j → ρ i' = some j → i = i') ∧
      (∀ j, j < (statusGC k man t).k.nV → ∃ i, i < k.nV ∧ ρ i = some j) ∧
      (∀ c ∈ k.props.v, ∃ c' ∈ (statusGC k man t).k.props.v, c'.key = c.key ∧ c'.dflt = c.dflt ∧
          ∀ i j, i < k.nV → ρ i = some j → c'.vals[j]? = c.vals[i]?) ∧
      (statusGC k man t).t.v =
        t.v.map (fun h => if h < 0 then h else if h.toNat ≥ k.nV then h else Spec.optInt (ρ h.toNat)) := by
  have q := markPhase_Q k man hi
  have hfr' : Fresh (markPhase k man) := by unfold Fresh; rw [q.props]; exact hfr
  obtain ⟨L, f⟩ := statusGC_tracking k man t hne q.len hfr' q.dfr
  have kf := kind_facts L.v (markPhase k man).nV f.okV (markPhase k man).props.v q.len.pv t.v
  rw [q.nV, q.props] at kf
  refine ⟨fwdOps L.v, kf.1, ?_, ?_, ?_⟩
  · intro j hj; rw [f.nV, q.nV] at hj; exact kf.2.1 j hj
  · intro c hc
    refine ⟨Col.runOps L.v c, ?_, rfl, rfl, kf.2.2.1 c hc⟩
    rw [f.props, q.props]; exact List.mem_map.2 ⟨c, hc, rfl⟩
  · rw [f.tv, f.newV, q.nV]; exact kf.2.2.2

/-- **Cells.** -/
theorem tracked_cell_handles (k : Kernel) (man : Bool) (t : Tracked) (hne : t.isEmpty = false)
    (hi : LenInv k) (hfr : Fresh k) :
    ∃ ρ : Nat → Option Nat,
      (∀ i i' j, i < k.nC → i' < k.nC → ρ i = some j → ρ i' = some j → i = i') ∧
      (∀ j, j < (statusGC k man t).k.nC → ∃ i, i < k.nC ∧ ρ i = some j) ∧
      (∀ c ∈ k.props.c, ∃ c' ∈ (statusGC k man t).k.props.c, c'.key = c.key ∧ c'.dflt = c.dflt ∧
          ∀ i j, i < k.nC → ρ i = some j → c'.vals[j]? = c.vals[i]?) ∧
      (statusGC k man t).t.c =
        t.c.map (fun h => if h < 0 then h else if h.toNat ≥ k.nC then h else Spec.optInt (ρ h.toNat)) := by
  have q := markPhase_Q k man hi
  have hfr' : Fresh (markPhase k man) := by unfold Fresh; rw [q.props]; exact hfr
  obtain ⟨L, f⟩ := statusGC_tracking k man t hne q.len hfr' q.dfr
  have ok := f.okC; have hn := f.nC; have hnew := f.newC; have hl := q.len.pc
  rw [q.nC] at ok hn hnew hl
  rw [q.props] at hl
  have kf := kind_facts L.c k.nC ok k.props.c hl t.c
  refine ⟨fwdOps L.c, kf.1, ?_, ?_, ?_⟩
  · intro j hj; rw [hn] at hj; exact kf.2.1 j hj
  · intro c hc
    refine ⟨Col.runOps L.c c, ?_, rfl, rfl, kf.2.2.1 c hc⟩
    rw [f.props, q.props]; exact List.mem_map.2 ⟨c, hc, rfl⟩
  · rw [f.tc, hnew]; exact kf.2.2.2

/-- **Halfedges.**  The halfedge renumbering is the edge renumbering `ρ` with the side kept; every
    edge column *and* every halfedge column is carried; tracked halfedge handles follow it. -/
theorem tracked_halfedge_handles (k : Kernel) (man : Bool) (t : Tracked) (hne : t.isEmpty = false)
    (hi : LenInv k) (hfr : Fresh k) :
    ∃ (ρ : Nat → Option Nat) (ρh : Nat → Option Nat),
      (∀ e s, s ≤ 1 → ρh (2 * e + s) = (ρ e).map (fun e' => 2 * e' + s)) ∧
      (∀ i i' j, i < k.nE → i' < k.nE → ρ i = some j → ρ i' = some j → i = i') ∧
      (∀ j, j < (statusGC k man t).k.nE → ∃ i, i < k.nE ∧ ρ i = some j) ∧
      (∀ c ∈ k.props.e, ∃ c' ∈ (statusGC k man t).k.props.e, c'.key = c.key ∧ c'.dflt = c.dflt ∧
          ∀ i j, i < k.nE → ρ i = some j → c'.vals[j]? = c.vals[i]?) ∧
      (∀ c ∈ k.props.he, ∃ c' ∈ (statusGC k man t).k.props.he, c'.key = c.key ∧ c'.dflt = c.dflt ∧
          ∀ i j, i < k.nHE → ρh i = some j → c'.vals[j]? = c.vals[i]?) ∧
      (statusGC k man t).t.he =
        t.he.map (fun h => if h < 0 then h else if h.toNat ≥ k.nHE then h else Spec.optInt (ρh h.toNat)) := by
  have q := markPhase_Q k man hi
  have hfr' : Fresh (markPhase k man) := by unfold Fresh; rw [q.props]; exact hfr
  obtain ⟨L, f⟩ := statusGC_tracking k man t hne q.len hfr' q.dfr
  have ok := f.okE; have hn := f.nE; have hnew := f.newHE; have hl := q.len.pe; have hlh := q.len.phe
  rw [q.nE] at ok hn hl
  rw [q.nHE] at hnew hlh
  rw [q.props] at hl hlh
  have kf := kind_facts L.e k.nE ok k.props.e hl []
  have okh := halfOps_ok L.e k.nE ok
  have kh := kind_facts (halfOps L.e) k.nHE okh.1 k.props.he hlh t.he
  refine ⟨fwdOps L.e, fwdOps (halfOps L.e), fun e s hs => halfOps_fwd L.e e s hs, kf.1, ?_, ?_, ?_, ?_⟩
  · intro j hj; rw [hn] at hj; exact kf.2.1 j hj
  · intro c hc
    refine ⟨Col.runOps L.e c, ?_, rfl, rfl, kf.2.2.1 c hc⟩
    rw [f.props, q.props]; exact List.mem_map.2 ⟨c, hc, rfl⟩
  · intro c hc
    refine ⟨Col.runOps (halfOps L.e) c, ?_, rfl, rfl, kh.2.2.1 c hc⟩
    rw [f.props, q.props]; exact List.mem_map.2 ⟨c, hc, rfl⟩
  · rw [f.the, hnew]; exact kh.2.2.2

/-- **Halffaces.** -/
theorem tracked_halfface_handles (k : Kernel) (man : Bool) (t : Tracked) (hne : t.isEmpty = false)
    (hi : LenInv k) (hfr : Fresh k) :
    ∃ (ρ : Nat → Option Nat) (ρh : Nat → Option Nat),
      (∀ f s, s ≤ 1 → ρh (2 * f + s) = (ρ f).map (fun f' => 2 * f' + s)) ∧
      (∀ i i' j, i < k.nF → i' < k.nF → ρ i = some j → ρ i' = some j → i = i') ∧
      (∀ j, j < (statusGC k man t).k.nF → ∃ i, i < k.nF ∧ ρ i = some j) ∧
      (∀ c ∈ k.props.f, ∃ c' ∈ (statusGC k man t).k.props.f, c'.key = c.key ∧ c'.dflt = c.dflt ∧
          ∀ i j, i < k.nF → ρ i = some j → c'.vals[j]? = c.vals[i]?) ∧
      (∀ c ∈ k.props.hf, ∃ c' ∈ (statusGC k man t).k.props.hf, c'.key = c.key ∧ c'.dflt = c.dflt ∧
          ∀ i j, i < k.nHF → ρh i = some j → c'.vals[j]? = c.vals[i]?) ∧
      (statusGC k man t).t.hf =
        t.hf.map (fun h => if h < 0 then h else if h.toNat ≥ k.nHF then h else Spec.optInt (ρh h.toNat)) := by
  have q := markPhase_Q k man hi
  have hfr' : Fresh (markPhase k man) := by unfold Fresh; rw [q.props]; exact hfr
  obtain ⟨L, f⟩ := statusGC_tracking k man t hne q.len hfr' q.dfr
  have ok := f.okF; have hn := f.nF; have hnew := f.newHF; have hl := q.len.pf; have hlh := q.len.phf
  rw [q.nF] at ok hn hl
  rw [q.nHF] at hnew hlh
  rw [q.props] at hl hlh
  have kf := kind_facts L.f k.nF ok k.props.f hl []
  have okh := halfOps_ok L.f k.nF ok
  have kh := kind_facts (halfOps L.f) k.nHF okh.1 k.props.hf hlh t.hf
  refine ⟨fwdOps L.f, fwdOps (halfOps L.f), fun e s hs => halfOps_fwd L.f e s hs, kf.1, ?_, ?_, ?_, ?_⟩
  · intro j hj; rw [hn] at hj; exact kf.2.1 j hj
  · intro c hc
    refine ⟨Col.runOps L.f c, ?_, rfl, rfl, kf.2.2.1 c hc⟩
    rw [f.props, q.props]; exact List.mem_map.2 ⟨c, hc, rfl⟩
  · intro c hc
    refine ⟨Col.runOps (halfOps L.f) c, ?_, rfl, rfl, kh.2.2.1 c hc⟩
    rw [f.props, q.props]; exact List.mem_map.2 ⟨c, hc, rfl⟩
  · rw [f.thf, hnew]; exact kh.2.2.2

/-- nothing is pending after the call, whatever the deferred flag was -/
theorem nothing_pending_after_statusGC (k : Kernel) (man : Bool) (t : Tracked) (hne : t.isEmpty = false)
    (hi : LenInv k) (hfr : Fresh k) : (statusGC k man t).k.needsGC = false := by
  have q := markPhase_Q k man hi
  have hfr' : Fresh (markPhase k man) := by unfold Fresh; rw [q.props]; exact hfr
  obtain ⟨L, f⟩ := statusGC_tracking k man t hne q.len hfr' q.dfr
  exact f.clean

/-! ### non-vacuity: a concrete state satisfying the hypotheses, both flags -/

/-- three vertices, the edge (0,2), vertex 1 marked; identity tokens 7 8 9 / 5 -/
def exK : Kernel :=
  { nV := 3, vDel := [false, false, false], edges := [(0, 2)], eDel := [false],
    vBU := false, eBU := false, fBU := false, deferred := false, fast := true,
    props := { v := [{ key := "idv", dflt := 0, vals := [7, 8, 9] }, { key := "vertex_status", dflt := 0, vals := [0, 1, 4] }],
               e := [{ key := "ide", dflt := 0, vals := [5] }],
               he := [{ key := "w", dflt := 0, vals := [50, 51] }] } }

example : LenInv exK ∧ Fresh exK := by
  refine ⟨?_, ?_⟩
  · constructor <;> simp [exK, nE, nF, nC, nHE, nHF, ColsLen]
  · simp [Fresh, exK, tmpV, tmpHE, tmpHF, tmpC]

/-- fast deletion: the last vertex is swapped into the hole; the tracked handles follow, the
    marked vertex and the invalid handle come back invalid; tokens and status bits travel along -/
example :
    let r := statusGC exK false { v := [0, 1, 2, -1, 2], he := [1] }
    r.t.v = [0, -1, 1, -1, 1] ∧ r.t.he = [1] ∧ r.k.nV = 2 ∧ r.k.edges = [(0, 1)] ∧ r.k.needsGC = false ∧
    r.k.deferred = false ∧ r.k.fault = false ∧
    r.k.props.v = [{ key := "idv", dflt := 0, vals := [7, 9] }, { key := "vertex_status", dflt := 0, vals := [0, 4] }] ∧
    r.newV = [some 0, none, some 1] := by decide +kernel

/-- the manifoldness option: nothing bounds a cell here, so everything goes (and all incidence kinds
    are switched on) -/
example :
    let r := statusGC exK true { v := [0], he := [0] }
    r.t.v = [-1] ∧ r.t.he = [-1] ∧ r.k.nV = 0 ∧ r.k.edges = [] ∧ r.k.vBU = true ∧ r.k.eBU = true ∧ r.k.fBU = true := by
  decide +kernel

/-- the specification holds of the model's result on this state (what the judge evaluates per call) -/
example :
    let t : Tracked := { v := [0, 1, 2, -1, 2], he := [1] }
    let r := statusGC exK false t
    Holds exK (marksOf exK) false t r.k r.t
      { v := r.newV, e := [r.newHE.getD 0 none |>.map (· / 2)], f := [], c := [] } := by decide +kernel

/-! ### the specification's clauses (`OVM/Status/Spec.lean`) -/

/-- upward closure: a removed vertex removes its edges, a removed edge its faces, a removed face
    its cells -/
theorem dead_is_upward_closed (k : Kernel) (mk : Marks) :
    (∀ e v, Spec.vertInEdge k e v = true → Spec.deadV k mk v = true → Spec.deadE k mk e = true) ∧
    (∀ f e, Spec.edgeInFace k f e = true → Spec.deadE k mk e = true → Spec.deadF k mk f = true) ∧
    (∀ c f, Spec.faceInCell k c f = true → Spec.deadF k mk f = true → Spec.deadC k mk c = true) := by
  refine ⟨?_, ?_, ?_⟩
  · intro e v hin hd
    simp only [Spec.vertInEdge, Bool.or_eq_true, beq_iff_eq] at hin
    unfold Spec.deadE
    rcases hin with h | h <;> simp [h, hd]
  · intro f e hin hd
    simp only [Spec.edgeInFace, List.any_eq_true, beq_iff_eq] at hin
    obtain ⟨h, hh, he⟩ := hin
    unfold Spec.deadF
    simp only [Bool.or_eq_true, List.any_eq_true]
    exact Or.inr ⟨h, hh, by rw [he]; exact hd⟩
  · intro c f hin hd
    simp only [Spec.faceInCell, List.any_eq_true, beq_iff_eq] at hin
    obtain ⟨h, hh, he⟩ := hin
    unfold Spec.deadC
    simp only [Bool.or_eq_true, List.any_eq_true]
    exact Or.inr ⟨h, hh, by rw [he]; exact hd⟩

/-- with the option, *exactly* the not-removed faces / edges / vertices that bound a surviving
    cell / face / edge survive; without it, exactly the not-removed ones -/
theorem manifold_clause_exact (k : Kernel) (mk : Marks) :
    (∀ f, Spec.keepF k mk true f = true ↔
        (Spec.keepF k mk false f = true ∧ ∃ c, c < k.nC ∧ Spec.keepC k mk c = true ∧ Spec.faceInCell k c f = true)) ∧
    (∀ e, Spec.keepE k mk true e = true ↔
        (Spec.keepE k mk false e = true ∧ ∃ f, f < k.nF ∧ Spec.keepF k mk true f = true ∧ Spec.edgeInFace k f e = true)) ∧
    (∀ v, Spec.keepV k mk true v = true ↔
        (Spec.keepV k mk false v = true ∧ ∃ e, e < k.nE ∧ Spec.keepE k mk true e = true ∧ Spec.vertInEdge k e v = true)) := by
  refine ⟨?_, ?_, ?_⟩
  · intro f
    simp only [Spec.keepF, Bool.and_eq_true, Bool.not_true, Bool.false_or, Bool.not_false, Bool.true_or,
      List.any_eq_true, List.mem_range, and_true, decide_eq_true_eq]
  · intro e
    simp only [Spec.keepE, Bool.and_eq_true, Bool.not_true, Bool.false_or, Bool.not_false, Bool.true_or,
      List.any_eq_true, List.mem_range, and_true, decide_eq_true_eq]
  · intro v
    simp only [Spec.keepV, Bool.and_eq_true, Bool.not_true, Bool.false_or, Bool.not_false, Bool.true_or,
      List.any_eq_true, List.mem_range, and_true, decide_eq_true_eq]

/-- the survivors form a sub-mesh: a surviving cell keeps all its faces, a surviving face all its
    edges, a surviving edge both its vertices (for definitions whose handles are in range) -/
theorem survivors_are_closed_downward (k : Kernel) (mk : Marks) (man : Bool) :
    (∀ c f, Spec.keepC k mk c = true → Spec.faceInCell k c f = true → f < k.nF → Spec.keepF k mk man f = true) ∧
    (∀ f e, Spec.keepF k mk man f = true → Spec.edgeInFace k f e = true → e < k.nE → Spec.keepE k mk man e = true) ∧
    (∀ e v, Spec.keepE k mk man e = true → Spec.vertInEdge k e v = true → v < k.nV → Spec.keepV k mk man v = true) := by
  have up := dead_is_upward_closed k mk
  refine ⟨?_, ?_, ?_⟩
  · intro c f hc hin hf
    have hc' := hc
    simp only [Spec.keepC, Bool.and_eq_true, decide_eq_true_eq, Bool.not_eq_true'] at hc
    have nd : Spec.deadF k mk f = false := by
      cases h : Spec.deadF k mk f
      · rfl
      · rw [up.2.2 c f hin h] at hc; exact absurd hc.2 (by simp)
    simp only [Spec.keepF, Bool.and_eq_true, decide_eq_true_eq, nd, Bool.not_false, true_and, hf, Bool.or_eq_true,
      Bool.not_eq_true', List.any_eq_true, List.mem_range]
    exact Or.inr ⟨c, hc.1, by rw [hc']; simpa using hin⟩
  · intro f e hk hin he
    have hk' := hk
    simp only [Spec.keepF, Bool.and_eq_true, decide_eq_true_eq, Bool.not_eq_true'] at hk
    have nd : Spec.deadE k mk e = false := by
      cases h : Spec.deadE k mk e
      · rfl
      · rw [up.2.1 f e hin h] at hk; exact absurd hk.1.2 (by simp)
    simp only [Spec.keepE, Bool.and_eq_true, decide_eq_true_eq, nd, Bool.not_false, true_and, he, Bool.or_eq_true,
      Bool.not_eq_true', List.any_eq_true, List.mem_range]
    exact Or.inr ⟨f, hk.1.1, by rw [hk']; simpa using hin⟩
  · intro e v hk hin hv
    have hk' := hk
    simp only [Spec.keepE, Bool.and_eq_true, decide_eq_true_eq, Bool.not_eq_true'] at hk
    have nd : Spec.deadV k mk v = false := by
      cases h : Spec.deadV k mk v
      · rfl
      · rw [up.1 e v hin h] at hk; exact absurd hk.1.2 (by simp)
    simp only [Spec.keepV, Bool.and_eq_true, decide_eq_true_eq, nd, Bool.not_false, true_and, hv, Bool.or_eq_true,
      Bool.not_eq_true', List.any_eq_true, List.mem_range]
    exact Or.inr ⟨e, hk.1.1, by rw [hk']; simpa using hin⟩

/-- What remains for the full property on the model (evaluated on every call of the correspondence
    run by the judge, `STAT dyn_model_spec_evaluated`, not proved): the model's result satisfies the
    specification with the renumbering it computed itself, for every state whose array lengths and
    incidence caches are consistent (and whose definitions only mention existing handles). -/
def FullStatement : Prop :=
  ∀ (k : Kernel) (man : Bool) (t : Tracked), LenInv k → CacheInv k → Fresh k → t.isEmpty = false →
    let r := statusGC k man t
    Holds k (marksOf k) man t r.k r.t
      { v := r.newV, e := (List.range k.nE).map (fun e => (r.newHE.getD (2 * e) none).map (· / 2)),
        f := (List.range k.nF).map (fun f => (r.newHF.getD (2 * f) none).map (· / 2)), c := r.newC }

end OVM.Props.C04Status

/-! ======================= appended by builder (the erased slots are exactly the dead set) ======================= -/
namespace OVM.Props.C04Status
open OVM OVM.Kernel OVM.Status
open OVM.Kernel.Logical (LogMinus LogIso Ren Rem)

/-! ------------------------------------------------------------------------------------------
    `LogMinus k k' ρ S` (OVM/Refine/Logical.lean): the logical mesh of `k'` is the logical mesh of `k` minus the set `S`,
    renumbered by `ρ` — per kind `ρ` is a bijection from the live slots of `k` outside `S` onto the live slots of `k'`,
    every surviving definition is found at the new handle with all handles renamed, every property column (status
    columns included) holds at the new handle what it held at the old one.
    `deadRem k mk man` (OVM/Status/DeadSet.lean) is the complement of `Spec.keepV/E/F/C k mk man` (OVM/Status/Spec.lean),
    a decidable function of the start state, the `deleted()` bits `mk = marksOf k` of the four status columns and the flag:
      dead vertex : already deleted, or marked;
      dead edge   : already deleted, or marked, or one of its two end vertices is dead;
      dead face   : already deleted, or marked, or the edge of one of its halfedges is dead;
      dead cell   : already deleted, or marked, or the face of one of its halffaces is dead;
      kept (flag off): in range and not dead;
      kept (flag on) : additionally a face must bound a kept cell, an edge a kept face, a vertex a kept edge — ALL
                       such entities go, not only those next to something deleted (impl.hh:81-98 loops over all faces,
                       edges, vertices).
    Hypotheses: `Global.GInv k` — the reachability invariant of C01 (`reach_inv`: every state a history of valid calls
    produces; it contains `LenInv`: every status column has one slot per entity, so the mark vector `marksOf k` has the
    length of the entity count by construction); `Fresh k` — no user column carries the name the model gives to the
    anonymous temporary index properties of the tracking overload (a modelling device).
    ------------------------------------------------------------------------------------------ -/

/-- **`StatusAttrib::garbage_collection` without `_preserveManifoldness` erases exactly the specified dead set**, both
    overloads (`statusGC … t` with tracked handles `t`; `statusGCPlain` = the overload without containers), from any
    deletion mode, either deletion style, any bottom-up configuration, with or without deletions already pending: the
    logical mesh of the result is the logical mesh of the start state minus `deadRem k (marksOf k) false`, read through
    a renumbering `ρ`. -/
theorem status_gc_removes_exactly_the_dead_set (k : Kernel) (hi : Global.GInv k) (hfr : Fresh k) (t : Tracked) :
    (∃ ρ, LogMinus k (statusGC k false t).k ρ (deadRem k (marksOf k) false)) ∧
    (∃ ρ, LogMinus k (statusGCPlain k false) ρ (deadRem k (marksOf k) false)) :=
  ⟨statusGC_dead_noMan hi hfr t, statusGC_dead_noMan hi hfr {}⟩

/-- the mark loops themselves (deferred mode on): they are ONE deferred run of the marked entities (`runDef`,
    OVM/Refine/LogicalDeleteList.lean) — vertices, edges, faces, cells, each kind ascending —, flag exactly the dead set
    and move nothing (`ρ = id`) -/
theorem mark_loops_flag_exactly_the_dead_set (k : Kernel) (hi : Global.GInv k) (hd : k.deferred = true) :
    markedCells (markedFaces (markedEdges (markedVerts k))) = Logical.runDef k (markReqs k) ∧
    LogMinus k (markedCells (markedFaces (markedEdges (markedVerts k)))) Ren.id (deadRem k (marksOf k) false) :=
  ⟨(mark4_eq k hd hi.wf.len).1, (mark4_logMinus hi hd).1⟩

/-- **with `_preserveManifoldness`**, `_partial`: everything except the three manifoldness loops.  The state `kb` handed
    to the loops is the start mesh minus the dead set (nothing renumbered), satisfies the invariant, is in deferred mode
    with all three incidence kinds enabled; the loops keep the invariant (every deletion they make is of a live entity);
    the result of `statusGC` (either overload) has the logical mesh of the state the loops leave.
    The loops themselves are `manifold_loops_erase_exactly_the_unbounding` below, and the full statement is
    `status_gc_removes_exactly_the_dead_set_manifold`; this theorem is kept as the frame both are built on (`_partial`
    only in that it says nothing about what the loops remove). -/
theorem status_gc_manifold_partial (k : Kernel) (hi : Global.GInv k) (hfr : Fresh k) (t : Tracked) :
    ∃ kb, markPhase k true = manifoldVerts (manifoldEdges (manifoldFaces kb)) ∧
      LogMinus k kb Ren.id (deadRem k (marksOf k) false) ∧ Global.GInv kb ∧ kb.deferred = true ∧
      kb.vBU = true ∧ kb.eBU = true ∧ kb.fBU = true ∧
      Global.GInv (markPhase k true) ∧ ∃ ρ, LogIso (markPhase k true) (statusGC k true t).k ρ :=
  statusGC_man_frame hi hfr t

/-! non-vacuity -/

/-- a tetrahedron whose face 2 has status "deleted": the hypotheses hold; the dead set is face 2 and the cell; the result
    has the three other faces, all six edges and four vertices, and the status column lost the marked slot (the
    evaluations are a TEST next to the theorem) -/
example : Global.GInv tetSt ∧ Fresh tetSt ∧
    (∃ ρ, LogMinus tetSt (statusGCPlain tetSt false) ρ (deadRem tetSt (marksOf tetSt) false)) ∧
    (List.range 4).map (Spec.keepF tetSt (marksOf tetSt) false) = [true, true, false, true] ∧
    Spec.keepC tetSt (marksOf tetSt) 0 = false ∧
    (statusGCPlain tetSt false).faces = [[0, 2, 4], [6, 8, 1], [5, 11, 7]] ∧ (statusGCPlain tetSt false).cells = [] ∧
    (statusGCPlain tetSt false).nV = 4 ∧ (statusGCPlain tetSt false).edges.length = 6 ∧
    (statusGCPlain tetSt false).props.f = [{ key := "face_status", dflt := 0, vals := [0, 0, 0] }] := by
  refine ⟨ginv_tetSt, fresh_tetSt, (status_gc_removes_exactly_the_dead_set tetSt ginv_tetSt fresh_tetSt {}).2, ?_, ?_, ?_,
    ?_, ?_, ?_, ?_⟩ <;> decide +kernel

/-- two tetrahedra sharing a face, the second cell marked: without the option only the cell goes (theorem + TEST); with
    the option the three faces, three edges and the vertex that only the second cell used go too — the specification
    `Spec.keep*` and the model agree (TEST by evaluation; the `true` case is the `_partial` theorem above) -/
example : Global.GInv twoTetSt ∧ Fresh twoTetSt ∧
    (∃ ρ, LogMinus twoTetSt (statusGCPlain twoTetSt false) ρ (deadRem twoTetSt (marksOf twoTetSt) false)) ∧
    (statusGCPlain twoTetSt false).cells = [[1, 3, 5, 7]] ∧ (statusGCPlain twoTetSt false).faces.length = 7 ∧
    (List.range 7).map (Spec.keepF twoTetSt (marksOf twoTetSt) true) = [true, true, true, true, false, false, false] ∧
    (List.range 9).map (Spec.keepE twoTetSt (marksOf twoTetSt) true) =
      [true, true, true, true, true, true, false, false, false] ∧
    (List.range 5).map (Spec.keepV twoTetSt (marksOf twoTetSt) true) = [true, true, true, true, false] ∧
    (statusGCPlain twoTetSt true).cells = [[1, 3, 5, 7]] ∧
    (statusGCPlain twoTetSt true).faces = [[0, 2, 4], [6, 8, 1], [9, 10, 3], [5, 11, 7]] ∧
    (statusGCPlain twoTetSt true).edges = [(0, 1), (1, 2), (2, 0), (0, 3), (3, 1), (3, 2)] ∧
    (statusGCPlain twoTetSt true).nV = 4 ∧
    (∃ kb, markPhase twoTetSt true = manifoldVerts (manifoldEdges (manifoldFaces kb)) ∧ Global.GInv kb) := by
  obtain ⟨kb, e, _, g, _⟩ := status_gc_manifold_partial twoTetSt ginv_twoTetSt fresh_twoTetSt {}
  refine ⟨ginv_twoTetSt, fresh_twoTetSt,
    (status_gc_removes_exactly_the_dead_set twoTetSt ginv_twoTetSt fresh_twoTetSt {}).2, ?_, ?_, ?_, ?_, ?_, ?_, ?_, ?_, ?_,
    ⟨kb, e, g⟩⟩ <;> decide +kernel

end OVM.Props.C04Status

/-! ======================= appended by builder (the manifoldness loops) ======================= -/
namespace OVM.Props.C04Status
open OVM OVM.Kernel OVM.Status
open OVM.Kernel.Logical (LogMinus LogIso Ren Rem)

/-- **the three `_preserveManifoldness` loops** (impl.hh:83-97), from any deferred-mode state `kb` satisfying the
    reachability invariant with all three incidence kinds enabled: each loop is a deferred run of deletion requests for
    the slots whose loop condition holds at the START of the loop (`reqsMF/ME/MV`: the condition of a slot is not changed
    by the deletions of the loop), it keeps the invariant, and it removes — renumbering nothing — exactly
      the live faces neither of whose halffaces has an incident cell  = live faces no live cell contains (`IsoF`),
      the live edges of valence 0                                     = live edges no live face contains (`IsoE`),
      the live vertices of valence 0                                  = live vertices no live edge ends in (`IsoV`),
    the cache reads being exact by the cache invariant of every intermediate state. -/
theorem manifold_loops_erase_exactly_the_unbounding (kb : Kernel) (hi : Global.GInv kb) (hd : kb.deferred = true)
    (hbu : BUon kb) :
    (manifoldFaces kb = Logical.runDef kb (reqsMF kb) ∧ LogMinus kb (manifoldFaces kb) Ren.id (MF kb) ∧
      ∀ f, f < kb.nF → (condF kb f = true ↔ IsoF kb f)) ∧
    (manifoldEdges kb = Logical.runDef kb (reqsME kb) ∧ LogMinus kb (manifoldEdges kb) Ren.id (ME kb) ∧
      ∀ e, e < kb.nE → (condE kb e = true ↔ IsoE kb e)) ∧
    (manifoldVerts kb = Logical.runDef kb (reqsMV kb) ∧ LogMinus kb (manifoldVerts kb) Ren.id (MV kb) ∧
      ∀ v, v < kb.nV → (condV kb v = true ↔ IsoV kb v)) :=
  ⟨⟨(manifoldFaces_run hi hd hbu).1, manifoldFaces_logMinus hi hd hbu, fun _ h => condF_iff hi.wf hbu.2.2 h⟩,
   ⟨(manifoldEdges_run hi hd hbu).1, manifoldEdges_logMinus hi hd hbu, fun _ h => condE_iff hi.wf hbu.2.1 h⟩,
   ⟨(manifoldVerts_run hi hd hbu).1, manifoldVerts_logMinus hi hd hbu, fun _ h => condV_iff hi.wf hbu.1 h⟩⟩

/-- **`StatusAttrib::garbage_collection` with `_preserveManifoldness` erases exactly the specified dead set**, both
    overloads, from any deletion mode, either deletion style, any bottom-up configuration, with or without deletions
    already pending: the logical mesh of the result is the logical mesh of the start state minus
    `deadRem k (marksOf k) true` — the dead entities (deleted, or status-marked, or built from a dead entity) plus every
    face bounding no kept cell, every edge bounding no kept face, every vertex bounding no kept edge (ALL such entities,
    whether or not they were next to something deleted) —, read through a renumbering `ρ` that carries every definition
    and every property column.  Together with `status_gc_removes_exactly_the_dead_set` (flag off) this is the clause
    "the erased slots are exactly the specified dead set" for every value of the flag. -/
theorem status_gc_removes_exactly_the_dead_set_manifold (k : Kernel) (hi : Global.GInv k) (hfr : Fresh k) (t : Tracked) :
    (∃ ρ, LogMinus k (statusGC k true t).k ρ (deadRem k (marksOf k) true)) ∧
    (∃ ρ, LogMinus k (statusGCPlain k true) ρ (deadRem k (marksOf k) true)) :=
  ⟨statusGC_dead_man hi hfr t, statusGC_dead_man hi hfr {}⟩

/-- non-vacuity: two tetrahedra sharing a face, the second cell marked, option on: the hypotheses hold, the theorem
    applies, the dead set is the cell, its three own faces, three own edges and the vertex 4, and the model's result is
    the first tetrahedron (evaluations: TEST next to the theorem) -/
example : Global.GInv twoTetSt ∧ Fresh twoTetSt ∧
    (∃ ρ, LogMinus twoTetSt (statusGCPlain twoTetSt true) ρ (deadRem twoTetSt (marksOf twoTetSt) true)) ∧
    (List.range 2).map (Spec.keepC twoTetSt (marksOf twoTetSt)) = [true, false] ∧
    (List.range 7).map (Spec.keepF twoTetSt (marksOf twoTetSt) true) = [true, true, true, true, false, false, false] ∧
    (List.range 9).map (Spec.keepE twoTetSt (marksOf twoTetSt) true) =
      [true, true, true, true, true, true, false, false, false] ∧
    (List.range 5).map (Spec.keepV twoTetSt (marksOf twoTetSt) true) = [true, true, true, true, false] ∧
    (statusGCPlain twoTetSt true).cells = [[1, 3, 5, 7]] ∧
    (statusGCPlain twoTetSt true).faces = [[0, 2, 4], [6, 8, 1], [9, 10, 3], [5, 11, 7]] ∧
    (statusGCPlain twoTetSt true).edges = [(0, 1), (1, 2), (2, 0), (0, 3), (3, 1), (3, 2)] ∧
    (statusGCPlain twoTetSt true).nV = 4 := by
  refine ⟨ginv_twoTetSt, fresh_twoTetSt,
    (status_gc_removes_exactly_the_dead_set_manifold twoTetSt ginv_twoTetSt fresh_twoTetSt {}).2, ?_, ?_, ?_, ?_, ?_, ?_,
    ?_, ?_⟩ <;> decide +kernel

/-- non-vacuity of the "all such entities" reading: in the single tetrahedron with face 2 marked and the option on, the
    cell dies with the face, so NO face bounds a kept cell any more: everything goes (specification and model agree) -/
example : (∃ ρ, LogMinus tetSt (statusGCPlain tetSt true) ρ (deadRem tetSt (marksOf tetSt) true)) ∧
    (List.range 4).map (Spec.keepF tetSt (marksOf tetSt) true) = [false, false, false, false] ∧
    (List.range 4).map (Spec.keepV tetSt (marksOf tetSt) true) = [false, false, false, false] ∧
    (statusGCPlain tetSt true).faces = [] ∧ (statusGCPlain tetSt true).edges = [] ∧ (statusGCPlain tetSt true).nV = 0 := by
  refine ⟨(status_gc_removes_exactly_the_dead_set_manifold tetSt ginv_tetSt fresh_tetSt {}).2, ?_, ?_, ?_, ?_, ?_⟩ <;>
    decide +kernel

end OVM.Props.C04Status

import OVM.Refine.Len
import OVM.Refine.TransportHistory
import OVM.Props.C17
/-
  C03 — property values stay attached to their entities through every renumbering.
  The kernel applies to every tracked column the same slot operation it applies to the
  definition arrays.  Proved here, for columns of any length and content:
  * `resize`: exactly `n` slots, old values kept, new slots hold the default;
  * `erase` of an entity slot: slots below keep their index, slots above move down by one;
  * `edge_deleted` / `face_deleted` erase halfedge slots `2h+1` then `2h`: the value of
    halfedge `2e+s` of a surviving edge ends up at `2e'+s` where `e'` is the new index of the
    edge — same side (the lemma is false for the other erase order when `2h+1` is the last slot);
  * `swap`: the two slots are exchanged, every other slot untouched; for half-entities both
    sides are exchanged side by side;
  * construction, `clear` and the index swaps keep one slot per entity (`LenInv` pieces).
-/
namespace OVM.Props.C03
open OVM OVM.Kernel

/-- resizing: exactly `n` slots -/
theorem resize_length (c : Col) (n : Nat) : (c.resize n).vals.length = n := by simp [Col.resize]

/-- resizing keeps old values and fills new slots with the default -/
theorem resize_get (c : Col) (n i : Nat) (hi : i < n) :
    (c.resize n).vals[i]? = some (if h : i < c.vals.length then c.vals[i] else c.dflt) := by
  simp only [Col.resize, resizeL]
  by_cases h : i < c.vals.length
  · have : i < min n c.vals.length := by omega
    simp [h, List.getElem?_append, List.getElem?_take, hi, this]
  · have hmin : min n c.vals.length ≤ i := by omega
    simp only [h, dite_false, List.getElem?_append, List.length_take]
    have : ¬ i < min n c.vals.length := by omega
    simp only [this, if_false, List.getElem?_replicate]
    have : i - min n c.vals.length < n - c.vals.length := by omega
    simp [this]

/-- erasing an entity slot: lower slots stay, higher slots move down by one -/
theorem erase_get (c : Col) (h i : Nat) :
    (c.erase h).vals[i]? = if i < h then c.vals[i]? else c.vals[i + 1]? := by
  simp [Col.erase, List.getElem?_eraseIdx]

/-- erasing the two halfedge slots of edge `h` in the order the C++ notifies (`2h+1`, then `2h`):
    slot `j` of the result is slot `j` (below the edge) or `j+2` (above) of the original -/
theorem erase_pair_get (c : Col) (h j : Nat) :
    ((c.erase (2 * h + 1)).erase (2 * h)).vals[j]? = if j < 2 * h then c.vals[j]? else c.vals[j + 2]? := by
  simp only [Col.erase, List.getElem?_eraseIdx]
  by_cases h1 : j < 2 * h
  · have : j < 2 * h + 1 := by omega
    simp [h1, this]
  · have : ¬ j + 1 < 2 * h + 1 := by omega
    simp [h1, this]

/-- in half-entity terms: the value of halfedge `2e+s` of a surviving edge `e ≠ h` is found at
    `2e'+s` with `e' = e` below and `e' = e-1` above the deleted edge: it stays on its side -/
theorem erase_pair_side (c : Col) (h e s : Nat) (hs : s ≤ 1) (hne : e ≠ h) :
    ((c.erase (2 * h + 1)).erase (2 * h)).vals[2 * (if e > h then e - 1 else e) + s]? = c.vals[2 * e + s]? := by
  rw [erase_pair_get]
  by_cases hgt : e > h
  · simp only [hgt, if_true]
    have : ¬ 2 * (e - 1) + s < 2 * h := by omega
    simp only [this, if_false]
    congr 1; omega
  · simp only [hgt, if_false]
    have : 2 * e + s < 2 * h := by omega
    simp [this]

/-- swapping two slots exchanges exactly those two values -/
theorem swap_get (c : Col) (a b i : Nat) (ha : a < c.vals.length) (hb : b < c.vals.length) :
    (c.swap a b).vals[i]? = if i = b then c.vals[a]? else if i = a then c.vals[b]? else c.vals[i]? := by
  simp [Col.swap, getElem?_swapAt _ _ _ _ ha hb]

/-- the half-entity exchange used for edges and faces moves `2a+s ↔ 2b+s` (side by side) -/
theorem swap_pair_get (c : Col) (a b i : Nat) (ha : 2 * a + 1 < c.vals.length) (hb : 2 * b + 1 < c.vals.length) :
    ((c.swap (2 * a) (2 * b)).swap (2 * a + 1) (2 * b + 1)).vals[i]? = c.vals[relabelHalf a b i]? := by
  simp only [Col.swap]
  rw [getElem?_swapAt _ _ _ _ (by simpa using ha) (by simpa using hb),
      getElem?_swapAt _ _ _ _ (by omega) (by omega), getElem?_swapAt _ _ _ _ (by omega) (by omega),
      getElem?_swapAt _ _ _ _ (by omega) (by omega)]
  unfold relabelHalf
  simp only [beq_iff_eq]
  by_cases hab : a = b
  · subst hab
    by_cases e1 : i = 2 * a + 1
    · subst e1
      have : (2 * a + 1) / 2 = a := by omega
      have h2 : (2 * a + 1) % 2 = 1 := by omega
      simp [this, h2]
    · by_cases e2 : i = 2 * a
      · subst e2
        have : 2 * a / 2 = a := by omega
        simp [this, e1]
      · simp only [e1, e2, if_false]
        split
        · have : i = 2 * a + i % 2 := by omega
          rw [← this]
        · rfl
  · by_cases e1 : i = 2 * b + 1
    · subst e1
      have h1 : (2 * b + 1) / 2 = b := by omega
      have h2 : (2 * b + 1) % 2 = 1 := by omega
      have h3 : ¬ b = a := fun h => hab h.symm
      have h4 : ¬ (2 * a + 1 = 2 * b) := by omega
      have h5 : ¬ (2 * a + 1 = 2 * a) := by omega
      simp [h1, h2, h3, h4, h5]
    · by_cases e2 : i = 2 * a + 1
      · subst e2
        have h1 : (2 * a + 1) / 2 = a := by omega
        have h2 : (2 * a + 1) % 2 = 1 := by omega
        have h4 : ¬ (2 * b + 1 = 2 * b) := by omega
        have h5 : ¬ (2 * b + 1 = 2 * a) := by omega
        have h6 : ¬ (2 * a = 2 * b) := by omega
        simp [h1, h2, e1, h4, h5, h6]
      · by_cases e3 : i = 2 * b
        · subst e3
          have h1 : 2 * b / 2 = b := by omega
          have h2 : 2 * b % 2 = 0 := by omega
          have h3 : ¬ b = a := fun h => hab h.symm
          simp [h1, h2, h3, e1, e2]
        · by_cases e4 : i = 2 * a
          · subst e4
            have h1 : 2 * a / 2 = a := by omega
            have h2 : 2 * a % 2 = 0 := by omega
            simp [h1, h2, e1, e2, e3]
          · have h1 : ¬ i / 2 = a := by omega
            have h2 : ¬ i / 2 = b := by omega
            simp [e1, e2, e3, e4, h1, h2]

/-- construction keeps one slot per entity in every column of the affected kinds -/
theorem add_keeps_one_slot_per_entity (k : Kernel) :
    (∀ c ∈ (k.addVertex).1.props.v, c.vals.length = (k.addVertex).1.nV) ∧
    (∀ a b, ∀ c ∈ (k.addEdgeCore a b).props.e, c.vals.length = (k.addEdgeCore a b).nE) ∧
    (∀ a b, ∀ c ∈ (k.addEdgeCore a b).props.he, c.vals.length = (k.addEdgeCore a b).nHE) ∧
    (∀ hes, ∀ c ∈ (k.addFaceCore hes).props.f, c.vals.length = (k.addFaceCore hes).nF) ∧
    (∀ hes, ∀ c ∈ (k.addFaceCore hes).props.hf, c.vals.length = (k.addFaceCore hes).nHF) ∧
    (∀ hfs, ∀ c ∈ (k.addCellCore hfs).props.c, c.vals.length = (k.addCellCore hfs).nC) := by
  refine ⟨?_, ?_, ?_, ?_, ?_, ?_⟩
  · intro c hc
    simp only [addVertex, resizeV, List.mem_map] at hc
    obtain ⟨c0, _, rfl⟩ := hc; simp [addVertex, Col.resize]
  · intro a b c hc
    simp only [addEdgeCore_props, resizeE, List.mem_map] at hc
    obtain ⟨c0, _, rfl⟩ := hc; simp [nE, Col.resize]
  · intro a b c hc
    simp only [addEdgeCore_props, resizeE, List.mem_map] at hc
    obtain ⟨c0, _, rfl⟩ := hc; simp [nE, nHE, Col.resize]
  · intro hes c hc
    simp only [addFaceCore_props, resizeF, List.mem_map] at hc
    obtain ⟨c0, _, rfl⟩ := hc; simp [nF, Col.resize]
  · intro hes c hc
    simp only [addFaceCore_props, resizeF, List.mem_map] at hc
    obtain ⟨c0, _, rfl⟩ := hc; simp [nF, nHF, Col.resize]
  · intro hfs c hc
    simp only [addCellCore_props, resizeC, List.mem_map] at hc
    obtain ⟨c0, _, rfl⟩ := hc; simp [nC, Col.resize]

/-- `clear` leaves every entity column with zero slots (mesh columns keep theirs) -/
theorem clear_sizes (k : Kernel) (b : Bool) :
    (∀ c ∈ (k.clear b).props.v, c.vals.length = 0) ∧ (∀ c ∈ (k.clear b).props.e, c.vals.length = 0) ∧
    (∀ c ∈ (k.clear b).props.he, c.vals.length = 0) ∧ (∀ c ∈ (k.clear b).props.f, c.vals.length = 0) ∧
    (∀ c ∈ (k.clear b).props.hf, c.vals.length = 0) ∧ (∀ c ∈ (k.clear b).props.c, c.vals.length = 0) ∧
    (k.clear b).props.m = k.props.m := by
  simp only [clear, resizeV, resizeE, resizeF, resizeC, List.mem_map]
  refine ⟨?_, ?_, ?_, ?_, ?_, ?_, trivial⟩ <;> (rintro c ⟨c0, _, rfl⟩; simp [Col.resize])

/-- **every live property has exactly one element per entity slot, after every history**:
    for every sequence of kernel operations (construction, `set_*`, deletion in all four modes,
    index swaps, garbage collection, mode and incidence toggles, `clear`) starting from the empty
    mesh, with any arguments (only `delete_vertex` needs its handle in range), every tracked
    column of every kind has as many slots as the mesh has entities of that kind -/
theorem one_slot_per_entity_always (ops : List Op) (hr : HistoryInRange {} ops) :
    let k := (({} : Kernel).run ops)
    ColsLen k.props.v k.nV ∧ ColsLen k.props.e k.nE ∧ ColsLen k.props.he k.nHE ∧
    ColsLen k.props.f k.nF ∧ ColsLen k.props.hf k.nHF ∧ ColsLen k.props.c k.nC := by
  have h := lenInv_run {} ops lenInv_empty hr
  exact ⟨h.pv, h.pe, h.phe, h.pf, h.phf, h.pc⟩

/-- the same from any state that has the invariant (e.g. a loaded mesh with properties) -/
theorem one_slot_per_entity_from (k : Kernel) (hi : LenInv k) (ops : List Op) (hr : HistoryInRange k ops) :
    LenInv (k.run ops) := lenInv_run k ops hi hr

/-- non-vacuity: a history with a property-bearing state, a fast immediate vertex deletion and a
    garbage collection satisfies the hypotheses -/
example :
    let k0 : Kernel := { nV := 3, vDel := [false, false, false], vBU := false, eBU := false, fBU := false,
                         edges := [(0, 1)], eDel := [false],
                         props := { v := [{ key := "t", dflt := 0, vals := [7, 8, 9] }], he := [{ key := "h", dflt := 0, vals := [1, 2] }] } }
    LenInv k0 ∧ HistoryInRange k0 [.deleteVertex 2, .addVertex, .collectGarbage, .swapVertex 0 1] := by
  refine ⟨?_, ?_⟩
  · constructor <;> simp [nE, nF, nC, nHE, nHF, ColsLen]
  · simp [HistoryInRange, OpInRange] <;> decide

example : (({ key := "x", dflt := 0, vals := [10, 11, 20, 21, 30, 31] } : Col).erase 3 |>.erase 2).vals = [10, 11, 30, 31] ∧
    (({ key := "x", dflt := 7, vals := [1] } : Col).resize 3).vals = [1, 7, 7] := by decide

/-! ─────────────────────────────────────────────────────────────────────────────────────────────
  ## History-level transport (values stay attached to their *entities*)

  Entity identity across renumberings is carried by a **token column**: a column `id` of the kind
  whose non-default values are pairwise distinct (`TokCol`).  The theorems below say that every
  other column of that kind follows the tokens through every history, that fresh slots hold the
  defaults, and that halfedge / halfface values travel with their edge / face on their own side.
  They rest on `Refine/Transport.lean`: every kernel operation transforms all columns of a kind by
  one slot program (`resize / erase / swap`) that is computed from topology, flags and modes and
  never from what a storage holds.
  ───────────────────────────────────────────────────────────────────────────────────────────── -/
section Transport
open OVM.SlotOp

/-- **(A) uniformity and naturality of every operation.**  For every operation and state there is,
    per entity kind, one transformation `transOf κ k op : old values → default → new values` such
    that *every* column of the kind is transformed by it; it commutes with every renaming `g` of
    the values (so it can only move, drop and default-fill slots, never inspect them); mesh columns
    are untouched; halfedge/halfface columns get the doubled edge/face program. -/
theorem every_operation_is_uniform_and_natural (k : Kernel) (op : Op) :
    (∀ κ, (k.step op).1.props.get κ =
        (k.props.get κ).map (fun c => { c with vals := transOf κ k op c.vals c.dflt })) ∧
    (∀ κ (g : Int → Int) vals d, transOf κ k op (vals.map g) (g d) = (transOf κ k op vals d).map g) ∧
    (k.step op).1.props.m = k.props.m ∧
    (progOf k op).get .he = dblL ((progOf k op).get .e) ∧ (progOf k op).get .hf = dblL ((progOf k op).get .f) :=
  ⟨step_cols k op, fun κ g vals d => transOf_natural κ k op g vals d, step_m k op, rfl, rfl⟩

/-- **no operation reads a storage**: on the same mesh with arbitrary other storages `p` the
    operation yields the same mesh, the same return value and the same column transformations;
    the new storages are the old ones run through the programs of `op`. -/
theorem operations_never_read_storages (k : Kernel) (p : Props) (op : Op) :
    (k.withP p).step op = ((k.step op).1.withP ((progOf k op).apply p), (k.step op).2) ∧
    (∀ κ, transOf κ (k.withP p) op = transOf κ k op) :=
  ⟨step_withP k p op, fun κ => transOf_withP κ k p op⟩

/-- **one slot map serves every column of a kind, over every history** (any start state, any
    arguments): the result column is read off the old one through `slotsOf κ k ops n`, which
    names for every result slot its source slot or `none` (= created on the way, default). -/
theorem one_slot_map_serves_all_columns (k : Kernel) (ops : List Op) (κ : Kind) (i : Nat) (c : Col)
    (h : (k.props.get κ)[i]? = some c) :
    ((k.run ops).props.get κ)[i]? =
      some { c with vals := (slotsOf κ k ops c.vals.length).map (pick c.vals c.dflt) } :=
  run_col_slots k ops κ i c h

/-- **the pair list of two columns of a kind is transported as one column** (the zip corollary):
    positions of the two columns can never drift apart. -/
theorem paired_columns_transform_together (k : Kernel) (ops : List Op) (κ : Kind) (ia ib : Nat) (a b : Col)
    (ha : (k.props.get κ)[ia]? = some a) (hb : (k.props.get κ)[ib]? = some b)
    (hl : a.vals.length = b.vals.length) :
    ∃ a' b', ((k.run ops).props.get κ)[ia]? = some a' ∧ ((k.run ops).props.get κ)[ib]? = some b' ∧
      a'.vals.zip b'.vals = runL ((progRun k ops).get κ) (a.vals.zip b.vals) (a.dflt, b.dflt) :=
  ⟨_, _, run_col_at k ops κ ia a ha, run_col_at k ops κ ib b hb, (runL_zip _ _ _ _ _ hl).symm⟩

/-- **token theorem, any start state** — only needs the two columns to have equally many slots.
    `id` holds pairwise distinct non-default tokens.  After any history: the columns are still at
    their positions with key and default unchanged; tokens are still pairwise distinct; wherever
    the token column shows an old token `t`, the other column shows the value that stood next to `t`
    before; every token is an old one or the default. -/
theorem values_follow_tokens_from (k : Kernel) (ops : List Op) (κ : Kind) (ia ib : Nat) (id c : Col)
    (ha : (k.props.get κ)[ia]? = some id) (hb : (k.props.get κ)[ib]? = some c)
    (hl : id.vals.length = c.vals.length) (htok : TokCol id.vals id.dflt) :
    ∃ id' c', ((k.run ops).props.get κ)[ia]? = some id' ∧ ((k.run ops).props.get κ)[ib]? = some c' ∧
      id'.key = id.key ∧ id'.dflt = id.dflt ∧ c'.key = c.key ∧ c'.dflt = c.dflt ∧
      id'.vals.length = c'.vals.length ∧ TokCol id'.vals id'.dflt ∧
      (∀ (i j : Nat) (t : Int), id'.vals[i]? = some t → t ≠ id.dflt → id.vals[j]? = some t →
          c'.vals[i]? = c.vals[j]?) ∧
      (∀ (i : Nat) (t : Int), id'.vals[i]? = some t → t = id.dflt ∨ t ∈ id.vals) ∧
      (id.dflt ∉ id.vals → ∀ (i : Nat), id'.vals[i]? = some id.dflt → c'.vals[i]? = some c.dflt) := by
  have T := token_transport ((progRun k ops).get κ) id.vals id.dflt c.vals c.dflt hl htok
  exact ⟨_, _, run_col_at k ops κ ia id ha, run_col_at k ops κ ib c hb, rfl, rfl, rfl, rfl, T.1, T.2.1, T.2.2.1,
    T.2.2.2.1, T.2.2.2.2⟩

/-- **values stay attached to their entities, over every history** (C03 at the level of histories).
    From a state with one slot per entity (`LenInv`, e.g. the empty mesh or a loaded one) and any
    in-range history — construction, `set_*`, deletion in all four modes, index swaps, garbage
    collection, mode and incidence toggles, `clear` — every column `c` of a kind follows a token
    column `id` of that kind: both keep key and default, both have exactly one slot per entity slot
    of the result, and at every slot whose token `t` already existed, `c` holds what it held next
    to `t` before. -/
theorem values_follow_tokens_history (k : Kernel) (hi : LenInv k) (ops : List Op) (hr : HistoryInRange k ops)
    (κ : Kind) (ia ib : Nat) (id c : Col)
    (ha : (k.props.get κ)[ia]? = some id) (hb : (k.props.get κ)[ib]? = some c)
    (htok : TokCol id.vals id.dflt) :
    ∃ id' c', ((k.run ops).props.get κ)[ia]? = some id' ∧ ((k.run ops).props.get κ)[ib]? = some c' ∧
      id'.key = id.key ∧ id'.dflt = id.dflt ∧ c'.key = c.key ∧ c'.dflt = c.dflt ∧
      id'.vals.length = (k.run ops).count κ ∧ c'.vals.length = (k.run ops).count κ ∧
      TokCol id'.vals id'.dflt ∧
      (∀ (i j : Nat) (t : Int), id'.vals[i]? = some t → t ≠ id.dflt → id.vals[j]? = some t →
          c'.vals[i]? = c.vals[j]?) ∧
      (∀ (i : Nat) (t : Int), id'.vals[i]? = some t → t = id.dflt ∨ t ∈ id.vals) := by
  have hla : id.vals.length = k.count κ := (LenInv.cols k hi κ) id (List.mem_of_getElem? ha)
  have hlb : c.vals.length = k.count κ := (LenInv.cols k hi κ) c (List.mem_of_getElem? hb)
  obtain ⟨id', c', h1, h2, h3, h4, h5, h6, _, h8, h9, h10, _⟩ :=
    values_follow_tokens_from k ops κ ia ib id c ha hb (hla.trans hlb.symm) htok
  have hi' := LenInv.cols _ (lenInv_run k ops hi hr) κ
  exact ⟨id', c', h1, h2, h3, h4, h5, h6, hi' id' (List.mem_of_getElem? h1), hi' c' (List.mem_of_getElem? h2),
    h8, h9, h10⟩

/-- **new entities start with the default value.**  If all tokens of the start state are
    non-default, a slot of the result whose token is the default is a slot created during the
    history, and *every* column of the kind holds its own default there. -/
theorem new_entities_get_defaults (k : Kernel) (hi : LenInv k) (ops : List Op) (κ : Kind) (ia ib : Nat) (id c : Col)
    (ha : (k.props.get κ)[ia]? = some id) (hb : (k.props.get κ)[ib]? = some c)
    (htok : TokCol id.vals id.dflt) (hnd : id.dflt ∉ id.vals) :
    ∃ id' c', ((k.run ops).props.get κ)[ia]? = some id' ∧ ((k.run ops).props.get κ)[ib]? = some c' ∧
      c'.dflt = c.dflt ∧
      ∀ (i : Nat), id'.vals[i]? = some id.dflt → c'.vals[i]? = some c.dflt := by
  have hla : id.vals.length = k.count κ := (LenInv.cols k hi κ) id (List.mem_of_getElem? ha)
  have hlb : c.vals.length = k.count κ := (LenInv.cols k hi κ) c (List.mem_of_getElem? hb)
  obtain ⟨id', c', h1, h2, _, _, _, h6, _, _, _, _, h11⟩ :=
    values_follow_tokens_from k ops κ ia ib id c ha hb (hla.trans hlb.symm) htok
  exact ⟨id', c', h1, h2, h6, h11 hnd⟩

/-- in a state with one slot per entity every half-entity column has two slots per parent slot
    (the length hypothesis of the two theorems below) -/
theorem half_columns_have_two_slots_per_parent (k : Kernel) (hi : LenInv k) (κ κh : Kind)
    (hk : (κ = .e ∧ κh = .he) ∨ (κ = .f ∧ κh = .hf)) (E H : Col)
    (he : E ∈ k.props.get κ) (hh : H ∈ k.props.get κh) : H.vals.length = 2 * E.vals.length := by
  rcases hk with ⟨rfl, rfl⟩ | ⟨rfl, rfl⟩
  · rw [hi.phe H hh, hi.pe E he]; rfl
  · rw [hi.phf H hh, hi.pf E he]; rfl

/-- **halfedge / halfface values stay on their side of their edge / face, over every history**
    (any start state in which the half-entity column has two slots per parent slot, any arguments).
    `κ, κh` is (edge, halfedge) or (face, halfface); `E` is any column of the parent kind, `H` any
    column of the half kind.  After the history every parent slot `i` of the result either is an
    old parent slot `j` — then `E` shows the value of `j` and `H` shows at `2i` and `2i+1` what it
    showed at `2j` and `2j+1`, sides not exchanged — or is a new slot with the defaults everywhere. -/
theorem halfentity_sides_follow_edges_history (k : Kernel) (ops : List Op) (κ κh : Kind)
    (hk : (κ = .e ∧ κh = .he) ∨ (κ = .f ∧ κh = .hf)) (ie ih : Nat) (E H : Col)
    (he : (k.props.get κ)[ie]? = some E) (hh : (k.props.get κh)[ih]? = some H)
    (hl : H.vals.length = 2 * E.vals.length) :
    ∃ E' H', ((k.run ops).props.get κ)[ie]? = some E' ∧ ((k.run ops).props.get κh)[ih]? = some H' ∧
      E'.dflt = E.dflt ∧ H'.dflt = H.dflt ∧ H'.vals.length = 2 * E'.vals.length ∧
      ∀ (i : Nat), i < E'.vals.length →
        (∃ j, j < E.vals.length ∧ E'.vals[i]? = E.vals[j]? ∧
            H'.vals[2 * i]? = H.vals[2 * j]? ∧ H'.vals[2 * i + 1]? = H.vals[2 * j + 1]?) ∨
        (E'.vals[i]? = some E.dflt ∧ H'.vals[2 * i]? = some H.dflt ∧ H'.vals[2 * i + 1]? = some H.dflt) := by
  have hP : (progRun k ops).get κh = dblL ((progRun k ops).get κ) := by
    rcases hk with ⟨rfl, rfl⟩ | ⟨rfl, rfl⟩ <;> rfl
  have T := half_transport ((progRun k ops).get κ) E.vals E.dflt H.vals H.dflt hl
  refine ⟨_, _, run_col_at k ops κ ie E he, run_col_at k ops κh ih H hh, rfl, rfl, ?_, ?_⟩
  · simp only [Col.runP_vals, hP]; exact T.1
  · simp only [Col.runP_vals, hP]; exact T.2

/-- the same in token form: if the parent column `E` holds pairwise distinct non-default tokens,
    then wherever `E` shows an old token `t` after the history, the half column shows on side `s`
    what it showed on side `s` of the entity that carried `t`; in particular a half column that
    held `2·t+s` next to token `t` still does.  Slots with a fresh token hold the default on both
    sides (when no old token is the default). -/
theorem halfentity_sides_follow_tokens_history (k : Kernel) (ops : List Op) (κ κh : Kind)
    (hk : (κ = .e ∧ κh = .he) ∨ (κ = .f ∧ κh = .hf)) (ie ih : Nat) (E H : Col)
    (he : (k.props.get κ)[ie]? = some E) (hh : (k.props.get κh)[ih]? = some H)
    (hl : H.vals.length = 2 * E.vals.length) (htok : TokCol E.vals E.dflt) :
    ∃ E' H', ((k.run ops).props.get κ)[ie]? = some E' ∧ ((k.run ops).props.get κh)[ih]? = some H' ∧
      (∀ (i j s : Nat) (t : Int), s < 2 → E'.vals[i]? = some t → t ≠ E.dflt → E.vals[j]? = some t →
          H'.vals[2 * i + s]? = H.vals[2 * j + s]?) ∧
      ((∀ (j s : Nat) (t : Int), s < 2 → E.vals[j]? = some t → t ≠ E.dflt → H.vals[2 * j + s]? = some (2 * t + s)) →
        ∀ (i s : Nat) (t : Int), s < 2 → E'.vals[i]? = some t → t ≠ E.dflt → H'.vals[2 * i + s]? = some (2 * t + s)) ∧
      (E.dflt ∉ E.vals → ∀ (i s : Nat), s < 2 → E'.vals[i]? = some E.dflt → H'.vals[2 * i + s]? = some H.dflt) := by
  have hP : (progRun k ops).get κh = dblL ((progRun k ops).get κ) := by
    rcases hk with ⟨rfl, rfl⟩ | ⟨rfl, rfl⟩ <;> rfl
  have T := half_token_transport ((progRun k ops).get κ) E.vals E.dflt H.vals H.dflt hl htok
  have M := mem_runL ((progRun k ops).get κ) E.vals E.dflt
  refine ⟨_, _, run_col_at k ops κ ie E he, run_col_at k ops κh ih H hh, ?_, ?_, ?_⟩
  · simp only [Col.runP_vals, hP]; exact T.1
  · simp only [Col.runP_vals, hP]
    intro hrel i s t hs hi ht
    rcases M t (List.mem_of_getElem? hi) with hm | hm
    · obtain ⟨j, hj, hjt⟩ := List.mem_iff_getElem.mp hm
      have hj' : E.vals[j]? = some t := by rw [List.getElem?_eq_getElem hj, hjt]
      rw [T.1 i j s t hs hi ht hj']
      exact hrel j s t hs hj' ht
    · exact absurd hm ht
  · simp only [Col.runP_vals, hP]; exact T.2

/-! ### non-vacuity: a state with a token column, a value column, edge and halfedge token columns;
    a history with a fast immediate deletion (of a vertex and its edge), an index swap, a deferred
    deletion, a construction and a garbage collection -/

/-- vertices 0..3 with tokens 101..104 and values 7..10 (default −1); edges (0,1), (2,3), (0,2)
    with tokens 201..203; halfedge tokens `2·t+s`; immediate fast deletion mode, no incidences -/
def exK : Kernel :=
  { nV := 4, vDel := [false, false, false, false], edges := [(0, 1), (2, 3), (0, 2)], eDel := [false, false, false],
    vBU := false, eBU := false, fBU := false, deferred := false, fast := true,
    props := { v := [{ key := "id", dflt := 0, vals := [101, 102, 103, 104] },
                     { key := "val", dflt := -1, vals := [7, 8, 9, 10] }],
               e := [{ key := "eid", dflt := 0, vals := [201, 202, 203] }],
               he := [{ key := "hid", dflt := 0, vals := [402, 403, 404, 405, 406, 407] }] } }

def exOps : List Op :=
  [.deleteVertex 1, .swapVertex 0 1, .enableDeferred true, .deleteVertex 0, .addVertex, .collectGarbage]

theorem exK_lenInv : LenInv exK := by
  constructor <;> simp [exK, nE, nF, nC, nHE, nHF, ColsLen]

theorem exOps_inRange : HistoryInRange exK exOps := by
  unfold exOps
  simp only [HistoryInRange, OpInRange]
  decide

/-- the hypotheses of `values_follow_tokens_history` / `new_entities_get_defaults` hold for the
    example (vertex kind, token column 0, value column 1), so their conclusions do -/
example :
    ∃ id' c', ((exK.run exOps).props.get .v)[0]? = some id' ∧ ((exK.run exOps).props.get .v)[1]? = some c' ∧
      id'.vals.length = (exK.run exOps).count .v ∧
      (∀ (i j : Nat) (t : Int), id'.vals[i]? = some t → t ≠ 0 → [101, 102, 103, 104][j]? = some t →
          c'.vals[i]? = [7, 8, 9, 10][j]?) ∧
      (∀ (i : Nat), id'.vals[i]? = some 0 → c'.vals[i]? = some (-1)) := by
  have htok : TokCol [101, 102, 103, 104] (0 : Int) := tokCol_of_nodup _ _ (by decide)
  obtain ⟨id', c', h1, h2, _, _, _, _, h7, _, _, h10, _⟩ :=
    values_follow_tokens_history exK exK_lenInv exOps exOps_inRange .v 0 1 _ _ rfl rfl htok
  obtain ⟨id'', c'', g1, g2, _, g4⟩ :=
    new_entities_get_defaults exK exK_lenInv exOps .v 0 1 _ _ rfl rfl htok (by decide)
  rw [h1] at g1; rw [h2] at g2
  cases g1; cases g2
  exact ⟨id', c', h1, h2, h7, h10, g4⟩

/-- test (evaluation of the model on the example): vertex 102 and its edge were deleted fast,
    vertex 104 deferred and collected; the survivors 101, 103 moved and kept 7, 9; the new vertex
    has token 0 and value −1; edge 203 moved from slot 2 to slot 0 with 406 on side 0, 407 on side 1 -/
example :
    (exK.run exOps).props.v = [{ key := "id", dflt := 0, vals := [0, 101, 103] }, { key := "val", dflt := -1, vals := [-1, 7, 9] }] ∧
    (exK.run exOps).props.e = [{ key := "eid", dflt := 0, vals := [203] }] ∧
    (exK.run exOps).props.he = [{ key := "hid", dflt := 0, vals := [406, 407] }] ∧
    (progRun exK exOps).v = [.swap 1 3, .erase 3, .swap 0 1, .resize 4, .swap 0 3, .erase 3] ∧
    slotsOf .v exK exOps 4 = [none, some 0, some 2] := by decide

/-- the hypotheses of the half-entity theorems hold for the example (edge tokens, halfedge tokens) -/
example :
    ∃ E' H', ((exK.run exOps).props.get .e)[0]? = some E' ∧ ((exK.run exOps).props.get .he)[0]? = some H' ∧
      H'.vals.length = 2 * E'.vals.length ∧
      (∀ (i s : Nat) (t : Int), s < 2 → E'.vals[i]? = some t → t ≠ 0 → H'.vals[2 * i + s]? = some (2 * t + s)) := by
  obtain ⟨E', H', h1, h2, _, _, h5, _⟩ :=
    halfentity_sides_follow_edges_history exK exOps .e .he (Or.inl ⟨rfl, rfl⟩) 0 0 _ _ rfl rfl (by decide)
  obtain ⟨E'', H'', g1, g2, _, g4, _⟩ :=
    halfentity_sides_follow_tokens_history exK exOps .e .he (Or.inl ⟨rfl, rfl⟩) 0 0 _ _ rfl rfl (by decide)
      (tokCol_of_nodup _ _ (by decide))
  rw [h1] at g1; rw [h2] at g2
  cases g1; cases g2
  refine ⟨E', H', h1, h2, h5, g4 ?_⟩
  intro j s t hs hj ht
  have hj3 : j < 3 := by
    have := lt_of_getElem?_eq_some hj; simpa [exK] using this
  have hs' : s = 0 ∨ s = 1 := by omega
  have hj' : j = 0 ∨ j = 1 ∨ j = 2 := by omega
  rcases hj' with rfl | rfl | rfl <;> rcases hs' with rfl | rfl <;>
    (simp at hj; subst hj; simp)

/-- an operation applies the *same* transformation to both vertex columns of the example, and it
    commutes with renaming the values (instance of `every_operation_is_uniform_and_natural`) -/
example : transOf .v exK (.deleteVertex 1) [7, 8, 9, 10] (-1) = [7, 10, 9] ∧
    transOf .v exK (.deleteVertex 1) [101, 102, 103, 104] 0 = [101, 104, 103] ∧
    transOf .he exK (.deleteVertex 1) [402, 403, 404, 405, 406, 407] 0 = [406, 407, 404, 405] := by decide

end Transport

end OVM.Props.C03

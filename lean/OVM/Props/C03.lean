import OVM.Refine.Len
import OVM.Props.C17
/-
  C03 — property values stay attached to their entities through every renumbering.
  The kernel applies to every tracked column the same slot operation it applies to the
  definition arrays.  Proved here, for columns of any length and content:
  * `resize`: exactly `n` slots, old values kept, new slots hold the default;
  * `erase` of an entity slot: slots below keep their index, slots above move down by one;
  * `edge_deleted` / `face_deleted` erase halfedge slots `2h+1` then `2h`: the value of
    halfedge `2e+s` of a surviving edge ends up at `2e'+s` where `e'` is the new index of the
    edge — same side (the lemma is false for the other erase order when `2h+1` is the last slot);
  * `swap`: the two slots are exchanged, every other slot untouched; for half-entities both
    sides are exchanged side by side;
  * construction, `clear` and the index swaps keep one slot per entity (`LenInv` pieces).
-/
namespace OVM.Props.C03
open OVM OVM.Kernel

/-- resizing: exactly `n` slots -/
theorem resize_length (c : Col) (n : Nat) : (c.resize n).vals.length = n := by simp [Col.resize]

/-- resizing keeps old values and fills new slots with the default -/
theorem resize_get (c : Col) (n i : Nat) (hi : i < n) :
    (c.resize n).vals[i]? = some (if h : i < c.vals.length then c.vals[i] else c.dflt) := by
  simp only [Col.resize, resizeL]
  by_cases h : i < c.vals.length
  · have : i < min n c.vals.length := by omega
    simp [h, List.getElem?_append, List.getElem?_take, hi, this]
  · have hmin : min n c.vals.length ≤ i := by omega
    simp only [h, dite_false, List.getElem?_append, List.length_take]
    have : ¬ i < min n c.vals.length := by omega
    simp only [this, if_false, List.getElem?_replicate]
    have : i - min n c.vals.length < n - c.vals.length := by omega
    simp [this]

/-- erasing an entity slot: lower slots stay, higher slots move down by one -/
theorem erase_get (c : Col) (h i : Nat) :
    (c.erase h).vals[i]? = if i < h then c.vals[i]? else c.vals[i + 1]? := by
  simp [Col.erase, List.getElem?_eraseIdx]

/-- erasing the two halfedge slots of edge `h` in the order the C++ notifies (`2h+1`, then `2h`):
    slot `j` of the result is slot `j` (below the edge) or `j+2` (above) of the original -/
theorem erase_pair_get (c : Col) (h j : Nat) :
    ((c.erase (2 * h + 1)).erase (2 * h)).vals[j]? = if j < 2 * h then c.vals[j]? else c.vals[j + 2]? := by
  simp only [Col.erase, List.getElem?_eraseIdx]
  by_cases h1 : j < 2 * h
  · have : j < 2 * h + 1 := by omega
    simp [h1, this]
  · have : ¬ j + 1 < 2 * h + 1 := by omega
    simp [h1, this]

/-- in half-entity terms: the value of halfedge `2e+s` of a surviving edge `e ≠ h` is found at
    `2e'+s` with `e' = e` below and `e' = e-1` above the deleted edge: it stays on its side -/
theorem erase_pair_side (c : Col) (h e s : Nat) (hs : s ≤ 1) (hne : e ≠ h) :
    ((c.erase (2 * h + 1)).erase (2 * h)).vals[2 * (if e > h then e - 1 else e) + s]? = c.vals[2 * e + s]? := by
  rw [erase_pair_get]
  by_cases hgt : e > h
  · simp only [hgt, if_true]
    have : ¬ 2 * (e - 1) + s < 2 * h := by omega
    simp only [this, if_false]
    congr 1; omega
  · simp only [hgt, if_false]
    have : 2 * e + s < 2 * h := by omega
    simp [this]

/-- swapping two slots exchanges exactly those two values -/
theorem swap_get (c : Col) (a b i : Nat) (ha : a < c.vals.length) (hb : b < c.vals.length) :
    (c.swap a b).vals[i]? = if i = b then c.vals[a]? else if i = a then c.vals[b]? else c.vals[i]? := by
  simp [Col.swap, getElem?_swapAt _ _ _ _ ha hb]

/-- the half-entity exchange used for edges and faces moves `2a+s ↔ 2b+s` (side by side) -/
theorem swap_pair_get (c : Col) (a b i : Nat) (ha : 2 * a + 1 < c.vals.length) (hb : 2 * b + 1 < c.vals.length) :
    ((c.swap (2 * a) (2 * b)).swap (2 * a + 1) (2 * b + 1)).vals[i]? = c.vals[relabelHalf a b i]? := by
  simp only [Col.swap]
  rw [getElem?_swapAt _ _ _ _ (by simpa using ha) (by simpa using hb),
      getElem?_swapAt _ _ _ _ (by omega) (by omega), getElem?_swapAt _ _ _ _ (by omega) (by omega),
      getElem?_swapAt _ _ _ _ (by omega) (by omega)]
  unfold relabelHalf
  simp only [beq_iff_eq]
  by_cases hab : a = b
  · subst hab
    by_cases e1 : i = 2 * a + 1
    · subst e1
      have : (2 * a + 1) / 2 = a := by omega
      have h2 : (2 * a + 1) % 2 = 1 := by omega
      simp [this, h2]
    · by_cases e2 : i = 2 * a
      · subst e2
        have : 2 * a / 2 = a := by omega
        simp [this, e1]
      · simp only [e1, e2, if_false]
        split
        · have : i = 2 * a + i % 2 := by omega
          rw [← this]
        · rfl
  · by_cases e1 : i = 2 * b + 1
    · subst e1
      have h1 : (2 * b + 1) / 2 = b := by omega
      have h2 : (2 * b + 1) % 2 = 1 := by omega
      have h3 : ¬ b = a := fun h => hab h.symm
      have h4 : ¬ (2 * a + 1 = 2 * b) := by omega
      have h5 : ¬ (2 * a + 1 = 2 * a) := by omega
      simp [h1, h2, h3, h4, h5]
    · by_cases e2 : i = 2 * a + 1
      · subst e2
        have h1 : (2 * a + 1) / 2 = a := by omega
        have h2 : (2 * a + 1) % 2 = 1 := by omega
        have h4 : ¬ (2 * b + 1 = 2 * b) := by omega
        have h5 : ¬ (2 * b + 1 = 2 * a) := by omega
        have h6 : ¬ (2 * a = 2 * b) := by omega
        simp [h1, h2, e1, h4, h5, h6]
      · by_cases e3 : i = 2 * b
        · subst e3
          have h1 : 2 * b / 2 = b := by omega
          have h2 : 2 * b % 2 = 0 := by omega
          have h3 : ¬ b = a := fun h => hab h.symm
          simp [h1, h2, h3, e1, e2]
        · by_cases e4 : i = 2 * a
          · subst e4
            have h1 : 2 * a / 2 = a := by omega
            have h2 : 2 * a % 2 = 0 := by omega
            simp [h1, h2, e1, e2, e3]
          · have h1 : ¬ i / 2 = a := by omega
            have h2 : ¬ i / 2 = b := by omega
            simp [e1, e2, e3, e4, h1, h2]

/-- construction keeps one slot per entity in every column of the affected kinds -/
theorem add_keeps_one_slot_per_entity (k : Kernel) :
    (∀ c ∈ (k.addVertex).1.props.v, c.vals.length = (k.addVertex).1.nV) ∧
    (∀ a b, ∀ c ∈ (k.addEdgeCore a b).props.e, c.vals.length = (k.addEdgeCore a b).nE) ∧
    (∀ a b, ∀ c ∈ (k.addEdgeCore a b).props.he, c.vals.length = (k.addEdgeCore a b).nHE) ∧
    (∀ hes, ∀ c ∈ (k.addFaceCore hes).props.f, c.vals.length = (k.addFaceCore hes).nF) ∧
    (∀ hes, ∀ c ∈ (k.addFaceCore hes).props.hf, c.vals.length = (k.addFaceCore hes).nHF) ∧
    (∀ hfs, ∀ c ∈ (k.addCellCore hfs).props.c, c.vals.length = (k.addCellCore hfs).nC) := by
  refine ⟨?_, ?_, ?_, ?_, ?_, ?_⟩
  · intro c hc
    simp only [addVertex, resizeV, List.mem_map] at hc
    obtain ⟨c0, _, rfl⟩ := hc; simp [addVertex, Col.resize]
  · intro a b c hc
    simp only [addEdgeCore_props, resizeE, List.mem_map] at hc
    obtain ⟨c0, _, rfl⟩ := hc; simp [nE, Col.resize]
  · intro a b c hc
    simp only [addEdgeCore_props, resizeE, List.mem_map] at hc
    obtain ⟨c0, _, rfl⟩ := hc; simp [nE, nHE, Col.resize]
  · intro hes c hc
    simp only [addFaceCore_props, resizeF, List.mem_map] at hc
    obtain ⟨c0, _, rfl⟩ := hc; simp [nF, Col.resize]
  · intro hes c hc
    simp only [addFaceCore_props, resizeF, List.mem_map] at hc
    obtain ⟨c0, _, rfl⟩ := hc; simp [nF, nHF, Col.resize]
  · intro hfs c hc
    simp only [addCellCore_props, resizeC, List.mem_map] at hc
    obtain ⟨c0, _, rfl⟩ := hc; simp [nC, Col.resize]

/-- `clear` leaves every entity column with zero slots (mesh columns keep theirs) -/
theorem clear_sizes (k : Kernel) (b : Bool) :
    (∀ c ∈ (k.clear b).props.v, c.vals.length = 0) ∧ (∀ c ∈ (k.clear b).props.e, c.vals.length = 0) ∧
    (∀ c ∈ (k.clear b).props.he, c.vals.length = 0) ∧ (∀ c ∈ (k.clear b).props.f, c.vals.length = 0) ∧
    (∀ c ∈ (k.clear b).props.hf, c.vals.length = 0) ∧ (∀ c ∈ (k.clear b).props.c, c.vals.length = 0) ∧
    (k.clear b).props.m = k.props.m := by
  simp only [clear, resizeV, resizeE, resizeF, resizeC, List.mem_map]
  refine ⟨?_, ?_, ?_, ?_, ?_, ?_, trivial⟩ <;> (rintro c ⟨c0, _, rfl⟩; simp [Col.resize])

/-- **every live property has exactly one element per entity slot, after every history**:
    for every sequence of kernel operations (construction, `set_*`, deletion in all four modes,
    index swaps, garbage collection, mode and incidence toggles, `clear`) starting from the empty
    mesh, with any arguments (only `delete_vertex` needs its handle in range), every tracked
    column of every kind has as many slots as the mesh has entities of that kind -/
theorem one_slot_per_entity_always (ops : List Op) (hr : HistoryInRange {} ops) :
    let k := (({} : Kernel).run ops)
    ColsLen k.props.v k.nV ∧ ColsLen k.props.e k.nE ∧ ColsLen k.props.he k.nHE ∧
    ColsLen k.props.f k.nF ∧ ColsLen k.props.hf k.nHF ∧ ColsLen k.props.c k.nC := by
  have h := lenInv_run {} ops lenInv_empty hr
  exact ⟨h.pv, h.pe, h.phe, h.pf, h.phf, h.pc⟩

/-- the same from any state that has the invariant (e.g. a loaded mesh with properties) -/
theorem one_slot_per_entity_from (k : Kernel) (hi : LenInv k) (ops : List Op) (hr : HistoryInRange k ops) :
    LenInv (k.run ops) := lenInv_run k ops hi hr

/-- non-vacuity: a history with a property-bearing state, a fast immediate vertex deletion and a
    garbage collection satisfies the hypotheses -/
example :
    let k0 : Kernel := { nV := 3, vDel := [false, false, false], vBU := false, eBU := false, fBU := false,
                         edges := [(0, 1)], eDel := [false],
                         props := { v := [{ key := "t", dflt := 0, vals := [7, 8, 9] }], he := [{ key := "h", dflt := 0, vals := [1, 2] }] } }
    LenInv k0 ∧ HistoryInRange k0 [.deleteVertex 2, .addVertex, .collectGarbage, .swapVertex 0 1] := by
  refine ⟨?_, ?_⟩
  · constructor <;> simp [nE, nF, nC, nHE, nHF, ColsLen]
  · simp [HistoryInRange, OpInRange] <;> decide

example : (({ key := "x", dflt := 0, vals := [10, 11, 20, 21, 30, 31] } : Col).erase 3 |>.erase 2).vals = [10, 11, 30, 31] ∧
    (({ key := "x", dflt := 7, vals := [1] } : Col).resize 3).vals = [1, 7, 7] := by decide

end OVM.Props.C03

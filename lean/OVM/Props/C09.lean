import OVM.Kernel.Frames
import OVM.Spec.Fan
import OVM.Props.C08
import OVM.Refine.FanLemmas
import OVM.Refine.RotInvHistory
/-
  C09 — halffaces around an edge in rotational order; in-cell adjacency.
  Proved here about `reorder_incident_halffaces` as modelled (for every state):
  * whatever the forward walk collects is a rotation chain: every collected halfface but the
    last is non-boundary and is followed by the opposite of its in-cell neighbour across the
    edge; the walk starts at the list's first halfface; it stops only at a boundary halfface or
    when the successor of the last element is the start (closed fan);
  * when the walk is written back, the halfedge's slot holds exactly the walked list and the
    opposite halfedge's slot its mirrored reverse (`reverse.map opp`);
  * `reorder` changes nothing but the two slots of that edge (frame) and keeps their lengths.
  Together: right after `reorder e` on a single-fan edge the cached list is in rotational order.
  In-cell adjacency (`adjacent_halfface_in_cell`, lemmas in OVM/Refine/FanLemmas.lean):
  * `adj_sound` — for every state: a returned halfface is a member of the incident cell of `hf`
    (which lists `hf`), is neither `hf` nor `opp hf`, and holds the opposite of the halfedge used;
  * `adj_unique_involutive` — in a closed cell (`ClosedSurface`, what `add_cell` checks) that is
    not self-adjacent at the edge, the result is the unique other halfface of the cell at that
    edge, either orientation of the halfedge gives it, and asking again returns the start;
  * `adj_selfadjacent_none` — in a closed cell listing both halffaces of a face the function
    returns the invalid handle at the halfedges of that face.
  Rotational order for a given state (predicates in OVM/Refine/FanLemmas.lean, all decidable and about
  the definitions, the cell flags and `incident_cell_per_hf_`):
  * `reorderList_fan_order` — on a well-formed fan (`FanOK`: members interior or boundary, cells
    closed surfaces not self-adjacent at the edge, cache consistent), whatever
    `reorder_incident_halffaces` stores is a permutation in which every element with a successor is
    followed by its rotation successor `sFanNext` of Spec/Fan.lean (the opposite of its in-cell
    neighbour), a boundary halfface can only come last, and the last leads back to the first or is
    a boundary halfface; `reorderList_closed_ring_fan_order` is the cyclic form for closed rings;
  * `reorderList_single_fan_stores` — on a single fan (`SingleFan`: additionally closed under the
    rotation and connected; closed ring or open chain, any valence ≥ 2) the function does store;
  * `reorder_single_fan_partial`, `reorder_establishes_order` — hence after `reorder e` the cache of a
    single-fan edge is in rotational order with the mirrored reverse at the opposite halfedge.
  Towards `RotInv`: `reorder e'` changes nothing the order predicate reads at another edge
  (`reorder_elsewhere`), a sweep of `reorder` over pairwise different edges orders every single fan
  among them (`foldl_reorder_orders`), so `add_cell` leaves every affected single-fan edge ordered
  (`addCellCore_orders_affected_partial`).
  `RotInv` — the rotational order as an INVARIANT OF HISTORIES (last section; lemmas in OVM/Refine/RotInv*.lean):
  * `rotational_order_is_invariant` — after every history of valid calls (`Global.HistoryOK`: OVM/Refine/Global.lean)
    from the empty mesh that does not use `set_face` / `set_cell`, in every deletion mode (deferred, immediate
    index-shifting, immediate fast) and through every toggling of the bottom-up incidences, with edge and face
    incidences on, every edge that is a single fan (`Fan.SingleFan`: closed ring or open chain, any valence) is in
    rotational order (`Fan.FanOrdered`) with the mirrored reverse at the opposite halfedge;
  * `rotational_order_step` — the one-operation form on top of `Global.GInv`; per operation: frames, `add_face`
    (a new halfface is appended to the slot and has no cell on either side: the edge is NOT a single fan until cells
    arrive, `dangling_face_not_single_fan`), `add_cell`, the four relabelings `swap_*`, `reorderAll` on enabling the
    incidences, the unlink stages of `delete_cell/face_core`, the erase stages (renumbering), `collect_garbage`.
-/
namespace OVM.Props.C09
open OVM OVM.Kernel

/-- consecutive elements of `l` are linked by "opposite of the in-cell neighbour across `he`" and
    every element that has a successor is not on the boundary -/
def Chain (k : Kernel) (he : Nat) : List Nat → Prop
  | a :: b :: t => k.hfOnBoundaryOrDeleted a = false ∧ (∃ x, k.adjHalffaceInCell a he = some x ∧ b = opp x) ∧ Chain k he (b :: t)
  | _ => True

theorem chain_append_one (k : Kernel) (he : Nat) (l : List Nat) (a b : Nat) (hc : Chain k he (l ++ [a]))
    (hb : k.hfOnBoundaryOrDeleted a = false) (x : Nat) (hx : k.adjHalffaceInCell a he = some x) (hbx : b = opp x) :
    Chain k he (l ++ [a] ++ [b]) := by
  induction l with
  | nil => exact ⟨hb, ⟨x, hx, hbx⟩, trivial⟩
  | cons c t ih =>
    cases t with
    | nil =>
      simp only [List.cons_append, List.nil_append] at hc ⊢
      exact ⟨hc.1, hc.2.1, hb, ⟨x, hx, hbx⟩, trivial⟩
    | cons d t' =>
      simp only [List.cons_append] at hc ⊢
      exact ⟨hc.1, hc.2.1, by simpa using ih hc.2.2⟩

/-- the forward walk returns a chain that extends what it was given -/
theorem walkFwd_chain (k : Kernel) (he start n : Nat) :
    ∀ (fuel cur : Nat) (acc res : List Nat), Chain k he (acc ++ [cur]) →
      k.walkFwd he start n fuel cur acc = .stop res →
      Chain k he res ∧ (∃ tl, res = acc ++ [cur] ++ tl) ∧
      (k.hfOnBoundaryOrDeleted (res.getLast?.getD 0) = true ∨
       ∃ x, k.adjHalffaceInCell (res.getLast?.getD 0) he = some x ∧ opp x = start) := by
  intro fuel
  induction fuel with
  | zero => intro cur acc res _ h; simp [walkFwd] at h
  | succ f ih =>
    intro cur acc res hc h
    unfold walkFwd at h
    simp only at h
    split at h
    · cases h
    · split at h
      · rename_i hb
        injection h with h; subst h
        exact ⟨hc, ⟨[], by simp⟩, Or.inl (by simpa using hb)⟩
      · rename_i hb
        split at h
        · cases h
        · rename_i a ha
          split at h
          · rename_i hs
            injection h with h; subst h
            refine ⟨hc, ⟨[], by simp⟩, Or.inr ⟨a, by simpa using ha, by simpa using hs⟩⟩
          · have hb' : k.hfOnBoundaryOrDeleted cur = false := by simpa using hb
            have := ih (opp a) (acc ++ [cur]) res (chain_append_one k he acc cur (opp a) hc hb' a ha rfl) h
            obtain ⟨c1, ⟨tl, htl⟩, c3⟩ := this
            exact ⟨c1, ⟨[opp a] ++ tl, by simp [htl]⟩, c3⟩

/-- the written-back slots: the halfedge holds the walked list, the opposite halfedge its
    mirrored reverse -/
theorem reorderWrite_slots (k : Kernel) (e : Nat) (l : List Nat)
    (h1 : heOf e 1 < k.incHfs.length) (hl : (k.hfsOf (heOf e 1)).length = l.length) :
    (k.reorderWrite e l).hfsOf (heOf e 0) = l ∧ (k.reorderWrite e l).hfsOf (heOf e 1) = l.reverse.map opp ∧
    (k.reorderWrite e l).fault = k.fault := by
  have h0 : heOf e 0 < k.incHfs.length := by unfold heOf at *; omega
  have hne : heOf e 0 ≠ heOf e 1 := by unfold heOf; omega
  have hget : (k.incHfs.set (heOf e 0) l).getD (heOf e 1) [] = k.hfsOf (heOf e 1) := by
    unfold hfsOf
    simp [List.getD_eq_getElem?_getD, List.getElem?_set, hne]
  unfold reorderWrite
  simp only [hget, hl]
  refine ⟨?_, ?_, ?_⟩
  · unfold hfsOf; simp [List.getD_eq_getElem?_getD, List.getElem?_set, Ne.symm hne, h0]
  · have hmir : (List.map opp l.reverse).length = l.length := by simp
    have : overwritePrefix (k.hfsOf (heOf e 1)) (List.take l.length (List.map opp l.reverse)) = List.map opp l.reverse := by
      unfold overwritePrefix
      rw [List.take_of_length_le (by simp), hmir]
      have : (k.hfsOf (heOf e 1)).drop l.length = [] := List.drop_eq_nil_of_le (by omega)
      rw [this]; simp
    rw [this]
    unfold hfsOf
    simp [List.getD_eq_getElem?_getD, h1, List.map_reverse]
  · simp

/-- `reorder` never changes any other slot -/
theorem reorder_other_slots (k : Kernel) (e h : Nat) (h0 : h ≠ heOf e 0) (h1 : h ≠ heOf e 1) :
    (k.reorder e).hfsOf h = k.hfsOf h := by
  unfold reorder; split
  · rfl
  · unfold reorderWrite hfsOf
    simp [List.getD_eq_getElem?_getD, List.getElem?_set, Ne.symm h0, Ne.symm h1]

/-- what `reorder` writes (when it writes) starts with the old first halfface and is a rotation
    chain of the forward walk, possibly extended to the front by the backward walk -/
theorem reorderList_forward_chain (k : Kernel) (e : Nat) (l : List Nat) (h : k.reorderList e = some l)
    (hfull : ∀ acc, k.walkFwd (heOf e 0) ((k.hfsOf (heOf e 0)).headD 0) (k.hfsOf (heOf e 0)).length
        ((k.hfsOf (heOf e 0)).length + 1) ((k.hfsOf (heOf e 0)).headD 0) [] = .stop acc →
        acc.length = (k.hfsOf (heOf e 0)).length) :
    Chain k (heOf e 0) l ∧ l.length = (k.hfsOf (heOf e 0)).length := by
  unfold reorderList at h
  simp only at h
  split at h
  · cases h
  · cases hh : (k.hfsOf (heOf e 0)).head? with
    | none => simp [hh] at h
    | some start =>
      simp only [hh] at h
      have hs : (k.hfsOf (heOf e 0)).headD 0 = start := by
        cases hl : k.hfsOf (heOf e 0) with
        | nil => simp [hl] at hh
        | cons a t => simp [hl] at hh ⊢; exact hh
      cases hw : k.walkFwd (heOf e 0) start (k.hfsOf (heOf e 0)).length ((k.hfsOf (heOf e 0)).length + 1) start [] with
      | abort => simp [hw] at h
      | stop acc =>
        simp only [hw] at h
        have hlen := hfull acc (by rw [hs]; exact hw)
        have hne : (acc.length != (k.hfsOf (heOf e 0)).length) = false := by simp [hlen]
        have hne' : ((k.hfsOf (heOf e 0)).length != (k.hfsOf (heOf e 0)).length) = false := by simp
        rw [hlen] at h
        simp only [hne', Bool.false_eq_true, if_false, hlen, beq_self_eq_true, Bool.true_and] at h
        split at h
        · simp only [Option.some.injEq] at h
          subst h
          have := walkFwd_chain k (heOf e 0) start _ _ start [] acc (by exact trivial) hw
          exact ⟨this.1, hlen⟩
        · cases h

/-- whatever `reorder` stores is a permutation of what the cache held before (since bf387da: the walk can
    visit a halfface twice in a non-manifold configuration; such an order is not stored) -/
theorem reorder_stores_permutation (k : Kernel) (e : Nat) (l : List Nat) (h : k.reorderList e = some l) :
    l.Perm (k.hfsOf (heOf e 0)) := reorderList_perm k e l h

example :
    let k : Kernel := { incHfs := [[4, 2, 0], [5, 1, 3]], eBU := true }
    (k.reorderWrite 0 [0, 2, 4]).incHfs = [[0, 2, 4], [5, 3, 1]] := by decide

/-! ### in-cell adjacency -/

/-- **soundness of `adjacent_halfface_in_cell`** for every state and every pair of handles: what it
    returns is a halfface `a` of the incident cell `c` of `hf`; that cell lists `hf`; `a` is neither
    `hf` nor its opposite; and `a` contains the opposite of the halfedge that `hf` contains — the
    given one, or (legacy flip) its opposite when `hf` contains only that. -/
theorem adj_sound (k : Kernel) (hf he a : Nat) (h : k.adjHalffaceInCell hf he = some a) :
    ∃ c, k.cellOf hf = some c ∧ hf ∈ k.cellAt c ∧ a ∈ k.cellAt c ∧ a ≠ hf ∧ a ≠ opp hf ∧
      ((he ∈ k.hfHes hf ∧ opp he ∈ k.hfHes a) ∨
       (he ∉ k.hfHes hf ∧ opp he ∈ k.hfHes hf ∧ he ∈ k.hfHes a)) := Fan.adj_sound k hf he a h

/-- **closed cells: unique and involutive.**  Let the halfface list of cell `c` be a closed surface
    (`ClosedSurface`: no halfedge used twice, every used halfedge has its opposite used — what
    `add_cell`'s check decides, C11), let `c` be the cached incident cell of its halffaces, and let
    the cell not be self-adjacent at the edge of `he` (`EdgeProper`: no halfface at that edge has
    its opposite in the cell or contains both halfedges of the edge).  For a halfface `hf` of the
    cell containing `he` there is `a` with: `adj hf he = adj hf (opp he) = a`; `a` is a halfface of
    the cell, `a ≠ hf`, `a` contains `opp he`; every other halfface of the cell touching the edge
    equals `a`; and `adj a (opp he) = adj a he = hf` ("applying it twice returns the start"). -/
theorem adj_unique_involutive (k : Kernel) (hf he c : Nat)
    (hcons : ∀ y ∈ k.cellAt c, k.cellOf y = some c) (hcl : ClosedSurface k (k.cellAt c))
    (hp : Fan.EdgeProper k (k.cellAt c) he) (hmem : hf ∈ k.cellAt c) (hhe : he ∈ k.hfHes hf) :
    ∃ a, k.adjHalffaceInCell hf he = some a ∧ k.adjHalffaceInCell hf (opp he) = some a ∧
      a ∈ k.cellAt c ∧ a ≠ hf ∧ opp he ∈ k.hfHes a ∧
      (∀ y ∈ k.cellAt c, y ≠ hf → (he ∈ k.hfHes y ∨ opp he ∈ k.hfHes y) → y = a) ∧
      k.adjHalffaceInCell a (opp he) = some hf ∧ k.adjHalffaceInCell a he = some hf :=
  Fan.adj_closed_cell k hf he c hcons hcl hp hmem hhe

/-- the involution in the form "apply twice": under the hypotheses above
    `adj (adj hf he) (opp he) = hf` -/
theorem adj_adj (k : Kernel) (hf he c : Nat)
    (hcons : ∀ y ∈ k.cellAt c, k.cellOf y = some c) (hcl : ClosedSurface k (k.cellAt c))
    (hp : Fan.EdgeProper k (k.cellAt c) he) (hmem : hf ∈ k.cellAt c) (hhe : he ∈ k.hfHes hf) :
    (k.adjHalffaceInCell hf he).bind (fun a => k.adjHalffaceInCell a (opp he)) = some hf := by
  obtain ⟨a, h1, _, _, _, _, _, h2, _⟩ := adj_unique_involutive k hf he c hcons hcl hp hmem hhe
  rw [h1]; exact h2

/-- **cells containing both halffaces of a face** (the excluded case above, stated as what the code
    does): in a closed cell that lists `hf` and `opp hf`, `adjacent_halfface_in_cell(hf, he)` is the
    invalid handle for every halfedge `he` of `hf` — the only halfface of the cell holding `opp he`
    is `opp hf`, which the scan skips (cc:2290). -/
theorem adj_selfadjacent_none (k : Kernel) (hf he c : Nat) (hc : k.cellOf hf = some c)
    (hcl : ClosedSurface k (k.cellAt c)) (hmem : hf ∈ k.cellAt c) (hopp : opp hf ∈ k.cellAt c)
    (hhe : he ∈ k.hfHes hf) : k.adjHalffaceInCell hf he = none :=
  Fan.adj_none_of_selfadjacent k hf he c hc hcl hmem hopp hhe

/-! ### rotational order on a closed ring -/

theorem chain_index (k : Kernel) (he : Nat) : ∀ (l : List Nat) (i : Nat), Chain k he l → i + 1 < l.length →
    ∃ x, k.adjHalffaceInCell (l.getD i 0) he = some x ∧ l.getD (i + 1) 0 = opp x := by
  intro l
  induction l with
  | nil => intro i _ h; simp at h
  | cons a t ih =>
    intro i hc hi
    cases t with
    | nil => simp at hi
    | cons b t' =>
      cases i with
      | zero => obtain ⟨x, hx, hb⟩ := hc.2.1; exact ⟨x, by simpa using hx, by simpa using hb⟩
      | succ j =>
        have := ih j hc.2.2 (by simp at hi ⊢; omega)
        simpa using this

theorem getLast?_getD_eq (l : List Nat) : l.getLast?.getD 0 = l.getD (l.length - 1) 0 := by
  rw [List.getLast?_eq_getElem?, List.getD_eq_getElem?_getD]

/-- **fan order on a closed ring.**  If edge `e` is surrounded by a closed ring of cells
    (`Fan.ClosedRing`: the cached halffaces of halfedge `2e` are pairwise different, each contains
    the halfedge and has a cached incident cell which is the one the definitions give, is a closed
    surface, is not self-adjacent at `e`, and is the cached cell of all its halffaces), then the
    list `reorder_incident_halffaces(e)` stores — whenever it stores one — is a permutation of the
    cached list in which every halfface is followed, cyclically, by its successor in the rotation
    around the edge as the specification computes it from the definitions (`sFanNext`: the
    opposite of the other halfface of its cell at that edge). -/
theorem reorderList_closed_ring_fan_order (k : Kernel) (e : Nat) (l : List Nat)
    (hr : Fan.ClosedRing k e) (h : k.reorderList e = some l) :
    l.Perm (k.hfsOf (heOf e 0)) ∧
    ∀ i, i < l.length → k.sFanNext (heOf e 0) (l.getD i 0) = some (l.getD ((i + 1) % l.length) 0) := by
  have hperm := reorderList_perm k e l h
  refine ⟨hperm, ?_⟩
  have hnd : l.Nodup := hperm.nodup_iff.mpr hr.1
  have hmemb : ∀ y ∈ l, Fan.RingMember k (heOf e 0) y := fun y hy => hr.2 y (hperm.mem_iff.mp hy)
  unfold reorderList at h
  simp only at h
  split at h
  · cases h
  · cases hh : (k.hfsOf (heOf e 0)).head? with
    | none => simp [hh] at h
    | some start =>
      simp only [hh] at h
      cases hw : k.walkFwd (heOf e 0) start (k.hfsOf (heOf e 0)).length ((k.hfsOf (heOf e 0)).length + 1) start [] with
      | abort => simp [hw] at h
      | stop acc =>
        simp only [hw] at h
        obtain ⟨hchain, ⟨tl, htl⟩, hclose⟩ :=
          walkFwd_chain k (heOf e 0) start _ _ start [] acc (by exact trivial) hw
        have hacc_ne : acc ≠ [] := by rw [htl]; simp
        have hz_mem : acc.getLast?.getD 0 ∈ acc := by
          rw [List.getLast?_eq_some_getLast hacc_ne]; exact List.getLast_mem hacc_ne
        have hhead : acc.getD 0 0 = start := by rw [htl]; simp
        -- the walked part is contained in what is stored
        have hsub : ∃ pre, l = pre ++ acc := by
          split at h
          · cases h
          · rename_i acc2 hres
            split at h
            · injection h with h; subst h
              split at hres
              · exact Fan.walkBwd_suffix k _ _ _ _ _ _ hres
              · injection hres with hres; exact ⟨[], by simp [hres]⟩
            · cases h
        obtain ⟨pre, hpre⟩ := hsub
        have hz_l : acc.getLast?.getD 0 ∈ l := by rw [hpre]; exact List.mem_append_right _ hz_mem
        obtain ⟨hzhe, c, hzc, _, hzm, hcd, hcl, hep, hcons⟩ := (hmemb _ hz_l).unpack
        -- the forward walk did not end at a boundary: it came back to the start
        have hclose' : ∃ x, k.adjHalffaceInCell (acc.getLast?.getD 0) (heOf e 0) = some x ∧ opp x = start := by
          rcases hclose with hb | hx
          · rw [Fan.notBoundary_of_cell k _ c hzc hcd] at hb; cases hb
          · exact hx
        obtain ⟨x, hax, hxs⟩ := hclose'
        by_cases hlen : acc.length = (k.hfsOf (heOf e 0)).length
        · -- the forward walk collected everything
          have hl : l = acc := by
            have hne : (acc.length != (k.hfsOf (heOf e 0)).length) = false := by simp [hlen]
            simp only [hne, Bool.false_eq_true, if_false] at h
            split at h
            · injection h with h; exact h.symm
            · cases h
          subst hl
          intro i hi
          by_cases hlast : i + 1 < l.length
          · obtain ⟨y, hy, hnext⟩ := chain_index k (heOf e 0) l i hchain hlast
            rw [Nat.mod_eq_of_lt hlast, hnext]
            have him : l.getD i 0 ∈ l := by
              rw [List.getD_eq_getElem?_getD, List.getElem?_eq_getElem hi]; exact List.getElem_mem hi
            exact Fan.sFanNext_of_adj k _ _ y (hmemb _ him) hy
          · have hi' : i = l.length - 1 := by omega
            have hmod : (i + 1) % l.length = 0 := by
              have : i + 1 = l.length := by omega
              rw [this, Nat.mod_self]
            rw [hmod, hhead, hi', ← getLast?_getD_eq, ← hxs]
            exact Fan.sFanNext_of_adj k _ _ x (hmemb _ hz_l) hax
        · -- otherwise the backward walk would store the last halfface a second time
          exfalso
          have hne : (acc.length != (k.hfsOf (heOf e 0)).length) = true := by simp [hlen]
          simp only [hne, if_true] at h
          obtain ⟨c', hc', _, hxm, hxz, _, hor⟩ := Fan.adj_sound k _ _ x hax
          have hcc : c' = c := by rw [hzc] at hc'; injection hc' with e; exact e.symm
          subst hcc
          have hxh : opp (heOf e 0) ∈ k.hfHes x := by
            rcases hor with h1 | h1
            · exact h1.2
            · exact absurd hzhe h1.1
          have hxeq : opp start = x := by rw [← hxs, CellCheck.opp_opp]
          have hb : k.hfOnBoundaryOrDeleted (opp start) = false := by
            rw [hxeq]; exact Fan.notBoundary_of_cell k x c' (hcons x hxm) hcd
          have hback : k.adjHalffaceInCell (opp start) (opp (heOf e 0)) = some (acc.getLast?.getD 0) := by
            rw [hxeq]
            exact Fan.adj_eq_some_of_closed k x (opp (heOf e 0)) c' _ (hcons x hxm) hcl hxm hxh hzm
              (by rw [CellCheck.opp_opp]; exact hzhe) (Ne.symm hxz) (hep x hxm (Or.inr hxh)).1
          split at h
          · cases h
          · rename_i acc2 hwb
            split at h
            · injection h with h; subst h
              obtain ⟨pre2, hp2⟩ := Fan.walkBwd_first k _ _ _ start _ acc _ hb hback hwb
              rw [hp2] at hnd
              have := (List.nodup_append.mp hnd).2.1
              exact (List.nodup_cons.mp this).1 hz_mem
            · cases h

/-- **after `reorder e` a closed ring is in rotational order** (partial): if the call stores a list
    at all, then afterwards the cache slot of halfedge `2e` is a permutation of the old slot in which
    every halfface is followed cyclically by `sFanNext` *in the new state*, and the slot of the
    opposite halfedge is its mirrored reverse.
    Partial: assumes that a list is stored (for single fans this is
    `reorderList_single_ring_stores` / `reorderList_single_fan_stores`); open chains are covered by
    `reorder_fan_order_partial`; preservation by later mutators (`RotInv`) is not covered. -/
theorem reorder_closed_ring_partial (k : Kernel) (e : Nat) (l : List Nat)
    (hr : Fan.ClosedRing k e) (h : k.reorderList e = some l)
    (h1 : heOf e 1 < k.incHfs.length) (hl : (k.hfsOf (heOf e 1)).length = (k.hfsOf (heOf e 0)).length) :
    (k.reorder e).hfsOf (heOf e 0) = l ∧ (k.reorder e).hfsOf (heOf e 1) = l.reverse.map opp ∧
    l.Perm (k.hfsOf (heOf e 0)) ∧
    ∀ i, i < l.length →
      (k.reorder e).sFanNext (heOf e 0) (l.getD i 0) = some (l.getD ((i + 1) % l.length) 0) := by
  obtain ⟨hperm, hfan⟩ := reorderList_closed_ring_fan_order k e l hr h
  have hw := reorderWrite_slots k e l h1 (by rw [hl]; exact hperm.length_eq.symm)
  have hre : k.reorder e = k.reorderWrite e l := by unfold reorder; rw [h]
  refine ⟨by rw [hre]; exact hw.1, by rw [hre]; exact hw.2.1, hperm, ?_⟩
  -- `sFanNext` reads only the cell and face definitions and the cell flags
  have hframe : ∀ hf, (k.reorder e).sFanNext (heOf e 0) hf = k.sFanNext (heOf e 0) hf := by
    intro hf
    unfold sFanNext sAdj sCellOf sCellsOfHf liveCells cellAt hfHes faceAt cDeleted nC
    simp only [reorder_cells, reorder_faces, reorder_cDel]
  intro i hi
  rw [hframe]; exact hfan i hi

/-! ### rotational order on any well-formed fan (closed ring or open chain) -/

/-- the second direction of `reorder_incident_halffaces` extends a rotation chain to the front -/
theorem walkBwd_chain (k : Kernel) (he n : Nat) (res : List Nat)
    (hback : ∀ y ∈ res, k.cellOf (opp y) = none ∨ Fan.RingMember k (opp he) (opp y)) :
    ∀ (fuel cur : Nat) (acc : List Nat), acc.head? = some cur → Chain k he acc →
      k.walkBwd (opp he) n fuel cur acc = .stop res → Chain k he res := by
  intro fuel
  induction fuel with
  | zero => intro cur acc _ _ h; simp [walkBwd] at h
  | succ f ih =>
    intro cur acc hh hc h
    unfold walkBwd at h
    simp only at h
    split at h
    · injection h with h; subst h; exact hc
    · rename_i hb
      split at h
      · cases h
      · rename_i a ha
        split at h
        · cases h
        · obtain ⟨pre, hpre⟩ := Fan.walkBwd_suffix k _ _ _ _ _ _ h
          cases acc with
          | nil => simp at hh
          | cons c t =>
            simp only [List.head?_cons, Option.some.injEq] at hh
            subst hh
            have hcm : c ∈ res := by rw [hpre]; simp
            have hb' : k.hfOnBoundaryOrDeleted (opp c) = false := by simpa using hb
            have hring : Fan.RingMember k (opp he) (opp c) := by
              rcases hback c hcm with h0 | h0
              · rw [Fan.boundary_of_cellOf_none k _ h0] at hb'; cases hb'
              · exact h0
            obtain ⟨x, hx, hxb⟩ := Fan.ring_adj k (opp he) (opp c) hring
            have hxa : x = a := by rw [ha] at hx; injection hx with hx; exact hx.symm
            subst hxa
            rw [CellCheck.opp_opp] at hxb
            obtain ⟨_, cc, hcc, _, _, hcd, _, _, hcons⟩ := hring.unpack
            obtain ⟨c', hc', _, hxm, _⟩ := Fan.adj_sound k _ _ x ha
            have : c' = cc := by rw [hcc] at hc'; injection hc' with e; exact e.symm
            subst this
            have hxnb : k.hfOnBoundaryOrDeleted x = false :=
              Fan.notBoundary_of_cell k x c' (hcons x hxm) hcd
            exact ih x (x :: c :: t) rfl
              ⟨hxnb, ⟨opp c, hxb, (CellCheck.opp_opp c).symm⟩, hc⟩ h

/-- **what `reorder_incident_halffaces` stores on a well-formed fan is in rotational order**, closed
    ring or open chain, any valence.  Hypothesis `Fan.FanOK k e` (decidable; about the definitions
    and `incident_cell_per_hf_`): the cached halffaces of halfedge `2e` are pairwise different and
    each is an interior member (its cached cell is the one the definitions give, a closed surface,
    not self-adjacent at the edge, the cached cell of all its halffaces) or has no incident cell,
    and likewise for its opposite halfface and the opposite halfedge.  Then a stored list `l` is a
    permutation of the cached one with
    * every element that has a successor in `l` is followed by its rotation successor
      `sFanNext` (so it is not a boundary halfface: a boundary halfface can only come last);
    * the last element either has no rotation successor (boundary: open chain) or its successor is
      the first element (closed ring). -/
theorem reorderList_fan_order (k : Kernel) (e : Nat) (l : List Nat)
    (hok : Fan.FanOK k e) (h : k.reorderList e = some l) :
    l.Perm (k.hfsOf (heOf e 0)) ∧
    (∀ i, i + 1 < l.length → k.sFanNext (heOf e 0) (l.getD i 0) = some (l.getD (i + 1) 0)) ∧
    (k.sFanNext (heOf e 0) (l.getD (l.length - 1) 0) = none ∨
     k.sFanNext (heOf e 0) (l.getD (l.length - 1) 0) = some (l.getD 0 0)) := by
  have hperm := reorderList_perm k e l h
  refine ⟨hperm, ?_⟩
  have hnd : l.Nodup := hperm.nodup_iff.mpr hok.1
  have hmemb : ∀ y ∈ l, Fan.FanMember k (heOf e 0) y := fun y hy => hok.2 y (hperm.mem_iff.mp hy)
  -- it is enough to have a rotation chain whose last element is a boundary or leads to the first
  suffices hkey : Chain k (heOf e 0) l ∧ l ≠ [] ∧
      (k.hfOnBoundaryOrDeleted (l.getLast?.getD 0) = true ∨
       ∃ x, k.adjHalffaceInCell (l.getLast?.getD 0) (heOf e 0) = some x ∧ opp x = l.getD 0 0) by
    obtain ⟨hchain, hlne, hclose⟩ := hkey
    have hlast_mem : l.getLast?.getD 0 ∈ l := by
      rw [List.getLast?_eq_some_getLast hlne]; exact List.getLast_mem hlne
    refine ⟨?_, ?_⟩
    · intro i hi
      obtain ⟨y, hy, hnext⟩ := chain_index k (heOf e 0) l i hchain hi
      have him : l.getD i 0 ∈ l := by
        rw [List.getD_eq_getElem?_getD, List.getElem?_eq_getElem (by omega)]; exact List.getElem_mem _
      have hnb : k.hfOnBoundaryOrDeleted (l.getD i 0) = false := by
        obtain ⟨c, hc, hm, _⟩ := Fan.adj_sound k _ _ y hy
        cases hb : k.hfOnBoundaryOrDeleted (l.getD i 0) with
        | false => rfl
        | true =>
          exfalso
          rcases (hmemb _ him).1 with h1 | h1
          · rw [Fan.ring_notBoundary k _ _ h1] at hb; cases hb
          · rw [h1.1] at hc; cases hc
      rw [hnext]
      exact Fan.sFanNext_of_adj k _ _ y ((hmemb _ him).ring_of_notBoundary hnb) hy
    · rw [← getLast?_getD_eq]
      rcases hclose with hb | ⟨x, hx, hxs⟩
      · left; exact (hmemb _ hlast_mem).sFanNext_none hb
      · right
        obtain ⟨c, hc, _⟩ := Fan.adj_sound k _ _ x hx
        have hring : Fan.RingMember k (heOf e 0) (l.getLast?.getD 0) := by
          rcases (hmemb _ hlast_mem).1 with h1 | h1
          · exact h1
          · rw [h1.1] at hc; cases hc
        rw [← hxs]
        exact Fan.sFanNext_of_adj k _ _ x hring hx
  unfold reorderList at h
  simp only at h
  split at h
  · cases h
  · cases hh : (k.hfsOf (heOf e 0)).head? with
    | none => simp [hh] at h
    | some start =>
      simp only [hh] at h
      cases hw : k.walkFwd (heOf e 0) start (k.hfsOf (heOf e 0)).length ((k.hfsOf (heOf e 0)).length + 1) start [] with
      | abort => simp [hw] at h
      | stop acc =>
        simp only [hw] at h
        obtain ⟨hchain, ⟨tl, htl⟩, hclose⟩ :=
          walkFwd_chain k (heOf e 0) start _ _ start [] acc (by exact trivial) hw
        have hacc_ne : acc ≠ [] := by rw [htl]; simp
        have hz_mem : acc.getLast?.getD 0 ∈ acc := by
          rw [List.getLast?_eq_some_getLast hacc_ne]; exact List.getLast_mem hacc_ne
        have hhead : acc.getD 0 0 = start := by rw [htl]; simp
        have hacc_head : acc.head? = some start := by rw [htl]; simp
        by_cases hlen : acc.length = (k.hfsOf (heOf e 0)).length
        · have hl : l = acc := by
            have hne : (acc.length != (k.hfsOf (heOf e 0)).length) = false := by simp [hlen]
            simp only [hne, Bool.false_eq_true, if_false] at h
            split at h
            · injection h with h; exact h.symm
            · cases h
          subst hl
          exact ⟨hchain, hacc_ne, by rw [hhead]; exact hclose⟩
        · have hne : (acc.length != (k.hfsOf (heOf e 0)).length) = true := by simp [hlen]
          simp only [hne, if_true] at h
          split at h
          · cases h
          · rename_i acc2 hwb
            split at h
            · injection h with h; subst h
              obtain ⟨pre, hpre⟩ := Fan.walkBwd_suffix k _ _ _ _ _ _ hwb
              have hz_l : acc.getLast?.getD 0 ∈ acc2 := by rw [hpre]; exact List.mem_append_right _ hz_mem
              have hlast_eq : acc2.getLast?.getD 0 = acc.getLast?.getD 0 := by
                rw [hpre, List.getLast?_append, List.getLast?_eq_some_getLast hacc_ne]; rfl
              rcases hclose with hb | ⟨x, hax, hxs⟩
              · -- open chain: the backward walk extends the chain to the front
                have hback : ∀ y ∈ acc2, k.cellOf (opp y) = none ∨ Fan.RingMember k (opp (heOf e 0)) (opp y) :=
                  fun y hy => (hmemb y hy).2
                have hc2 := walkBwd_chain k (heOf e 0) _ acc2 hback _ start acc hacc_head hchain hwb
                refine ⟨hc2, by rw [hpre]; simp [hacc_ne], Or.inl ?_⟩
                rw [hlast_eq]; exact hb
              · -- the forward walk closed a cycle that does not cover the list: the backward walk
                -- would store the last halfface a second time
                exfalso
                obtain ⟨c', hc', hzm, hxm, hxz, _, hor⟩ := Fan.adj_sound k _ _ x hax
                have hring : Fan.RingMember k (heOf e 0) (acc.getLast?.getD 0) := by
                  rcases (hmemb _ hz_l).1 with h1 | h1
                  · exact h1
                  · rw [h1.1] at hc'; cases hc'
                obtain ⟨hzhe, c, hzc, _, _, hcd, hcl, hep, hcons⟩ := hring.unpack
                have hcc : c' = c := by rw [hzc] at hc'; injection hc' with e; exact e.symm
                subst hcc
                have hxh : opp (heOf e 0) ∈ k.hfHes x := by
                  rcases hor with h1 | h1
                  · exact h1.2
                  · exact absurd hzhe h1.1
                have hxeq : opp start = x := by rw [← hxs, CellCheck.opp_opp]
                have hb : k.hfOnBoundaryOrDeleted (opp start) = false := by
                  rw [hxeq]; exact Fan.notBoundary_of_cell k x c' (hcons x hxm) hcd
                have hback : k.adjHalffaceInCell (opp start) (opp (heOf e 0)) = some (acc.getLast?.getD 0) := by
                  rw [hxeq]
                  exact Fan.adj_eq_some_of_closed k x (opp (heOf e 0)) c' _ (hcons x hxm) hcl hxm hxh hzm
                    (by rw [CellCheck.opp_opp]; exact hzhe) (Ne.symm hxz) (hep x hxm (Or.inr hxh)).1
                obtain ⟨pre2, hp2⟩ := Fan.walkBwd_first k _ _ _ start _ acc _ hb hback hwb
                rw [hp2] at hnd
                have := (List.nodup_append.mp hnd).2.1
                exact (List.nodup_cons.mp this).1 hz_mem
            · cases h

/-- **after `reorder e`, whenever it stores, the fan of edge `e` is in rotational order** (closed ring
    or open chain): the slot of halfedge `2e` holds a permutation `l` of the old slot in which every
    element with a successor is followed by its rotation successor, the last element is a boundary
    halfface or leads back to the first, and the slot of halfedge `2e+1` is the mirrored reverse
    (all evaluated in the new state).
    Partial with respect to C09: assumes that a list is stored (`reorderList_single_fan_stores`
    shows it for single fans); preservation by later mutators (`RotInv`) is not covered. -/
theorem reorder_fan_order_partial (k : Kernel) (e : Nat) (l : List Nat)
    (hok : Fan.FanOK k e) (h : k.reorderList e = some l)
    (h1 : heOf e 1 < k.incHfs.length) (hl : (k.hfsOf (heOf e 1)).length = (k.hfsOf (heOf e 0)).length) :
    (k.reorder e).hfsOf (heOf e 0) = l ∧ (k.reorder e).hfsOf (heOf e 1) = l.reverse.map opp ∧
    l.Perm (k.hfsOf (heOf e 0)) ∧
    (∀ i, i + 1 < l.length →
      (k.reorder e).sFanNext (heOf e 0) (l.getD i 0) = some (l.getD (i + 1) 0)) ∧
    ((k.reorder e).sFanNext (heOf e 0) (l.getD (l.length - 1) 0) = none ∨
     (k.reorder e).sFanNext (heOf e 0) (l.getD (l.length - 1) 0) = some (l.getD 0 0)) := by
  obtain ⟨hperm, hfan, hlast⟩ := reorderList_fan_order k e l hok h
  have hw := reorderWrite_slots k e l h1 (by rw [hl]; exact hperm.length_eq.symm)
  have hre : k.reorder e = k.reorderWrite e l := by unfold reorder; rw [h]
  have hframe : ∀ hf, (k.reorder e).sFanNext (heOf e 0) hf = k.sFanNext (heOf e 0) hf := by
    intro hf
    unfold sFanNext sAdj sCellOf sCellsOfHf liveCells cellAt hfHes faceAt cDeleted nC
    simp only [reorder_cells, reorder_faces, reorder_cDel]
  refine ⟨by rw [hre]; exact hw.1, by rw [hre]; exact hw.2.1, hperm, ?_, ?_⟩
  · intro i hi; rw [hframe]; exact hfan i hi
  · rw [hframe]; exact hlast

/-- **`reorder` does not give up on a single closed fan.**  If edge `e` is a `Fan.SingleRing` (a closed
    ring of cells whose cached list is closed under the rotation and reachable from its first
    element), `reorder_incident_halffaces(e)` stores a list. -/
theorem reorderList_single_ring_stores (k : Kernel) (e : Nat) (hs : Fan.SingleRing k e)
    (hne : k.hfsOf (heOf e 0) ≠ []) : ∃ l, k.reorderList e = some l := by
  obtain ⟨hr, hclo, hreach⟩ := hs
  obtain ⟨hnd, hring⟩ := hr
  -- closure under the model's successor
  have hcl : ∀ hf ∈ k.hfsOf (heOf e 0), ∀ x, k.adjHalffaceInCell hf (heOf e 0) = some x →
      opp x ∈ k.hfsOf (heOf e 0) := by
    intro hf hm x hx
    obtain ⟨y, hy, hny⟩ := hclo hf hm
    rw [Fan.sFanNext_of_adj k _ hf x (hring hf hm) hx] at hny
    injection hny with hny; rw [hny]; exact hy
  cases hinc : k.hfsOf (heOf e 0) with
  | nil => exact absurd hinc hne
  | cons start rest =>
    have hstart : start ∈ k.hfsOf (heOf e 0) := by rw [hinc]; exact List.mem_cons_self ..
    obtain ⟨res, hw, hrn, hrs⟩ := Fan.walkFwd_stops k (heOf e 0) start (k.hfsOf (heOf e 0))
      (fun hf hm _ => hring hf hm) hcl
      ((k.hfsOf (heOf e 0)).length + 1) start [] (by simp) (by simpa using hstart) (by simp) (by simp)
      (by exact trivial) (by simp)
    obtain ⟨hchain, ⟨tl, htl⟩, hclose⟩ :=
      walkFwd_chain k (heOf e 0) start _ _ start [] res (by exact trivial) hw
    have hres_ne : res ≠ [] := by rw [htl]; simp
    have hstart_res : start ∈ res := by rw [htl]; simp
    -- everything reachable from the start is in the walked list
    have hreach_res : ∀ i y, Fan.iterNext k (heOf e 0) i start = some y → y ∈ res := by
      intro i
      induction i with
      | zero => intro y hy; simp only [Fan.iterNext, Option.some.injEq] at hy; subst hy; exact hstart_res
      | succ i ih =>
        intro y hy
        simp only [Fan.iterNext] at hy
        cases hz : Fan.iterNext k (heOf e 0) i start with
        | none => rw [hz] at hy; cases hy
        | some z =>
          rw [hz] at hy
          simp only [Option.bind_some] at hy
          have hzr := ih z hz
          obtain ⟨j, hj, hjz⟩ := List.getElem_of_mem hzr
          have hzd : res.getD j 0 = z := by
            rw [List.getD_eq_getElem?_getD, List.getElem?_eq_getElem hj]; exact hjz
          by_cases hlast : j + 1 < res.length
          · obtain ⟨x, hx, hnext⟩ := chain_index k (heOf e 0) res j hchain hlast
            rw [hzd] at hx
            rw [Fan.sFanNext_of_adj k _ z x (hring z (hrs z hzr)) hx] at hy
            injection hy with hy
            rw [← hy, ← hnext, List.getD_eq_getElem?_getD, List.getElem?_eq_getElem hlast]
            exact List.getElem_mem hlast
          · have hj' : j = res.length - 1 := by omega
            have hzl : res.getLast?.getD 0 = z := by rw [getLast?_getD_eq, ← hj', hzd]
            rw [hzl] at hclose
            rcases hclose with hb | ⟨x, hx, hxs⟩
            · rw [Fan.ring_notBoundary k _ z (hring z (hrs z hzr))] at hb; cases hb
            · rw [Fan.sFanNext_of_adj k _ z x (hring z (hrs z hzr)) hx] at hy
              injection hy with hy
              rw [← hy, hxs]; exact hstart_res
    have hsub : ∀ y ∈ k.hfsOf (heOf e 0), y ∈ res := by
      intro y hy
      obtain ⟨i, _, hi⟩ := hreach y hy
      have hhd : (k.hfsOf (heOf e 0)).headD 0 = start := by rw [hinc]; rfl
      rw [hhd] at hi
      exact hreach_res i y hi
    have hperm : res.Perm (k.hfsOf (heOf e 0)) :=
      (List.perm_ext_iff_of_nodup hrn hnd).mpr (fun a => ⟨hrs a, hsub a⟩)
    have hlen : res.length = (k.hfsOf (heOf e 0)).length := hperm.length_eq
    -- at least two halffaces: the successor of the start is another member
    have h2 : ¬ (k.hfsOf (heOf e 0)).length < 2 := by
      obtain ⟨x, hx, _⟩ := Fan.ring_adj k _ start (hring start hstart)
      obtain ⟨_, _, _, _, _, hx2, _⟩ := Fan.adj_sound k _ _ x hx
      have hne2 : opp x ≠ start := by
        intro e2; apply hx2; rw [← e2, CellCheck.opp_opp]
      have hm2 : opp x ∈ k.hfsOf (heOf e 0) := hcl start hstart x hx
      rw [hinc] at hm2 ⊢
      cases rest with
      | nil => simp only [List.mem_singleton] at hm2; exact absurd hm2 hne2
      | cons b t => simp
    refine ⟨res, ?_⟩
    unfold reorderList
    have hhead : (k.hfsOf (heOf e 0)).head? = some start := by rw [hinc]; rfl
    have hnb : (res.length != (k.hfsOf (heOf e 0)).length) = false := by simp [hlen]
    have hip : res.isPerm (k.hfsOf (heOf e 0)) = true := List.isPerm_iff.mpr hperm
    simp only [h2, if_false, hhead, hw, hnb, Bool.false_eq_true]
    simp only [hlen, beq_self_eq_true, hip, Bool.and_self, if_true]

/-- **after `reorder e` a single closed fan is in rotational order.**  For a `Fan.SingleRing` edge
    with its two cache slots present and of equal length: the call stores a list `l`; afterwards
    the slot of halfedge `2e` is `l`, a permutation of the old slot in which every halfface is
    followed cyclically by its rotation successor (`sFanNext`, evaluated in the new state), and
    the slot of halfedge `2e+1` is the mirrored reverse `l.reverse.map opp`.
    Partial with respect to C09: the open chain (fan ending in boundary halffaces) and the
    preservation of the order by later mutators (`RotInv`) are not covered. -/
theorem reorder_single_ring_partial (k : Kernel) (e : Nat) (hs : Fan.SingleRing k e)
    (hne : k.hfsOf (heOf e 0) ≠ [])
    (h1 : heOf e 1 < k.incHfs.length) (hl : (k.hfsOf (heOf e 1)).length = (k.hfsOf (heOf e 0)).length) :
    ∃ l, (k.reorder e).hfsOf (heOf e 0) = l ∧ (k.reorder e).hfsOf (heOf e 1) = l.reverse.map opp ∧
      l.Perm (k.hfsOf (heOf e 0)) ∧
      ∀ i, i < l.length →
        (k.reorder e).sFanNext (heOf e 0) (l.getD i 0) = some (l.getD ((i + 1) % l.length) 0) := by
  obtain ⟨l, h⟩ := reorderList_single_ring_stores k e hs hne
  exact ⟨l, reorder_closed_ring_partial k e l hs.1 h h1 hl⟩

theorem chain_link (k : Kernel) (he : Nat) : ∀ (l : List Nat), Chain k he l → Fan.Link k he l := by
  intro l
  induction l with
  | nil => intro _; trivial
  | cons a t ih =>
    intro hc
    cases t with
    | nil => trivial
    | cons b r => exact ⟨hc.2.1, ih hc.2.2⟩

/-- **`reorder` does not give up on a single fan**, closed ring or open chain: if edge `e` is a
    `Fan.SingleFan` with at least two cached halffaces, `reorder_incident_halffaces(e)` stores a list
    (with fewer than two halffaces the function returns at once and there is nothing to order). -/
theorem reorderList_single_fan_stores (k : Kernel) (e : Nat) (hs : Fan.SingleFan k e)
    (h2 : 2 ≤ (k.hfsOf (heOf e 0)).length) : ∃ l, k.reorderList e = some l := by
  obtain ⟨hok, hclf, hclb, hconn⟩ := hs
  obtain ⟨hnd, hfm⟩ := hok
  have hclf' : ∀ hf ∈ k.hfsOf (heOf e 0), ∀ y, k.sFanNext (heOf e 0) hf = some y → y ∈ k.hfsOf (heOf e 0) :=
    fun hf hm y hy => hclf hf hm y (Option.mem_def.mpr hy)
  have hringF : ∀ hf ∈ k.hfsOf (heOf e 0), k.hfOnBoundaryOrDeleted hf = false →
      Fan.RingMember k (heOf e 0) hf := fun hf hm hb => (hfm hf hm).ring_of_notBoundary hb
  have hclF : ∀ hf ∈ k.hfsOf (heOf e 0), ∀ x, k.adjHalffaceInCell hf (heOf e 0) = some x →
      opp x ∈ k.hfsOf (heOf e 0) := by
    intro hf hm x hx
    exact hclf' hf hm (opp x) (Fan.sFanNext_of_adj k _ hf x ((hfm hf hm).ring_of_adj hx) hx)
  have hringB' : ∀ hf ∈ k.hfsOf (heOf e 0), k.cellOf (opp hf) ≠ none →
      Fan.RingMember k (opp (heOf e 0)) (opp hf) := by
    intro hf hm hc
    rcases (hfm hf hm).2 with h0 | h0
    · exact absurd h0 hc
    · exact h0
  have hringB : ∀ hf ∈ k.hfsOf (heOf e 0), k.hfOnBoundaryOrDeleted (opp hf) = false →
      Fan.RingMember k (opp (heOf e 0)) (opp hf) := by
    intro hf hm hb
    apply hringB' hf hm
    intro h0; rw [Fan.boundary_of_cellOf_none k _ h0] at hb; cases hb
  have hclB : ∀ hf ∈ k.hfsOf (heOf e 0), ∀ a, k.adjHalffaceInCell (opp hf) (opp (heOf e 0)) = some a →
      a ∈ k.hfsOf (heOf e 0) := by
    intro hf hm a ha
    obtain ⟨c, hc, _⟩ := Fan.adj_sound k _ _ a ha
    have hr := hringB' hf hm (by rw [hc]; simp)
    have := hclb hf hm (opp a) (Option.mem_def.mpr (Fan.sFanNext_of_adj k _ _ a hr ha))
    rwa [CellCheck.opp_opp] at this
  cases hinc : k.hfsOf (heOf e 0) with
  | nil => rw [hinc] at h2; simp at h2
  | cons start rest =>
    have hstart : start ∈ k.hfsOf (heOf e 0) := by rw [hinc]; exact List.mem_cons_self ..
    have hhd : (k.hfsOf (heOf e 0)).headD 0 = start := by rw [hinc]; rfl
    obtain ⟨fwd, hw, hfn, hfs⟩ := Fan.walkFwd_stops k (heOf e 0) start (k.hfsOf (heOf e 0)) hringF hclF
      ((k.hfsOf (heOf e 0)).length + 1) start [] (by simp) (by simpa using hstart) (by simp) (by simp)
      (by exact trivial) (by simp)
    obtain ⟨hchain, ⟨tl, htl⟩, hclose⟩ :=
      walkFwd_chain k (heOf e 0) start _ _ start [] fwd (by exact trivial) hw
    have hfwd_ne : fwd ≠ [] := by rw [htl]; simp
    have hfwd_head : fwd.head? = some start := by rw [htl]; simp
    have hfwd_headD : fwd.headD 0 = start := by rw [htl]; simp
    have hstart_fwd : start ∈ fwd := by rw [htl]; simp
    have hlink := chain_link k (heOf e 0) fwd hchain
    -- a walked list that is closed under successors and predecessors is the whole fan
    have cover : ∀ R : List Nat, R.Nodup → (∀ y ∈ R, y ∈ k.hfsOf (heOf e 0)) → start ∈ R →
        (∀ z y, z ∈ R → k.sFanNext (heOf e 0) z = some y → y ∈ R) →
        (∀ p q, p ∈ k.hfsOf (heOf e 0) → k.sFanNext (heOf e 0) p = some q → q ∈ R → p ∈ R) →
        R.Perm (k.hfsOf (heOf e 0)) := by
      intro R hRn hRs hsR hsc hpc
      refine (List.perm_ext_iff_of_nodup hRn hnd).mpr (fun a => ⟨hRs a, fun ha => ?_⟩)
      rcases hconn a ha with ⟨i, _, hi⟩ | ⟨i, _, hi⟩
      · rw [hhd] at hi; exact Fan.reach_fwd k _ R hsc i start a hsR hi
      · rw [hhd] at hi; exact Fan.reach_bwd k _ _ R hclf' hpc i a start ha hi hsR
    have hn2 : ¬ (k.hfsOf (heOf e 0)).length < 2 := by omega
    have hhead : (k.hfsOf (heOf e 0)).head? = some start := by rw [hinc]; rfl
    -- storing a list that is a permutation
    have store_fwd : fwd.Perm (k.hfsOf (heOf e 0)) → ∃ l, k.reorderList e = some l := by
      intro hperm
      have hlen := hperm.length_eq
      have hnb : (fwd.length != (k.hfsOf (heOf e 0)).length) = false := by simp [hlen]
      have hip : fwd.isPerm (k.hfsOf (heOf e 0)) = true := List.isPerm_iff.mpr hperm
      refine ⟨fwd, ?_⟩
      unfold reorderList
      simp only [hn2, if_false, hhead, hw, hnb, Bool.false_eq_true]
      simp only [hlen, beq_self_eq_true, hip, Bool.and_self, if_true]
    rcases hclose with hb | ⟨x, hx, hxs⟩
    · -- the forward walk ended at a boundary halfface: the backward walk completes the chain
      obtain ⟨R, hwb, hRn, hRs, hRl, hRfirst, pre, hpre⟩ :=
        Fan.walkBwd_stops k (heOf e 0) (k.hfsOf (heOf e 0)) hringB hclB
          ((k.hfsOf (heOf e 0)).length + 1) start fwd hfn hfs hfwd_head hlink hb
          (by have : 1 ≤ fwd.length := List.length_pos_iff.mpr hfwd_ne
              omega)
      have hRlast : R.getLast?.getD 0 = fwd.getLast?.getD 0 := by
        rw [hpre, List.getLast?_append, List.getLast?_eq_some_getLast hfwd_ne]; rfl
      have hsR : start ∈ R := by rw [hpre]; exact List.mem_append_right _ hstart_fwd
      have hperm := cover R hRn hRs hsR
        (Fan.succ_closed k _ _ R hfm hRs hRl (Or.inl (by rw [hRlast]; exact hb)))
        (Fan.pred_closed k _ _ R hfm hRs hRl (Or.inl hRfirst))
      by_cases hlen : fwd.length = (k.hfsOf (heOf e 0)).length
      · have hpl : pre = [] := by
          have h1 := hperm.length_eq
          rw [hpre, List.length_append] at h1
          exact List.eq_nil_of_length_eq_zero (by omega)
        rw [hpl, List.nil_append] at hpre
        exact store_fwd (hpre ▸ hperm)
      · have hnb : (fwd.length != (k.hfsOf (heOf e 0)).length) = true := by simp [hlen]
        have hip : R.isPerm (k.hfsOf (heOf e 0)) = true := List.isPerm_iff.mpr hperm
        have hRlen := hperm.length_eq
        refine ⟨R, ?_⟩
        unfold reorderList
        simp only [hn2, if_false, hhead, hw, hnb, if_true, hwb]
        simp only [hRlen, beq_self_eq_true, hip, Bool.and_self, if_true]
    · -- the forward walk came back to its start: it is the whole ring
      have hlast : k.hfOnBoundaryOrDeleted (fwd.getLast?.getD 0) = true ∨
          ∃ x, k.adjHalffaceInCell (fwd.getLast?.getD 0) (heOf e 0) = some x ∧ opp x = fwd.headD 0 :=
        Or.inr ⟨x, hx, by rw [hfwd_headD]; exact hxs⟩
      exact store_fwd (cover fwd hfn hfs hstart_fwd
        (Fan.succ_closed k _ _ fwd hfm hfs hlink hlast)
        (Fan.pred_closed k _ _ fwd hfm hfs hlink (Or.inr ⟨x, hx, by rw [hfwd_headD]; exact hxs⟩)))

/-- **after `reorder e` a single fan is in rotational order** (closed ring or open chain, any valence
    ≥ 2).  For a `Fan.SingleFan` edge with its two cache slots present and of equal length, the call
    stores a list `l`; afterwards the slot of halfedge `2e` is `l`, a permutation of the old slot in
    which every element with a successor in `l` is followed by its rotation successor `sFanNext`
    (hence is not a boundary halfface), the last element is a boundary halfface or leads back to
    the first, and the slot of halfedge `2e+1` is the mirrored reverse — all in the new state.
    Partial with respect to C09 only in that preservation of this order by later mutators
    (`RotInv` across histories) is not covered. -/
theorem reorder_single_fan_partial (k : Kernel) (e : Nat) (hs : Fan.SingleFan k e)
    (h2 : 2 ≤ (k.hfsOf (heOf e 0)).length)
    (h1 : heOf e 1 < k.incHfs.length) (hl : (k.hfsOf (heOf e 1)).length = (k.hfsOf (heOf e 0)).length) :
    ∃ l, (k.reorder e).hfsOf (heOf e 0) = l ∧ (k.reorder e).hfsOf (heOf e 1) = l.reverse.map opp ∧
      l.Perm (k.hfsOf (heOf e 0)) ∧
      (∀ i, i + 1 < l.length →
        (k.reorder e).sFanNext (heOf e 0) (l.getD i 0) = some (l.getD (i + 1) 0)) ∧
      ((k.reorder e).sFanNext (heOf e 0) (l.getD (l.length - 1) 0) = none ∨
       (k.reorder e).sFanNext (heOf e 0) (l.getD (l.length - 1) 0) = some (l.getD 0 0)) := by
  obtain ⟨l, h⟩ := reorderList_single_fan_stores k e hs h2
  exact ⟨l, reorder_fan_order_partial k e l hs.1 h h1 hl⟩

/-! ### towards `RotInv`: `reorder` establishes the order at its edge and keeps it elsewhere -/

theorem reorder_sameDefs (k : Kernel) (e : Nat) : Fan.SameDefs k (k.reorder e) :=
  ⟨reorder_cells k e, reorder_faces k e, reorder_cDel k e, reorder_incCell k e⟩

theorem heOf_ne_of_ne {e e' : Nat} (hne : e ≠ e') (s s' : Nat) (hs : s < 2) (hs' : s' < 2) :
    heOf e s ≠ heOf e' s' := by unfold heOf; omega

/-- the slots of edge `e` are usable: both exist with equal length, and there are at least two
    halffaces (with fewer `reorder` returns at once) -/
def SlotsOK (k : Kernel) (e : Nat) : Prop :=
  heOf e 1 < k.incHfs.length ∧ (k.hfsOf (heOf e 1)).length = (k.hfsOf (heOf e 0)).length ∧
  2 ≤ (k.hfsOf (heOf e 0)).length

instance (k : Kernel) (e : Nat) : Decidable (SlotsOK k e) := by unfold SlotsOK; exact inferInstance

/-- **`reorder e` establishes the rotational order at `e`** when `e` is a single fan (closed or open) -/
theorem reorder_establishes_order (k : Kernel) (e : Nat) (hs : Fan.SingleFan k e) (hok : SlotsOK k e) :
    Fan.FanOrdered (k.reorder e) e := by
  obtain ⟨l, h0, h1, _, hfan, hlast⟩ := reorder_single_fan_partial k e hs hok.2.2 hok.1 hok.2.1
  unfold Fan.FanOrdered
  rw [h0, h1]
  exact ⟨fun i hi => hfan i (by omega), hlast, rfl⟩

/-- `reorder e'` changes nothing the predicates at another edge `e` read -/
theorem reorder_elsewhere (k : Kernel) (e e' : Nat) (hne : e ≠ e') :
    (Fan.FanOrdered (k.reorder e') e ↔ Fan.FanOrdered k e) ∧
    (Fan.SingleFan (k.reorder e') e ↔ Fan.SingleFan k e) ∧ (SlotsOK (k.reorder e') e ↔ SlotsOK k e) := by
  have h0 : (k.reorder e').hfsOf (heOf e 0) = k.hfsOf (heOf e 0) :=
    reorder_other_slots k e' _ (heOf_ne_of_ne hne 0 0 (by omega) (by omega))
      (heOf_ne_of_ne hne 0 1 (by omega) (by omega))
  have h1 : (k.reorder e').hfsOf (heOf e 1) = k.hfsOf (heOf e 1) :=
    reorder_other_slots k e' _ (heOf_ne_of_ne hne 1 0 (by omega) (by omega))
      (heOf_ne_of_ne hne 1 1 (by omega) (by omega))
  refine ⟨(reorder_sameDefs k e').fanOrdered e h0 h1, (reorder_sameDefs k e').singleFan e h0, ?_⟩
  unfold SlotsOK
  rw [h0, h1, reorder_incHfs_length]

theorem foldl_reorder_keeps_order (es : List Nat) (e : Nat) (hne : e ∉ es) :
    ∀ (k : Kernel), Fan.FanOrdered k e → Fan.FanOrdered (es.foldl reorder k) e := by
  induction es with
  | nil => intro k h; exact h
  | cons e1 t ih =>
    intro k h
    simp only [List.foldl_cons]
    have hne1 : e ≠ e1 := fun h' => hne (h' ▸ List.mem_cons_self ..)
    exact ih (fun hm => hne (List.mem_cons_of_mem _ hm)) _ ((reorder_elsewhere k e e1 hne1).1.mpr h)

/-- **a sweep of `reorder` over pairwise different edges puts every single fan among them in
    rotational order** (this is the loop `add_cell`, `delete_face_core` and `delete_cell_core` run
    over the affected edges) -/
theorem foldl_reorder_orders (es : List Nat) (hnd : es.Nodup) :
    ∀ (k : Kernel) (e : Nat), e ∈ es → Fan.SingleFan k e → SlotsOK k e →
      Fan.FanOrdered (es.foldl reorder k) e := by
  induction es with
  | nil => intro k e he; cases he
  | cons e1 t ih =>
    intro k e he hs hok
    simp only [List.foldl_cons]
    obtain ⟨hnot, hndt⟩ := List.nodup_cons.mp hnd
    by_cases h1 : e = e1
    · subst h1
      exact foldl_reorder_keeps_order t e hnot _ (reorder_establishes_order k e hs hok)
    · have het : e ∈ t := by
        rcases List.mem_cons.mp he with h | h
        · exact absurd h h1
        · exact h
      obtain ⟨_, hsf, hsl⟩ := reorder_elsewhere k e e1 h1
      exact ih hndt _ e het (hsf.mpr hs) (hsl.mpr hok)

/-- the state inside `add_cell` after the cell has been stored and recorded in
    `incident_cell_per_hf_` (cc:438-470), before the affected edges are reordered -/
def addCellPre (k : Kernel) (hfs : List Nat) : Kernel :=
  { k with cells := k.cells ++ [hfs], cDel := k.cDel ++ [false], props := resizeC k.props (k.nC + 1),
           incCell := hfs.foldl (fun ic hf => ic.set hf (some k.nC)) k.incCell }

theorem addCellCore_eq_sweep (k : Kernel) (hfs : List Nat) (hfb : k.fBU = true) (heb : k.eBU = true) :
    k.addCellCore hfs = ((addCellPre k hfs).cellEdges hfs).foldl reorder (addCellPre k hfs) := by
  unfold addCellCore addCellPre; simp [hfb, heb]

/-- **`add_cell` leaves every affected single-fan edge in rotational order** (partial `RotInv`).
    With face and edge bottom-up incidences on, `add_cell` first records the new cell in
    `incident_cell_per_hf_` (state `addCellPre k hfs`) and then reorders the edges of the cell; every
    such edge that is a single fan in that state is in rotational order in the resulting mesh.
    Not covered: that the edges *not* touched by the new cell keep their order (their lists and
    successor maps do not change, but this is not proved here), and the deleting mutators. -/
theorem addCellCore_orders_affected_partial (k : Kernel) (hfs : List Nat) (hfb : k.fBU = true)
    (heb : k.eBU = true) (e : Nat) (he : e ∈ (addCellPre k hfs).cellEdges hfs)
    (hs : Fan.SingleFan (addCellPre k hfs) e) (hok : SlotsOK (addCellPre k hfs) e) :
    Fan.FanOrdered (k.addCellCore hfs) e := by
  rw [addCellCore_eq_sweep k hfs hfb heb]
  exact foldl_reorder_orders _ (Fan.toSet_nodup _) _ e he hs hok

/-- non-vacuity: three tetrahedra around the edge 0 = (0,1) (a closed ring of valence 3).  The
    cached list of halfedge 0 is given in the wrong rotational sense; the edge is a `ClosedRing`;
    `reorder` stores `[0, 4, 2]`, which is in fan order; in-cell adjacency across the edge is an
    involution; a boundary edge of the same mesh is not a closed ring; and in a "pillow" cell made
    of both halffaces of one face the adjacency is the invalid handle. -/
example :
    let k : Kernel :=
      { nV := 5,
        edges := [(0, 1), (1, 2), (2, 0), (1, 3), (3, 0), (1, 4), (4, 0), (2, 3), (3, 4), (4, 2)],
        faces := [[0, 2, 4], [0, 6, 8], [0, 10, 12], [5, 14, 8], [2, 14, 7], [9, 16, 12], [6, 16, 11],
                  [13, 18, 4], [10, 18, 3]],
        cells := [[1, 2, 7, 8], [3, 4, 11, 12], [5, 0, 15, 16]],
        vDel := List.replicate 5 false, eDel := List.replicate 10 false, fDel := List.replicate 9 false,
        cDel := List.replicate 3 false,
        outHes := [[0, 5, 9, 13], [1, 2, 6, 10], [3, 4, 14, 19], [7, 8, 15, 16], [11, 12, 17, 18]],
        incHfs := [[0, 2, 4], [5, 3, 1], [8, 0, 17], [16, 1, 9], [7, 0, 14], [15, 1, 6], [12, 2, 9],
                   [8, 3, 13], [11, 2, 6], [7, 3, 10], [16, 4, 13], [12, 5, 17], [15, 4, 10], [11, 5, 14],
                   [8, 6], [7, 9], [12, 10], [11, 13], [16, 14], [15, 17]],
        incCell := [some 2, some 0, some 0, some 1, some 1, some 2, none, some 0, some 0, none, none,
                    some 1, some 1, none, none, some 2, some 2, none] }
    Fan.ClosedRing k 0 ∧ Fan.SingleRing k 0 ∧ Fan.SingleFan k 0 ∧ ¬ Fan.ClosedRing k 1 ∧ k.reorderList 0 = some [0, 4, 2] ∧
    (k.reorder 0).hfsOf 0 = [0, 4, 2] ∧ (k.reorder 0).hfsOf 1 = [3, 5, 1] ∧
    k.sFanNext 0 0 = some 4 ∧ k.sFanNext 0 4 = some 2 ∧ k.sFanNext 0 2 = some 0 ∧
    k.adjHalffaceInCell 0 0 = some 5 ∧ k.adjHalffaceInCell 5 1 = some 0 ∧
    k.adjHalffaceInCell 0 1 = some 5 ∧ k.adjHalffaceInCell 5 0 = some 0 := by decide

/-- non-vacuity of `reorderList_fan_order` on an open chain: two of the three tetrahedra; the cached
    list of halfedge 0 starts in the middle of the chain, so both directions of the walk are used;
    the stored order is `[4, 2, 0]` with the boundary halfface 0 last -/
example :
    let k : Kernel :=
      { nV := 5,
        edges := [(0, 1), (1, 2), (2, 0), (1, 3), (3, 0), (1, 4), (4, 0), (2, 3), (3, 4), (4, 2)],
        faces := [[0, 2, 4], [0, 6, 8], [0, 10, 12], [5, 14, 8], [2, 14, 7], [9, 16, 12], [6, 16, 11],
                  [13, 18, 4], [10, 18, 3]],
        cells := [[1, 2, 7, 8], [3, 4, 11, 12]],
        vDel := List.replicate 5 false, eDel := List.replicate 10 false, fDel := List.replicate 9 false,
        cDel := List.replicate 2 false,
        outHes := [[0, 5, 9, 13], [1, 2, 6, 10], [3, 4, 14, 19], [7, 8, 15, 16], [11, 12, 17, 18]],
        incHfs := [[2, 0, 4], [5, 1, 3], [8, 0, 17], [16, 1, 9], [7, 0, 14], [15, 1, 6], [12, 2, 9],
                   [8, 3, 13], [11, 2, 6], [7, 3, 10], [16, 4, 13], [12, 5, 17], [15, 4, 10], [11, 5, 14],
                   [8, 6], [7, 9], [12, 10], [11, 13], [16, 14], [15, 17]],
        incCell := [none, some 0, some 0, some 1, some 1, none, none, some 0, some 0, none, none,
                    some 1, some 1, none, none, none, none, none] }
    Fan.FanOK k 0 ∧ Fan.SingleFan k 0 ∧ ¬ Fan.ClosedRing k 0 ∧ k.reorderList 0 = some [4, 2, 0] ∧
    k.sFanNext 0 4 = some 2 ∧ k.sFanNext 0 2 = some 0 ∧ k.sFanNext 0 0 = none ∧
    (k.reorder 0).hfsOf 1 = [1, 3, 5] := by decide

/-- non-vacuity of `addCellCore_orders_affected_partial`: adding the third tetrahedron to the two of
    the previous example closes the ring around edge 0; the edge is among the reordered ones, is a
    single fan with usable slots in the intermediate state, and ends up in rotational order -/
example :
    let k : Kernel :=
      { nV := 5,
        edges := [(0, 1), (1, 2), (2, 0), (1, 3), (3, 0), (1, 4), (4, 0), (2, 3), (3, 4), (4, 2)],
        faces := [[0, 2, 4], [0, 6, 8], [0, 10, 12], [5, 14, 8], [2, 14, 7], [9, 16, 12], [6, 16, 11],
                  [13, 18, 4], [10, 18, 3]],
        cells := [[1, 2, 7, 8], [3, 4, 11, 12]],
        vDel := List.replicate 5 false, eDel := List.replicate 10 false, fDel := List.replicate 9 false,
        cDel := List.replicate 2 false,
        outHes := [[0, 5, 9, 13], [1, 2, 6, 10], [3, 4, 14, 19], [7, 8, 15, 16], [11, 12, 17, 18]],
        incHfs := [[0, 2, 4], [5, 3, 1], [8, 0, 17], [16, 1, 9], [7, 0, 14], [15, 1, 6], [12, 2, 9],
                   [8, 3, 13], [11, 2, 6], [7, 3, 10], [16, 4, 13], [12, 5, 17], [15, 4, 10], [11, 5, 14],
                   [8, 6], [7, 9], [12, 10], [11, 13], [16, 14], [15, 17]],
        incCell := [none, some 0, some 0, some 1, some 1, none, none, some 0, some 0, none, none,
                    some 1, some 1, none, none, none, none, none] }
    0 ∈ (addCellPre k [5, 0, 15, 16]).cellEdges [5, 0, 15, 16] ∧
    Fan.SingleFan (addCellPre k [5, 0, 15, 16]) 0 ∧ SlotsOK (addCellPre k [5, 0, 15, 16]) 0 ∧
    Fan.FanOrdered (k.addCellCore [5, 0, 15, 16]) 0 ∧ ¬ Fan.FanOrdered (addCellPre k [5, 0, 15, 16]) 0 ∧
    (k.addCellCore [5, 0, 15, 16]).hfsOf 0 = [0, 4, 2] := by decide

example :
    let k : Kernel :=
      { nV := 3, edges := [(0, 1), (1, 2), (2, 0)], faces := [[0, 2, 4]], cells := [[0, 1]],
        vDel := List.replicate 3 false, eDel := List.replicate 3 false, fDel := [false], cDel := [false],
        incCell := [some 0, some 0], vBU := false, eBU := false }
    ClosedSurface k (k.cellAt 0) ∧ k.adjHalffaceInCell 0 0 = none ∧ k.adjHalffaceInCell 1 1 = none := by
  decide

/-! ### `RotInv`: the rotational order is an invariant of histories -/

/-- **one operation keeps the rotational order.**  State `k` satisfies the global invariant `Global.GInv`
    (OVM/Refine/Global.lean: `WF ∧ oneCell ∧ Closed ∧ FlagInv`, kept by every valid call) and the rotational-order
    invariant `Rot.RotInv` (with edge and face incidences on, every edge with two or more cached halffaces that is a
    single fan — in the permutation-invariant form `Rot.SingleFanU`, implied by `Fan.SingleFan` — is
    `Fan.FanOrdered`).  Then so does the state after any call with valid arguments (`Global.OpOK`) other than
    `set_face` / `set_cell` (`Rot.RotCovered`): `add_*`, `set_edge`, `delete_*` in deferred, immediate
    index-shifting and immediate fast mode, `swap_*_indices`, `collect_garbage`, the mode switches (including
    `enable_deferred_deletion(false)`, which collects), enabling / disabling each kind of bottom-up incidences,
    `clear`. -/
theorem rotational_order_step (k : Kernel) (op : Op) (hg : Global.GInv k) (hok : Global.OpOK k op)
    (hcov : Rot.RotCovered op) (hi : Rot.RotInv k) : Rot.RotInv (k.step op).1 :=
  Rot.rotInv_step k op hg hok hcov hi

/-- **C09, histories.**  After every history of valid calls from the empty mesh that does not use `set_face` /
    `set_cell` — in any order, any deletion mode, any toggling of the incidences — with edge and face bottom-up
    incidences on, every edge that currently is a single fan (`Fan.SingleFan`: a closed ring of cells or one open
    chain ending in boundary halffaces, any valence) is in rotational order (`Fan.FanOrdered`): in the list of halfedge
    `2e` every halfface with a successor is followed by the opposite of its in-cell neighbour across the edge
    (`sFanNext` of OVM/Spec/Fan.lean), the last one is a boundary halfface or leads back to the first, and the list
    of halfedge `2e+1` is the mirrored reverse. -/
theorem rotational_order_is_invariant (ops : List Op) (hok : Global.HistoryOK {} ops)
    (hcov : ∀ op ∈ ops, Rot.RotCovered op) (hbe : (run {} ops).eBU = true) (hbf : (run {} ops).fBU = true)
    (e : Nat) (hs : Fan.SingleFan (run {} ops) e) : Fan.FanOrdered (run {} ops) e := by
  obtain ⟨hr, hg⟩ := Rot.rotInv_reachable ops hok hcov
  exact Rot.fanOrdered_of_rotInv hg hr hbe hbf e hs

/-- the same from any state that satisfies the two invariants (e.g. a mesh that was read from a file and checked) -/
theorem rotational_order_is_invariant_from (k : Kernel) (ops : List Op) (hg : Global.GInv k) (hi : Rot.RotInv k)
    (hok : Global.HistoryOK k ops) (hcov : ∀ op ∈ ops, Rot.RotCovered op)
    (hbe : (k.run ops).eBU = true) (hbf : (k.run ops).fBU = true)
    (e : Nat) (hs : Fan.SingleFan (k.run ops) e) : Fan.FanOrdered (k.run ops) e := by
  obtain ⟨hr, hg'⟩ := Rot.rotInv_run k ops hg hok hcov hi
  exact Rot.fanOrdered_of_rotInv hg' hr hbe hbf e hs

/-- **what `add_face` does to a fan**: a cached halfface that has no rotation successor and is nobody's successor
    (a face hanging at the edge with no cell on either side — the state right after `add_face`, which appends the
    new halfface to the slot, TopologyKernel.cc:213-218) rules out the single fan as soon as the slot holds a second
    halfface; the invariant says nothing about that edge until cells are attached, and `add_cell` re-orders it. -/
theorem dangling_face_not_single_fan (k : Kernel) (e x : Nat) (hx : x ∈ k.hfsOf (heOf e 0))
    (hout : k.sFanNext (heOf e 0) x = none) (hin : ∀ z, k.sFanNext (heOf e 0) z ≠ some x)
    (h2 : 2 ≤ (k.hfsOf (heOf e 0)).length) : ¬ Fan.SingleFan k e :=
  fun hs => Rot.not_singleFanU_of_isolated hx hout hin h2 (Rot.singleFanU_of_singleFan k e hs)

/-- the three tetrahedra around the edge (0,1) of the examples above, built from the empty mesh by API calls -/
def ringOps : List Op :=
  [.addNVertices 5, .addFaceV [0, 1, 2], .addFaceV [0, 1, 3], .addFaceV [0, 1, 4], .addFaceV [0, 2, 3],
   .addFaceV [1, 2, 3], .addFaceV [0, 3, 4], .addFaceV [1, 3, 4], .addFaceV [0, 4, 2], .addFaceV [1, 4, 2],
   .addCell true [1, 2, 7, 8], .addCell true [3, 4, 11, 12], .addCell true [5, 0, 15, 16]]

set_option maxRecDepth 1000000 in
/-- non-vacuity of `rotational_order_is_invariant`: the history is valid and covered; after the three `add_cell`
    the edge 0 is a closed ring with slot `[4, 2, 0]`; deleting cell 0 (deferred) leaves an OPEN CHAIN — a single
    fan that is not a closed ring — whose slot has been re-ordered to `[0, 4, 2]` (boundary halfface 2 last), with the
    mirrored reverse `[3, 5, 1]` at the opposite halfedge: in rotational order -/
example :
    Global.historyOKB {} (ringOps ++ [.deleteCell 0]) = true ∧ (∀ op ∈ ringOps ++ [.deleteCell 0], Rot.RotCovered op) ∧
    Fan.ClosedRing (run {} ringOps) 0 ∧ (run {} ringOps).hfsOf 0 = [4, 2, 0] ∧
    Fan.SingleFan (run {} (ringOps ++ [.deleteCell 0])) 0 ∧ ¬ Fan.ClosedRing (run {} (ringOps ++ [.deleteCell 0])) 0 ∧
    Fan.FanOrdered (run {} (ringOps ++ [.deleteCell 0])) 0 ∧
    (run {} (ringOps ++ [.deleteCell 0])).hfsOf 0 = [0, 4, 2] ∧ (run {} (ringOps ++ [.deleteCell 0])).hfsOf 1 = [3, 5, 1] := by
  decide

set_option maxRecDepth 1000000 in
/-- the same through the other paths: immediate (fast) deletion; a relabeling followed by a collecting
    `collect_garbage` (face 0 becomes face 8: the slot reads `[16, 4, 2]`); and `add_face` at the edge of the open
    chain — the new halfface 18 is appended after the boundary halfface and the edge is no single fan any more -/
example :
    Global.historyOKB {} (ringOps ++ [.enableDeferred false, .deleteCell 0]) = true ∧
    Fan.SingleFan (run {} (ringOps ++ [.enableDeferred false, .deleteCell 0])) 0 ∧
    Fan.FanOrdered (run {} (ringOps ++ [.enableDeferred false, .deleteCell 0])) 0 ∧
    (run {} (ringOps ++ [.enableDeferred false, .deleteCell 0])).hfsOf 0 = [0, 4, 2] ∧
    Global.historyOKB {} (ringOps ++ [.deleteCell 0, .swapFace 0 8, .collectGarbage]) = true ∧
    Fan.SingleFan (run {} (ringOps ++ [.deleteCell 0, .swapFace 0 8, .collectGarbage])) 0 ∧
    Fan.FanOrdered (run {} (ringOps ++ [.deleteCell 0, .swapFace 0 8, .collectGarbage])) 0 ∧
    (run {} (ringOps ++ [.deleteCell 0, .swapFace 0 8, .collectGarbage])).hfsOf 0 = [16, 4, 2] ∧
    (run {} (ringOps ++ [.deleteCell 0, .addVertex, .addFaceV [0, 1, 5]])).hfsOf 0 = [0, 4, 2, 18] ∧
    ¬ Fan.SingleFan (run {} (ringOps ++ [.deleteCell 0, .addVertex, .addFaceV [0, 1, 5]])) 0 := by
  decide

end OVM.Props.C09

import OVM.Kernel.Frames
import OVM.Spec.Fan
import OVM.Props.C08
/-
  C09 — halffaces around an edge in rotational order; in-cell adjacency.
  Proved here about `reorder_incident_halffaces` as modelled (for every state):
  * whatever the forward walk collects is a rotation chain: every collected halfface but the
    last is non-boundary and is followed by the opposite of its in-cell neighbour across the
    edge; the walk starts at the list's first halfface; it stops only at a boundary halfface or
    when the successor of the last element is the start (closed fan);
  * when the walk is written back, the halfedge's slot holds exactly the walked list and the
    opposite halfedge's slot its mirrored reverse (`reverse.map opp`);
  * `reorder` changes nothing but the two slots of that edge (frame) and keeps their lengths.
  Together: right after `reorder e` on a single-fan edge the cached list is in rotational order.
  That the order survives every later mutator (`RotInv` across histories) is evaluated on every
  step of the correspondence run by the decidable fan-order predicate (Spec/Fan.lean) and is on
  the hard rung of the ladder.
-/
namespace OVM.Props.C09
open OVM OVM.Kernel

/-- consecutive elements of `l` are linked by "opposite of the in-cell neighbour across `he`" and
    every element that has a successor is not on the boundary -/
def Chain (k : Kernel) (he : Nat) : List Nat → Prop
  | a :: b :: t => k.hfOnBoundaryOrDeleted a = false ∧ (∃ x, k.adjHalffaceInCell a he = some x ∧ b = opp x) ∧ Chain k he (b :: t)
  | _ => True

theorem chain_append_one (k : Kernel) (he : Nat) (l : List Nat) (a b : Nat) (hc : Chain k he (l ++ [a]))
    (hb : k.hfOnBoundaryOrDeleted a = false) (x : Nat) (hx : k.adjHalffaceInCell a he = some x) (hbx : b = opp x) :
    Chain k he (l ++ [a] ++ [b]) := by
  induction l with
  | nil => exact ⟨hb, ⟨x, hx, hbx⟩, trivial⟩
  | cons c t ih =>
    cases t with
    | nil =>
      simp only [List.cons_append, List.nil_append] at hc ⊢
      exact ⟨hc.1, hc.2.1, hb, ⟨x, hx, hbx⟩, trivial⟩
    | cons d t' =>
      simp only [List.cons_append] at hc ⊢
      exact ⟨hc.1, hc.2.1, by simpa using ih hc.2.2⟩

/-- the forward walk returns a chain that extends what it was given -/
theorem walkFwd_chain (k : Kernel) (he start n : Nat) :
    ∀ (fuel cur : Nat) (acc res : List Nat), Chain k he (acc ++ [cur]) →
      k.walkFwd he start n fuel cur acc = .stop res →
      Chain k he res ∧ (∃ tl, res = acc ++ [cur] ++ tl) ∧
      (k.hfOnBoundaryOrDeleted (res.getLast?.getD 0) = true ∨
       ∃ x, k.adjHalffaceInCell (res.getLast?.getD 0) he = some x ∧ opp x = start) := by
  intro fuel
  induction fuel with
  | zero => intro cur acc res _ h; simp [walkFwd] at h
  | succ f ih =>
    intro cur acc res hc h
    unfold walkFwd at h
    simp only at h
    split at h
    · cases h
    · split at h
      · rename_i hb
        injection h with h; subst h
        exact ⟨hc, ⟨[], by simp⟩, Or.inl (by simpa using hb)⟩
      · rename_i hb
        split at h
        · cases h
        · rename_i a ha
          split at h
          · rename_i hs
            injection h with h; subst h
            refine ⟨hc, ⟨[], by simp⟩, Or.inr ⟨a, by simpa using ha, by simpa using hs⟩⟩
          · have hb' : k.hfOnBoundaryOrDeleted cur = false := by simpa using hb
            have := ih (opp a) (acc ++ [cur]) res (chain_append_one k he acc cur (opp a) hc hb' a ha rfl) h
            obtain ⟨c1, ⟨tl, htl⟩, c3⟩ := this
            exact ⟨c1, ⟨[opp a] ++ tl, by simp [htl]⟩, c3⟩

/-- the written-back slots: the halfedge holds the walked list, the opposite halfedge its
    mirrored reverse -/
theorem reorderWrite_slots (k : Kernel) (e : Nat) (l : List Nat)
    (h1 : heOf e 1 < k.incHfs.length) (hl : (k.hfsOf (heOf e 1)).length = l.length) :
    (k.reorderWrite e l).hfsOf (heOf e 0) = l ∧ (k.reorderWrite e l).hfsOf (heOf e 1) = l.reverse.map opp ∧
    (k.reorderWrite e l).fault = k.fault := by
  have h0 : heOf e 0 < k.incHfs.length := by unfold heOf at *; omega
  have hne : heOf e 0 ≠ heOf e 1 := by unfold heOf; omega
  have hget : (k.incHfs.set (heOf e 0) l).getD (heOf e 1) [] = k.hfsOf (heOf e 1) := by
    unfold hfsOf
    simp [List.getD_eq_getElem?_getD, List.getElem?_set, hne]
  unfold reorderWrite
  simp only [hget, hl]
  refine ⟨?_, ?_, ?_⟩
  · unfold hfsOf; simp [List.getD_eq_getElem?_getD, List.getElem?_set, Ne.symm hne, h0]
  · have hmir : (List.map opp l.reverse).length = l.length := by simp
    have : overwritePrefix (k.hfsOf (heOf e 1)) (List.take l.length (List.map opp l.reverse)) = List.map opp l.reverse := by
      unfold overwritePrefix
      rw [List.take_of_length_le (by simp), hmir]
      have : (k.hfsOf (heOf e 1)).drop l.length = [] := List.drop_eq_nil_of_le (by omega)
      rw [this]; simp
    rw [this]
    unfold hfsOf
    simp [List.getD_eq_getElem?_getD, h1, List.map_reverse]
  · simp

/-- `reorder` never changes any other slot -/
theorem reorder_other_slots (k : Kernel) (e h : Nat) (h0 : h ≠ heOf e 0) (h1 : h ≠ heOf e 1) :
    (k.reorder e).hfsOf h = k.hfsOf h := by
  unfold reorder; split
  · rfl
  · unfold reorderWrite hfsOf
    simp [List.getD_eq_getElem?_getD, List.getElem?_set, Ne.symm h0, Ne.symm h1]

/-- what `reorder` writes (when it writes) starts with the old first halfface and is a rotation
    chain of the forward walk, possibly extended to the front by the backward walk -/
theorem reorderList_forward_chain (k : Kernel) (e : Nat) (l : List Nat) (h : k.reorderList e = some l)
    (hfull : ∀ acc, k.walkFwd (heOf e 0) ((k.hfsOf (heOf e 0)).headD 0) (k.hfsOf (heOf e 0)).length
        ((k.hfsOf (heOf e 0)).length + 1) ((k.hfsOf (heOf e 0)).headD 0) [] = .stop acc →
        acc.length = (k.hfsOf (heOf e 0)).length) :
    Chain k (heOf e 0) l ∧ l.length = (k.hfsOf (heOf e 0)).length := by
  unfold reorderList at h
  simp only at h
  split at h
  · cases h
  · cases hh : (k.hfsOf (heOf e 0)).head? with
    | none => simp [hh] at h
    | some start =>
      simp only [hh] at h
      have hs : (k.hfsOf (heOf e 0)).headD 0 = start := by
        cases hl : k.hfsOf (heOf e 0) with
        | nil => simp [hl] at hh
        | cons a t => simp [hl] at hh ⊢; exact hh
      cases hw : k.walkFwd (heOf e 0) start (k.hfsOf (heOf e 0)).length ((k.hfsOf (heOf e 0)).length + 1) start [] with
      | abort => simp [hw] at h
      | stop acc =>
        simp only [hw] at h
        have hlen := hfull acc (by rw [hs]; exact hw)
        have hne : (acc.length != (k.hfsOf (heOf e 0)).length) = false := by simp [hlen]
        have hne' : ((k.hfsOf (heOf e 0)).length != (k.hfsOf (heOf e 0)).length) = false := by simp
        rw [hlen] at h
        simp only [hne', Bool.false_eq_true, if_false, hlen, beq_self_eq_true, Bool.true_and] at h
        split at h
        · simp only [Option.some.injEq] at h
          subst h
          have := walkFwd_chain k (heOf e 0) start _ _ start [] acc (by exact trivial) hw
          exact ⟨this.1, hlen⟩
        · cases h

/-- whatever `reorder` stores is a permutation of what the cache held before (since bf387da: the walk can
    visit a halfface twice in a non-manifold configuration; such an order is not stored) -/
theorem reorder_stores_permutation (k : Kernel) (e : Nat) (l : List Nat) (h : k.reorderList e = some l) :
    l.Perm (k.hfsOf (heOf e 0)) := reorderList_perm k e l h

example :
    let k : Kernel := { incHfs := [[4, 2, 0], [5, 1, 3]], eBU := true }
    (k.reorderWrite 0 [0, 2, 4]).incHfs = [[0, 2, 4], [5, 3, 1]] := by decide

end OVM.Props.C09

import OVM.Props.C05
import OVM.Refine.CircTable
import OVM.Refine.CircTetHex
import OVM.Tet.TetFinal
/-
  C05 on the meshes of the TETRAHEDRAL kernel (the `kind="tet"` traces of tools/props/c05.py).
  Props/C05.lean quantifies over the histories of the base vocabulary (`Global.HistoryOK`).  The tetrahedral kernel has
  its own vocabulary (`TetOp`: tet conveniences, `collapse_edge`, …) and its own reachability theorem (Props/C15,
  OVM/Tet/TetFinal.lean `sinv_run_all`): along every `ShapeAdmissibleAll` history `GInv` holds, every LIVE face is a
  closed triangle and every LIVE cell a tetrahedron.  Consequences here, for every such history:
  * all 26 circulator classes enumerate the brute-force incident list (the theorem of Props/C05 with `GInv` supplied
    by C15 instead of C01Reach);
  * `FaceCyc` holds, so vertex → cells is the scan `sVC` with no extra hypothesis, and face → vertices is `faceTouchesV`;
  * TetVertexIter on EVERY live cell visits its four distinct vertices `max_laps` times.
-/
namespace OVM.Props.C05Tet
open OVM OVM.Circ OVM.Kernel
open OVM.Kernel.Global (GInv CircClass EKind class_facts class_disabled FaceCyc)

/-- a closed triangle is cyclically connected -/
theorem faceCyc_of_liveLoops {k : Kernel} (h : LiveLoops k) : FaceCyc k := by
  intro f hl x hx
  have h3 := h f hl
  unfold Loop3 at h3
  split at h3
  · rename_i a b c he
    obtain ⟨h1, h2, h4⟩ := h3
    rw [he] at hx ⊢
    simp only [List.mem_cons, List.mem_nil_iff, or_false] at hx
    rcases hx with rfl | rfl | rfl
    · exact ⟨⟨b, by simp, h1.symm⟩, ⟨c, by simp, h4⟩⟩
    · exact ⟨⟨c, by simp, h2.symm⟩, ⟨a, by simp, h1⟩⟩
    · exact ⟨⟨a, by simp, h4.symm⟩, ⟨b, by simp, h2⟩⟩
  · exact h3.elim

/-- what Props/C15 delivers on every state the tetrahedral kernel reaches by admissible calls -/
theorem tet_reachable_invariants (ops : List TetOp) (h : ShapeAdmissibleAll {} ops) :
    GInv (runTetX {} ops) ∧ FaceCyc (runTetX {} ops) ∧ ∀ c, (runTetX {} ops).liveC c = true → IsTet (runTetX {} ops) c := by
  have hs := sinv_run_all ops {} sinv_empty h
  exact ⟨hs.ginv, faceCyc_of_liveLoops hs.tetQ.1, hs.tetQ.2⟩

/-- **every circulator class on every reachable state of the tetrahedral kernel** (statement as
    `C05.circulator_enumerates_incident_set`) -/
theorem tet_mesh_circulators (cls : CircClass) (ops : List TetOp) (h : ShapeAdmissibleAll {} ops)
    (x m : Nat) (hm : 1 ≤ m) (hx : cls.centreOK (runTetX {} ops) x = true) :
    let k := runTetX {} ops
    let L := cls.list k x
    (cls.needs k = true →
      L.Perm (cls.spec k x) ∧ (cls.isSet = true → L.Nodup) ∧ (∀ y ∈ L, cls.target.live k y = true) ∧
      (cls.spec k x ≠ [] → (start L).valid = true ∧ visit L m (L.length * m + 1) (start L) = rep m L ∧
        nextN L m (L.length * m) (start L) = endOf m (start L)) ∧
      (cls.spec k x = [] → (start L).valid = false)) ∧
    (cls.needs k = false → L = [] ∧ (start L).valid = false) := by
  intro k L
  have hi : GInv k := (tet_reachable_invariants ops h).1
  constructor
  · intro hn
    obtain ⟨hp, hs, hl⟩ := class_facts cls hi hx hn
    refine ⟨hp, hs, hl, ?_, ?_⟩
    · intro hne
      have hL : L ≠ [] := fun e => hne (by have := hp; rw [show cls.list k x = L from rfl, e] at this; exact this.nil_eq.symm)
      exact ⟨(C05.nonempty_is_valid L hL).1, C05.visits_list_max_laps_times L m hL hm, C05.end_is_begin_advanced L m hL hm⟩
    · intro he
      have hL : L = [] := by have := hp; rw [he] at this; exact this.eq_nil
      rw [hL]; rfl
  · intro hn
    have hL : L = [] := class_disabled cls k x hn
    exact ⟨hL, by rw [hL]; rfl⟩

/-- **vertex → cells, face → vertices, halfface → vertices, cell → vertices against the "touches" scans, with no
    hypothesis beyond reachability** (all faces of a tetrahedral mesh are closed triangles) -/
theorem tet_mesh_touch_queries (ops : List TetOp) (h : ShapeAdmissibleAll {} ops) :
    let k := runTetX {} ops
    (k.vBU = true → k.eBU = true → k.fBU = true → ∀ v, v < k.nV → k.qVC v = k.sVC v) ∧
    (∀ f, k.liveF f = true → ∀ v, v ∈ k.qFV f ↔ k.faceTouchesV f v = true) ∧
    (∀ hf, k.liveF (eOf hf) = true → ∀ v, v ∈ k.qHFV hf ↔ k.faceTouchesV (eOf hf) v = true) ∧
    (∀ c, k.liveC c = true → ∀ v, v ∈ k.qCV c ↔ (k.liveV v = true ∧ ∃ hf ∈ k.cellAt c, k.faceTouchesV (eOf hf) v = true)) := by
  intro k
  obtain ⟨hi, hy, _⟩ := tet_reachable_invariants ops h
  refine ⟨fun hv he hb v hlt => (Global.circ_vc hi.wf hi.one hi.closed hv he hb hlt).2.1 hy,
    fun f hl => (Global.circ_f hi.wf hi.closed hl).2.1.2.2 hy,
    fun hf hl => (Global.circ_hf hi.wf hi.closed hl).2.1.2.2 hy,
    fun c hl => (Global.circ_cv hi.wf hi.closed hl).2.2.2 hy⟩

/-- **TetVertexIter on every live cell of every reachable state of the tetrahedral kernel** (face kind enabled: the
    C++ reads `incident_cell`): four pairwise distinct vertices, exactly the cell's vertices, `max_laps` times -/
theorem tet_vertex_circulator (ops : List TetOp) (h : ShapeAdmissibleAll {} ops) (c m : Nat) (hm : 1 ≤ m)
    (hl : (runTetX {} ops).liveC c = true) (hb : (runTetX {} ops).fBU = true) :
    let k := runTetX {} ops
    let L := k.getCellVertices c
    L.length = 4 ∧ L.Nodup ∧ (∀ v, v ∈ L ↔ v ∈ k.cellVertSet c) ∧ (start L).valid = true ∧
    visit L m (L.length * m + 1) (start L) = k.tvIter c m ∧
    nextN L m (L.length * m) (start L) = endOf m (start L) := by
  intro k L
  obtain ⟨hi, _, ht⟩ := tet_reachable_invariants ops h
  obtain ⟨h4, hn, hmem, hrep⟩ := Global.tet_vertex_list hi hb hl (ht c hl)
  have hL : L ≠ [] := by intro e; rw [show k.getCellVertices c = L from rfl, e] at h4; cases h4
  exact ⟨h4, hn, hmem, (C05.nonempty_is_valid L hL).1,
    by rw [C05.visits_list_max_laps_times L m hL hm, hrep m], C05.end_is_begin_advanced L m hL hm⟩

/-! ### non-vacuity -/

/-- three tetrahedra built with `add_cell(v0..v3)`, then a deferred `delete_cell(1)` -/
def tetOps : List TetOp :=
  [.base (.addNVertices 6), .addCell4 true 0 1 2 3, .addCell4 true 0 2 1 4, .addCell4 true 1 2 3 5,
   .base (.deleteCell 1)]

set_option maxRecDepth 1000000 in
example :
    let k := runTetX {} tetOps
    ShapeAdmissibleAll {} tetOps ∧ k.needsGC = true ∧ k.cDel = [false, true, false] ∧
    k.qVC 1 = k.sVC 1 ∧ k.sVC 1 = [0, 2] ∧
    k.getCellVertices 2 = [1, 2, 3, 5] ∧
    visit (k.getCellVertices 2) 2 9 (start (k.getCellVertices 2)) = [1, 2, 3, 5, 1, 2, 3, 5] := by
  intro k
  have H : ShapeAdmissibleAll {} tetOps := shapeAdmissibleAll_of_B {} _ (by decide +kernel)
  have T := tet_vertex_circulator tetOps H 2 2 (by decide) (by decide +kernel) (by decide +kernel)
  have hL : k.getCellVertices 2 = [1, 2, 3, 5] := by decide +kernel
  refine ⟨H, by decide +kernel, by decide +kernel,
    (tet_mesh_touch_queries tetOps H).1 (by decide +kernel) (by decide +kernel) (by decide +kernel) 1 (by decide +kernel),
    by decide +kernel, hL, ?_⟩
  have := T.2.2.2.2.1
  rw [T.1] at this
  rw [this]; decide +kernel

end OVM.Props.C05Tet

import OVM.IO.Ascii.RtDetect2
/-
  C06, OVM-ASCII half.  Subject: `print` / `write` (lean/OVM/IO/Ascii/Print.lean, the model of
  `FileManager::writeStream`) and `parse` (lean/OVM/IO/Ascii/Parse.lean, the model of
  `FileManager::readStream`); both are tied to the code by the differential run of
  tools/props/io_ascii.py (same bytes to model and C++, result class and mesh compared).

  Positions and floating property values are number *tokens* (the text `ostream <<` printed): "to its
  printed precision" is equality of tokens; rounding/printing of doubles is not modelled (DESIGN §9).

  Domain (all hypotheses are decidable on a concrete file, see the examples at the end):
    * `WFTopo lim F`   position tokens are floating literals `operator>>` reads back verbatim
                       (`FloatTok`), handles in range, no face without halfedges, every count and valence
                       within the reader's allocation limit `lim` (`lim < 2^31`: handles are `int`s)
    * `Accepts cfg F`  the target mesh type takes every face and cell as written (always so for a
                       polyhedral mesh read without topology check; for tet/hex meshes and with the
                       check on: the mesh is one that passes — C06's "for meshes that pass it")
    * `WFProps lim F`  per property: a registered value type (all 28 of TypeNames.cc), one value per
                       entity, every value well formed for the type (`WFVal`: integers in the range of
                       their C type, `FloatTok` floats, strings of any bytes up to `lim`, containers up
                       to `lim`, `map_heh_int` with increasing keys), a non-empty name without line end
                       that does not END in '"'; pairwise distinct (kind, type, name); if
                       `VProp vec3d "ovm:position"` is listed it holds the positions.
  Restrictions that are genuine (false without them, see findings/A1-char-whitespace.md and the
  `example`s below): `char`/`uchar` values must not be white space; names must not end in '"'.

  Theorems:
    * `write_pending_refused`      pending deletions ⇒ nothing is written
    * `roundtrip_topology`         no property blocks: `parse (print F) = F`
    * `roundtrip_props`            all value types: `parse (print F) = sortProps F` — `F` with its
                                   properties listed by entity kind (V,E,HE,F,HF,C,M; order within a kind
                                   kept), which is the order of the blocks in the file
    * `roundtrip_props_set`        the same read as a statement about the *set* of properties
    * `second_roundtrip_same_bytes`, `second_roundtrip_fixpoint`   a second round trip changes nothing
    * `write_roundtrip`            the three combined on a `MeshView`
    * `accepts_poly_nochk`         `Accepts` holds for every polyhedral mesh read without topology check
    * `detect_written`             automatic type detection on a written file (`isTetrahedralMesh` /
                                   `isHexahedralMesh`): true exactly when there are cells and every cell has
                                   4 resp. 6 halffaces (that is all these functions look at)
-/
namespace OVM.Ascii

/-- **C06 (pending deletions)**: a mesh that still has pending deletions is refused. -/
theorem write_pending_refused (m : MeshView) (h : m.needsGC = true) : write m = none := by
  simp [write, h]

-- the reader is never evaluated on symbolic input below (projections of `parse …` would otherwise be
-- unfolded by the unifier)
attribute [local irreducible] readAll

/-- **C06 (round trip, all property types)**: a written file reads back as the same mesh: same counts,
    same positions (as tokens), same edge / face / cell definitions handle for handle, and the same
    persistent properties (entity kind, name, value type, values), stored in the order of the file. -/
theorem roundtrip_props (cfg : Cfg) (F : AFile) (hwf : WFTopo cfg.lim F) (hacc : Accepts cfg F)
    (hp : WFProps cfg.lim F) : (parse cfg (print F)).res = .ok (sortProps F) := by
  obtain ⟨st, h1, h2, h3⟩ := readAll_print cfg F hwf hacc hp
  rw [parse_of_readAll cfg _ st h1 h2, h3]

/-- **C06 (topology)**: a file without property blocks reads back as itself. -/
theorem roundtrip_topology (cfg : Cfg) (F : AFile) (hp : F.props = []) (hwf : WFTopo cfg.lim F)
    (hacc : Accepts cfg F) : (parse cfg (print F)).res = .ok F := by
  rw [roundtrip_props cfg F hwf hacc (wfProps_nil cfg.lim F hp), sortProps_noProps F hp]

/-- the read-back file has the topology of `F` and exactly the properties of `F` (as a set; all keys
    are distinct, so nothing is merged or lost) -/
theorem roundtrip_props_set (cfg : Cfg) (F : AFile) (hwf : WFTopo cfg.lim F) (hacc : Accepts cfg F)
    (hp : WFProps cfg.lim F) :
    ∃ G, (parse cfg (print F)).res = .ok G ∧ G.verts = F.verts ∧ G.edges = F.edges ∧ G.faces = F.faces ∧
      G.cells = F.cells ∧ (∀ p, p ∈ G.props ↔ p ∈ F.props) ∧ G.props.length = F.props.length ∧
      ∀ k, propsOf G k = propsOf F k :=
  ⟨sortProps F, roundtrip_props cfg F hwf hacc hp, rfl, rfl, rfl, rfl, fun _ => mem_sortedProps,
    by
      show (sortedProps F).length = F.props.length
      simp only [sortedProps, propsOf, List.length_flatMap, Ent.all, List.map_cons, List.map_nil, List.sum_cons,
        List.sum_nil]
      have : ∀ ps : List PropRec,
          (ps.filter (fun p => p.ent == .v)).length + ((ps.filter (fun p => p.ent == .e)).length +
          ((ps.filter (fun p => p.ent == .he)).length + ((ps.filter (fun p => p.ent == .f)).length +
          ((ps.filter (fun p => p.ent == .hf)).length + ((ps.filter (fun p => p.ent == .c)).length +
          ((ps.filter (fun p => p.ent == .m)).length + 0)))))) = ps.length := by
        intro ps
        induction ps with
        | nil => rfl
        | cons q qs ih =>
          simp only [List.filter_cons, List.length_cons]
          cases hq : q.ent <;> simp <;> omega
      exact this F.props,
    propsOf_sortProps F⟩

/-- `Accepts` is no restriction for a polyhedral mesh read without topology check -/
theorem accepts_poly_nochk (cfg : Cfg) (F : AFile) (hk : cfg.kind = .poly) (hc : cfg.chk = false)
    (hwf : WFTopo cfg.lim F) : Accepts cfg F := by
  constructor
  · intro f hf
    have hb := (hwf.faces f hf).2
    have hany : (f.any fun h => decide (F.edges.length ≤ h / 2)) = false := by
      rw [List.any_eq_false]
      intro x hx
      have := hb x hx
      simp; omega
    simp [faceDec, hk, valenceOk, hany, hc]
  · intro c hcm
    have hany := any_oob_false (hwf.cells c hcm)
    simp [cellDec, hk, cellDecBase, hany, hc]

/-- **C06 (a second round trip changes nothing)**, bytes: writing what was read gives the same file -/
theorem second_roundtrip_same_bytes (cfg : Cfg) (F G : AFile) (hwf : WFTopo cfg.lim F) (hacc : Accepts cfg F)
    (hp : WFProps cfg.lim F) (h : (parse cfg (print F)).res = .ok G) : print G = print F := by
  rw [roundtrip_props cfg F hwf hacc hp] at h
  cases h
  exact print_sortProps F

/-- **C06 (a second round trip changes nothing)**, mesh: reading that file again gives the same mesh -/
theorem second_roundtrip_fixpoint (cfg : Cfg) (F G : AFile) (hwf : WFTopo cfg.lim F) (hacc : Accepts cfg F)
    (hp : WFProps cfg.lim F) (h : (parse cfg (print F)).res = .ok G) : (parse cfg (print G)).res = .ok G := by
  rw [second_roundtrip_same_bytes cfg F G hwf hacc hp h, h]

/-- **C06 (automatic type detection)**: on a written file `isTetrahedralMesh` (`want = 4`) and
    `isHexahedralMesh` (`want = 6`) answer "there is a cell and every cell has `want` halffaces". -/
theorem detect_written (lim : Nat) (F : AFile) (hwf : WFTopo lim F) :
    detect 4 (print F) = (!F.cells.isEmpty && F.cells.all (fun c => c.length == 4)) ∧
    detect 6 (print F) = (!F.cells.isEmpty && F.cells.all (fun c => c.length == 6)) :=
  ⟨detect_print lim 4 (by decide) F hwf, detect_print lim 6 (by decide) F hwf⟩

/-- **C06, OVM-ASCII**: `writeStream` either refuses (pending deletions) or produces a text that
    `readStream` reads back as the mesh that was written. -/
theorem write_roundtrip (cfg : Cfg) (m : MeshView) (hwf : WFTopo cfg.lim m.file) (hacc : Accepts cfg m.file)
    (hp : WFProps cfg.lim m.file) :
    (m.needsGC = true → write m = none) ∧
    (m.needsGC = false → ∃ text, write m = some text ∧ (parse cfg text).res = .ok (sortProps m.file)) := by
  refine ⟨write_pending_refused m, fun h => ⟨print m.file, by simp [write, h], roundtrip_props cfg m.file hwf hacc hp⟩⟩

end OVM.Ascii

/-! ### non-vacuity: one tetrahedron with properties of several types satisfies every hypothesis -/
namespace OVM.Ascii

set_option maxRecDepth 100000
set_option exponentiation.threshold 2048

def cfgTet (chk : Bool) : Cfg := ⟨.tet, chk, 1000, fun _ hfs => some hfs⟩
def cfgPoly (chk : Bool) : Cfg := ⟨.poly, chk, 1000, fun _ hfs => some hfs⟩

def tetProps : List PropRec :=
  [⟨.m, .sc .str, kw "note", [.sc (.str (kw "two words\n# and a second line"))]⟩,
   ⟨.v, .sc .i32, kw "w", [.sc (.int 5), .sc (.int (-6)), .sc (.int 7), .sc (.int 8)]⟩,
   ⟨.c, .tup 3 .f32, kw "dir \"x\" axis", [.tup [.flt (kw "1.5"), .flt (kw "-2e+10"), .flt (kw "0")]]⟩,
   ⟨.v, .sc .f64, kw "w", [.sc (.flt (kw "0.25")), .sc (.flt (kw "1e-05")), .sc (.flt (kw "3")), .sc (.flt (kw "-0"))]⟩,
   ⟨.c, .vecvec .hfh, kw "vv", [.vecvec [[.int 3, .int (-1)], []]]⟩,
   ⟨.m, .map, kw "m", [.map [(-1, 2), (4, 5)]]⟩,
   ⟨.m, .sc .chr, kw "c", [.sc (.chr 35)]⟩]

def tetFile (ps : List PropRec) : AFile :=
  { verts := [(kw "0", kw "0", kw "0"), (kw "1", kw "0", kw "0"), (kw "0", kw "1", kw "0"), (kw "0", kw "0", kw "1")]
    edges := [(0, 1), (1, 2), (2, 0), (0, 3), (1, 3), (2, 3)]
    faces := [[0, 2, 4], [0, 8, 7], [2, 10, 9], [4, 6, 11]]
    cells := [[1, 2, 4, 6]]
    props := ps }

theorem tet_wfTopo0 : WFTopo 1000 (tetFile []) :=
  ⟨by decide, by decide, by decide, by decide, by decide, by decide, by decide, by decide, by decide, by decide, by decide⟩

/-- (the topology hypotheses do not look at the property list) -/
theorem tet_wfTopo (ps : List PropRec) : WFTopo 1000 (tetFile ps) :=
  have h := tet_wfTopo0
  ⟨h.lim31, h.posTok, h.edges, h.faces, h.cells, h.nV, h.nE, h.nF, h.nC, h.fval, h.cval⟩

theorem tet_accepts0 (chk : Bool) : Accepts (cfgTet chk) (tetFile []) := by
  cases chk <;> exact ⟨by decide, by decide⟩
theorem tet_accepts (chk : Bool) (ps : List PropRec) : Accepts (cfgTet chk) (tetFile ps) :=
  ⟨(tet_accepts0 chk).faces, (tet_accepts0 chk).cells⟩

theorem tet_accepts_poly0 (chk : Bool) : Accepts (cfgPoly chk) (tetFile []) := by
  cases chk <;> exact ⟨by decide, by decide⟩
theorem tet_accepts_poly (chk : Bool) (ps : List PropRec) : Accepts (cfgPoly chk) (tetFile ps) :=
  ⟨(tet_accepts_poly0 chk).faces, (tet_accepts_poly0 chk).cells⟩

theorem tet_wfProps : WFProps 1000 (tetFile tetProps) := by
  refine ⟨?_, by decide⟩
  intro p hp
  simp only [tetFile, tetProps, List.mem_cons, List.not_mem_nil, or_false] at hp
  rcases hp with rfl | rfl | rfl | rfl | rfl | rfl | rfl <;>
    exact wfProp_of_dec _ _ _ (by decide) (by decide) (by decide) (by decide) (by decide) (by decide)

/-- the hypotheses of `roundtrip_props`, `roundtrip_props_set`, `second_roundtrip_*`, `write_roundtrip` hold
    for the tetrahedron with seven properties, read as a tetrahedral mesh with the topology check on -/
example : (parse (cfgTet true) (print (tetFile tetProps))).res = .ok (sortProps (tetFile tetProps)) :=
  roundtrip_props _ _ (tet_wfTopo _) (tet_accepts _ _) tet_wfProps

example : (parse (cfgTet true) (print (sortProps (tetFile tetProps)))).res = .ok (sortProps (tetFile tetProps)) :=
  second_roundtrip_fixpoint _ _ _ (tet_wfTopo _) (tet_accepts _ _) tet_wfProps
    (roundtrip_props _ _ (tet_wfTopo _) (tet_accepts _ _) tet_wfProps)

/-- … and of `roundtrip_topology` for the bare tetrahedron, in all four tet/poly × check configurations -/
example (chk : Bool) : (parse (cfgTet chk) (print (tetFile []))).res = .ok (tetFile []) :=
  roundtrip_topology _ _ rfl (tet_wfTopo _) (tet_accepts _ _)
example (chk : Bool) : (parse (cfgPoly chk) (print (tetFile []))).res = .ok (tetFile []) :=
  roundtrip_topology _ _ rfl (tet_wfTopo _) (tet_accepts_poly _ _)

example : write ⟨tetFile tetProps, true⟩ = none := write_pending_refused _ rfl

example : ∃ text, write ⟨tetFile tetProps, false⟩ = some text ∧
    (parse (cfgTet true) text).res = .ok (sortProps (tetFile tetProps)) :=
  (write_roundtrip (cfgTet true) ⟨tetFile tetProps, false⟩ (tet_wfTopo _) (tet_accepts _ _) tet_wfProps).2 rfl

/-- `accepts_poly_nochk` gives `Accepts` without evaluating the kernel's decision -/
example : Accepts (cfgPoly false) (tetFile tetProps) := accepts_poly_nochk _ _ rfl rfl (tet_wfTopo _)

example : ∃ G, (parse (cfgPoly false) (print (tetFile tetProps))).res = .ok G ∧ G.cells = [[1, 2, 4, 6]] ∧
    G.props.length = 7 := by
  obtain ⟨G, h1, _, _, _, h5, _, h7, _⟩ := roundtrip_props_set (cfgPoly false) (tetFile tetProps) (tet_wfTopo _)
    (accepts_poly_nochk _ _ rfl rfl (tet_wfTopo _)) tet_wfProps
  exact ⟨G, h1, h5, h7⟩

/-- the tetrahedron is detected as a tetrahedral and not as a hexahedral mesh -/
example : detect 4 (print (tetFile tetProps)) = true ∧ detect 6 (print (tetFile tetProps)) = false := by
  have h := detect_written 1000 (tetFile tetProps) (tet_wfTopo _)
  rw [h.1, h.2]
  decide

/-- the order in which the seven properties come back -/
example : (sortProps (tetFile tetProps)).props.map (fun p => (p.ent, p.name)) =
    [(.v, kw "w"), (.v, kw "w"), (.c, kw "dir \"x\" axis"), (.c, kw "vv"), (.m, kw "note"), (.m, kw "m"), (.m, kw "c")] := by
  decide

/-! ### the restrictions are genuine (evaluations of the model on single inputs: tests, not proofs) -/

def okFile (o : Outcome) : Option AFile := match o.res with | .ok F => some F | .error _ => none

/-- a `char` property holding a blank does not survive (finding A1-char-whitespace): the reader skips
    white space and takes the next character — here it runs into the end and keeps the default 0 -/
example : okFile (parse (cfgPoly false) (print (tetFile [⟨.m, .sc .chr, kw "c", [.sc (.chr 32)]⟩]))) =
    some (tetFile [⟨.m, .sc .chr, kw "c", [.sc (.chr 0)]⟩]) := by decide

/-- … and with a block behind it, it swallows the first letter of the next declaration, which is then
    no longer recognised: the second property is lost -/
example : okFile (parse (cfgPoly false) (print (tetFile [⟨.c, .sc .chr, kw "c", [.sc (.chr 32)]⟩, ⟨.m, .sc .i32, kw "n", [.sc (.int 1)]⟩]))) =
    some (tetFile [⟨.c, .sc .chr, kw "c", [.sc (.chr 77)]⟩]) := by decide

/-- a name ending in a quote character comes back without it -/
example : okFile (parse (cfgPoly false) (print (tetFile [⟨.m, .sc .i32, kw "a\"", [.sc (.int 1)]⟩]))) =
    some (tetFile [⟨.m, .sc .i32, kw "a", [.sc (.int 1)]⟩]) := by decide

/-- an integer outside its C type is clamped and the block is refused (`fail() && !eof()`) -/
example : okFile (parse (cfgPoly false) (print (tetFile [⟨.m, .sc .i16, kw "s", [.sc (.int 40000)]⟩]))) = none := by decide

end OVM.Ascii

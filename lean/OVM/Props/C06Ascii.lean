import OVM.IO.Ascii.Parse
namespace OVM.Ascii
/-- placeholder until the round-trip theorems land (replaced below in this session) -/
theorem write_pending_refused (m : MeshView) (h : m.needsGC = true) : write m = none := by
  simp [write, h]
end OVM.Ascii

/-
  C14 — Property registry: sharing by name, visibility, persistence and lifetime safety.
  Property theorems only; the model is `OVM/Registry/{Tracker,Registry,World}.lean`, the lemmas
  are in `OVM/Registry/{TrackerProofs}.lean`.
-/
import OVM.Registry.TrackerProofs
namespace OVM.Props.C14
open OVM.Registry.Tracking

/-! ## Lifetime safety of the tracker / tracked back-pointer protocol (detail/Tracking.hh) -/

/-- For every sequence of constructions, copies, moves, assignments, `set_tracker` calls and
    destructions of trackers and tracked objects, in any order, starting from nothing:
    the two sides agree (`tracked.tracker = some t ↔ tracked ∈ t.set` for live objects, in the
    form of the two implications of `PInv`), every stored pointer targets a live object, and no
    operation ever dereferenced a pointer to a dead object. -/
theorem tracker_protocol_safe (ops : List POp) :
    PInv (prun PState.init ops) ∧ (prun PState.init ops).fault = false :=
  prun_good ops PState.init good_init

/-- the `↔` form for live objects in every reachable state -/
theorem tracker_iff_member (ops : List POp) (x t : Nat)
    (hx : ((prun PState.init ops).td x).alive = true) (ht : ((prun PState.init ops).tr t).alive = true) :
    ((prun PState.init ops).td x).tracker = some t ↔ x ∈ ((prun PState.init ops).tr t).set :=
  (tracker_protocol_safe ops).1.iff x t hx ht

/-- non-vacuity: a mesh tracker, two storages, a clone (copy + detach + attach elsewhere), the
    first mesh dies while its storages live on, then everything is destroyed -/
example :
    let ops := [POp.newTracker, .newTracked (some 0), .newTracked (some 0), .newTracker,
                .copyTracked 1, .setTracker 2 none, .setTracker 2 (some 1),
                .destroyTracker 0, .destroyTracked 1, .moveTracked 2, .destroyTracker 1, .destroyTracked 3]
    let s := prun PState.init ops
    s.fault = false ∧ (s.td 2).tracker = none ∧ (s.td 2).alive = true ∧ (s.td 0).alive = true ∧
      (s.td 1).alive = false ∧ (s.td 3).alive = false ∧ (s.tr 1).alive = false := by
  decide

/-- the flag is not vacuous: the same model does fault when a stored pointer dangles (a state
    that violates the invariant: a tracked object whose tracker is already dead) -/
example :
    let s : PState := { PState.init with td := upd PState.init.td 0 { alive := true, tracker := some 7 }, nTd := 1 }
    (pstep s (.destroyTracked 0)).fault = true := by
  decide

end OVM.Props.C14
